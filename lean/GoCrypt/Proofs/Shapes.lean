import GoCrypt.Model.Codec
import GoCrypt.Gen.Shapes
import GoCrypt.Proofs.Strconv

/-!
# The `TypeInfo` of the ten shipped scheme structs

Each `ti_<pkg>` evaluates `typeInfoOf` on the GENERATED shape (`Gen/Shapes.lean`) once, by kernel
computation; the round-trip theorems of `Props/C10` are stated on `typeInfoOf Gen.<pkg>.structs "scheme"`
and rewritten with these lemmas, so they are re-checked whenever the Go structs change.
-/

namespace GoCrypt.Codec.Shapes
open GoCrypt GoCrypt.Codec

def md5_HashPrefix : FieldInfo :=
  { index := [0], name := "HashPrefix", kind := .string, ptrDepth := 0, typeName := "hashPrefix",
    tag := [],
    marshalText := .none, unmarshalText := .whitelist [[36, 49, 36]],
    opts := { isPrefix := true, omitEmpty := false, group := false, param := [], enc := .none,
              length := 0, hasLength := false, inline := false, base := 10 } }

def md5_Salt : FieldInfo :=
  { index := [1], name := "Salt", kind := .bytes, ptrDepth := 0, typeName := "",
    tag := [],
    marshalText := .none, unmarshalText := .none,
    opts := { isPrefix := false, omitEmpty := false, group := false, param := [], enc := .hash,
              length := 0, hasLength := false, inline := false, base := 10 } }

def md5_Sum : FieldInfo :=
  { index := [2], name := "Sum", kind := .bytes, ptrDepth := 0, typeName := "",
    tag := [108, 101, 110, 103, 116, 104, 58, 50, 50],
    marshalText := .none, unmarshalText := .none,
    opts := { isPrefix := false, omitEmpty := false, group := false, param := [], enc := .hash,
              length := 22, hasLength := true, inline := false, base := 10 } }

/-- `typeInfoOf` of the generated `md5` scheme struct. -/
def md5TI : TypeInfo :=
  { hashPrefix := some md5_HashPrefix, fields := [md5_Salt, md5_Sum], numReqValues := 2 }

set_option maxRecDepth 100000 in
theorem ti_md5 : typeInfoOf GoCrypt.Gen.md5.structs "scheme" = .ok md5TI := by decide +kernel

def sha1_HashPrefix : FieldInfo :=
  { index := [0], name := "HashPrefix", kind := .string, ptrDepth := 0, typeName := "hashPrefix",
    tag := [],
    marshalText := .none, unmarshalText := .whitelist [[36, 115, 104, 97, 49, 36]],
    opts := { isPrefix := true, omitEmpty := false, group := false, param := [], enc := .none,
              length := 0, hasLength := false, inline := false, base := 10 } }

def sha1_Rounds : FieldInfo :=
  { index := [1], name := "Rounds", kind := .uint 32, ptrDepth := 0, typeName := "",
    tag := [],
    marshalText := .none, unmarshalText := .none,
    opts := { isPrefix := false, omitEmpty := false, group := false, param := [], enc := .hash,
              length := 0, hasLength := false, inline := false, base := 10 } }

def sha1_Salt : FieldInfo :=
  { index := [2], name := "Salt", kind := .bytes, ptrDepth := 0, typeName := "",
    tag := [],
    marshalText := .none, unmarshalText := .none,
    opts := { isPrefix := false, omitEmpty := false, group := false, param := [], enc := .hash,
              length := 0, hasLength := false, inline := false, base := 10 } }

def sha1_Sum : FieldInfo :=
  { index := [3], name := "Sum", kind := .byteArray 28, ptrDepth := 0, typeName := "",
    tag := [],
    marshalText := .none, unmarshalText := .none,
    opts := { isPrefix := false, omitEmpty := false, group := false, param := [], enc := .hash,
              length := 28, hasLength := true, inline := false, base := 10 } }

/-- `typeInfoOf` of the generated `sha1` scheme struct. -/
def sha1TI : TypeInfo :=
  { hashPrefix := some sha1_HashPrefix, fields := [sha1_Rounds, sha1_Salt, sha1_Sum], numReqValues := 3 }

set_option maxRecDepth 100000 in
theorem ti_sha1 : typeInfoOf GoCrypt.Gen.sha1.structs "scheme" = .ok sha1TI := by decide +kernel

def nthash_HashPrefix : FieldInfo :=
  { index := [0], name := "HashPrefix", kind := .string, ptrDepth := 0, typeName := "hashPrefix",
    tag := [],
    marshalText := .none, unmarshalText := .whitelist [[36, 51, 36]],
    opts := { isPrefix := true, omitEmpty := false, group := false, param := [], enc := .none,
              length := 0, hasLength := false, inline := false, base := 10 } }

def nthash_Empty : FieldInfo :=
  { index := [1], name := "Empty", kind := .byteArray 0, ptrDepth := 0, typeName := "",
    tag := [],
    marshalText := .none, unmarshalText := .none,
    opts := { isPrefix := false, omitEmpty := false, group := false, param := [], enc := .hash,
              length := 0, hasLength := true, inline := false, base := 10 } }

def nthash_Sum : FieldInfo :=
  { index := [2], name := "Sum", kind := .byteArray 32, ptrDepth := 0, typeName := "",
    tag := [],
    marshalText := .none, unmarshalText := .none,
    opts := { isPrefix := false, omitEmpty := false, group := false, param := [], enc := .hash,
              length := 32, hasLength := true, inline := false, base := 10 } }

/-- `typeInfoOf` of the generated `nthash` scheme struct. -/
def nthashTI : TypeInfo :=
  { hashPrefix := some nthash_HashPrefix, fields := [nthash_Empty, nthash_Sum], numReqValues := 2 }

set_option maxRecDepth 100000 in
theorem ti_nthash : typeInfoOf GoCrypt.Gen.nthash.structs "scheme" = .ok nthashTI := by decide +kernel

def sha256_HashPrefix : FieldInfo :=
  { index := [0], name := "HashPrefix", kind := .string, ptrDepth := 0, typeName := "hashPrefix",
    tag := [],
    marshalText := .none, unmarshalText := .whitelist [[36, 53, 36]],
    opts := { isPrefix := true, omitEmpty := false, group := false, param := [], enc := .none,
              length := 0, hasLength := false, inline := false, base := 10 } }

def sha256_Rounds : FieldInfo :=
  { index := [1], name := "Rounds", kind := .uint 32, ptrDepth := 0, typeName := "",
    tag := [112, 97, 114, 97, 109, 58, 114, 111, 117, 110, 100, 115, 44, 111, 109, 105, 116, 101, 109, 112, 116, 121],
    marshalText := .none, unmarshalText := .none,
    opts := { isPrefix := false, omitEmpty := true, group := false, param := [114, 111, 117, 110, 100, 115], enc := .hash,
              length := 0, hasLength := false, inline := false, base := 10 } }

def sha256_Salt : FieldInfo :=
  { index := [2], name := "Salt", kind := .bytes, ptrDepth := 0, typeName := "",
    tag := [],
    marshalText := .none, unmarshalText := .none,
    opts := { isPrefix := false, omitEmpty := false, group := false, param := [], enc := .hash,
              length := 0, hasLength := false, inline := false, base := 10 } }

def sha256_Sum : FieldInfo :=
  { index := [3], name := "Sum", kind := .byteArray 43, ptrDepth := 0, typeName := "",
    tag := [],
    marshalText := .none, unmarshalText := .none,
    opts := { isPrefix := false, omitEmpty := false, group := false, param := [], enc := .hash,
              length := 43, hasLength := true, inline := false, base := 10 } }

/-- `typeInfoOf` of the generated `sha256` scheme struct. -/
def sha256TI : TypeInfo :=
  { hashPrefix := some sha256_HashPrefix, fields := [sha256_Rounds, sha256_Salt, sha256_Sum], numReqValues := 2 }

set_option maxRecDepth 100000 in
theorem ti_sha256 : typeInfoOf GoCrypt.Gen.sha256.structs "scheme" = .ok sha256TI := by decide +kernel

def sha512_HashPrefix : FieldInfo :=
  { index := [0], name := "HashPrefix", kind := .string, ptrDepth := 0, typeName := "hashPrefix",
    tag := [],
    marshalText := .none, unmarshalText := .whitelist [[36, 54, 36]],
    opts := { isPrefix := true, omitEmpty := false, group := false, param := [], enc := .none,
              length := 0, hasLength := false, inline := false, base := 10 } }

def sha512_Rounds : FieldInfo :=
  { index := [1], name := "Rounds", kind := .uint 32, ptrDepth := 0, typeName := "",
    tag := [112, 97, 114, 97, 109, 58, 114, 111, 117, 110, 100, 115, 44, 111, 109, 105, 116, 101, 109, 112, 116, 121],
    marshalText := .none, unmarshalText := .none,
    opts := { isPrefix := false, omitEmpty := true, group := false, param := [114, 111, 117, 110, 100, 115], enc := .hash,
              length := 0, hasLength := false, inline := false, base := 10 } }

def sha512_Salt : FieldInfo :=
  { index := [2], name := "Salt", kind := .bytes, ptrDepth := 0, typeName := "",
    tag := [],
    marshalText := .none, unmarshalText := .none,
    opts := { isPrefix := false, omitEmpty := false, group := false, param := [], enc := .hash,
              length := 0, hasLength := false, inline := false, base := 10 } }

def sha512_Sum : FieldInfo :=
  { index := [3], name := "Sum", kind := .byteArray 86, ptrDepth := 0, typeName := "",
    tag := [],
    marshalText := .none, unmarshalText := .none,
    opts := { isPrefix := false, omitEmpty := false, group := false, param := [], enc := .hash,
              length := 86, hasLength := true, inline := false, base := 10 } }

/-- `typeInfoOf` of the generated `sha512` scheme struct. -/
def sha512TI : TypeInfo :=
  { hashPrefix := some sha512_HashPrefix, fields := [sha512_Rounds, sha512_Salt, sha512_Sum], numReqValues := 2 }

set_option maxRecDepth 100000 in
theorem ti_sha512 : typeInfoOf GoCrypt.Gen.sha512.structs "scheme" = .ok sha512TI := by decide +kernel

def des_HashPrefix : FieldInfo :=
  { index := [0], name := "HashPrefix", kind := .string, ptrDepth := 0, typeName := "hashPrefix",
    tag := [111, 109, 105, 116, 101, 109, 112, 116, 121],
    marshalText := .none, unmarshalText := .whitelist [[]],
    opts := { isPrefix := true, omitEmpty := true, group := false, param := [], enc := .none,
              length := 0, hasLength := false, inline := false, base := 10 } }

def des_Salt : FieldInfo :=
  { index := [1], name := "Salt", kind := .bytes, ptrDepth := 0, typeName := "",
    tag := [108, 101, 110, 103, 116, 104, 58, 50, 44, 105, 110, 108, 105, 110, 101],
    marshalText := .none, unmarshalText := .none,
    opts := { isPrefix := false, omitEmpty := false, group := false, param := [], enc := .hash,
              length := 2, hasLength := true, inline := true, base := 10 } }

def des_Sum : FieldInfo :=
  { index := [2], name := "Sum", kind := .byteArray 11, ptrDepth := 0, typeName := "",
    tag := [],
    marshalText := .none, unmarshalText := .none,
    opts := { isPrefix := false, omitEmpty := false, group := false, param := [], enc := .hash,
              length := 11, hasLength := true, inline := false, base := 10 } }

/-- `typeInfoOf` of the generated `des` scheme struct. -/
def desTI : TypeInfo :=
  { hashPrefix := some des_HashPrefix, fields := [des_Salt, des_Sum], numReqValues := 1 }

set_option maxRecDepth 100000 in
theorem ti_des : typeInfoOf GoCrypt.Gen.des.structs "scheme" = .ok desTI := by decide +kernel

def desext_HashPrefix : FieldInfo :=
  { index := [0], name := "HashPrefix", kind := .string, ptrDepth := 0, typeName := "hashPrefix",
    tag := [],
    marshalText := .none, unmarshalText := .whitelist [[95]],
    opts := { isPrefix := true, omitEmpty := false, group := false, param := [], enc := .none,
              length := 0, hasLength := false, inline := false, base := 10 } }

def desext_Rounds : FieldInfo :=
  { index := [1], name := "Rounds", kind := .uint 32, ptrDepth := 0, typeName := "hashRounds",
    tag := [108, 101, 110, 103, 116, 104, 58, 52, 44, 105, 110, 108, 105, 110, 101],
    marshalText := .desInt, unmarshalText := .desInt,
    opts := { isPrefix := false, omitEmpty := false, group := false, param := [], enc := .hash,
              length := 4, hasLength := true, inline := true, base := 10 } }

def desext_Salt : FieldInfo :=
  { index := [2], name := "Salt", kind := .bytes, ptrDepth := 0, typeName := "",
    tag := [108, 101, 110, 103, 116, 104, 58, 52, 44, 105, 110, 108, 105, 110, 101],
    marshalText := .none, unmarshalText := .none,
    opts := { isPrefix := false, omitEmpty := false, group := false, param := [], enc := .hash,
              length := 4, hasLength := true, inline := true, base := 10 } }

def desext_Sum : FieldInfo :=
  { index := [3], name := "Sum", kind := .byteArray 11, ptrDepth := 0, typeName := "",
    tag := [],
    marshalText := .none, unmarshalText := .none,
    opts := { isPrefix := false, omitEmpty := false, group := false, param := [], enc := .hash,
              length := 11, hasLength := true, inline := false, base := 10 } }

/-- `typeInfoOf` of the generated `desext` scheme struct. -/
def desextTI : TypeInfo :=
  { hashPrefix := some desext_HashPrefix, fields := [desext_Rounds, desext_Salt, desext_Sum], numReqValues := 1 }

set_option maxRecDepth 100000 in
theorem ti_desext : typeInfoOf GoCrypt.Gen.desext.structs "scheme" = .ok desextTI := by decide +kernel

def bcrypt_HashPrefix : FieldInfo :=
  { index := [0], name := "HashPrefix", kind := .string, ptrDepth := 0, typeName := "hashPrefix",
    tag := [],
    marshalText := .none, unmarshalText := .whitelist [[36, 50, 36], [36, 50, 97, 36], [36, 50, 98, 36]],
    opts := { isPrefix := true, omitEmpty := false, group := false, param := [], enc := .none,
              length := 0, hasLength := false, inline := false, base := 10 } }

def bcrypt_Cost : FieldInfo :=
  { index := [1], name := "Cost", kind := .uint 8, ptrDepth := 0, typeName := "hashCost",
    tag := [108, 101, 110, 103, 116, 104, 58, 50],
    marshalText := .twoDigit, unmarshalText := .none,
    opts := { isPrefix := false, omitEmpty := false, group := false, param := [], enc := .hash,
              length := 2, hasLength := true, inline := false, base := 10 } }

def bcrypt_Salt : FieldInfo :=
  { index := [2], name := "Salt", kind := .bytes, ptrDepth := 0, typeName := "",
    tag := [108, 101, 110, 103, 116, 104, 58, 50, 50, 44, 105, 110, 108, 105, 110, 101],
    marshalText := .none, unmarshalText := .none,
    opts := { isPrefix := false, omitEmpty := false, group := false, param := [], enc := .hash,
              length := 22, hasLength := true, inline := true, base := 10 } }

def bcrypt_Sum : FieldInfo :=
  { index := [3], name := "Sum", kind := .byteArray 31, ptrDepth := 0, typeName := "",
    tag := [],
    marshalText := .none, unmarshalText := .none,
    opts := { isPrefix := false, omitEmpty := false, group := false, param := [], enc := .hash,
              length := 31, hasLength := true, inline := false, base := 10 } }

/-- `typeInfoOf` of the generated `bcrypt` scheme struct. -/
def bcryptTI : TypeInfo :=
  { hashPrefix := some bcrypt_HashPrefix, fields := [bcrypt_Cost, bcrypt_Salt, bcrypt_Sum], numReqValues := 2 }

set_option maxRecDepth 100000 in
theorem ti_bcrypt : typeInfoOf GoCrypt.Gen.bcrypt.structs "scheme" = .ok bcryptTI := by decide +kernel

def sunmd5_HashPrefix : FieldInfo :=
  { index := [0, 0], name := "HashPrefix", kind := .string, ptrDepth := 0, typeName := "hashPrefix",
    tag := [],
    marshalText := .none, unmarshalText := .whitelist [[36, 109, 100, 53, 44], [36, 109, 100, 53, 36]],
    opts := { isPrefix := true, omitEmpty := false, group := false, param := [], enc := .none,
              length := 0, hasLength := false, inline := false, base := 10 } }

def sunmd5_Rounds : FieldInfo :=
  { index := [0, 1], name := "Rounds", kind := .uint 32, ptrDepth := 0, typeName := "",
    tag := [112, 97, 114, 97, 109, 58, 114, 111, 117, 110, 100, 115],
    marshalText := .none, unmarshalText := .none,
    opts := { isPrefix := false, omitEmpty := false, group := false, param := [114, 111, 117, 110, 100, 115], enc := .hash,
              length := 0, hasLength := false, inline := false, base := 10 } }

def sunmd5_Salt : FieldInfo :=
  { index := [0, 2], name := "Salt", kind := .bytes, ptrDepth := 0, typeName := "",
    tag := [111, 109, 105, 116, 101, 109, 112, 116, 121],
    marshalText := .none, unmarshalText := .none,
    opts := { isPrefix := false, omitEmpty := true, group := false, param := [], enc := .hash,
              length := 0, hasLength := false, inline := false, base := 10 } }

def sunmd5_Separator : FieldInfo :=
  { index := [0, 3], name := "Separator", kind := .string, ptrDepth := 1, typeName := "",
    tag := [108, 101, 110, 103, 116, 104, 58, 48, 44, 111, 109, 105, 116, 101, 109, 112, 116, 121],
    marshalText := .none, unmarshalText := .none,
    opts := { isPrefix := false, omitEmpty := true, group := false, param := [], enc := .hash,
              length := 0, hasLength := true, inline := false, base := 10 } }

def sunmd5_Sum : FieldInfo :=
  { index := [1], name := "Sum", kind := .byteArray 22, ptrDepth := 0, typeName := "",
    tag := [],
    marshalText := .none, unmarshalText := .none,
    opts := { isPrefix := false, omitEmpty := false, group := false, param := [], enc := .hash,
              length := 22, hasLength := true, inline := false, base := 10 } }

/-- `typeInfoOf` of the generated `sunmd5` scheme struct. -/
def sunmd5TI : TypeInfo :=
  { hashPrefix := some sunmd5_HashPrefix, fields := [sunmd5_Rounds, sunmd5_Salt, sunmd5_Separator, sunmd5_Sum], numReqValues := 2 }

set_option maxRecDepth 100000 in
theorem ti_sunmd5 : typeInfoOf GoCrypt.Gen.sunmd5.structs "scheme" = .ok sunmd5TI := by decide +kernel

def argon2_HashPrefix : FieldInfo :=
  { index := [0], name := "HashPrefix", kind := .string, ptrDepth := 0, typeName := "hashPrefix",
    tag := [],
    marshalText := .none, unmarshalText := .whitelist [[36, 97, 114, 103, 111, 110, 50, 100, 36], [36, 97, 114, 103, 111, 110, 50, 105, 36], [36, 97, 114, 103, 111, 110, 50, 105, 100, 36]],
    opts := { isPrefix := true, omitEmpty := false, group := false, param := [], enc := .none,
              length := 0, hasLength := false, inline := false, base := 10 } }

def argon2_Version : FieldInfo :=
  { index := [1], name := "Version", kind := .uint 8, ptrDepth := 0, typeName := "",
    tag := [112, 97, 114, 97, 109, 58, 118, 44, 111, 109, 105, 116, 101, 109, 112, 116, 121],
    marshalText := .none, unmarshalText := .none,
    opts := { isPrefix := false, omitEmpty := true, group := false, param := [118], enc := .hash,
              length := 0, hasLength := false, inline := false, base := 10 } }

def argon2_Memory : FieldInfo :=
  { index := [2], name := "Memory", kind := .uint 32, ptrDepth := 0, typeName := "",
    tag := [112, 97, 114, 97, 109, 58, 109, 44, 103, 114, 111, 117, 112],
    marshalText := .none, unmarshalText := .none,
    opts := { isPrefix := false, omitEmpty := false, group := true, param := [109], enc := .hash,
              length := 0, hasLength := false, inline := false, base := 10 } }

def argon2_Time : FieldInfo :=
  { index := [3], name := "Time", kind := .uint 32, ptrDepth := 0, typeName := "",
    tag := [112, 97, 114, 97, 109, 58, 116, 44, 103, 114, 111, 117, 112],
    marshalText := .none, unmarshalText := .none,
    opts := { isPrefix := false, omitEmpty := false, group := true, param := [116], enc := .hash,
              length := 0, hasLength := false, inline := false, base := 10 } }

def argon2_Threads : FieldInfo :=
  { index := [4], name := "Threads", kind := .uint 8, ptrDepth := 0, typeName := "",
    tag := [112, 97, 114, 97, 109, 58, 112, 44, 103, 114, 111, 117, 112],
    marshalText := .none, unmarshalText := .none,
    opts := { isPrefix := false, omitEmpty := false, group := true, param := [112], enc := .hash,
              length := 0, hasLength := false, inline := false, base := 10 } }

def argon2_Salt : FieldInfo :=
  { index := [5], name := "Salt", kind := .bytes, ptrDepth := 0, typeName := "",
    tag := [101, 110, 99, 58, 98, 97, 115, 101, 54, 52],
    marshalText := .none, unmarshalText := .none,
    opts := { isPrefix := false, omitEmpty := false, group := false, param := [], enc := .base64,
              length := 0, hasLength := false, inline := false, base := 10 } }

def argon2_Sum : FieldInfo :=
  { index := [6], name := "Sum", kind := .bytes, ptrDepth := 0, typeName := "",
    tag := [101, 110, 99, 58, 98, 97, 115, 101, 54, 52],
    marshalText := .none, unmarshalText := .none,
    opts := { isPrefix := false, omitEmpty := false, group := false, param := [], enc := .base64,
              length := 0, hasLength := false, inline := false, base := 10 } }

/-- `typeInfoOf` of the generated `argon2` scheme struct. -/
def argon2TI : TypeInfo :=
  { hashPrefix := some argon2_HashPrefix, fields := [argon2_Version, argon2_Memory, argon2_Time, argon2_Threads, argon2_Salt, argon2_Sum], numReqValues := 2 }

set_option maxRecDepth 100000 in
theorem ti_argon2 : typeInfoOf GoCrypt.Gen.argon2.structs "scheme" = .ok argon2TI := by decide +kernel

end GoCrypt.Codec.Shapes
