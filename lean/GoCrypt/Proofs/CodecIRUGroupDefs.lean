import GoCrypt.Proofs.CodecIRUTop

/-!
# Codec IR: `Unmarshal` — shared definitions for the loop with grouped params and for the top level

* `tailModel`: the end of the model's `unmarshalTree` (close an open group, then the left-over check) as a function of the loop state;
* `ShortG`: texts of group MEMBERS within the loop bound (`LInv.short` only speaks of value fragments);
* `GroupRep`: what slot 8 (`group`) and slot 7 (`numGroupValues`) of `Unmarshal` hold for a model state;
* `LoopTailOk`: "the loop over `ti.Fields` followed by the checks after it = `loopFields` then `tailModel`", the interface between
  the loop proofs (`CodecIRULoopG.lean` for all field lists, `CodecIRUMain.lean` for group-free ones) and the top level.
Definitions and two `rfl`-lemmas only.
-/

namespace GoCrypt.CIR
open GoCrypt.Codec GoCrypt.Gen.codecIR GoCrypt.Parse
open GoCrypt.TIIR (RType Res kindNum fiType fiObj tiObj encVal optsVals Reps RepOpt)

/-- The end of `unmarshalTree`: an open group must be used up and is closed; no fragment may be left. -/
def tailModel (st : LoopSt) : Except UErr Vals := do
  let st ←
    match st.group with
    | some g =>
      if st.numGroupValues > 0 then throw (.ute "group" (groupEnd g) "" .excessiveFragment)
      else pure { st with frags := st.frags.tail, group := none }
    | none => pure st
  match st.frags with
  | f :: _ => throw (.ute (fragKind f) (fragEnd f) "" .excessiveFragment)
  | [] => pure st.out

/-- The prefix part of `unmarshalTree`. -/
def prefixModel (ti : TypeInfo) (hashLen : Nat) (tree : Tree) : Except UErr Vals :=
  match ti.hashPrefix, tree.pfx with
  | some hp, some p => do
    let (s, _) ← fieldText hp "prefix" p.length p
    let fv ← storeValue hp "prefix" p.length s
    pure [(hp.index, fv)]
  | some hp, none =>
    if hp.opts.omitEmpty then pure [] else throw (.ute "EOF" hashLen hp.name .prefixNotFound)
  | none, some p => throw (.ute "prefix" p.length "" .excessivePrefix)
  | none, none => pure []

theorem unmarshalTree_eq (ti : TypeInfo) (hashLen : Nat) (tree : Tree) :
    unmarshalTree ti hashLen tree = (do
      let out0 ← prefixModel ti hashLen tree
      let st ← loopFields hashLen ti.fields
        { frags := tree.frags, numValues := tree.frags.length, numReq := ti.numReqValues, out := out0 }
      tailModel st) := by
  unfold unmarshalTree prefixModel tailModel
  simp only [bind, Except.bind, pure, Except.pure, throw, throwThe, MonadExceptOf.throw]
  cases ti.hashPrefix <;> cases tree.pfx <;> simp only [] <;>
    (try (split <;> try rfl)) <;> (try (split <;> try rfl)) <;> (try (split <;> try rfl)) <;> (try (split <;> try rfl))

/-- Texts of group members are within the bound `F`. -/
def ShortG (F : Nat) (frags : List Frag) : Prop := ∀ g, Frag.group g ∈ frags → ∀ v ∈ g, v.val.length ≤ F

/-- Groups have at most `F` members (the inner loop over `group.Values` runs within the loop bound). -/
def GroupsLe (F : Nat) (frags : List Frag) : Prop := ∀ g, Frag.group g ∈ frags → g.length ≤ F

/-- What `group` (slot 8) and `numGroupValues` (slot 7) hold for the model state `st` whose fragments live at `lay`:
no group open — `nil` (the counter is then arbitrary); a group `g` open — a group node whose members represent `g`, which is either
the node of the head fragment itself (`Frag.group g`) or the synthetic one-member node `&parse.GroupNode{Values: {frag}}` made over the
head VALUE fragment; the counter, cut off at 0, is the model's. -/
def GroupRep (mm : Mem) (st : LoopSt) (lay : List FA) (gv : Val) (ngv : Int) : Prop :=
  match st.group with
  | none => gv = .nil
  | some g => Int.toNat ngv = st.numGroupValues ∧
      ∃ ga ms, gv = .node ga ∧ mm.nodes[ga]? = some (.group ms) ∧ ms ≠ [] ∧ All2 (RepVNode mm) ms g ∧
        ∃ fa lay' f rest, lay = fa :: lay' ∧ st.frags = f :: rest ∧
          ((fa = .group ga ms ∧ f = .group g) ∨ (∃ na v, fa = .value na ∧ ms = [na] ∧ f = .value v ∧ g = [v]))

/-- `LInv` without the "no group open" clause, plus `ShortG` and `GroupRep`. -/
structure LInvG (heap0 : TIIR.Heap) (as : List Nat) (F : Nat) (mm : Mem) (st : LoopSt) (fragIdx : Nat) (lay : List FA)
    (gv : Val) (ngv : Int) : Prop where
  heap : mm.heap = heap0
  addr : as.drop fragIdx = lay.map FA.addr
  frags : All2 (RepFA mm) lay st.frags
  nodup : (lay.flatMap FA.vaddrs).Nodup
  short : ∀ v, Frag.value v ∈ st.frags → v.val.length ≤ F
  shortG : ShortG F st.frags
  group : GroupRep mm st lay gv ngv

theorem LInvG.toLInv {heap0 : TIIR.Heap} {as : List Nat} {F : Nat} {mm : Mem} {st : LoopSt} {fragIdx : Nat} {lay : List FA}
    {gv : Val} {ngv : Int} (h : LInvG heap0 as F mm st fragIdx lay gv ngv) (hn : st.group = none) :
    LInv heap0 as F mm st fragIdx lay ∧ gv = .nil :=
  ⟨⟨h.heap, h.addr, h.frags, h.nodup, hn, h.short⟩, by have := h.group; unfold GroupRep at this; rw [hn] at this; exact this⟩

theorem LInvG.ofLInv {heap0 : TIIR.Heap} {as : List Nat} {F : Nat} {mm : Mem} {st : LoopSt} {fragIdx : Nat} {lay : List FA}
    (h : LInv heap0 as F mm st fragIdx lay) (hs : ShortG F st.frags) (ngv : Int) : LInvG heap0 as F mm st fragIdx lay .nil ngv :=
  ⟨h.heap, h.addr, h.frags, h.nodup, h.short, hs, by unfold GroupRep; rw [h.nogroup]⟩

/-- Statements 15–18 of `Unmarshal`: the loop over `ti.Fields` and the two checks after it. -/
def uLT : Stmt := unmarshalTopIR.body.drop 15

theorem uLT_split (c : Ctx) (m : Mem) (env : Env) :
    exec c uLT m env =
      (loop (fun m env => eval c m env uLoop.forCond >>= asBool) (exec c uBody) (exec c uLoop.forPost) c.fuel m env).andThen (exec c uTail) := by
  have h1 : uLT = (uLoop ;;; uTail) := rfl
  have h2 : uLoop = .for_ uLoop.forCond uLoop.forPost uBody := rfl
  rw [h1, exec_seq, h2]
  rfl

/-- **Interface**: started in a state that represents `s` (no group open, field position 0), the loop over `fields` followed by the
checks after it returns the error of `loopFields … fields s >>= tailModel`, or `nil` with the destination cells holding its assignments. -/
def LoopTailOk (c : Ctx) (hash : Bytes) (t t0 : RType) (pv : Val) (as : List Nat) (tia : Nat) (addrs : List Nat) (heap0 : TIIR.Heap)
    (allF fields : List FieldInfo) : Prop :=
  ∀ (mm : Mem) (s : LoopSt) (fragIdx : Nat) (lay : List FA) (ngv : Int) (fiv fragv : Val) (j : List Val),
    LInv heap0 as c.fuel mm s fragIdx lay → ShortG c.fuel s.frags → GroupsLe c.fuel s.frags → CellsOk mm allF s.out → ZeroRest mm fields →
    match loopFields hash.length fields s >>= tailModel with
    | .error e => ∃ m' v, exec c uLT mm (tEnv hash t t0 pv as tia addrs fragIdx ngv .nil s.numValues s.numReq 0 fiv fragv j) = .ret m' [v] ∧
        absErrU heap0 v = some e
    | .ok out => ∃ mm', exec c uLT mm (tEnv hash t t0 pv as tia addrs fragIdx ngv .nil s.numValues s.numReq 0 fiv fragv j) = .ret mm' [.nil] ∧
        CellsOk mm' allF out

end GoCrypt.CIR
