import GoCrypt.Proofs.A2IRSpecs

/-!
# Block IR, step 2a: `blamkaGeneric` as regenerated = the model's `Argon2.blamka`

The body is split (`exec_take_drop`) into the 4 load statements, 8 groups of 12 statements (each is the
model's `gb` on four of the sixteen local words) and the 4 store statements.  Every group is run on a
concrete 32-slot frame with symbolic words; `gb` stays folded between the groups.
-/

namespace GoCrypt.A2IR
open GoCrypt.Gen.argon2IR GoCrypt.Kdf

/-- `uint64(uint32(x))` as the interpreter computes it = the model's `x.toUInt32.toUInt64`. -/
theorem conv_u64_u32 (x : UInt64) :
    UInt64.ofNat (x.toNat % 4294967296 % 18446744073709551616) = x.toUInt32.toUInt64 := by
  apply UInt64.toNat_inj.mp
  simp [UInt64.toNat_ofNat']
  omega

/-- The 12-statement group of `blamkaGeneric` on slots `a b c d` (with the `.skip` that `Stmt.take` appends). -/
def gbStmts (a b c d : Nat) : Stmt :=
  .assign [.var a] [(.bin .add (.var a) (.bin .add (.var b) (.bin .mul (.bin .mul (.u64 2) (.conv .u64 (.conv .u32 (.var a)))) (.conv .u64 (.conv .u32 (.var b))))))] ;;;
  .assign [.var d] [(.bin .xor (.var d) (.var a))] ;;;
  .assign [.var d] [(.bin .bor (.shr (.var d) 32) (.shl (.var d) 32))] ;;;
  .assign [.var c] [(.bin .add (.var c) (.bin .add (.var d) (.bin .mul (.bin .mul (.u64 2) (.conv .u64 (.conv .u32 (.var c)))) (.conv .u64 (.conv .u32 (.var d))))))] ;;;
  .assign [.var b] [(.bin .xor (.var b) (.var c))] ;;;
  .assign [.var b] [(.bin .bor (.shr (.var b) 24) (.shl (.var b) 40))] ;;;
  .assign [.var a] [(.bin .add (.var a) (.bin .add (.var b) (.bin .mul (.bin .mul (.u64 2) (.conv .u64 (.conv .u32 (.var a)))) (.conv .u64 (.conv .u32 (.var b))))))] ;;;
  .assign [.var d] [(.bin .xor (.var d) (.var a))] ;;;
  .assign [.var d] [(.bin .bor (.shr (.var d) 16) (.shl (.var d) 48))] ;;;
  .assign [.var c] [(.bin .add (.var c) (.bin .add (.var d) (.bin .mul (.bin .mul (.u64 2) (.conv .u64 (.conv .u32 (.var c)))) (.conv .u64 (.conv .u32 (.var d))))))] ;;;
  .assign [.var b] [(.bin .xor (.var b) (.var c))] ;;;
  .assign [.var b] [(.bin .bor (.shr (.var b) 63) (.shl (.var b) 1))] ;;;
  .skip

/-- The frame of `blamkaGeneric` once the sixteen words are loaded. -/
abbrev BEnv (p00 p01 p02 p03 p04 p05 p06 p07 p08 p09 p10 p11 p12 p13 p14 p15 : Val)
    (v00 v01 v02 v03 v04 v05 v06 v07 v08 v09 v10 v11 v12 v13 v14 v15 : UInt64) : Env :=
  [p00, p01, p02, p03, p04, p05, p06, p07, p08, p09, p10, p11, p12, p13, p14, p15,
   .u64 v00, .u64 v01, .u64 v02, .u64 v03, .u64 v04, .u64 v05, .u64 v06, .u64 v07,
   .u64 v08, .u64 v09, .u64 v10, .u64 v11, .u64 v12, .u64 v13, .u64 v14, .u64 v15]

/-- The body after its first `n` statements. -/
def blamkaRest (n : Nat) : Stmt := Stmt.drop n proc_blamkaGeneric.body

theorem blamkaRest_zero : proc_blamkaGeneric.body = blamkaRest 0 := id rfl

theorem blamka_grp0_stmts : Stmt.take 12 (blamkaRest 4) = gbStmts 16 20 24 28 := id rfl
theorem blamka_grp0_rest : Stmt.drop 12 (blamkaRest 4) = blamkaRest 16 := id rfl
theorem blamka_grp1_stmts : Stmt.take 12 (blamkaRest 16) = gbStmts 17 21 25 29 := id rfl
theorem blamka_grp1_rest : Stmt.drop 12 (blamkaRest 16) = blamkaRest 28 := id rfl
theorem blamka_grp2_stmts : Stmt.take 12 (blamkaRest 28) = gbStmts 18 22 26 30 := id rfl
theorem blamka_grp2_rest : Stmt.drop 12 (blamkaRest 28) = blamkaRest 40 := id rfl
theorem blamka_grp3_stmts : Stmt.take 12 (blamkaRest 40) = gbStmts 19 23 27 31 := id rfl
theorem blamka_grp3_rest : Stmt.drop 12 (blamkaRest 40) = blamkaRest 52 := id rfl
theorem blamka_grp4_stmts : Stmt.take 12 (blamkaRest 52) = gbStmts 16 21 26 31 := id rfl
theorem blamka_grp4_rest : Stmt.drop 12 (blamkaRest 52) = blamkaRest 64 := id rfl
theorem blamka_grp5_stmts : Stmt.take 12 (blamkaRest 64) = gbStmts 17 22 27 28 := id rfl
theorem blamka_grp5_rest : Stmt.drop 12 (blamkaRest 64) = blamkaRest 76 := id rfl
theorem blamka_grp6_stmts : Stmt.take 12 (blamkaRest 76) = gbStmts 18 23 24 29 := id rfl
theorem blamka_grp6_rest : Stmt.drop 12 (blamkaRest 76) = blamkaRest 88 := id rfl
theorem blamka_grp7_stmts : Stmt.take 12 (blamkaRest 88) = gbStmts 19 20 25 30 := id rfl
theorem blamka_grp7_rest : Stmt.drop 12 (blamkaRest 88) = blamkaRest 100 := id rfl
theorem blamka_loads_rest : Stmt.drop 4 (blamkaRest 0) = blamkaRest 4 := id rfl

section groups
variable (c : Ctx) (h : Heap) (p00 p01 p02 p03 p04 p05 p06 p07 p08 p09 p10 p11 p12 p13 p14 p15 : Val)
  (v00 v01 v02 v03 v04 v05 v06 v07 v08 v09 v10 v11 v12 v13 v14 v15 : UInt64)

theorem blamka_grp0 :
    exec c (gbStmts 16 20 24 28) h (BEnv p00 p01 p02 p03 p04 p05 p06 p07 p08 p09 p10 p11 p12 p13 p14 p15
      v00 v01 v02 v03 v04 v05 v06 v07 v08 v09 v10 v11 v12 v13 v14 v15) =
    .norm h (BEnv p00 p01 p02 p03 p04 p05 p06 p07 p08 p09 p10 p11 p12 p13 p14 p15
      (Argon2.gb v00 v04 v08 v12).1 v01 v02 v03 (Argon2.gb v00 v04 v08 v12).2.1 v05 v06 v07 (Argon2.gb v00 v04 v08 v12).2.2.1 v09 v10 v11 (Argon2.gb v00 v04 v08 v12).2.2.2 v13 v14 v15) := by
  simp only [gbStmts, BEnv]
  a2_simp [conv_u64_u32]
  rfl

theorem blamka_grp1 :
    exec c (gbStmts 17 21 25 29) h (BEnv p00 p01 p02 p03 p04 p05 p06 p07 p08 p09 p10 p11 p12 p13 p14 p15
      v00 v01 v02 v03 v04 v05 v06 v07 v08 v09 v10 v11 v12 v13 v14 v15) =
    .norm h (BEnv p00 p01 p02 p03 p04 p05 p06 p07 p08 p09 p10 p11 p12 p13 p14 p15
      v00 (Argon2.gb v01 v05 v09 v13).1 v02 v03 v04 (Argon2.gb v01 v05 v09 v13).2.1 v06 v07 v08 (Argon2.gb v01 v05 v09 v13).2.2.1 v10 v11 v12 (Argon2.gb v01 v05 v09 v13).2.2.2 v14 v15) := by
  simp only [gbStmts, BEnv]
  a2_simp [conv_u64_u32]
  rfl

theorem blamka_grp2 :
    exec c (gbStmts 18 22 26 30) h (BEnv p00 p01 p02 p03 p04 p05 p06 p07 p08 p09 p10 p11 p12 p13 p14 p15
      v00 v01 v02 v03 v04 v05 v06 v07 v08 v09 v10 v11 v12 v13 v14 v15) =
    .norm h (BEnv p00 p01 p02 p03 p04 p05 p06 p07 p08 p09 p10 p11 p12 p13 p14 p15
      v00 v01 (Argon2.gb v02 v06 v10 v14).1 v03 v04 v05 (Argon2.gb v02 v06 v10 v14).2.1 v07 v08 v09 (Argon2.gb v02 v06 v10 v14).2.2.1 v11 v12 v13 (Argon2.gb v02 v06 v10 v14).2.2.2 v15) := by
  simp only [gbStmts, BEnv]
  a2_simp [conv_u64_u32]
  rfl

theorem blamka_grp3 :
    exec c (gbStmts 19 23 27 31) h (BEnv p00 p01 p02 p03 p04 p05 p06 p07 p08 p09 p10 p11 p12 p13 p14 p15
      v00 v01 v02 v03 v04 v05 v06 v07 v08 v09 v10 v11 v12 v13 v14 v15) =
    .norm h (BEnv p00 p01 p02 p03 p04 p05 p06 p07 p08 p09 p10 p11 p12 p13 p14 p15
      v00 v01 v02 (Argon2.gb v03 v07 v11 v15).1 v04 v05 v06 (Argon2.gb v03 v07 v11 v15).2.1 v08 v09 v10 (Argon2.gb v03 v07 v11 v15).2.2.1 v12 v13 v14 (Argon2.gb v03 v07 v11 v15).2.2.2) := by
  simp only [gbStmts, BEnv]
  a2_simp [conv_u64_u32]
  rfl

theorem blamka_grp4 :
    exec c (gbStmts 16 21 26 31) h (BEnv p00 p01 p02 p03 p04 p05 p06 p07 p08 p09 p10 p11 p12 p13 p14 p15
      v00 v01 v02 v03 v04 v05 v06 v07 v08 v09 v10 v11 v12 v13 v14 v15) =
    .norm h (BEnv p00 p01 p02 p03 p04 p05 p06 p07 p08 p09 p10 p11 p12 p13 p14 p15
      (Argon2.gb v00 v05 v10 v15).1 v01 v02 v03 v04 (Argon2.gb v00 v05 v10 v15).2.1 v06 v07 v08 v09 (Argon2.gb v00 v05 v10 v15).2.2.1 v11 v12 v13 v14 (Argon2.gb v00 v05 v10 v15).2.2.2) := by
  simp only [gbStmts, BEnv]
  a2_simp [conv_u64_u32]
  rfl

theorem blamka_grp5 :
    exec c (gbStmts 17 22 27 28) h (BEnv p00 p01 p02 p03 p04 p05 p06 p07 p08 p09 p10 p11 p12 p13 p14 p15
      v00 v01 v02 v03 v04 v05 v06 v07 v08 v09 v10 v11 v12 v13 v14 v15) =
    .norm h (BEnv p00 p01 p02 p03 p04 p05 p06 p07 p08 p09 p10 p11 p12 p13 p14 p15
      v00 (Argon2.gb v01 v06 v11 v12).1 v02 v03 v04 v05 (Argon2.gb v01 v06 v11 v12).2.1 v07 v08 v09 v10 (Argon2.gb v01 v06 v11 v12).2.2.1 (Argon2.gb v01 v06 v11 v12).2.2.2 v13 v14 v15) := by
  simp only [gbStmts, BEnv]
  a2_simp [conv_u64_u32]
  rfl

theorem blamka_grp6 :
    exec c (gbStmts 18 23 24 29) h (BEnv p00 p01 p02 p03 p04 p05 p06 p07 p08 p09 p10 p11 p12 p13 p14 p15
      v00 v01 v02 v03 v04 v05 v06 v07 v08 v09 v10 v11 v12 v13 v14 v15) =
    .norm h (BEnv p00 p01 p02 p03 p04 p05 p06 p07 p08 p09 p10 p11 p12 p13 p14 p15
      v00 v01 (Argon2.gb v02 v07 v08 v13).1 v03 v04 v05 v06 (Argon2.gb v02 v07 v08 v13).2.1 (Argon2.gb v02 v07 v08 v13).2.2.1 v09 v10 v11 v12 (Argon2.gb v02 v07 v08 v13).2.2.2 v14 v15) := by
  simp only [gbStmts, BEnv]
  a2_simp [conv_u64_u32]
  rfl

theorem blamka_grp7 :
    exec c (gbStmts 19 20 25 30) h (BEnv p00 p01 p02 p03 p04 p05 p06 p07 p08 p09 p10 p11 p12 p13 p14 p15
      v00 v01 v02 v03 v04 v05 v06 v07 v08 v09 v10 v11 v12 v13 v14 v15) =
    .norm h (BEnv p00 p01 p02 p03 p04 p05 p06 p07 p08 p09 p10 p11 p12 p13 p14 p15
      v00 v01 v02 (Argon2.gb v03 v04 v09 v14).1 (Argon2.gb v03 v04 v09 v14).2.1 v05 v06 v07 v08 (Argon2.gb v03 v04 v09 v14).2.2.1 v10 v11 v12 v13 (Argon2.gb v03 v04 v09 v14).2.2.2 v15) := by
  simp only [gbStmts, BEnv]
  a2_simp [conv_u64_u32]
  rfl

end groups
/-! ## array and heap helpers -/

theorem arr_set!_set! {α} (a : Array α) (i : Nat) (x y : α) : (a.set! i x).set! i y = a.set! i y := by
  simp [Array.set!_eq_setIfInBounds]

theorem arr_get!_set!_self {α} [Inhabited α] (a : Array α) (i : Nat) (x : α) (hi : i < a.size) :
    (a.set! i x)[i]! = x := by
  simp [Array.set!_eq_setIfInBounds, hi]

theorem arr_get!_set!_ne {α} [Inhabited α] (a : Array α) (i j : Nat) (x : α) (hne : i ≠ j) :
    (a.set! i x)[j]! = a[j]! := by
  simp [Array.set!_eq_setIfInBounds, Array.getElem!_eq_getD, Array.getD_eq_getD_getElem?, Array.getElem?_setIfInBounds_ne hne]

theorem arr_set!_get!_self {α} [Inhabited α] (a : Array α) (i : Nat) (hi : i < a.size) : a.set! i a[i]! = a := by
  apply Array.ext
  · simp [Array.set!_eq_setIfInBounds]
  · intro k h1 h2
    simp only [Array.set!_eq_setIfInBounds]
    rw [Array.getElem_setIfInBounds (by simpa using h1)]
    by_cases e : i = k
    · subst e; simp [getElem!_pos, hi]
    · simp [e]

theorem arr_size_set! {α} (a : Array α) (i : Nat) (x : α) : (a.set! i x).size = a.size := by
  simp [Array.set!_eq_setIfInBounds]

theorem Heap.set_get_self (h : Heap) (r : Ref) (o : Obj) (hg : h.get r = some o) : h.set r o = h := by
  cases h with
  | mk m s =>
    cases r with
    | mem i =>
      simp only [Heap.get] at hg
      obtain ⟨hlt, he⟩ := List.getElem?_eq_some_iff.mp hg
      subst he
      simp only [Heap.set, List.set_getElem_self]
    | stk i =>
      simp only [Heap.get] at hg
      obtain ⟨hlt, he⟩ := List.getElem?_eq_some_iff.mp hg
      subst he
      simp only [Heap.set, List.set_getElem_self]

/-- A store into the block that an earlier store has already replaced. -/
theorem storeWord_set {h : Heap} {r : Ref} {a : Array Block} {j : Nat} (b : Block) (k : Nat) (w : UInt64)
    (hr : r.inH h) (hj : j < a.size) (hb : b.size = 128) (hk : k < 128) :
    storeWord (h.set r (.blocks (a.set! j b))) r j k w = .ok (h.set r (.blocks (a.set! j (b.set! k w)))) := by
  have hg := Heap.get_set_self h r (.blocks (a.set! j b)) hr
  rw [storeWord_of_get w hg (by rw [arr_size_set!]; exact hj) (by rw [arr_get!_set!_self _ _ _ hj]; exact hb) hk,
    Heap.set_set, arr_get!_set!_self _ _ _ hj, arr_set!_set!]

/-- `*p0, *p1, *p2, *p3 = w0, w1, w2, w3` for four pointers into the same block. -/
theorem storeAll_four {h : Heap} {r : Ref} {a : Array Block} {j : Nat} (env : Env) (b : Block) (k0 k1 k2 k3 : Nat)
    (w0 w1 w2 w3 : UInt64) (hr : r.inH h) (hj : j < a.size) (hb : b.size = 128)
    (h0 : k0 < 128) (h1 : k1 < 128) (h2 : k2 < 128) (h3 : k3 < 128) :
    storeAll (h.set r (.blocks (a.set! j b))) env [.word r j k0, .word r j k1, .word r j k2, .word r j k3]
        [.u64 w0, .u64 w1, .u64 w2, .u64 w3] =
      .ok (h.set r (.blocks (a.set! j ((((b.set! k0 w0).set! k1 w1).set! k2 w2).set! k3 w3))), env) := by
  simp only [storeAll_cons, store_word, asU64_u64, ok_bind, pure_eq_ok, storeAll_nil]
  rw [storeWord_set b k0 w0 hr hj hb h0]
  simp only [ok_bind]
  rw [storeWord_set _ k1 w1 hr hj (by simp only [arr_size_set!]; exact hb) h1]
  simp only [ok_bind]
  rw [storeWord_set _ k2 w2 hr hj (by simp only [arr_size_set!]; exact hb) h2]
  simp only [ok_bind]
  rw [storeWord_set _ k3 w3 hr hj (by simp only [arr_size_set!]; exact hb) h3]
  simp only [ok_bind]

/-- One `*p0, *p1, *p2, *p3 = y0, y1, y2, y3` statement on any frame that holds the pointers and the words. -/
theorem exec_store4 (c : Ctx) {h : Heap} {r : Ref} {a : Array Block} {j : Nat} (env : Env) (b : Block)
    (x0 x1 x2 x3 y0 y1 y2 y3 k0 k1 k2 k3 : Nat) (w0 w1 w2 w3 : UInt64)
    (hx0 : env[x0]? = some (.pword r j k0)) (hx1 : env[x1]? = some (.pword r j k1))
    (hx2 : env[x2]? = some (.pword r j k2)) (hx3 : env[x3]? = some (.pword r j k3))
    (hy0 : env[y0]? = some (.u64 w0)) (hy1 : env[y1]? = some (.u64 w1))
    (hy2 : env[y2]? = some (.u64 w2)) (hy3 : env[y3]? = some (.u64 w3))
    (hr : r.inH h) (hj : j < a.size) (hb : b.size = 128)
    (h0 : k0 < 128) (h1 : k1 < 128) (h2 : k2 < 128) (h3 : k3 < 128) :
    exec c (.assign [.deref (.var x0), .deref (.var x1), .deref (.var x2), .deref (.var x3)]
        [.var y0, .var y1, .var y2, .var y3]) (h.set r (.blocks (a.set! j b))) env =
      .norm (h.set r (.blocks (a.set! j ((((b.set! k0 w0).set! k1 w1).set! k2 w2).set! k3 w3)))) env := by
  simp only [exec_assign, evalLHSs_cons, evalLHSs_nil, evalLHS_deref, evalArgs_cons, evalArgs_nil, eval_var, lookup_def,
    hx0, hx1, hx2, hx3, hy0, hy1, hy2, hy3, ok_bind, pure_eq_ok, bindR_ok]
  rw [storeAll_four env b k0 k1 k2 k3 w0 w1 w2 w3 hr hj hb h0 h1 h2 h3]
  rfl

/-! ## loads and stores -/

section body
variable (c : Ctx) (h : Heap) (r : Ref) (j : Nat) (a : Array Block)
  (i00 i01 i02 i03 i04 i05 i06 i07 i08 i09 i10 i11 i12 i13 i14 i15 : Nat)

theorem blamka_loads (hg : h.get r = some (.blocks a)) (hj : j < a.size) (hs : a[j]!.size = 128)
    (h00 : i00 < 128) (h01 : i01 < 128) (h02 : i02 < 128) (h03 : i03 < 128) (h04 : i04 < 128) (h05 : i05 < 128)
    (h06 : i06 < 128) (h07 : i07 < 128) (h08 : i08 < 128) (h09 : i09 < 128) (h10 : i10 < 128) (h11 : i11 < 128)
    (h12 : i12 < 128) (h13 : i13 < 128) (h14 : i14 < 128) (h15 : i15 < 128) :
    exec c (Stmt.take 4 (blamkaRest 0)) h
      ([.pword r j i00, .pword r j i01, .pword r j i02, .pword r j i03, .pword r j i04, .pword r j i05,
        .pword r j i06, .pword r j i07, .pword r j i08, .pword r j i09, .pword r j i10, .pword r j i11,
        .pword r j i12, .pword r j i13, .pword r j i14, .pword r j i15] ++ List.replicate 16 .undef) =
    .norm h (BEnv (.pword r j i00) (.pword r j i01) (.pword r j i02) (.pword r j i03) (.pword r j i04) (.pword r j i05)
        (.pword r j i06) (.pword r j i07) (.pword r j i08) (.pword r j i09) (.pword r j i10) (.pword r j i11)
        (.pword r j i12) (.pword r j i13) (.pword r j i14) (.pword r j i15)
        a[j]![i00]! a[j]![i01]! a[j]![i02]! a[j]![i03]! a[j]![i04]! a[j]![i05]! a[j]![i06]! a[j]![i07]!
        a[j]![i08]! a[j]![i09]! a[j]![i10]! a[j]![i11]! a[j]![i12]! a[j]![i13]! a[j]![i14]! a[j]![i15]!) := by
  have e : Stmt.take 4 (blamkaRest 0) =
      (.assign [.var 16, .var 17, .var 18, .var 19] [(.deref (.var 0)), (.deref (.var 1)), (.deref (.var 2)), (.deref (.var 3))] ;;;
       .assign [.var 20, .var 21, .var 22, .var 23] [(.deref (.var 4)), (.deref (.var 5)), (.deref (.var 6)), (.deref (.var 7))] ;;;
       .assign [.var 24, .var 25, .var 26, .var 27] [(.deref (.var 8)), (.deref (.var 9)), (.deref (.var 10)), (.deref (.var 11))] ;;;
       .assign [.var 28, .var 29, .var 30, .var 31] [(.deref (.var 12)), (.deref (.var 13)), (.deref (.var 14)), (.deref (.var 15))] ;;;
       .skip) := id rfl
  rw [e]
  have rd : ∀ k, k < 128 → readWord h r j k = .ok (.u64 a[j]![k]!) := fun k hk => readWord_of_get hg hj hs hk
  simp only [BEnv]
  a2_simp [rd]

theorem blamka_stores (p : Env) (hr : r.inH h) (hj : j < a.size) (b : Block) (hb : b.size = 128)
    (h00 : i00 < 128) (h01 : i01 < 128) (h02 : i02 < 128) (h03 : i03 < 128) (h04 : i04 < 128) (h05 : i05 < 128)
    (h06 : i06 < 128) (h07 : i07 < 128) (h08 : i08 < 128) (h09 : i09 < 128) (h10 : i10 < 128) (h11 : i11 < 128)
    (h12 : i12 < 128) (h13 : i13 < 128) (h14 : i14 < 128) (h15 : i15 < 128)
    (w00 w01 w02 w03 w04 w05 w06 w07 w08 w09 w10 w11 w12 w13 w14 w15 : UInt64)
    (hp : p = BEnv (.pword r j i00) (.pword r j i01) (.pword r j i02) (.pword r j i03) (.pword r j i04) (.pword r j i05)
        (.pword r j i06) (.pword r j i07) (.pword r j i08) (.pword r j i09) (.pword r j i10) (.pword r j i11)
        (.pword r j i12) (.pword r j i13) (.pword r j i14) (.pword r j i15)
        w00 w01 w02 w03 w04 w05 w06 w07 w08 w09 w10 w11 w12 w13 w14 w15) :
    exec c (blamkaRest 100) (h.set r (.blocks (a.set! j b))) p =
    .norm (h.set r (.blocks (a.set! j
        ((((((((((((((((b.set! i00 w00).set! i01 w01).set! i02 w02).set! i03 w03).set! i04 w04).set! i05 w05).set! i06 w06).set! i07
          w07).set! i08 w08).set! i09 w09).set! i10 w10).set! i11 w11).set! i12 w12).set! i13 w13).set! i14 w14).set! i15 w15)))) p := by
  have e : blamkaRest 100 =
      (.assign [.deref (.var 0), .deref (.var 1), .deref (.var 2), .deref (.var 3)] [(.var 16), (.var 17), (.var 18), (.var 19)] ;;;
       .assign [.deref (.var 4), .deref (.var 5), .deref (.var 6), .deref (.var 7)] [(.var 20), (.var 21), (.var 22), (.var 23)] ;;;
       .assign [.deref (.var 8), .deref (.var 9), .deref (.var 10), .deref (.var 11)] [(.var 24), (.var 25), (.var 26), (.var 27)] ;;;
       .assign [.deref (.var 12), .deref (.var 13), .deref (.var 14), .deref (.var 15)] [(.var 28), (.var 29), (.var 30), (.var 31)]) := id rfl
  rw [e]
  subst hp
  have sz : ∀ (b : Block) k w, b.size = 128 → (b.set! k w).size = 128 := fun b k w hb => by
    rw [arr_size_set!]; exact hb
  rw [exec_seq, exec_store4 c _ b 0 1 2 3 16 17 18 19 i00 i01 i02 i03 w00 w01 w02 w03 rfl rfl rfl rfl rfl rfl rfl rfl hr hj hb
    h00 h01 h02 h03, andThen_norm]
  rw [exec_seq, exec_store4 c _ _ 4 5 6 7 20 21 22 23 i04 i05 i06 i07 w04 w05 w06 w07 rfl rfl rfl rfl rfl rfl rfl rfl hr hj
    (sz _ _ _ (sz _ _ _ (sz _ _ _ (sz _ _ _ hb)))) h04 h05 h06 h07, andThen_norm]
  rw [exec_seq, exec_store4 c _ _ 8 9 10 11 24 25 26 27 i08 i09 i10 i11 w08 w09 w10 w11 rfl rfl rfl rfl rfl rfl rfl rfl hr hj
    (sz _ _ _ (sz _ _ _ (sz _ _ _ (sz _ _ _ (sz _ _ _ (sz _ _ _ (sz _ _ _ (sz _ _ _ hb)))))))) h08 h09 h10 h11, andThen_norm]
  rw [exec_store4 c _ _ 12 13 14 15 28 29 30 31 i12 i13 i14 i15 w12 w13 w14 w15 rfl rfl rfl rfl rfl rfl rfl rfl hr hj
    (sz _ _ _ (sz _ _ _ (sz _ _ _ (sz _ _ _ (sz _ _ _ (sz _ _ _ (sz _ _ _ (sz _ _ _ (sz _ _ _ (sz _ _ _ (sz _ _ _ (sz _ _ _ hb))))))))))))
    h12 h13 h14 h15]

end body

/-! ## the whole body -/

/-- `Argon2.blamka` with its `let`s as projections: exactly what the eight groups and sixteen stores compute. -/
theorem blamka_unfold (t : Argon2.Block) (i00 i01 i02 i03 i04 i05 i06 i07 i08 i09 i10 i11 i12 i13 i14 i15 : Nat) :
    Argon2.blamka t i00 i01 i02 i03 i04 i05 i06 i07 i08 i09 i10 i11 i12 i13 i14 i15 =
      (let g0 := Argon2.gb t[i00]! t[i04]! t[i08]! t[i12]!
       let g1 := Argon2.gb t[i01]! t[i05]! t[i09]! t[i13]!
       let g2 := Argon2.gb t[i02]! t[i06]! t[i10]! t[i14]!
       let g3 := Argon2.gb t[i03]! t[i07]! t[i11]! t[i15]!
       let g4 := Argon2.gb g0.1 g1.2.1 g2.2.2.1 g3.2.2.2
       let g5 := Argon2.gb g1.1 g2.2.1 g3.2.2.1 g0.2.2.2
       let g6 := Argon2.gb g2.1 g3.2.1 g0.2.2.1 g1.2.2.2
       let g7 := Argon2.gb g3.1 g0.2.1 g1.2.2.1 g2.2.2.2
       (((((((((((((((t.set! i00 g4.1).set! i01 g5.1).set! i02 g6.1).set! i03 g7.1).set! i04 g7.2.1).set! i05 g4.2.1).set! i06
         g5.2.1).set! i07 g6.2.1).set! i08 g6.2.2.1).set! i09 g7.2.2.1).set! i10 g4.2.2.1).set! i11 g5.2.2.1).set! i12
         g5.2.2.2).set! i13 g6.2.2.2).set! i14 g7.2.2.2).set! i15 g4.2.2.2) := rfl

section body
variable (c : Ctx) (h : Heap) (r : Ref) (j : Nat) (a : Array Block)
  (i00 i01 i02 i03 i04 i05 i06 i07 i08 i09 i10 i11 i12 i13 i14 i15 : Nat)

theorem blamka_body (hg : h.get r = some (.blocks a)) (hj : j < a.size) (hs : a[j]!.size = 128)
    (h00 : i00 < 128) (h01 : i01 < 128) (h02 : i02 < 128) (h03 : i03 < 128) (h04 : i04 < 128) (h05 : i05 < 128)
    (h06 : i06 < 128) (h07 : i07 < 128) (h08 : i08 < 128) (h09 : i09 < 128) (h10 : i10 < 128) (h11 : i11 < 128)
    (h12 : i12 < 128) (h13 : i13 < 128) (h14 : i14 < 128) (h15 : i15 < 128) :
    ∃ env', exec c proc_blamkaGeneric.body h
      ([.pword r j i00, .pword r j i01, .pword r j i02, .pword r j i03, .pword r j i04, .pword r j i05,
        .pword r j i06, .pword r j i07, .pword r j i08, .pword r j i09, .pword r j i10, .pword r j i11,
        .pword r j i12, .pword r j i13, .pword r j i14, .pword r j i15] ++ List.replicate 16 .undef) =
      .norm (h.set r (.blocks (a.set! j
        (Argon2.blamka a[j]! i00 i01 i02 i03 i04 i05 i06 i07 i08 i09 i10 i11 i12 i13 i14 i15)))) env' := by
  apply Exists.intro
  rw [blamkaRest_zero, exec_take_drop c h _ 4 (blamkaRest 0),
    blamka_loads c h r j a i00 i01 i02 i03 i04 i05 i06 i07 i08 i09 i10 i11 i12 i13 i14 i15 hg hj hs
      h00 h01 h02 h03 h04 h05 h06 h07 h08 h09 h10 h11 h12 h13 h14 h15, andThen_norm, blamka_loads_rest]
  rw [exec_take_drop c h _ 12 (blamkaRest 4), blamka_grp0_stmts, blamka_grp0, andThen_norm, blamka_grp0_rest]
  rw [exec_take_drop c h _ 12 (blamkaRest 16), blamka_grp1_stmts, blamka_grp1, andThen_norm, blamka_grp1_rest]
  rw [exec_take_drop c h _ 12 (blamkaRest 28), blamka_grp2_stmts, blamka_grp2, andThen_norm, blamka_grp2_rest]
  rw [exec_take_drop c h _ 12 (blamkaRest 40), blamka_grp3_stmts, blamka_grp3, andThen_norm, blamka_grp3_rest]
  rw [exec_take_drop c h _ 12 (blamkaRest 52), blamka_grp4_stmts, blamka_grp4, andThen_norm, blamka_grp4_rest]
  rw [exec_take_drop c h _ 12 (blamkaRest 64), blamka_grp5_stmts, blamka_grp5, andThen_norm, blamka_grp5_rest]
  rw [exec_take_drop c h _ 12 (blamkaRest 76), blamka_grp6_stmts, blamka_grp6, andThen_norm, blamka_grp6_rest]
  rw [exec_take_drop c h _ 12 (blamkaRest 88), blamka_grp7_stmts, blamka_grp7, andThen_norm, blamka_grp7_rest]
  have hh : h = h.set r (.blocks (a.set! j a[j]!)) := by
    rw [arr_set!_get!_self a j hj, Heap.set_get_self h r _ hg]
  conv => lhs; arg 3; rw [hh]
  rw [blamka_stores c h r j a i00 i01 i02 i03 i04 i05 i06 i07 i08 i09 i10 i11 i12 i13 i14 i15 _ (Ref.inH_of_get hg) hj a[j]! hs
    h00 h01 h02 h03 h04 h05 h06 h07 h08 h09 h10 h11 h12 h13 h14 h15 _ _ _ _ _ _ _ _ _ _ _ _ _ _ _ _ rfl]
  rw [blamka_unfold]

end body

/-! ## the procedure -/

/-- What a context must know about `blamkaGeneric`: called with sixteen pointers into one block, it stores
the model's `blamka` of that block. -/
def BlamkaSpec (c : Ctx) : Prop :=
  ∀ (h : Heap) (r : Ref) (j : Nat) (a : Array Block)
    (i00 i01 i02 i03 i04 i05 i06 i07 i08 i09 i10 i11 i12 i13 i14 i15 : Nat),
    h.get r = some (.blocks a) → j < a.size → a[j]!.size = 128 →
    i00 < 128 → i01 < 128 → i02 < 128 → i03 < 128 → i04 < 128 → i05 < 128 → i06 < 128 → i07 < 128 →
    i08 < 128 → i09 < 128 → i10 < 128 → i11 < 128 → i12 < 128 → i13 < 128 → i14 < 128 → i15 < 128 →
    c.call "blamkaGeneric" h
      [.pword r j i00, .pword r j i01, .pword r j i02, .pword r j i03, .pword r j i04, .pword r j i05,
       .pword r j i06, .pword r j i07, .pword r j i08, .pword r j i09, .pword r j i10, .pword r j i11,
       .pword r j i12, .pword r j i13, .pword r j i14, .pword r j i15] =
      .ok (h.set r (.blocks (a.set! j
        (Argon2.blamka a[j]! i00 i01 i02 i03 i04 i05 i06 i07 i08 i09 i10 i11 i12 i13 i14 i15))), [])

theorem blamka_proc (c : Ctx) (h : Heap) (r : Ref) (j : Nat) (a : Array Block)
    (i00 i01 i02 i03 i04 i05 i06 i07 i08 i09 i10 i11 i12 i13 i14 i15 : Nat)
    (hg : h.get r = some (.blocks a)) (hj : j < a.size) (hs : a[j]!.size = 128)
    (h00 : i00 < 128) (h01 : i01 < 128) (h02 : i02 < 128) (h03 : i03 < 128) (h04 : i04 < 128) (h05 : i05 < 128)
    (h06 : i06 < 128) (h07 : i07 < 128) (h08 : i08 < 128) (h09 : i09 < 128) (h10 : i10 < 128) (h11 : i11 < 128)
    (h12 : i12 < 128) (h13 : i13 < 128) (h14 : i14 < 128) (h15 : i15 < 128) :
    execProc c proc_blamkaGeneric h
      [.pword r j i00, .pword r j i01, .pword r j i02, .pword r j i03, .pword r j i04, .pword r j i05,
       .pword r j i06, .pword r j i07, .pword r j i08, .pword r j i09, .pword r j i10, .pword r j i11,
       .pword r j i12, .pword r j i13, .pword r j i14, .pword r j i15] =
      .ok (h.set r (.blocks (a.set! j
        (Argon2.blamka a[j]! i00 i01 i02 i03 i04 i05 i06 i07 i08 i09 i10 i11 i12 i13 i14 i15))), []) := by
  rw [execProc_eq _ _ _ _ rfl]
  obtain ⟨env', he⟩ := blamka_body c h r j a i00 i01 i02 i03 i04 i05 i06 i07 i08 i09 i10 i11 i12 i13 i14 i15 hg hj hs
    h00 h01 h02 h03 h04 h05 h06 h07 h08 h09 h10 h11 h12 h13 h14 h15
  show procResult _ (exec c proc_blamkaGeneric.body h
      ([.pword r j i00, .pword r j i01, .pword r j i02, .pword r j i03, .pword r j i04, .pword r j i05,
        .pword r j i06, .pword r j i07, .pword r j i08, .pword r j i09, .pword r j i10, .pword r j i11,
        .pword r j i12, .pword r j i13, .pword r j i14, .pword r j i15] ++ List.replicate 16 .undef)) = _
  rw [he, procResult_norm, Heap.popTo_self _ _ (Heap.stk_length_set h r _).symm]

theorem blamkaSpec_ctxOf (H : Nat → Bytes → Bytes) (d : Nat) : BlamkaSpec (ctxOf H program (d + 1)) := by
  intro h r j a i00 i01 i02 i03 i04 i05 i06 i07 i08 i09 i10 i11 i12 i13 i14 i15 hg hj hs
    h00 h01 h02 h03 h04 h05 h06 h07 h08 h09 h10 h11 h12 h13 h14 h15
  rw [ctxOf_call, callIn_succ H program d "blamkaGeneric" proc_blamkaGeneric rfl]
  exact blamka_proc _ h r j a i00 i01 i02 i03 i04 i05 i06 i07 i08 i09 i10 i11 i12 i13 i14 i15 hg hj hs
    h00 h01 h02 h03 h04 h05 h06 h07 h08 h09 h10 h11 h12 h13 h14 h15

end GoCrypt.A2IR
