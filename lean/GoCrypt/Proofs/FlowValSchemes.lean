import GoCrypt.Proofs.FlowVal
import GoCrypt.Proofs.Shapes
import GoCrypt.Proofs.EndToEnd

/-!
# Reading and writing the named fields of the ten scheme structs

Written out mechanically from the field lists of `Proofs/Shapes.lean` (the lemmas are `rfl` or a `simp`
over the concrete field list, so a change of the regenerated shapes that invalidates one of them breaks
the build).  For each scheme `S` with type
info `STI` and each Go field `F`:

* `readField_S_F`: `scheme.F` is the stored value at the field's static type;
* `writeField_S_F`: `scheme.F = v` prepends `(fieldIndex STI "F", v)`;
* `fieldVal_S_set_F_G`: what `Scheme.fieldVal` reads at `G` after `F` was written;
* `fieldVal_S_nil_F`: the zero value of `F`; `fieldIndex_S_F`: its index path;
* `marshal_canon_S`: `Marshal` sees a struct value only through the value of each field.
-/

namespace GoCrypt.FlowVal
open GoCrypt GoCrypt.Codec GoCrypt.Scheme GoCrypt.Codec.Shapes GoCrypt.EndToEnd

/-! ## md5 -/

@[flowval] theorem readField_md5_HashPrefix (vals : Vals) :
    readField (.struct md5TI vals) "HashPrefix" = some (.str (fvBytes (Scheme.fieldVal md5TI vals "HashPrefix"))) := rfl
@[flowval] theorem writeField_md5_HashPrefix (vals : Vals) (x : Bytes) :
    writeField (.struct md5TI vals) "HashPrefix" (.str x) = some (.struct md5TI ((fieldIndex md5TI "HashPrefix", .str x) :: vals)) := rfl
@[flowval] theorem fieldVal_md5_set_HashPrefix_HashPrefix (vals : Vals) (fv : FVal) :
    Scheme.fieldVal md5TI ((fieldIndex md5TI "HashPrefix", fv) :: vals) "HashPrefix" = fv := rfl
@[flowval] theorem fieldVal_md5_set_HashPrefix_Salt (vals : Vals) (fv : FVal) :
    Scheme.fieldVal md5TI ((fieldIndex md5TI "HashPrefix", fv) :: vals) "Salt" = Scheme.fieldVal md5TI vals "Salt" := rfl
@[flowval] theorem fieldVal_md5_set_HashPrefix_Sum (vals : Vals) (fv : FVal) :
    Scheme.fieldVal md5TI ((fieldIndex md5TI "HashPrefix", fv) :: vals) "Sum" = Scheme.fieldVal md5TI vals "Sum" := rfl
@[flowval] theorem readField_md5_Salt (vals : Vals) :
    readField (.struct md5TI vals) "Salt" = some (.bytes (fvBytes (Scheme.fieldVal md5TI vals "Salt"))) := rfl
@[flowval] theorem writeField_md5_Salt (vals : Vals) (x : Bytes) :
    writeField (.struct md5TI vals) "Salt" (.bytes x) = some (.struct md5TI ((fieldIndex md5TI "Salt", .bytes x) :: vals)) := rfl
@[flowval] theorem fieldVal_md5_set_Salt_HashPrefix (vals : Vals) (fv : FVal) :
    Scheme.fieldVal md5TI ((fieldIndex md5TI "Salt", fv) :: vals) "HashPrefix" = Scheme.fieldVal md5TI vals "HashPrefix" := rfl
@[flowval] theorem fieldVal_md5_set_Salt_Salt (vals : Vals) (fv : FVal) :
    Scheme.fieldVal md5TI ((fieldIndex md5TI "Salt", fv) :: vals) "Salt" = fv := rfl
@[flowval] theorem fieldVal_md5_set_Salt_Sum (vals : Vals) (fv : FVal) :
    Scheme.fieldVal md5TI ((fieldIndex md5TI "Salt", fv) :: vals) "Sum" = Scheme.fieldVal md5TI vals "Sum" := rfl
@[flowval] theorem readField_md5_Sum (vals : Vals) :
    readField (.struct md5TI vals) "Sum" = some (.bytes (fvBytes (Scheme.fieldVal md5TI vals "Sum"))) := rfl
@[flowval] theorem writeField_md5_Sum (vals : Vals) (x : Bytes) :
    writeField (.struct md5TI vals) "Sum" (.bytes x) = some (.struct md5TI ((fieldIndex md5TI "Sum", .bytes x) :: vals)) := rfl
@[flowval] theorem fieldVal_md5_set_Sum_HashPrefix (vals : Vals) (fv : FVal) :
    Scheme.fieldVal md5TI ((fieldIndex md5TI "Sum", fv) :: vals) "HashPrefix" = Scheme.fieldVal md5TI vals "HashPrefix" := rfl
@[flowval] theorem fieldVal_md5_set_Sum_Salt (vals : Vals) (fv : FVal) :
    Scheme.fieldVal md5TI ((fieldIndex md5TI "Sum", fv) :: vals) "Salt" = Scheme.fieldVal md5TI vals "Salt" := rfl
@[flowval] theorem fieldVal_md5_set_Sum_Sum (vals : Vals) (fv : FVal) :
    Scheme.fieldVal md5TI ((fieldIndex md5TI "Sum", fv) :: vals) "Sum" = fv := rfl
@[flowval] theorem fieldVal_md5_nil_HashPrefix : Scheme.fieldVal md5TI [] "HashPrefix" = .str [] := rfl
theorem fieldIndex_md5_HashPrefix : fieldIndex md5TI "HashPrefix" = md5_HashPrefix.index := rfl
@[flowval] theorem fieldVal_md5_nil_Salt : Scheme.fieldVal md5TI [] "Salt" = .bytes [] := rfl
theorem fieldIndex_md5_Salt : fieldIndex md5TI "Salt" = md5_Salt.index := rfl
@[flowval] theorem fieldVal_md5_nil_Sum : Scheme.fieldVal md5TI [] "Sum" = .bytes [] := rfl
theorem fieldIndex_md5_Sum : fieldIndex md5TI "Sum" = md5_Sum.index := rfl
theorem marshal_canon_md5 (vals : Vals) :
    marshal md5TI vals = marshal md5TI [(md5_HashPrefix.index, Codec.fieldVal vals md5_HashPrefix), (md5_Salt.index, Codec.fieldVal vals md5_Salt), (md5_Sum.index, Codec.fieldVal vals md5_Sum)] := by
  apply marshal_congr
  simp [md5TI, Codec.fieldVal, getVal, md5_HashPrefix, md5_Salt, md5_Sum]
  repeat' apply And.intro
  all_goals rfl

/-! ## sha1 -/

@[flowval] theorem readField_sha1_HashPrefix (vals : Vals) :
    readField (.struct sha1TI vals) "HashPrefix" = some (.str (fvBytes (Scheme.fieldVal sha1TI vals "HashPrefix"))) := rfl
@[flowval] theorem writeField_sha1_HashPrefix (vals : Vals) (x : Bytes) :
    writeField (.struct sha1TI vals) "HashPrefix" (.str x) = some (.struct sha1TI ((fieldIndex sha1TI "HashPrefix", .str x) :: vals)) := rfl
@[flowval] theorem fieldVal_sha1_set_HashPrefix_HashPrefix (vals : Vals) (fv : FVal) :
    Scheme.fieldVal sha1TI ((fieldIndex sha1TI "HashPrefix", fv) :: vals) "HashPrefix" = fv := rfl
@[flowval] theorem fieldVal_sha1_set_HashPrefix_Rounds (vals : Vals) (fv : FVal) :
    Scheme.fieldVal sha1TI ((fieldIndex sha1TI "HashPrefix", fv) :: vals) "Rounds" = Scheme.fieldVal sha1TI vals "Rounds" := rfl
@[flowval] theorem fieldVal_sha1_set_HashPrefix_Salt (vals : Vals) (fv : FVal) :
    Scheme.fieldVal sha1TI ((fieldIndex sha1TI "HashPrefix", fv) :: vals) "Salt" = Scheme.fieldVal sha1TI vals "Salt" := rfl
@[flowval] theorem fieldVal_sha1_set_HashPrefix_Sum (vals : Vals) (fv : FVal) :
    Scheme.fieldVal sha1TI ((fieldIndex sha1TI "HashPrefix", fv) :: vals) "Sum" = Scheme.fieldVal sha1TI vals "Sum" := rfl
@[flowval] theorem readField_sha1_Rounds (vals : Vals) :
    readField (.struct sha1TI vals) "Rounds" = some (.nat (fvNat (Scheme.fieldVal sha1TI vals "Rounds"))) := rfl
@[flowval] theorem writeField_sha1_Rounds (vals : Vals) (x : Nat) :
    writeField (.struct sha1TI vals) "Rounds" (.nat x) = some (.struct sha1TI ((fieldIndex sha1TI "Rounds", .uint x) :: vals)) := rfl
@[flowval] theorem fieldVal_sha1_set_Rounds_HashPrefix (vals : Vals) (fv : FVal) :
    Scheme.fieldVal sha1TI ((fieldIndex sha1TI "Rounds", fv) :: vals) "HashPrefix" = Scheme.fieldVal sha1TI vals "HashPrefix" := rfl
@[flowval] theorem fieldVal_sha1_set_Rounds_Rounds (vals : Vals) (fv : FVal) :
    Scheme.fieldVal sha1TI ((fieldIndex sha1TI "Rounds", fv) :: vals) "Rounds" = fv := rfl
@[flowval] theorem fieldVal_sha1_set_Rounds_Salt (vals : Vals) (fv : FVal) :
    Scheme.fieldVal sha1TI ((fieldIndex sha1TI "Rounds", fv) :: vals) "Salt" = Scheme.fieldVal sha1TI vals "Salt" := rfl
@[flowval] theorem fieldVal_sha1_set_Rounds_Sum (vals : Vals) (fv : FVal) :
    Scheme.fieldVal sha1TI ((fieldIndex sha1TI "Rounds", fv) :: vals) "Sum" = Scheme.fieldVal sha1TI vals "Sum" := rfl
@[flowval] theorem readField_sha1_Salt (vals : Vals) :
    readField (.struct sha1TI vals) "Salt" = some (.bytes (fvBytes (Scheme.fieldVal sha1TI vals "Salt"))) := rfl
@[flowval] theorem writeField_sha1_Salt (vals : Vals) (x : Bytes) :
    writeField (.struct sha1TI vals) "Salt" (.bytes x) = some (.struct sha1TI ((fieldIndex sha1TI "Salt", .bytes x) :: vals)) := rfl
@[flowval] theorem fieldVal_sha1_set_Salt_HashPrefix (vals : Vals) (fv : FVal) :
    Scheme.fieldVal sha1TI ((fieldIndex sha1TI "Salt", fv) :: vals) "HashPrefix" = Scheme.fieldVal sha1TI vals "HashPrefix" := rfl
@[flowval] theorem fieldVal_sha1_set_Salt_Rounds (vals : Vals) (fv : FVal) :
    Scheme.fieldVal sha1TI ((fieldIndex sha1TI "Salt", fv) :: vals) "Rounds" = Scheme.fieldVal sha1TI vals "Rounds" := rfl
@[flowval] theorem fieldVal_sha1_set_Salt_Salt (vals : Vals) (fv : FVal) :
    Scheme.fieldVal sha1TI ((fieldIndex sha1TI "Salt", fv) :: vals) "Salt" = fv := rfl
@[flowval] theorem fieldVal_sha1_set_Salt_Sum (vals : Vals) (fv : FVal) :
    Scheme.fieldVal sha1TI ((fieldIndex sha1TI "Salt", fv) :: vals) "Sum" = Scheme.fieldVal sha1TI vals "Sum" := rfl
@[flowval] theorem readField_sha1_Sum (vals : Vals) :
    readField (.struct sha1TI vals) "Sum" = some (.bytes (fvBytes (Scheme.fieldVal sha1TI vals "Sum"))) := rfl
@[flowval] theorem writeField_sha1_Sum (vals : Vals) (x : Bytes) :
    writeField (.struct sha1TI vals) "Sum" (.bytes x) = some (.struct sha1TI ((fieldIndex sha1TI "Sum", .bytes x) :: vals)) := rfl
@[flowval] theorem fieldVal_sha1_set_Sum_HashPrefix (vals : Vals) (fv : FVal) :
    Scheme.fieldVal sha1TI ((fieldIndex sha1TI "Sum", fv) :: vals) "HashPrefix" = Scheme.fieldVal sha1TI vals "HashPrefix" := rfl
@[flowval] theorem fieldVal_sha1_set_Sum_Rounds (vals : Vals) (fv : FVal) :
    Scheme.fieldVal sha1TI ((fieldIndex sha1TI "Sum", fv) :: vals) "Rounds" = Scheme.fieldVal sha1TI vals "Rounds" := rfl
@[flowval] theorem fieldVal_sha1_set_Sum_Salt (vals : Vals) (fv : FVal) :
    Scheme.fieldVal sha1TI ((fieldIndex sha1TI "Sum", fv) :: vals) "Salt" = Scheme.fieldVal sha1TI vals "Salt" := rfl
@[flowval] theorem fieldVal_sha1_set_Sum_Sum (vals : Vals) (fv : FVal) :
    Scheme.fieldVal sha1TI ((fieldIndex sha1TI "Sum", fv) :: vals) "Sum" = fv := rfl
@[flowval] theorem fieldVal_sha1_nil_HashPrefix : Scheme.fieldVal sha1TI [] "HashPrefix" = .str [] := rfl
theorem fieldIndex_sha1_HashPrefix : fieldIndex sha1TI "HashPrefix" = sha1_HashPrefix.index := rfl
@[flowval] theorem fieldVal_sha1_nil_Rounds : Scheme.fieldVal sha1TI [] "Rounds" = .uint 0 := rfl
theorem fieldIndex_sha1_Rounds : fieldIndex sha1TI "Rounds" = sha1_Rounds.index := rfl
@[flowval] theorem fieldVal_sha1_nil_Salt : Scheme.fieldVal sha1TI [] "Salt" = .bytes [] := rfl
theorem fieldIndex_sha1_Salt : fieldIndex sha1TI "Salt" = sha1_Salt.index := rfl
@[flowval] theorem fieldVal_sha1_nil_Sum : Scheme.fieldVal sha1TI [] "Sum" = .bytes (List.replicate Gen.sha1.sumLength 0) := rfl
theorem fieldIndex_sha1_Sum : fieldIndex sha1TI "Sum" = sha1_Sum.index := rfl
theorem marshal_canon_sha1 (vals : Vals) :
    marshal sha1TI vals = marshal sha1TI [(sha1_HashPrefix.index, Codec.fieldVal vals sha1_HashPrefix), (sha1_Rounds.index, Codec.fieldVal vals sha1_Rounds), (sha1_Salt.index, Codec.fieldVal vals sha1_Salt), (sha1_Sum.index, Codec.fieldVal vals sha1_Sum)] := by
  apply marshal_congr
  simp [sha1TI, Codec.fieldVal, getVal, sha1_HashPrefix, sha1_Rounds, sha1_Salt, sha1_Sum]
  repeat' apply And.intro
  all_goals rfl

/-! ## nthash -/

@[flowval] theorem readField_nthash_HashPrefix (vals : Vals) :
    readField (.struct nthashTI vals) "HashPrefix" = some (.str (fvBytes (Scheme.fieldVal nthashTI vals "HashPrefix"))) := rfl
@[flowval] theorem writeField_nthash_HashPrefix (vals : Vals) (x : Bytes) :
    writeField (.struct nthashTI vals) "HashPrefix" (.str x) = some (.struct nthashTI ((fieldIndex nthashTI "HashPrefix", .str x) :: vals)) := rfl
@[flowval] theorem fieldVal_nthash_set_HashPrefix_HashPrefix (vals : Vals) (fv : FVal) :
    Scheme.fieldVal nthashTI ((fieldIndex nthashTI "HashPrefix", fv) :: vals) "HashPrefix" = fv := rfl
@[flowval] theorem fieldVal_nthash_set_HashPrefix_Empty (vals : Vals) (fv : FVal) :
    Scheme.fieldVal nthashTI ((fieldIndex nthashTI "HashPrefix", fv) :: vals) "Empty" = Scheme.fieldVal nthashTI vals "Empty" := rfl
@[flowval] theorem fieldVal_nthash_set_HashPrefix_Sum (vals : Vals) (fv : FVal) :
    Scheme.fieldVal nthashTI ((fieldIndex nthashTI "HashPrefix", fv) :: vals) "Sum" = Scheme.fieldVal nthashTI vals "Sum" := rfl
@[flowval] theorem readField_nthash_Empty (vals : Vals) :
    readField (.struct nthashTI vals) "Empty" = some (.bytes (fvBytes (Scheme.fieldVal nthashTI vals "Empty"))) := rfl
@[flowval] theorem writeField_nthash_Empty (vals : Vals) (x : Bytes) :
    writeField (.struct nthashTI vals) "Empty" (.bytes x) = some (.struct nthashTI ((fieldIndex nthashTI "Empty", .bytes x) :: vals)) := rfl
@[flowval] theorem fieldVal_nthash_set_Empty_HashPrefix (vals : Vals) (fv : FVal) :
    Scheme.fieldVal nthashTI ((fieldIndex nthashTI "Empty", fv) :: vals) "HashPrefix" = Scheme.fieldVal nthashTI vals "HashPrefix" := rfl
@[flowval] theorem fieldVal_nthash_set_Empty_Empty (vals : Vals) (fv : FVal) :
    Scheme.fieldVal nthashTI ((fieldIndex nthashTI "Empty", fv) :: vals) "Empty" = fv := rfl
@[flowval] theorem fieldVal_nthash_set_Empty_Sum (vals : Vals) (fv : FVal) :
    Scheme.fieldVal nthashTI ((fieldIndex nthashTI "Empty", fv) :: vals) "Sum" = Scheme.fieldVal nthashTI vals "Sum" := rfl
@[flowval] theorem readField_nthash_Sum (vals : Vals) :
    readField (.struct nthashTI vals) "Sum" = some (.bytes (fvBytes (Scheme.fieldVal nthashTI vals "Sum"))) := rfl
@[flowval] theorem writeField_nthash_Sum (vals : Vals) (x : Bytes) :
    writeField (.struct nthashTI vals) "Sum" (.bytes x) = some (.struct nthashTI ((fieldIndex nthashTI "Sum", .bytes x) :: vals)) := rfl
@[flowval] theorem fieldVal_nthash_set_Sum_HashPrefix (vals : Vals) (fv : FVal) :
    Scheme.fieldVal nthashTI ((fieldIndex nthashTI "Sum", fv) :: vals) "HashPrefix" = Scheme.fieldVal nthashTI vals "HashPrefix" := rfl
@[flowval] theorem fieldVal_nthash_set_Sum_Empty (vals : Vals) (fv : FVal) :
    Scheme.fieldVal nthashTI ((fieldIndex nthashTI "Sum", fv) :: vals) "Empty" = Scheme.fieldVal nthashTI vals "Empty" := rfl
@[flowval] theorem fieldVal_nthash_set_Sum_Sum (vals : Vals) (fv : FVal) :
    Scheme.fieldVal nthashTI ((fieldIndex nthashTI "Sum", fv) :: vals) "Sum" = fv := rfl
@[flowval] theorem fieldVal_nthash_nil_HashPrefix : Scheme.fieldVal nthashTI [] "HashPrefix" = .str [] := rfl
theorem fieldIndex_nthash_HashPrefix : fieldIndex nthashTI "HashPrefix" = nthash_HashPrefix.index := rfl
@[flowval] theorem fieldVal_nthash_nil_Empty : Scheme.fieldVal nthashTI [] "Empty" = .bytes (List.replicate 0 0) := rfl
theorem fieldIndex_nthash_Empty : fieldIndex nthashTI "Empty" = nthash_Empty.index := rfl
@[flowval] theorem fieldVal_nthash_nil_Sum : Scheme.fieldVal nthashTI [] "Sum" = .bytes (List.replicate Gen.nthash.sumLength 0) := rfl
theorem fieldIndex_nthash_Sum : fieldIndex nthashTI "Sum" = nthash_Sum.index := rfl
theorem marshal_canon_nthash (vals : Vals) :
    marshal nthashTI vals = marshal nthashTI [(nthash_HashPrefix.index, Codec.fieldVal vals nthash_HashPrefix), (nthash_Empty.index, Codec.fieldVal vals nthash_Empty), (nthash_Sum.index, Codec.fieldVal vals nthash_Sum)] := by
  apply marshal_congr
  simp [nthashTI, Codec.fieldVal, getVal, nthash_HashPrefix, nthash_Empty, nthash_Sum]
  repeat' apply And.intro
  all_goals rfl

/-! ## sha256 -/

@[flowval] theorem readField_sha256_HashPrefix (vals : Vals) :
    readField (.struct sha256TI vals) "HashPrefix" = some (.str (fvBytes (Scheme.fieldVal sha256TI vals "HashPrefix"))) := rfl
@[flowval] theorem writeField_sha256_HashPrefix (vals : Vals) (x : Bytes) :
    writeField (.struct sha256TI vals) "HashPrefix" (.str x) = some (.struct sha256TI ((fieldIndex sha256TI "HashPrefix", .str x) :: vals)) := rfl
@[flowval] theorem fieldVal_sha256_set_HashPrefix_HashPrefix (vals : Vals) (fv : FVal) :
    Scheme.fieldVal sha256TI ((fieldIndex sha256TI "HashPrefix", fv) :: vals) "HashPrefix" = fv := rfl
@[flowval] theorem fieldVal_sha256_set_HashPrefix_Rounds (vals : Vals) (fv : FVal) :
    Scheme.fieldVal sha256TI ((fieldIndex sha256TI "HashPrefix", fv) :: vals) "Rounds" = Scheme.fieldVal sha256TI vals "Rounds" := rfl
@[flowval] theorem fieldVal_sha256_set_HashPrefix_Salt (vals : Vals) (fv : FVal) :
    Scheme.fieldVal sha256TI ((fieldIndex sha256TI "HashPrefix", fv) :: vals) "Salt" = Scheme.fieldVal sha256TI vals "Salt" := rfl
@[flowval] theorem fieldVal_sha256_set_HashPrefix_Sum (vals : Vals) (fv : FVal) :
    Scheme.fieldVal sha256TI ((fieldIndex sha256TI "HashPrefix", fv) :: vals) "Sum" = Scheme.fieldVal sha256TI vals "Sum" := rfl
@[flowval] theorem readField_sha256_Rounds (vals : Vals) :
    readField (.struct sha256TI vals) "Rounds" = some (.nat (fvNat (Scheme.fieldVal sha256TI vals "Rounds"))) := rfl
@[flowval] theorem writeField_sha256_Rounds (vals : Vals) (x : Nat) :
    writeField (.struct sha256TI vals) "Rounds" (.nat x) = some (.struct sha256TI ((fieldIndex sha256TI "Rounds", .uint x) :: vals)) := rfl
@[flowval] theorem fieldVal_sha256_set_Rounds_HashPrefix (vals : Vals) (fv : FVal) :
    Scheme.fieldVal sha256TI ((fieldIndex sha256TI "Rounds", fv) :: vals) "HashPrefix" = Scheme.fieldVal sha256TI vals "HashPrefix" := rfl
@[flowval] theorem fieldVal_sha256_set_Rounds_Rounds (vals : Vals) (fv : FVal) :
    Scheme.fieldVal sha256TI ((fieldIndex sha256TI "Rounds", fv) :: vals) "Rounds" = fv := rfl
@[flowval] theorem fieldVal_sha256_set_Rounds_Salt (vals : Vals) (fv : FVal) :
    Scheme.fieldVal sha256TI ((fieldIndex sha256TI "Rounds", fv) :: vals) "Salt" = Scheme.fieldVal sha256TI vals "Salt" := rfl
@[flowval] theorem fieldVal_sha256_set_Rounds_Sum (vals : Vals) (fv : FVal) :
    Scheme.fieldVal sha256TI ((fieldIndex sha256TI "Rounds", fv) :: vals) "Sum" = Scheme.fieldVal sha256TI vals "Sum" := rfl
@[flowval] theorem readField_sha256_Salt (vals : Vals) :
    readField (.struct sha256TI vals) "Salt" = some (.bytes (fvBytes (Scheme.fieldVal sha256TI vals "Salt"))) := rfl
@[flowval] theorem writeField_sha256_Salt (vals : Vals) (x : Bytes) :
    writeField (.struct sha256TI vals) "Salt" (.bytes x) = some (.struct sha256TI ((fieldIndex sha256TI "Salt", .bytes x) :: vals)) := rfl
@[flowval] theorem fieldVal_sha256_set_Salt_HashPrefix (vals : Vals) (fv : FVal) :
    Scheme.fieldVal sha256TI ((fieldIndex sha256TI "Salt", fv) :: vals) "HashPrefix" = Scheme.fieldVal sha256TI vals "HashPrefix" := rfl
@[flowval] theorem fieldVal_sha256_set_Salt_Rounds (vals : Vals) (fv : FVal) :
    Scheme.fieldVal sha256TI ((fieldIndex sha256TI "Salt", fv) :: vals) "Rounds" = Scheme.fieldVal sha256TI vals "Rounds" := rfl
@[flowval] theorem fieldVal_sha256_set_Salt_Salt (vals : Vals) (fv : FVal) :
    Scheme.fieldVal sha256TI ((fieldIndex sha256TI "Salt", fv) :: vals) "Salt" = fv := rfl
@[flowval] theorem fieldVal_sha256_set_Salt_Sum (vals : Vals) (fv : FVal) :
    Scheme.fieldVal sha256TI ((fieldIndex sha256TI "Salt", fv) :: vals) "Sum" = Scheme.fieldVal sha256TI vals "Sum" := rfl
@[flowval] theorem readField_sha256_Sum (vals : Vals) :
    readField (.struct sha256TI vals) "Sum" = some (.bytes (fvBytes (Scheme.fieldVal sha256TI vals "Sum"))) := rfl
@[flowval] theorem writeField_sha256_Sum (vals : Vals) (x : Bytes) :
    writeField (.struct sha256TI vals) "Sum" (.bytes x) = some (.struct sha256TI ((fieldIndex sha256TI "Sum", .bytes x) :: vals)) := rfl
@[flowval] theorem fieldVal_sha256_set_Sum_HashPrefix (vals : Vals) (fv : FVal) :
    Scheme.fieldVal sha256TI ((fieldIndex sha256TI "Sum", fv) :: vals) "HashPrefix" = Scheme.fieldVal sha256TI vals "HashPrefix" := rfl
@[flowval] theorem fieldVal_sha256_set_Sum_Rounds (vals : Vals) (fv : FVal) :
    Scheme.fieldVal sha256TI ((fieldIndex sha256TI "Sum", fv) :: vals) "Rounds" = Scheme.fieldVal sha256TI vals "Rounds" := rfl
@[flowval] theorem fieldVal_sha256_set_Sum_Salt (vals : Vals) (fv : FVal) :
    Scheme.fieldVal sha256TI ((fieldIndex sha256TI "Sum", fv) :: vals) "Salt" = Scheme.fieldVal sha256TI vals "Salt" := rfl
@[flowval] theorem fieldVal_sha256_set_Sum_Sum (vals : Vals) (fv : FVal) :
    Scheme.fieldVal sha256TI ((fieldIndex sha256TI "Sum", fv) :: vals) "Sum" = fv := rfl
@[flowval] theorem fieldVal_sha256_nil_HashPrefix : Scheme.fieldVal sha256TI [] "HashPrefix" = .str [] := rfl
theorem fieldIndex_sha256_HashPrefix : fieldIndex sha256TI "HashPrefix" = sha256_HashPrefix.index := rfl
@[flowval] theorem fieldVal_sha256_nil_Rounds : Scheme.fieldVal sha256TI [] "Rounds" = .uint 0 := rfl
theorem fieldIndex_sha256_Rounds : fieldIndex sha256TI "Rounds" = sha256_Rounds.index := rfl
@[flowval] theorem fieldVal_sha256_nil_Salt : Scheme.fieldVal sha256TI [] "Salt" = .bytes [] := rfl
theorem fieldIndex_sha256_Salt : fieldIndex sha256TI "Salt" = sha256_Salt.index := rfl
@[flowval] theorem fieldVal_sha256_nil_Sum : Scheme.fieldVal sha256TI [] "Sum" = .bytes (List.replicate Gen.sha256.sumLength 0) := rfl
theorem fieldIndex_sha256_Sum : fieldIndex sha256TI "Sum" = sha256_Sum.index := rfl
theorem marshal_canon_sha256 (vals : Vals) :
    marshal sha256TI vals = marshal sha256TI [(sha256_HashPrefix.index, Codec.fieldVal vals sha256_HashPrefix), (sha256_Rounds.index, Codec.fieldVal vals sha256_Rounds), (sha256_Salt.index, Codec.fieldVal vals sha256_Salt), (sha256_Sum.index, Codec.fieldVal vals sha256_Sum)] := by
  apply marshal_congr
  simp [sha256TI, Codec.fieldVal, getVal, sha256_HashPrefix, sha256_Rounds, sha256_Salt, sha256_Sum]
  repeat' apply And.intro
  all_goals rfl

/-! ## sha512 -/

@[flowval] theorem readField_sha512_HashPrefix (vals : Vals) :
    readField (.struct sha512TI vals) "HashPrefix" = some (.str (fvBytes (Scheme.fieldVal sha512TI vals "HashPrefix"))) := rfl
@[flowval] theorem writeField_sha512_HashPrefix (vals : Vals) (x : Bytes) :
    writeField (.struct sha512TI vals) "HashPrefix" (.str x) = some (.struct sha512TI ((fieldIndex sha512TI "HashPrefix", .str x) :: vals)) := rfl
@[flowval] theorem fieldVal_sha512_set_HashPrefix_HashPrefix (vals : Vals) (fv : FVal) :
    Scheme.fieldVal sha512TI ((fieldIndex sha512TI "HashPrefix", fv) :: vals) "HashPrefix" = fv := rfl
@[flowval] theorem fieldVal_sha512_set_HashPrefix_Rounds (vals : Vals) (fv : FVal) :
    Scheme.fieldVal sha512TI ((fieldIndex sha512TI "HashPrefix", fv) :: vals) "Rounds" = Scheme.fieldVal sha512TI vals "Rounds" := rfl
@[flowval] theorem fieldVal_sha512_set_HashPrefix_Salt (vals : Vals) (fv : FVal) :
    Scheme.fieldVal sha512TI ((fieldIndex sha512TI "HashPrefix", fv) :: vals) "Salt" = Scheme.fieldVal sha512TI vals "Salt" := rfl
@[flowval] theorem fieldVal_sha512_set_HashPrefix_Sum (vals : Vals) (fv : FVal) :
    Scheme.fieldVal sha512TI ((fieldIndex sha512TI "HashPrefix", fv) :: vals) "Sum" = Scheme.fieldVal sha512TI vals "Sum" := rfl
@[flowval] theorem readField_sha512_Rounds (vals : Vals) :
    readField (.struct sha512TI vals) "Rounds" = some (.nat (fvNat (Scheme.fieldVal sha512TI vals "Rounds"))) := rfl
@[flowval] theorem writeField_sha512_Rounds (vals : Vals) (x : Nat) :
    writeField (.struct sha512TI vals) "Rounds" (.nat x) = some (.struct sha512TI ((fieldIndex sha512TI "Rounds", .uint x) :: vals)) := rfl
@[flowval] theorem fieldVal_sha512_set_Rounds_HashPrefix (vals : Vals) (fv : FVal) :
    Scheme.fieldVal sha512TI ((fieldIndex sha512TI "Rounds", fv) :: vals) "HashPrefix" = Scheme.fieldVal sha512TI vals "HashPrefix" := rfl
@[flowval] theorem fieldVal_sha512_set_Rounds_Rounds (vals : Vals) (fv : FVal) :
    Scheme.fieldVal sha512TI ((fieldIndex sha512TI "Rounds", fv) :: vals) "Rounds" = fv := rfl
@[flowval] theorem fieldVal_sha512_set_Rounds_Salt (vals : Vals) (fv : FVal) :
    Scheme.fieldVal sha512TI ((fieldIndex sha512TI "Rounds", fv) :: vals) "Salt" = Scheme.fieldVal sha512TI vals "Salt" := rfl
@[flowval] theorem fieldVal_sha512_set_Rounds_Sum (vals : Vals) (fv : FVal) :
    Scheme.fieldVal sha512TI ((fieldIndex sha512TI "Rounds", fv) :: vals) "Sum" = Scheme.fieldVal sha512TI vals "Sum" := rfl
@[flowval] theorem readField_sha512_Salt (vals : Vals) :
    readField (.struct sha512TI vals) "Salt" = some (.bytes (fvBytes (Scheme.fieldVal sha512TI vals "Salt"))) := rfl
@[flowval] theorem writeField_sha512_Salt (vals : Vals) (x : Bytes) :
    writeField (.struct sha512TI vals) "Salt" (.bytes x) = some (.struct sha512TI ((fieldIndex sha512TI "Salt", .bytes x) :: vals)) := rfl
@[flowval] theorem fieldVal_sha512_set_Salt_HashPrefix (vals : Vals) (fv : FVal) :
    Scheme.fieldVal sha512TI ((fieldIndex sha512TI "Salt", fv) :: vals) "HashPrefix" = Scheme.fieldVal sha512TI vals "HashPrefix" := rfl
@[flowval] theorem fieldVal_sha512_set_Salt_Rounds (vals : Vals) (fv : FVal) :
    Scheme.fieldVal sha512TI ((fieldIndex sha512TI "Salt", fv) :: vals) "Rounds" = Scheme.fieldVal sha512TI vals "Rounds" := rfl
@[flowval] theorem fieldVal_sha512_set_Salt_Salt (vals : Vals) (fv : FVal) :
    Scheme.fieldVal sha512TI ((fieldIndex sha512TI "Salt", fv) :: vals) "Salt" = fv := rfl
@[flowval] theorem fieldVal_sha512_set_Salt_Sum (vals : Vals) (fv : FVal) :
    Scheme.fieldVal sha512TI ((fieldIndex sha512TI "Salt", fv) :: vals) "Sum" = Scheme.fieldVal sha512TI vals "Sum" := rfl
@[flowval] theorem readField_sha512_Sum (vals : Vals) :
    readField (.struct sha512TI vals) "Sum" = some (.bytes (fvBytes (Scheme.fieldVal sha512TI vals "Sum"))) := rfl
@[flowval] theorem writeField_sha512_Sum (vals : Vals) (x : Bytes) :
    writeField (.struct sha512TI vals) "Sum" (.bytes x) = some (.struct sha512TI ((fieldIndex sha512TI "Sum", .bytes x) :: vals)) := rfl
@[flowval] theorem fieldVal_sha512_set_Sum_HashPrefix (vals : Vals) (fv : FVal) :
    Scheme.fieldVal sha512TI ((fieldIndex sha512TI "Sum", fv) :: vals) "HashPrefix" = Scheme.fieldVal sha512TI vals "HashPrefix" := rfl
@[flowval] theorem fieldVal_sha512_set_Sum_Rounds (vals : Vals) (fv : FVal) :
    Scheme.fieldVal sha512TI ((fieldIndex sha512TI "Sum", fv) :: vals) "Rounds" = Scheme.fieldVal sha512TI vals "Rounds" := rfl
@[flowval] theorem fieldVal_sha512_set_Sum_Salt (vals : Vals) (fv : FVal) :
    Scheme.fieldVal sha512TI ((fieldIndex sha512TI "Sum", fv) :: vals) "Salt" = Scheme.fieldVal sha512TI vals "Salt" := rfl
@[flowval] theorem fieldVal_sha512_set_Sum_Sum (vals : Vals) (fv : FVal) :
    Scheme.fieldVal sha512TI ((fieldIndex sha512TI "Sum", fv) :: vals) "Sum" = fv := rfl
@[flowval] theorem fieldVal_sha512_nil_HashPrefix : Scheme.fieldVal sha512TI [] "HashPrefix" = .str [] := rfl
theorem fieldIndex_sha512_HashPrefix : fieldIndex sha512TI "HashPrefix" = sha512_HashPrefix.index := rfl
@[flowval] theorem fieldVal_sha512_nil_Rounds : Scheme.fieldVal sha512TI [] "Rounds" = .uint 0 := rfl
theorem fieldIndex_sha512_Rounds : fieldIndex sha512TI "Rounds" = sha512_Rounds.index := rfl
@[flowval] theorem fieldVal_sha512_nil_Salt : Scheme.fieldVal sha512TI [] "Salt" = .bytes [] := rfl
theorem fieldIndex_sha512_Salt : fieldIndex sha512TI "Salt" = sha512_Salt.index := rfl
@[flowval] theorem fieldVal_sha512_nil_Sum : Scheme.fieldVal sha512TI [] "Sum" = .bytes (List.replicate Gen.sha512.sumLength 0) := rfl
theorem fieldIndex_sha512_Sum : fieldIndex sha512TI "Sum" = sha512_Sum.index := rfl
theorem marshal_canon_sha512 (vals : Vals) :
    marshal sha512TI vals = marshal sha512TI [(sha512_HashPrefix.index, Codec.fieldVal vals sha512_HashPrefix), (sha512_Rounds.index, Codec.fieldVal vals sha512_Rounds), (sha512_Salt.index, Codec.fieldVal vals sha512_Salt), (sha512_Sum.index, Codec.fieldVal vals sha512_Sum)] := by
  apply marshal_congr
  simp [sha512TI, Codec.fieldVal, getVal, sha512_HashPrefix, sha512_Rounds, sha512_Salt, sha512_Sum]
  repeat' apply And.intro
  all_goals rfl

/-! ## des -/

@[flowval] theorem readField_des_HashPrefix (vals : Vals) :
    readField (.struct desTI vals) "HashPrefix" = some (.str (fvBytes (Scheme.fieldVal desTI vals "HashPrefix"))) := rfl
@[flowval] theorem writeField_des_HashPrefix (vals : Vals) (x : Bytes) :
    writeField (.struct desTI vals) "HashPrefix" (.str x) = some (.struct desTI ((fieldIndex desTI "HashPrefix", .str x) :: vals)) := rfl
@[flowval] theorem fieldVal_des_set_HashPrefix_HashPrefix (vals : Vals) (fv : FVal) :
    Scheme.fieldVal desTI ((fieldIndex desTI "HashPrefix", fv) :: vals) "HashPrefix" = fv := rfl
@[flowval] theorem fieldVal_des_set_HashPrefix_Salt (vals : Vals) (fv : FVal) :
    Scheme.fieldVal desTI ((fieldIndex desTI "HashPrefix", fv) :: vals) "Salt" = Scheme.fieldVal desTI vals "Salt" := rfl
@[flowval] theorem fieldVal_des_set_HashPrefix_Sum (vals : Vals) (fv : FVal) :
    Scheme.fieldVal desTI ((fieldIndex desTI "HashPrefix", fv) :: vals) "Sum" = Scheme.fieldVal desTI vals "Sum" := rfl
@[flowval] theorem readField_des_Salt (vals : Vals) :
    readField (.struct desTI vals) "Salt" = some (.bytes (fvBytes (Scheme.fieldVal desTI vals "Salt"))) := rfl
@[flowval] theorem writeField_des_Salt (vals : Vals) (x : Bytes) :
    writeField (.struct desTI vals) "Salt" (.bytes x) = some (.struct desTI ((fieldIndex desTI "Salt", .bytes x) :: vals)) := rfl
@[flowval] theorem fieldVal_des_set_Salt_HashPrefix (vals : Vals) (fv : FVal) :
    Scheme.fieldVal desTI ((fieldIndex desTI "Salt", fv) :: vals) "HashPrefix" = Scheme.fieldVal desTI vals "HashPrefix" := rfl
@[flowval] theorem fieldVal_des_set_Salt_Salt (vals : Vals) (fv : FVal) :
    Scheme.fieldVal desTI ((fieldIndex desTI "Salt", fv) :: vals) "Salt" = fv := rfl
@[flowval] theorem fieldVal_des_set_Salt_Sum (vals : Vals) (fv : FVal) :
    Scheme.fieldVal desTI ((fieldIndex desTI "Salt", fv) :: vals) "Sum" = Scheme.fieldVal desTI vals "Sum" := rfl
@[flowval] theorem readField_des_Sum (vals : Vals) :
    readField (.struct desTI vals) "Sum" = some (.bytes (fvBytes (Scheme.fieldVal desTI vals "Sum"))) := rfl
@[flowval] theorem writeField_des_Sum (vals : Vals) (x : Bytes) :
    writeField (.struct desTI vals) "Sum" (.bytes x) = some (.struct desTI ((fieldIndex desTI "Sum", .bytes x) :: vals)) := rfl
@[flowval] theorem fieldVal_des_set_Sum_HashPrefix (vals : Vals) (fv : FVal) :
    Scheme.fieldVal desTI ((fieldIndex desTI "Sum", fv) :: vals) "HashPrefix" = Scheme.fieldVal desTI vals "HashPrefix" := rfl
@[flowval] theorem fieldVal_des_set_Sum_Salt (vals : Vals) (fv : FVal) :
    Scheme.fieldVal desTI ((fieldIndex desTI "Sum", fv) :: vals) "Salt" = Scheme.fieldVal desTI vals "Salt" := rfl
@[flowval] theorem fieldVal_des_set_Sum_Sum (vals : Vals) (fv : FVal) :
    Scheme.fieldVal desTI ((fieldIndex desTI "Sum", fv) :: vals) "Sum" = fv := rfl
@[flowval] theorem fieldVal_des_nil_HashPrefix : Scheme.fieldVal desTI [] "HashPrefix" = .str [] := rfl
theorem fieldIndex_des_HashPrefix : fieldIndex desTI "HashPrefix" = des_HashPrefix.index := rfl
@[flowval] theorem fieldVal_des_nil_Salt : Scheme.fieldVal desTI [] "Salt" = .bytes [] := rfl
theorem fieldIndex_des_Salt : fieldIndex desTI "Salt" = des_Salt.index := rfl
@[flowval] theorem fieldVal_des_nil_Sum : Scheme.fieldVal desTI [] "Sum" = .bytes (List.replicate Gen.des.sumLength 0) := rfl
theorem fieldIndex_des_Sum : fieldIndex desTI "Sum" = des_Sum.index := rfl
theorem marshal_canon_des (vals : Vals) :
    marshal desTI vals = marshal desTI [(des_HashPrefix.index, Codec.fieldVal vals des_HashPrefix), (des_Salt.index, Codec.fieldVal vals des_Salt), (des_Sum.index, Codec.fieldVal vals des_Sum)] := by
  apply marshal_congr
  simp [desTI, Codec.fieldVal, getVal, des_HashPrefix, des_Salt, des_Sum]
  repeat' apply And.intro
  all_goals rfl

/-! ## desext -/

@[flowval] theorem readField_desext_HashPrefix (vals : Vals) :
    readField (.struct desextTI vals) "HashPrefix" = some (.str (fvBytes (Scheme.fieldVal desextTI vals "HashPrefix"))) := rfl
@[flowval] theorem writeField_desext_HashPrefix (vals : Vals) (x : Bytes) :
    writeField (.struct desextTI vals) "HashPrefix" (.str x) = some (.struct desextTI ((fieldIndex desextTI "HashPrefix", .str x) :: vals)) := rfl
@[flowval] theorem fieldVal_desext_set_HashPrefix_HashPrefix (vals : Vals) (fv : FVal) :
    Scheme.fieldVal desextTI ((fieldIndex desextTI "HashPrefix", fv) :: vals) "HashPrefix" = fv := rfl
@[flowval] theorem fieldVal_desext_set_HashPrefix_Rounds (vals : Vals) (fv : FVal) :
    Scheme.fieldVal desextTI ((fieldIndex desextTI "HashPrefix", fv) :: vals) "Rounds" = Scheme.fieldVal desextTI vals "Rounds" := rfl
@[flowval] theorem fieldVal_desext_set_HashPrefix_Salt (vals : Vals) (fv : FVal) :
    Scheme.fieldVal desextTI ((fieldIndex desextTI "HashPrefix", fv) :: vals) "Salt" = Scheme.fieldVal desextTI vals "Salt" := rfl
@[flowval] theorem fieldVal_desext_set_HashPrefix_Sum (vals : Vals) (fv : FVal) :
    Scheme.fieldVal desextTI ((fieldIndex desextTI "HashPrefix", fv) :: vals) "Sum" = Scheme.fieldVal desextTI vals "Sum" := rfl
@[flowval] theorem readField_desext_Rounds (vals : Vals) :
    readField (.struct desextTI vals) "Rounds" = some (.nat (fvNat (Scheme.fieldVal desextTI vals "Rounds"))) := rfl
@[flowval] theorem writeField_desext_Rounds (vals : Vals) (x : Nat) :
    writeField (.struct desextTI vals) "Rounds" (.nat x) = some (.struct desextTI ((fieldIndex desextTI "Rounds", .uint x) :: vals)) := rfl
@[flowval] theorem fieldVal_desext_set_Rounds_HashPrefix (vals : Vals) (fv : FVal) :
    Scheme.fieldVal desextTI ((fieldIndex desextTI "Rounds", fv) :: vals) "HashPrefix" = Scheme.fieldVal desextTI vals "HashPrefix" := rfl
@[flowval] theorem fieldVal_desext_set_Rounds_Rounds (vals : Vals) (fv : FVal) :
    Scheme.fieldVal desextTI ((fieldIndex desextTI "Rounds", fv) :: vals) "Rounds" = fv := rfl
@[flowval] theorem fieldVal_desext_set_Rounds_Salt (vals : Vals) (fv : FVal) :
    Scheme.fieldVal desextTI ((fieldIndex desextTI "Rounds", fv) :: vals) "Salt" = Scheme.fieldVal desextTI vals "Salt" := rfl
@[flowval] theorem fieldVal_desext_set_Rounds_Sum (vals : Vals) (fv : FVal) :
    Scheme.fieldVal desextTI ((fieldIndex desextTI "Rounds", fv) :: vals) "Sum" = Scheme.fieldVal desextTI vals "Sum" := rfl
@[flowval] theorem readField_desext_Salt (vals : Vals) :
    readField (.struct desextTI vals) "Salt" = some (.bytes (fvBytes (Scheme.fieldVal desextTI vals "Salt"))) := rfl
@[flowval] theorem writeField_desext_Salt (vals : Vals) (x : Bytes) :
    writeField (.struct desextTI vals) "Salt" (.bytes x) = some (.struct desextTI ((fieldIndex desextTI "Salt", .bytes x) :: vals)) := rfl
@[flowval] theorem fieldVal_desext_set_Salt_HashPrefix (vals : Vals) (fv : FVal) :
    Scheme.fieldVal desextTI ((fieldIndex desextTI "Salt", fv) :: vals) "HashPrefix" = Scheme.fieldVal desextTI vals "HashPrefix" := rfl
@[flowval] theorem fieldVal_desext_set_Salt_Rounds (vals : Vals) (fv : FVal) :
    Scheme.fieldVal desextTI ((fieldIndex desextTI "Salt", fv) :: vals) "Rounds" = Scheme.fieldVal desextTI vals "Rounds" := rfl
@[flowval] theorem fieldVal_desext_set_Salt_Salt (vals : Vals) (fv : FVal) :
    Scheme.fieldVal desextTI ((fieldIndex desextTI "Salt", fv) :: vals) "Salt" = fv := rfl
@[flowval] theorem fieldVal_desext_set_Salt_Sum (vals : Vals) (fv : FVal) :
    Scheme.fieldVal desextTI ((fieldIndex desextTI "Salt", fv) :: vals) "Sum" = Scheme.fieldVal desextTI vals "Sum" := rfl
@[flowval] theorem readField_desext_Sum (vals : Vals) :
    readField (.struct desextTI vals) "Sum" = some (.bytes (fvBytes (Scheme.fieldVal desextTI vals "Sum"))) := rfl
@[flowval] theorem writeField_desext_Sum (vals : Vals) (x : Bytes) :
    writeField (.struct desextTI vals) "Sum" (.bytes x) = some (.struct desextTI ((fieldIndex desextTI "Sum", .bytes x) :: vals)) := rfl
@[flowval] theorem fieldVal_desext_set_Sum_HashPrefix (vals : Vals) (fv : FVal) :
    Scheme.fieldVal desextTI ((fieldIndex desextTI "Sum", fv) :: vals) "HashPrefix" = Scheme.fieldVal desextTI vals "HashPrefix" := rfl
@[flowval] theorem fieldVal_desext_set_Sum_Rounds (vals : Vals) (fv : FVal) :
    Scheme.fieldVal desextTI ((fieldIndex desextTI "Sum", fv) :: vals) "Rounds" = Scheme.fieldVal desextTI vals "Rounds" := rfl
@[flowval] theorem fieldVal_desext_set_Sum_Salt (vals : Vals) (fv : FVal) :
    Scheme.fieldVal desextTI ((fieldIndex desextTI "Sum", fv) :: vals) "Salt" = Scheme.fieldVal desextTI vals "Salt" := rfl
@[flowval] theorem fieldVal_desext_set_Sum_Sum (vals : Vals) (fv : FVal) :
    Scheme.fieldVal desextTI ((fieldIndex desextTI "Sum", fv) :: vals) "Sum" = fv := rfl
@[flowval] theorem fieldVal_desext_nil_HashPrefix : Scheme.fieldVal desextTI [] "HashPrefix" = .str [] := rfl
theorem fieldIndex_desext_HashPrefix : fieldIndex desextTI "HashPrefix" = desext_HashPrefix.index := rfl
@[flowval] theorem fieldVal_desext_nil_Rounds : Scheme.fieldVal desextTI [] "Rounds" = .uint 0 := rfl
theorem fieldIndex_desext_Rounds : fieldIndex desextTI "Rounds" = desext_Rounds.index := rfl
@[flowval] theorem fieldVal_desext_nil_Salt : Scheme.fieldVal desextTI [] "Salt" = .bytes [] := rfl
theorem fieldIndex_desext_Salt : fieldIndex desextTI "Salt" = desext_Salt.index := rfl
@[flowval] theorem fieldVal_desext_nil_Sum : Scheme.fieldVal desextTI [] "Sum" = .bytes (List.replicate Gen.desext.sumLength 0) := rfl
theorem fieldIndex_desext_Sum : fieldIndex desextTI "Sum" = desext_Sum.index := rfl
theorem marshal_canon_desext (vals : Vals) :
    marshal desextTI vals = marshal desextTI [(desext_HashPrefix.index, Codec.fieldVal vals desext_HashPrefix), (desext_Rounds.index, Codec.fieldVal vals desext_Rounds), (desext_Salt.index, Codec.fieldVal vals desext_Salt), (desext_Sum.index, Codec.fieldVal vals desext_Sum)] := by
  apply marshal_congr
  simp [desextTI, Codec.fieldVal, getVal, desext_HashPrefix, desext_Rounds, desext_Salt, desext_Sum]
  repeat' apply And.intro
  all_goals rfl

/-! ## bcrypt -/

@[flowval] theorem readField_bcrypt_HashPrefix (vals : Vals) :
    readField (.struct bcryptTI vals) "HashPrefix" = some (.str (fvBytes (Scheme.fieldVal bcryptTI vals "HashPrefix"))) := rfl
@[flowval] theorem writeField_bcrypt_HashPrefix (vals : Vals) (x : Bytes) :
    writeField (.struct bcryptTI vals) "HashPrefix" (.str x) = some (.struct bcryptTI ((fieldIndex bcryptTI "HashPrefix", .str x) :: vals)) := rfl
@[flowval] theorem fieldVal_bcrypt_set_HashPrefix_HashPrefix (vals : Vals) (fv : FVal) :
    Scheme.fieldVal bcryptTI ((fieldIndex bcryptTI "HashPrefix", fv) :: vals) "HashPrefix" = fv := rfl
@[flowval] theorem fieldVal_bcrypt_set_HashPrefix_Cost (vals : Vals) (fv : FVal) :
    Scheme.fieldVal bcryptTI ((fieldIndex bcryptTI "HashPrefix", fv) :: vals) "Cost" = Scheme.fieldVal bcryptTI vals "Cost" := rfl
@[flowval] theorem fieldVal_bcrypt_set_HashPrefix_Salt (vals : Vals) (fv : FVal) :
    Scheme.fieldVal bcryptTI ((fieldIndex bcryptTI "HashPrefix", fv) :: vals) "Salt" = Scheme.fieldVal bcryptTI vals "Salt" := rfl
@[flowval] theorem fieldVal_bcrypt_set_HashPrefix_Sum (vals : Vals) (fv : FVal) :
    Scheme.fieldVal bcryptTI ((fieldIndex bcryptTI "HashPrefix", fv) :: vals) "Sum" = Scheme.fieldVal bcryptTI vals "Sum" := rfl
@[flowval] theorem readField_bcrypt_Cost (vals : Vals) :
    readField (.struct bcryptTI vals) "Cost" = some (.nat (fvNat (Scheme.fieldVal bcryptTI vals "Cost"))) := rfl
@[flowval] theorem writeField_bcrypt_Cost (vals : Vals) (x : Nat) :
    writeField (.struct bcryptTI vals) "Cost" (.nat x) = some (.struct bcryptTI ((fieldIndex bcryptTI "Cost", .uint x) :: vals)) := rfl
@[flowval] theorem fieldVal_bcrypt_set_Cost_HashPrefix (vals : Vals) (fv : FVal) :
    Scheme.fieldVal bcryptTI ((fieldIndex bcryptTI "Cost", fv) :: vals) "HashPrefix" = Scheme.fieldVal bcryptTI vals "HashPrefix" := rfl
@[flowval] theorem fieldVal_bcrypt_set_Cost_Cost (vals : Vals) (fv : FVal) :
    Scheme.fieldVal bcryptTI ((fieldIndex bcryptTI "Cost", fv) :: vals) "Cost" = fv := rfl
@[flowval] theorem fieldVal_bcrypt_set_Cost_Salt (vals : Vals) (fv : FVal) :
    Scheme.fieldVal bcryptTI ((fieldIndex bcryptTI "Cost", fv) :: vals) "Salt" = Scheme.fieldVal bcryptTI vals "Salt" := rfl
@[flowval] theorem fieldVal_bcrypt_set_Cost_Sum (vals : Vals) (fv : FVal) :
    Scheme.fieldVal bcryptTI ((fieldIndex bcryptTI "Cost", fv) :: vals) "Sum" = Scheme.fieldVal bcryptTI vals "Sum" := rfl
@[flowval] theorem readField_bcrypt_Salt (vals : Vals) :
    readField (.struct bcryptTI vals) "Salt" = some (.bytes (fvBytes (Scheme.fieldVal bcryptTI vals "Salt"))) := rfl
@[flowval] theorem writeField_bcrypt_Salt (vals : Vals) (x : Bytes) :
    writeField (.struct bcryptTI vals) "Salt" (.bytes x) = some (.struct bcryptTI ((fieldIndex bcryptTI "Salt", .bytes x) :: vals)) := rfl
@[flowval] theorem fieldVal_bcrypt_set_Salt_HashPrefix (vals : Vals) (fv : FVal) :
    Scheme.fieldVal bcryptTI ((fieldIndex bcryptTI "Salt", fv) :: vals) "HashPrefix" = Scheme.fieldVal bcryptTI vals "HashPrefix" := rfl
@[flowval] theorem fieldVal_bcrypt_set_Salt_Cost (vals : Vals) (fv : FVal) :
    Scheme.fieldVal bcryptTI ((fieldIndex bcryptTI "Salt", fv) :: vals) "Cost" = Scheme.fieldVal bcryptTI vals "Cost" := rfl
@[flowval] theorem fieldVal_bcrypt_set_Salt_Salt (vals : Vals) (fv : FVal) :
    Scheme.fieldVal bcryptTI ((fieldIndex bcryptTI "Salt", fv) :: vals) "Salt" = fv := rfl
@[flowval] theorem fieldVal_bcrypt_set_Salt_Sum (vals : Vals) (fv : FVal) :
    Scheme.fieldVal bcryptTI ((fieldIndex bcryptTI "Salt", fv) :: vals) "Sum" = Scheme.fieldVal bcryptTI vals "Sum" := rfl
@[flowval] theorem readField_bcrypt_Sum (vals : Vals) :
    readField (.struct bcryptTI vals) "Sum" = some (.bytes (fvBytes (Scheme.fieldVal bcryptTI vals "Sum"))) := rfl
@[flowval] theorem writeField_bcrypt_Sum (vals : Vals) (x : Bytes) :
    writeField (.struct bcryptTI vals) "Sum" (.bytes x) = some (.struct bcryptTI ((fieldIndex bcryptTI "Sum", .bytes x) :: vals)) := rfl
@[flowval] theorem fieldVal_bcrypt_set_Sum_HashPrefix (vals : Vals) (fv : FVal) :
    Scheme.fieldVal bcryptTI ((fieldIndex bcryptTI "Sum", fv) :: vals) "HashPrefix" = Scheme.fieldVal bcryptTI vals "HashPrefix" := rfl
@[flowval] theorem fieldVal_bcrypt_set_Sum_Cost (vals : Vals) (fv : FVal) :
    Scheme.fieldVal bcryptTI ((fieldIndex bcryptTI "Sum", fv) :: vals) "Cost" = Scheme.fieldVal bcryptTI vals "Cost" := rfl
@[flowval] theorem fieldVal_bcrypt_set_Sum_Salt (vals : Vals) (fv : FVal) :
    Scheme.fieldVal bcryptTI ((fieldIndex bcryptTI "Sum", fv) :: vals) "Salt" = Scheme.fieldVal bcryptTI vals "Salt" := rfl
@[flowval] theorem fieldVal_bcrypt_set_Sum_Sum (vals : Vals) (fv : FVal) :
    Scheme.fieldVal bcryptTI ((fieldIndex bcryptTI "Sum", fv) :: vals) "Sum" = fv := rfl
@[flowval] theorem fieldVal_bcrypt_nil_HashPrefix : Scheme.fieldVal bcryptTI [] "HashPrefix" = .str [] := rfl
theorem fieldIndex_bcrypt_HashPrefix : fieldIndex bcryptTI "HashPrefix" = bcrypt_HashPrefix.index := rfl
@[flowval] theorem fieldVal_bcrypt_nil_Cost : Scheme.fieldVal bcryptTI [] "Cost" = .uint 0 := rfl
theorem fieldIndex_bcrypt_Cost : fieldIndex bcryptTI "Cost" = bcrypt_Cost.index := rfl
@[flowval] theorem fieldVal_bcrypt_nil_Salt : Scheme.fieldVal bcryptTI [] "Salt" = .bytes [] := rfl
theorem fieldIndex_bcrypt_Salt : fieldIndex bcryptTI "Salt" = bcrypt_Salt.index := rfl
@[flowval] theorem fieldVal_bcrypt_nil_Sum : Scheme.fieldVal bcryptTI [] "Sum" = .bytes (List.replicate Gen.bcrypt.sumLength 0) := rfl
theorem fieldIndex_bcrypt_Sum : fieldIndex bcryptTI "Sum" = bcrypt_Sum.index := rfl
theorem marshal_canon_bcrypt (vals : Vals) :
    marshal bcryptTI vals = marshal bcryptTI [(bcrypt_HashPrefix.index, Codec.fieldVal vals bcrypt_HashPrefix), (bcrypt_Cost.index, Codec.fieldVal vals bcrypt_Cost), (bcrypt_Salt.index, Codec.fieldVal vals bcrypt_Salt), (bcrypt_Sum.index, Codec.fieldVal vals bcrypt_Sum)] := by
  apply marshal_congr
  simp [bcryptTI, Codec.fieldVal, getVal, bcrypt_HashPrefix, bcrypt_Cost, bcrypt_Salt, bcrypt_Sum]
  repeat' apply And.intro
  all_goals rfl

/-! ## sunmd5 -/

@[flowval] theorem readField_sunmd5_HashPrefix (vals : Vals) :
    readField (.struct sunmd5TI vals) "HashPrefix" = some (.str (fvBytes (Scheme.fieldVal sunmd5TI vals "HashPrefix"))) := rfl
@[flowval] theorem writeField_sunmd5_HashPrefix (vals : Vals) (x : Bytes) :
    writeField (.struct sunmd5TI vals) "HashPrefix" (.str x) = some (.struct sunmd5TI ((fieldIndex sunmd5TI "HashPrefix", .str x) :: vals)) := rfl
@[flowval] theorem fieldVal_sunmd5_set_HashPrefix_HashPrefix (vals : Vals) (fv : FVal) :
    Scheme.fieldVal sunmd5TI ((fieldIndex sunmd5TI "HashPrefix", fv) :: vals) "HashPrefix" = fv := rfl
@[flowval] theorem fieldVal_sunmd5_set_HashPrefix_Rounds (vals : Vals) (fv : FVal) :
    Scheme.fieldVal sunmd5TI ((fieldIndex sunmd5TI "HashPrefix", fv) :: vals) "Rounds" = Scheme.fieldVal sunmd5TI vals "Rounds" := rfl
@[flowval] theorem fieldVal_sunmd5_set_HashPrefix_Salt (vals : Vals) (fv : FVal) :
    Scheme.fieldVal sunmd5TI ((fieldIndex sunmd5TI "HashPrefix", fv) :: vals) "Salt" = Scheme.fieldVal sunmd5TI vals "Salt" := rfl
@[flowval] theorem fieldVal_sunmd5_set_HashPrefix_Separator (vals : Vals) (fv : FVal) :
    Scheme.fieldVal sunmd5TI ((fieldIndex sunmd5TI "HashPrefix", fv) :: vals) "Separator" = Scheme.fieldVal sunmd5TI vals "Separator" := rfl
@[flowval] theorem fieldVal_sunmd5_set_HashPrefix_Sum (vals : Vals) (fv : FVal) :
    Scheme.fieldVal sunmd5TI ((fieldIndex sunmd5TI "HashPrefix", fv) :: vals) "Sum" = Scheme.fieldVal sunmd5TI vals "Sum" := rfl
@[flowval] theorem readField_sunmd5_Rounds (vals : Vals) :
    readField (.struct sunmd5TI vals) "Rounds" = some (.nat (fvNat (Scheme.fieldVal sunmd5TI vals "Rounds"))) := rfl
@[flowval] theorem writeField_sunmd5_Rounds (vals : Vals) (x : Nat) :
    writeField (.struct sunmd5TI vals) "Rounds" (.nat x) = some (.struct sunmd5TI ((fieldIndex sunmd5TI "Rounds", .uint x) :: vals)) := rfl
@[flowval] theorem fieldVal_sunmd5_set_Rounds_HashPrefix (vals : Vals) (fv : FVal) :
    Scheme.fieldVal sunmd5TI ((fieldIndex sunmd5TI "Rounds", fv) :: vals) "HashPrefix" = Scheme.fieldVal sunmd5TI vals "HashPrefix" := rfl
@[flowval] theorem fieldVal_sunmd5_set_Rounds_Rounds (vals : Vals) (fv : FVal) :
    Scheme.fieldVal sunmd5TI ((fieldIndex sunmd5TI "Rounds", fv) :: vals) "Rounds" = fv := rfl
@[flowval] theorem fieldVal_sunmd5_set_Rounds_Salt (vals : Vals) (fv : FVal) :
    Scheme.fieldVal sunmd5TI ((fieldIndex sunmd5TI "Rounds", fv) :: vals) "Salt" = Scheme.fieldVal sunmd5TI vals "Salt" := rfl
@[flowval] theorem fieldVal_sunmd5_set_Rounds_Separator (vals : Vals) (fv : FVal) :
    Scheme.fieldVal sunmd5TI ((fieldIndex sunmd5TI "Rounds", fv) :: vals) "Separator" = Scheme.fieldVal sunmd5TI vals "Separator" := rfl
@[flowval] theorem fieldVal_sunmd5_set_Rounds_Sum (vals : Vals) (fv : FVal) :
    Scheme.fieldVal sunmd5TI ((fieldIndex sunmd5TI "Rounds", fv) :: vals) "Sum" = Scheme.fieldVal sunmd5TI vals "Sum" := rfl
@[flowval] theorem readField_sunmd5_Salt (vals : Vals) :
    readField (.struct sunmd5TI vals) "Salt" = some (.bytes (fvBytes (Scheme.fieldVal sunmd5TI vals "Salt"))) := rfl
@[flowval] theorem writeField_sunmd5_Salt (vals : Vals) (x : Bytes) :
    writeField (.struct sunmd5TI vals) "Salt" (.bytes x) = some (.struct sunmd5TI ((fieldIndex sunmd5TI "Salt", .bytes x) :: vals)) := rfl
@[flowval] theorem fieldVal_sunmd5_set_Salt_HashPrefix (vals : Vals) (fv : FVal) :
    Scheme.fieldVal sunmd5TI ((fieldIndex sunmd5TI "Salt", fv) :: vals) "HashPrefix" = Scheme.fieldVal sunmd5TI vals "HashPrefix" := rfl
@[flowval] theorem fieldVal_sunmd5_set_Salt_Rounds (vals : Vals) (fv : FVal) :
    Scheme.fieldVal sunmd5TI ((fieldIndex sunmd5TI "Salt", fv) :: vals) "Rounds" = Scheme.fieldVal sunmd5TI vals "Rounds" := rfl
@[flowval] theorem fieldVal_sunmd5_set_Salt_Salt (vals : Vals) (fv : FVal) :
    Scheme.fieldVal sunmd5TI ((fieldIndex sunmd5TI "Salt", fv) :: vals) "Salt" = fv := rfl
@[flowval] theorem fieldVal_sunmd5_set_Salt_Separator (vals : Vals) (fv : FVal) :
    Scheme.fieldVal sunmd5TI ((fieldIndex sunmd5TI "Salt", fv) :: vals) "Separator" = Scheme.fieldVal sunmd5TI vals "Separator" := rfl
@[flowval] theorem fieldVal_sunmd5_set_Salt_Sum (vals : Vals) (fv : FVal) :
    Scheme.fieldVal sunmd5TI ((fieldIndex sunmd5TI "Salt", fv) :: vals) "Sum" = Scheme.fieldVal sunmd5TI vals "Sum" := rfl
@[flowval] theorem readField_sunmd5_Separator (vals : Vals) :
    readField (.struct sunmd5TI vals) "Separator" = some (if (Scheme.fieldVal sunmd5TI vals "Separator") == .nilPtr then .nil else .ptr (Scheme.fieldVal sunmd5TI vals "Separator")) := rfl
@[flowval] theorem writeField_sunmd5_Separator (vals : Vals) (fv : FVal) :
    writeField (.struct sunmd5TI vals) "Separator" (.ptr fv) = some (.struct sunmd5TI ((fieldIndex sunmd5TI "Separator", fv) :: vals)) := rfl
@[flowval] theorem fieldInfo_sunmd5_saltScheme : fieldInfo sunmd5TI "saltScheme" = none := by decide
@[flowval] theorem fieldVal_sunmd5_set_Separator_HashPrefix (vals : Vals) (fv : FVal) :
    Scheme.fieldVal sunmd5TI ((fieldIndex sunmd5TI "Separator", fv) :: vals) "HashPrefix" = Scheme.fieldVal sunmd5TI vals "HashPrefix" := rfl
@[flowval] theorem fieldVal_sunmd5_set_Separator_Rounds (vals : Vals) (fv : FVal) :
    Scheme.fieldVal sunmd5TI ((fieldIndex sunmd5TI "Separator", fv) :: vals) "Rounds" = Scheme.fieldVal sunmd5TI vals "Rounds" := rfl
@[flowval] theorem fieldVal_sunmd5_set_Separator_Salt (vals : Vals) (fv : FVal) :
    Scheme.fieldVal sunmd5TI ((fieldIndex sunmd5TI "Separator", fv) :: vals) "Salt" = Scheme.fieldVal sunmd5TI vals "Salt" := rfl
@[flowval] theorem fieldVal_sunmd5_set_Separator_Separator (vals : Vals) (fv : FVal) :
    Scheme.fieldVal sunmd5TI ((fieldIndex sunmd5TI "Separator", fv) :: vals) "Separator" = fv := rfl
@[flowval] theorem fieldVal_sunmd5_set_Separator_Sum (vals : Vals) (fv : FVal) :
    Scheme.fieldVal sunmd5TI ((fieldIndex sunmd5TI "Separator", fv) :: vals) "Sum" = Scheme.fieldVal sunmd5TI vals "Sum" := rfl
@[flowval] theorem readField_sunmd5_Sum (vals : Vals) :
    readField (.struct sunmd5TI vals) "Sum" = some (.bytes (fvBytes (Scheme.fieldVal sunmd5TI vals "Sum"))) := rfl
@[flowval] theorem writeField_sunmd5_Sum (vals : Vals) (x : Bytes) :
    writeField (.struct sunmd5TI vals) "Sum" (.bytes x) = some (.struct sunmd5TI ((fieldIndex sunmd5TI "Sum", .bytes x) :: vals)) := rfl
@[flowval] theorem fieldVal_sunmd5_set_Sum_HashPrefix (vals : Vals) (fv : FVal) :
    Scheme.fieldVal sunmd5TI ((fieldIndex sunmd5TI "Sum", fv) :: vals) "HashPrefix" = Scheme.fieldVal sunmd5TI vals "HashPrefix" := rfl
@[flowval] theorem fieldVal_sunmd5_set_Sum_Rounds (vals : Vals) (fv : FVal) :
    Scheme.fieldVal sunmd5TI ((fieldIndex sunmd5TI "Sum", fv) :: vals) "Rounds" = Scheme.fieldVal sunmd5TI vals "Rounds" := rfl
@[flowval] theorem fieldVal_sunmd5_set_Sum_Salt (vals : Vals) (fv : FVal) :
    Scheme.fieldVal sunmd5TI ((fieldIndex sunmd5TI "Sum", fv) :: vals) "Salt" = Scheme.fieldVal sunmd5TI vals "Salt" := rfl
@[flowval] theorem fieldVal_sunmd5_set_Sum_Separator (vals : Vals) (fv : FVal) :
    Scheme.fieldVal sunmd5TI ((fieldIndex sunmd5TI "Sum", fv) :: vals) "Separator" = Scheme.fieldVal sunmd5TI vals "Separator" := rfl
@[flowval] theorem fieldVal_sunmd5_set_Sum_Sum (vals : Vals) (fv : FVal) :
    Scheme.fieldVal sunmd5TI ((fieldIndex sunmd5TI "Sum", fv) :: vals) "Sum" = fv := rfl
@[flowval] theorem fieldVal_sunmd5_nil_HashPrefix : Scheme.fieldVal sunmd5TI [] "HashPrefix" = .str [] := rfl
theorem fieldIndex_sunmd5_HashPrefix : fieldIndex sunmd5TI "HashPrefix" = sunmd5_HashPrefix.index := rfl
@[flowval] theorem fieldVal_sunmd5_nil_Rounds : Scheme.fieldVal sunmd5TI [] "Rounds" = .uint 0 := rfl
theorem fieldIndex_sunmd5_Rounds : fieldIndex sunmd5TI "Rounds" = sunmd5_Rounds.index := rfl
@[flowval] theorem fieldVal_sunmd5_nil_Salt : Scheme.fieldVal sunmd5TI [] "Salt" = .bytes [] := rfl
theorem fieldIndex_sunmd5_Salt : fieldIndex sunmd5TI "Salt" = sunmd5_Salt.index := rfl
@[flowval] theorem fieldVal_sunmd5_nil_Separator : Scheme.fieldVal sunmd5TI [] "Separator" = .nilPtr := rfl
theorem fieldIndex_sunmd5_Separator : fieldIndex sunmd5TI "Separator" = sunmd5_Separator.index := rfl
@[flowval] theorem fieldVal_sunmd5_nil_Sum : Scheme.fieldVal sunmd5TI [] "Sum" = .bytes (List.replicate Gen.sunmd5.sumLength 0) := rfl
theorem fieldIndex_sunmd5_Sum : fieldIndex sunmd5TI "Sum" = sunmd5_Sum.index := rfl
theorem marshal_canon_sunmd5 (vals : Vals) :
    marshal sunmd5TI vals = marshal sunmd5TI [(sunmd5_HashPrefix.index, Codec.fieldVal vals sunmd5_HashPrefix), (sunmd5_Rounds.index, Codec.fieldVal vals sunmd5_Rounds), (sunmd5_Salt.index, Codec.fieldVal vals sunmd5_Salt), (sunmd5_Separator.index, Codec.fieldVal vals sunmd5_Separator), (sunmd5_Sum.index, Codec.fieldVal vals sunmd5_Sum)] := by
  apply marshal_congr
  simp [sunmd5TI, Codec.fieldVal, getVal, sunmd5_HashPrefix, sunmd5_Rounds, sunmd5_Salt, sunmd5_Separator, sunmd5_Sum]
  repeat' apply And.intro
  all_goals rfl

/-! ## argon2 -/

@[flowval] theorem readField_argon2_HashPrefix (vals : Vals) :
    readField (.struct argon2TI vals) "HashPrefix" = some (.str (fvBytes (Scheme.fieldVal argon2TI vals "HashPrefix"))) := rfl
@[flowval] theorem writeField_argon2_HashPrefix (vals : Vals) (x : Bytes) :
    writeField (.struct argon2TI vals) "HashPrefix" (.str x) = some (.struct argon2TI ((fieldIndex argon2TI "HashPrefix", .str x) :: vals)) := rfl
@[flowval] theorem fieldVal_argon2_set_HashPrefix_HashPrefix (vals : Vals) (fv : FVal) :
    Scheme.fieldVal argon2TI ((fieldIndex argon2TI "HashPrefix", fv) :: vals) "HashPrefix" = fv := rfl
@[flowval] theorem fieldVal_argon2_set_HashPrefix_Version (vals : Vals) (fv : FVal) :
    Scheme.fieldVal argon2TI ((fieldIndex argon2TI "HashPrefix", fv) :: vals) "Version" = Scheme.fieldVal argon2TI vals "Version" := rfl
@[flowval] theorem fieldVal_argon2_set_HashPrefix_Memory (vals : Vals) (fv : FVal) :
    Scheme.fieldVal argon2TI ((fieldIndex argon2TI "HashPrefix", fv) :: vals) "Memory" = Scheme.fieldVal argon2TI vals "Memory" := rfl
@[flowval] theorem fieldVal_argon2_set_HashPrefix_Time (vals : Vals) (fv : FVal) :
    Scheme.fieldVal argon2TI ((fieldIndex argon2TI "HashPrefix", fv) :: vals) "Time" = Scheme.fieldVal argon2TI vals "Time" := rfl
@[flowval] theorem fieldVal_argon2_set_HashPrefix_Threads (vals : Vals) (fv : FVal) :
    Scheme.fieldVal argon2TI ((fieldIndex argon2TI "HashPrefix", fv) :: vals) "Threads" = Scheme.fieldVal argon2TI vals "Threads" := rfl
@[flowval] theorem fieldVal_argon2_set_HashPrefix_Salt (vals : Vals) (fv : FVal) :
    Scheme.fieldVal argon2TI ((fieldIndex argon2TI "HashPrefix", fv) :: vals) "Salt" = Scheme.fieldVal argon2TI vals "Salt" := rfl
@[flowval] theorem fieldVal_argon2_set_HashPrefix_Sum (vals : Vals) (fv : FVal) :
    Scheme.fieldVal argon2TI ((fieldIndex argon2TI "HashPrefix", fv) :: vals) "Sum" = Scheme.fieldVal argon2TI vals "Sum" := rfl
@[flowval] theorem readField_argon2_Version (vals : Vals) :
    readField (.struct argon2TI vals) "Version" = some (.nat (fvNat (Scheme.fieldVal argon2TI vals "Version"))) := rfl
@[flowval] theorem writeField_argon2_Version (vals : Vals) (x : Nat) :
    writeField (.struct argon2TI vals) "Version" (.nat x) = some (.struct argon2TI ((fieldIndex argon2TI "Version", .uint x) :: vals)) := rfl
@[flowval] theorem fieldVal_argon2_set_Version_HashPrefix (vals : Vals) (fv : FVal) :
    Scheme.fieldVal argon2TI ((fieldIndex argon2TI "Version", fv) :: vals) "HashPrefix" = Scheme.fieldVal argon2TI vals "HashPrefix" := rfl
@[flowval] theorem fieldVal_argon2_set_Version_Version (vals : Vals) (fv : FVal) :
    Scheme.fieldVal argon2TI ((fieldIndex argon2TI "Version", fv) :: vals) "Version" = fv := rfl
@[flowval] theorem fieldVal_argon2_set_Version_Memory (vals : Vals) (fv : FVal) :
    Scheme.fieldVal argon2TI ((fieldIndex argon2TI "Version", fv) :: vals) "Memory" = Scheme.fieldVal argon2TI vals "Memory" := rfl
@[flowval] theorem fieldVal_argon2_set_Version_Time (vals : Vals) (fv : FVal) :
    Scheme.fieldVal argon2TI ((fieldIndex argon2TI "Version", fv) :: vals) "Time" = Scheme.fieldVal argon2TI vals "Time" := rfl
@[flowval] theorem fieldVal_argon2_set_Version_Threads (vals : Vals) (fv : FVal) :
    Scheme.fieldVal argon2TI ((fieldIndex argon2TI "Version", fv) :: vals) "Threads" = Scheme.fieldVal argon2TI vals "Threads" := rfl
@[flowval] theorem fieldVal_argon2_set_Version_Salt (vals : Vals) (fv : FVal) :
    Scheme.fieldVal argon2TI ((fieldIndex argon2TI "Version", fv) :: vals) "Salt" = Scheme.fieldVal argon2TI vals "Salt" := rfl
@[flowval] theorem fieldVal_argon2_set_Version_Sum (vals : Vals) (fv : FVal) :
    Scheme.fieldVal argon2TI ((fieldIndex argon2TI "Version", fv) :: vals) "Sum" = Scheme.fieldVal argon2TI vals "Sum" := rfl
@[flowval] theorem readField_argon2_Memory (vals : Vals) :
    readField (.struct argon2TI vals) "Memory" = some (.nat (fvNat (Scheme.fieldVal argon2TI vals "Memory"))) := rfl
@[flowval] theorem writeField_argon2_Memory (vals : Vals) (x : Nat) :
    writeField (.struct argon2TI vals) "Memory" (.nat x) = some (.struct argon2TI ((fieldIndex argon2TI "Memory", .uint x) :: vals)) := rfl
@[flowval] theorem fieldVal_argon2_set_Memory_HashPrefix (vals : Vals) (fv : FVal) :
    Scheme.fieldVal argon2TI ((fieldIndex argon2TI "Memory", fv) :: vals) "HashPrefix" = Scheme.fieldVal argon2TI vals "HashPrefix" := rfl
@[flowval] theorem fieldVal_argon2_set_Memory_Version (vals : Vals) (fv : FVal) :
    Scheme.fieldVal argon2TI ((fieldIndex argon2TI "Memory", fv) :: vals) "Version" = Scheme.fieldVal argon2TI vals "Version" := rfl
@[flowval] theorem fieldVal_argon2_set_Memory_Memory (vals : Vals) (fv : FVal) :
    Scheme.fieldVal argon2TI ((fieldIndex argon2TI "Memory", fv) :: vals) "Memory" = fv := rfl
@[flowval] theorem fieldVal_argon2_set_Memory_Time (vals : Vals) (fv : FVal) :
    Scheme.fieldVal argon2TI ((fieldIndex argon2TI "Memory", fv) :: vals) "Time" = Scheme.fieldVal argon2TI vals "Time" := rfl
@[flowval] theorem fieldVal_argon2_set_Memory_Threads (vals : Vals) (fv : FVal) :
    Scheme.fieldVal argon2TI ((fieldIndex argon2TI "Memory", fv) :: vals) "Threads" = Scheme.fieldVal argon2TI vals "Threads" := rfl
@[flowval] theorem fieldVal_argon2_set_Memory_Salt (vals : Vals) (fv : FVal) :
    Scheme.fieldVal argon2TI ((fieldIndex argon2TI "Memory", fv) :: vals) "Salt" = Scheme.fieldVal argon2TI vals "Salt" := rfl
@[flowval] theorem fieldVal_argon2_set_Memory_Sum (vals : Vals) (fv : FVal) :
    Scheme.fieldVal argon2TI ((fieldIndex argon2TI "Memory", fv) :: vals) "Sum" = Scheme.fieldVal argon2TI vals "Sum" := rfl
@[flowval] theorem readField_argon2_Time (vals : Vals) :
    readField (.struct argon2TI vals) "Time" = some (.nat (fvNat (Scheme.fieldVal argon2TI vals "Time"))) := rfl
@[flowval] theorem writeField_argon2_Time (vals : Vals) (x : Nat) :
    writeField (.struct argon2TI vals) "Time" (.nat x) = some (.struct argon2TI ((fieldIndex argon2TI "Time", .uint x) :: vals)) := rfl
@[flowval] theorem fieldVal_argon2_set_Time_HashPrefix (vals : Vals) (fv : FVal) :
    Scheme.fieldVal argon2TI ((fieldIndex argon2TI "Time", fv) :: vals) "HashPrefix" = Scheme.fieldVal argon2TI vals "HashPrefix" := rfl
@[flowval] theorem fieldVal_argon2_set_Time_Version (vals : Vals) (fv : FVal) :
    Scheme.fieldVal argon2TI ((fieldIndex argon2TI "Time", fv) :: vals) "Version" = Scheme.fieldVal argon2TI vals "Version" := rfl
@[flowval] theorem fieldVal_argon2_set_Time_Memory (vals : Vals) (fv : FVal) :
    Scheme.fieldVal argon2TI ((fieldIndex argon2TI "Time", fv) :: vals) "Memory" = Scheme.fieldVal argon2TI vals "Memory" := rfl
@[flowval] theorem fieldVal_argon2_set_Time_Time (vals : Vals) (fv : FVal) :
    Scheme.fieldVal argon2TI ((fieldIndex argon2TI "Time", fv) :: vals) "Time" = fv := rfl
@[flowval] theorem fieldVal_argon2_set_Time_Threads (vals : Vals) (fv : FVal) :
    Scheme.fieldVal argon2TI ((fieldIndex argon2TI "Time", fv) :: vals) "Threads" = Scheme.fieldVal argon2TI vals "Threads" := rfl
@[flowval] theorem fieldVal_argon2_set_Time_Salt (vals : Vals) (fv : FVal) :
    Scheme.fieldVal argon2TI ((fieldIndex argon2TI "Time", fv) :: vals) "Salt" = Scheme.fieldVal argon2TI vals "Salt" := rfl
@[flowval] theorem fieldVal_argon2_set_Time_Sum (vals : Vals) (fv : FVal) :
    Scheme.fieldVal argon2TI ((fieldIndex argon2TI "Time", fv) :: vals) "Sum" = Scheme.fieldVal argon2TI vals "Sum" := rfl
@[flowval] theorem readField_argon2_Threads (vals : Vals) :
    readField (.struct argon2TI vals) "Threads" = some (.nat (fvNat (Scheme.fieldVal argon2TI vals "Threads"))) := rfl
@[flowval] theorem writeField_argon2_Threads (vals : Vals) (x : Nat) :
    writeField (.struct argon2TI vals) "Threads" (.nat x) = some (.struct argon2TI ((fieldIndex argon2TI "Threads", .uint x) :: vals)) := rfl
@[flowval] theorem fieldVal_argon2_set_Threads_HashPrefix (vals : Vals) (fv : FVal) :
    Scheme.fieldVal argon2TI ((fieldIndex argon2TI "Threads", fv) :: vals) "HashPrefix" = Scheme.fieldVal argon2TI vals "HashPrefix" := rfl
@[flowval] theorem fieldVal_argon2_set_Threads_Version (vals : Vals) (fv : FVal) :
    Scheme.fieldVal argon2TI ((fieldIndex argon2TI "Threads", fv) :: vals) "Version" = Scheme.fieldVal argon2TI vals "Version" := rfl
@[flowval] theorem fieldVal_argon2_set_Threads_Memory (vals : Vals) (fv : FVal) :
    Scheme.fieldVal argon2TI ((fieldIndex argon2TI "Threads", fv) :: vals) "Memory" = Scheme.fieldVal argon2TI vals "Memory" := rfl
@[flowval] theorem fieldVal_argon2_set_Threads_Time (vals : Vals) (fv : FVal) :
    Scheme.fieldVal argon2TI ((fieldIndex argon2TI "Threads", fv) :: vals) "Time" = Scheme.fieldVal argon2TI vals "Time" := rfl
@[flowval] theorem fieldVal_argon2_set_Threads_Threads (vals : Vals) (fv : FVal) :
    Scheme.fieldVal argon2TI ((fieldIndex argon2TI "Threads", fv) :: vals) "Threads" = fv := rfl
@[flowval] theorem fieldVal_argon2_set_Threads_Salt (vals : Vals) (fv : FVal) :
    Scheme.fieldVal argon2TI ((fieldIndex argon2TI "Threads", fv) :: vals) "Salt" = Scheme.fieldVal argon2TI vals "Salt" := rfl
@[flowval] theorem fieldVal_argon2_set_Threads_Sum (vals : Vals) (fv : FVal) :
    Scheme.fieldVal argon2TI ((fieldIndex argon2TI "Threads", fv) :: vals) "Sum" = Scheme.fieldVal argon2TI vals "Sum" := rfl
@[flowval] theorem readField_argon2_Salt (vals : Vals) :
    readField (.struct argon2TI vals) "Salt" = some (.bytes (fvBytes (Scheme.fieldVal argon2TI vals "Salt"))) := rfl
@[flowval] theorem writeField_argon2_Salt (vals : Vals) (x : Bytes) :
    writeField (.struct argon2TI vals) "Salt" (.bytes x) = some (.struct argon2TI ((fieldIndex argon2TI "Salt", .bytes x) :: vals)) := rfl
@[flowval] theorem fieldVal_argon2_set_Salt_HashPrefix (vals : Vals) (fv : FVal) :
    Scheme.fieldVal argon2TI ((fieldIndex argon2TI "Salt", fv) :: vals) "HashPrefix" = Scheme.fieldVal argon2TI vals "HashPrefix" := rfl
@[flowval] theorem fieldVal_argon2_set_Salt_Version (vals : Vals) (fv : FVal) :
    Scheme.fieldVal argon2TI ((fieldIndex argon2TI "Salt", fv) :: vals) "Version" = Scheme.fieldVal argon2TI vals "Version" := rfl
@[flowval] theorem fieldVal_argon2_set_Salt_Memory (vals : Vals) (fv : FVal) :
    Scheme.fieldVal argon2TI ((fieldIndex argon2TI "Salt", fv) :: vals) "Memory" = Scheme.fieldVal argon2TI vals "Memory" := rfl
@[flowval] theorem fieldVal_argon2_set_Salt_Time (vals : Vals) (fv : FVal) :
    Scheme.fieldVal argon2TI ((fieldIndex argon2TI "Salt", fv) :: vals) "Time" = Scheme.fieldVal argon2TI vals "Time" := rfl
@[flowval] theorem fieldVal_argon2_set_Salt_Threads (vals : Vals) (fv : FVal) :
    Scheme.fieldVal argon2TI ((fieldIndex argon2TI "Salt", fv) :: vals) "Threads" = Scheme.fieldVal argon2TI vals "Threads" := rfl
@[flowval] theorem fieldVal_argon2_set_Salt_Salt (vals : Vals) (fv : FVal) :
    Scheme.fieldVal argon2TI ((fieldIndex argon2TI "Salt", fv) :: vals) "Salt" = fv := rfl
@[flowval] theorem fieldVal_argon2_set_Salt_Sum (vals : Vals) (fv : FVal) :
    Scheme.fieldVal argon2TI ((fieldIndex argon2TI "Salt", fv) :: vals) "Sum" = Scheme.fieldVal argon2TI vals "Sum" := rfl
@[flowval] theorem readField_argon2_Sum (vals : Vals) :
    readField (.struct argon2TI vals) "Sum" = some (.bytes (fvBytes (Scheme.fieldVal argon2TI vals "Sum"))) := rfl
@[flowval] theorem writeField_argon2_Sum (vals : Vals) (x : Bytes) :
    writeField (.struct argon2TI vals) "Sum" (.bytes x) = some (.struct argon2TI ((fieldIndex argon2TI "Sum", .bytes x) :: vals)) := rfl
@[flowval] theorem fieldVal_argon2_set_Sum_HashPrefix (vals : Vals) (fv : FVal) :
    Scheme.fieldVal argon2TI ((fieldIndex argon2TI "Sum", fv) :: vals) "HashPrefix" = Scheme.fieldVal argon2TI vals "HashPrefix" := rfl
@[flowval] theorem fieldVal_argon2_set_Sum_Version (vals : Vals) (fv : FVal) :
    Scheme.fieldVal argon2TI ((fieldIndex argon2TI "Sum", fv) :: vals) "Version" = Scheme.fieldVal argon2TI vals "Version" := rfl
@[flowval] theorem fieldVal_argon2_set_Sum_Memory (vals : Vals) (fv : FVal) :
    Scheme.fieldVal argon2TI ((fieldIndex argon2TI "Sum", fv) :: vals) "Memory" = Scheme.fieldVal argon2TI vals "Memory" := rfl
@[flowval] theorem fieldVal_argon2_set_Sum_Time (vals : Vals) (fv : FVal) :
    Scheme.fieldVal argon2TI ((fieldIndex argon2TI "Sum", fv) :: vals) "Time" = Scheme.fieldVal argon2TI vals "Time" := rfl
@[flowval] theorem fieldVal_argon2_set_Sum_Threads (vals : Vals) (fv : FVal) :
    Scheme.fieldVal argon2TI ((fieldIndex argon2TI "Sum", fv) :: vals) "Threads" = Scheme.fieldVal argon2TI vals "Threads" := rfl
@[flowval] theorem fieldVal_argon2_set_Sum_Salt (vals : Vals) (fv : FVal) :
    Scheme.fieldVal argon2TI ((fieldIndex argon2TI "Sum", fv) :: vals) "Salt" = Scheme.fieldVal argon2TI vals "Salt" := rfl
@[flowval] theorem fieldVal_argon2_set_Sum_Sum (vals : Vals) (fv : FVal) :
    Scheme.fieldVal argon2TI ((fieldIndex argon2TI "Sum", fv) :: vals) "Sum" = fv := rfl
@[flowval] theorem fieldVal_argon2_nil_HashPrefix : Scheme.fieldVal argon2TI [] "HashPrefix" = .str [] := rfl
theorem fieldIndex_argon2_HashPrefix : fieldIndex argon2TI "HashPrefix" = argon2_HashPrefix.index := rfl
@[flowval] theorem fieldVal_argon2_nil_Version : Scheme.fieldVal argon2TI [] "Version" = .uint 0 := rfl
theorem fieldIndex_argon2_Version : fieldIndex argon2TI "Version" = argon2_Version.index := rfl
@[flowval] theorem fieldVal_argon2_nil_Memory : Scheme.fieldVal argon2TI [] "Memory" = .uint 0 := rfl
theorem fieldIndex_argon2_Memory : fieldIndex argon2TI "Memory" = argon2_Memory.index := rfl
@[flowval] theorem fieldVal_argon2_nil_Time : Scheme.fieldVal argon2TI [] "Time" = .uint 0 := rfl
theorem fieldIndex_argon2_Time : fieldIndex argon2TI "Time" = argon2_Time.index := rfl
@[flowval] theorem fieldVal_argon2_nil_Threads : Scheme.fieldVal argon2TI [] "Threads" = .uint 0 := rfl
theorem fieldIndex_argon2_Threads : fieldIndex argon2TI "Threads" = argon2_Threads.index := rfl
@[flowval] theorem fieldVal_argon2_nil_Salt : Scheme.fieldVal argon2TI [] "Salt" = .bytes [] := rfl
theorem fieldIndex_argon2_Salt : fieldIndex argon2TI "Salt" = argon2_Salt.index := rfl
@[flowval] theorem fieldVal_argon2_nil_Sum : Scheme.fieldVal argon2TI [] "Sum" = .bytes [] := rfl
theorem fieldIndex_argon2_Sum : fieldIndex argon2TI "Sum" = argon2_Sum.index := rfl
theorem marshal_canon_argon2 (vals : Vals) :
    marshal argon2TI vals = marshal argon2TI [(argon2_HashPrefix.index, Codec.fieldVal vals argon2_HashPrefix), (argon2_Version.index, Codec.fieldVal vals argon2_Version), (argon2_Memory.index, Codec.fieldVal vals argon2_Memory), (argon2_Time.index, Codec.fieldVal vals argon2_Time), (argon2_Threads.index, Codec.fieldVal vals argon2_Threads), (argon2_Salt.index, Codec.fieldVal vals argon2_Salt), (argon2_Sum.index, Codec.fieldVal vals argon2_Sum)] := by
  apply marshal_congr
  simp [argon2TI, Codec.fieldVal, getVal, argon2_HashPrefix, argon2_Version, argon2_Memory, argon2_Time, argon2_Threads, argon2_Salt, argon2_Sum]
  repeat' apply And.intro
  all_goals rfl

end GoCrypt.FlowVal
