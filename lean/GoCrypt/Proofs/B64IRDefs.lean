import GoCrypt.Gen.B64IR
import GoCrypt.Proofs.B64IRBase
import GoCrypt.Proofs.Base64

/-!
# Buffer IR of `hash/base64le`: how the model's `Encoding` is presented to the regenerated programs

`encVal e` is the Go struct `Encoding{encode, decodeMap, padChar, strict}` of a model encoding `e`:
`encode` is the alphabet, `decodeMap` is the 256-entry table `NewEncoding` fills (the model's
`decodeMapOf`, entry by entry), `padChar` is `-1` (`NoPadding`) or the padding byte.
Helper definitions and lemmas only.
-/

namespace GoCrypt.B64IR
open GoCrypt.Base64LE

/-- `enc.decodeMap` as a 256-byte table. -/
def decodeMapBytes (e : Encoding) : Bytes := (List.range 256).map fun c => UInt8.ofNat (e.dec (UInt8.ofNat c))

/-- `enc.padChar` -/
def padInt (e : Encoding) : Int :=
  match e.pad with
  | some p => p.toNat
  | none => -1

/-- The receiver `enc` of the regenerated methods. -/
def encVal (e : Encoding) : Val := .struct [.arr e.alphabet, .arr (decodeMapBytes e), .int (padInt e), .bool e.strict]

/-- `interp` of a function that is in the program: run its body with calls resolved one level down. -/
theorem interp_eq (P : Program) (f : String) (p : Proc) (h : Heap) (args : List Val)
    (hp : List.lookup f P.procs = some p) (hd : P.procs.length = d + 1) :
    interp P f h args = execProc { call := callIn P d } p h args := by
  simp [interp, hd, callIn, hp]

theorem padInt_eq_neg_one (e : Encoding) : (padInt e = -1) = (e.pad.isNone = true) := by
  unfold padInt
  cases e.pad with
  | none => simp
  | some p => simp

end GoCrypt.B64IR
