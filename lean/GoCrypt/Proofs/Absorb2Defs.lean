import GoCrypt.Spec.CryptSpecs
import GoCrypt.Spec.CryptSpecs2
import GoCrypt.Spec.DesFips
import GoCrypt.Spec.Argon2Rfc
import GoCrypt.Model.Kdf.Misc
import GoCrypt.Model.Kdf.Argon2

/-!
# C02 (continued): vocabulary of the absorption reductions for DES-crypt, BSDi, bcrypt, NT hash, Argon2

Definitions only (no theorem). Two kinds:

* **password equivalences** — the documented truncation / transcoding rule of each scheme, as a
  *decidable* relation on byte strings (`desEquiv`, `desextEquiv`, `bcryptEquiv`; for NT hash the
  equivalence is `utf16le pw = utf16le pw'`, for Argon2 it is equality);
* **collision statements** — `Prop`s about the *primitive only* (salted FIPS DES, the BSDi folding
  step over DES, EksBlowfish + 64 × ECB, MD4, BLAKE2b-512, the Argon2 memory-hard core). Each says
  "two **different** inputs of the primitive give the same output". They are the explicit second
  disjunct of the reductions in `Props/C02b.lean` — never axioms, never assumed false.

Nothing here mentions the hash text, the codec, the guards or `Check`.
-/

namespace GoCrypt.Absorb2
open GoCrypt GoCrypt.Kdf GoCrypt.CryptSpec GoCrypt.CryptSpec2

/-! ## DES-crypt -/

/-- What DES-crypt reads of a password: the low 7 bits of each of the first 8 bytes, a shorter
password padded with zero bytes. -/
def desNorm (pw : Bytes) : Bytes := (List.range 8).map fun i => pw.getD i 0 &&& 0x7F

/-- The documented equivalence of traditional crypt(3): the low 7 bits of the first 8 bytes
(zero-padded) agree. -/
def desEquiv (pw pw' : Bytes) : Prop := desNorm pw = desNorm pw'

instance (pw pw' : Bytes) : Decidable (desEquiv pw pw') := inferInstanceAs (Decidable (_ = _))

/-- A 64-bit DES key whose eight parity positions (the low bit of every byte, which DES ignores) are
clear: one representative per 56-bit key. `descrypt.Key` only produces such keys. -/
def ParityFree (k : UInt64) : Prop := k &&& 0x0101010101010101 = 0

instance (k : UInt64) : Decidable (ParityFree k) := inferInstanceAs (Decidable (_ = _))

/-- The DES-crypt function of the key: 25 salted FIPS 46-3 encryptions starting from the zero block. -/
def desCrypt25 (salt : Nat) (k : UInt64) : UInt64 := iterate (DesFips.desWord k salt) 25 0

/-- **Collision of DES-crypt's core**: two *different 56-bit DES keys* that, with the same salt,
encrypt the zero block 25 times to the same 64-bit block. -/
def DesCryptCollision (salt : Nat) : Prop :=
  ∃ k k' : UInt64, ParityFree k ∧ ParityFree k' ∧ k ≠ k' ∧ desCrypt25 salt k = desCrypt25 salt k'

/-- … the same with the round count as a parameter (BSDi's final stage). -/
def desCryptN (salt rounds : Nat) (k : UInt64) : UInt64 := iterate (DesFips.desWord k salt) rounds 0

/-- Two *different 64-bit keys* (BSDi's folded key has no clear parity positions, but DES ignores them:
the keys must differ in a non-parity position) with the same `rounds`-fold encryption of zero. -/
def DesCryptNCollision (salt rounds : Nat) : Prop :=
  ∃ k k' : UInt64, k ||| 0x0101010101010101 ≠ k' ||| 0x0101010101010101 ∧
    desCryptN salt rounds k = desCryptN salt rounds k'

/-- Two different 64-bit words that are the same DES key: they differ only in the eight parity
positions, which DES ignores (`desWord_ignores_parity`). -/
def ParityTwins (k k' : UInt64) : Prop := k ≠ k' ∧ k ||| 0x0101010101010101 = k' ||| 0x0101010101010101

instance (k k' : UInt64) : Decidable (ParityTwins k k') := inferInstanceAs (Decidable (_ ∧ _))

/-! ## BSDi extended DES: key folding -/

/-- The 8-byte blocks of a password as BSDi reads them: the first 8 bytes (a password of at most 8
bytes — also the empty one — is one block), then the rest in groups of 8, the last group possibly
shorter. -/
def desextBlocks (pw : Bytes) : List Bytes := pw.take 8 :: groups8 (pw.drop 8)

/-- The documented equivalence of BSDi extended DES: the same number of 8-byte blocks, and in every
block the low 7 bits of the (zero-padded) bytes agree. -/
def desextEquiv (pw pw' : Bytes) : Prop := (desextBlocks pw).map desNorm = (desextBlocks pw').map desNorm

instance (pw pw' : Bytes) : Decidable (desextEquiv pw pw') := inferInstanceAs (Decidable (_ = _))

/-- The block keys of a password: the DES-crypt key of each block. All are `ParityFree`. -/
def desextBlockKeys (pw : Bytes) : List UInt64 := (desextBlocks pw).map desKeyOf

/-- One step of the BSDi folding chain, `k ↦ DES_k(k) ⊕ d`: the running key encrypts itself
(unsalted), the next block key is XORed in. `DES key salt block` is one salted encryption. -/
def bsdiStep (DES : UInt64 → Nat → UInt64 → UInt64) (k d : UInt64) : UInt64 := DES k 0 k ^^^ d

/-- The folding chain over a list of block keys: `s₀ = d₀`, `sᵢ₊₁ = DES_{sᵢ}(sᵢ) ⊕ dᵢ₊₁`. -/
def bsdiFold (DES : UInt64 → Nat → UInt64 → UInt64) : List UInt64 → UInt64
  | [] => 0
  | d :: ds => ds.foldl (bsdiStep DES) d

/-- **Collision in the folding chains of two block-key sequences** `ds`, `ds'` (located form). Reading
both chains backwards from their common end, the first place where they differ is

* (`step`) two **different** chain states `s ≠ s'` — each the fold of a non-empty proper prefix —
  that the next step maps to the same state, `DES_s(s) ⊕ d = DES_s'(s') ⊕ d'`, the block keys after
  that being the same in both; or
* (`extL` / `extR`) one sequence is exhausted: its **first block key** equals a folded inner state
  `DES_s(s) ⊕ d` of the other (the remaining block keys again being the same). -/
inductive BsdiChainCollision (DES : UInt64 → Nat → UInt64 → UInt64) (ds ds' : List UInt64) : Prop
  | step (pre pre' : List UInt64) (d d' : UInt64) (post : List UInt64)
      (h : ds = pre ++ d :: post) (h' : ds' = pre' ++ d' :: post) (hne : pre ≠ []) (hne' : pre' ≠ [])
      (hs : bsdiFold DES pre ≠ bsdiFold DES pre')
      (hc : bsdiStep DES (bsdiFold DES pre) d = bsdiStep DES (bsdiFold DES pre') d')
  | extL (pre' : List UInt64) (d' : UInt64) (post : List UInt64)
      (h : ds = bsdiStep DES (bsdiFold DES pre') d' :: post) (h' : ds' = pre' ++ d' :: post) (hne' : pre' ≠ [])
  | extR (pre : List UInt64) (d : UInt64) (post : List UInt64)
      (h : ds = pre ++ d :: post) (h' : ds' = bsdiStep DES (bsdiFold DES pre) d :: post) (hne : pre ≠ [])

/-- Unlocated form of `step`: two different 64-bit states and two block keys (56-bit, parity clear)
with `DES_s(s) ⊕ d = DES_s'(s') ⊕ d'` — equivalently, `DES_s(s) ⊕ DES_s'(s')` is clear in the eight
parity positions. -/
def BsdiStepCollision (DES : UInt64 → Nat → UInt64 → UInt64) : Prop :=
  ∃ s s' d d' : UInt64, ParityFree d ∧ ParityFree d' ∧ s ≠ s' ∧ bsdiStep DES s d = bsdiStep DES s' d'

/-- Unlocated form of `extL`/`extR`: a folded state that is itself a block key, i.e. a state `s` with
`DES_s(s)` clear in the eight parity positions. -/
def BsdiStateIsBlockKey (DES : UInt64 → Nat → UInt64 → UInt64) : Prop :=
  ∃ s d : UInt64, ParityFree d ∧ ParityFree (bsdiStep DES s d)

/-! ## bcrypt -/

/-- The key bytes `bcrypt.Key` hands to the Blowfish key schedule: the (rewritten) password, followed
by a NUL except for `$2$`. -/
def bcryptKeyBytes (pfx pw : Bytes) : Bytes :=
  if pfx ≠ prefix2 then bcryptPassword pfx pw ++ [0] else bcryptPassword pfx pw

/-- What the Blowfish key schedule reads of a key: 18 words = 72 bytes, the key repeated cyclically. -/
def bfKeyStream (key : Bytes) : Bytes := cycleTake key 72

/-- The password equivalence of bcrypt, per prefix: the 72 bytes the key schedule reads agree.
`Props/C02b.lean` unfolds it into the documented rules (`$2b$`: the first 72 bytes, the terminating
NUL included when the password is shorter; `$2$`/`$2a$`: likewise, and every password of 254 bytes or
more is equivalent to seventy-two `'0'`), and shows where it is coarser than "the rewritten
passwords are equal" (cyclic repetition through an embedded NUL). -/
def bcryptEquiv (pfx pw pw' : Bytes) : Prop :=
  ((bcryptKeyBytes pfx pw).isEmpty = (bcryptKeyBytes pfx pw').isEmpty) ∧
    bfKeyStream (bcryptKeyBytes pfx pw) = bfKeyStream (bcryptKeyBytes pfx pw')

instance (pfx pw pw' : Bytes) : Decidable (bcryptEquiv pfx pw pw') := inferInstanceAs (Decidable (_ ∧ _))

/-- bcrypt's core as a function of the Blowfish key, the 16 decoded salt bytes and the cost:
`EksBlowfishSetup` (salted key schedule, then `2^cost` times key / salt re-keying) and 64 encryptions
of each block of `"OrpheanBeholderScryDoubt"`; the first 23 of the 24 bytes. Only Blowfish operations. -/
def bcryptCore (key decSalt : Bytes) (cost : Nat) : Bytes :=
  let c := expandLoop key decSalt (2 ^ cost) (Prim.Blowfish.newSaltedCipher key decSalt)
  (encryptTimes c 64 (orphean.take 8) ++ encryptTimes c 64 ((orphean.drop 8).take 8) ++
    encryptTimes c 64 (orphean.drop 16)).take 23

/-- **Collision of bcrypt's core**: two *different 72-byte Blowfish keys* that, with the same salt and
cost, produce the same 23 bytes. -/
def BcryptCollision (decSalt : Bytes) (cost : Nat) : Prop :=
  ∃ ks ks' : Bytes, ks.length = 72 ∧ ks'.length = 72 ∧ ks ≠ ks' ∧ bcryptCore ks decSalt cost = bcryptCore ks' decSalt cost

/-! ## NT hash -/

/-- Well-formed UTF-8 (Unicode §3.9 D92): the concatenated encodings of Unicode scalar values. -/
def WellFormedUtf8 (s : Bytes) : Prop := ∃ cs : List Nat, (∀ c ∈ cs, IsScalar c) ∧ s = cs.flatMap utf8Encode

/-- The same, decidably: re-encoding what the decoder reads gives the input back (an offending byte
is read as U+FFFD, whose encoding has three bytes). -/
def wellFormedUtf8 (s : Bytes) : Bool := (utf8Scalars s).flatMap utf8Encode == s

/-! ## Argon2 -/

/-- The Argon2 core after the pre-hash: from the 64-byte `H₀` (followed by the 8 bytes that receive
the block and lane numbers) fill `m'` blocks in `p` lanes (`t` passes, type `y`, version `v`) and
extract a `T`-byte tag. The password, salt and parameters enter **only through `H₀`** — and the
numbers `t m' p T y v` themselves. -/
def argon2Core (h0 : Bytes) (t m' p T y v : Nat) : Bytes :=
  Argon2.extractKey (Argon2.processBlocks (Argon2.initBlocks (h0 ++ List.replicate 8 0) m' p) t m' p y v) m' p T

/-- **Collision of the Argon2 core**: two *different 64-byte `H₀` values* that the fill / extract stage
maps to the same tag, for the same `(t, m', p, T, y, v)`. -/
def Argon2CoreCollision (t m' p T y v : Nat) : Prop :=
  ∃ h h' : Bytes, h.length = 64 ∧ h'.length = 64 ∧ h ≠ h' ∧ argon2Core h t m' p T y v = argon2Core h' t m' p T y v

/-- BLAKE2b-512 as a function on byte strings (`Collision blake2b512` is its collision statement). -/
def blake2b512 (x : Bytes) : Bytes := Prim.blake2b 64 x

end GoCrypt.Absorb2
