import GoCrypt.Proofs.TIIRCacheConc
import GoCrypt.Proofs.TIIRCacheExamples

/-!
# Type-info IR with cache state: interleaved calls on the example struct descriptions

Definitions only (for the `#guard` examples of `Props/TypeCacheIR.lean`): `checkSched` starts one call of the
regenerated `getTypeInfo` per `(struct, stars)`, runs the given schedule (thread numbers; each thread needs at
most five turns) from the empty cache and heap, and CHECKS every thread's result against `typeInfoOf`.
-/

namespace GoCrypt.TIIR.Cache.Examples
open GoCrypt.Codec GoCrypt.Gen.typeinfoIR GoCrypt.TIIR GoCrypt.TIIR.Examples

/-- The calling context inside a call at depth 40 (as `call` of `TIIRCacheExamples.lean`). -/
def ccEx : CtxC := ccOf (world sortByLen) 39

def runSched (args : List (String × Nat)) (sched : List Nat) : Sys :=
  (Sys.init T0 [] [] (args.map fun a => ⟨a.1, a.2⟩)).run ccEx sched

/-- A finished thread returned `typeInfoOf` in a record with `Struct` = its own argument type, or the model's error. -/
def thrOK (h : Heap) (root : String) (stars : Nat) : Thr → Bool
  | .done [.ptr a, .nil] =>
    (match typeInfoOf structs root, h[a]? with
     | .ok ti, some [.rtype s, .rtype ty, hp, .ptrs addrs, .int n] =>
       s == argType T0 root stars && ty == T0 root &&
       addrs.map (h[·]?) == ti.fields.map (some ∘ fiObj) && n == ti.numReqValues &&
       (match hp, ti.hashPrefix with
        | .nil, none => true
        | .ptr p, some fi => h[p]? == some (fiObj fi)
        | _, _ => false)
     | _, _ => false)
  | .done [.nil, v] =>
    (match typeInfoOf structs root with
     | .error e => absErr h v == some e
     | .ok _ => false)
  | _ => false

/-- Run the schedule; `none` unless EVERY thread has returned the right result; else the keys of the cache. -/
def checkSched (args : List (String × Nat)) (sched : List Nat) : Option (List RType) :=
  let s := runSched args sched
  if s.thr.length == args.length && (args.zip s.thr).all (fun p => thrOK s.h p.1.1 p.1.2 p.2) then some (s.K.map (·.1)) else none

end GoCrypt.TIIR.Cache.Examples
