import GoCrypt.Proofs.SIRDecIndep
import GoCrypt.Proofs.SIRDecTop

/-!
# The model's `decodeLoop` does not panic when `dst` has room for three bytes per four remaining symbols

Every digit `collect` gathers consumes a symbol, so a quantum of `dlen` digits leaves at most `dlen - 1` bytes
and moves `si` by at least `dlen`; with `n + 3 * (len src - si) / 4 ≤ len dst` no store is out of range.
Helper lemmas only.
-/

namespace GoCrypt.SIR
open GoCrypt.B64IR
open GoCrypt.Base64LE GoCrypt.Gen.base64le GoCrypt.Stream

/-- A quantum of `dlen` digits, `j` of which were there before position `si`, ends at least `dlen - j` symbols later. -/
def collectAdv (si j : Nat) : Sum (Nat × Option Nat) (Nat × Nat × List Nat × Option Nat) → Prop
  | .inl _ => True
  | .inr (si', dlen, _, _) => si + dlen ≤ si' + j

theorem collectAdv_mono {si j si2 j2 : Nat} (r : Sum (Nat × Option Nat) (Nat × Nat × List Nat × Option Nat))
    (h : si + j2 ≤ si2 + j) (hr : collectAdv si2 j2 r) : collectAdv si j r := by
  cases r with
  | inl x => trivial
  | inr x =>
    obtain ⟨si', dlen, dr, err⟩ := x
    simp only [collectAdv] at hr ⊢
    omega

theorem collect_adv (e : Encoding) (src : Buf) :
    ∀ (n si j : Nat) (dr : List Nat), src.size - si = n → si ≤ src.size → j ≤ 4 →
      collectAdv si j (collect e src si j dr) := by
  intro n
  induction n using Nat.strongRecOn with
  | _ n ih =>
    intro si j dr hn hsi hj4
    by_cases hj : j = 4
    · subst hj
      rw [collect_done]; simp only [collectAdv]; (try trivial); (try omega)
    · have hjlt : j < 4 := by omega
      by_cases hlt : si < src.size
      · by_cases hout : e.dec src[si] = 255
        · by_cases hnl : isNL src[si] = true
          · rw [collect_nl e src si j dr hlt hjlt hout hnl]
            exact collectAdv_mono _ (by omega) (ih (src.size - (si + 1)) (by omega) (si + 1) j dr rfl (by omega) hj4)
          · have hnl' : isNL src[si] = false := by simpa using hnl
            by_cases hp : some src[si] = e.pad
            · have hjc : j < 2 ∨ j = 2 ∨ j = 3 := by omega
              rcases hjc with hj2 | rfl | rfl
              · rw [collect_pad01 e src si j dr hlt hj2 hout hnl' hp]; simp only [collectAdv]; (try trivial); (try omega)
              · have hb := skipNL_bounds src (si + 1) (by omega)
                by_cases h2 : skipNL src (si + 1) = src.size
                · rw [collect_pad2_short e src si dr hlt hout hnl' hp h2]; simp only [collectAdv]; (try trivial); (try omega)
                · have hlt2 : skipNL src (si + 1) < src.size := by omega
                  by_cases hp2 : some src[skipNL src (si + 1)] = e.pad
                  · have hb4 := skipNL_bounds src (skipNL src (si + 1) + 1) (by omega)
                    rw [collect_pad2_ok e src si dr _ _ hlt hout hnl' hp rfl hlt2 hp2 rfl]
                    simp only [collectAdv]; (try trivial); (try omega)
                  · rw [collect_pad2_bad e src si dr _ hlt hout hnl' hp rfl hlt2 hp2]
                    simp only [collectAdv]; (try trivial); (try omega)
              · have hb4 := skipNL_bounds src (si + 1) (by omega)
                rw [collect_pad3' e src si dr _ hlt hout hnl' hp rfl]
                simp only [collectAdv]; (try trivial); (try omega)
            · rw [collect_badc e src si j dr hlt hjlt hout hnl' hp]; simp only [collectAdv]; (try trivial); (try omega)
        · rw [collect_valid e src si j dr hlt hjlt (by rw [arr_getD_eq hlt]; exact hout)]
          exact collectAdv_mono _ (by omega) (ih (src.size - (si + 1)) (by omega) (si + 1) (j + 1) (e.dec (src.getD si 0) :: dr) rfl (by omega) (by omega))
      · have hse : si = src.size := by omega
        subst hse
        by_cases hj0 : j = 0
        · subst hj0
          rw [collect_eof0 e src _ dr (Nat.le_refl _)]; simp only [collectAdv]; (try trivial); (try omega)
        · by_cases hc : j = 1 ∨ e.pad.isSome = true
          · rw [collect_eof_err e src _ j dr (Nat.le_refl _) hj0 hjlt hc]; simp only [collectAdv]; (try trivial); (try omega)
          · have hj23 : j = 2 ∨ j = 3 := by omega
            have hpn : e.pad = none := by
              cases hh : e.pad with
              | none => rfl
              | some p => exact absurd (Or.inr (by simp [hh])) hc
            rw [collect_eof_ok e src _ j dr (Nat.le_refl _) hj23 hpn]; simp only [collectAdv]; (try trivial); (try omega)

/-! ## A quantum with room for its bytes does not panic -/

theorem setChk_ok (D : Buf) (i v : Nat) (h : i < D.size) : setChk D i v = some (D.setIfInBounds i (UInt8.ofNat v)) := by
  unfold setChk; rw [if_pos h]

theorem dqFinish_ok (e : Encoding) (D : Buf) (n si' dlen d0 d1 d2 d3 : Nat) (err : Option Nat)
    (hdl : 2 ≤ dlen ∧ dlen ≤ 4) (hroom : n + (dlen - 1) ≤ D.size) :
    ∃ q, dqFinish e D n si' dlen d0 d1 d2 d3 err = some q ∧ q.si = si' ∧ q.n ≤ dlen - 1 := by
  unfold dqFinish
  simp only [Option.bind_eq_bind, Option.pure_def, ge_iff_le]
  have hd3 : dlen = 2 ∨ dlen = 3 ∨ dlen = 4 := by omega
  rcases hd3 with rfl | rfl | rfl
  · simp [setChk_ok D n _ (by omega)]
    split <;> exact ⟨_, rfl, rfl, by simp⟩
  · simp [setChk_ok D (n + 1) _ (by omega)]
    split
    · exact ⟨_, rfl, rfl, by simp⟩
    · rw [setChk_ok _ n _ (by simp; omega)]
      exact ⟨_, rfl, rfl, by simp⟩
  · simp [setChk_ok D (n + 2) _ (by omega)]
    rw [setChk_ok _ (n + 1) _ (by simp; omega)]
    simp
    rw [setChk_ok _ n _ (by simp; omega)]
    exact ⟨_, rfl, rfl, by simp⟩

/-- Room for three bytes per four remaining symbols. -/
def Room (src D : Buf) (si n : Nat) : Prop := n + 3 * (src.size - si) / 4 ≤ D.size

theorem decodeQuantum_ok (e : Encoding) (src D : Buf) (si n : Nat) (hsi : si < src.size) (hroom : Room src D si n) :
    ∃ q, decodeQuantum e D n src si = some q ∧ q.dst.size = D.size ∧ q.si ≤ src.size ∧ Room src D q.si (n + q.n) := by
  have hn : n ≤ D.size := by unfold Room at hroom; omega
  have hdl := collect_dlen e src _ si 0 [] rfl (by omega) (by omega)
  have hadv := collect_adv e src _ si 0 [] rfl (by omega) (by omega)
  have hq : ∃ q, decodeQuantum e D n src si = some q ∧ (src.size - si) * 3 / 4 ≥ q.n + (src.size - q.si) * 3 / 4 := by
    have hcs := collect_si e src _ si 0 [] rfl (by omega) (by omega)
    rw [decodeQuantum_eq]
    cases hcol : collect e src si 0 [] with
    | inl r =>
      obtain ⟨si', err⟩ := r
      rw [hcol] at hcs
      simp only [collectSi] at hcs
      exact ⟨_, rfl, by show _ ≥ 0 + (src.size - si') * 3 / 4; omega⟩
    | inr r =>
      obtain ⟨si', dlen, dr, err⟩ := r
      rw [hcol] at hdl hadv hcs
      simp only [collectDlenOk] at hdl
      simp only [collectAdv] at hadv
      simp only [collectSi] at hcs
      unfold Room at hroom
      obtain ⟨q, h1, h2, h3⟩ := dqFinish_ok e D n si' dlen (dr.reverse.getD 0 0) (dr.reverse.getD 1 0) (dr.reverse.getD 2 0)
        (dr.reverse.getD 3 0) err hdl (by omega)
      exact ⟨q, h1, by rw [h2]; omega⟩
  obtain ⟨q, h1, h2⟩ := hq
  have hp := dq_props e D n src si q hn (by omega) h1
  refine ⟨q, h1, hp.1, hp.2.2.1, ?_⟩
  unfold Room at hroom ⊢
  omega

/-! ## The loop -/

/-- A step that does not panic and keeps the room. -/
def StepOk (src D : Buf) : Sum DRes (Nat × Nat × Nat × Buf) → Prop
  | .inl r => r.panic = false
  | .inr (_, si', n', D') => D'.size = D.size ∧ si' ≤ src.size ∧ Room src D si' n'

theorem viaQ_ok (e : Encoding) (src D : Buf) (si n ph : Nat) (hsi : si < src.size) (hroom : Room src D si n) :
    StepOk src D (viaQ e src si n D ph) := by
  obtain ⟨q, h1, h2, h3, h4⟩ := decodeQuantum_ok e src D si n hsi hroom
  rw [viaQ_eq, h1]
  cases hqe : q.err with
  | none => simp only [hqe]; exact ⟨h2, h3, h4⟩
  | some off => simp only [hqe]; rfl

theorem decodeStep_ok (e : Encoding) (src D : Buf) (ph si n : Nat) (hsi : si < src.size) (hroom : Room src D si n) :
    StepOk src D (decodeStep e src ph si n D) := by
  by_cases h8 : ph = 0 ∧ src.size - si ≥ 8 ∧ D.size - n ≥ 8
  · obtain ⟨rfl, h8a, h8b⟩ := h8
    rw [decodeStep_8 e src si n D ⟨h8a, h8b⟩]
    by_cases hc : (assemble64 (e.dec (src.getD si 0)) (e.dec (src.getD (si+1) 0)) (e.dec (src.getD (si+2) 0)) (e.dec (src.getD (si+3) 0))
          (e.dec (src.getD (si+4) 0)) (e.dec (src.getD (si+5) 0)) (e.dec (src.getD (si+6) 0)) (e.dec (src.getD (si+7) 0))).2 = true
    · rw [if_pos hc]
      refine ⟨writeAt_size _ _ _, by omega, ?_⟩
      unfold Room at hroom ⊢; omega
    · rw [if_neg hc]
      exact viaQ_ok e src D si n 0 hsi hroom
  · by_cases h4 : ph ≤ 1 ∧ src.size - si ≥ 4 ∧ D.size - n ≥ 4
    · obtain ⟨h4p, h4a, h4b⟩ := h4
      rw [decodeStep_4 e src ph si n D h4p h8 ⟨h4a, h4b⟩]
      by_cases hc : (assemble32 (e.dec (src.getD si 0)) (e.dec (src.getD (si+1) 0)) (e.dec (src.getD (si+2) 0))
          (e.dec (src.getD (si+3) 0))).2 = true
      · rw [if_pos hc]
        refine ⟨writeAt_size _ _ _, by omega, ?_⟩
        unfold Room at hroom ⊢; omega
      · rw [if_neg hc]
        exact viaQ_ok e src D si n 1 hsi hroom
    · rw [decodeStep_slow e src ph si n D h8 h4]
      exact viaQ_ok e src D si n 2 hsi hroom

theorem decodeLoop_noPanic (e : Encoding) (src : Buf) :
    ∀ (m si n ph : Nat) (D : Buf), src.size - si = m → Room src D si n → (decodeLoop e src ph si n D).panic = false := by
  intro m
  induction m using Nat.strongRecOn with
  | _ m ih =>
    intro si n ph D hm hroom
    by_cases hlt : si < src.size
    · have hok := decodeStep_ok e src D ph si n hlt hroom
      cases hs : decodeStep e src ph si n D with
      | inl a =>
        rw [hs] at hok
        rw [decodeLoop_stop e src ph si n D a hlt hs]
        exact hok
      | inr a =>
        obtain ⟨p1, s1, n1, A⟩ := a
        rw [hs] at hok
        obtain ⟨hA, hs1, hr1⟩ := hok
        by_cases hlt' : si < s1
        · rw [Base64LE.loop_step e src ph si n D p1 s1 n1 A hlt hs hlt']
          exact ih (src.size - s1) (by omega) s1 n1 p1 A rfl (by unfold Room at hr1 ⊢; rw [hA]; exact hr1)
        · rw [decodeLoop_halt e src ph si n D p1 s1 n1 A hlt hs hlt']
    · rw [Base64LE.loop_end e src ph si n D (by omega)]

/-- `decode` into a destination with room for three bytes per four symbols does not panic. -/
theorem decode_noPanic (e : Encoding) (dstLen : Nat) (src : Bytes) (h : 3 * src.length / 4 ≤ dstLen) :
    (decode e dstLen src).panic = false := by
  unfold decode
  split
  · rfl
  · exact decodeLoop_noPanic e src.toArray _ 0 0 0 _ rfl (by unfold Room; simp; omega)

/-- None of the `Decode` calls of a `Read` panics. -/
theorem decodeNoPanic (e : Encoding) (st : DecSt) (plen : Nat) (hnb : (st.refill plen (st.pending + 6)).buf.length ≤ 1024) :
    DecodeNoPanic e st plen := by
  refine ⟨fun h => decode_noPanic e 768 _ (by omega), fun _ _ => decode_noPanic e 768 _ ?_, fun _ h => decode_noPanic e plen _ ?_⟩
  · rw [List.length_take]; omega
  · rw [List.length_take]; omega

theorem refill_buf_le (st : DecSt) (plen F : Nat) (h : st.buf.length ≤ 1024) : (st.refill plen F).buf.length ≤ 1024 := by
  induction F generalizing st with
  | zero => exact h
  | succ F ih =>
    rw [refill_succ]
    split
    · rename_i hc
      apply ih
      have hf := (refillStep_fields st plen).2.2.1
      have hlen := filteredRead_length_le st (refillNN plen - st.buf.length) (st.pending + 2)
      have hnn := refillNN_bounds plen
      rw [hf, List.length_append]
      omega
    · exact h

/-- None of the `Decode` calls of a `Read` on a decoder with at most 1024 buffered symbols panics. -/
theorem decodeNoPanic_of_buf (e : Encoding) (st : DecSt) (plen : Nat) (h : st.buf.length ≤ 1024) : DecodeNoPanic e st plen :=
  decodeNoPanic e st plen (refill_buf_le st plen _ h)

end GoCrypt.SIR
