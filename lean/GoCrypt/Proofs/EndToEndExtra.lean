import GoCrypt.Proofs.EndToEnd
import GoCrypt.Proofs.Base64
import GoCrypt.Proofs.Argon2Eq.Blake2bLen
import GoCrypt.Props.KdfProps

/-!
# Digest encoders write alphabet symbols; `NewHash` succeeds when `Key` does; when md5/des return ""
-/

namespace GoCrypt.EndToEnd
open GoCrypt GoCrypt.Scheme GoCrypt.Codec GoCrypt.Codec.Shapes GoCrypt.Guards

/-! ## The digest encoders only write symbols of their alphabet (for every key) -/

theorem getD_mem_of_lt (al : Bytes) (i : Nat) (h : i < al.length) : al.getD i 0 ∈ al := by
  have : al.getD i 0 = al[i] := by simp [List.getD, List.getElem?_eq_getElem h]
  rw [this]; exact List.getElem_mem _

theorem and63_lt (x : Nat) : x &&& 63 < 64 := by
  have : x &&& 63 = x % 64 := Nat.and_two_pow_sub_one_eq_mod x 6
  omega

theorem stdEncode_mem (al : Bytes) (hal : al.length = 64) (b : Bytes) : ∀ c ∈ Kdf.stdEncode al b, c ∈ al := by
  have hm : ∀ x, al.getD (x &&& 63) 0 ∈ al := fun x => getD_mem_of_lt al _ (by rw [hal]; exact and63_lt x)
  fun_induction Kdf.stdEncode al b with
  | case1 b0 b1 b2 rest v ih =>
    intro c hc
    simp only [List.mem_cons] at hc
    rcases hc with rfl | rfl | rfl | rfl | hc
    · exact hm _
    · exact hm _
    · exact hm _
    · exact hm _
    · exact ih c hc
  | case2 b0 b1 v =>
    intro c hc
    simp only [List.mem_cons, List.not_mem_nil, or_false] at hc
    rcases hc with rfl | rfl | rfl <;> exact hm _
  | case3 b0 v =>
    intro c hc
    simp only [List.mem_cons, List.not_mem_nil, or_false] at hc
    rcases hc with rfl | rfl <;> exact hm _
  | case4 => intro c hc; cases hc

theorem specEncode_mem (al : Bytes) (hal : al.length = 64) (b : Bytes) :
    ∀ c ∈ Spec.Base64Bits.specEncode al none b, c ∈ al := by
  have hm : ∀ w k, Spec.Base64Bits.symbol al w k ∈ al := fun w k =>
    getD_mem_of_lt al _ (by rw [hal]; exact Base64LE.digit_lt w k)
  fun_induction Spec.Base64Bits.specEncode al none b with
  | case1 b0 b1 b2 rest w ih =>
    intro c hc
    simp only [List.mem_cons] at hc
    rcases hc with rfl | rfl | rfl | rfl | hc
    · exact hm _ _
    · exact hm _ _
    · exact hm _ _
    · exact hm _ _
    · exact ih c hc
  | case2 b0 b1 w =>
    intro c hc
    simp only [Spec.Base64Bits.padding, List.append_nil, List.mem_cons, List.not_mem_nil, or_false] at hc
    rcases hc with rfl | rfl | rfl <;> exact hm _ _
  | case3 b0 w =>
    intro c hc
    simp only [Spec.Base64Bits.padding, List.append_nil, List.mem_cons, List.not_mem_nil, or_false] at hc
    rcases hc with rfl | rfl <;> exact hm _ _
  | case4 => intro c hc; cases hc

/-- crypt(3) little-endian base64 (md5, sha1, sha256, sha512, sunmd5 digests) -/
theorem leEncode_overHash (k : Bytes) : OverHash (leEncode k) := by
  unfold OverHash
  rw [firstInvalid_none_iff .hash hashAlphabet rfl, leEncode, Base64LE.encode_eq_specEncode]
  exact specEncode_mem hashAlphabet (by decide) k

theorem leEncode_length (k : Bytes) : (leEncode k).length = (k.length * 8 + 5) / 6 := by
  rw [leEncode, Base64LE.encode_length_eq]
  rfl

/-- big-endian base64 over the crypt alphabet (des, desext digests) -/
theorem beEncode_overHash (k : Bytes) : OverHash (beEncode k) := by
  unfold OverHash
  rw [firstInvalid_none_iff .hash hashAlphabet rfl]
  exact stdEncode_mem hashAlphabet (by decide) k

/-- bcrypt's base64 (same 64 symbols as the crypt alphabet, other order) -/
theorem bcryptEncode_overHash (k : Bytes) : OverHash (Kdf.stdEncode bcryptAlphabet k) := by
  unfold OverHash
  rw [firstInvalid_none_iff .hash hashAlphabet rfl]
  intro c hc
  have h1 := stdEncode_mem bcryptAlphabet (by decide) k c hc
  have : ∀ c ∈ bcryptAlphabet, c ∈ hashAlphabet := by decide
  exact this c h1

/-- unpadded standard base64 (argon2 salt and digest) -/
theorem stdEncode_overBase64 (k : Bytes) : OverBase64 (Kdf.stdEncode stdAlphabet k) := by
  unfold OverBase64
  rw [firstInvalid_none_iff .base64 base64Alphabet rfl]
  exact stdEncode_mem base64Alphabet (by decide) k

/-- lower-case hex (nthash digest) -/
theorem hexLower_overHash (k : Bytes) : OverHash (Kdf.hexLower k) := by
  unfold OverHash
  rw [firstInvalid_none_iff .hash hashAlphabet rfl]
  intro c hc
  simp only [Kdf.hexLower, List.mem_flatMap, List.mem_cons, List.not_mem_nil, or_false] at hc
  obtain ⟨b, -, hc⟩ := hc
  have hall : ∀ n, n < 16 → (if n < 10 then UInt8.ofNat (48 + n) else UInt8.ofNat (87 + n)) ∈ hashAlphabet := by
    decide
  rcases hc with rfl | rfl
  · exact hall _ (by have := UInt8.toNat_lt b; omega)
  · exact hall _ (Nat.mod_lt _ (by decide))

theorem hexLower_length (k : Bytes) : (Kdf.hexLower k).length = 2 * k.length := by
  induction k with
  | nil => rfl
  | cons c cs ih => simp only [Kdf.hexLower, List.flatMap_cons, List.length_append, List.length_cons,
      List.length_nil] at ih ⊢; omega

/-! ## Generic pieces -/

/-- A string `Marshal` writes for a struct with a non-empty prefix text is not empty. -/
theorem marshal_ne_nil (ti : TypeInfo) (vals : Vals) (s : Bytes) (h : marshal ti vals = .ok s)
    (hp : FieldInfo) (hhp : ti.hashPrefix = some hp) (p : Bytes)
    (hv : Codec.fieldVal vals hp = .str p) (hr : marshalRaw hp (.str p) = .ok p) (hne : p ≠ []) : s ≠ [] := by
  have ht := prefix_text ti vals s h hp hhp (.str p) p hv hr
  obtain ⟨h1, -, -⟩ := marshal_render ti vals s h
  rw [h1, hhp]
  simp only [ht]
  intro he
  exact hne (List.append_eq_nil_iff.1 he).1

theorem nhStrict_of_ok (k h : Bytes) (m : Bytes → Except MErr Bytes) (used : Nat) (hm : m k = .ok h) :
    nhStrict (.ok k) m used = .ok h used := by
  simp only [nhStrict, hm]

theorem nhLenient_of_ok (k h : Bytes) (m : Bytes → Except MErr Bytes) (mz : Except MErr Bytes) (used : Nat)
    (hm : m k = .ok h) : nhLenient (.ok k) m mz used = .ok h used := by
  simp only [nhLenient, hm]

theorem saltExact_ok {n : Nat} {e : String} {a : KeyArgs}
    (h : (Accepts.Clause.saltExact n e).violation a = none) : a.salt.length = n := by
  simpa [Accepts.Clause.violation] using h

theorem saltMax_iff {n : Nat} {e : String} {a : KeyArgs} :
    (Accepts.Clause.saltMax n e).violation a = none ↔ a.salt.length ≤ n := by
  simp [Accepts.Clause.violation]

theorem saltExact_iff {n : Nat} {e : String} {a : KeyArgs} :
    (Accepts.Clause.saltExact n e).violation a = none ↔ a.salt.length = n := by
  simp [Accepts.Clause.violation]

theorem pwMax_iff {n : Nat} {e : String} {a : KeyArgs} :
    (Accepts.Clause.pwMax n e).violation a = none ↔ a.password.length ≤ n := by
  simp [Accepts.Clause.violation]

theorem saltAlphabet_hash_of_rand (e : String) (a : KeyArgs) (ent : Bytes)
    (hs : a.salt = randSymbols hashAlphabet ent) :
    (Accepts.Clause.saltAlphabet Accepts.hashAlpha e).violation a = none := by
  rw [C14.saltAlphabet_accepts_iff, hs]
  exact C15.randSymbols_in_alphabet hashAlphabet ent (by decide)

/-! ## argon2: the digest length (only the output stage of the KDF is looked at) -/

theorem blake2bHash_length_le (n : Nat) (inp : Bytes) (h : n ≤ 64) :
    (Kdf.Argon2.blake2bHash n inp).length = n := by
  unfold Kdf.Argon2.blake2bHash
  have : n ≤ Kdf.Argon2.blake2bSize := h
  simp only [this, if_true]
  exact GoCrypt.Argon2Eq.blake2b_length n _ h

theorem extractKey_length (B : Array Kdf.Argon2.Block) (memory threads n : Nat) (h : n ≤ 64) :
    (Kdf.Argon2.extractKey B memory threads n).length = n := by
  unfold Kdf.Argon2.extractKey
  simp only [Id.run, bind, pure]
  exact blake2bHash_length_le _ _ h

/-- `argon2crypto.Key` returns `keyLen` bytes: its last step is `blake2bHash(keyLen, lastBlock)`. -/
theorem argon2Key_length (mode version : Nat) (pw salt : Bytes) (time memory threads n : Nat) (h : n ≤ 64) :
    (Kdf.Argon2.key mode version pw salt time memory threads n).length = n := by
  unfold Kdf.Argon2.key
  exact extractKey_length _ _ _ _ h

/-- Every key `argon2.Key` returns encodes to 43 base64 symbols (32 bytes, unpadded). -/
theorem argon2_digest_len (a : KeyArgs) (k : Bytes) (hk : key argon2 a = .ok k) :
    (argon2.encodeSum k).length = 43 := by
  obtain ⟨-, hd⟩ := key_ok_of_guards argon2 Accepts.argon2 _ argon2_guards' a k hk
  have hk' : k = Kdf.Argon2.key (argon2Mode (Accepts.argon2.defaults a).optPrefix) (Accepts.argon2.defaults a).optVersion
      (Accepts.argon2.defaults a).password (Kdf.stdDecodeBuf stdAlphabet (Accepts.argon2.defaults a).salt)
      (Accepts.argon2.defaults a).rounds (Accepts.argon2.defaults a).memory (Accepts.argon2.defaults a).threads
      Gen.argon2.keyLen := by
    have : argon2.derive (Accepts.argon2.defaults a) = .ok (Kdf.Argon2.key _ _ _ _ _ _ _ _) := rfl
    rw [this] at hd
    exact (KeyRes.ok.inj hd).symm
  have hl : k.length = 32 := by rw [hk']; exact argon2Key_length _ _ _ _ _ _ _ _ (by decide)
  rw [argon2_encodeSum, C15.stdEncode_length, hl]

end GoCrypt.EndToEnd

namespace GoCrypt.EndToEnd.Proofs
open GoCrypt GoCrypt.Scheme GoCrypt.Codec GoCrypt.Codec.Shapes GoCrypt.Guards

/-! ## `NewHash` succeeds whenever `Key` does and the encoded digest has the layout's length -/

theorem newHash_ok_md5 (r : NewHashReq) (k : Bytes) (hk : key md5 (md5Args r) = .ok k)
    (hlen : (md5.encodeSum k).length = Gen.md5.sumLength) :
    ∃ h, newHash md5 r = .ok h Gen.md5.DefaultSaltLength ∧ h ≠ [] := by
  obtain ⟨s, hs⟩ := accepts_md5 (md5Salt r) (leEncode k) (randSymbols_overHash _) hlen (leEncode_overHash k)
  refine ⟨s, ?_, marshal_ne_nil _ _ _ hs md5_HashPrefix rfl _ rfl rfl (by decide)⟩
  rw [newHash_md5_eq, hk]
  exact nhLenient_of_ok k s _ _ _ hs

theorem newHash_ok_sha256 (r : NewHashReq) (k : Bytes) (hk : key sha256 (sha256Args r) = .ok k)
    (hlen : (sha256.encodeSum k).length = Gen.sha256.sumLength) :
    ∃ h, newHash sha256 r = .ok h Gen.sha256.DefaultSaltLength ∧ h ≠ [] := by
  obtain ⟨s, hs⟩ := accepts_sha256 r.rounds (sha256Salt r) (leEncode k) (randSymbols_overHash _) hlen
    (leEncode_overHash k)
  refine ⟨s, ?_, marshal_ne_nil _ _ _ hs sha256_HashPrefix rfl _ rfl rfl (by decide)⟩
  rw [newHash_sha256_eq, hk]
  exact nhStrict_of_ok k s _ _ hs

theorem newHash_ok_sha512 (r : NewHashReq) (k : Bytes) (hk : key sha512 (sha512Args r) = .ok k)
    (hlen : (sha512.encodeSum k).length = Gen.sha512.sumLength) :
    ∃ h, newHash sha512 r = .ok h Gen.sha512.DefaultSaltLength ∧ h ≠ [] := by
  obtain ⟨s, hs⟩ := accepts_sha512 r.rounds (sha512Salt r) (leEncode k) (randSymbols_overHash _) hlen
    (leEncode_overHash k)
  refine ⟨s, ?_, marshal_ne_nil _ _ _ hs sha512_HashPrefix rfl _ rfl rfl (by decide)⟩
  rw [newHash_sha512_eq, hk]
  exact nhStrict_of_ok k s _ _ hs

theorem newHash_ok_sha1 (r : NewHashReq) (k : Bytes) (hk : key sha1 (sha1Args r) = .ok k)
    (hlen : (sha1.encodeSum k).length = Gen.sha1.sumLength) :
    ∃ h, newHash sha1 r = .ok h (sha1Used r) ∧ h ≠ [] := by
  obtain ⟨s, hs⟩ := accepts_sha1 (sha1Rounds r) (sha1Salt r) (leEncode k) (randSymbols_overHash _) hlen
    (leEncode_overHash k)
  refine ⟨s, ?_, marshal_ne_nil _ _ _ hs sha1_HashPrefix rfl _ rfl rfl (by decide)⟩
  rw [newHash_sha1_eq, hk]
  exact nhStrict_of_ok k s _ _ hs

theorem newHash_ok_nthash (r : NewHashReq) (k : Bytes) (hk : key nthash (nthashArgs r) = .ok k)
    (hlen : (nthash.encodeSum k).length = Gen.nthash.sumLength) :
    ∃ h, newHash nthash r = .ok h 0 ∧ h ≠ [] := by
  obtain ⟨s, hs⟩ := accepts_nthash (Kdf.hexLower k) hlen (hexLower_overHash k)
  refine ⟨s, ?_, marshal_ne_nil _ _ _ hs nthash_HashPrefix rfl _ rfl rfl (by decide)⟩
  rw [newHash_nthash_eq, hk]
  exact nhStrict_of_ok k s _ _ hs

theorem des_guards' (a : KeyArgs) : des.guards a = outcome (Accepts.des.verdict a) a := des_guards a

theorem newHash_ok_des (r : NewHashReq) (k : Bytes) (hk : key des (desArgs r) = .ok k)
    (hlen : (des.encodeSum k).length = Gen.des.sumLength) :
    ∃ h, newHash des r = .ok h Gen.des.SaltLength ∧ h ≠ [] := by
  obtain ⟨hc, -⟩ := key_ok_of_guards des Accepts.des id des_guards' _ k hk
  have hsl : (desSalt r).length = 2 :=
    saltExact_ok (a := desArgs r) (hc (.saltExact Gen.des.SaltLength "InvalidSaltLengthError") (by simp [Accepts.des]))
  obtain ⟨s, hs⟩ := accepts_des (desSalt r) (beEncode k) hsl (randSymbols_overHash _) hlen (beEncode_overHash k)
  refine ⟨s, ?_, ?_⟩
  · rw [newHash_des_eq, hk]
    exact nhLenient_of_ok k s _ _ _ hs
  · obtain ⟨hstr, -, -, hl, -⟩ := marshal_des_inv _ _ _ _ hs
    intro he
    rw [he] at hstr
    have := congrArg List.length hstr
    simp only [List.length_nil, List.length_append, hl] at this
    omega

theorem newHash_ok_desext (r : NewHashReq) (k : Bytes) (hk : key desext (desextArgs r) = .ok k)
    (hlen : (desext.encodeSum k).length = Gen.desext.sumLength) :
    ∃ h, newHash desext r = .ok h Gen.desext.SaltLength ∧ h ≠ [] := by
  obtain ⟨hc, -⟩ := key_ok_of_guards desext Accepts.desext id desext_guards' _ k hk
  have hsl : (desextSalt r).length = 4 :=
    saltExact_ok (a := desextArgs r)
      (hc (.saltExact Gen.desext.SaltLength "InvalidSaltLengthError") (by simp [Accepts.desext]))
  obtain ⟨s, hs⟩ := accepts_desext r.rounds (desextSalt r) (beEncode k) hsl (randSymbols_overHash _) hlen
    (beEncode_overHash k)
  refine ⟨s, ?_, marshal_ne_nil _ _ _ hs desext_HashPrefix rfl _ rfl rfl (by decide)⟩
  rw [newHash_desext_eq, hk]
  exact nhStrict_of_ok k s _ _ hs

theorem newHash_ok_bcrypt (r : NewHashReq) (k : Bytes) (hk : key bcrypt (bcryptArgs r) = .ok k)
    (hlen : (bcrypt.encodeSum k).length = Gen.bcrypt.sumLength) :
    ∃ h, newHash bcrypt r = .ok h 16 ∧ h ≠ [] := by
  obtain ⟨hc, -⟩ := key_ok_of_guards bcrypt Accepts.bcrypt _ bcrypt_guards' _ k hk
  have hsl : (bcryptSalt r).length = 22 :=
    saltExact_ok (a := bcryptArgs r)
      (hc (.saltExact Gen.bcrypt.SaltLength "InvalidSaltLengthError") (by simp [Accepts.bcrypt]))
  obtain ⟨-, hhi⟩ := key_bcrypt_cost _ k rfl hk
  have hcost : r.rounds ≤ 31 := hhi
  obtain ⟨s, hs⟩ := accepts_bcrypt Gen.bcrypt.Prefix2b r.rounds (bcryptSalt r) (Kdf.stdEncode bcryptAlphabet k)
    (by omega) hsl (bcryptEncode_overHash _) hlen (bcryptEncode_overHash k)
  refine ⟨s, ?_, marshal_ne_nil _ _ _ hs bcrypt_HashPrefix rfl _ rfl rfl (by decide)⟩
  rw [newHash_bcrypt_eq, hk]
  exact nhStrict_of_ok k s _ _ hs

theorem newHash_ok_sunmd5 (r : NewHashReq) (k : Bytes) (hk : key sunmd5 (sunmd5Args r) = .ok k)
    (hlen : (sunmd5.encodeSum k).length = Gen.sunmd5.sumLength) :
    ∃ h, newHash sunmd5 r = .ok h Gen.sunmd5.DefaultSaltLength ∧ h ≠ [] := by
  have hsep : sunmd5Sep r = .nilPtr ∨ sunmd5Sep r = .str [] := by
    unfold sunmd5Sep; by_cases h0 : r.rounds = 0
    · rw [if_pos h0]; exact Or.inl rfl
    · rw [if_neg h0]; exact Or.inr rfl
  have hpne : sunmd5Prefix r ≠ [] := by
    unfold sunmd5Prefix; by_cases h0 : r.rounds = 0
    · rw [if_pos h0]; decide
    · rw [if_neg h0]; decide
  obtain ⟨s, hs⟩ := accepts_sunmd5 (sunmd5Prefix r) r.rounds (sunmd5Salt r) (sunmd5Sep r) (leEncode k)
    (randSymbols_overHash _) hsep hlen (leEncode_overHash k)
  refine ⟨s, ?_, marshal_ne_nil _ _ _ hs sunmd5_HashPrefix rfl _ rfl rfl hpne⟩
  rw [newHash_sunmd5_eq, hk]
  exact nhStrict_of_ok k s _ _ hs

/-! ## When md5 / des `NewHash` return the empty string -/

theorem md5_guards' (a : KeyArgs) : md5.guards a = outcome (Accepts.md5.verdict a) a := md5_guards a

/-- The salt `md5.NewHash` draws never violates a clause of `md5.Key`: `Key` cannot return a typed error. -/
theorem verdict_md5_none (r : NewHashReq) : Accepts.md5.verdict (md5Args r) = none := by
  rw [C14.verdict_none_iff]
  intro c hc
  simp only [Accepts.md5, List.mem_cons, List.not_mem_nil, or_false] at hc
  rcases hc with rfl | rfl
  · rw [saltMax_iff]
    show (md5Salt r).length ≤ Gen.md5.MaxSaltLength
    rw [md5Salt, C15.randSymbols_length, List.length_take]
    unfold Gen.md5.DefaultSaltLength Gen.md5.MaxSaltLength; omega
  · exact saltAlphabet_hash_of_rand _ _ _ rfl

theorem optToRes_ne_err (o : Option Bytes) (e : KeyErr) : optToRes o ≠ .err e := by
  cases o <;> simp [optToRes]

theorem key_md5_not_err (r : NewHashReq) (e : KeyErr) : key md5 (md5Args r) ≠ .err e := by
  rw [key_of_guards md5 Accepts.md5 id md5_guards', verdict_md5_none]
  exact optToRes_ne_err _ _

theorem newHash_empty_iff_md5 (r : NewHashReq) (used : Nat) :
    newHash md5 r = .ok [] used ↔
      used = Gen.md5.DefaultSaltLength ∧
        ∃ k, key md5 (md5Args r) = .ok k ∧ (md5.encodeSum k).length ≠ Gen.md5.sumLength := by
  rw [newHash_md5_eq, nhLenient_ok_nil _ _ _ _ _ (md5_zero_refused _ _)
    (fun k hm => marshal_ne_nil _ _ _ hm md5_HashPrefix rfl _ rfl rfl (by decide) rfl)]
  refine and_congr Iff.rfl ?_
  constructor
  · rintro (⟨e, he⟩ | ⟨k, e, hk, hm⟩)
    · exact absurd he (key_md5_not_err r e)
    · refine ⟨k, hk, fun hlen => ?_⟩
      obtain ⟨s, hs⟩ := accepts_md5 (md5Salt r) (leEncode k) (randSymbols_overHash _) hlen (leEncode_overHash k)
      rw [show marshal md5TI (md5Vals Gen.md5.Prefix (md5Salt r) (leEncode k)) = .ok s from hs] at hm
      cases hm
  · rintro ⟨k, hk, hlen⟩
    right
    cases hm : marshal md5TI (md5Vals Gen.md5.Prefix (md5Salt r) (leEncode k)) with
    | ok s => exact absurd (marshal_md5_inv _ _ _ _ hm).2.2.1 hlen
    | error e => exact ⟨k, e, hk, hm⟩

/-- `des.Key` returns a typed error exactly when a guard clause is violated (the derivation itself
always returns a key). -/
theorem key_des_err_iff (a : KeyArgs) : (∃ e, key des a = .err e) ↔ Accepts.des.verdict a ≠ none := by
  rw [key_of_guards des Accepts.des id des_guards']
  cases hv : Accepts.des.verdict a with
  | none => simp [des]
  | some e => simp

theorem verdict_des_none_iff (r : NewHashReq) :
    Accepts.des.verdict (desArgs r) = none ↔
      r.password.length ≤ Gen.des.MaxPasswordLength ∧ Gen.des.SaltLength ≤ r.entropy.length := by
  rw [C14.verdict_none_iff]
  have hsl : (desSalt r).length = min Gen.des.SaltLength r.entropy.length := by
    rw [desSalt, C15.randSymbols_length, List.length_take]
  constructor
  · intro h
    have h1 := h (.pwMax Gen.des.MaxPasswordLength "InvalidPasswordLengthError") (by simp [Accepts.des])
    have h2 := h (.saltExact Gen.des.SaltLength "InvalidSaltLengthError") (by simp [Accepts.des])
    rw [pwMax_iff] at h1
    rw [saltExact_iff] at h2
    have h2' : (desSalt r).length = Gen.des.SaltLength := h2
    refine ⟨h1, ?_⟩
    rw [hsl] at h2'; omega
  · rintro ⟨h1, h2⟩ c hc
    simp only [Accepts.des, List.mem_cons, List.not_mem_nil, or_false] at hc
    rcases hc with rfl | rfl | rfl
    · rw [pwMax_iff]; exact h1
    · rw [saltExact_iff]
      show (desSalt r).length = Gen.des.SaltLength
      rw [hsl]; omega
    · exact saltAlphabet_hash_of_rand _ _ _ rfl

theorem newHash_empty_iff_des (r : NewHashReq) (used : Nat) :
    newHash des r = .ok [] used ↔
      used = Gen.des.SaltLength ∧
        (r.password.length > Gen.des.MaxPasswordLength ∨ r.entropy.length < Gen.des.SaltLength ∨
          ∃ k, key des (desArgs r) = .ok k ∧ (des.encodeSum k).length ≠ Gen.des.sumLength) := by
  have hm0 : ∀ k, marshal desTI (desVals Gen.des.Prefix (desSalt r) (beEncode k)) ≠ .ok [] := by
    intro k hm
    obtain ⟨hstr, -, -, hl, -⟩ := marshal_des_inv _ _ _ _ hm
    have := congrArg List.length hstr
    simp only [List.length_nil, List.length_append, hl] at this
    omega
  rw [newHash_des_eq, nhLenient_ok_nil _ _ _ _ _ (des_zero_refused _ _) hm0]
  refine and_congr Iff.rfl ?_
  rw [key_des_err_iff]
  constructor
  · rintro (hv | ⟨k, e, hk, hm⟩)
    · have : ¬ (r.password.length ≤ Gen.des.MaxPasswordLength ∧ Gen.des.SaltLength ≤ r.entropy.length) :=
        fun h => hv ((verdict_des_none_iff r).2 h)
      by_cases hp : r.password.length > Gen.des.MaxPasswordLength
      · exact Or.inl hp
      · right; left; omega
    · right; right
      refine ⟨k, hk, fun hlen => ?_⟩
      obtain ⟨hc, -⟩ := key_ok_of_guards des Accepts.des id des_guards' _ k hk
      have hsl : (desSalt r).length = 2 :=
        saltExact_ok (a := desArgs r)
          (hc (.saltExact Gen.des.SaltLength "InvalidSaltLengthError") (by simp [Accepts.des]))
      obtain ⟨s, hs⟩ := accepts_des (desSalt r) (beEncode k) hsl (randSymbols_overHash _) hlen (beEncode_overHash k)
      rw [show marshal desTI (desVals Gen.des.Prefix (desSalt r) (beEncode k)) = .ok s from hs] at hm
      cases hm
  · rintro (hp | hs | ⟨k, hk, hlen⟩)
    · left; intro hv
      have := ((verdict_des_none_iff r).1 hv).1; omega
    · left; intro hv
      have := ((verdict_des_none_iff r).1 hv).2; omega
    · right
      cases hm : marshal desTI (desVals Gen.des.Prefix (desSalt r) (beEncode k)) with
      | ok s => exact absurd (marshal_des_inv _ _ _ _ hm).2.2.2.1 hlen
      | error e => exact ⟨k, e, hk, hm⟩

/-- argon2: no digest-length condition — the layout's digest field has no length tag. -/
theorem newHash_ok_argon2 (r : NewHashReq) (k : Bytes) (hk : key argon2 (argon2Args r) = .ok k) :
    ∃ h, newHash argon2 r = .ok h 8 ∧ h ≠ [] := by
  obtain ⟨s, hs⟩ := accepts_argon2 Gen.argon2.Prefix2id Gen.argon2.Version13 r.memory r.rounds
    Gen.argon2.DefaultThreads (argon2Salt r) (Kdf.stdEncode stdAlphabet k) (stdEncode_overBase64 _)
    (stdEncode_overBase64 k)
  refine ⟨s, ?_, marshal_ne_nil _ _ _ hs argon2_HashPrefix rfl _ rfl rfl (by decide)⟩
  rw [newHash_argon2_eq, hk]
  exact nhStrict_of_ok k s _ _ hs

/-! ## `NewHash` never fails on the scheme's domain

For the five hash-based schemes under the (named) hypothesis that the primitive returns digests of its
size — everything else is the totality theorems of `Props/KdfProps`; for des / desext / argon2 without any
hypothesis about primitives (their derivations always return a key; only the shape of its last step is used). -/

theorem newHash_total_md5 (hH : ∀ x, (Prim.md5 x).length = 16) (r : NewHashReq) :
    ∃ h, newHash md5 r = .ok h Gen.md5.DefaultSaltLength ∧ h ≠ [] := by
  obtain ⟨k, hk, hl⟩ := KdfProps.md5crypt_total_gen Prim.md5 hH (md5Args r).password (md5Args r).salt Gen.md5.prefixBytes
  have hkey : key md5 (md5Args r) = .ok k := by
    rw [key_of_guards md5 Accepts.md5 id md5_guards', verdict_md5_none]
    show optToRes (Kdf.md5cryptEncrypt Prim.md5 Gen.md5_md5crypt.permFinal.toList (md5Args r).password (md5Args r).salt
      Gen.md5.prefixBytes) = _
    rw [hk]; rfl
  exact newHash_ok_md5 r k hkey (by rw [md5_encodeSum, leEncode_length, hl]; rfl)

theorem sha256_verdict_none (r : NewHashReq) (hlo : Gen.sha256.MinRounds ≤ r.rounds)
    (hhi : r.rounds ≤ Gen.sha256.MaxRounds) : Accepts.sha256.verdict (sha256Args r) = none := by
  rw [C14.verdict_none_iff]
  intro c hc
  simp only [Accepts.sha256, List.mem_cons, List.not_mem_nil, or_false] at hc
  rcases hc with rfl | rfl | rfl
  · rw [saltMax_iff]
    show (sha256Salt r).length ≤ Gen.sha256.MaxSaltLength
    rw [sha256Salt, C15.randSymbols_length, List.length_take]
    unfold Gen.sha256.DefaultSaltLength Gen.sha256.MaxSaltLength; omega
  · exact saltAlphabet_hash_of_rand _ _ _ rfl
  · simp only [Accepts.Clause.violation]
    rw [if_neg]
    show ¬ (r.rounds < _ ∨ r.rounds > _)
    omega

theorem newHash_total_sha256 (hH : ∀ x, (Prim.sha256 x).length = 32) (r : NewHashReq)
    (hlo : Gen.sha256.MinRounds ≤ r.rounds) (hhi : r.rounds ≤ Gen.sha256.MaxRounds) :
    ∃ h, newHash sha256 r = .ok h Gen.sha256.DefaultSaltLength ∧ h ≠ [] := by
  obtain ⟨k, hk, hl⟩ := KdfProps.sha256crypt_total_gen Prim.sha256 hH (sha256Args r).password (sha256Args r).salt
    (sha256Args r).rounds
  have hkey : key sha256 (sha256Args r) = .ok k := by
    rw [key_of_guards sha256 Accepts.sha256 id sha256_guards', sha256_verdict_none r hlo hhi]
    show optToRes (Kdf.sha2cryptEncrypt Prim.sha256 32 Gen.sha256.permFinal.toList (sha256Args r).password
      (sha256Args r).salt (sha256Args r).rounds) = _
    rw [hk]; rfl
  exact newHash_ok_sha256 r k hkey (by rw [sha256_encodeSum, leEncode_length, hl]; rfl)

theorem sha512_verdict_none (r : NewHashReq) (hlo : Gen.sha512.MinRounds ≤ r.rounds)
    (hhi : r.rounds ≤ Gen.sha512.MaxRounds) : Accepts.sha512.verdict (sha512Args r) = none := by
  rw [C14.verdict_none_iff]
  intro c hc
  simp only [Accepts.sha512, List.mem_cons, List.not_mem_nil, or_false] at hc
  rcases hc with rfl | rfl | rfl
  · rw [saltMax_iff]
    show (sha512Salt r).length ≤ Gen.sha512.MaxSaltLength
    rw [sha512Salt, C15.randSymbols_length, List.length_take]
    unfold Gen.sha512.DefaultSaltLength Gen.sha512.MaxSaltLength; omega
  · exact saltAlphabet_hash_of_rand _ _ _ rfl
  · simp only [Accepts.Clause.violation]
    rw [if_neg]
    show ¬ (r.rounds < _ ∨ r.rounds > _)
    omega

theorem newHash_total_sha512 (hH : ∀ x, (Prim.sha512 x).length = 64) (r : NewHashReq)
    (hlo : Gen.sha512.MinRounds ≤ r.rounds) (hhi : r.rounds ≤ Gen.sha512.MaxRounds) :
    ∃ h, newHash sha512 r = .ok h Gen.sha512.DefaultSaltLength ∧ h ≠ [] := by
  obtain ⟨k, hk, hl⟩ := KdfProps.sha512crypt_total_gen Prim.sha512 hH (sha512Args r).password (sha512Args r).salt
    (sha512Args r).rounds
  have hkey : key sha512 (sha512Args r) = .ok k := by
    rw [key_of_guards sha512 Accepts.sha512 id sha512_guards', sha512_verdict_none r hlo hhi]
    show optToRes (Kdf.sha2cryptEncrypt Prim.sha512 64 Gen.sha512.permFinal.toList (sha512Args r).password
      (sha512Args r).salt (sha512Args r).rounds) = _
    rw [hk]; rfl
  exact newHash_ok_sha512 r k hkey (by rw [sha512_encodeSum, leEncode_length, hl]; rfl)

theorem newHash_total_des (r : NewHashReq) (hpw : r.password.length ≤ Gen.des.MaxPasswordLength)
    (hent : Gen.des.SaltLength ≤ r.entropy.length) :
    ∃ h, newHash des r = .ok h Gen.des.SaltLength ∧ h ≠ [] := by
  have hv := (verdict_des_none_iff r).2 ⟨hpw, hent⟩
  have hkey : key des (desArgs r) = .ok (Kdf.Des.be64 (Kdf.Des.encrypt (Kdf.Des.desKey (desArgs r).password) 0
      (UInt32.ofNat (desDecodeInt (desArgs r).salt)) 25)) := by
    rw [key_of_guards des Accepts.des id des_guards', hv]; rfl
  refine newHash_ok_des r _ hkey ?_
  rw [des_encodeSum, beEncode, C15.stdEncode_length]
  simp [Kdf.Des.be64, Gen.des.sumLength]

theorem newHash_total_desext (r : NewHashReq) (hlo : Gen.desext.MinRounds ≤ r.rounds)
    (hhi : r.rounds ≤ Gen.desext.MaxRounds) (hent : Gen.desext.SaltLength ≤ r.entropy.length) :
    ∃ h, newHash desext r = .ok h Gen.desext.SaltLength ∧ h ≠ [] := by
  have hv : Accepts.desext.verdict (desextArgs r) = none := by
    rw [C14.verdict_none_iff]
    intro c hc
    simp only [Accepts.desext, List.mem_cons, List.not_mem_nil, or_false] at hc
    rcases hc with rfl | rfl | rfl
    · rw [saltExact_iff]
      show (desextSalt r).length = Gen.desext.SaltLength
      rw [desextSalt, C15.randSymbols_length, List.length_take]; omega
    · exact saltAlphabet_hash_of_rand _ _ _ rfl
    · simp only [Accepts.Clause.violation]
      rw [if_neg]
      show ¬ (r.rounds < _ ∨ r.rounds > _)
      omega
  have hkey : key desext (desextArgs r) = .ok (Kdf.Des.be64 (Kdf.Des.encrypt (Kdf.Des.desextKey (desextArgs r).password) 0
      (UInt32.ofNat (desDecodeInt (desextArgs r).salt)) (desextArgs r).rounds)) := by
    rw [key_of_guards desext Accepts.desext id desext_guards', hv]; rfl
  refine newHash_ok_desext r _ hkey ?_
  rw [desext_encodeSum, beEncode, C15.stdEncode_length]
  simp [Kdf.Des.be64, Gen.desext.sumLength]

theorem newHash_total_argon2 (r : NewHashReq) (hmem : Gen.argon2.MinMemory ≤ r.memory)
    (htime : Gen.argon2.MinTime ≤ r.rounds) (hent : 8 ≤ r.entropy.length) :
    ∃ h, newHash argon2 r = .ok h 8 ∧ h ≠ [] := by
  have hd : Accepts.argon2.defaults (argon2Args r) = argon2Args r := rfl
  have hsl : (argon2Salt r).length = 11 := by
    rw [argon2Salt, C15.stdEncode_length, List.length_take, Nat.min_eq_left hent]
  have hv : Accepts.argon2.verdict (argon2Args r) = none := by
    rw [C14.verdict_none_iff, hd]
    intro c hc
    simp only [Accepts.argon2, List.mem_cons, List.not_mem_nil, or_false] at hc
    rcases hc with rfl | rfl | rfl | rfl | rfl | rfl | rfl
    · rfl
    · rfl
    · simp only [Accepts.Clause.violation]
      rw [if_neg]
      show ¬ ((argon2Salt r).length < Gen.argon2.MinSaltLength)
      rw [hsl]; decide
    · rw [C14.saltAlphabet_accepts_iff]
      exact stdEncode_mem base64Alphabet (by decide) _
    · simp only [Accepts.Clause.violation]
      rw [if_neg]
      show ¬ (r.memory < _)
      omega
    · simp only [Accepts.Clause.violation]
      rw [if_neg]
      show ¬ (r.rounds < _)
      omega
    · rfl
  obtain ⟨k, hk⟩ : ∃ k, key argon2 (argon2Args r) = .ok k := by
    rw [key_of_guards argon2 Accepts.argon2 _ argon2_guards', hv]
    exact ⟨_, rfl⟩
  exact newHash_ok_argon2 r k hk

theorem newHash_total_sha1 (hH : ∀ k m, (Prim.hmacSha1 k m).length = 20) (r : NewHashReq)
    (hr : r.rounds ≠ 0) : ∃ h, newHash sha1 r = .ok h (sha1Used r) ∧ h ≠ [] := by
  have hne := sha1Rounds_ne_random r
  have hd : Accepts.sha1.defaults (sha1Args r) = sha1Args r := sha1_defaults_other _ hne
  have hpos : Gen.sha1.MinRounds ≤ sha1Rounds r := by
    unfold sha1Rounds Gen.sha1.MinRounds
    by_cases hx : r.rounds = Gen.sha1.RandomRounds
    · rw [if_pos hx, randRounds_eq]; omega
    · rw [if_neg hx]; omega
  have hv : Accepts.sha1.verdict (sha1Args r) = none := by
    rw [C14.verdict_none_iff, hd]
    intro c hc
    simp only [Accepts.sha1, List.mem_cons, List.not_mem_nil, or_false] at hc
    rcases hc with rfl | rfl | rfl
    · rw [saltMax_iff]
      show (sha1Salt r).length ≤ Gen.sha1.MaxSaltLength
      rw [sha1Salt, C15.randSymbols_length, List.length_take]
      unfold Gen.sha1.DefaultSaltLength Gen.sha1.MaxSaltLength; omega
    · exact saltAlphabet_hash_of_rand _ _ _ rfl
    · simp only [Accepts.Clause.violation]
      rw [if_neg]
      show ¬ (sha1Rounds r < _)
      omega
  obtain ⟨k, hk, hl⟩ := KdfProps.sha1_total_gen Prim.hmacSha1 hH (sha1Args r).password (sha1Args r).salt (sha1Args r).rounds
  have hkey : key sha1 (sha1Args r) = .ok k := by
    rw [key_of_guards sha1 Accepts.sha1 _ sha1_guards', hv, hd]
    show optToRes (Kdf.sha1Derive Prim.hmacSha1 Gen.sha1.permFinal.toList Gen.sha1.prefixBytes (sha1Args r).password
      (sha1Args r).salt (sha1Args r).rounds) = _
    rw [hk]; rfl
  exact newHash_ok_sha1 r k hkey (by rw [sha1_encodeSum, leEncode_length, hl]; rfl)

set_option maxRecDepth 100000 in
theorem sunmd5_saltScheme_ti : ∃ ti, typeInfoOf Gen.sunmd5.structs "saltScheme" = .ok ti := by
  have : (typeInfoOf Gen.sunmd5.structs "saltScheme").toOption.isSome = true := by decide +kernel
  cases h : typeInfoOf Gen.sunmd5.structs "saltScheme" with
  | ok ti => exact ⟨ti, rfl⟩
  | error e => rw [h] at this; cases this

theorem sunmd5_derive_some (a : KeyArgs) (ss : Bytes) (h : sunSaltString a = some ss) :
    sunmd5.derive a = optToRes (Kdf.sunmd5Derive Prim.md5 Gen.sunmd5.phrase Gen.sunmd5.permFinal.toList
      a.password ss a.rounds) := by
  simp only [sunmd5, h, permNat]

theorem newHash_total_sunmd5 (hH : ∀ x, (Prim.md5 x).length = 16) (r : NewHashReq)
    (hpw : r.password.length ≤ Gen.sunmd5.MaxPasswordLength) (hhi : r.rounds ≤ Gen.sunmd5.MaxRounds) :
    ∃ h, newHash sunmd5 r = .ok h Gen.sunmd5.DefaultSaltLength ∧ h ≠ [] := by
  have hd : Accepts.sunmd5.defaults (sunmd5Args r) = sunmd5Args r := rfl
  have hv : Accepts.sunmd5.verdict (sunmd5Args r) = none := by
    rw [C14.verdict_none_iff, hd]
    intro c hc
    simp only [Accepts.sunmd5, List.mem_cons, List.not_mem_nil, or_false] at hc
    rcases hc with rfl | rfl | rfl | rfl | rfl
    · rw [pwMax_iff]; exact hpw
    · rw [saltMax_iff]
      show (sunmd5Salt r).length ≤ Gen.sunmd5.MaxSaltLength
      rw [sunmd5Salt, C15.randSymbols_length, List.length_take]
      unfold Gen.sunmd5.DefaultSaltLength Gen.sunmd5.MaxSaltLength; omega
    · exact saltAlphabet_hash_of_rand _ _ _ rfl
    · simp only [Accepts.Clause.violation]
      rw [if_neg]
      show ¬ (r.rounds > _)
      omega
    · simp only [Accepts.Clause.violation]
      rw [if_pos]
      show [Gen.sunmd5.PrefixNonZeroRounds, Gen.sunmd5.PrefixZeroRounds].contains (sunmd5Prefix r) = true
      unfold sunmd5Prefix
      by_cases h0 : r.rounds = 0
      · rw [if_pos h0]; decide
      · rw [if_neg h0]; decide
  obtain ⟨ti, hti⟩ := sunmd5_saltScheme_ti
  obtain ⟨ss, hss⟩ : ∃ ss, sunSaltString (sunmd5Args r) = some ss := by
    unfold sunSaltString; rw [hti]; exact ⟨_, rfl⟩
  obtain ⟨k, hk, hl⟩ := KdfProps.sunmd5_total_gen Prim.md5 hH (sunmd5Args r).password ss (sunmd5Args r).rounds
  have hkey : key sunmd5 (sunmd5Args r) = .ok k := by
    rw [key_of_guards sunmd5 Accepts.sunmd5 _ sunmd5_guards', hv, hd]
    rw [sunmd5_derive_some _ ss hss, hk]; rfl
  exact newHash_ok_sunmd5 r k hkey (by rw [sunmd5_encodeSum, leEncode_length, hl]; rfl)

theorem utf16le_even (s : Bytes) : (Kdf.utf16le s).length % 2 = 0 := by
  unfold Kdf.utf16le
  generalize (Kdf.decodeRunes (s.length + 1) s).flatMap Kdf.utf16Units = us
  induction us with
  | nil => rfl
  | cons u us ih => simp only [List.flatMap_cons, List.length_append, List.length_cons, List.length_nil]; omega

theorem nthash_guards' (a : KeyArgs) : nthash.guards a = outcome (Accepts.nthash.verdict a) a := nthash_guards a

theorem newHash_total_nthash (hH : ∀ x, (Prim.md4 x).length = 16) (r : NewHashReq)
    (hpw : (Kdf.utf16le r.password).length ≤ Gen.nthash.MaxPasswordLength) :
    ∃ h, newHash nthash r = .ok h 0 ∧ h ≠ [] := by
  have hv : Accepts.nthash.verdict (nthashArgs r) = none := by
    rw [C14.verdict_none_iff]
    intro c hc
    simp only [Accepts.nthash, List.mem_cons, List.not_mem_nil, or_false] at hc
    subst hc
    simp only [Accepts.Clause.violation]
    rw [if_neg]
    show ¬ ((Kdf.utf16le r.password).length % 2 ≠ 0 ∨ (Kdf.utf16le r.password).length > _)
    have := utf16le_even r.password
    omega
  have hkey : key nthash (nthashArgs r) = .ok (Prim.md4 (nthashArgs r).password) := by
    rw [key_of_guards nthash Accepts.nthash id nthash_guards', hv]; rfl
  exact newHash_ok_nthash r _ hkey (by rw [nthash_encodeSum, hexLower_length, hH]; rfl)

end GoCrypt.EndToEnd.Proofs
