import GoCrypt.Proofs.B64IRDecodeW

/-!
# Buffer IR of `hash/base64le`: the loops of `Decode` and the whole function, on a prefix window

The lemmas of `B64IRDecodeLoop.lean` again for a source slice `⟨s, 0, src.size, cp⟩` (`src.size ≤ cp`)
over a heap buffer `S` of which `src` is a prefix. Helper lemmas only.
-/

namespace GoCrypt.B64IR
open GoCrypt.Base64LE GoCrypt.Gen.base64leIR GoCrypt.Gen.base64le GoCrypt.Spec.Base64Bits

/-! ## One loop of `Decode`, generically -/

section generic
variable (c : Ctx) (e : Encoding) (H : Heap) (d dn s : Nat) (src : Buf) (cp : Nat)

/-- A loop of `Decode` whose iterations follow the model's `decodeStep` in phase `phase`, followed by
`rest`, computes the model's `decodeLoop` from that phase. -/
theorem decLoop_genericW (phase : Nat) (C : Heap → Env → Res Bool) (B : Heap → Env → Out) (rest : Heap → Env → Out)
    (condP : Nat → Nat → Prop) [∀ n si, Decidable (condP n si)]
    (hC : ∀ D n si v6 v7 v8 v9 v10 v11 v12 v13 v14, n ≤ dn → si ≤ src.size →
      C (H.set d D) (dcEnvW e d dn s src.size cp n si v6 v7 v8 v9 v10 v11 v12 v13 v14) = .ok (decide (condP n si)))
    (hlt : ∀ n si, condP n si → si < src.size)
    (hB : ∀ D n si v6 v7 v8 v9 v10 v11 v12 v13 v14, D.size = dn → n ≤ dn → si ≤ src.size → condP n si →
      DecStepRelW e H d dn s src.size cp (decodeStep e src phase si n D)
        (B (H.set d D) (dcEnvW e d dn s src.size cp n si v6 v7 v8 v9 v10 v11 v12 v13 v14)) ∧
      ∀ ph si' n' D', decodeStep e src phase si n D = .inr (ph, si', n', D') →
        ph = phase ∧ si < si' ∧ si' ≤ src.size ∧ n' ≤ dn ∧ D'.size = dn)
    (hrest : ∀ D n si v6 v7 v8 v9 v10 v11 v12 v13 v14, D.size = dn → n ≤ dn → si ≤ src.size → ¬ condP n si →
      procResult (rest (H.set d D) (dcEnvW e d dn s src.size cp n si v6 v7 v8 v9 v10 v11 v12 v13 v14)) =
        ofD H d (decodeLoop e src phase si n D)) :
    ∀ (m si n : Nat) (D : Buf) (fuel : Nat) (v6 v7 v8 v9 v10 v11 v12 v13 v14 : Val), src.size - si = m → D.size = dn →
      n ≤ dn → si ≤ src.size → src.size - si ≤ fuel →
      procResult ((loop C B (exec c .skip) fuel (H.set d D)
        (dcEnvW e d dn s src.size cp n si v6 v7 v8 v9 v10 v11 v12 v13 v14)).andThen rest) =
        ofD H d (decodeLoop e src phase si n D) := by
  intro m
  induction m using Nat.strongRecOn with
  | _ m ih =>
    intro si n D fuel v6 v7 v8 v9 v10 v11 v12 v13 v14 hm hD hn hsi hfuel
    by_cases hcond : condP n si
    · have hsilt := hlt n si hcond
      obtain ⟨f, rfl⟩ : ∃ f, fuel = f + 1 := ⟨fuel - 1, by omega⟩
      rw [loop_step _ _ _ _ _ _ (by rw [hC _ _ _ _ _ _ _ _ _ _ _ _ hn hsi]; simp [hcond])]
      obtain ⟨hrel, hprops⟩ := hB D n si v6 v7 v8 v9 v10 v11 v12 v13 v14 hD hn hsi hcond
      cases hstep : decodeStep e src phase si n D with
      | inl r =>
        rw [hstep] at hrel
        simp only [DecStepRelW] at hrel
        rw [decodeLoop_stop e src phase si n D r hsilt hstep]
        cases hpan : r.panic
        · rw [hpan] at hrel
          simp only [Bool.false_eq_true, if_false] at hrel
          rw [hrel, afterBody_ret, andThen_ret, procResult_ret]
          simp [ofD, hpan]
        · rw [hpan] at hrel
          simp only [if_true] at hrel
          rw [hrel, afterBody_panic, andThen_panic, procResult_panic]
          simp [ofD, hpan]
      | inr r =>
        obtain ⟨ph, si', n', D'⟩ := r
        rw [hstep] at hrel
        obtain ⟨hph, hlt', hle', hn', hD'⟩ := hprops ph si' n' D' hstep
        simp only [DecStepRelW] at hrel
        obtain ⟨w6, w7, w8, w9, w10, w11, w12, w13, w14, hout⟩ := hrel
        rw [hout, afterBody_norm, exec_skip, afterPost_norm,
          Base64LE.loop_step e src phase si n D ph si' n' D' hsilt hstep hlt', hph]
        exact ih (src.size - si') (by omega) si' n' D' f _ _ _ _ _ _ _ _ _ rfl hD' hn' hle' (by omega)
    · rw [loop_false _ _ _ _ _ _ (by rw [hC _ _ _ _ _ _ _ _ _ _ _ _ hn hsi]; simp [hcond]), andThen_norm]
      exact hrest D n si v6 v7 v8 v9 v10 v11 v12 v13 v14 hD hn hsi hcond

end generic

/-! ## The three loops -/

section loops
variable (c : Ctx) (e : Encoding) (hal : e.alphabet.length = 64) (H : Heap) (d dn s : Nat) (S src : Buf) (cp : Nat)
  (hdl : d < H.length) (hs : H[s]? = some S) (hle : src.size ≤ S.size) (hcp : src.size ≤ cp)
  (hbr : ∀ (i : Nat) (h1 : i < S.size) (h2 : i < src.size), S[i]'h1 = src[i]'h2) (hne : d ≠ s) (hdz : dn < 2 ^ 62) (hsz : src.size < 2 ^ 62)
  (hc : DecCtxW c e H d dn s src cp)

include hdz hc in
/-- The quantum-by-quantum loop and the final `return`. -/
theorem decLoop3_runW (D : Buf) (hD : D.size = dn) (n si : Nat) (hn : n ≤ dn) (hsi : si ≤ src.size)
    (v6 v7 v8 v9 v10 v11 v12 v13 v14 : Val) :
    procResult (exec c (decFor3 ;; decRet) (H.set d D) (dcEnvW e d dn s src.size cp n si v6 v7 v8 v9 v10 v11 v12 v13 v14)) =
      ofD H d (decodeLoop e src 2 si n D) := by
  rw [exec_seq, decFor3_eq, exec_for]
  have hfuel : (eval (H.set d D) (dcEnvW e d dn s src.size cp n si v6 v7 v8 v9 v10 v11 v12 v13 v14) decFor3.forFuel >>= asInt) =
      .ok ((1 + dn + src.size : Nat) : Int) := by
    simp only [decFor3, Stmt.forFuel, Stmt.head, Stmt.drop, decodeIR, dcEnvW]
    b64_simp []
    congr 1
  rw [hfuel, bindR_ok, Int.toNat_natCast]
  refine decLoop_genericW c e H d dn s src cp 2 _ _ (exec c decRet) (fun _ si => si < src.size) ?_ (fun _ _ h => h) ?_ ?_
    (src.size - si) si n D _ v6 v7 v8 v9 v10 v11 v12 v13 v14 rfl hD hn hsi (by omega)
  · intro D n si v6 v7 v8 v9 v10 v11 v12 v13 v14 _ _
    simp only [decFor3, Stmt.forCond, Stmt.head, Stmt.drop, decodeIR, dcEnvW]
    b64_simp []
  · intro D n si v6 v7 v8 v9 v10 v11 v12 v13 v14 hD hn hsi hcond
    have hstep : decodeStep e src 2 si n D = viaQ e src si n D 2 :=
      decodeStep_slow e src 2 si n D (fun h => absurd h.1 (by decide)) (fun h => absurd h.1 (by decide))
    rw [hstep]
    refine ⟨decQ3_relW c e H d dn s src cp hdz hc D hD n si hn hsi _ _ _ _ _ _ _ _ _ 2, ?_⟩
    intro ph si' n' D' h
    have := viaQ_inr e src si n D 2 ph si' n' D' (by omega) hcond h
    omega
  · intro D n si v6 v7 v8 v9 v10 v11 v12 v13 v14 hD hn hsi hcond
    rw [Base64LE.loop_end e src 2 si n D (by omega)]
    simp only [decRet, Stmt.drop, decodeIR, dcEnvW]
    b64_simp []
    simp [ofD, errVal]

include hal hdl hs hle hcp hbr hne hdz hsz hc in
/-- The 4-symbol loop and everything after it. -/
theorem decLoop2_runW (D : Buf) (hD : D.size = dn) (n si : Nat) (hn : n ≤ dn) (hsi : si ≤ src.size)
    (v6 v7 v8 v9 v10 v11 v12 v13 v14 : Val) :
    procResult (exec c (decFor2 ;; decFor3 ;; decRet) (H.set d D) (dcEnvW e d dn s src.size cp n si v6 v7 v8 v9 v10 v11 v12 v13 v14)) =
      ofD H d (decodeLoop e src 1 si n D) := by
  rw [exec_seq, decFor2_eq, exec_for]
  have hfuel : (eval (H.set d D) (dcEnvW e d dn s src.size cp n si v6 v7 v8 v9 v10 v11 v12 v13 v14) decFor2.forFuel >>= asInt) =
      .ok ((1 + dn + src.size + 4 + 4 : Nat) : Int) := by
    simp only [decFor2, Stmt.forFuel, Stmt.head, Stmt.drop, decodeIR, dcEnvW]
    b64_simp []
    congr 1
  rw [hfuel, bindR_ok, Int.toNat_natCast]
  refine decLoop_genericW c e H d dn s src cp 1 _ _ (exec c (decFor3 ;; decRet))
    (fun n si => src.size - si ≥ 4 ∧ dn - n ≥ 4) ?_ (fun _ _ h => by omega) ?_ ?_
    (src.size - si) si n D _ v6 v7 v8 v9 v10 v11 v12 v13 v14 rfl hD hn hsi (by omega)
  · intro D n si v6 v7 v8 v9 v10 v11 v12 v13 v14 hn hsi
    simp only [decFor2, Stmt.forCond, Stmt.head, Stmt.drop, decodeIR, dcEnvW]
    by_cases h1 : src.size - si ≥ 4
    · by_cases h2 : dn - n ≥ 4
      · b64_simp []; simp [h1, h2]
      · b64_simp []; simp [h1, h2]
    · b64_simp []; simp [h1]
  · intro D n si v6 v7 v8 v9 v10 v11 v12 v13 v14 hD hn hsi hcond
    have h8 : ¬ ((1 : Nat) = 0 ∧ src.size - si ≥ 8 ∧ D.size - n ≥ 8) := fun h => absurd h.1 (by decide)
    refine ⟨decBody2_relW c e hal H d dn s S src cp hdl hs hle hcp hbr hne hdz hsz hc D hD n si hcond.1 hcond.2 _ _ _ _ _ _ _ _ _ 1
      (by decide) h8, ?_⟩
    intro ph si' n' D' h
    have := step4_inr e src 1 si n D ph si' n' D' (by decide) h8 ⟨hcond.1, by omega⟩ h
    omega
  · intro D n si v6 v7 v8 v9 v10 v11 v12 v13 v14 hD hn hsi hcond
    rw [decodeLoop_phase12 e src si n D (by rw [hD]; exact hcond)]
    exact decLoop3_runW c e H d dn s src cp hdz hc D hD n si hn hsi _ _ _ _ _ _ _ _ _

include hal hdl hs hle hcp hbr hne hdz hsz hc in
/-- The 8-symbol loop and everything after it. -/
theorem decLoop1_runW (D : Buf) (hD : D.size = dn) (n si : Nat) (hn : n ≤ dn) (hsi : si ≤ src.size)
    (v6 v7 v8 v9 v10 v11 v12 v13 v14 : Val) :
    procResult (exec c (decFor1 ;; decFor2 ;; decFor3 ;; decRet) (H.set d D)
      (dcEnvW e d dn s src.size cp n si v6 v7 v8 v9 v10 v11 v12 v13 v14)) =
      ofD H d (decodeLoop e src 0 si n D) := by
  rw [exec_seq, decFor1_eq, exec_for]
  have hfuel : (eval (H.set d D) (dcEnvW e d dn s src.size cp n si v6 v7 v8 v9 v10 v11 v12 v13 v14) decFor1.forFuel >>= asInt) =
      .ok ((1 + dn + src.size + 8 + 8 : Nat) : Int) := by
    simp only [decFor1, Stmt.forFuel, Stmt.head, Stmt.drop, decodeIR, dcEnvW]
    b64_simp []
    congr 1
  rw [hfuel, bindR_ok, Int.toNat_natCast]
  refine decLoop_genericW c e H d dn s src cp 0 _ _ (exec c (decFor2 ;; decFor3 ;; decRet))
    (fun n si => src.size - si ≥ 8 ∧ dn - n ≥ 8) ?_ (fun _ _ h => by omega) ?_ ?_
    (src.size - si) si n D _ v6 v7 v8 v9 v10 v11 v12 v13 v14 rfl hD hn hsi (by omega)
  · intro D n si v6 v7 v8 v9 v10 v11 v12 v13 v14 hn hsi
    simp only [decFor1, Stmt.forCond, Stmt.head, Stmt.drop, decodeIR, dcEnvW]
    by_cases h1 : src.size - si ≥ 8
    · by_cases h2 : dn - n ≥ 8
      · b64_simp []; simp [h1, h2]
      · b64_simp []; simp [h1, h2]
    · b64_simp []; simp [h1]
  · intro D n si v6 v7 v8 v9 v10 v11 v12 v13 v14 hD hn hsi hcond
    refine ⟨decBody1_relW c e hal H d dn s S src cp hdl hs hle hcp hbr hne hdz hsz hc D hD n si hcond.1 hcond.2 _ _ _ _ _ _ _ _ _, ?_⟩
    intro ph si' n' D' h
    have := step8_inr e src si n D ph si' n' D' ⟨hcond.1, by omega⟩ h
    omega
  · intro D n si v6 v7 v8 v9 v10 v11 v12 v13 v14 hD hn hsi hcond
    rw [decodeLoop_phase01 e src si n D (by rw [hD]; exact hcond)]
    exact decLoop2_runW c e hal H d dn s S src cp hdl hs hle hcp hbr hne hdz hsz hc D hD n si hn hsi _ _ _ _ _ _ _ _ _

end loops

/-! ## The whole function -/

theorem decPrefix_emptyW (c : Ctx) (e : Encoding) (H : Heap) (d dn s : Nat) (src : Buf) (cp : Nat) (hz : src.size = 0) :
    exec c decPrefix H ([encVal e, .slice ⟨d, 0, dn, dn⟩, .slice ⟨s, 0, src.size, cp⟩] ++ List.replicate 12 .undef) =
      .ret H [.int 0, .err none] := by
  simp only [decPrefix, Stmt.take, decodeIR, encVal]
  b64_simp [hz]

theorem decPrefix_runW (c : Ctx) (e : Encoding) (H : Heap) (d dn s : Nat) (src : Buf) (cp : Nat) (hz : src.size ≠ 0) :
    exec c decPrefix H ([encVal e, .slice ⟨d, 0, dn, dn⟩, .slice ⟨s, 0, src.size, cp⟩] ++ List.replicate 12 .undef) =
      .norm H (dcEnvW e d dn s src.size cp 0 0 .undef .undef .undef .undef .undef .undef .undef .undef .undef) := by
  simp only [decPrefix, Stmt.take, decodeIR, encVal, dcEnvW]
  b64_simp [hz]

theorem decode_procW (c : Ctx) (e : Encoding) (hal : e.alphabet.length = 64) (H : Heap) (d s : Nat) (dst S src : Buf) (cp : Nat)
    (hd : H[d]? = some dst) (hs : H[s]? = some S) (hle : src.size ≤ S.size) (hcp : src.size ≤ cp)
    (hbr : ∀ (i : Nat) (h1 : i < S.size) (h2 : i < src.size), S[i]'h1 = src[i]'h2) (hne : d ≠ s) (hdz : dst.size < 2 ^ 62) (hsz : src.size < 2 ^ 62)
    (hc : DecCtxW c e H d dst.size s src cp) :
    execProc c decodeIR H [encVal e, .slice ⟨d, 0, dst.size, dst.size⟩, .slice ⟨s, 0, src.size, cp⟩] =
      if src.size = 0 then .ok (H, [.int 0, .err none]) else ofD H d (decodeLoop e src 0 0 0 dst) := by
  rw [execProc_eq c decodeIR H _ rfl, exec_take_drop c H _ 5]
  show procResult ((exec c decPrefix H ([encVal e, .slice ⟨d, 0, dst.size, dst.size⟩, .slice ⟨s, 0, src.size, cp⟩] ++
    List.replicate 12 .undef)).andThen (exec c (decodeIR.body.drop 5))) = _
  by_cases hz : src.size = 0
  · rw [decPrefix_emptyW c e H d dst.size s src cp hz, procResult_andThen_ret, if_pos hz]
  · rw [decPrefix_runW c e H d dst.size s src cp hz, andThen_norm, if_neg hz, decBody_split]
    have hH : H = H.set d dst := (heap_set_self H d dst hd).symm
    conv => lhs; rw [hH]
    exact decLoop1_runW c e hal H d dst.size s S src cp (heap_lt_of_get hd) hs hle hcp hbr hne hdz hsz hc dst rfl 0 0 (by omega) (by omega)
      _ _ _ _ _ _ _ _ _

end GoCrypt.B64IR
