import GoCrypt.Proofs.CodecIRDefs
import GoCrypt.Gen.Shapes

/-!
# Codec IR: running the regenerated `Marshal` on concrete struct descriptions

Definitions only, for the `#guard` examples of `Props/CodecIR.lean`: a concrete external `getTypeInfo`
(it writes the records of the model's `typeInfoOf` on the heap), the reference primitives, a builder of
the Go struct value for a model `Vals`, and `agrees`, which runs function 0 and compares with
`Codec.marshal` through `absErr`.
-/

namespace GoCrypt.CIR.Examples
open GoCrypt.Codec GoCrypt.Gen.codecIR GoCrypt.CIR
open GoCrypt.TIIR (RType Res fiObj tiObj fiType)

/-- The records of `ti` appended to the heap: fields, then the prefix (if any), then the `typeInfo`. -/
def putTypeInfo (heap : TIIR.Heap) (t : RType) (ti : TypeInfo) : TIIR.Heap × Nat :=
  let base := heap.length
  let addrs := (List.range ti.fields.length).map (base + ·)
  let h1 := heap ++ ti.fields.map fiObj
  let (h2, hp) : TIIR.Heap × TIIR.Val := match ti.hashPrefix with
    | some p => (h1 ++ [fiObj p], .ptr h1.length)
    | none => (h1, .nil)
  (h2 ++ [tiObj (.rtype t) { t with depth := 0 } hp addrs ti.numReqValues], h2.length)

/-- A concrete `getTypeInfo`: the model's `typeInfoOf` of the struct the type names. -/
def extRef (structs : List GoStruct) : String → Mem → List Val → Res (Mem × List Val)
  | "getTypeInfo", m, [.rtype t] =>
    (match t.kind with
     | .structRef n =>
       (match typeInfoOf structs n with
        | .ok ti => let (h, a) := putTypeInfo m.heap t ti; .ok ({ m with heap := h }, [.ptr a, .nil])
        | .error (.invalidTag f tag) =>
          .ok (m, [.nil, .tiErr (.errNew [.lit TIIR.invalidTagLit, .typeStr t, .lit [46], .name f, .lit [58, 32], .quoted tag])])
        | .error (.paramConflict f1 f2) =>
          .ok ({ m with heap := m.heap ++ [[.rtype t, .name f1, .name f2, .str [], .str []]] }, [.nil, .tiErr (.ptr m.heap.length)]))
     | _ => .stuck "getTypeInfo of a type that is not a described struct")
  | _, _, _ => .stuck "no such external function"

def world (structs : List GoStruct) : World :=
  { structs := structs, fuel := 200, ext := extRef structs, indexAnyInvalid := indexAnyInvalidRef, marshalText := marshalTextRef }

/-- A Go value for a model field value (`.other` ↦ the bool `true`). -/
def gOfF (depth : Nat) : FVal → GVal
  | .nilPtr => .nilPtr
  | .str s => ptrChain depth (.str s)
  | .bytes b => ptrChain depth (.bytes b)
  | .int v => ptrChain depth (.int v)
  | .uint v => ptrChain depth (.uint v)
  | .other => ptrChain depth (.other 1 1)

/-- The struct value that holds `vals` (embedded structs built recursively, embedded pointers non-nil). -/
def mkStruct (structs : List GoStruct) (vals : Vals) : Nat → GoStruct → List Nat → List GVal
  | 0, _, _ => []
  | fuel + 1, s, pfx =>
    s.fields.zipIdx.map fun (f, i) =>
      match (if f.anonymous then (match f.kind with | .structRef n => Codec.lookupStruct structs n | _ => none) else none) with
      | some inner => ptrChain f.ptrDepth (.struct (mkStruct structs vals fuel inner (pfx ++ [i])))
      | none => gOfF f.ptrDepth ((getVal vals (pfx ++ [i])).getD (zeroOf f.kind f.ptrDepth))

def rootType (root : String) (stars : Nat) : RType := ⟨stars, .structRef root, "", .none, .none⟩

/-- Run the regenerated `Marshal` (function 0) on a `*…*root` holding `vals`. -/
def run (structs : List GoStruct) (root : String) (stars : Nat) (vals : Vals) : Res (Mem × List Val) :=
  match Codec.lookupStruct structs root with
  | some s =>
    callIn program (world structs) 10 0 {} [.iface (rootType root stars) (ptrChain stars (.struct (mkStruct structs vals 8 s [])))]
  | none => .stuck "no such struct"

/-- The run agrees with the model: the same text, or the same error (through `absErr`). -/
def agrees (structs : List GoStruct) (root : String) (stars : Nat) (vals : Vals) : Bool :=
  let model : Except MErr Bytes := match typeInfoOf structs root with
    | .ok ti => Codec.marshal ti vals
    | .error e => .error (.tag e)
  match run structs root stars vals, model with
  | .ok (_, [.str text, .nil]), .ok t => text == t
  | .ok (m, [.str [], v]), .error e => absErr m.heap v == some e
  | _, _ => false

/-- The text a run produced (for examples that spell the expected hash out). -/
def textOf : Res (Mem × List Val) → Option String
  | .ok (_, [.str text, .nil]) => some (String.fromUTF8! ⟨text.toArray⟩)
  | _ => none

def fld (name tag : String) (k : GoKind := .string) (anon := false) (exp := true) (pd := 0)
    (mt : TextCodec := .none) : GoField :=
  { name, exported := exp, anonymous := anon, ptrDepth := pd, kind := k, typeName := "", tag := tag.toUTF8.data.toList,
    marshalText := mt, unmarshalText := .none }

/-- `type Inner struct { Z string "length:3"; N *uint16 "param:n,omitempty,base:16" }` -/
def inner : GoStruct := ⟨"Inner", [fld "Z" "length:3", fld "N" "param:n,omitempty,base:16" (.uint 16) false true 1]⟩

/-- A struct with a prefix, an embedded `*Inner`, a group of two params, an inline field, an omitempty
pointer, a two-digit marshaler and a field of an unsupported kind hidden behind `-`. -/
def outer : GoStruct := ⟨"Outer", [
  fld "HashPrefix" "",
  fld "M" "param:m,group" (.uint 32),
  fld "T" "param:t,group" (.int 64),
  fld "Inner" "" (.structRef "Inner") true true 1,
  fld "S" "length:2,inline,enc:none" .bytes,
  fld "C" "length:2" (.uint 8) false true 0 .twoDigit,
  fld "P" "omitempty,enc:base64" .string false true 2,
  fld "Sum" "" (.byteArray 4),
  fld "D" "-" (.other "bool")]⟩

/-- An unsupported kind that is marshaled, and a marshaler that fails. -/
def bad : GoStruct := ⟨"Bad", [fld "A" "", fld "B" "" (.other "bool")]⟩
def failing : GoStruct := ⟨"Failing", [fld "A" "" .string false true 0 (.opaque "boom")]⟩
def invalid : GoStruct := ⟨"Invalid", [fld "Q" "", fld "A" "group"]⟩

def structs : List GoStruct := [inner, outer, bad, failing, invalid]

def b (s : String) : Bytes := s.toUTF8.data.toList

end GoCrypt.CIR.Examples
