import Lean

/-! The simp set `desir`: the rules that run a word-IR program symbolically (see `Proofs/DesIRBase.lean`). -/

register_simp_attr desir
