import GoCrypt.Proofs.CodecIRUDefs
import GoCrypt.Proofs.CodecIRSmall

/-!
# Codec IR, unmarshal side: the destination cells

Facts about `getDeep`/`setDeep`/`cellGet`/`cellSet` and the interpreter rules for the new statements. Helper lemmas only.
-/

namespace GoCrypt.CIR
open GoCrypt.Codec GoCrypt.Gen.codecIR
open GoCrypt.TIIR (RType Res kindNum fiType)

theorem getDeep_ptrChain (k : Nat) (g : GVal) : getDeep k (ptrChain k g) = some g := by
  induction k with
  | zero => rfl
  | succ k ih => simpa [ptrChain, getDeep] using ih

theorem setDeep_ptrChain (k : Nat) (g new : GVal) : setDeep k (ptrChain k g) new = some (ptrChain k new) := by
  induction k with
  | zero => rfl
  | succ k ih => simp [ptrChain, setDeep, ih]

theorem ptrChain_succ' (k : Nat) (g : GVal) : ptrChain k (.ptr g) = ptrChain (k + 1) g := by
  induction k with
  | zero => rfl
  | succ k ih => simp only [ptrChain, ih]

/-- The memory with the root value of one cell replaced. -/
def Mem.withCell (m : Mem) (idx : List Nat) (r : GVal) : Mem := { m with dest := setRoot m.dest idx r }

theorem find_setRoot_same (idx : List Nat) (r' : GVal) : ∀ (l : List (List Nat × GVal)) (r : GVal),
    (l.find? (·.1 = idx)).map (·.2) = some r → ((setRoot l idx r').find? (·.1 = idx)).map (·.2) = some r'
  | [], r, h => by simp at h
  | p :: ps, r, h => by
    by_cases hp : p.1 = idx
    · simp [setRoot, List.find?_cons, hp]
    · have h' : (ps.find? (·.1 = idx)).map (·.2) = some r := by simpa [List.find?_cons, hp] using h
      have := find_setRoot_same idx r' ps r h'
      simpa [setRoot, List.find?_cons, hp] using this

theorem find_setRoot_other (idx j : List Nat) (r' : GVal) (hj : j ≠ idx) : ∀ (l : List (List Nat × GVal)),
    ((setRoot l idx r').find? (·.1 = j)).map (·.2) = (l.find? (·.1 = j)).map (·.2)
  | [] => rfl
  | p :: ps => by
    have ih := find_setRoot_other idx j r' hj ps
    by_cases hp : p.1 = idx
    · have h2 : ¬ idx = j := fun h => hj h.symm
      have h3 : ¬ p.1 = j := by rw [hp]; exact h2
      simpa [setRoot, List.find?_cons, hp, h2, h3] using ih
    · by_cases hpj : p.1 = j
      · have hji : ¬ j = idx := hj
        subst hpj
        simp [setRoot, List.find?_cons, hp]
      · simpa [setRoot, List.find?_cons, hp, hpj] using ih

theorem cellRoot_withCell_same (m : Mem) (idx : List Nat) (r r' : GVal) (h : cellRoot m idx = some r) :
    cellRoot (m.withCell idx r') idx = some r' := find_setRoot_same idx r' m.dest r h

theorem cellRoot_withCell_other (m : Mem) (idx j : List Nat) (r' : GVal) (hj : j ≠ idx) :
    cellRoot (m.withCell idx r') j = cellRoot m j := find_setRoot_other idx j r' hj m.dest

theorem withCell_withCell (m : Mem) (idx : List Nat) (a b : GVal) : (m.withCell idx a).withCell idx b = m.withCell idx b := by
  unfold Mem.withCell setRoot
  simp only [List.map_map]
  congr 1
  apply List.map_congr_left
  intro p _
  by_cases hp : p.1 = idx <;> simp [hp]

@[simp] theorem withCell_heap (m : Mem) (idx : List Nat) (r : GVal) : (m.withCell idx r).heap = m.heap := rfl
@[simp] theorem withCell_nodes (m : Mem) (idx : List Nat) (r : GVal) : (m.withCell idx r).nodes = m.nodes := rfl

theorem cellGet_of_root (m : Mem) (idx : List Nat) (k : Nat) (r g : GVal) (hr : cellRoot m idx = some r)
    (hg : getDeep k r = some g) : cellGet m idx k = .ok g := by
  simp [cellGet, hr, hg]

theorem cellSet_of_root (m : Mem) (idx : List Nat) (k : Nat) (r g r' : GVal) (hr : cellRoot m idx = some r)
    (hs : setDeep k r g = some r') : cellSet m idx k g = .ok (m.withCell idx r') := by
  simp [cellSet, hr, hs, Mem.withCell]

/-! ## Interpreter rules for the new statements -/

section rules
variable (c : Ctx) (m : Mem) (env : Env)
@[cir] theorem exec_cellOp (op : CellOp) (target : Expr) (args : List Expr) :
    exec c (.cellOp op target args) m env =
      bindR (eval c m env target) fun tv =>
      bindR (evalArgs c m env args) fun vals =>
      bindR (cellStore m op tv vals) fun m' => .norm m' env := id rfl
@[cir] theorem exec_nodeSetValue (target e : Expr) :
    exec c (.nodeSetValue target e) m env =
      bindR (eval c m env target) fun tv =>
      bindR (eval c m env e) fun v =>
        match tv, v with
        | .node a, .str s =>
          (match m.nodes[a]? with
           | some (.value _ pos fin) => .norm { m with nodes := m.nodes.set a (.value s pos fin) } env
           | _ => .stuck "store into something that is not a value node")
        | _, _ => .stuck "store into something that is not a value node" := id rfl
@[cir] theorem exec_unmarshalText (lhs : LHS) (target arg : Expr) :
    exec c (.unmarshalText lhs target arg) m env =
      bindR (eval c m env target) fun tv =>
      bindR (eval c m env arg) fun av =>
        match tv, av with
        | .addr t idx k ro, .bytes s =>
          if ro then .panic else
          (match c.unmarshalText t.ut s with
           | some (.ok g) => bindR (cellSet m idx k g) fun m' => bindR (store env lhs .nil) fun env' => .norm m' env'
           | some (.error d) => bindR (store env lhs (.textErr d)) fun env' => .norm m env'
           | none => .stuck "UnmarshalText of a class that does not describe it")
        | _, _ => .stuck "UnmarshalText on a receiver the description language does not cover (value receiver)" := id rfl
end rules

@[cir] theorem isNilVal_node (a : Nat) : isNilVal (.node a) = .ok false := id rfl
@[cir] theorem isNilVal_numErr (r : Bool) : isNilVal (.numErr r) = .ok false := id rfl
@[cir] theorem lenOf_nodes (l : List Nat) : lenOf (.nodes l) = .ok (.int l.length) := id rfl

/-- Reading operations on a cell: load the value, then the pure operation. -/
theorem ext1M_cell_read (m : Mem) (op : Ext1) (t : RType) (idx : List Nat) (k : Nat) (ro : Bool) (g : GVal)
    (hop : op ≠ .valElem ∧ op ≠ .valCanAddr ∧ op ≠ .valAddr ∧ op ≠ .valCap) (hg : cellGet m idx k = .ok g) :
    ext1M m op (.cell t idx k ro) = ext1 op (.rv t g ro) := by
  obtain ⟨h1, h2, h3, h4⟩ := hop
  cases op <;> simp_all [ext1M]

theorem ext1M_cell_elem (m : Mem) (t : RType) (idx : List Nat) (k : Nat) (ro : Bool) (g : GVal) (d : Nat)
    (hd : t.depth = d + 1) (hg : cellGet m idx k = .ok (.ptr g)) :
    ext1M m .valElem (.cell t idx k ro) = .ok (.cell { t with depth := d } idx (k + 1) ro) := by
  simp [ext1M, hg, hd]

end GoCrypt.CIR
