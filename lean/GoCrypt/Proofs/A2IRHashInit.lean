import GoCrypt.Proofs.A2IRHashLemmas

/-!
# Block IR: `initHash` as regenerated = the model's `Argon2.initHash`

The body is straight-line: three local buffers (`h0`, `params`, `tmp`) are pushed, the parameter words are
written with `PutUint32`, the transcript of the BLAKE2b-512 hash is the model's message, and `Sum(h0[:0])`
puts the 64-byte digest at the front of the 72-byte `h0`.
-/

namespace GoCrypt.A2IR
open GoCrypt.Gen.argon2IR GoCrypt.Kdf

theorem initHash_mod (pw salt : Bytes) (t m p T y v : Nat) :
    Argon2.initHash pw salt t m p T y v =
      Prim.blake2b 64 (Argon2.le32 p ++ Argon2.le32 T ++ Argon2.le32 m ++ Argon2.le32 t ++ Argon2.le32 (v % 4294967296) ++
        Argon2.le32 (y % 4294967296) ++ Argon2.le32 (pw.length % 4294967296) ++ pw ++
        Argon2.le32 (salt.length % 4294967296) ++ salt ++ Argon2.le32 0 ++ Argon2.le32 0) ++ [0, 0, 0, 0, 0, 0, 0, 0] := by
  simp [Argon2.initHash, le32_mod, Argon2.blake2bSize]

set_option maxHeartbeats 4000000 in
theorem initHash_body (c : Ctx) (hH : B2Spec c.H) (h : Heap) (pwV saltV : Val) (pw salt : Bytes)
    (time memory threads keyLen mode version : Nat)
    (hpw : viewBytes h pwV = .ok pw) (hsalt : viewBytes h saltV = .ok salt) :
    procResult h.stk.length (exec c proc_initHash.body h
        [pwV, saltV, .nilBytes, .nilBytes, .u32 time, .u32 memory, .u32 threads, .u32 keyLen, .int mode, .int version,
         .undef, .undef, .undef, .undef]) =
      .ok (h, [.arr (Argon2.initHash pw salt time memory threads keyLen mode version)]) := by
  have hV1 := viewBytes_push hpw
  have hV2 := viewBytes_push hsalt
  have hlen : ∀ m, (c.H 64 m).length = 64 := fun m => by rw [hH.eq]; exact Argon2Eq.blake2b_length 64 m (by omega)
  rw [initHash_mod]
  simp only [proc_initHash]
  rcases viewBytes_ok_cases hpw with ⟨rfl, rfl⟩ | ⟨r1, o1, l1, c1, buf1, rfl, -, -, -, rfl⟩ <;>
  rcases viewBytes_ok_cases hsalt with ⟨rfl, rfl⟩ | ⟨r2, o2, l2, c2, buf2, rfl, -, -, -, rfl⟩ <;>
  a2_simp [lenOf_bytes, lenOf_nilBytes, lenOf_parr, viewBytes_nilBytes, writeAt_def, sliceVal_parr, putLE_bytes, sumInto_bytes,
    hashOf_def, Heap.get_push_top, Heap.get_push_top0, Heap.set_push_top, Heap.set_push_top0, hV1, hV2, hlen,
    viewBytes_push_top, viewBytes_push_top0,
    A2IR.le32, List.take_zero, List.take_succ_cons, List.drop_zero, List.drop_succ_cons, List.length_append, List.append_nil] <;>
  rw [procResult_ret _ _ _ rfl, Heap.popTo_push _ _ _ rfl]
  all_goals simp only [Argon2.le32, List.cons_append, List.nil_append, List.append_assoc, hH.eq, Int.reduceMod, Int.reduceToNat,
    Nat.zero_mod]

theorem initHash_proc (c : Ctx) (hH : B2Spec c.H) (h : Heap) (pwV saltV : Val) (pw salt : Bytes)
    (time memory threads keyLen mode version : Nat)
    (hpw : viewBytes h pwV = .ok pw) (hsalt : viewBytes h saltV = .ok salt) :
    execProc c proc_initHash h
        [pwV, saltV, .nilBytes, .nilBytes, .u32 time, .u32 memory, .u32 threads, .u32 keyLen, .int mode, .int version] =
      .ok (h, [.arr (Argon2.initHash pw salt time memory threads keyLen mode version)]) := by
  rw [execProc_eq _ _ _ _ rfl]
  exact initHash_body c hH h pwV saltV pw salt time memory threads keyLen mode version hpw hsalt

theorem initHashSpec_ctxOf (H : Nat → Bytes → Bytes) (hH : B2Spec H) (d : Nat) :
    InitHashSpec (ctxOf H program (d + 1)) := by
  intro h pwV saltV pw salt time memory threads keyLen mode version hpw hsalt
  rw [ctxOf_call, callIn_succ H program d "initHash" proc_initHash rfl]
  exact initHash_proc _ (by rw [ctxOf_H]; exact hH) h pwV saltV pw salt time memory threads keyLen mode version hpw hsalt

end GoCrypt.A2IR
