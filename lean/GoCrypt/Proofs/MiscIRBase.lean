import GoCrypt.Gen.MiscIR
import GoCrypt.Proofs.B64IRCtor

/-!
# Misc IR (`internal/hashutil`, `internal/cryptoutil.Rand`, `sha1.randRounds`): shared definitions and lemmas

How a `hashutil.Encoding` sits in the object store (`hEncObj`, `HEncAt`), the 256-entry table `decodeTable`,
how calls resolve to the library `miscLib`, the scripted reader (`readOnce` agrees with `extCall`; `readFull` on a
reader whose first script entry holds enough bytes). Helper lemmas only; the property theorems are in
`Props/MiscIR.lean`.
-/

namespace GoCrypt.SIR
open GoCrypt.B64IR (Buf Heap Slice Res sliceBytes)
open GoCrypt.Gen.miscIR

/-! ## `hashutil.Encoding` in the object store -/

/-- The table `NewEncoding(al)` builds: entry `c` is the LAST position of byte `c` in `al` (as a byte), `0xFF` if there is none. -/
def decodeTable (al : Bytes) : Bytes :=
  (List.range 256).map fun c =>
    UInt8.ofNat ((List.range al.length).foldl (fun acc i => if al.getD i 0 = UInt8.ofNat c then i else acc) 255)

theorem decodeTable_length (al : Bytes) : (decodeTable al).length = 256 := by simp [decodeTable]

/-- The Go struct `hashutil.Encoding` for alphabet `al`: `encoder`, `encMax` (`big.NewInt(len)`), `decodeMap` in heap buffer `b`. -/
def hEncObj (b : Nat) (al : Bytes) : Obj :=
  ⟨"Encoding", [.str al, .int al.length, .slice ⟨b, 0, 256, 256⟩]⟩

/-- Object `a` is the `hashutil.Encoding` of alphabet `al`, its `decodeMap` is heap buffer `b`. -/
structure HEncAt (H : Heap) (O : List Obj) (a b : Nat) (al : Bytes) : Prop where
  obj : O[a]? = some (hEncObj b al)
  dmap : H[b]? = some (decodeTable al).toArray

theorem HEncAt.dmapBytes {H O a b al} (h : HEncAt H O a b al) : sliceBytes H ⟨b, 0, 256, 256⟩ = some (decodeTable al) :=
  sliceBytes_whole_n H b 256 _ h.dmap (decodeTable_length al)

theorem hEncAt_fresh (H : Heap) (O : List Obj) (al : Bytes) :
    HEncAt (H ++ [(decodeTable al).toArray]) (O ++ [hEncObj H.length al]) O.length H.length al :=
  ⟨List.getElem?_concat_length, List.getElem?_concat_length⟩

theorem HEncAt.append {H O a b al} (h : HEncAt H O a b al) (H' : Heap) (O' : List Obj) :
    HEncAt (H ++ H') (O ++ O') a b al := by
  have ha : a < O.length := by
    rcases Nat.lt_or_ge a O.length with h' | h'
    · exact h'
    · have := h.obj; rw [List.getElem?_eq_none h'] at this; cases this
  have hb : b < H.length := B64IR.heap_lt_of_get h.dmap
  exact ⟨(List.getElem?_append_left ha).trans h.obj, (List.getElem?_append_left hb).trans h.dmap⟩

/-- The copy a value receiver `enc Encoding` gets on entry: one fresh buffer with the table. -/
theorem cloneFields_henc (H : Heap) (b : Nat) (al dm : Bytes) (hd : sliceBytes H ⟨b, 0, 256, 256⟩ = some dm) :
    cloneFields [2] H 0 [.str al, .int al.length, .slice ⟨b, 0, 256, 256⟩] =
      .ok (H ++ [dm.toArray], [.str al, .int al.length, .slice ⟨H.length, 0, 256, 256⟩]) := by
  have l2 : dm.length = 256 := sliceBytes_length _ _ _ hd
  have c0 : List.contains [2] 0 = false := by decide
  have c1 : List.contains [2] (0 + 1) = false := by decide
  have c2 : List.contains [2] (0 + 1 + 1) = true := by decide
  simp only [cloneFields, c0, c1, c2, hd, l2, Bool.false_eq_true, if_false, if_true]
  rfl

/-! ## Calls resolve to the library -/

/-- The context a function of program `P` runs in when started by `interp P (miscLib rk)`. -/
def mctx (P : Program) (rk : Nat) : Ctx := { call := callIn P (miscLib rk) P.procs.length }

theorem interp_mctx (P : Program) (rk : Nat) (f : String) (p : Proc) (W : World) (args : List Val)
    (hp : List.lookup f P.procs = some p) :
    interp P (miscLib rk) f W args = execProc (mctx P rk) p W args :=
  interp_eq P (miscLib rk) f p W args hp

section calls
variable (rk : Nat) (W : World) (args : List Val)

theorem hcall_make : (mctx hashutil.program rk).call "builtin.make" W args = libMake W args := rfl
theorem hcall_reader : (mctx hashutil.program rk).call "crypto/rand.Reader" W [] = .ok (W, [.ext rk]) := rfl
theorem hcall_int : (mctx hashutil.program rk).call "crypto/rand.Int" W args = libRandInt W args := rfl
theorem hcall_newInt : (mctx hashutil.program rk).call "math/big.NewInt" W args = libNewInt W args := rfl
theorem hcall_uint64 : (mctx hashutil.program rk).call "math/big.Int.Uint64" W args = libUint64 W args := rfl
theorem ccall_make : (mctx cryptoutil.program rk).call "builtin.make" W args = libMake W args := rfl
theorem ccall_read : (mctx cryptoutil.program rk).call "crypto/rand.Read" W args = libRandRead rk W args := rfl
theorem scall_make : (mctx sha1.program rk).call "builtin.make" W args = libMake W args := rfl
theorem scall_read : (mctx sha1.program rk).call "crypto/rand.Read" W args = libRandRead rk W args := rfl
theorem scall_be32 : (mctx sha1.program rk).call "encoding/binary.BigEndian.Uint32" W args = libBEUint32 W args := rfl

end calls

theorem libMake_nat (W : World) (n : Nat) :
    libMake W [.int (n : Int)] =
      .ok (⟨W.heap ++ [Array.replicate n 0], W.objs, W.exts⟩, [.slice ⟨W.heap.length, 0, n, n⟩]) := by
  have : ¬ ((n : Int) < 0) := by omega
  simp [libMake, this]

theorem libMake_neg (W : World) (n : Int) (h : n < 0) : libMake W [.int n] = .panic := by
  simp [libMake, h]

/-! ## The scripted reader -/

/-- `readOnce` is the reader part of `extCall`: the same bytes land in the window, the same results come back,
the same reader remains. -/
theorem extCall_read_eq (W : World) (k : Nat) (script : List ReadResp) (sticky : Option Nat) (reads : Nat) (s : Slice)
    (hk : W.exts[k]? = some (.reader script sticky reads))
    (buf : Buf) (hb : W.heap[s.buf]? = some buf) (hin : s.off + s.len ≤ buf.size) :
    extCall W k "Read" [.slice s] =
      match writeSlice W.heap s (readOnce script sticky reads s.len).1 with
      | .ok h' => .ok (⟨h', W.objs, W.exts.set k (readOnce script sticky reads s.len).2.2⟩,
          [.int (readOnce script sticky reads s.len).1.length, .err (readOnce script sticky reads s.len).2.1])
      | .panic => .panic
      | .stuck w => .stuck w := by
  unfold extCall
  rw [hk]
  cases script with
  | nil =>
    have hle : s.off ≤ buf.size := by omega
    simp [readOnce, writeSlice, hb, hle, B64IR.writeList, B64IR.heap_set_self _ _ _ hb]
  | cons r rest =>
    simp only [readOnce, ne_eq, not_true_eq_false, if_false]
    by_cases hle : r.data.length ≤ s.len
    · simp only [hle, if_true]
      cases writeSlice W.heap s r.data <;> rfl
    · simp only [hle, if_false]
      have : (r.data.take s.len).length = s.len := by simp; omega
      cases writeSlice W.heap s (r.data.take s.len) <;> simp [this]

/-- The scripted reader after `m` bytes of its first script entry `⟨e, er⟩` have been read by `calls` `Read` calls
(each staying inside that entry): the entry shrinks; once it is used up it is removed and its error becomes sticky. -/
def readerAfter (e : Bytes) (er : Option Nat) (rest : List ReadResp) (sticky : Option Nat) (reads m calls : Nat) : Ext :=
  if m < e.length then .reader (⟨e.drop m, er⟩ :: rest) sticky (reads + calls)
  else .reader rest (if er.isSome then er else sticky) (reads + calls)

theorem pending_reader_cons (r : ReadResp) (rest : List ReadResp) (st : Option Nat) (rd : Nat) :
    (Ext.reader (r :: rest) st rd).pending = (r.data.length + 1) + (Ext.reader rest st rd).pending := by
  simp [Ext.pending]

/-- `io.ReadFull` of `m ≥ 1` bytes when the first script entry holds at least `m` bytes: one `Read` call, exactly
those bytes, no error (an error attached to the entry is dropped when the entry is used up exactly, as in Go). -/
theorem readFull_chunk (fuel : Nat) (e : Bytes) (er : Option Nat) (rest : List ReadResp) (sticky : Option Nat)
    (reads m : Nat) (hm : 0 < m) (hle : m ≤ e.length) :
    readFull (fuel + 1) (.reader (⟨e, er⟩ :: rest) sticky reads) m [] =
      .ok (e.take m, none, readerAfter e er rest sticky reads m 1) := by
  have hm0 : ¬ m = 0 := by omega
  unfold readFull
  simp only [hm0, if_false, readOnce, readerAfter]
  by_cases heq : e.length ≤ m
  · have hme : m = e.length := by omega
    subst hme
    simp [List.take_length]
  · have hlt : m < e.length := by omega
    have hmin : min m e.length = m := by omega
    simp [heq, hlt, hmin]

/-- `io.ReadFull` of `m ≥ 1` bytes on an exhausted reader whose sticky error is `c`: nothing is read, the error is `c`. -/
theorem readFull_exhausted (fuel : Nat) (c : Nat) (reads m : Nat) (hm : 0 < m) :
    readFull (fuel + 1) (.reader [] (some c) reads) m [] = .ok ([], some c, .reader [] (some c) (reads + 1)) := by
  have hm0 : ¬ m = 0 := by omega
  unfold readFull
  simp [hm0, readOnce]

theorem readFull_zero (fuel : Nat) (x : Ext) : readFull fuel x 0 [] = .ok ([], none, x) := by
  unfold readFull; simp

/-- Reading on inside the same script entry: `j` bytes gone, `m` more. -/
theorem readerAfter_step (e : Bytes) (er : Option Nat) (rest : List ReadResp) (sticky : Option Nat) (reads j c m : Nat)
    (hj : j + m ≤ e.length) (hm : 0 < m) :
    readerAfter (e.drop j) er rest sticky (reads + c) m 1 = readerAfter e er rest sticky reads (j + m) (c + 1) := by
  simp only [readerAfter, List.length_drop, List.drop_drop]
  by_cases h : j + m < e.length
  · have h' : m < e.length - j := by omega
    simp [h, h', Nat.add_assoc]
  · have h' : ¬ m < e.length - j := by omega
    simp [h, h', Nat.add_assoc]

theorem readerAfter_zero (e : Bytes) (er : Option Nat) (rest : List ReadResp) (sticky : Option Nat) (reads : Nat)
    (h : 0 < e.length) : readerAfter e er rest sticky reads 0 0 = .reader (⟨e, er⟩ :: rest) sticky reads := by
  simp [readerAfter, h]


/-- The scripted reader after `m` bytes of its first script entry have been consumed by `calls` calls; `m = 0`: untouched. -/
def consumed (e : Bytes) (er : Option Nat) (rest : List ReadResp) (sticky : Option Nat) (reads m calls : Nat) : Ext :=
  if m = 0 then .reader (⟨e, er⟩ :: rest) sticky reads else readerAfter e er rest sticky reads m calls

theorem consumed_lt (e : Bytes) (er : Option Nat) (rest : List ReadResp) (sticky : Option Nat) (reads m : Nat)
    (h : m < e.length) : consumed e er rest sticky reads m m = .reader (⟨e.drop m, er⟩ :: rest) sticky (reads + m) := by
  unfold consumed readerAfter
  by_cases h0 : m = 0
  · subst h0; simp
  · simp [h0, h]

theorem exts_set_self {α : Type} (l : List α) (i : Nat) (x : α) (h : l[i]? = some x) : l.set i x = l := by
  apply List.ext_getElem?
  intro j
  by_cases hj : j = i
  · subst hj
    have : j < l.length := by
      rcases Nat.lt_or_ge j l.length with h' | h'
      · exact h'
      · rw [List.getElem?_eq_none h'] at h; cases h
    rw [List.getElem?_set_self this, h]
  · rw [List.getElem?_set_ne (Ne.symm hj)]

/-- `rand.Int(r, 64)` when the next entropy byte `b` is at the front of the first script entry. -/
theorem libRandInt_chunk (W : World) (k : Nat) (b : UInt8) (e' : Bytes) (er : Option Nat) (rest : List ReadResp)
    (sticky : Option Nat) (reads : Nat) (hk : W.exts[k]? = some (.reader (⟨b :: e', er⟩ :: rest) sticky reads)) :
    libRandInt W [.ext k, .int 64] =
      .ok (⟨W.heap, W.objs, W.exts.set k (readerAfter (b :: e') er rest sticky reads 1 1)⟩, [.int ((b.toNat % 64 : Nat) : Int), .err none]) := by
  unfold libRandInt
  simp only [ne_eq, not_true_eq_false, if_false, hk]
  rw [readFull_chunk _ (b :: e') er rest sticky reads 1 (by omega) (by simp)]
  rfl

/-- `rand.Int(r, 64)` on an exhausted reader with sticky error `c`: `(nil, c)`. -/
theorem libRandInt_exhausted (W : World) (k c reads : Nat) (hk : W.exts[k]? = some (.reader [] (some c) reads)) :
    libRandInt W [.ext k, .int 64] =
      .ok (⟨W.heap, W.objs, W.exts.set k (.reader [] (some c) (reads + 1))⟩, [.undef, .err (some c)]) := by
  unfold libRandInt
  simp only [ne_eq, not_true_eq_false, if_false, hk]
  rw [readFull_exhausted _ c reads 1 (by omega)]

theorem libUint64_nat (W : World) (v : Nat) (hv : v < 18446744073709551616) :
    libUint64 W [.int (v : Int)] = .ok (W, [.int (v : Int)]) := by
  have : (0 : Int) ≤ v ∧ (v : Int) < 18446744073709551616 := by omega
  simp [libUint64, this]

/-- `rand.Read(b)` when the first script entry holds at least `len(b)` bytes: the window is filled with them. -/
theorem libRandRead_chunk (rk : Nat) (H : Heap) (O : List Obj) (X : List Ext) (s : Slice) (B : Buf)
    (hB : H[s.buf]? = some B) (hin : s.off + s.len ≤ B.size)
    (e : Bytes) (er : Option Nat) (rest : List ReadResp) (sticky : Option Nat) (reads : Nat)
    (hk : X[rk]? = some (.reader (⟨e, er⟩ :: rest) sticky reads)) (hle : s.len ≤ e.length) :
    libRandRead rk ⟨H, O, X⟩ [.slice s] =
      .ok (⟨H.set s.buf (B64IR.writeList B s.off (e.take s.len)), O, X.set rk (consumed e er rest sticky reads s.len 1)⟩,
        [.int s.len, .err none]) := by
  unfold libRandRead
  simp only [hk]
  by_cases h0 : s.len = 0
  · rw [h0, readFull_zero]
    have : s.off ≤ B.size := by omega
    simp [writeSlice, hB, consumed, B64IR.writeList, this]
  · rw [readFull_chunk _ e er rest sticky reads s.len (by omega) hle]
    have hl : (e.take s.len).length = s.len := by simp; omega
    simp [writeSlice, hB, consumed, h0, hl, hin]

/-- `rand.Read(b)` with `len(b) ≥ 1` on an exhausted reader with sticky error `c`: `(0, c)`. -/
theorem libRandRead_exhausted (rk : Nat) (H : Heap) (O : List Obj) (X : List Ext) (s : Slice) (B : Buf)
    (hB : H[s.buf]? = some B) (hin : s.off + s.len ≤ B.size) (hpos : 0 < s.len) (c reads : Nat)
    (hk : X[rk]? = some (.reader [] (some c) reads)) :
    libRandRead rk ⟨H, O, X⟩ [.slice s] =
      .ok (⟨H, O, X.set rk (.reader [] (some c) (reads + 1))⟩, [.int 0, .err (some c)]) := by
  unfold libRandRead
  simp only [hk]
  rw [readFull_exhausted _ c reads s.len hpos]
  have : s.off ≤ B.size := by omega
  simp [writeSlice, hB, B64IR.writeList, this, B64IR.heap_set_self _ _ _ hB]

/-- `io.ReadFull` of `m` bytes when the first script entry holds FEWER bytes and carries an error `c`: the bytes
arrive, the read fails (`io.EOF` after at least one byte becomes `io.ErrUnexpectedEOF`), the error becomes sticky. -/
theorem readFull_short (fuel : Nat) (e : Bytes) (c : Nat) (rest : List ReadResp) (sticky : Option Nat) (reads m : Nat)
    (h : e.length < m) :
    readFull (fuel + 1) (.reader (⟨e, some c⟩ :: rest) sticky reads) m [] =
      .ok (e, some (if c = 1 ∧ e ≠ [] then 2 else c), .reader rest (some c) (reads + 1)) := by
  have hm0 : ¬ m = 0 := by omega
  have h1 : e.length ≤ m := by omega
  have h2 : ¬ m ≤ e.length := by omega
  unfold readFull
  simp [hm0, readOnce, h1, h2]

/-- `rand.Read(b)` when the entropy runs out before `len(b)` bytes and the script reports an error: an error result. -/
theorem libRandRead_short (rk : Nat) (H : Heap) (O : List Obj) (X : List Ext) (s : Slice) (B : Buf)
    (hB : H[s.buf]? = some B) (hin : s.off + s.len ≤ B.size)
    (e : Bytes) (c : Nat) (rest : List ReadResp) (sticky : Option Nat) (reads : Nat)
    (hk : X[rk]? = some (.reader (⟨e, some c⟩ :: rest) sticky reads)) (h : e.length < s.len) :
    ∃ W' c', libRandRead rk ⟨H, O, X⟩ [.slice s] = .ok (W', [.int e.length, .err (some c')]) := by
  unfold libRandRead
  simp only [hk]
  rw [readFull_short _ e c rest sticky reads s.len h]
  have : s.off + e.length ≤ B.size := by omega
  simp [writeSlice, hB, this]

/-! ## Small facts -/

theorem UInt8.ofNat_mod256 (k : Nat) : UInt8.ofNat (k % 256) = UInt8.ofNat k := by
  apply UInt8.toNat_inj.mp
  simp [UInt8.toNat_ofNat']

theorem getD_eq_getElem_of_lt (al : Bytes) (k : Nat) (d : UInt8) (hk : k < al.length) : al.getD k d = al[k] := by
  simp [List.getD_eq_getElem?_getD, hk]

end GoCrypt.SIR
