import GoCrypt.Proofs.SFlowVal
import GoCrypt.Spec.SFlowValLex
import GoCrypt.Model.Dispatch

/-!
# `lexPrefix`: the regenerated program against `Parse.tokens` (`Model/Parse.lean`)
-/

namespace GoCrypt.SFlowVal
open GoCrypt GoCrypt.Flow GoCrypt.SFlow GoCrypt.Parse GoCrypt.Dispatch

/-! ## Projections of `lprims0` / `lprims` -/

@[sflowval] theorem lprims0_readField (b : Val LVal) (f : String) (st : LState) : lprims0.readField b f st =
    match b with
    | .ext .lexer =>
      if f = "input" then some (.str st.input)
      else if f = "pos" then some (.int st.pos)
      else if f = "start" then some (.int st.start)
      else if f = "tokens" then some (.ext .chan)
      else none
    | _ => none := rfl
@[sflowval] theorem lprims0_writeField (b v : Val LVal) (f : String) (st : LState) : lprims0.writeField b f v st =
    match b, v with
    | .ext .lexer, .int n =>
      if f = "pos" then some { st with pos := n }
      else if f = "start" then some { st with start := n }
      else none
    | _, _ => none := rfl
@[sflowval] theorem lprims0_call (f : String) (args : List (Val LVal)) (st : LState) : lprims0.call f args st =
    if f = "lit:token" then
      match kvGet args "Type", kvGet args "Pos", kvGet args "Value" with
      | some (.int t), some (.int p), some (.str v) =>
        if args.length = 3 then .ok (.ext (.token ⟨t, p, v⟩), st) else .stuck "token literal: fields"
      | _, _, _ => .stuck "token literal: fields"
    else if f = "chan<-" then
      match args with
      | [.ext .chan, .ext (.token t)] => .ok (.unit, { st with sent := st.sent ++ [t] })
      | _ => .stuck "send: operands"
    else .stuck ("function " ++ f) := rfl
@[sflowval] theorem lprims_readField : lprims.readField = lprims0.readField := rfl
@[sflowval] theorem lprims_writeField : lprims.writeField = lprims0.writeField := rfl
theorem lprims_call (f : String) (args : List (Val LVal)) (st : LState) : lprims.call f args st =
    if f = "(*lexer).emit" then
      match runFunc lprims0 Gen.hash_parse.lexerEmitFlow args st with
      | .ret [] st' => .ok (.unit, st')
      | .ret _ _ => .stuck "emit returned a value"
      | .panic w => .panic w
      | .stuck w => .stuck w
    else if f = "(*lexer).errorf" then
      match args with
      | [.ext .lexer, .str msg] =>
        if msg.contains 37 then .stuck "errorf: format verbs"
        else .ok (.nil, { st with sent := st.sent ++ [⟨Gen.hash_parse.tokenError, st.pos, msg⟩] })
      | _ => .stuck "errorf: operands"
    else lprims0.call f args st := rfl

@[sflowval] theorem lprims_call_errorf (msg : Bytes) (st : LState) :
    lprims.call "(*lexer).errorf" [.ext .lexer, .str msg] st =
      if msg.contains 37 then .stuck "errorf: format verbs"
      else .ok (.nil, { st with sent := st.sent ++ [⟨Gen.hash_parse.tokenError, st.pos, msg⟩] }) := rfl

@[sflowval] theorem unop_conv_Pos (n : Int) : unop lprims "conv:Pos" (.int n) = .ok (.int n) := by
  have ht : tagged "conv:Pos" = some ("conv", "Pos") := by decide
  simp [unop, ht, lprims, lprims0]

@[sflowval] theorem constVal_msg1 {σ ν} (P : Prims σ ν) :
    constVal P "\"missing prefix identifier\"" = some (.str (ascii "missing prefix identifier")) := rfl
@[sflowval] theorem constVal_msg2 {σ ν} (P : Prims σ ν) :
    constVal P "\"missing prefix end\"" = some (.str (ascii "missing prefix end")) := rfl
theorem msg1_no_verb : (37 : UInt8) ∉ ascii "missing prefix identifier" := by decide
theorem msg2_no_verb : (37 : UInt8) ∉ ascii "missing prefix end" := by decide

@[sflowval] theorem binop_slice0 {ν} (s : Bytes) : binop (ν := ν) "[_:]" (.str s) (.int 0) = .ok (.str s) := by
  rw [binop_sliceFrom]
  simpa using sliceStr_from (ν := ν) s 0 (by simp)

/-! ## `l.emit(t)`: the regenerated body of `(*lexer).emit` -/

/-- With `0 ≤ start ≤ pos ≤ len(input)` (so that `l.input[l.start:l.pos]` is in bounds) `emit` sends
`token{t, start, input[start:pos]}` and moves `start` to `pos`. -/
theorem emit_eq (t : Int) (st : LState) (v : Bytes)
    (hs : sliceStr (ν := LVal) st.input st.start st.pos = .ok (.str v)) :
    lprims.call "(*lexer).emit" [.ext .lexer, .int t] st =
      .ok (.unit, { st with start := st.pos, sent := st.sent ++ [⟨t, st.start, v⟩] }) := by
  simp [sflowval, lprims_call, Gen.hash_parse.lexerEmitFlow, hs, kvGet]

/-! ## `lexPrefix` -/

/-- What `lexPrefix` does to a fresh lexer, following the case analysis of `Parse.tokens`. -/
def lexPrefixRun (s : Bytes) : Outcome LState LVal :=
  match s with
  | [] => .ret [.func "lexFragment"] ⟨s, 0, 0, []⟩
  | c :: rest =>
    if c = 36 then
      match indexDelim rest with
      | none => .ret [.nil] ⟨s, s.length, 0, [⟨0, s.length, ascii "missing prefix end"⟩]⟩
      | some 0 => .ret [.nil] ⟨s, 1, 0, [⟨0, 1, ascii "missing prefix identifier"⟩]⟩
      | some (i + 1) => .ret [.func "lexFragment"] ⟨s, ((i + 3 : Nat) : Int), ((i + 3 : Nat) : Int), [⟨1, 0, s.take (i + 3)⟩]⟩
    else if c = 95 then .ret [.func "lexFragment"] ⟨s, 1, 1, [⟨1, 0, [95]⟩]⟩
    else .ret [.func "lexFragment"] ⟨s, 0, 0, []⟩

theorem runLexPrefix_eq (s : Bytes) : runLexPrefix Gen.hash_parse.lexPrefixFlow s = lexPrefixRun s := by
  cases s with
  | nil => simp [sflowval, runLexPrefix, lexPrefixRun, Gen.hash_parse.lexPrefixFlow]
  | cons c rest =>
    by_cases hc : c = 36
    · subst hc
      generalize hk : indexAny rest [36, 44] = k
      rcases indexAny_cases rest with ⟨hi, e⟩ | ⟨hi, e⟩ | ⟨i, hi, e⟩
      · have : k = -1 := by rw [← hk, e]
        subst this
        simp [sflowval, runLexPrefix, lexPrefixRun, Gen.hash_parse.lexPrefixFlow, hi, hk, msg2_no_verb, Gen.hash_parse.tokenError]
      · have : k = 0 := by rw [← hk, e]
        subst this
        simp [sflowval, runLexPrefix, lexPrefixRun, Gen.hash_parse.lexPrefixFlow, hi, hk, msg1_no_verb, Gen.hash_parse.tokenError]
      · have hlt := indexDelim_lt' rest (i + 1) hi
        have hk' : k = ((i + 1 : Nat) : Int) := by rw [← hk, e]
        have hk0 : 0 ≤ k := by omega
        have hk1 : ¬ k = 0 := by omega
        have hem := emit_eq 1 ⟨36 :: rest, 1 + (k + 1), 0, []⟩ ((36 :: rest).take (i + 3)) (by
          have e2 : 1 + (k + 1) = ((i + 3 : Nat) : Int) := by omega
          show sliceStr (36 :: rest) 0 (1 + (k + 1)) = _
          rw [e2]
          exact sliceStr_to _ _ (by simp; omega))
        simp [sflowval, runLexPrefix, lexPrefixRun, Gen.hash_parse.lexPrefixFlow, hi, hk, hk0, hk1, hem]
        omega
    · have hc' : ((36 : UInt8) == c) = false := by
        simp only [beq_eq_false_iff_ne, ne_eq]; exact fun e => hc e.symm
      by_cases hu : c = 95
      · subst hu
        have hem := emit_eq 1 ⟨95 :: rest, 1, 0, []⟩ [95] (by
          show sliceStr (95 :: rest) 0 ((1 : Nat) : Int) = _
          exact sliceStr_to _ _ (by simp))
        simp [sflowval, runLexPrefix, lexPrefixRun, Gen.hash_parse.lexPrefixFlow, hem]
      · have hu' : ((95 : UInt8) == c) = false := by
          simp only [beq_eq_false_iff_ne, ne_eq]; exact fun e => hu e.symm
        simp [sflowval, runLexPrefix, lexPrefixRun, Gen.hash_parse.lexPrefixFlow, hc, hu, hc', hu']

/-! ## The run read in the model's terms -/

theorem msg_ne : ascii "missing prefix end" ≠ ascii "missing prefix identifier" := by decide

theorem tokOf_err1 (p : Int) (hp : 0 ≤ p) :
    tokOf ⟨0, p, ascii "missing prefix identifier"⟩ = some (.error p.toNat 1) := by
  have : ¬ p < 0 := by omega
  simp [tokOf, Gen.hash_parse.tokenError, this]
theorem tokOf_err2 (p : Int) (hp : 0 ≤ p) :
    tokOf ⟨0, p, ascii "missing prefix end"⟩ = some (.error p.toNat 2) := by
  have : ¬ p < 0 := by omega
  simp [tokOf, Gen.hash_parse.tokenError, msg_ne, this]
theorem tokOf_pfx (v : Bytes) : tokOf ⟨1, 0, v⟩ = some (.pfx 0 v) := by
  simp [tokOf, Gen.hash_parse.tokenError, Gen.hash_parse.tokenPrefix]

theorem evalLexPrefix_eq (s : Bytes) :
    evalLexPrefix Gen.hash_parse.lexPrefixFlow s =
      match s with
      | [] => some ([], some 0)
      | c :: rest =>
        if c = 36 then
          match indexDelim rest with
          | none => some ([.error s.length 2], none)
          | some 0 => some ([.error 1 1], none)
          | some (i + 1) => some ([.pfx 0 (s.take (i + 3))], some (i + 3))
        else if c = 95 then some ([.pfx 0 [95]], some 1)
        else some ([], some 0) := by
  unfold evalLexPrefix
  rw [runLexPrefix_eq]
  cases s with
  | nil => simp [lexPrefixRun]
  | cons c rest =>
    by_cases hc : c = 36
    · subst hc
      cases hi : indexDelim rest with
      | none =>
        have t := tokOf_err2 ((rest.length : Int) + 1) (by omega)
        simp [lexPrefixRun, hi, t]
      | some i =>
        cases i with
        | zero =>
          have t := tokOf_err1 1 (by omega)
          simp [lexPrefixRun, hi, t]
        | succ i =>
          have t := tokOf_pfx (36 :: rest.take (i + 2))
          simp [lexPrefixRun, hi, t]
          omega
    · by_cases hu : c = 95
      · subst hu
        have t := tokOf_pfx [95]
        simp [lexPrefixRun, t]
      · simp [lexPrefixRun, hc, hu]

/-- The regenerated `lexPrefix` followed by the model's `lexFragment` loop is the model's `tokens`. -/
theorem resume_evalLexPrefix (s : Bytes) :
    resume s (evalLexPrefix Gen.hash_parse.lexPrefixFlow s) = some (tokens s) := by
  rw [evalLexPrefix_eq]
  cases s with
  | nil => simp [resume, tokens]
  | cons c rest =>
    by_cases hc : c = 36
    · subst hc
      have hd : Bytes.dollar = 36 := rfl
      cases hi : indexDelim rest with
      | none => simp [resume, tokens, hi, hd]
      | some i => cases i <;> simp [resume, tokens, hi, hd]
    · by_cases hu : c = 95
      · subst hu
        simp [resume, tokens, Bytes.dollar, Bytes.underscore]
      · have hcd : ¬ c = Bytes.dollar := hc
        have hcu : ¬ c = Bytes.underscore := hu
        simp [resume, tokens, hc, hu, hcd, hcu]

/-- The lexer's prefix is the dispatcher's: wherever `crypt.Check` finds no prefix the lexer sends a
single error token and stops; otherwise it sends exactly the prefix `Check` looks up (nothing for the
empty prefix) and resumes right after it. -/
theorem evalLexPrefix_prefixOf (s : Bytes) :
    (prefixOf s = none → ∃ pos msg, evalLexPrefix Gen.hash_parse.lexPrefixFlow s = some ([.error pos msg], none)) ∧
    (∀ p, prefixOf s = some p →
      evalLexPrefix Gen.hash_parse.lexPrefixFlow s = some (if p = [] then [] else [.pfx 0 p], some p.length)) := by
  rw [evalLexPrefix_eq]
  cases s with
  | nil => simp [prefixOf]
  | cons c rest =>
    by_cases hc : c = 36
    · subst hc
      have hd : Bytes.dollar = 36 := rfl
      cases hi : indexDelim rest with
      | none => simp [prefixOf, hi, hd]
      | some i =>
        cases i with
        | zero => simp [prefixOf, hi, hd]
        | succ i =>
          have hlt := indexDelim_lt' rest (i + 1) hi
          simp [prefixOf, hi, hd]
          omega
    · by_cases hu : c = 95
      · subst hu
        simp [prefixOf, Bytes.dollar, Bytes.underscore]
      · have hcd : ¬ c = Bytes.dollar := hc
        have hcu : ¬ c = Bytes.underscore := hu
        simp [prefixOf, hc, hu, hcd, hcu]
end GoCrypt.SFlowVal
