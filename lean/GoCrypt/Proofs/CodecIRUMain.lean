import GoCrypt.Proofs.CodecIRUPrologue

/-!
# Codec IR: the whole of `Unmarshal` (function 5) = `Codec.unmarshal` + `finalVals`

* `loopTail_nogroup`: for group-free field lists, `loop_nogroup` + `uTail_spec` give the interface `LoopTailOk`.
* `unmarshal_top`: prologue + `HashPrefix` `if` + `LoopTailOk` = the model's `unmarshal` (parse, `unmarshalTree`).
Helper lemmas only; the statements in plain words are in `Props/CodecIRU3.lean`.
-/

namespace GoCrypt.CIR
open GoCrypt.Codec GoCrypt.Gen.codecIR GoCrypt.Parse
open GoCrypt.TIIR (RType Res kindNum fiType fiObj tiObj encVal optsVals Reps RepOpt)

section nogroup
variable (c c' : Ctx) (hc : CallsU c c') (hfuel : c'.fuel = c.fuel)
  (hash : Bytes) (t t0 : RType) (pv : Val) (as : List Nat) (tia : Nat) (addrs : List Nat) (heap0 : TIIR.Heap)
  (st tt : RType) (hpv : TIIR.Val) (nreq : Int) (hti : heap0[tia]? = some (tiObj (.rtype st) tt hpv addrs nreq))
  (allF : List FieldInfo)

include hc hfuel hti in
/-- The loop and the checks after it, for a field list without grouped params. -/
theorem loopTail_nogroup (fields : List FieldInfo) (hreps : Reps heap0 addrs fields)
    (hok : ∀ fi ∈ fields, FieldOk c t0 fi ∧ fi.opts.group = false ∧ fi ∈ allF) (hnd : (fields.map (·.index)).Nodup)
    (hlen : fields.length < c.fuel) :
    LoopTailOk c hash t t0 pv as tia addrs heap0 allF fields := by
  intro mm s fragIdx lay ngv fiv fragv j hinv _ _ hcells hzero
  have hl := loop_nogroup c c' hc hfuel hash t t0 pv as tia addrs heap0 st tt hpv nreq hti allF fields hreps hok hnd ngv c.fuel 0 mm s fragIdx
    lay fiv fragv j (Nat.zero_le _) (by omega) hinv hcells (by simpa using hzero)
  rw [List.drop_zero] at hl
  rw [uLT_split]
  cases hlf : loopFields hash.length fields s with
  | error e =>
    rw [hlf] at hl
    obtain ⟨m', v, hx, habs⟩ := hl
    show ∃ m' v, _ ∧ _
    exact ⟨m', v, by
      have hx' : loop (fun m env => eval c m env uLoop.forCond >>= asBool) (exec c uBody) (exec c uLoop.forPost) c.fuel mm
          (tEnv hash t t0 pv as tia addrs fragIdx ngv .nil s.numValues s.numReq 0 fiv fragv j) = .ret m' [v] := hx
      rw [hx']; rfl, habs⟩
  | ok s' =>
    rw [hlf] at hl
    obtain ⟨mm', env', fragIdx', lay', fiv', fragv', hx, ⟨j', rfl⟩, hinv', hcells'⟩ := hl
    have hx' : loop (fun m env => eval c m env uLoop.forCond >>= asBool) (exec c uBody) (exec c uLoop.forPost) c.fuel mm
        (tEnv hash t t0 pv as tia addrs fragIdx ngv .nil s.numValues s.numReq 0 fiv fragv j) = .norm mm' _ := hx
    rw [hx', andThen_norm]
    have htail := uTail_spec c hash t t0 pv as tia addrs heap0 mm' s' fragIdx' lay' hinv' ngv s'.numValues s'.numReq (fields.length : Nat)
      fiv' fragv' j'
    have hng := hinv'.nogroup
    show match tailModel s' with
      | .error e => ∃ m' v, _ ∧ _
      | .ok out => ∃ mm'', _ ∧ _
    unfold tailModel
    rw [hng]
    simp only [bind, Except.bind, pure, Except.pure]
    cases hfr : s'.frags with
    | nil =>
      rw [hfr] at htail
      exact ⟨mm', htail, hcells'⟩
    | cons f rest =>
      rw [hfr] at htail
      obtain ⟨v, h1, h2⟩ := htail
      exact ⟨mm', v, h1, h2⟩
end nogroup

theorem fOfG_zeroG (fi : FieldInfo) : Examples.fOfG (zeroG (fiType fi)) = zeroOf fi.kind fi.ptrDepth := by
  unfold zeroG zeroOf fiType
  simp only
  split
  · rfl
  · cases fi.kind <;> rfl

theorem all2_length {α β : Type} {R : α → β → Prop} : ∀ {l₁ : List α} {l₂ : List β}, All2 R l₁ l₂ → l₁.length = l₂.length
  | _, _, .nil => rfl
  | _, _, .cons _ h => by simp [all2_length h]

theorem prefixModel_some_some (ti : TypeInfo) (hl : Nat) (tree : Tree) (hp : FieldInfo) (p : Bytes)
    (h1 : ti.hashPrefix = some hp) (h2 : tree.pfx = some p) :
    prefixModel ti hl tree = (match nodeModel hp "prefix" p.length p with | .error e => .error e | .ok fv => .ok [(hp.index, fv)]) := by
  unfold prefixModel nodeModel
  rw [h1, h2]
  simp only [bind, Except.bind, pure, Except.pure]
  cases fieldText hp "prefix" p.length p with
  | error e => rfl
  | ok q =>
    obtain ⟨s, r⟩ := q
    simp only []
    cases storeValue hp "prefix" p.length s <;> rfl

theorem repOpt_none {h : TIIR.Heap} {v : TIIR.Val} (hr : RepOpt h v none) : v = .nil := by
  cases v <;> simp [RepOpt] at hr ⊢

theorem repOpt_some {h : TIIR.Heap} {v : TIIR.Val} {fi : FieldInfo} (hr : RepOpt h v (some fi)) : ∃ a, v = .ptr a ∧ h[a]? = some (fiObj fi) := by
  cases v <;> simp [RepOpt] at hr ⊢
  exact hr

section top
variable (c c' : Ctx) (hc : CallsU c c') (hfuel : c'.fuel = c.fuel)

include hc hfuel in
/-- **`Unmarshal` = `Codec.unmarshal`**, given what the loop and the checks after it do (`LoopTailOk`). -/
theorem unmarshal_top (hash : Bytes) (t : RType) (sn : String) (hk : t.kind = .structRef sn) (hd : 0 < t.depth) (hdf : t.depth < c.fuel)
    (m : Mem) (ti : TypeInfo)
    (hparse : ParseOkAt c.ext c.fuel m hash)
    (hget : ∀ m1 : Mem, m1.heap = m.heap → GetTypeInfoOk c.ext m1 t ti)
    (hok : ∀ fi ∈ ti.hashPrefix.toList ++ ti.fields, FieldOk c { t with depth := 0 } fi)
    (hnd : ((ti.hashPrefix.toList ++ ti.fields).map (·.index)).Nodup)
    (hzero : ZeroRest m (ti.hashPrefix.toList ++ ti.fields))
    (hpinl : ∀ hp, ti.hashPrefix = some hp → (hp.opts.hasLength && hp.opts.inline) = false)
    (hLT : ∀ (pv : Val) (as : List Nat) (tia : Nat) (addrs : List Nat) (heap0 : TIIR.Heap) (hpv : TIIR.Val),
       heap0[tia]? = some (tiObj (.rtype t) { t with depth := 0 } hpv addrs ti.numReqValues) → Reps heap0 addrs ti.fields →
       LoopTailOk c hash t { t with depth := 0 } pv as tia addrs heap0 (ti.hashPrefix.toList ++ ti.fields) ti.fields) :
    match Codec.unmarshal ti hash with
    | .error e => ∃ m' v heap', execProc c unmarshalTopIR m [.str hash, .dptr t] = .ok (m', [v]) ∧ absErrU heap' v = some e
    | .ok out => ∃ m', execProc c unmarshalTopIR m [.str hash, .dptr t] = .ok (m', [.nil]) ∧
        CellsOk m' (ti.hashPrefix.toList ++ ti.fields) out := by
  rw [execProc_eq _ _ _ _ (by rfl)]
  have henv : ([.str hash, .dptr t] ++ List.replicate (unmarshalTopIR.nslots - unmarshalTopIR.nparams) .undef : Env) =
      pEnv hash t .undef .undef .undef .undef .undef .undef .undef .undef .undef .undef .undef := rfl
  rw [henv, uTop_split, uA_spec c c' hash t hc.call8 (by rw [hfuel]; exact hdf) hd sn hk m, andThen_norm]
  unfold Codec.unmarshal
  unfold ParseOkAt at hparse
  cases hp : Parse.parse hash with
  | err o e =>
    rw [hp] at hparse
    simp only [] at hparse ⊢
    rw [uB_parseErr c hash t m o e hparse]
    exact ⟨m, _, m.heap, rfl, rfl⟩
  | nilInGroup =>
    rw [hp] at hparse
    simp only [] at hparse ⊢
    rw [uB_parseErr c hash t m 0 99 hparse]
    exact ⟨m, _, m.heap, rfl, rfl⟩
  | ok tree =>
    rw [hp] at hparse
    simp only [] at hparse ⊢
    obtain ⟨nodes', pv, lay, hext, hpfx, hrep, hndl, hshort, hsg, hgl⟩ := hparse
    obtain ⟨heap', tia, hpv, addrs, hgext, hti, hrepopt, hreps⟩ := hget { m with nodes := nodes' } rfl
    rw [uB_ok c hash t m nodes' _ heap' tia hext hgext, andThen_norm]
    have hti2 : ({ m with nodes := nodes', heap := heap' } : Mem).heap[tia]? =
        some (tiObj (.rtype t) { t with depth := 0 } hpv addrs ti.numReqValues) := hti
    rw [uC_spec c hash t _ pv _ tia _ _ hpv addrs _ hti2, andThen_norm, unmarshalTree_eq]
    have hLT' := hLT pv (lay.map FA.addr) tia addrs heap' hpv hti hreps
    have hlaylen : ((lay.map FA.addr).length : Int) = (tree.frags.length : Int) := by
      rw [List.length_map, all2_length hrep]
    -- the part after the prefix
    have hcont : ∀ (mm : Mem) (out0 : Vals) (v11 v20 : Val), mm.heap = heap' → mm.nodes = nodes' →
        CellsOk mm (ti.hashPrefix.toList ++ ti.fields) out0 → ZeroRest mm ti.fields →
        match (loopFields hash.length ti.fields
            { frags := tree.frags, numValues := tree.frags.length, numReq := ti.numReqValues, out := out0 } >>= tailModel) with
        | .error e => ∃ m' v heap'', procResult ((exec c uE14 mm (pEnv hash t (.root { t with depth := 0 })
              (.recd "Tree" [pv, .nodes (lay.map FA.addr)]) .nil (.ptr tia) (.int 0) (.int 0) .nil (.int ((lay.map FA.addr).length : Nat))
              (.int ti.numReqValues) v11 v20)).andThen (exec c uLT)) = .ok (m', [v]) ∧ absErrU heap'' v = some e
        | .ok out => ∃ m', procResult ((exec c uE14 mm (pEnv hash t (.root { t with depth := 0 })
              (.recd "Tree" [pv, .nodes (lay.map FA.addr)]) .nil (.ptr tia) (.int 0) (.int 0) .nil (.int ((lay.map FA.addr).length : Nat))
              (.int ti.numReqValues) v11 v20)).andThen (exec c uLT)) = .ok (m', [.nil]) ∧
            CellsOk m' (ti.hashPrefix.toList ++ ti.fields) out := by
      intro mm out0 v11 v20 hmh hmn hcells hzr
      have htim : mm.heap[tia]? = some (tiObj (.rtype t) { t with depth := 0 } hpv addrs ti.numReqValues) := by rw [hmh]; exact hti
      obtain ⟨env', hx, ⟨j, rfl⟩⟩ := uE14_spec c hash t mm pv (lay.map FA.addr) tia (.rtype t) _ hpv addrs _ htim { t with depth := 0 }
        ((lay.map FA.addr).length : Nat) ti.numReqValues v11 v20
      rw [hx, andThen_norm]
      have hinv : LInv heap' (lay.map FA.addr) c.fuel mm
          { frags := tree.frags, numValues := tree.frags.length, numReq := ti.numReqValues, out := out0 } 0 lay := by
        refine ⟨hmh, rfl, ?_, hndl, rfl, hshort⟩
        have : RepFA mm = RepFA { m with nodes := nodes' } := repFA_nodes_eq (by rw [hmn])
        rw [this]; exact hrep
      have := hLT' mm { frags := tree.frags, numValues := tree.frags.length, numReq := ti.numReqValues, out := out0 } 0 lay 0 .undef .undef j
        hinv hsg hgl hcells hzr
      simp only [hlaylen]
      cases hm : (loopFields hash.length ti.fields
          { frags := tree.frags, numValues := tree.frags.length, numReq := ti.numReqValues, out := out0 } >>= tailModel) with
      | error e =>
        rw [hm] at this
        obtain ⟨m', v, h1, h2⟩ := this
        exact ⟨m', v, heap', congrArg procResult h1, h2⟩
      | ok out =>
        rw [hm] at this
        obtain ⟨m', h1, h2⟩ := this
        exact ⟨m', congrArg procResult h1, h2⟩
    have hzero2 : ZeroRest { m with nodes := nodes', heap := heap' } (ti.hashPrefix.toList ++ ti.fields) := hzero
    have hcells0 : CellsOk { m with nodes := nodes', heap := heap' } (ti.hashPrefix.toList ++ ti.fields) [] := by
      intro fi hfi
      rw [hzero2 fi hfi]
      simp [valOf, fOfG_zeroG]
    have hzr0 : ZeroRest { m with nodes := nodes', heap := heap' } ti.fields := fun fi hfi => hzero2 fi (List.mem_append_right _ hfi)
    have hcases : ti.hashPrefix = none ∨ ∃ hp, ti.hashPrefix = some hp := by cases ti.hashPrefix <;> simp
    rcases hcases with hhp | ⟨hp, hhp⟩
    · rw [hhp] at hrepopt
      have hnil := repOpt_none hrepopt
      subst hnil
      cases hpf : tree.pfx with
      | none =>
        rw [hpf] at hpfx
        subst hpfx
        rw [uD_none_none c hash t _ _ tia t _ addrs _ _ _ _ hti2, andThen_norm]
        have hmodel : prefixModel ti hash.length tree = .ok [] := by simp [prefixModel, hhp, hpf]; rfl
        rw [hmodel]
        exact hcont _ [] .undef .undef rfl rfl hcells0 hzr0
      | some p =>
        rw [hpf] at hpfx
        obtain ⟨pa, rfl, hn, hpl⟩ := hpfx
        have hn2 : ({ m with nodes := nodes', heap := heap' } : Mem).nodes[pa]? = some (.pfx p) := hn
        rw [uD_none_some c hash t _ _ tia t _ addrs _ _ _ _ hti2 pa p hn2, andThen_ret]
        have hmodel : prefixModel ti hash.length tree = .error (.ute "prefix" p.length "" .excessivePrefix) := by
          simp [prefixModel, hhp, hpf]; rfl
        rw [hmodel]
        show ∃ m' v heap'', _ ∧ _
        exact ⟨_, _, heap', rfl, absErrU_topRec _ _ "prefix" _ _ _ _ (by simp [kindName, prefixLit]) (by decide)⟩
    · rw [hhp] at hrepopt
      obtain ⟨a, rfl, ha⟩ := repOpt_some hrepopt
      have ha2 : ({ m with nodes := nodes', heap := heap' } : Mem).heap[a]? = some (fiObj hp) := ha
      have hmemhp : hp ∈ ti.hashPrefix.toList ++ ti.fields := by rw [hhp]; simp
      have hokhp := hok hp hmemhp
      cases hpf : tree.pfx with
      | none =>
        rw [hpf] at hpfx
        subst hpfx
        rw [uD_some_none c hash t _ _ tia t _ addrs _ _ _ _ a hp hti2 ha2]
        cases hom : hp.opts.omitEmpty with
        | true =>
          simp only [if_true, andThen_norm]
          have hmodel : prefixModel ti hash.length tree = .ok [] := by simp [prefixModel, hhp, hpf, hom]; rfl
          rw [hmodel]
          exact hcont _ [] .undef .undef rfl rfl hcells0 hzr0
        | false =>
          simp only [Bool.false_eq_true, if_false, andThen_ret]
          have hmodel : prefixModel ti hash.length tree = .error (.ute "EOF" hash.length hp.name .prefixNotFound) := by
            simp [prefixModel, hhp, hpf, hom]; rfl
          rw [hmodel]
          show ∃ m' v heap'', _ ∧ _
          exact ⟨_, _, heap', rfl, absErrU_eofRec _ _ _ _ _ _ (by decide)⟩
      | some p =>
        rw [hpf] at hpfx
        obtain ⟨pa, rfl, hn, hpl⟩ := hpfx
        have hn2 : ({ m with nodes := nodes', heap := heap' } : Mem).nodes[pa]? = some (.pfx p) := hn
        have hzhp : cellRoot { m with nodes := nodes', heap := heap' } hp.index = some (zeroG (fiType hp)) := hzero2 hp hmemhp
        have hninl := hpinl hp hhp
        obtain ⟨mm1, cv, h8, hcv, hstore⟩ := field_store c c' hc hfuel { m with nodes := nodes', heap := heap' } pa tia a p 0 p.length hp
          prefixLit "prefix" t { t with depth := 0 } hokhp
          (fun m1 h1 => ext1M_nodeString_pfx m1 pa p (by rw [h1]; exact hn2))
          (fun m1 h1n h1h => ErrCalls.of_spec hc.err' m1 pa tia a 0 prefixLit "prefix" p.length hp t { t with depth := 0 } (.ptr a) addrs
            ti.numReqValues (ext1M_nodeType_pfx m1 pa p (by rw [h1n]; exact hn2)) ntypeString_0 (by simp [kindName, prefixLit])
            (ext1M_nodeEnd_pfx m1 pa p (by rw [h1n]; exact hn2)) (by rw [h1h]; exact ha2) (by rw [h1h]; exact hti2))
          (by rw [hninl]; intro h; cases h) ha2 hzhp hpl
        have hfb := hokhp.reach { m with nodes := nodes', heap := heap' } (by rw [hzhp]; rfl)
        obtain ⟨mz, hz8, hzsame, _⟩ := unmarshalIndirect_zero c' { m with nodes := nodes', heap := heap' } (fiType hp) hp.index
          (by rw [hfuel]; exact hokhp.depth) hzhp
        have hmm1 : mm1 = mz := by
          have h8' := h8
          rw [hc.call8, hz8] at h8'
          simp only [Res.ok.injEq, Prod.mk.injEq] at h8'
          exact h8'.1.symm
        have hheap1 : mm1.heap = ({ m with nodes := nodes', heap := heap' } : Mem).heap := by rw [hmm1]; exact hzsame.heap
        rw [prefixModel_some_some ti hash.length tree hp p hhp hpf]
        cases hnm : nodeModel hp "prefix" p.length p with
        | error e =>
          rw [hnm] at hstore
          obtain ⟨mm2, rv, h6, hh2, habs⟩ := hstore
          rcases uD_some_some c hash t _ _ tia t _ addrs _ _ _ _ a hp hti2 ha2 pa hfb mm1 mm2 cv rv h8 hcv hheap1 h6
            (Or.inr (by rw [habs]; rfl)) with ⟨_, hx⟩ | ⟨hnil, _⟩
          · rw [hx, andThen_ret]
            show ∃ m' v heap'', _ ∧ _
            exact ⟨mm2, rv, heap', rfl, habs⟩
          · rw [hnil] at habs; simp [absErrU] at habs
        | ok fv =>
          rw [hnm] at hstore
          obtain ⟨mm2, h6, hsame2, hroot2⟩ := hstore
          rw [hninl, deferMem_false] at h6
          rcases uD_some_some c hash t _ _ tia t _ addrs _ _ _ _ a hp hti2 ha2 pa hfb mm1 mm2 cv .nil h8 hcv hheap1 h6
            (Or.inl rfl) with ⟨hne, _⟩ | ⟨_, hx⟩
          · exact absurd rfl hne
          · rw [hx, andThen_norm]
            have hsv : ∃ s1, storeValue hp "prefix" p.length s1 = .ok fv := by
              unfold nodeModel at hnm
              cases hft : fieldText hp "prefix" p.length p with
              | error e => rw [hft] at hnm; cases hnm
              | ok q => rw [hft] at hnm; exact ⟨q.1, hnm⟩
            obtain ⟨s1, hs1⟩ := hsv
            have hfO : Examples.fOfG (gOfF fv) = fv := storeValue_shape hp _ _ _ _ hs1
            have hndl' : ∀ fi ∈ ti.fields, ¬ fi.index = hp.index := by
              intro fi hfi he
              rw [hhp] at hnd
              simp only [Option.toList, List.cons_append, List.nil_append, List.map_cons, List.nodup_cons] at hnd
              exact hnd.1 (by rw [← he]; exact List.mem_map_of_mem hfi)
            have hcells' : CellsOk mm2 (ti.hashPrefix.toList ++ ti.fields) ([] ++ [(hp.index, fv)]) := by
              intro f hf
              by_cases hidx : f.index = hp.index
              · rw [hidx, hroot2, valOf_append_same _ _ _ _ hidx]
                simp [ptrChain_fOfG, hfO]
              · rw [hsame2.other _ hidx, valOf_append_other _ _ _ _ hidx]
                exact hcells0 f hf
            have hzr' : ZeroRest mm2 ti.fields := by
              intro f hf
              rw [hsame2.other _ (hndl' f hf)]
              exact hzr0 f hf
            exact hcont mm2 [(hp.index, fv)] .nil cv hsame2.heap hsame2.nodes hcells' hzr'

include hc hfuel in
/-- When `parse.Parse` succeeds and `getTypeInfo` fails, `Unmarshal` returns the error of `getTypeInfo`. -/
theorem unmarshal_top_tiErr (hash : Bytes) (t : RType) (sn : String) (hk : t.kind = .structRef sn) (hd : 0 < t.depth) (hdf : t.depth < c.fuel)
    (m : Mem) (e : TagErr) (nodes' : List PNode) (tree : Val)
    (hp : c.ext "parse.Parse" m [.str hash] = .ok ({ m with nodes := nodes' }, [tree, .nil]))
    (hget : GetTypeInfoErr c.ext { m with nodes := nodes' } t e) :
    ∃ m' v, execProc c unmarshalTopIR m [.str hash, .dptr t] = .ok (m', [v]) ∧ absErrU m'.heap v = some (.tag e) := by
  obtain ⟨heap', v, hext, habs⟩ := hget
  refine ⟨{ m with nodes := nodes', heap := heap' }, .tiErr v, ?_, by simp [absErrU, habs]⟩
  rw [execProc_eq _ _ _ _ (by rfl)]
  have henv : ([.str hash, .dptr t] ++ List.replicate (unmarshalTopIR.nslots - unmarshalTopIR.nparams) .undef : Env) =
      pEnv hash t .undef .undef .undef .undef .undef .undef .undef .undef .undef .undef .undef := rfl
  rw [henv, uTop_split, uA_spec c c' hash t hc.call8 (by rw [hfuel]; exact hdf) hd sn hk m, andThen_norm]
  have hto : ext1 .typeOf (.dptr t) = .ok (.rtype t) := rfl
  have hext' : c.ext "getTypeInfo" { m with nodes := nodes' } [.rtype t] = .ok ({ m with nodes := nodes', heap := heap' }, [.nil, .tiErr v]) := hext
  have hB : exec c uB m (pEnv hash t (.root { t with depth := 0 }) .undef .undef .undef .undef .undef .undef .undef .undef .undef .undef) =
      .ret { m with nodes := nodes', heap := heap' } [.tiErr v] := by
    simp only [uB, unmarshalTopIR, Stmt.take, Stmt.drop, pEnv]
    ci_simp [hp, hto, hext']
  rw [hB]
  rfl
end top

end GoCrypt.CIR
