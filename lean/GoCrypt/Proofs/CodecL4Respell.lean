import GoCrypt.Proofs.CodecL2Respell

/-!
# C20, general form, layers L3–L4: inline fields and text codecs

`Accepts4.accepted_respell`: for an ARBITRARY struct type made of an optional string prefix and required
stand-alone fields — positional or named, inline or not, with or without one of the supported text
codecs — every string `Unmarshal` accepts is a tolerated respelling of what `Marshal` writes for the
value read, provided the `length:` options are consistent (`Accepts4.lenOk`): as in L2 for fields
without codec; a crypt(3) 24-bit integer field reads exactly four symbols of the hash alphabet
(`length:4`, `enc:hash`); a two-digit cost carries no `length:` or `length:2` (and is not inline).
-/

namespace GoCrypt.Codec
open Bytes GoCrypt.Parse Layers GoCrypt.Respell GoCrypt.CodecDomain GoCrypt.RefParse GoCrypt.Accept

namespace Accepts4

/-! ## Hypotheses -/

def lenOk (f : FieldInfo) : Bool :=
  match f.marshalText, f.unmarshalText with
  | .desInt, .desInt => f.opts.hasLength && f.opts.length == 4 && f.opts.enc == .hash
  | .twoDigit, .none => !f.opts.hasLength || (f.opts.length == 2 && !f.opts.inline)
  | .none, .none => Accepts.lenOk f
  | _, _ => true

/-- What reading one node needs of a field: a supported kind / codec with consistent `length:`; an
inline field has a length and no name. (Nothing about `omitempty` / `group`.) -/
def coreOk (f : FieldInfo) : Bool :=
  !f.opts.isPrefix && baseOk f && codecOk f && lenOk f &&
  (!f.opts.inline || (f.opts.param == [] && f.opts.hasLength))

/-- A required stand-alone field. -/
def fieldOk (f : FieldInfo) : Bool := !f.opts.omitEmpty && !f.opts.group && coreOk f

def acceptOk (ti : TypeInfo) : Bool :=
  ti.fields.all fieldOk &&
  (match ti.hashPrefix with | some hp => L1.prefixField hp && !hp.opts.hasLength | none => true) &&
  decide ((ti.hashPrefix.toList ++ ti.fields).map (·.index)).Nodup

/-! ## The crypt(3) integer: four symbols decode and encode back -/

theorem hashDecode_back_all :
    hashAlphabet.all (fun c => decide (hashDecode c < 64) && (hashAlphabet.getD (hashDecode c) 255 == c)) = true := by
  decide +kernel

theorem hashDecode_back' (c : UInt8) (h : c ∈ hashAlphabet) :
    hashDecode c < 64 ∧ hashAlphabet.getD (hashDecode c) 255 = c := by
  have := (List.all_eq_true.1 hashDecode_back_all) c h
  simpa using this

theorem desDecode_unfold (a b c d : UInt8) :
    desDecodeInt [a, b, c, d] =
      ((((0 + (hashDecode a <<< (0 * 6)) % 4294967296) % 4294967296 +
          (hashDecode b <<< (1 * 6)) % 4294967296) % 4294967296 +
        (hashDecode c <<< (2 * 6)) % 4294967296) % 4294967296 +
        (hashDecode d <<< (3 * 6)) % 4294967296) % 4294967296 := rfl

theorem desDecode_sum (A B C D : Nat) (ha : A < 64) (hb : B < 64) (hc : C < 64) (hd : D < 64) :
    ((((0 + (A <<< (0 * 6)) % 4294967296) % 4294967296 + (B <<< (1 * 6)) % 4294967296) % 4294967296 +
        (C <<< (2 * 6)) % 4294967296) % 4294967296 + (D <<< (3 * 6)) % 4294967296) % 4294967296 =
      A + B * 64 + C * 4096 + D * 262144 := by
  simp only [Nat.shiftLeft_eq, Nat.reduceMul, Nat.reducePow, Nat.zero_add, Nat.mul_one]
  omega

theorem desDecode4 (a b c d : UInt8) (ha : hashDecode a < 64) (hb : hashDecode b < 64)
    (hc : hashDecode c < 64) (hd : hashDecode d < 64) :
    desDecodeInt [a, b, c, d] =
      hashDecode a + hashDecode b * 64 + hashDecode c * 4096 + hashDecode d * 262144 := by
  rw [desDecode_unfold]
  exact desDecode_sum _ _ _ _ ha hb hc hd

theorem desEncode_unfold (v : Nat) :
    desEncodeInt v = [0, 1, 2, 3].map fun i => hashAlphabet.getD ((v >>> (i * 6)) &&& 63) 255 := by
  have hr : List.range 4 = [0, 1, 2, 3] := by decide
  unfold desEncodeInt
  rw [hr]

theorem shift_mask (v i p : Nat) (hp : 2 ^ (i * 6) = p) : (v >>> (i * 6)) &&& 63 = v / p % 64 := by
  rw [Nat.shiftRight_eq_div_pow, hp]
  exact Nat.and_two_pow_sub_one_eq_mod _ 6

theorem desEncode4 (v : Nat) :
    desEncodeInt v = [hashAlphabet.getD (v % 64) 255, hashAlphabet.getD (v / 64 % 64) 255,
      hashAlphabet.getD (v / 4096 % 64) 255, hashAlphabet.getD (v / 262144 % 64) 255] := by
  rw [desEncode_unfold]
  simp only [List.map]
  rw [shift_mask v 0 1 (by decide), shift_mask v 1 64 (by decide), shift_mask v 2 4096 (by decide),
    shift_mask v 3 262144 (by decide), Nat.div_one]

theorem desInt_back (s : Bytes) (hl : s.length = 4) (ha : ∀ c ∈ s, c ∈ hashAlphabet) :
    desDecodeInt s < 16777216 ∧ desEncodeInt (desDecodeInt s % 4294967296) = s := by
  match s, hl with
  | [a, b, c, d], _ =>
    obtain ⟨ha1, ha2⟩ := hashDecode_back' a (ha a (by simp))
    obtain ⟨hb1, hb2⟩ := hashDecode_back' b (ha b (by simp))
    obtain ⟨hc1, hc2⟩ := hashDecode_back' c (ha c (by simp))
    obtain ⟨hd1, hd2⟩ := hashDecode_back' d (ha d (by simp))
    rw [desDecode4 a b c d ha1 hb1 hc1 hd1]
    generalize hashDecode a = A at *
    generalize hashDecode b = B at *
    generalize hashDecode c = C at *
    generalize hashDecode d = D at *
    refine ⟨by omega, ?_⟩
    have hm : (A + B * 64 + C * 4096 + D * 262144) % 4294967296 = A + B * 64 + C * 4096 + D * 262144 :=
      Nat.mod_eq_of_lt (by omega)
    rw [hm, desEncode4]
    have e0 : (A + B * 64 + C * 4096 + D * 262144) % 64 = A := by omega
    have e1 : (A + B * 64 + C * 4096 + D * 262144) / 64 % 64 = B := by omega
    have e2 : (A + B * 64 + C * 4096 + D * 262144) / 4096 % 64 = C := by omega
    have e3 : (A + B * 64 + C * 4096 + D * 262144) / 262144 % 64 = D := by omega
    rw [e0, e1, e2, e3, ha2, hb2, hc2, hd2]

/-! ## One field -/

theorem fieldText_inline_inv (fi : FieldInfo) (k : String) (e : Nat) (s0 s rem : Bytes)
    (hinl : fi.opts.inline = true) (hp : fi.opts.param = []) (hl : fi.opts.hasLength = true)
    (h : fieldText fi k e s0 = .ok (s, rem)) :
    fi.opts.length ≤ s0.length ∧ s = s0.take fi.opts.length ∧ rem = s0.drop fi.opts.length ∧
      firstInvalid fi.opts.enc s = none := by
  unfold fieldText at h
  simp only [hp, ne_eq, not_true_eq_false, false_and, if_false, hl, hinl, if_true, bind, Except.bind,
    pure, Except.pure] at h
  by_cases hlen : s0.length < fi.opts.length
  · simp [hlen, throw, throwThe, MonadExceptOf.throw] at h
  · simp only [hlen, if_false] at h
    cases hfi : firstInvalid fi.opts.enc (s0.take fi.opts.length) with
    | some c => simp [hfi, throw, throwThe, MonadExceptOf.throw] at h
    | none =>
      simp only [hfi, Except.ok.injEq, Prod.mk.injEq] at h
      obtain ⟨rfl, rfl⟩ := h
      exact ⟨by omega, rfl, rfl, hfi⟩

/-- Two decimal digits denote a number below 100. -/
theorem parseUint10_two (s : Bytes) (bits v : Nat) (hl : s.length = 2)
    (h : Strconv.parseUint s 10 bits = .ok v) : v < 100 := by
  match s, hl with
  | [c1, c2], _ =>
    simp only [Strconv.parseUint, List.cons_ne_nil, if_false, Strconv.parseDigits] at h
    cases h1 : Strconv.digitVal c1 with
    | none => simp [h1] at h
    | some d1 =>
      simp only [h1] at h
      split at h
      · next hd1 =>
        split at h
        · cases h2 : Strconv.digitVal c2 with
          | none => simp [h2] at h
          | some d2 =>
            simp only [h2] at h
            split at h
            · next hd2 =>
              split at h
              · simp only [Except.ok.injEq] at h
                omega
              · cases h
            · cases h
        · cases h
      · cases h

theorem twoDigit_digits (n : Nat) : ∀ c ∈ twoDigit n, ∃ d, d < 36 ∧ c = Strconv.digitChar d := by
  intro c hc
  unfold twoDigit at hc
  split at hc
  · simp only [List.mem_cons] at hc
    rcases hc with rfl | hc
    · exact ⟨0, by decide, by decide⟩
    · obtain ⟨d, hd, rfl⟩ := Strconv.formatUint_mem n 10 (by decide) c hc
      exact ⟨d, by omega, rfl⟩
  · obtain ⟨d, hd, rfl⟩ := Strconv.formatUint_mem n 10 (by decide) c hc
    exact ⟨d, by omega, rfl⟩

/-- What `storeValue` stored, `marshalValue` writes back as a text with the same content — the very
same text when the field has a declared length. All supported codecs. -/
theorem marshal_back (f : FieldInfo) (k : String) (e : Nat) (s : Bytes) (fv : FVal)
    (hok : coreOk f = true) (hlen : f.opts.hasLength = true → s.length = f.opts.length)
    (hfi : firstInvalid f.opts.enc s = none) (hsv : storeValue f k e s = .ok fv) :
    ∃ t, marshalValue f fv = .ok t ∧ sameText f s t = true ∧ (f.opts.inline = true → t = s) := by
  simp only [coreOk, Bool.and_eq_true, Bool.or_eq_true, Bool.not_eq_eq_eq_not, Bool.not_true, beq_iff_eq] at hok
  obtain ⟨⟨⟨⟨hpfx, hb⟩, hc⟩, hl⟩, hil⟩ := hok
  have hih : f.opts.inline = true → f.opts.hasLength = true := by
    intro hi
    rcases hil with h | h
    · rw [hi] at h; cases h
    · exact h.2
  unfold codecOk at hc
  unfold lenOk at hl
  cases hm : f.marshalText <;> cases hu : f.unmarshalText <;>
    simp only [hm, hu, Bool.false_eq_true, Bool.and_eq_true, beq_iff_eq] at hc hl
  · -- none / none
    obtain ⟨t, h1, h2, h3⟩ := Accepts.marshal_back_plain f k e s fv hpfx hm hu hb hc hl hlen hfi hsv
    exact ⟨t, h1, h2, fun hi => h3 (hih hi)⟩
  · -- none / whitelist
    rename_i l
    simp only [storeValue, hu] at hsv
    split at hsv
    · simp only [Except.ok.injEq] at hsv
      subst hsv
      refine ⟨s, marshalValue_of ?_ hlen hfi, by simp [sameText], fun _ => rfl⟩
      simp [marshalRaw, hm, hpfx, hc]
    · cases hsv
  · -- whitelist / whitelist
    rename_i l' l
    simp only [storeValue, hu] at hsv
    split at hsv
    · simp only [Except.ok.injEq] at hsv
      subst hsv
      refine ⟨s, marshalValue_of ?_ hlen hfi, by simp [sameText], fun _ => rfl⟩
      simp [marshalRaw, hm]
    · cases hsv
  · -- desInt / desInt
    obtain ⟨⟨hhl, hl4⟩, henc⟩ := hl
    simp only [storeValue, hu, Except.ok.injEq] at hsv
    subst hsv
    have hs4 : s.length = 4 := by rw [hlen hhl, hl4]
    have hal : ∀ c ∈ s, c ∈ hashAlphabet := by
      rw [henc] at hfi
      exact (firstInvalid_none_iff .hash hashAlphabet rfl s).1 hfi
    obtain ⟨-, hback⟩ := desInt_back s hs4 hal
    refine ⟨s, marshalValue_of ?_ hlen hfi, by simp [sameText], fun _ => rfl⟩
    simp [marshalRaw, hm, hback]
  · -- twoDigit / none
    obtain ⟨hc1, hc2⟩ := hc
    unfold isUintKind at hc1
    cases hk : f.kind <;> simp only [hk, Bool.false_eq_true] at hc1
    rename_i bits
    simp only [storeValue, hu, hpfx, Bool.false_and, Bool.false_eq_true, if_false, hk] at hsv
    cases hp : Strconv.parseUint s f.opts.base bits with
    | error err => cases err <;> simp [hp] at hsv
    | ok v =>
      simp only [hp, Except.ok.injEq] at hsv
      subst hsv
      have hv := parseUint_lt s f.opts.base bits v hp
      have hfp := twoDigit_parse_gen v bits hv
      rw [hc2] at hp
      have hni : f.opts.inline = false := by
        cases hi : f.opts.inline with
        | false => rfl
        | true =>
          have hhl := hih hi
          simp only [Bool.or_eq_true, Bool.not_eq_eq_eq_not, Bool.not_true, Bool.and_eq_true, beq_iff_eq] at hl
          rcases hl with h | h
          · rw [hhl] at h; cases h
          · rw [hi] at h; cases h.2
      refine ⟨twoDigit v, marshalValue_of ?_ ?_ ?_, ?_, fun h => by rw [hni] at h; cases h⟩
      · simp [marshalRaw, hm]
      · intro hhl
        simp only [Bool.or_eq_true, Bool.not_eq_eq_eq_not, Bool.not_true, Bool.and_eq_true, beq_iff_eq] at hl
        rcases hl with h | h
        · rw [hhl] at h; cases h
        · have hs2 : s.length = 2 := by rw [hlen hhl, h.1]
          rw [h.1]
          exact twoDigit_length v (parseUint10_two s bits v hs2 hp)
      · apply Accepts.firstInvalid_of f.opts.enc s _ hfi
        intro c hc
        exact Or.inl (twoDigit_digits v c hc)
      · simp [sameText, isIntKind, hu, hk, hc2, hp, hfp]

/-- A node text `glue ++ cur` whose part `cur` was read by a (non-inline) field is a member spelling
the text Marshal writes for the value read, after the glue. -/
theorem read_memberIs (f : FieldInfo) (e : Nat) (glue cur : Bytes) (fv : FVal) (rem : Bytes)
    (hok : coreOk f = true) (hinl : f.opts.inline = false) (hkey : KeyOK f cur)
    (hr : readField f e cur = .ok (fv, rem)) :
    ∃ t, marshalValue f fv = .ok t ∧ memberIs glue f t (glue ++ cur) = true := by
  obtain ⟨s, hft, hsv⟩ := (readField_iff f e cur fv rem).1 hr
  obtain ⟨hs, -, hlen, hfi⟩ := Accepts.fieldText_plain_inv f "value" e cur s rem hinl hft
  obtain ⟨t, hm, hst, -⟩ := marshal_back f "value" e s fv hok hlen hfi hsv
  refine ⟨t, hm, ?_⟩
  unfold memberIs unname
  simp only [isPrefixOf_append_self, List.drop_left, Bool.true_and]
  unfold bodyOf at hs
  by_cases hp : f.opts.param = []
  · simp only [hp, ne_eq, not_true_eq_false, false_and, if_false] at hs
    subst hs
    simp [hp, hst]
  · have hk : (f.opts.param ++ [equals]).isPrefixOf cur = true := by
      rcases hkey with h | h
      · exact absurd h hp
      · exact h
    simp only [ne_eq, hp, not_false_eq_true, hk, and_self, if_true] at hs
    subst hs
    simp only [hp, ↓reduceIte, hk]
    exact hst

/-- An inline field cuts its text off the front of the node; Marshal writes back the very same text. -/
theorem read_inline (f : FieldInfo) (e : Nat) (cur : Bytes) (fv : FVal) (rem : Bytes)
    (hok : coreOk f = true) (hinl : f.opts.inline = true) (hr : readField f e cur = .ok (fv, rem)) :
    f.opts.param = [] ∧ cur = cur.take f.opts.length ++ rem ∧
      marshalValue f fv = .ok (cur.take f.opts.length) := by
  have hok' := hok
  simp only [coreOk, Bool.and_eq_true, Bool.or_eq_true, Bool.not_eq_eq_eq_not, Bool.not_true, beq_iff_eq] at hok'
  obtain ⟨hp, hl⟩ : f.opts.param = [] ∧ f.opts.hasLength = true := by
    rcases hok'.2 with h | h
    · rw [hinl] at h; cases h
    · exact h
  obtain ⟨s, hft, hsv⟩ := (readField_iff f e cur fv rem).1 hr
  obtain ⟨hle, hs, hrem, hfi⟩ := fieldText_inline_inv f "value" e cur s rem hinl hp hl hft
  have hlen : f.opts.hasLength = true → s.length = f.opts.length := by
    intro _; rw [hs, List.length_take]; omega
  obtain ⟨t, hm, -, hts⟩ := marshal_back f "value" e s fv hok hlen hfi hsv
  refine ⟨hp, ?_, ?_⟩
  · rw [hrem]; exact (List.take_append_drop _ _).symm
  · rw [← hs, ← hts hinl]; exact hm

/-! ## The loop, inverted -/

/-- What the loop read. `glue` is the part of the current piece already consumed by inline fields. -/
def Reads : List FieldInfo → Bytes → List Bytes → List FVal → Prop
  | [], glue, ps, vs => glue = [] ∧ ps = [] ∧ vs = []
  | f :: fs, glue, p :: ps, v :: vs =>
    comma ∉ p ∧ ∃ cur, p = glue ++ cur ∧ KeyOK f cur ∧ (∃ e rem, readField f e cur = .ok (v, rem)) ∧
      (if f.opts.inline then Reads fs (glue ++ cur.take f.opts.length) (p :: ps) vs else Reads fs [] ps vs)
  | _ :: _, _, _, _ => False

/-- The fragments left carry the pieces `ps`, the head node holding what is left of the first piece
after `glue`. -/
def Pre (glue : Bytes) (ps : List Bytes) : List Frag → Prop
  | .value v :: rest => ∃ ps', ps = (glue ++ v.val) :: ps' ∧ comma ∉ (glue ++ v.val) ∧ FragsRel ps' rest
  | frags => glue = [] ∧ FragsRel ps frags

theorem pre_of_rel (ps : List Bytes) (frags : List Frag) (h : FragsRel ps frags) : Pre [] ps frags := by
  match frags, h with
  | [], h => exact ⟨rfl, h⟩
  | .group vs :: rest, h => exact ⟨rfl, h⟩
  | .value v :: rest, h =>
    obtain ⟨ps', rfl, hc, hrel⟩ := Accepts.fragsRel_value ps v rest h
    exact ⟨ps', rfl, hc, hrel⟩

theorem fieldOk_parts (f : FieldInfo) (h : fieldOk f = true) :
    f.opts.omitEmpty = false ∧ f.opts.group = false ∧ coreOk f = true := by
  simp only [fieldOk, Bool.and_eq_true, Bool.not_eq_eq_eq_not, Bool.not_true] at h
  exact ⟨h.1.1, h.1.2, h.2⟩

theorem loop_reads (n : Nat) : ∀ (fs : List FieldInfo) (glue : Bytes) (ps : List Bytes) (frags : List Frag)
    (nv nr : Int) (out : Vals) (st' : LoopSt), (∀ f ∈ fs, fieldOk f = true) →
    loopFields n fs (mkSt frags nv nr out) = .ok st' → Pre glue ps frags → FinalOK st' →
    ∃ vs, Reads fs glue ps vs ∧ st'.out = out ++ Accepts.assigned fs vs
  | [], glue, ps, frags, nv, nr, out, st', _, hl, hpre, hfin => by
    rw [loop_nil_iff] at hl
    subst hl
    have hfr : frags = [] := by simpa [FinalOK, mkSt] using hfin
    subst hfr
    obtain ⟨hg, hrel⟩ := hpre
    have := Accepts.fragsRel_nil ps hrel
    subst this
    exact ⟨[], ⟨hg, rfl, rfl⟩, by simp [Accepts.assigned, mkSt]⟩
  | f :: fs, glue, ps, frags, nv, nr, out, st', hok, hl, hpre, hfin => by
    have hf := hok f (by simp)
    obtain ⟨ho, hg, hcore⟩ := fieldOk_parts f hf
    cases hi : f.opts.inline with
    | false =>
      obtain ⟨v, rest, fv, rem, hfr, hkey, hr, hl'⟩ := (loop_req n f fs frags nv nr out st' hg ho hi).1 hl
      subst hfr
      obtain ⟨ps', rfl, hc, hrel⟩ := hpre
      obtain ⟨vs, hreads, hout⟩ := loop_reads n fs [] ps' rest _ _ _ st' (fun g hg' => hok g (by simp [hg']))
        hl' (pre_of_rel ps' rest hrel) hfin
      refine ⟨fv :: vs, ⟨hc, v.val, rfl, hkey, ⟨v.fin, rem, hr⟩, ?_⟩, ?_⟩
      · simp only [hi, Bool.false_eq_true, if_false]; exact hreads
      · rw [hout]; simp [Accepts.assigned]
    | true =>
      obtain ⟨v, rest, fv, rem, hfr, hkey, hr, hl'⟩ :=
        (loop_req_inline n f fs frags nv nr out st' hg ho hi).1 hl
      subst hfr
      obtain ⟨ps', rfl, hc, hrel⟩ := hpre
      obtain ⟨-, hcur, -⟩ := read_inline f v.fin v.val fv rem hcore hi hr
      have hpre' : Pre (glue ++ v.val.take f.opts.length) ((glue ++ v.val) :: ps')
          (.value { v with val := rem } :: rest) := by
        refine ⟨ps', ?_, ?_, hrel⟩
        · show (glue ++ v.val) :: ps' = (glue ++ v.val.take f.opts.length ++ rem) :: ps'
          rw [List.append_assoc, ← hcur]
        · show comma ∉ glue ++ v.val.take f.opts.length ++ rem
          rw [List.append_assoc, ← hcur]; exact hc
      obtain ⟨vs, hreads, hout⟩ := loop_reads n fs _ _ _ _ _ _ st' (fun g hg' => hok g (by simp [hg']))
        hl' hpre' hfin
      refine ⟨fv :: vs, ⟨hc, v.val, rfl, hkey, ⟨v.fin, rem, hr⟩, ?_⟩, ?_⟩
      · simp only [hi, if_true]; exact hreads
      · rw [hout]; simp [Accepts.assigned]

theorem reads_length : ∀ (fs : List FieldInfo) (glue : Bytes) (ps : List Bytes) (vs : List FVal),
    Reads fs glue ps vs → fs.length = vs.length
  | [], _, _, _, h => by rw [h.2.2]; rfl
  | _ :: _, _, [], vs, h => by cases vs <;> exact h.elim
  | _ :: _, _, _ :: _, [], h => h.elim
  | f :: fs, glue, p :: ps, v :: vs, h => by
    obtain ⟨-, cur, -, -, -, hrest⟩ := h
    by_cases hi : f.opts.inline = true
    · simp only [hi, if_true] at hrest
      simp [reads_length fs _ _ vs hrest]
    · simp only [hi, Bool.false_eq_true, if_false] at hrest
      simp [reads_length fs _ _ vs hrest]

/-- `align` on what the loop read. -/
theorem align_reads (vals : Vals) : ∀ (fs : List FieldInfo) (glue : Bytes) (ps : List Bytes) (vs : List FVal)
    (fuel : Nat), (∀ f ∈ fs, fieldOk f = true) → Reads fs glue ps vs →
    (∀ x ∈ fs.zip vs, fieldVal vals x.1 = x.2) → fs.length < fuel →
    align vals fuel fs (ps.map (Respell.splitOn comma)) glue = true
  | [], glue, ps, vs, fuel, _, h, _, hfuel => by
    obtain ⟨rfl, rfl, -⟩ := h
    obtain ⟨k, rfl⟩ : ∃ k, fuel = k + 1 := ⟨fuel - 1, by simp at hfuel; omega⟩
    exact align_nil vals k
  | _ :: _, _, [], vs, _, _, h, _, _ => by cases vs <;> exact h.elim
  | _ :: _, _, _ :: _, [], _, _, h, _, _ => h.elim
  | f :: fs, glue, p :: ps, v :: vs, fuel, hok, hreads, hvals, hfuel => by
    obtain ⟨hc, cur, rfl, hkey, ⟨e, rem, hr⟩, hrest⟩ := hreads
    obtain ⟨k, rfl⟩ : ∃ k, fuel = k + 1 := ⟨fuel - 1, by simp at hfuel; omega⟩
    have hf := hok f (by simp)
    obtain ⟨ho, hg, hcore⟩ := fieldOk_parts f hf
    have hv : fieldVal vals f = v := hvals (f, v) (by simp)
    have hem := GoCrypt.Codec.emitted_of_required vals f ho
    have hsp : Respell.splitOn comma (glue ++ cur) = [glue ++ cur] :=
      splitOn_plain comma _ (fun c hc' e' => hc (e' ▸ hc'))
    cases hi : f.opts.inline with
    | false =>
      simp only [hi, Bool.false_eq_true, if_false] at hrest
      obtain ⟨t, hm, hmem⟩ := read_memberIs f e glue cur v rem hcore hi hkey hr
      simp only [List.map_cons, hsp]
      refine align_req vals k f fs _ _ glue t hg hem (by rw [hv]; exact hm) hi hmem ?_
      exact align_reads vals fs [] ps vs k (fun g hg' => hok g (by simp [hg'])) hrest
        (fun x hx => hvals x (by simp [hx])) (by simp at hfuel; omega)
    | true =>
      simp only [hi, if_true] at hrest
      obtain ⟨hp, -, hm⟩ := read_inline f e cur v rem hcore hi hr
      refine align_inline vals k f fs _ glue (cur.take f.opts.length) hg hem (by rw [hv]; exact hm) hi ?_
      have hn : named f (cur.take f.opts.length) = cur.take f.opts.length := by simp [named, hp]
      rw [hn]
      exact align_reads vals fs _ _ vs k (fun g hg' => hok g (by simp [hg'])) hrest
        (fun x hx => hvals x (by simp [hx])) (by simp at hfuel; omega)

/-! ## The theorem -/

theorem loopInverts (ti : TypeInfo) (hok : ∀ f ∈ ti.fields, fieldOk f = true) : Accepts.LoopInverts ti := by
  intro n ps frags out0 st' hl hrel hfin
  obtain ⟨vs, hreads, hout⟩ := loop_reads n ti.fields [] ps frags _ _ out0 st' hok hl (pre_of_rel ps frags hrel)
    hfin
  have hlen := reads_length _ _ _ _ hreads
  refine ⟨vs, hlen, ?_, hout, fun vals hv => align_reads vals ti.fields [] ps vs _ hok hreads hv (by omega)⟩
  intro hps
  subst hps
  cases hf : ti.fields with
  | nil => rfl
  | cons f fs =>
    rw [hf] at hreads
    cases vs <;> exact hreads.elim

theorem accepted_respell (ti : TypeInfo) (h : Bytes) (out : Vals) (hs : acceptOk ti = true)
    (hu : unmarshal ti h = .ok out) : respell ti (finalVals ti out) h = true := by
  simp only [acceptOk, Bool.and_eq_true, List.all_eq_true, decide_eq_true_eq] at hs
  obtain ⟨⟨hok, hpfx⟩, hnd⟩ := hs
  exact Accepts.accepted_respell_gen ti h out hpfx hnd (loopInverts ti hok) hu

/-! ## On the ladder of the round trip -/

/-- The `length:` conditions of the acceptance direction, layers L3–L4. -/
def lengthsOk (ti : TypeInfo) : Bool :=
  ti.fields.all lenOk && (match ti.hashPrefix with | some hp => !hp.opts.hasLength | none => true)

theorem acceptOk_of_L4 (ti : TypeInfo) (hs : L4.shapeOk ti = true) (hl : lengthsOk ti = true) :
    acceptOk ti = true := by
  simp only [L4.shapeOk, Bool.and_eq_true] at hs
  obtain ⟨⟨hwf, hu⟩, hlay⟩ := hs
  have hnp := inlineOk_noParam ti.fields (unambiguous_facts ti hu).inl
  simp only [tiWf, Bool.and_eq_true, List.all_eq_true, decide_eq_true_eq] at hwf
  obtain ⟨⟨⟨⟨hfw, hpf⟩, hnd⟩, -⟩, -⟩ := hwf
  simp only [List.all_eq_true] at hlay
  simp only [lengthsOk, Bool.and_eq_true, List.all_eq_true] at hl
  simp only [acceptOk, Bool.and_eq_true, List.all_eq_true, decide_eq_true_eq]
  refine ⟨⟨fun f hf => ?_, ?_⟩, hnd⟩
  · have h1 := hfw f hf
    have h2 := hlay f hf
    have h3 := hl.1 f hf
    simp only [fieldWf, Bool.and_eq_true, Bool.or_eq_true, Bool.not_eq_eq_eq_not, Bool.not_true] at h1
    simp only [L4.fieldOk, Bool.and_eq_true, Bool.not_eq_eq_eq_not, Bool.not_true] at h2
    obtain ⟨⟨⟨⟨-, hpfx⟩, hil⟩, hb⟩, hc⟩ := h1
    have hinl : (!f.opts.inline || (f.opts.param == [] && f.opts.hasLength)) = true := by
      cases hi : f.opts.inline with
      | false => rfl
      | true =>
        have hp := hnp f hf hi
        rcases hil with h | h
        · rw [hi] at h; cases h
        · simp [hp, h]
    simp only [fieldOk, coreOk, h2.1, h2.2, hpfx, hb, hc, h3, hinl, Bool.not_false, Bool.and_self]
  · cases hhp : ti.hashPrefix with
    | none => rfl
    | some hp =>
      simp only [hhp] at hpf hl
      simp [hpf, hl.2]

/-- C20 on layer L4 (required stand-alone fields: named or not, inline or not, any supported codec). -/
theorem accepted_respell_L4 (ti : TypeInfo) (h : Bytes) (out : Vals) (hs : L4.shapeOk ti = true)
    (hl : lengthsOk ti = true) (hu : unmarshal ti h = .ok out) :
    respell ti (finalVals ti out) h = true :=
  accepted_respell ti h out (acceptOk_of_L4 ti hs hl) hu

/-- C20 on layer L3 (L4 without text codecs, over a text alphabet). -/
theorem accepted_respell_L3 (ti : TypeInfo) (h : Bytes) (out : Vals) (hs : L3.shapeOk ti = true)
    (hl : lengthsOk ti = true) (hu : unmarshal ti h = .ok out) :
    respell ti (finalVals ti out) h = true :=
  accepted_respell_L4 ti h out (L3.to_L4 ti hs) hl hu

end Accepts4

end GoCrypt.Codec
