import GoCrypt.Proofs.A2IRIndex
import GoCrypt.Model.Kdf.Argon2
import GoCrypt.Proofs.Argon2Sched

/-!
# Block IR: what a calling context must know about each regenerated procedure

One `…Spec` per procedure: "calling it on a heap in which the arguments denote these model values yields
the heap in which the model's result has been stored".  The per-procedure lemmas take the specs of their
callees as hypotheses (for an arbitrary context `c`); `Props/Argon2IR.lean` instantiates them with the
contexts `ctxOf H program d` of the regenerated program.
-/

namespace GoCrypt.A2IR
open GoCrypt.Kdf GoCrypt.Argon2Sched

/-- every block of the memory has 128 words (`type block [128]uint64`) -/
def Blocks128 (B : Array Block) : Prop := ∀ k, k < B.size → B[k]!.size = 128

/-- BLAKE2b as the opaque primitive: the interpreter's `H size msg` is the model's `Prim.blake2b`. -/
structure B2Spec (H : Nat → Bytes → Bytes) : Prop where
  eq : ∀ (k : Nat) (msg : Bytes), H k msg = Prim.blake2b k msg

/-- `processBlock` (`xor = false`) / `processBlockXOR` (`xor = true`): `*out = processBlockGeneric(out, in1, in2, xor)`.
The three pointers may coincide (then the hypotheses force the corresponding arrays to be equal). -/
def ProcessBlockSpec (c : Ctx) (name : String) (xor : Bool) : Prop :=
  ∀ (h : Heap) (ro r1 r2 : Ref) (io i1 i2 : Nat) (ao a1 a2 : Array Block),
    h.get ro = some (.blocks ao) → h.get r1 = some (.blocks a1) → h.get r2 = some (.blocks a2) →
    io < ao.size → i1 < a1.size → i2 < a2.size →
    ao[io]!.size = 128 → a1[i1]!.size = 128 → a2[i2]!.size = 128 →
    c.call name h [.pblk ro io, .pblk r1 i1, .pblk r2 i2] =
      .ok (h.set ro (.blocks (ao.set! io (Argon2.processBlock ao[io]! a1[i1]! a2[i2]! xor))), [])

/-- The lifted `processSegment` closure: captured `B, time, memory, threads, mode, version, lanes, segments`,
then `n, slice, lane, wg`.  It stores the model's `processSegment` into `B` and decrements the counter. -/
def ProcessSegmentSpec (c : Ctx) : Prop :=
  ∀ (h : Heap) (rB rW : Ref) (B : Array Block) (k : Int)
    (time memory threads mode version lanes segments n slice lane : Nat),
    h.get rB = some (.blocks B) → h.get rW = some (.wg k) → 1 ≤ k →
    Geom lanes segments threads → B.size = threads * lanes → Blocks128 B → slice < 4 → lane < threads →
    c.call "processSegment" h
        [.blks rB, .u32 time, .u32 memory, .u32 threads, .int mode, .int version, .u32 lanes, .u32 segments,
         .u32 n, .u32 slice, .u32 lane, .pwg rW] =
      .ok ((h.set rB (.blocks (Argon2.processSegment B time memory threads mode version lanes segments n slice lane))).set
              rW (.wg (k - 1)), [])

/-- `processBlocks(B, time, memory, threads, mode, version)` on the ROUNDED memory. -/
def ProcessBlocksSpec (c : Ctx) : Prop :=
  ∀ (h : Heap) (rB : Ref) (B : Array Block) (time memory threads mode version : Nat),
    h.get rB = some (.blocks B) → Geom (memory / threads) (memory / threads / 4) threads →
    memory = threads * (memory / threads) → time < 4294967296 →
    B.size = memory → Blocks128 B →
    c.call "processBlocks" h [.blks rB, .u32 time, .u32 memory, .u32 threads, .int mode, .int version] =
      .ok (h.set rB (.blocks (Argon2.processBlocks B time memory threads mode version)), [])

end GoCrypt.A2IR
