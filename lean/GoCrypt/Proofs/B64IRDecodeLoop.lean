import GoCrypt.Proofs.B64IRDecode

/-!
# Buffer IR of `hash/base64le`: the loops of `Decode` and the whole function

Helper lemmas only.
-/

namespace GoCrypt.B64IR
open GoCrypt.Base64LE GoCrypt.Gen.base64leIR GoCrypt.Gen.base64le GoCrypt.Spec.Base64Bits

/-! ## Where a model step leaves the indices -/

theorem writeAt_size (D : Buf) (n : Nat) (l : List UInt8) : (writeAt D n l).size = D.size := by
  rw [← writeList_eq_writeAt, writeList_size]

theorem viaQ_inr (e : Encoding) (src : Buf) (si n : Nat) (D : Buf) (ph0 ph si' n' : Nat) (D' : Buf)
    (hn : n ≤ D.size) (hsi : si < src.size) (h : viaQ e src si n D ph0 = .inr (ph, si', n', D')) :
    ph = ph0 ∧ si < si' ∧ si' ≤ src.size ∧ n' ≤ D.size ∧ D'.size = D.size := by
  rw [viaQ_eq] at h
  cases hq : decodeQuantum e D n src si with
  | none => rw [hq] at h; cases h
  | some q =>
    have hp := dq_props e D n src si q hn (by omega) hq
    rw [hq] at h
    cases hqe : q.err with
    | some off => simp only [hqe] at h; cases h
    | none =>
      simp only [hqe] at h
      cases h
      exact ⟨rfl, hp.2.2.2 hsi, hp.2.2.1, hp.2.1, hp.1⟩

theorem step8_inr (e : Encoding) (src : Buf) (si n : Nat) (D : Buf) (ph si' n' : Nat) (D' : Buf)
    (h8 : src.size - si ≥ 8 ∧ D.size - n ≥ 8) (h : decodeStep e src 0 si n D = .inr (ph, si', n', D')) :
    ph = 0 ∧ si < si' ∧ si' ≤ src.size ∧ n' ≤ D.size ∧ D'.size = D.size := by
  rw [decodeStep_8 e src si n D h8] at h
  split at h
  · cases h
    exact ⟨rfl, by omega, by omega, by omega, writeAt_size _ _ _⟩
  · exact viaQ_inr e src si n D 0 ph si' n' D' (by omega) (by omega) h

theorem step4_inr (e : Encoding) (src : Buf) (phase si n : Nat) (D : Buf) (ph si' n' : Nat) (D' : Buf) (hph : phase ≤ 1)
    (h8 : ¬ (phase = 0 ∧ src.size - si ≥ 8 ∧ D.size - n ≥ 8))
    (h4 : src.size - si ≥ 4 ∧ D.size - n ≥ 4) (h : decodeStep e src phase si n D = .inr (ph, si', n', D')) :
    ph = 1 ∧ si < si' ∧ si' ≤ src.size ∧ n' ≤ D.size ∧ D'.size = D.size := by
  rw [decodeStep_4 e src phase si n D hph h8 h4] at h
  split at h
  · cases h
    exact ⟨rfl, by omega, by omega, by omega, writeAt_size _ _ _⟩
  · exact viaQ_inr e src si n D 1 ph si' n' D' (by omega) (by omega) h

theorem decodeLoop_stop (e : Encoding) (src : Buf) (phase si n : Nat) (dst : Buf) (r : DRes)
    (h : si < src.size) (hs : decodeStep e src phase si n dst = .inl r) :
    decodeLoop e src phase si n dst = r := by
  rw [decodeLoop]; simp [h, hs]

/-! ## One loop of `Decode`, generically -/

section generic
variable (c : Ctx) (e : Encoding) (H : Heap) (d dn s : Nat) (src : Buf)

/-- A loop of `Decode` whose iterations follow the model's `decodeStep` in phase `phase`, followed by
`rest`, computes the model's `decodeLoop` from that phase. -/
theorem decLoop_generic (phase : Nat) (C : Heap → Env → Res Bool) (B : Heap → Env → Out) (rest : Heap → Env → Out)
    (condP : Nat → Nat → Prop) [∀ n si, Decidable (condP n si)]
    (hC : ∀ D n si v6 v7 v8 v9 v10 v11 v12 v13 v14, n ≤ dn → si ≤ src.size →
      C (H.set d D) (dcEnv e d dn s src.size n si v6 v7 v8 v9 v10 v11 v12 v13 v14) = .ok (decide (condP n si)))
    (hlt : ∀ n si, condP n si → si < src.size)
    (hB : ∀ D n si v6 v7 v8 v9 v10 v11 v12 v13 v14, D.size = dn → n ≤ dn → si ≤ src.size → condP n si →
      DecStepRel e H d dn s src.size (decodeStep e src phase si n D)
        (B (H.set d D) (dcEnv e d dn s src.size n si v6 v7 v8 v9 v10 v11 v12 v13 v14)) ∧
      ∀ ph si' n' D', decodeStep e src phase si n D = .inr (ph, si', n', D') →
        ph = phase ∧ si < si' ∧ si' ≤ src.size ∧ n' ≤ dn ∧ D'.size = dn)
    (hrest : ∀ D n si v6 v7 v8 v9 v10 v11 v12 v13 v14, D.size = dn → n ≤ dn → si ≤ src.size → ¬ condP n si →
      procResult (rest (H.set d D) (dcEnv e d dn s src.size n si v6 v7 v8 v9 v10 v11 v12 v13 v14)) =
        ofD H d (decodeLoop e src phase si n D)) :
    ∀ (m si n : Nat) (D : Buf) (fuel : Nat) (v6 v7 v8 v9 v10 v11 v12 v13 v14 : Val), src.size - si = m → D.size = dn →
      n ≤ dn → si ≤ src.size → src.size - si ≤ fuel →
      procResult ((loop C B (exec c .skip) fuel (H.set d D)
        (dcEnv e d dn s src.size n si v6 v7 v8 v9 v10 v11 v12 v13 v14)).andThen rest) =
        ofD H d (decodeLoop e src phase si n D) := by
  intro m
  induction m using Nat.strongRecOn with
  | _ m ih =>
    intro si n D fuel v6 v7 v8 v9 v10 v11 v12 v13 v14 hm hD hn hsi hfuel
    by_cases hcond : condP n si
    · have hsilt := hlt n si hcond
      obtain ⟨f, rfl⟩ : ∃ f, fuel = f + 1 := ⟨fuel - 1, by omega⟩
      rw [loop_step _ _ _ _ _ _ (by rw [hC _ _ _ _ _ _ _ _ _ _ _ _ hn hsi]; simp [hcond])]
      obtain ⟨hrel, hprops⟩ := hB D n si v6 v7 v8 v9 v10 v11 v12 v13 v14 hD hn hsi hcond
      cases hstep : decodeStep e src phase si n D with
      | inl r =>
        rw [hstep] at hrel
        simp only [DecStepRel] at hrel
        rw [decodeLoop_stop e src phase si n D r hsilt hstep]
        cases hpan : r.panic
        · rw [hpan] at hrel
          simp only [Bool.false_eq_true, if_false] at hrel
          rw [hrel, afterBody_ret, andThen_ret, procResult_ret]
          simp [ofD, hpan]
        · rw [hpan] at hrel
          simp only [if_true] at hrel
          rw [hrel, afterBody_panic, andThen_panic, procResult_panic]
          simp [ofD, hpan]
      | inr r =>
        obtain ⟨ph, si', n', D'⟩ := r
        rw [hstep] at hrel
        obtain ⟨hph, hlt', hle', hn', hD'⟩ := hprops ph si' n' D' hstep
        simp only [DecStepRel] at hrel
        obtain ⟨w6, w7, w8, w9, w10, w11, w12, w13, w14, hout⟩ := hrel
        rw [hout, afterBody_norm, exec_skip, afterPost_norm,
          Base64LE.loop_step e src phase si n D ph si' n' D' hsilt hstep hlt', hph]
        exact ih (src.size - si') (by omega) si' n' D' f _ _ _ _ _ _ _ _ _ rfl hD' hn' hle' (by omega)
    · rw [loop_false _ _ _ _ _ _ (by rw [hC _ _ _ _ _ _ _ _ _ _ _ _ hn hsi]; simp [hcond]), andThen_norm]
      exact hrest D n si v6 v7 v8 v9 v10 v11 v12 v13 v14 hD hn hsi hcond

end generic

/-! ## The three loops -/

section loops
variable (c : Ctx) (e : Encoding) (hal : e.alphabet.length = 64) (H : Heap) (d dn s : Nat) (src : Buf)
  (hdl : d < H.length) (hs : H[s]? = some src) (hne : d ≠ s) (hdz : dn < 2 ^ 62) (hsz : src.size < 2 ^ 62)
  (hc : DecCtx c e H d dn s src)

include hdz hc in
/-- The quantum-by-quantum loop and the final `return`. -/
theorem decLoop3_run (D : Buf) (hD : D.size = dn) (n si : Nat) (hn : n ≤ dn) (hsi : si ≤ src.size)
    (v6 v7 v8 v9 v10 v11 v12 v13 v14 : Val) :
    procResult (exec c (decFor3 ;; decRet) (H.set d D) (dcEnv e d dn s src.size n si v6 v7 v8 v9 v10 v11 v12 v13 v14)) =
      ofD H d (decodeLoop e src 2 si n D) := by
  rw [exec_seq, decFor3_eq, exec_for]
  have hfuel : (eval (H.set d D) (dcEnv e d dn s src.size n si v6 v7 v8 v9 v10 v11 v12 v13 v14) decFor3.forFuel >>= asInt) =
      .ok ((1 + dn + src.size : Nat) : Int) := by
    simp only [decFor3, Stmt.forFuel, Stmt.head, Stmt.drop, decodeIR, dcEnv]
    b64_simp []
    congr 1
  rw [hfuel, bindR_ok, Int.toNat_natCast]
  refine decLoop_generic c e H d dn s src 2 _ _ (exec c decRet) (fun _ si => si < src.size) ?_ (fun _ _ h => h) ?_ ?_
    (src.size - si) si n D _ v6 v7 v8 v9 v10 v11 v12 v13 v14 rfl hD hn hsi (by omega)
  · intro D n si v6 v7 v8 v9 v10 v11 v12 v13 v14 _ _
    simp only [decFor3, Stmt.forCond, Stmt.head, Stmt.drop, decodeIR, dcEnv]
    b64_simp []
  · intro D n si v6 v7 v8 v9 v10 v11 v12 v13 v14 hD hn hsi hcond
    have hstep : decodeStep e src 2 si n D = viaQ e src si n D 2 :=
      decodeStep_slow e src 2 si n D (fun h => absurd h.1 (by decide)) (fun h => absurd h.1 (by decide))
    rw [hstep]
    refine ⟨decQ3_rel c e H d dn s src hdz hc D hD n si hn hsi _ _ _ _ _ _ _ _ _ 2, ?_⟩
    intro ph si' n' D' h
    have := viaQ_inr e src si n D 2 ph si' n' D' (by omega) hcond h
    omega
  · intro D n si v6 v7 v8 v9 v10 v11 v12 v13 v14 hD hn hsi hcond
    rw [Base64LE.loop_end e src 2 si n D (by omega)]
    simp only [decRet, Stmt.drop, decodeIR, dcEnv]
    b64_simp []
    simp [ofD, errVal]

include hal hdl hs hne hdz hsz hc in
/-- The 4-symbol loop and everything after it. -/
theorem decLoop2_run (D : Buf) (hD : D.size = dn) (n si : Nat) (hn : n ≤ dn) (hsi : si ≤ src.size)
    (v6 v7 v8 v9 v10 v11 v12 v13 v14 : Val) :
    procResult (exec c (decFor2 ;; decFor3 ;; decRet) (H.set d D) (dcEnv e d dn s src.size n si v6 v7 v8 v9 v10 v11 v12 v13 v14)) =
      ofD H d (decodeLoop e src 1 si n D) := by
  rw [exec_seq, decFor2_eq, exec_for]
  have hfuel : (eval (H.set d D) (dcEnv e d dn s src.size n si v6 v7 v8 v9 v10 v11 v12 v13 v14) decFor2.forFuel >>= asInt) =
      .ok ((1 + dn + src.size + 4 + 4 : Nat) : Int) := by
    simp only [decFor2, Stmt.forFuel, Stmt.head, Stmt.drop, decodeIR, dcEnv]
    b64_simp []
    congr 1
  rw [hfuel, bindR_ok, Int.toNat_natCast]
  refine decLoop_generic c e H d dn s src 1 _ _ (exec c (decFor3 ;; decRet))
    (fun n si => src.size - si ≥ 4 ∧ dn - n ≥ 4) ?_ (fun _ _ h => by omega) ?_ ?_
    (src.size - si) si n D _ v6 v7 v8 v9 v10 v11 v12 v13 v14 rfl hD hn hsi (by omega)
  · intro D n si v6 v7 v8 v9 v10 v11 v12 v13 v14 hn hsi
    simp only [decFor2, Stmt.forCond, Stmt.head, Stmt.drop, decodeIR, dcEnv]
    by_cases h1 : src.size - si ≥ 4
    · by_cases h2 : dn - n ≥ 4
      · b64_simp []; simp [h1, h2]
      · b64_simp []; simp [h1, h2]
    · b64_simp []; simp [h1]
  · intro D n si v6 v7 v8 v9 v10 v11 v12 v13 v14 hD hn hsi hcond
    have h8 : ¬ ((1 : Nat) = 0 ∧ src.size - si ≥ 8 ∧ D.size - n ≥ 8) := fun h => absurd h.1 (by decide)
    refine ⟨decBody2_rel c e hal H d dn s src hdl hs hne hdz hsz hc D hD n si hcond.1 hcond.2 _ _ _ _ _ _ _ _ _ 1
      (by decide) h8, ?_⟩
    intro ph si' n' D' h
    have := step4_inr e src 1 si n D ph si' n' D' (by decide) h8 ⟨hcond.1, by omega⟩ h
    omega
  · intro D n si v6 v7 v8 v9 v10 v11 v12 v13 v14 hD hn hsi hcond
    rw [decodeLoop_phase12 e src si n D (by rw [hD]; exact hcond)]
    exact decLoop3_run c e H d dn s src hdz hc D hD n si hn hsi _ _ _ _ _ _ _ _ _

include hal hdl hs hne hdz hsz hc in
/-- The 8-symbol loop and everything after it. -/
theorem decLoop1_run (D : Buf) (hD : D.size = dn) (n si : Nat) (hn : n ≤ dn) (hsi : si ≤ src.size)
    (v6 v7 v8 v9 v10 v11 v12 v13 v14 : Val) :
    procResult (exec c (decFor1 ;; decFor2 ;; decFor3 ;; decRet) (H.set d D)
      (dcEnv e d dn s src.size n si v6 v7 v8 v9 v10 v11 v12 v13 v14)) =
      ofD H d (decodeLoop e src 0 si n D) := by
  rw [exec_seq, decFor1_eq, exec_for]
  have hfuel : (eval (H.set d D) (dcEnv e d dn s src.size n si v6 v7 v8 v9 v10 v11 v12 v13 v14) decFor1.forFuel >>= asInt) =
      .ok ((1 + dn + src.size + 8 + 8 : Nat) : Int) := by
    simp only [decFor1, Stmt.forFuel, Stmt.head, Stmt.drop, decodeIR, dcEnv]
    b64_simp []
    congr 1
  rw [hfuel, bindR_ok, Int.toNat_natCast]
  refine decLoop_generic c e H d dn s src 0 _ _ (exec c (decFor2 ;; decFor3 ;; decRet))
    (fun n si => src.size - si ≥ 8 ∧ dn - n ≥ 8) ?_ (fun _ _ h => by omega) ?_ ?_
    (src.size - si) si n D _ v6 v7 v8 v9 v10 v11 v12 v13 v14 rfl hD hn hsi (by omega)
  · intro D n si v6 v7 v8 v9 v10 v11 v12 v13 v14 hn hsi
    simp only [decFor1, Stmt.forCond, Stmt.head, Stmt.drop, decodeIR, dcEnv]
    by_cases h1 : src.size - si ≥ 8
    · by_cases h2 : dn - n ≥ 8
      · b64_simp []; simp [h1, h2]
      · b64_simp []; simp [h1, h2]
    · b64_simp []; simp [h1]
  · intro D n si v6 v7 v8 v9 v10 v11 v12 v13 v14 hD hn hsi hcond
    refine ⟨decBody1_rel c e hal H d dn s src hdl hs hne hdz hsz hc D hD n si hcond.1 hcond.2 _ _ _ _ _ _ _ _ _, ?_⟩
    intro ph si' n' D' h
    have := step8_inr e src si n D ph si' n' D' ⟨hcond.1, by omega⟩ h
    omega
  · intro D n si v6 v7 v8 v9 v10 v11 v12 v13 v14 hD hn hsi hcond
    rw [decodeLoop_phase01 e src si n D (by rw [hD]; exact hcond)]
    exact decLoop2_run c e hal H d dn s src hdl hs hne hdz hsz hc D hD n si hn hsi _ _ _ _ _ _ _ _ _

end loops

/-! ## The whole function -/

theorem decPrefix_empty (c : Ctx) (e : Encoding) (H : Heap) (d dn s : Nat) (src : Buf) (hz : src.size = 0) :
    exec c decPrefix H ([encVal e, .slice ⟨d, 0, dn, dn⟩, .slice ⟨s, 0, src.size, src.size⟩] ++ List.replicate 12 .undef) =
      .ret H [.int 0, .err none] := by
  simp only [decPrefix, Stmt.take, decodeIR, encVal]
  b64_simp [hz]

theorem decPrefix_run (c : Ctx) (e : Encoding) (H : Heap) (d dn s : Nat) (src : Buf) (hz : src.size ≠ 0) :
    exec c decPrefix H ([encVal e, .slice ⟨d, 0, dn, dn⟩, .slice ⟨s, 0, src.size, src.size⟩] ++ List.replicate 12 .undef) =
      .norm H (dcEnv e d dn s src.size 0 0 .undef .undef .undef .undef .undef .undef .undef .undef .undef) := by
  simp only [decPrefix, Stmt.take, decodeIR, encVal, dcEnv]
  b64_simp [hz]

theorem decode_proc (c : Ctx) (e : Encoding) (hal : e.alphabet.length = 64) (H : Heap) (d s : Nat) (dst src : Buf)
    (hd : H[d]? = some dst) (hs : H[s]? = some src) (hne : d ≠ s) (hdz : dst.size < 2 ^ 62) (hsz : src.size < 2 ^ 62)
    (hc : DecCtx c e H d dst.size s src) :
    execProc c decodeIR H [encVal e, .slice ⟨d, 0, dst.size, dst.size⟩, .slice ⟨s, 0, src.size, src.size⟩] =
      if src.size = 0 then .ok (H, [.int 0, .err none]) else ofD H d (decodeLoop e src 0 0 0 dst) := by
  rw [execProc_eq c decodeIR H _ rfl, exec_take_drop c H _ 5]
  show procResult ((exec c decPrefix H ([encVal e, .slice ⟨d, 0, dst.size, dst.size⟩, .slice ⟨s, 0, src.size, src.size⟩] ++
    List.replicate 12 .undef)).andThen (exec c (decodeIR.body.drop 5))) = _
  by_cases hz : src.size = 0
  · rw [decPrefix_empty c e H d dst.size s src hz, procResult_andThen_ret, if_pos hz]
  · rw [decPrefix_run c e H d dst.size s src hz, andThen_norm, if_neg hz, decBody_split]
    have hH : H = H.set d dst := (heap_set_self H d dst hd).symm
    conv => lhs; rw [hH]
    exact decLoop1_run c e hal H d dst.size s src (heap_lt_of_get hd) hs hne hdz hsz hc dst rfl 0 0 (by omega) (by omega)
      _ _ _ _ _ _ _ _ _

end GoCrypt.B64IR
