import GoCrypt.Proofs.CodecIRUGroup

/-!
# Codec IR: the loop over `ti.Fields` of `Unmarshal` for ANY description (grouped params included) and the checks after it

`loop_general` (induction over the field list with `step_general` = the model's `loopFields`), `uTailG_spec` (statements 16–18 of
`Unmarshal` for any final state = `tailModel`), `loopTail_general` (`LoopTailOk`: loop + tail).  Helper lemmas only.
-/
namespace GoCrypt.CIR
open GoCrypt.Codec GoCrypt.Gen.codecIR GoCrypt.Parse
open GoCrypt.TIIR (RType Res kindNum fiType fiObj tiObj encVal optsVals Reps RepOpt)



section loopG
variable (c c' : Ctx) (hc : CallsU c c') (hfuel : c'.fuel = c.fuel)
  (hash : Bytes) (t t0 : RType) (pv : Val) (as : List Nat) (tia : Nat) (addrs : List Nat) (heap0 : TIIR.Heap)
  (st tt : RType) (hpv : TIIR.Val) (nreq : Int) (hti : heap0[tia]? = some (tiObj (.rtype st) tt hpv addrs nreq))
  (allF : List FieldInfo)

include hc hfuel hti in
/-- **The loop over `ti.Fields` = the model's `loopFields`**, for all descriptions (grouped params included). -/
theorem loop_general (fields : List FieldInfo) (hreps : Reps heap0 addrs fields)
    (hok : ∀ fi ∈ fields, FieldOk c t0 fi ∧ fi ∈ allF) (hnd : (fields.map (·.index)).Nodup) :
    ∀ (n i : Nat) (mm : Mem) (s : LoopSt) (fragIdx : Nat) (lay : List FA) (gv : Val) (ngv : Int) (fiv fragv : Val) (j : List Val),
      i ≤ fields.length → fields.length - i < n → LInvG heap0 as c.fuel mm s fragIdx lay gv ngv → GroupsLe c.fuel s.frags →
      CellsOk mm allF s.out → ZeroRest mm (fields.drop i) →
      match loopFields hash.length (fields.drop i) s with
      | .error e => ∃ m' v, loop (fun m env => eval c m env uLoop.forCond >>= asBool) (exec c uBody) (exec c uLoop.forPost) n mm
            (tEnv hash t t0 pv as tia addrs fragIdx ngv gv s.numValues s.numReq i fiv fragv j) = .ret m' [v] ∧ absErrU heap0 v = some e
      | .ok s' => ∃ (mm' : Mem) (env' : Env) (fragIdx' : Nat) (lay' : List FA) (gv' : Val) (ngv' : Int) (fiv' fragv' : Val),
          loop (fun m env => eval c m env uLoop.forCond >>= asBool) (exec c uBody) (exec c uLoop.forPost) n mm
            (tEnv hash t t0 pv as tia addrs fragIdx ngv gv s.numValues s.numReq i fiv fragv j) = .norm mm' env' ∧
          IsT env' hash t t0 pv as tia addrs fragIdx' ngv' gv' s'.numValues s'.numReq (fields.length : Nat) fiv' fragv' ∧
          LInvG heap0 as c.fuel mm' s' fragIdx' lay' gv' ngv' ∧ CellsOk mm' allF s'.out := by
  have hlen := reps_len hreps
  intro n
  induction n with
  | zero => intro i _ _ _ _ _ _ _ _ _ _ hlt; omega
  | succ n ih =>
    intro i mm s fragIdx lay gv ngv fiv fragv j hi hn hinv hgl hcells hzero
    by_cases hend : i = fields.length
    · have hcnd := (uLoop_cond c hash t t0 pv as tia addrs mm fragIdx ngv gv s.numValues s.numReq i fiv fragv j).trans
        (show Res.ok (decide (i < addrs.length)) = .ok false by simp; omega)
      rw [loop_false _ _ _ _ _ _ hcnd, hend, List.drop_length]
      simp only [loopFields, pure, Except.pure]
      exact ⟨mm, _, fragIdx, lay, gv, ngv, fiv, fragv, rfl, ⟨j, rfl⟩, hinv, hcells⟩
    · have hilt : i < fields.length := by omega
      have hcnd := (uLoop_cond c hash t t0 pv as tia addrs mm fragIdx ngv gv s.numValues s.numReq i fiv fragv j).trans
        (show Res.ok (decide (i < addrs.length)) = .ok true by simp; omega)
      rw [loop_step _ _ _ _ _ _ hcnd]
      obtain ⟨fi, hfi⟩ : ∃ fi, fields[i]? = some fi := ⟨fields[i], by simp [hilt]⟩
      obtain ⟨a, ha, hheap⟩ := reps_get hreps i fi hfi
      have hmemf : fi ∈ fields := List.mem_of_getElem? hfi
      obtain ⟨hfok, hall⟩ := hok fi hmemf
      have hdrop : fields.drop i = fi :: fields.drop (i + 1) := by
        rw [List.drop_eq_getElem_cons hilt]; congr 1
        have := List.getElem?_eq_getElem hilt; rw [this] at hfi; exact Option.some.inj hfi
      have hdist : ∀ fi' ∈ fields.drop (i + 1), ¬ fi'.index = fi.index := by
        have h2 : ((fields.drop i).map (·.index)).Nodup := by
          exact List.Nodup.sublist ((List.drop_sublist _ _).map _) hnd
        rw [hdrop, List.map_cons, List.nodup_cons] at h2
        intro fi' hfi' he
        exact h2.1 (by rw [← he]; exact List.mem_map_of_mem hfi')
      rw [hdrop] at hzero
      have hstep := step_general c c' hc hfuel hash t t0 pv as tia addrs heap0 st tt hpv nreq hti allF fi (fields.drop (i + 1)) a i ha hheap
        hfok hall hdist mm s fragIdx lay gv ngv hinv hgl hcells hzero fiv fragv j
      rw [hdrop, loopFields_cons]
      cases hsf : stepField hash.length fi s with
      | error e =>
        rw [hsf] at hstep
        obtain ⟨m', v, hx, habs⟩ := hstep
        exact ⟨m', v, by rw [hx]; rfl, habs⟩
      | ok s' =>
        rw [hsf] at hstep
        obtain ⟨mm', env', fragIdx', lay', gv', ngv', fragv', hx, ⟨j', rfl⟩, hinv', hgl', hcells', hzero'⟩ := hstep
        have hnext := ih (i + 1) mm' s' fragIdx' lay' gv' ngv' (.ptr a) fragv' j' (by omega) (by omega) hinv' hgl' hcells' hzero'
        have hcont : afterBody (exec c uLoop.forPost)
            (loop (fun m env => eval c m env uLoop.forCond >>= asBool) (exec c uBody) (exec c uLoop.forPost) n)
            (exec c uBody mm (tEnv hash t t0 pv as tia addrs fragIdx ngv gv s.numValues s.numReq i fiv fragv j)) =
            loop (fun m env => eval c m env uLoop.forCond >>= asBool) (exec c uBody) (exec c uLoop.forPost) n mm'
              (tEnv hash t t0 pv as tia addrs fragIdx' ngv' gv' s'.numValues s'.numReq (i + 1 : Nat) (.ptr a) fragv' j') := by
          rcases hx with hx | hx <;> rw [hx] <;> simp only [afterBody_norm, afterBody_cont, uLoop_post, afterPost_norm]
        rw [hcont]
        exact hnext
end loopG

/-! ## The checks after the loop, for any final state -/

/-- The last check (`if fragIdx < len(tree.Fragments)`) and `return nil`; slots 7/8 are not read. -/
theorem uTail2_spec (c : Ctx) (hash : Bytes) (t t0 : RType) (pv : Val) (as : List Nat) (tia : Nat) (addrs : List Nat) (heap0 : TIIR.Heap)
    (mm : Mem) (frags : List Frag) (k : Nat) (lay : List FA)
    (ngv : Int) (gv : Val) (nv nr i : Int) (fiv fragv : Val) (j : List Val) :
    as.drop k = lay.map FA.addr → All2 (RepFA mm) lay frags →
    match frags with
    | [] => exec c (uTail.drop 1) mm (tEnv hash t t0 pv as tia addrs k ngv gv nv nr i fiv fragv j) = .ret mm [.nil]
    | f :: _ => ∃ v, exec c (uTail.drop 1) mm (tEnv hash t t0 pv as tia addrs k ngv gv nv nr i fiv fragv j) = .ret mm [v] ∧
        absErrU heap0 v = some (.ute (fragKind f) (fragEnd f) "" .excessiveFragment) := by
  intro haddr hfrags
  cases frags with
  | nil =>
    have hlay : lay = [] := all2_right_nil hfrags
    have hle : ¬ (k < as.length) := by
      rw [hlay, List.map_nil, List.drop_eq_nil_iff] at haddr; omega
    simp only [uTail, unmarshalTopIR, Stmt.drop, tEnv]
    ci_simp [tree_frags, hle]
  | cons f frest =>
    obtain ⟨fa, lay', hlay, hrep, _⟩ := all2_right_cons hfrags
    rw [hlay, List.map_cons] at haddr
    have hlt : k < as.length := by
      rcases Nat.lt_or_ge k as.length with h | h
      · exact h
      · rw [List.drop_eq_nil_iff.mpr h] at haddr; cases haddr
    have hfa : as[k]? = some fa.addr := by
      rw [List.drop_eq_getElem_cons hlt] at haddr
      rw [List.getElem?_eq_getElem hlt]; congr 1; exact (List.cons.inj haddr).1
    obtain ⟨hnt, hend⟩ := repFA_facts mm fa f hrep
    cases f with
    | value v =>
      refine ⟨topRec valueLit v.fin t excessiveFragmentLit, ?_, absErrU_topRec _ _ _ _ _ _ _ (by simp [kindName, valueLit, fragKind]) (by decide)⟩
      simp only [uTail, unmarshalTopIR, Stmt.drop, tEnv]
      ci_simp [tree_frags, hlt, indexVal_nodes as k fa.addr hfa, hnt, hend, ntypeString_2, ext1_typeOf_dptr, topRec, excessiveFragmentLit,
        fragEnd]
    | group g =>
      refine ⟨topRec [103, 114, 111, 117, 112] (groupEnd g) t excessiveFragmentLit, ?_,
        absErrU_topRec _ _ _ _ _ _ _ (by simp [kindName, fragKind]) (by decide)⟩
      simp only [uTail, unmarshalTopIR, Stmt.drop, tEnv]
      ci_simp [tree_frags, hlt, indexVal_nodes as k fa.addr hfa, hnt, hend, ntypeString_1, ext1_typeOf_dptr, topRec, excessiveFragmentLit,
        fragEnd]

/-- `if group != nil {…}` with no group open: nothing happens. -/
theorem uTail1_nil (c : Ctx) (hash : Bytes) (t t0 : RType) (pv : Val) (as : List Nat) (tia : Nat) (addrs : List Nat)
    (mm : Mem) (fragIdx ngv : Int) (nv nr i : Int) (fiv fragv : Val) (j : List Val) :
    exec c (uTail.take 1) mm (tEnv hash t t0 pv as tia addrs fragIdx ngv .nil nv nr i fiv fragv j) =
      .norm mm (tEnv hash t t0 pv as tia addrs fragIdx ngv .nil nv nr i fiv fragv j) := by
  simp only [uTail, unmarshalTopIR, Stmt.drop, Stmt.take, tEnv]
  ci_simp

/-- `if group != nil {…}` with a group open that still wants values: `excessive fragment` at the group. -/
theorem uTail1_excess (c : Ctx) (hash : Bytes) (t t0 : RType) (pv : Val) (as : List Nat) (tia : Nat) (addrs : List Nat)
    (mm : Mem) (ga : Nat) (ms : List Nat) (hga : mm.nodes[ga]? = some (.group ms)) (e : Nat)
    (hend : ext1M mm .nodeEnd (.node ga) = .ok (.int e))
    (fragIdx ngv : Int) (h0lt : 0 < ngv) (nv nr i : Int) (fiv fragv : Val) (j : List Val) :
    exec c (uTail.take 1) mm (tEnv hash t t0 pv as tia addrs fragIdx ngv (.node ga) nv nr i fiv fragv j) =
      .ret mm [topRec [103, 114, 111, 117, 112] e t excessiveFragmentLit] := by
  simp only [uTail, unmarshalTopIR, Stmt.drop, Stmt.take, tEnv]
  ci_simp [isNilVal_node, h0lt, ext1M_nodeType_group mm ga ms hga, hend, ntypeString_1, ext1_typeOf_dptr, topRec, excessiveFragmentLit]

/-- `if group != nil {…}` with a used-up group open: `fragIdx++`. -/
theorem uTail1_close (c : Ctx) (hash : Bytes) (t t0 : RType) (pv : Val) (as : List Nat) (tia : Nat) (addrs : List Nat)
    (mm : Mem) (ga : Nat) (fragIdx : Nat) (ngv : Int) (h0lt : ¬ 0 < ngv) (nv nr i : Int) (fiv fragv : Val) (j : List Val) :
    exec c (uTail.take 1) mm (tEnv hash t t0 pv as tia addrs fragIdx ngv (.node ga) nv nr i fiv fragv j) =
      .norm mm (tEnv hash t t0 pv as tia addrs (fragIdx + 1 : Nat) ngv (.node ga) nv nr i fiv fragv j) := by
  simp only [uTail, unmarshalTopIR, Stmt.drop, Stmt.take, tEnv]
  ci_simp [isNilVal_node, h0lt]

/-- **After the loop**, for any final state: an open group must be used up (else `excessive fragment` at the group) and is closed;
a fragment left over is `excessive fragment`; otherwise `nil` — the model's `tailModel`. -/
theorem uTailG_spec (c : Ctx) (hash : Bytes) (t t0 : RType) (pv : Val) (as : List Nat) (tia : Nat) (addrs : List Nat) (heap0 : TIIR.Heap)
    (mm : Mem) (s : LoopSt) (fragIdx : Nat) (lay : List FA) (gv : Val) (ngv : Int) (hinv : LInvG heap0 as c.fuel mm s fragIdx lay gv ngv)
    (nv nr i : Int) (fiv fragv : Val) (j : List Val) :
    match tailModel s with
    | .error e => ∃ v, exec c uTail mm (tEnv hash t t0 pv as tia addrs fragIdx ngv gv nv nr i fiv fragv j) = .ret mm [v] ∧ absErrU heap0 v = some e
    | .ok out => exec c uTail mm (tEnv hash t t0 pv as tia addrs fragIdx ngv gv nv nr i fiv fragv j) = .ret mm [.nil] ∧ out = s.out := by
  rw [exec_take_drop c mm _ 1 uTail]
  cases hsg : s.group with
  | none =>
    obtain ⟨_, hgv⟩ := hinv.toLInv hsg
    subst hgv
    rw [uTail1_nil, andThen_norm]
    have h2 := uTail2_spec c hash t t0 pv as tia addrs heap0 mm s.frags fragIdx lay ngv .nil nv nr i fiv fragv j hinv.addr hinv.frags
    unfold tailModel
    rw [hsg]
    simp only [bind, Except.bind, pure, Except.pure]
    cases hfr : s.frags with
    | nil =>
      rw [hfr] at h2
      exact ⟨h2, rfl⟩
    | cons f rest =>
      rw [hfr] at h2
      exact h2
  | some g =>
    have hg := hinv.group
    unfold GroupRep at hg
    rw [hsg] at hg
    obtain ⟨hnum, ga, ms, hgv, hga, hne, hallg, fa, lay', f, rest, hlay, hfr, _⟩ := hg
    subst hgv
    obtain ⟨_, hend⟩ := repFA_facts mm (.group ga ms) (.group g) ⟨hga, hne, hallg⟩
    have hend' : ext1M mm .nodeEnd (.node ga) = .ok (.int (groupEnd g)) := hend
    unfold tailModel
    rw [hsg]
    by_cases h0 : s.numGroupValues > 0
    · have h0lt : 0 < ngv := by omega
      rw [uTail1_excess c hash t t0 pv as tia addrs mm ga ms hga (groupEnd g) hend' fragIdx ngv h0lt, andThen_ret]
      simp only [if_pos h0, bind, Except.bind, throw, throwThe, MonadExceptOf.throw]
      exact ⟨_, rfl, absErrU_topRec _ _ _ _ _ _ _ (by simp [kindName]) (by decide)⟩
    · have h0lt : ¬ 0 < ngv := by omega
      rw [uTail1_close c hash t t0 pv as tia addrs mm ga fragIdx ngv h0lt, andThen_norm]
      have haddr := hinv.addr
      rw [hlay, List.map_cons] at haddr
      have hlt : fragIdx < as.length := by
        rcases Nat.lt_or_ge fragIdx as.length with h | h
        · exact h
        · rw [List.drop_eq_nil_iff.mpr h] at haddr; cases haddr
      have hdrop1 : as.drop (fragIdx + 1) = lay'.map FA.addr := by
        rw [List.drop_eq_getElem_cons hlt] at haddr; exact (List.cons.inj haddr).2
      have hfrags := hinv.frags
      rw [hlay, hfr] at hfrags
      obtain ⟨_, _, hcons, _, hreptl⟩ := all2_cons_inv hfrags
      obtain ⟨_, hrest⟩ := List.cons.inj hcons
      subst hrest
      have h2 := uTail2_spec c hash t t0 pv as tia addrs heap0 mm rest (fragIdx + 1) lay' ngv (.node ga) nv nr i fiv fragv j hdrop1 hreptl
      simp only [if_neg h0, bind, Except.bind, pure, Except.pure, hfr, List.tail_cons]
      cases rest with
      | nil => exact ⟨h2, rfl⟩
      | cons f' rest' => exact h2

section loopTailG
variable (c c' : Ctx) (hc : CallsU c c') (hfuel : c'.fuel = c.fuel)
  (hash : Bytes) (t t0 : RType) (pv : Val) (as : List Nat) (tia : Nat) (addrs : List Nat) (heap0 : TIIR.Heap)
  (st tt : RType) (hpv : TIIR.Val) (nreq : Int) (hti : heap0[tia]? = some (tiObj (.rtype st) tt hpv addrs nreq))
  (allF : List FieldInfo)

include hc hfuel hti in
/-- The loop and the checks after it, for any field list. -/
theorem loopTail_general (fields : List FieldInfo) (hreps : Reps heap0 addrs fields)
    (hok : ∀ fi ∈ fields, FieldOk c t0 fi ∧ fi ∈ allF) (hnd : (fields.map (·.index)).Nodup) (hfl : fields.length < c.fuel) :
    LoopTailOk c hash t t0 pv as tia addrs heap0 allF fields := by
  intro mm s fragIdx lay ngv fiv fragv j hinv hsg hgl hcells hzero
  have hl := loop_general c c' hc hfuel hash t t0 pv as tia addrs heap0 st tt hpv nreq hti allF fields hreps hok hnd c.fuel 0 mm s fragIdx
    lay .nil ngv fiv fragv j (Nat.zero_le _) (by omega) (LInvG.ofLInv hinv hsg ngv) hgl hcells (by simpa using hzero)
  rw [List.drop_zero] at hl
  rw [uLT_split]
  cases hlf : loopFields hash.length fields s with
  | error e =>
    rw [hlf] at hl
    obtain ⟨m', v, hx, habs⟩ := hl
    show ∃ m' v, _ ∧ _
    exact ⟨m', v, by
      have hx' : loop (fun m env => eval c m env uLoop.forCond >>= asBool) (exec c uBody) (exec c uLoop.forPost) c.fuel mm
          (tEnv hash t t0 pv as tia addrs fragIdx ngv .nil s.numValues s.numReq 0 fiv fragv j) = .ret m' [v] := hx
      rw [hx']; rfl, habs⟩
  | ok s' =>
    rw [hlf] at hl
    obtain ⟨mm', env', fragIdx', lay', gv', ngv', fiv', fragv', hx, ⟨j', rfl⟩, hinv', hcells'⟩ := hl
    have hx' : loop (fun m env => eval c m env uLoop.forCond >>= asBool) (exec c uBody) (exec c uLoop.forPost) c.fuel mm
        (tEnv hash t t0 pv as tia addrs fragIdx ngv .nil s.numValues s.numReq 0 fiv fragv j) = .norm mm' _ := hx
    rw [hx', andThen_norm]
    have htail := uTailG_spec c hash t t0 pv as tia addrs heap0 mm' s' fragIdx' lay' gv' ngv' hinv' s'.numValues s'.numReq
      (fields.length : Nat) fiv' fragv' j'
    show match tailModel s' with
      | .error e => ∃ m' v, _ ∧ _
      | .ok out => ∃ mm'', _ ∧ _
    cases htm : tailModel s' with
    | error e =>
      rw [htm] at htail
      obtain ⟨v, h1, h2⟩ := htail
      exact ⟨mm', v, h1, h2⟩
    | ok out =>
      rw [htm] at htail
      obtain ⟨h1, h2⟩ := htail
      exact ⟨mm', h1, by rw [h2]; exact hcells'⟩
end loopTailG

end GoCrypt.CIR
