import GoCrypt.Spec.CryptSpecs2
import GoCrypt.Model.Scheme
import GoCrypt.Proofs.DesIter
import GoCrypt.Proofs.Guards

/-!
# DES-crypt / BSDi at the crypt(3) layer: key bytes, salt number, key folding, output digits

Everything here is independent of the inside of DES; the iteration property of `descrypt.Encrypt`
(`rounds` passes between one initial and one final permutation = `rounds` complete encryptions) is
proved from the Go tables in `Proofs/DesIter.lean` (via `Proofs/DesBits.lean`, `Proofs/DesTables.lean`).
-/

namespace GoCrypt.C03bProofs
open GoCrypt.Kdf GoCrypt.CryptSpec2 GoCrypt

/-! ## the key bytes -/

theorem and127' (x : Nat) : x &&& 127 = x % 128 := Nat.and_two_pow_sub_one_eq_mod x 7
theorem toNat_ofNat_lt' (n : Nat) (h : n < 256) : (UInt8.ofNat n).toNat = n := UInt8.toNat_ofNat_of_lt' h
theorem range8' : List.range 8 = [0, 1, 2, 3, 4, 5, 6, 7] := rfl
theorem keyByte_toNat (x : Nat) : (UInt8.ofNat (x % 128 * 2)).toNat = x % 128 * 2 := toNat_ofNat_lt' _ (by omega)

theorem ofNat0_toNat : (UInt8.ofNat 0).toNat = 0 := rfl

macro "des_key_tac" : tactic => `(tactic|
  (simp only [Des.desKey, List.take, List.zipIdx_cons, List.zipIdx_nil, List.foldl_cons, List.foldl_nil, UInt64.toNat_add,
    UInt64.toNat_shiftLeft, UInt8.toNat_toUInt64, UInt8.toNat_and, UInt64.toNat_ofNat', Nat.shiftLeft_eq,
    UInt8.toNat_ofNat, UInt64.toNat_ofNat, Nat.reduceMul, Nat.reduceSub, Nat.reduceMod, Nat.reducePow, Nat.reduceAdd, and127',
    beNat, desKeyBytes, range8', List.map_cons, List.map_nil, List.getD_cons_zero, List.getD_cons_succ, List.getD_nil,
    keyByte_toNat, ofNat0_toNat, UInt8.toNat_zero, Nat.zero_add, Nat.zero_mod, Nat.zero_mul, Nat.add_zero]
   try omega))

theorem desKey_toNat (pw : Bytes) : (Des.desKey pw).toNat = beNat (desKeyBytes pw) := by
  match pw with
  | [] => des_key_tac
  | [x0] => des_key_tac
  | [x0, x1] => des_key_tac
  | [x0, x1, x2] => des_key_tac
  | [x0, x1, x2, x3] => des_key_tac
  | [x0, x1, x2, x3, x4] => des_key_tac
  | [x0, x1, x2, x3, x4, x5] => des_key_tac
  | [x0, x1, x2, x3, x4, x5, x6] => des_key_tac
  | x0 :: x1 :: x2 :: x3 :: x4 :: x5 :: x6 :: x7 :: rest => des_key_tac

/-! ## the result: 8 bytes, 11 digits -/



theorem be64_eq (v : UInt64) : Des.be64 v = blockBytes v := by
  unfold Des.be64 blockBytes
  simp only [range8', List.map_cons, List.map_nil, List.cons.injEq, and_true]
  refine ⟨?_, ?_, ?_, ?_, ?_, ?_, ?_, ?_⟩ <;>
  · rw [← UInt8.toNat_inj, UInt64.toNat_toUInt8, UInt64.toNat_shiftRight, UInt64.toNat_ofNat', Nat.shiftRight_eq_div_pow]
    rw [UInt8.toNat_ofNat_of_lt' (Nat.mod_lt _ (by decide))]

theorem a64_eq : Codec.hashAlphabet = a64 := by decide

theorem or3 (a b c : Nat) (hb : b < 256) (hc : c < 256) : a <<< 16 ||| b <<< 8 ||| c = a * 65536 + b * 256 + c := by
  have h1 : a <<< 16 ||| b <<< 8 = (a * 256 + b) <<< 8 := by
    have : b <<< 8 < 2 ^ 16 := by rw [Nat.shiftLeft_eq]; omega
    rw [← Nat.shiftLeft_add_eq_or_of_lt this, Nat.shiftLeft_eq, Nat.shiftLeft_eq, Nat.shiftLeft_eq]; omega
  rw [h1, ← Nat.shiftLeft_add_eq_or_of_lt (by omega : c < 2 ^ 8), Nat.shiftLeft_eq]; omega

theorem or2 (a b : Nat) (hb : b < 256) : a <<< 16 ||| b <<< 8 = a * 65536 + b * 256 := by
  have := or3 a b 0 hb (by decide)
  simpa using this

theorem and63' (x : Nat) : x &&& 63 = x % 64 := Nat.and_two_pow_sub_one_eq_mod x 6


theorem cons_congr {α : Type} {a b : α} {l l' : List α} (h1 : a = b) (h2 : l = l') : a :: l = b :: l' := by rw [h1, h2]
theorem toNat_ofNat_mod (n : Nat) : (UInt8.ofNat (n % 256)).toNat = n % 256 := UInt8.toNat_ofNat_of_lt' (Nat.mod_lt _ (by decide))

theorem range11 : List.range 11 = [0, 1, 2, 3, 4, 5, 6, 7, 8, 9, 10] := rfl

theorem stdEncode_8 (al : Bytes) (b0 b1 b2 b3 b4 b5 b6 b7 : UInt8) :
    stdEncode al [b0, b1, b2, b3, b4, b5, b6, b7] =
      (List.range 11).map fun i => al.getD (beNat [b0, b1, b2, b3, b4, b5, b6, b7] * 4 / 64 ^ (10 - i) % 64) 0 := by
  have h0 := UInt8.toNat_lt b0
  have h1 := UInt8.toNat_lt b1
  have h2 := UInt8.toNat_lt b2
  have h3 := UInt8.toNat_lt b3
  have h4 := UInt8.toNat_lt b4
  have h5 := UInt8.toNat_lt b5
  have h6 := UInt8.toNat_lt b6
  have h7 := UInt8.toNat_lt b7
  simp only [range11, List.map_cons, List.map_nil, stdEncode, beNat, List.foldl_cons, List.foldl_nil,
    or3 _ _ _ h1 h2, or3 _ _ _ h4 h5, or2 _ _ h7, and63', Nat.shiftRight_eq_div_pow, Nat.reducePow, Nat.reduceSub]
  refine cons_congr (congrArg (fun n => al.getD n 0) (by omega)) ?_
  refine cons_congr (congrArg (fun n => al.getD n 0) (by omega)) ?_
  refine cons_congr (congrArg (fun n => al.getD n 0) (by omega)) ?_
  refine cons_congr (congrArg (fun n => al.getD n 0) (by omega)) ?_
  refine cons_congr (congrArg (fun n => al.getD n 0) (by omega)) ?_
  refine cons_congr (congrArg (fun n => al.getD n 0) (by omega)) ?_
  refine cons_congr (congrArg (fun n => al.getD n 0) (by omega)) ?_
  refine cons_congr (congrArg (fun n => al.getD n 0) (by omega)) ?_
  refine cons_congr (congrArg (fun n => al.getD n 0) (by omega)) ?_
  refine cons_congr (congrArg (fun n => al.getD n 0) (by omega)) ?_
  exact cons_congr (congrArg (fun n => al.getD n 0) (by omega)) rfl

theorem beNat_blockBytes (v : UInt64) : beNat (blockBytes v) = v.toNat := by
  have hv : v.toNat < 2 ^ 64 := UInt64.toNat_lt v
  simp only [blockBytes, range8', List.map_cons, List.map_nil, beNat, List.foldl_cons, List.foldl_nil, Nat.reduceSub,
    Nat.reducePow, toNat_ofNat_mod]
  omega

/-- `hash.BigEndianEncoding` on the 8 result bytes = 11 base-64 digits of the 66-bit number `v·4`. -/
theorem beEncode_eq (v : UInt64) : Scheme.beEncode (Des.be64 v) = a64Block v := by
  rw [be64_eq]
  unfold Scheme.beEncode a64Block
  rw [← beNat_blockBytes v, a64_eq]
  exact stdEncode_8 a64 _ _ _ _ _ _ _ _

/-! ## the salt number -/

theorem a64_eq' : Codec.hashAlphabet = a64 := by decide +kernel

set_option maxRecDepth 100000 in
theorem decode_at : ∀ i, i < 64 → Codec.hashDecode (a64.getD i 0) = i ∧ a64Value (a64.getD i 0) = i := by decide +kernel

/-- On alphabet characters `Decode` is the digit value, below 64. -/
theorem hashDecode_eq (c : UInt8) (h : c ∈ a64) : Codec.hashDecode c = a64Value c ∧ a64Value c < 64 := by
  obtain ⟨i, hi, e⟩ := List.getElem_of_mem h
  have hi' : i < 64 := hi
  have := decode_at i hi'
  rw [List.getD_eq_getElem?_getD, List.getElem?_eq_getElem hi, Option.getD_some, e] at this
  rw [this.1, this.2]
  exact ⟨rfl, hi'⟩

theorem desDecodeInt_eq (salt : Bytes) (hlen : salt.length ≤ 4) (hv : ∀ c ∈ salt, c ∈ a64) :
    Codec.desDecodeInt salt = a64Number salt ∧ a64Number salt < 2 ^ 24 := by
  match salt, hlen with
  | [], _ => exact ⟨rfl, by decide⟩
  | [c0], _ =>
    obtain ⟨e0, l0⟩ := hashDecode_eq c0 (hv _ (by simp))
    simp only [Codec.desDecodeInt, List.take, List.zipIdx_cons, List.zipIdx_nil, List.foldl_cons, List.foldl_nil, e0,
      a64Number, Nat.shiftLeft_eq]
    omega
  | [c0, c1], _ =>
    obtain ⟨e0, l0⟩ := hashDecode_eq c0 (hv _ (by simp))
    obtain ⟨e1, l1⟩ := hashDecode_eq c1 (hv _ (by simp))
    simp only [Codec.desDecodeInt, List.take, List.zipIdx_cons, List.zipIdx_nil, List.foldl_cons, List.foldl_nil, e0, e1,
      a64Number, Nat.shiftLeft_eq]
    omega
  | [c0, c1, c2], _ =>
    obtain ⟨e0, l0⟩ := hashDecode_eq c0 (hv _ (by simp))
    obtain ⟨e1, l1⟩ := hashDecode_eq c1 (hv _ (by simp))
    obtain ⟨e2, l2⟩ := hashDecode_eq c2 (hv _ (by simp))
    simp only [Codec.desDecodeInt, List.take, List.zipIdx_cons, List.zipIdx_nil, List.foldl_cons, List.foldl_nil, e0, e1, e2,
      a64Number, Nat.shiftLeft_eq]
    omega
  | [c0, c1, c2, c3], _ =>
    obtain ⟨e0, l0⟩ := hashDecode_eq c0 (hv _ (by simp))
    obtain ⟨e1, l1⟩ := hashDecode_eq c1 (hv _ (by simp))
    obtain ⟨e2, l2⟩ := hashDecode_eq c2 (hv _ (by simp))
    obtain ⟨e3, l3⟩ := hashDecode_eq c3 (hv _ (by simp))
    simp only [Codec.desDecodeInt, List.take, List.zipIdx_cons, List.zipIdx_nil, List.foldl_cons, List.foldl_nil, e0, e1, e2, e3,
      a64Number, Nat.shiftLeft_eq]
    omega

/-! ## BSDi key folding -/

/-- One salted DES encryption as the Go code provides it: `descrypt.Encrypt(key, block, salt, 1)`. -/
def desModel (key : UInt64) (salt : Nat) (block : UInt64) : UInt64 := Des.encrypt key block (UInt32.ofNat salt) 1


theorem desModel_zero (k b : UInt64) : desModel k 0 b = Des.encrypt k b 0 1 := by
  have : UInt32.ofNat 0 = 0 := rfl
  rw [desModel, this]

theorem desKey_eq (pw : Bytes) : Des.desKey pw = desKeyOf pw := by
  unfold desKeyOf
  rw [← desKey_toNat, UInt64.ofNat_toNat]

theorem desKey_take8 (pw : Bytes) : Des.desKey (pw.take 8) = Des.desKey pw := by
  unfold Des.desKey
  rw [List.take_take, Nat.min_self]

theorem desKeyOf_take8 (pw : Bytes) : desKeyOf (pw.take 8) = desKeyOf pw := by
  rw [← desKey_eq, ← desKey_eq, desKey_take8]

theorem groups8_nil : groups8 [] = [] := rfl

theorem groups8_cons (b : Bytes) (h : b ≠ []) : groups8 b = b.take 8 :: groups8 (b.drop 8) := by
  have hl : 0 < b.length := List.length_pos_iff.2 h
  unfold groups8
  have e : (b.length + 7) / 8 = ((b.drop 8).length + 7) / 8 + 1 := by rw [List.length_drop]; omega
  rw [e, List.range_succ_eq_map, List.map_cons, List.map_map]
  simp only [Nat.mul_zero, List.drop_zero, List.cons.injEq, true_and]
  apply List.map_congr_left
  intro i _
  simp only [Function.comp, List.drop_drop]
  congr 2
  omega

theorem desextKey_go_eq (fuel : Nat) (rest : Bytes) (kv : UInt64) (h : rest.length ≤ 8 * fuel) :
    Des.desextKey.go fuel rest kv = (groups8 rest).foldl (fun key g => desModel key 0 key ^^^ desKeyOf g) kv := by
  induction fuel generalizing rest kv with
  | zero =>
    have : rest = [] := List.eq_nil_of_length_eq_zero (by omega)
    subst this; rfl
  | succ fuel ih =>
    unfold Des.desextKey.go
    cases rest with
    | nil => rfl
    | cons c cs =>
      rw [groups8_cons _ (by simp)]
      simp only [List.isEmpty_cons, Bool.false_eq_true, if_false, List.foldl_cons]
      rw [ih _ _ (by rw [List.length_drop]; simp at h ⊢; omega), desKey_take8, desKey_eq, desModel_zero, desKeyOf_take8]

theorem desextKey_eq (pw : Bytes) : Des.desextKey pw = bsdiKey desModel pw := by
  unfold Des.desextKey bsdiKey
  rw [desextKey_go_eq _ _ _ (by rw [List.length_drop]; omega), desKey_take8, desKey_eq]


/-! ## The layer theorems -/

/-- `Encrypt(key, x, salt, n)` is `n` single encryptions (from `DesIter.encrypt_add`). -/
theorem encrypt_iterate (key : UInt64) (salt n : Nat) (x : UInt64) :
    Des.encrypt key x (UInt32.ofNat salt) n = iterate (desModel key salt) n x := by
  induction n with
  | zero => exact DesIter.encrypt_zero key x _
  | succ n ih => rw [DesIter.encrypt_add, ih]; rfl

theorem descrypt_layer' (pw salt : Bytes) (hlen : salt.length ≤ 4) (hv : ∀ c ∈ salt, c ∈ a64) :
    Scheme.beEncode (Des.be64 (Des.encrypt (Des.desKey pw) 0 (UInt32.ofNat (Codec.desDecodeInt salt)) 25)) =
      descryptSpec desModel pw salt := by
  rw [beEncode_eq, (desDecodeInt_eq salt hlen hv).1, encrypt_iterate, desKey_eq]
  rfl

theorem desext_layer' (pw salt : Bytes) (rounds : Nat) (hlen : salt.length ≤ 4) (hv : ∀ c ∈ salt, c ∈ a64) :
    Scheme.beEncode (Des.be64 (Des.encrypt (Des.desextKey pw) 0 (UInt32.ofNat (Codec.desDecodeInt salt)) rounds)) =
      desextSpec desModel pw salt rounds := by
  rw [beEncode_eq, (desDecodeInt_eq salt hlen hv).1, encrypt_iterate, desextKey_eq]
  rfl

end GoCrypt.C03bProofs
