import GoCrypt.Base.StreamIRBase
import GoCrypt.Proofs.B64IRBase

/-!
# Stream IR: interpreter lemmas

Generic facts about `SIR.exec`/`eval` (the stream IR of `Base/StreamIRBase.lean`), in the style of
`Proofs/B64IRBase.lean`: the result monads, statement accessors, procedure results, loop shapes, and the
rules that run a program symbolically (they join the simp set `b64ir`, so `b64_simp` runs stream-IR
programs too). Helper lemmas only; the property theorems are in `Props/SIR*.lean`.
-/

namespace GoCrypt.SIR
open GoCrypt.B64IR (Buf Heap Slice Res BinOp evalBin wrapU wrapS sliceBytes writeList)

/-! ## The result monads -/

@[simp, b64ir] theorem bindR_ok {α : Type} (a : α) (k : α → Out) : bindR (.ok a) k = k a := id rfl
@[simp, b64ir] theorem bindR_panic {α : Type} (k : α → Out) : bindR (.panic) k = .panic := id rfl
@[simp, b64ir] theorem bindR_stuck {α : Type} (w : String) (k : α → Out) : bindR (.stuck w) k = .stuck w := id rfl

@[simp, b64ir] theorem andThen_norm (W : World) (env : Env) (k : World → Env → Out) : (Out.norm W env).andThen k = k W env := id rfl
@[simp, b64ir] theorem andThen_brk (W : World) (env : Env) (k : World → Env → Out) : (Out.brk W env).andThen k = .brk W env := id rfl
@[simp, b64ir] theorem andThen_cont (W : World) (env : Env) (k : World → Env → Out) : (Out.cont W env).andThen k = .cont W env := id rfl
@[simp, b64ir] theorem andThen_ret (W : World) (vs : List Val) (k : World → Env → Out) : (Out.ret W vs).andThen k = .ret W vs := id rfl
@[simp, b64ir] theorem andThen_panic (k : World → Env → Out) : (Out.panic).andThen k = .panic := id rfl
@[simp, b64ir] theorem andThen_stuck (w : String) (k : World → Env → Out) : (Out.stuck w).andThen k = .stuck w := id rfl

@[simp, b64ir] theorem asInt_int (i : Int) : asInt (.int i) = .ok i := id rfl
@[simp, b64ir] theorem asBool_bool (b : Bool) : asBool (.bool b) = .ok b := id rfl
@[simp, b64ir] theorem asErr_err (e : Option Nat) : asErr (.err e) = .ok e := id rfl

@[simp, b64ir] theorem binRes_int (i : Int) : binRes (.ok (.int i)) = .ok (.int i) := id rfl
@[simp, b64ir] theorem binRes_bool (b : Bool) : binRes (.ok (.bool b)) = .ok (.bool b) := id rfl
@[simp, b64ir] theorem binRes_panic : binRes .panic = .panic := id rfl

attribute [b64ir] eval evalArgs evalLHS evalLHSs lookup storeAll store fieldOf lenOf refIndex

/-! ## Statement accessors -/

namespace Stmt

def drop : Nat → Stmt → Stmt
  | 0, s => s
  | n + 1, .seq _ b => drop n b
  | _ + 1, _ => .skip

def head : Stmt → Stmt
  | .seq a _ => a
  | s => s

def take : Nat → Stmt → Stmt
  | 0, _ => .skip
  | n + 1, .seq a b => .seq a (take n b)
  | _ + 1, s => s

def forFuel : Stmt → Expr
  | .for_ f _ _ _ => f
  | _ => .unknown "not a loop"
def forCond : Stmt → Expr
  | .for_ _ c _ _ => c
  | _ => .unknown "not a loop"
def forPost : Stmt → Stmt
  | .for_ _ _ p _ => p
  | _ => .unknown "not a loop"
def forBody : Stmt → Stmt
  | .for_ _ _ _ b => b
  | _ => .unknown "not a loop"
def iteCond : Stmt → Expr
  | .ite c _ _ => c
  | _ => .unknown "not an if"
def iteThen : Stmt → Stmt
  | .ite _ t _ => t
  | _ => .unknown "not an if"
def iteElse : Stmt → Stmt
  | .ite _ _ e => e
  | _ => .unknown "not an if"

end Stmt

section rules
variable (c : Ctx) (W : World) (env : Env)

@[b64ir] theorem exec_seq (a b : Stmt) : exec c (a ;; b) W env = (exec c a W env).andThen (exec c b) := id rfl
@[b64ir] theorem exec_skip : exec c .skip W env = .norm W env := id rfl
@[b64ir] theorem exec_brk : exec c .brk W env = .brk W env := id rfl
@[b64ir] theorem exec_cont : exec c .cont W env = .cont W env := id rfl
@[b64ir] theorem exec_panic (m : String) : exec c (.panic_ m) W env = .panic := id rfl
@[b64ir] theorem exec_ret (es : List Expr) : exec c (.ret es) W env = bindR (evalArgs W env es) fun vs => .ret W vs := id rfl
@[b64ir] theorem exec_assign (lhs : List LHS) (rhs : List Expr) :
    exec c (.assign lhs rhs) W env =
      bindR (evalLHSs W env lhs) fun refs =>
      bindR (evalArgs W env rhs) fun vals =>
      bindR (storeAll W env refs vals) fun (W', env') => .norm W' env' := id rfl
@[b64ir] theorem exec_call (lhs : List LHS) (f : String) (args : List Expr) :
    exec c (.call lhs f args) W env =
      bindR (evalLHSs W env lhs) fun refs =>
      bindR (evalArgs W env args) fun vals =>
      bindR (c.call f W vals) fun (W', rs) =>
      bindR (storeAll W' env refs rs) fun (W'', env') => .norm W'' env' := id rfl
@[b64ir] theorem exec_new (x : Nat) (tag : String) (inits : List FInit) :
    exec c (.new_ x tag inits) W env =
      bindR (evalInits W env W.heap inits) fun (h', fs) =>
        if x < env.length then .norm ⟨h', W.objs ++ [⟨tag, fs⟩], W.exts⟩ (env.set x (.ptr W.objs.length))
        else .stuck "no such slot" := id rfl
@[b64ir] theorem exec_clone (x : Nat) (e : Expr) (arrays : List Nat) :
    exec c (.clone x e arrays) W env =
      bindR (eval W env e) fun v =>
        match v with
        | .ptr a =>
          match W.objs[a]? with
          | some o =>
            bindR (cloneFields arrays W.heap 0 o.fields) fun (h', fs) =>
              if x < env.length then .norm ⟨h', W.objs ++ [⟨o.tag, fs⟩], W.exts⟩ (env.set x (.ptr W.objs.length))
              else .stuck "no such slot"
          | none => .stuck "dangling pointer"
        | _ => .stuck "pointer expected" := id rfl
@[b64ir] theorem exec_copy (lhs : LHS) (d s : Expr) :
    exec c (.copy lhs d s) W env =
      bindR (evalLHS W env lhs) fun ref =>
      bindR (eval W env d) fun dv =>
      bindR (eval W env s >>= srcBytes W.heap) fun bs =>
      bindR (copyVal W.heap dv bs) fun (h', n) =>
      bindR (store ⟨h', W.objs, W.exts⟩ env ref (.int n)) fun (W', env') => .norm W' env' := id rfl
@[b64ir] theorem exec_icall (lhs : List LHS) (meth : String) (recv : Expr) (args : List Expr) :
    exec c (.icall lhs meth recv args) W env =
      bindR (evalLHSs W env lhs) fun refs =>
      bindR (eval W env recv) fun rv =>
      bindR (evalArgs W env args) fun vals =>
      bindR (match rv with
        | .ext k => extCall W k meth vals
        | .ptr a =>
          match W.objs[a]? with
          | some o => c.call (o.tag ++ "." ++ meth) W (rv :: vals)
          | none => .stuck "dangling pointer"
        | _ => .stuck "interface value expected") fun (W', rs) =>
      bindR (storeAll W' env refs rs) fun (W'', env') => .norm W'' env' := id rfl

theorem exec_take_drop (n : Nat) (s : Stmt) :
    exec c s W env = (exec c (s.take n) W env).andThen (exec c (s.drop n)) := by
  induction n generalizing s W env with
  | zero => rfl
  | succ n ih =>
    cases s with
    | seq a b =>
      simp only [Stmt.take, Stmt.drop, exec]
      cases hx : exec c a W env <;> simp only [andThen_norm, andThen_brk, andThen_cont, andThen_ret, andThen_panic, andThen_stuck]
      exact ih _ _ _
    | _ => simp only [Stmt.take, Stmt.drop] <;> (cases hx : exec c _ W env <;> simp [exec])

theorem exec_for (fuel cnd : Expr) (post body : Stmt) :
    exec c (.for_ fuel cnd post body) W env =
      bindR (eval W env fuel >>= asInt) fun n =>
        loop (fun W env => eval W env cnd >>= asBool) (exec c body) (exec c post) n.toNat W env := id rfl

@[b64ir] theorem exec_ite (cnd : Expr) (t e : Stmt) :
    exec c (.ite cnd t e) W env =
      bindR (eval W env cnd >>= asBool) fun b => if b then exec c t W env else exec c e W env := id rfl

end rules

/-! ## Procedures -/

def procResult : Out → Res (World × List Val)
  | .ret W' vs => .ok (W', vs)
  | .norm W' _ => .ok (W', [])
  | .brk _ _ => .stuck "break outside a loop"
  | .cont _ _ => .stuck "continue outside a loop"
  | .panic => .panic
  | .stuck w => .stuck w

theorem execProc_eq (c : Ctx) (p : Proc) (W : World) (args : List Val) (hn : p.nparams = args.length) :
    execProc c p W args = procResult (exec c p.body W (args ++ List.replicate (p.nslots - p.nparams) .undef)) := by
  unfold execProc
  rw [if_neg (by omega)]
  cases exec c p.body W (args ++ List.replicate (p.nslots - p.nparams) .undef) <;> rfl

@[simp] theorem procResult_ret (W : World) (vs : List Val) : procResult (.ret W vs) = .ok (W, vs) := id rfl
@[simp] theorem procResult_norm (W : World) (env : Env) : procResult (.norm W env) = .ok (W, []) := id rfl
@[simp] theorem procResult_panic : procResult .panic = .panic := id rfl

theorem procResult_andThen_ret (W : World) (vs : List Val) (k : World → Env → Out) :
    procResult ((Out.ret W vs).andThen k) = .ok (W, vs) := id rfl
theorem procResult_andThen_panic (k : World → Env → Out) :
    procResult ((Out.panic).andThen k) = .panic := id rfl

/-- `interp` of a function that is in the program: run its body with calls resolved one level down. -/
theorem interp_eq (P : Program) (lib : Lib) (f : String) (p : Proc) (W : World) (args : List Val)
    (hp : List.lookup f P.procs = some p) :
    interp P lib f W args = execProc { call := callIn P lib P.procs.length } p W args := by
  simp [interp, callIn, hp]

theorem callIn_succ (P : Program) (lib : Lib) (k : Nat) (f : String) (p : Proc) (W : World) (args : List Val)
    (hp : List.lookup f P.procs = some p) :
    callIn P lib (k + 1) f W args = execProc { call := callIn P lib k } p W args := by
  simp [callIn, hp]

theorem callIn_lib (P : Program) (lib : Lib) (k : Nat) (f : String) (W : World) (args : List Val)
    (hp : List.lookup f P.procs = none) :
    callIn P lib (k + 1) f W args = lib f W args := by
  simp [callIn, hp]

/-! ## Loop shapes -/

theorem loop_false (cond : World → Env → Res Bool) (body post : World → Env → Out) (fuel : Nat) (W : World) (env : Env)
    (hc : cond W env = .ok false) : loop cond body post fuel W env = .norm W env := by
  unfold loop; simp [hc]

theorem loop_step (cond : World → Env → Res Bool) (body post : World → Env → Out) (fuel : Nat) (W : World) (env : Env)
    (hc : cond W env = .ok true) :
    loop cond body post (fuel + 1) W env = afterBody post (loop cond body post fuel) (body W env) := by
  rw [loop]; simp [hc]

theorem loop_zero (cond : World → Env → Res Bool) (body post : World → Env → Out) (W : World) (env : Env)
    (hc : cond W env = .ok true) :
    loop cond body post 0 W env = .stuck "loop bound exceeded" := by
  rw [loop]; simp [hc]

@[simp, b64ir] theorem afterPost_norm (k : World → Env → Out) (W : World) (env : Env) : afterPost k (.norm W env) = k W env := id rfl
@[simp, b64ir] theorem afterPost_ret (k : World → Env → Out) (W : World) (vs : List Val) : afterPost k (.ret W vs) = .ret W vs := id rfl
@[simp, b64ir] theorem afterPost_panic (k : World → Env → Out) : afterPost k .panic = .panic := id rfl
@[simp, b64ir] theorem afterBody_norm (post k : World → Env → Out) (W : World) (env : Env) :
    afterBody post k (.norm W env) = afterPost k (post W env) := id rfl
@[simp, b64ir] theorem afterBody_cont (post k : World → Env → Out) (W : World) (env : Env) :
    afterBody post k (.cont W env) = afterPost k (post W env) := id rfl
@[simp, b64ir] theorem afterBody_brk (post k : World → Env → Out) (W : World) (env : Env) :
    afterBody post k (.brk W env) = .norm W env := id rfl
@[simp, b64ir] theorem afterBody_ret (post k : World → Env → Out) (W : World) (vs : List Val) :
    afterBody post k (.ret W vs) = .ret W vs := id rfl
@[simp, b64ir] theorem afterBody_panic (post k : World → Env → Out) : afterBody post k .panic = .panic := id rfl
@[simp, b64ir] theorem afterBody_stuck (post k : World → Env → Out) (w : String) : afterBody post k (.stuck w) = .stuck w := id rfl

/-- Counting loop: `st k` is the state at the start of iteration `k`, `n` the number of iterations. -/
theorem loop_count (cond : World → Env → Res Bool) (body post : World → Env → Out) (st : Nat → World × Env) (n : Nat)
    (hc : ∀ k, k < n → cond (st k).1 (st k).2 = .ok true)
    (hn : cond (st n).1 (st n).2 = .ok false)
    (hs : ∀ k, k < n → (body (st k).1 (st k).2).andThen post = .norm (st (k + 1)).1 (st (k + 1)).2)
    (hb : ∀ k, k < n → ∃ W' env', body (st k).1 (st k).2 = .norm W' env') :
    ∀ fuel k, k ≤ n → n - k ≤ fuel → loop cond body post fuel (st k).1 (st k).2 = .norm (st n).1 (st n).2 := by
  intro fuel
  induction fuel with
  | zero =>
    intro k hk hf
    have : k = n := by omega
    subst this
    exact loop_false _ _ _ _ _ _ hn
  | succ fuel ih =>
    intro k hk hf
    by_cases hkn : k = n
    · subst hkn; exact loop_false _ _ _ _ _ _ hn
    · have hlt : k < n := by omega
      rw [loop_step _ _ _ _ _ _ (hc k hlt)]
      obtain ⟨W', env', hbody⟩ := hb k hlt
      have hstep := hs k hlt
      rw [hbody] at hstep ⊢
      simp only [andThen_norm] at hstep
      simp only [afterBody_norm, hstep, afterPost_norm]
      exact ih (k + 1) (by omega) (by omega)

/-- Counting loop that is left early: iterations `0 … n-1` run normally, iteration `n` ends the loop with
the outcome `o` (a `return` or a panic from the body). -/
theorem loop_count_exit (cond : World → Env → Res Bool) (body post : World → Env → Out) (st : Nat → World × Env) (n : Nat)
    (o : Out) (ho : ∀ k, afterBody post k o = o)
    (hc : ∀ k, k ≤ n → cond (st k).1 (st k).2 = .ok true)
    (hs : ∀ k, k < n → (body (st k).1 (st k).2).andThen post = .norm (st (k + 1)).1 (st (k + 1)).2)
    (hb : ∀ k, k < n → ∃ W' env', body (st k).1 (st k).2 = .norm W' env')
    (hx : body (st n).1 (st n).2 = o) :
    ∀ fuel k, k ≤ n → n - k < fuel → loop cond body post fuel (st k).1 (st k).2 = o := by
  intro fuel
  induction fuel with
  | zero => intro k hk hf; omega
  | succ fuel ih =>
    intro k hk hf
    rw [loop_step _ _ _ _ _ _ (hc k hk)]
    by_cases hkn : k = n
    · subst hkn; rw [hx]; exact ho _
    · have hlt : k < n := by omega
      obtain ⟨W', env', hbody⟩ := hb k hlt
      have hstep := hs k hlt
      rw [hbody] at hstep ⊢
      simp only [andThen_norm] at hstep
      simp only [afterBody_norm, hstep, afterPost_norm]
      exact ih (k + 1) (by omega) (by omega)

/-! ## Bytes -/

@[b64ir] theorem asByte_toNat (x : UInt8) : asByte (.int (x.toNat : Int)) = .ok x := by
  have := x.toNat_lt
  have h : (0 : Int) ≤ x.toNat ∧ (x.toNat : Int) < 256 := by omega
  simp [asByte, h]

theorem asByte_nat (v : Nat) (hv : v < 256) : asByte (.int (v : Int)) = .ok (UInt8.ofNat v) := by
  have h : (0 : Int) ≤ v ∧ (v : Int) < 256 := by omega
  simp [asByte, h]

theorem indexBytes_nat (a : Bytes) (i : Nat) (hi : i < a.length) :
    indexBytes a (i : Int) = .ok (.int ((a.getD i 0).toNat : Int)) := by
  simp [indexBytes, hi, List.getD_eq_getElem?_getD]

theorem indexVal_slice (h : Heap) (s : Slice) (buf : Buf) (i : Nat) (hb : h[s.buf]? = some buf)
    (hi : i < s.len) (hin : s.off + i < buf.size) :
    indexVal h (.slice s) (i : Int) = .ok (.int ((buf[s.off + i]'hin).toNat : Int)) := by
  have h1 : (0 : Int) ≤ i ∧ (i : Int) < s.len := by omega
  simp [indexVal, h1, hb, hin]

attribute [b64ir] indexVal sliceVal indexBytes_nat

end GoCrypt.SIR
