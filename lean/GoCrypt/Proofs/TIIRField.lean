import GoCrypt.Proofs.TIIRDefs

/-!
# Type-info IR: `(*typeInfo).field`

The regenerated `field` agrees with the model's `resolveParam` for every behaviour of `sort.Slice`
(`field_spec : FieldSpec`), and is not stuck for a concrete sorting function (`field_not_stuck`).
Helper lemmas only; everything lives in `GoCrypt.TIIR.Field`.
-/

namespace GoCrypt.TIIR.Field
open GoCrypt.Codec GoCrypt.Gen.typeinfoIR GoCrypt.TIIR

/-! ## Parts of the program -/

def outerLoop : Stmt := (fieldIR.body.drop 2).head
def outerBody : Stmt := outerLoop.forBody
def innerLoop : Stmt := (outerBody.drop 3).head
def lastAssign : Stmt := outerBody.drop 4
def sortStmt : Stmt := (fieldIR.body.drop 3).head
def lessBody : Stmt := sortStmt.sortBody
def retStmt : Stmt := fieldIR.body.drop 4

/-! ## Model side -/

/-- Length of the index path. -/
abbrev ilen (f : FieldInfo) : Nat := f.index.length

def TagOk (structs : List GoStruct) (root : RType) (fi : FieldInfo) : Prop :=
  ∃ f i, fieldByIndex structs root true (fi.index.map Int.ofNat) = .ok (f, i) ∧ f.tag = fi.tag

theorem conflict_nil (seen : List FieldInfo) : resolveParam.conflict [] seen = none := by
  simp [resolveParam.conflict]

theorem conflict_cons (f1 : FieldInfo) (rest seen : List FieldInfo) :
    resolveParam.conflict (f1 :: rest) seen =
      match seen.find? (fun f2 => f1.index.length = f2.index.length) with
      | some f2 => some (f1, f2)
      | none => resolveParam.conflict rest (seen ++ [f1]) := by
  simp only [resolveParam.conflict]
  cases List.find? (fun f2 => decide (f1.index.length = f2.index.length)) seen <;> rfl

/-- The `foldl` step of `resolveParam`. -/
def pick (best : Option FieldInfo) (f : FieldInfo) : Option FieldInfo :=
  match best with
  | none => some f
  | some b => if fieldLess f b then some f else some b

theorem resolveParam_eq (fields : List FieldInfo) (param : Bytes) :
    resolveParam fields param =
      match resolveParam.conflict (fields.filter (·.opts.param = param)) [] with
      | some (f1, f2) => .error (.paramConflict f1.name f2.name)
      | none => .ok ((fields.filter (·.opts.param = param)).foldl pick none) := by
  unfold resolveParam
  rfl

theorem conflict_none_pairwise : ∀ (l seen : List FieldInfo), resolveParam.conflict l seen = none →
    seen.Pairwise (fun x y => ilen x ≠ ilen y) → (seen ++ l).Pairwise (fun x y => ilen x ≠ ilen y) := by
  intro l
  induction l with
  | nil => intro seen _ hs; simpa using hs
  | cons f1 rest ih =>
    intro seen hc hs
    rw [conflict_cons] at hc
    cases hf : seen.find? (fun f2 => f1.index.length = f2.index.length) with
    | some f2 => rw [hf] at hc; simp at hc
    | none =>
      rw [hf] at hc
      simp only at hc
      have hnone := List.find?_eq_none.mp hf
      have h2 : (seen ++ [f1]).Pairwise (fun x y => ilen x ≠ ilen y) := by
        rw [List.pairwise_append]
        refine ⟨hs, by simp, ?_⟩
        intro a ha b hb
        simp only [List.mem_singleton] at hb
        subst hb
        have := hnone a ha
        simp only [decide_eq_true_eq] at this
        intro h; exact this h.symm
      have := ih (seen ++ [f1]) hc h2
      simpa using this

theorem pairwise_ne_of_mem {α : Type} {R : α → α → Prop} (hsym : ∀ x y, R x y → R y x) :
    ∀ {l : List α}, l.Pairwise R → ∀ x ∈ l, ∀ y ∈ l, x ≠ y → R x y := by
  intro l hp
  induction hp with
  | nil => intro x hx; simp at hx
  | cons hhead _ ih =>
    intro x hx y hy hne
    simp only [List.mem_cons] at hx hy
    rcases hx with rfl | hx <;> rcases hy with rfl | hy
    · exact absurd rfl hne
    · exact hhead _ hy
    · exact hsym _ _ (hhead _ hx)
    · exact ih x hx y hy hne

theorem fieldLess_of_lt {a b : FieldInfo} (h : ilen a < ilen b) : fieldLess a b = true := by
  unfold fieldLess
  have : a.index.length ≠ b.index.length := by simp only [ilen] at h; omega
  simp only [ilen] at h
  simp [this, h]

theorem fieldLess_of_gt {a b : FieldInfo} (h : ilen b < ilen a) : fieldLess a b = false := by
  unfold fieldLess
  simp only [ilen] at h
  have : a.index.length ≠ b.index.length := by omega
  have h2 : ¬ a.index.length < b.index.length := by omega
  simp [this, h2]

/-- With `m` strictly shortest, the fold returns `m`. -/
theorem foldl_pick_min (m : FieldInfo) : ∀ (l : List FieldInfo) (best : Option FieldInfo),
    (m ∈ l ∨ best = some m) → (∀ x ∈ l, x ≠ m → ilen m < ilen x) →
    (∀ b, best = some b → b ≠ m → ilen m < ilen b) → l.foldl pick best = some m := by
  intro l
  induction l with
  | nil =>
    intro best h1 _ _
    rcases h1 with h1 | h1
    · simp at h1
    · simpa using h1
  | cons x l ih =>
    intro best h1 h2 h3
    simp only [List.foldl_cons]
    have h2' : ∀ y ∈ l, y ≠ m → ilen m < ilen y := fun y hy => h2 y (List.mem_cons_of_mem _ hy)
    by_cases hxm : x = m
    · subst hxm
      refine ih _ ?_ h2' ?_
      · right
        cases best with
        | none => rfl
        | some b =>
          simp only [pick]
          by_cases hb : b = x
          · subst hb; split <;> rfl
          · rw [fieldLess_of_lt (h3 b rfl hb)]; rfl
      · intro b hb hne
        exfalso
        cases best with
        | none => simp only [pick] at hb; exact hne (Option.some.inj hb).symm
        | some b' =>
          simp only [pick] at hb
          by_cases hb' : b' = x
          · subst hb'
            split at hb <;> exact hne (Option.some.inj hb).symm
          · rw [fieldLess_of_lt (h3 b' rfl hb')] at hb
            exact hne (Option.some.inj hb).symm
    · have hx : ilen m < ilen x := h2 x (List.mem_cons_self) hxm
      cases best with
      | none =>
        refine ih _ ?_ h2' ?_
        · left
          rcases h1 with h1 | h1
          · simp only [List.mem_cons] at h1
            rcases h1 with h1 | h1
            · exact absurd h1.symm hxm
            · exact h1
          · simp at h1
        · intro b hb hne
          simp only [pick] at hb
          rw [← Option.some.inj hb]; exact hx
      | some b' =>
        by_cases hb' : b' = m
        · subst hb'
          refine ih _ ?_ h2' ?_
          · right; simp only [pick]; rw [fieldLess_of_gt hx]; rfl
          · intro b hb hne
            simp only [pick] at hb; rw [fieldLess_of_gt hx] at hb
            exact absurd (Option.some.inj hb).symm hne
        · have hb'm : ilen m < ilen b' := h3 b' rfl hb'
          refine ih _ ?_ h2' ?_
          · left
            rcases h1 with h1 | h1
            · simp only [List.mem_cons] at h1
              rcases h1 with h1 | h1
              · exact absurd h1.symm hxm
              · exact h1
            · exact absurd (Option.some.inj h1) hb'
          · intro b hb hne
            simp only [pick] at hb
            split at hb
            · rw [← Option.some.inj hb]; exact hx
            · rw [← Option.some.inj hb]; exact hb'm

/-! ## Heap side -/

theorem drop_cons {α : Type} : ∀ {l : List α} {k : Nat} {a : α} {r : List α}, l.drop k = a :: r →
    l[k]? = some a ∧ l.drop (k + 1) = r ∧ k < l.length := by
  intro l
  induction l with
  | nil => intro k a r h; simp at h
  | cons x l ih =>
    intro k a r h
    cases k with
    | zero => simp at h; simp [h.1, h.2]
    | succ k =>
      simp only [List.drop_succ_cons] at h
      have := ih h
      refine ⟨by simpa using this.1, by simpa using this.2.1, by simp; exact this.2.2⟩

theorem drop_nil_len {α : Type} {l : List α} {k : Nat} (h : l.drop k = []) : l.length ≤ k := by
  simpa using h

theorem reps_nil_left {h : Heap} {fis : List FieldInfo} (hr : Reps h [] fis) : fis = [] := by
  cases fis with
  | nil => rfl
  | cons _ _ => exact hr.elim

theorem reps_nil_right {h : Heap} {as : List Nat} (hr : Reps h as []) : as = [] := by
  cases as with
  | nil => rfl
  | cons _ _ => exact hr.elim

theorem reps_cons_right {h : Heap} {as : List Nat} {fi : FieldInfo} {fis : List FieldInfo}
    (hr : Reps h as (fi :: fis)) : ∃ a as', as = a :: as' ∧ h[a]? = some (fiObj fi) ∧ Reps h as' fis := by
  cases as with
  | nil => exact hr.elim
  | cons a as' => exact ⟨a, as', rfl, hr.1, hr.2⟩

theorem reps_append {h : Heap} : ∀ {as : List Nat} {fis : List FieldInfo} {bs : List Nat} {gis : List FieldInfo},
    Reps h as fis → Reps h bs gis → Reps h (as ++ bs) (fis ++ gis) := by
  intro as
  induction as with
  | nil => intro fis bs gis h1 h2; rw [reps_nil_left h1]; simpa using h2
  | cons a as ih =>
    intro fis bs gis h1 h2
    cases fis with
    | nil => exact h1.elim
    | cons fi fis => exact ⟨h1.1, ih h1.2 h2⟩

theorem reps_length {h : Heap} : ∀ {as : List Nat} {fis : List FieldInfo}, Reps h as fis → as.length = fis.length := by
  intro as
  induction as with
  | nil => intro fis h1; rw [reps_nil_left h1]; rfl
  | cons a as ih =>
    intro fis h1
    cases fis with
    | nil => exact h1.elim
    | cons fi fis => simp [ih h1.2]

theorem reps_mem_addr {h : Heap} : ∀ {as : List Nat} {fis : List FieldInfo}, Reps h as fis →
    ∀ a ∈ as, ∃ fi ∈ fis, h[a]? = some (fiObj fi) := by
  intro as
  induction as with
  | nil => intro fis _ a ha; simp at ha
  | cons x as ih =>
    intro fis h1 a ha
    cases fis with
    | nil => exact h1.elim
    | cons fi fis =>
      simp only [List.mem_cons] at ha
      rcases ha with rfl | ha
      · exact ⟨fi, List.mem_cons_self, h1.1⟩
      · obtain ⟨g, hg, hg'⟩ := ih h1.2 a ha
        exact ⟨g, List.mem_cons_of_mem _ hg, hg'⟩

theorem reps_mem_fi {h : Heap} : ∀ {as : List Nat} {fis : List FieldInfo}, Reps h as fis →
    ∀ fi ∈ fis, ∃ a ∈ as, h[a]? = some (fiObj fi) := by
  intro as
  induction as with
  | nil => intro fis h1 fi hfi; rw [reps_nil_left h1] at hfi; simp at hfi
  | cons x as ih =>
    intro fis h1 fi hfi
    cases fis with
    | nil => exact h1.elim
    | cons g fis =>
      simp only [List.mem_cons] at hfi
      rcases hfi with rfl | hfi
      · exact ⟨x, List.mem_cons_self, h1.1⟩
      · obtain ⟨a, ha, ha'⟩ := ih h1.2 fi hfi
        exact ⟨a, List.mem_cons_of_mem _ ha, ha'⟩

theorem fieldOf_fi0 {h : Heap} {a : Nat} {fi : FieldInfo} (ha : h[a]? = some (fiObj fi)) :
    fieldOf h (.ptr a) 0 = .ok (.ints (fi.index.map Int.ofNat)) := by
  simp [fieldOf, ha, fiObj]
theorem fieldOf_fi1 {h : Heap} {a : Nat} {fi : FieldInfo} (ha : h[a]? = some (fiObj fi)) :
    fieldOf h (.ptr a) 1 = .ok (.name fi.name) := by
  simp [fieldOf, ha, fiObj]
theorem fieldOf_fi6 {h : Heap} {a : Nat} {fi : FieldInfo} (ha : h[a]? = some (fiObj fi)) :
    fieldOf h (.ptr a) 6 = .ok (.str fi.opts.param) := by
  simp [fieldOf, ha, fiObj, optsVals]

section ti
variable {h : Heap} {t : Nat} {strct hp : Val} {root : RType} {n : Int} {addrs : List Nat}
theorem fieldOf_ti0 (ht : h[t]? = some (tiObj strct root hp addrs n)) : fieldOf h (.ptr t) 0 = .ok strct := by
  simp [fieldOf, ht, tiObj]
theorem fieldOf_ti1 (ht : h[t]? = some (tiObj strct root hp addrs n)) : fieldOf h (.ptr t) 1 = .ok (.rtype root) := by
  simp [fieldOf, ht, tiObj]
theorem fieldOf_ti3 (ht : h[t]? = some (tiObj strct root hp addrs n)) : fieldOf h (.ptr t) 3 = .ok (.ptrs addrs) := by
  simp [fieldOf, ht, tiObj]
end ti

theorem ext2_fbi (structs : List GoStruct) (root : RType) (idx : List Int) (f : GoField) (i : Nat)
    (hf : fieldByIndex structs root true idx = .ok (f, i)) :
    ext2 structs .typeFieldByIndex (.rtype root) (.ints idx) = .ok (.sfield f i) := by
  rw [ext2_typeFieldByIndex, hf]; rfl

/-- The `TagParamError` record of a conflict. -/
def confRec (strct : Val) (f1 f2 : FieldInfo) : Obj :=
  [strct, .name f1.name, .name f2.name, .str f1.tag, .str f2.tag]

/-- The frame of `field`. -/
abbrev frame (v0 v1 v2 v3 v4 v5 v6 v7 v8 v9 v10 v11 v12 v13 v14 v15 : Val) : Env :=
  [v0, v1, v2, v3, v4, v5, v6, v7, v8, v9, v10, v11, v12, v13, v14, v15]

/-! ## The inner loop: is there an earlier candidate of the same depth? -/

theorem inner_loop (c : Ctx) (h : Heap) (t : Nat) (strct hp : Val) (root : RType) (n : Int) (allAddrs : List Nat)
    (param : Bytes) (ht : h[t]? = some (tiObj strct root hp allAddrs n))
    (a1 : Nat) (f1 : FieldInfo) (ha1 : h[a1]? = some (fiObj f1)) (htag1 : TagOk c.structs root f1)
    (sAll : List Nat) (v2 v5 v6 v7 v8 v9 v10 v14 v15 : Val) :
    ∀ (restS : List FieldInfo) (restSA : List Nat) (fuel j : Nat) (v4 v13 : Val),
      sAll.drop j = restSA → Reps h restSA restS → (∀ fi ∈ restS, TagOk c.structs root fi) → restS.length < fuel →
      match restS.find? (fun f2 => f1.index.length = f2.index.length) with
      | some f2 =>
        loop (fun h env => eval c.structs h env innerLoop.forCond >>= asBool) (exec c innerLoop.forBody)
          (exec c innerLoop.forPost) fuel h
          (frame (.ptr t) (.str param) v2 (.ptr a1) v4 v5 v6 v7 v8 v9 v10 (.ptrs sAll) (.int j) v13 v14 v15) =
          .ret (h ++ [confRec strct f1 f2]) [.nil, .ptr h.length]
      | none => ∃ v4' v12',
        loop (fun h env => eval c.structs h env innerLoop.forCond >>= asBool) (exec c innerLoop.forBody)
          (exec c innerLoop.forPost) fuel h
          (frame (.ptr t) (.str param) v2 (.ptr a1) v4 v5 v6 v7 v8 v9 v10 (.ptrs sAll) (.int j) v13 v14 v15) =
          .norm h (frame (.ptr t) (.str param) v2 (.ptr a1) v4' v5 v6 v7 v8 v9 v10 (.ptrs sAll) v12' v13 v14 v15) := by
  intro restS
  induction restS with
  | nil =>
    intro restSA fuel j v4 v13 hdrop hreps _ _
    rw [reps_nil_right hreps] at hdrop
    have hlen := drop_nil_len hdrop
    simp only [List.find?_nil]
    refine ⟨v4, .int j, ?_⟩
    apply loop_false
    simp only [innerLoop, outerBody, outerLoop, fieldIR, Stmt.drop, Stmt.head, Stmt.forBody, Stmt.forCond, frame]
    have : ¬ j < sAll.length := by omega
    ti_simp [this]
  | cons f2 restS ih =>
    intro restSA fuel j v4 v13 hdrop hreps htags hfuel
    obtain ⟨a2, restSA', rfl, ha2, hreps'⟩ := reps_cons_right hreps
    obtain ⟨hj, hdrop', hjlt⟩ := drop_cons hdrop
    obtain ⟨fuel', rfl⟩ : ∃ f', fuel = f' + 1 := ⟨fuel - 1, by simp at hfuel; omega⟩
    have hc : (fun h env => eval c.structs h env innerLoop.forCond >>= asBool) h
        (frame (.ptr t) (.str param) v2 (.ptr a1) v4 v5 v6 v7 v8 v9 v10 (.ptrs sAll) (.int j) v13 v14 v15) = .ok true := by
      simp only [innerLoop, outerBody, outerLoop, fieldIR, Stmt.drop, Stmt.head, Stmt.forBody, Stmt.forCond, frame]
      ti_simp [hjlt]
    rw [loop_step _ _ _ _ _ _ hc]
    by_cases hlen : f1.index.length = f2.index.length
    · simp only [List.find?_cons, hlen, decide_true]
      obtain ⟨g1, i1, hg1, hg1t⟩ := htag1
      obtain ⟨g2, i2, hg2, hg2t⟩ := htags f2 List.mem_cons_self
      simp only [innerLoop, outerBody, outerLoop, fieldIR, Stmt.drop, Stmt.head, Stmt.forBody, Stmt.forPost, frame]
      ti_simp [indexVal_ptrs _ _ _ hj, fieldOf_fi0 ha1, fieldOf_fi0 ha2, fieldOf_fi1 ha1, fieldOf_fi1 ha2,
        fieldOf_ti0 ht, fieldOf_ti1 ht, List.length_map, hlen, ext2_fbi _ _ _ _ _ hg1, ext2_fbi _ _ _ _ _ hg2, hg1t, hg2t, confRec]
    · simp only [List.find?_cons, hlen, decide_false]
      have := ih restSA' fuel' (j + 1) (.ptr a2) v13 hdrop' hreps' (fun fi hfi => htags fi (List.mem_cons_of_mem _ hfi))
        (by simp at hfuel; omega)
      simp only [innerLoop, outerBody, outerLoop, fieldIR, Stmt.drop, Stmt.head, Stmt.forBody, Stmt.forPost, Stmt.forCond, frame] at this ⊢
      ti_simp [indexVal_ptrs _ _ _ hj, fieldOf_fi0 ha1, fieldOf_fi0 ha2, List.length_map, hlen]
      exact this

/-! ## The outer loop: collect the candidates, stop at the first conflict -/

theorem exec_innerLoop (c : Ctx) (h : Heap) (env : Env) :
    exec c innerLoop h env =
      loop (fun h env => eval c.structs h env innerLoop.forCond >>= asBool) (exec c innerLoop.forBody)
        (exec c innerLoop.forPost) c.fuel h env := by
  show exec c (.for_ innerLoop.forCond innerLoop.forPost innerLoop.forBody) h env = _
  exact exec_for ..

theorem exec_outerLoop (c : Ctx) (h : Heap) (env : Env) :
    exec c outerLoop h env =
      loop (fun h env => eval c.structs h env outerLoop.forCond >>= asBool) (exec c outerBody)
        (exec c outerLoop.forPost) c.fuel h env := by
  show exec c (.for_ outerLoop.forCond outerLoop.forPost outerLoop.forBody) h env = _
  exact exec_for ..

section body
variable (c : Ctx) (h : Heap) (t : Nat) (param : Bytes) (allAddrs seenAddrs : List Nat) (k a : Nat) (f : FieldInfo)
  (v3 v4 v5 v6 v7 v8 v11 v12 v13 v14 v15 : Val)

theorem body_skip (hk : allAddrs[k]? = some a) (ha : h[a]? = some (fiObj f)) (hp : ¬ f.opts.param = param) :
    exec c outerBody h (frame (.ptr t) (.str param) (.ptrs seenAddrs) v3 v4 v5 v6 v7 v8 (.ptrs allAddrs) (.int k) v11 v12 v13 v14 v15)
      = .cont h (frame (.ptr t) (.str param) (.ptrs seenAddrs) (.ptr a) v4 v5 v6 v7 v8 (.ptrs allAddrs) (.int k) v11 v12 v13 v14 v15) := by
  simp only [outerBody, outerLoop, fieldIR, Stmt.drop, Stmt.head, Stmt.forBody, frame]
  ti_simp [indexVal_ptrs _ _ _ hk, fieldOf_fi6 ha, hp]

theorem body_pre (hk : allAddrs[k]? = some a) (ha : h[a]? = some (fiObj f)) (hp : f.opts.param = param) :
    exec c outerBody h (frame (.ptr t) (.str param) (.ptrs seenAddrs) v3 v4 v5 v6 v7 v8 (.ptrs allAddrs) (.int k) v11 v12 v13 v14 v15)
      = (exec c innerLoop h (frame (.ptr t) (.str param) (.ptrs seenAddrs) (.ptr a) v4 v5 v6 v7 v8 (.ptrs allAddrs) (.int k)
          (.ptrs seenAddrs) (.int (0 : Nat)) v13 v14 v15)).andThen (exec c lastAssign) := by
  rw [exec_take_drop c h _ 3 outerBody]
  have hd : outerBody.drop 3 = (innerLoop ;; lastAssign) := rfl
  rw [hd]
  have : exec c (outerBody.take 3) h (frame (.ptr t) (.str param) (.ptrs seenAddrs) v3 v4 v5 v6 v7 v8 (.ptrs allAddrs) (.int k) v11 v12 v13 v14 v15)
      = .norm h (frame (.ptr t) (.str param) (.ptrs seenAddrs) (.ptr a) v4 v5 v6 v7 v8 (.ptrs allAddrs) (.int k)
          (.ptrs seenAddrs) (.int (0 : Nat)) v13 v14 v15) := by
    simp only [outerBody, outerLoop, fieldIR, Stmt.drop, Stmt.head, Stmt.take, Stmt.forBody, frame]
    ti_simp [indexVal_ptrs _ _ _ hk, fieldOf_fi6 ha, hp]
    rfl
  rw [this]
  rfl

theorem outer_post :
    exec c outerLoop.forPost h (frame (.ptr t) (.str param) (.ptrs seenAddrs) v3 v4 v5 v6 v7 v8 (.ptrs allAddrs) (.int k) v11 v12 v13 v14 v15)
      = .norm h (frame (.ptr t) (.str param) (.ptrs seenAddrs) v3 v4 v5 v6 v7 v8 (.ptrs allAddrs) (.int (k + 1 : Nat)) v11 v12 v13 v14 v15) := by
  simp only [outerLoop, fieldIR, Stmt.drop, Stmt.head, Stmt.forPost, frame]
  ti_simp

theorem last_assign :
    exec c lastAssign h (frame (.ptr t) (.str param) (.ptrs seenAddrs) (.ptr a) v4 v5 v6 v7 v8 (.ptrs allAddrs) (.int k) v11 v12 v13 v14 v15)
      = .norm h (frame (.ptr t) (.str param) (.ptrs (seenAddrs ++ [a])) (.ptr a) v4 v5 v6 v7 v8 (.ptrs allAddrs) (.int k) v11 v12 v13 v14 v15) := by
  simp only [lastAssign, outerBody, outerLoop, fieldIR, Stmt.drop, Stmt.head, Stmt.forBody, frame]
  ti_simp

theorem outer_cond :
    (eval c.structs h (frame (.ptr t) (.str param) (.ptrs seenAddrs) v3 v4 v5 v6 v7 v8 (.ptrs allAddrs) (.int k) v11 v12 v13 v14 v15)
      outerLoop.forCond >>= asBool) = .ok (decide (k < allAddrs.length)) := by
  simp only [outerLoop, fieldIR, Stmt.drop, Stmt.head, Stmt.forCond, frame]
  ti_simp

end body

theorem outer_loop (c : Ctx) (h : Heap) (t : Nat) (strct hp : Val) (root : RType) (n : Int) (allAddrs : List Nat)
    (param : Bytes) (ht : h[t]? = some (tiObj strct root hp allAddrs n)) (v5 v6 v7 v8 v14 v15 : Val) :
    ∀ (rest : List FieldInfo) (restAddrs : List Nat) (fuel k : Nat) (seenAddrs : List Nat) (seen : List FieldInfo)
      (v3 v4 v11 v12 v13 : Val),
      allAddrs.drop k = restAddrs → Reps h restAddrs rest → Reps h seenAddrs seen →
      (∀ fi ∈ rest, TagOk c.structs root fi) → (∀ fi ∈ seen, TagOk c.structs root fi) →
      rest.length < fuel → seen.length + rest.length < c.fuel →
      match resolveParam.conflict (rest.filter (·.opts.param = param)) seen with
      | some (f1, f2) =>
        loop (fun h env => eval c.structs h env outerLoop.forCond >>= asBool) (exec c outerBody)
          (exec c outerLoop.forPost) fuel h
          (frame (.ptr t) (.str param) (.ptrs seenAddrs) v3 v4 v5 v6 v7 v8 (.ptrs allAddrs) (.int k) v11 v12 v13 v14 v15) =
          .ret (h ++ [confRec strct f1 f2]) [.nil, .ptr h.length]
      | none => ∃ candAddrs v3' v4' v10' v11' v12' v13',
        loop (fun h env => eval c.structs h env outerLoop.forCond >>= asBool) (exec c outerBody)
          (exec c outerLoop.forPost) fuel h
          (frame (.ptr t) (.str param) (.ptrs seenAddrs) v3 v4 v5 v6 v7 v8 (.ptrs allAddrs) (.int k) v11 v12 v13 v14 v15) =
          .norm h (frame (.ptr t) (.str param) (.ptrs (seenAddrs ++ candAddrs)) v3' v4' v5 v6 v7 v8 (.ptrs allAddrs) v10' v11' v12' v13' v14 v15) ∧
        Reps h candAddrs (rest.filter (·.opts.param = param)) ∧ ∀ a ∈ candAddrs, a ∈ restAddrs := by
  intro rest
  induction rest with
  | nil =>
    intro restAddrs fuel k seenAddrs seen v3 v4 v11 v12 v13 hdrop hreps _ _ _ _ _
    rw [reps_nil_right hreps] at hdrop
    have hlen := drop_nil_len hdrop
    simp only [List.filter_nil, conflict_nil]
    refine ⟨[], v3, v4, .int k, v11, v12, v13, ?_, trivial, by simp⟩
    rw [List.append_nil]
    apply loop_false
    show (eval c.structs h _ outerLoop.forCond >>= asBool) = _
    rw [outer_cond]
    have : ¬ k < allAddrs.length := by omega
    simp [this]
  | cons f rest ih =>
    intro restAddrs fuel k seenAddrs seen v3 v4 v11 v12 v13 hdrop hreps hseen htags htagsS hfuel hcf
    obtain ⟨a, restAddrs', rfl, ha, hreps'⟩ := reps_cons_right hreps
    obtain ⟨hk, hdrop', hklt⟩ := drop_cons hdrop
    obtain ⟨fuel', rfl⟩ : ∃ f', fuel = f' + 1 := ⟨fuel - 1, by simp at hfuel; omega⟩
    have hc : (fun h env => eval c.structs h env outerLoop.forCond >>= asBool) h
        (frame (.ptr t) (.str param) (.ptrs seenAddrs) v3 v4 v5 v6 v7 v8 (.ptrs allAddrs) (.int k) v11 v12 v13 v14 v15) = .ok true := by
      show (eval c.structs h _ outerLoop.forCond >>= asBool) = _
      rw [outer_cond]; simp [hklt]
    have htags' : ∀ fi ∈ rest, TagOk c.structs root fi := fun fi hfi => htags fi (List.mem_cons_of_mem _ hfi)
    simp only [List.length_cons] at hfuel hcf
    by_cases hpar : f.opts.param = param
    · -- a candidate
      simp only [List.filter_cons, hpar, decide_true, if_true]
      rw [conflict_cons]
      have hin := inner_loop c h t strct hp root n allAddrs param ht a f ha (htags f List.mem_cons_self) seenAddrs
        (.ptrs seenAddrs) v5 v6 v7 v8 (.ptrs allAddrs) (.int k) v14 v15 seen seenAddrs c.fuel 0 v4 v13 (by simp) hseen htagsS (by omega)
      cases hfind : seen.find? (fun f2 => decide (f.index.length = f2.index.length)) with
      | some f2 =>
        rw [hfind] at hin
        simp only at hin ⊢
        rw [loop_step _ _ _ _ _ _ hc, body_pre c h t param allAddrs seenAddrs k a f v3 v4 v5 v6 v7 v8 v11 v12 v13 v14 v15 hk ha hpar,
          exec_innerLoop, hin]
        rfl
      | none =>
        rw [hfind] at hin
        simp only at hin ⊢
        obtain ⟨v4', v12', hin⟩ := hin
        have hstep : loop (fun h env => eval c.structs h env outerLoop.forCond >>= asBool) (exec c outerBody)
            (exec c outerLoop.forPost) (fuel' + 1) h
            (frame (.ptr t) (.str param) (.ptrs seenAddrs) v3 v4 v5 v6 v7 v8 (.ptrs allAddrs) (.int k) v11 v12 v13 v14 v15) =
            loop (fun h env => eval c.structs h env outerLoop.forCond >>= asBool) (exec c outerBody)
            (exec c outerLoop.forPost) fuel' h
            (frame (.ptr t) (.str param) (.ptrs (seenAddrs ++ [a])) (.ptr a) v4' v5 v6 v7 v8 (.ptrs allAddrs) (.int (k + 1 : Nat))
              (.ptrs seenAddrs) v12' v13 v14 v15) := by
          rw [loop_step _ _ _ _ _ _ hc, body_pre c h t param allAddrs seenAddrs k a f v3 v4 v5 v6 v7 v8 v11 v12 v13 v14 v15 hk ha hpar,
            exec_innerLoop, hin, andThen_norm, last_assign, afterBody_norm, outer_post, afterPost_norm]
        rw [hstep]
        have := ih restAddrs' fuel' (k + 1) (seenAddrs ++ [a]) (seen ++ [f]) (.ptr a) v4' (.ptrs seenAddrs) v12' v13 hdrop' hreps'
          (reps_append hseen (show Reps h [a] [f] from ⟨ha, trivial⟩)) htags'
          (by
            intro fi hfi
            simp only [List.mem_append, List.mem_singleton] at hfi
            rcases hfi with hfi | rfl
            · exact htagsS fi hfi
            · exact htags fi List.mem_cons_self)
          (by omega) (by simp only [List.length_append, List.length_cons, List.length_nil]; omega)
        cases hcf' : resolveParam.conflict (rest.filter (·.opts.param = param)) (seen ++ [f]) with
        | some pr =>
          obtain ⟨f1, f2⟩ := pr
          rw [hcf'] at this
          simp only at this ⊢
          exact this
        | none =>
          rw [hcf'] at this
          simp only at this ⊢
          obtain ⟨candAddrs, v3', v4'', v10', v11', v12'', v13', hl, hr, hm⟩ := this
          refine ⟨a :: candAddrs, v3', v4'', v10', v11', v12'', v13', ?_, ⟨ha, hr⟩, ?_⟩
          · rw [hl]; simp
          · intro x hx
            simp only [List.mem_cons] at hx ⊢
            rcases hx with rfl | hx
            · exact Or.inl rfl
            · exact Or.inr (hm x hx)
    · -- not a candidate
      simp only [List.filter_cons, hpar, decide_false, Bool.false_eq_true, if_false]
      have hstep : loop (fun h env => eval c.structs h env outerLoop.forCond >>= asBool) (exec c outerBody)
          (exec c outerLoop.forPost) (fuel' + 1) h
          (frame (.ptr t) (.str param) (.ptrs seenAddrs) v3 v4 v5 v6 v7 v8 (.ptrs allAddrs) (.int k) v11 v12 v13 v14 v15) =
          loop (fun h env => eval c.structs h env outerLoop.forCond >>= asBool) (exec c outerBody)
          (exec c outerLoop.forPost) fuel' h
          (frame (.ptr t) (.str param) (.ptrs seenAddrs) (.ptr a) v4 v5 v6 v7 v8 (.ptrs allAddrs) (.int (k + 1 : Nat))
            v11 v12 v13 v14 v15) := by
        rw [loop_step _ _ _ _ _ _ hc, body_skip c h t param allAddrs seenAddrs k a f v3 v4 v5 v6 v7 v8 v11 v12 v13 v14 v15 hk ha hpar,
          afterBody_cont, outer_post, afterPost_norm]
      rw [hstep]
      have := ih restAddrs' fuel' (k + 1) seenAddrs seen (.ptr a) v4 v11 v12 v13 hdrop' hreps' hseen htags' htagsS
        (by omega) (by omega)
      cases hcf' : resolveParam.conflict (rest.filter (·.opts.param = param)) seen with
      | some pr =>
        obtain ⟨f1, f2⟩ := pr
        rw [hcf'] at this
        simp only at this ⊢
        exact this
      | none =>
        rw [hcf'] at this
        simp only at this ⊢
        obtain ⟨candAddrs, v3', v4'', v10', v11', v12'', v13', hl, hr, hm⟩ := this
        exact ⟨candAddrs, v3', v4'', v10', v11', v12'', v13', hl, hr, fun x hx => List.mem_cons_of_mem _ (hm x hx)⟩

/-! ## `sort.Slice` and the final `return` -/

/-- Length of the `Index` of the record at `a`. -/
def idxLen (h : Heap) (a : Nat) : Nat :=
  match h[a]? with
  | some (.ints l :: _) => l.length
  | _ => 0

theorem idxLen_fi {h : Heap} {a : Nat} {fi : FieldInfo} (ha : h[a]? = some (fiObj fi)) : idxLen h a = fi.index.length := by
  simp [idxLen, ha, fiObj]

theorem exec_sortStmt (c : Ctx) (h : Heap) (l : List Nat) (v0 v1 v3 v4 v5 v6 v7 v8 v9 v10 v11 v12 v13 v14 v15 : Val) :
    exec c sortStmt h (frame v0 v1 (.ptrs l) v3 v4 v5 v6 v7 v8 v9 v10 v11 v12 v13 v14 v15) =
      if (c.sort h l).isPerm l &&
          sortedBy (lessAt (exec c lessBody) h (frame v0 v1 (.ptrs (c.sort h l)) v3 v4 v5 v6 v7 v8 v9 v10 v11 v12 v13 v14 v15) 5 6)
            (c.sort h l).length
      then .norm h (frame v0 v1 (.ptrs (c.sort h l)) v3 v4 v5 v6 v7 v8 v9 v10 v11 v12 v13 v14 v15)
      else .stuck "sort.Slice: the proposed result is not a sorted permutation" := by
  show exec c (.sortSlice 2 5 6 lessBody) h _ = _
  rw [exec_sortSlice]
  rfl

theorem less_run (c : Ctx) (h : Heap) (p : List Nat) (i j a b : Nat) (fa fb : FieldInfo)
    (v0 v1 v3 v4 v7 v8 v9 v10 v11 v12 v13 v14 v15 : Val)
    (hi : p[i]? = some a) (hj : p[j]? = some b) (ha : h[a]? = some (fiObj fa)) (hb : h[b]? = some (fiObj fb))
    (hne : fa.index.length ≠ fb.index.length) :
    exec c lessBody h (frame v0 v1 (.ptrs p) v3 v4 (.int i) (.int j) v7 v8 v9 v10 v11 v12 v13 v14 v15) =
      .ret h [.bool (decide (fa.index.length < fb.index.length))] := by
  simp only [lessBody, sortStmt, fieldIR, Stmt.drop, Stmt.head, Stmt.sortBody, frame]
  ti_simp [indexVal_ptrs _ _ _ hi, indexVal_ptrs _ _ _ hj, fieldOf_fi0 ha, fieldOf_fi0 hb, List.length_map, hne]

theorem lessAt_ne (c : Ctx) (h : Heap) (p : List Nat) (i j a b : Nat) (fa fb : FieldInfo)
    (v0 v1 v3 v4 v5 v6 v7 v8 v9 v10 v11 v12 v13 v14 v15 : Val)
    (hi : p[i]? = some a) (hj : p[j]? = some b) (ha : h[a]? = some (fiObj fa)) (hb : h[b]? = some (fiObj fb))
    (hne : fa.index.length ≠ fb.index.length) :
    lessAt (exec c lessBody) h (frame v0 v1 (.ptrs p) v3 v4 v5 v6 v7 v8 v9 v10 v11 v12 v13 v14 v15) 5 6 i j =
      .ok (decide (fa.index.length < fb.index.length)) := by
  unfold lessAt
  have : ((frame v0 v1 (.ptrs p) v3 v4 v5 v6 v7 v8 v9 v10 v11 v12 v13 v14 v15).set 5 (.int i)).set 6 (.int j) =
      frame v0 v1 (.ptrs p) v3 v4 (.int i) (.int j) v7 v8 v9 v10 v11 v12 v13 v14 v15 := rfl
  rw [this, less_run c h p i j a b fa fb v0 v1 v3 v4 v7 v8 v9 v10 v11 v12 v13 v14 v15 hi hj ha hb hne]
  simp

theorem sortedBy_iff (less : Nat → Nat → Res Bool) (n : Nat) :
    sortedBy less n = true ↔ ∀ b, b < n → ∀ a, a < b → less b a = .ok false := by
  simp [sortedBy, List.all_eq_true]

/-- In an accepted proposal the first element has the shortest index. -/
theorem sorted_head_min (c : Ctx) (h : Heap) (p : List Nat)
    (v0 v1 v3 v4 v5 v6 v7 v8 v9 v10 v11 v12 v13 v14 v15 : Val)
    (hs : sortedBy (lessAt (exec c lessBody) h (frame v0 v1 (.ptrs p) v3 v4 v5 v6 v7 v8 v9 v10 v11 v12 v13 v14 v15) 5 6) p.length = true)
    (hall : ∀ a ∈ p, ∃ fi, h[a]? = some (fiObj fi)) (a0 : Nat) (h0 : p[0]? = some a0) :
    ∀ b ∈ p, idxLen h a0 ≤ idxLen h b := by
  intro b hb
  obtain ⟨j, hj⟩ := List.mem_iff_getElem?.mp hb
  have ha0 : a0 ∈ p := List.mem_iff_getElem?.mpr ⟨0, h0⟩
  obtain ⟨f0, hf0⟩ := hall a0 ha0
  obtain ⟨fb, hfb⟩ := hall b hb
  rw [idxLen_fi hf0, idxLen_fi hfb]
  by_cases hj0 : j = 0
  · subst hj0
    rw [h0] at hj
    cases Option.some.inj hj
    rw [hf0] at hfb
    have : fiObj f0 = fiObj fb := Option.some.inj hfb
    have : f0.index.map Int.ofNat = fb.index.map Int.ofNat := by
      simp only [fiObj] at this
      injection this with h1 _
      injection h1
    have := congrArg List.length this
    simp only [List.length_map] at this
    omega
  · by_cases hne : fb.index.length = f0.index.length
    · omega
    · have hjlt : j < p.length := by
        have := List.getElem?_eq_some_iff.mp hj
        exact this.1
      have := (sortedBy_iff _ _).mp hs j hjlt 0 (by omega)
      rw [lessAt_ne c h p j 0 b a0 fb f0 v0 v1 v3 v4 v5 v6 v7 v8 v9 v10 v11 v12 v13 v14 v15 hj h0 hfb hf0 hne] at this
      have := Res.ok.inj this
      simp only [decide_eq_false_iff_not] at this
      omega

theorem ret_some (c : Ctx) (h : Heap) (p : List Nat) (a0 : Nat) (h0 : p[0]? = some a0)
    (v0 v1 v3 v4 v5 v6 v7 v8 v9 v10 v11 v12 v13 v14 v15 : Val) :
    exec c retStmt h (frame v0 v1 (.ptrs p) v3 v4 v5 v6 v7 v8 v9 v10 v11 v12 v13 v14 v15) = .ret h [.ptr a0, .nil] := by
  simp only [retStmt, fieldIR, Stmt.drop, frame]
  have := indexVal_ptrs p 0 a0 h0
  ti_simp [show indexVal (.ptrs p) 0 = .ok (.ptr a0) from this]

theorem ret_none (c : Ctx) (h : Heap) (p : List Nat) (h0 : p[0]? = none)
    (v0 v1 v3 v4 v5 v6 v7 v8 v9 v10 v11 v12 v13 v14 v15 : Val) :
    exec c retStmt h (frame v0 v1 (.ptrs p) v3 v4 v5 v6 v7 v8 v9 v10 v11 v12 v13 v14 v15) = .panic := by
  simp only [retStmt, fieldIR, Stmt.drop, frame]
  have := indexVal_ptrs_none p 0 h0
  ti_simp [show indexVal (.ptrs p) 0 = .panic from this]

/-! ## The whole function -/

/-- `field` up to `sort.Slice`: a conflict is returned, or the candidates are collected. -/
theorem field_run (c : Ctx) (h : Heap) (t : Nat) (strct hp : Val) (root : RType) (n : Int) (addrs : List Nat)
    (fields : List FieldInfo) (param : Bytes)
    (ht : h[t]? = some (tiObj strct root hp addrs n)) (hreps : Reps h addrs fields)
    (htags : TagsOk c.structs root fields) (hfuel : fields.length < c.fuel) :
    match resolveParam.conflict (fields.filter (·.opts.param = param)) [] with
    | some (f1, f2) =>
      execProc c fieldIR h [.ptr t, .str param] = .ok (h ++ [confRec strct f1 f2], [.nil, .ptr h.length])
    | none => ∃ candAddrs v3 v4 v10 v11 v12 v13,
      Reps h candAddrs (fields.filter (·.opts.param = param)) ∧ (∀ a ∈ candAddrs, a ∈ addrs) ∧
      execProc c fieldIR h [.ptr t, .str param] =
        procResult ((exec c sortStmt h (frame (.ptr t) (.str param) (.ptrs candAddrs) v3 v4 .undef .undef .undef .undef
          (.ptrs addrs) v10 v11 v12 v13 .undef .undef)).andThen (exec c retStmt)) := by
  have hexec : execProc c fieldIR h [.ptr t, .str param] =
      procResult ((loop (fun h env => eval c.structs h env outerLoop.forCond >>= asBool) (exec c outerBody)
        (exec c outerLoop.forPost) c.fuel h
        (frame (.ptr t) (.str param) (.ptrs []) .undef .undef .undef .undef .undef .undef (.ptrs addrs) (.int (0 : Nat))
          .undef .undef .undef .undef .undef)).andThen
        (fun h env => (exec c sortStmt h env).andThen (exec c retStmt))) := by
    rw [execProc_eq _ _ _ _ (by rfl)]
    have henv : ([.ptr t, .str param] ++ List.replicate (fieldIR.nslots - fieldIR.nparams) Val.undef) =
        frame (.ptr t) (.str param) .undef .undef .undef .undef .undef .undef .undef .undef .undef .undef .undef .undef .undef .undef := rfl
    rw [henv, exec_take_drop c h _ 2 fieldIR.body]
    have h1 : exec c (fieldIR.body.take 2) h
        (frame (.ptr t) (.str param) .undef .undef .undef .undef .undef .undef .undef .undef .undef .undef .undef .undef .undef .undef) =
        .norm h (frame (.ptr t) (.str param) (.ptrs []) .undef .undef .undef .undef .undef .undef (.ptrs addrs) (.int (0 : Nat))
          .undef .undef .undef .undef .undef) := by
      simp only [fieldIR, Stmt.take, frame]
      ti_simp [fieldOf_ti3 ht]
      rfl
    have hd : fieldIR.body.drop 2 = (outerLoop ;; sortStmt ;; retStmt) := rfl
    rw [h1, andThen_norm, hd, exec_seq, exec_outerLoop]
    rfl
  have hout := outer_loop c h t strct hp root n addrs param ht .undef .undef .undef .undef .undef .undef fields addrs c.fuel 0 [] []
    .undef .undef .undef .undef .undef (by simp) hreps trivial htags (by simp) hfuel (by simpa using hfuel)
  cases hcf : resolveParam.conflict (fields.filter (·.opts.param = param)) [] with
  | some pr =>
    obtain ⟨f1, f2⟩ := pr
    rw [hcf] at hout
    simp only at hout ⊢
    rw [hexec, hout]
    rfl
  | none =>
    rw [hcf] at hout
    simp only at hout ⊢
    obtain ⟨candAddrs, v3', v4', v10', v11', v12', v13', hl, hr, hm⟩ := hout
    refine ⟨candAddrs, v3', v4', v10', v11', v12', v13', hr, hm, ?_⟩
    rw [hexec, hl, andThen_norm, List.nil_append]

theorem field_spec : FieldSpec := by
  intro c h t strct hp root n addrs fields param ht hreps htags hfuel _
  show (execProc c fieldIR h [.ptr t, .str param]).isStuck ∨ FieldPost h addrs fields param (execProc c fieldIR h [.ptr t, .str param])
  have hrun := field_run c h t strct hp root n addrs fields param ht hreps htags hfuel
  unfold FieldPost
  rw [resolveParam_eq]
  cases hcf : resolveParam.conflict (fields.filter (·.opts.param = param)) [] with
  | some pr =>
    obtain ⟨f1, f2⟩ := pr
    rw [hcf] at hrun
    simp only at hrun ⊢
    right
    refine ⟨confRec strct f1 f2, .ptr h.length, hrun, ?_⟩
    simp [absErr, confRec]
  | none =>
    rw [hcf] at hrun
    simp only at hrun ⊢
    obtain ⟨candAddrs, v3, v4, v10, v11, v12, v13, hr, hm, hrun⟩ := hrun
    rw [hrun, exec_sortStmt]
    by_cases hok : ((c.sort h candAddrs).isPerm candAddrs &&
        sortedBy (lessAt (exec c lessBody) h (frame (.ptr t) (.str param) (.ptrs (c.sort h candAddrs)) v3 v4 .undef .undef .undef .undef
          (.ptrs addrs) v10 v11 v12 v13 .undef .undef) 5 6) (c.sort h candAddrs).length) = true
    · right
      rw [if_pos hok, andThen_norm]
      rw [Bool.and_eq_true] at hok
      obtain ⟨hperm, hsorted⟩ := hok
      have hperm : (c.sort h candAddrs).Perm candAddrs := List.isPerm_iff.mp hperm
      generalize c.sort h candAddrs = p at hperm hsorted ⊢
      have hall : ∀ a ∈ p, ∃ fi, h[a]? = some (fiObj fi) := by
        intro a ha
        obtain ⟨fi, _, hfi⟩ := reps_mem_addr hr a (hperm.mem_iff.mp ha)
        exact ⟨fi, hfi⟩
      cases h0 : p[0]? with
      | none =>
        rw [ret_none c h p h0]
        have hp : p = [] := by
          cases p with
          | nil => rfl
          | cons x xs => simp at h0
        subst hp
        have hc0 : candAddrs = [] := by simpa using hperm.symm
        subst hc0
        rw [reps_nil_left hr]
        rfl
      | some a0 =>
        rw [ret_some c h p a0 h0]
        have ha0p : a0 ∈ p := List.mem_iff_getElem?.mpr ⟨0, h0⟩
        have ha0c : a0 ∈ candAddrs := hperm.mem_iff.mp ha0p
        obtain ⟨f0, hf0mem, hf0⟩ := reps_mem_addr hr a0 ha0c
        have hmin := sorted_head_min c h p _ _ _ _ _ _ _ _ _ _ _ _ _ _ _ hsorted hall a0 h0
        have hpw := conflict_none_pairwise _ [] hcf List.Pairwise.nil
        rw [List.nil_append] at hpw
        have hne := pairwise_ne_of_mem (R := fun x y : FieldInfo => ilen x ≠ ilen y) (fun x y hxy => fun e => hxy e.symm) hpw
        have hfold : (fields.filter (·.opts.param = param)).foldl pick none = some f0 := by
          apply foldl_pick_min f0 _ none (Or.inl hf0mem)
          · intro x hx hxne
            obtain ⟨ax, hax, hfx⟩ := reps_mem_fi hr x hx
            have := hmin ax (hperm.mem_iff.mpr hax)
            rw [idxLen_fi hf0, idxLen_fi hfx] at this
            have := hne x hx f0 hf0mem hxne
            simp only [ilen] at this ⊢
            omega
          · intro b hb; simp at hb
        rw [hfold]
        exact ⟨a0, hm a0 ha0c, hf0, rfl⟩
    · left
      rw [if_neg hok]
      exact trivial

/-! ## Non-vacuity: a sorting function whose proposals are accepted -/

/-- Stable sort by index length. -/
def sortByLen : Heap → List Nat → List Nat :=
  fun h l => l.mergeSort (fun a b => decide (idxLen h a ≤ idxLen h b))

theorem reps_pairwise {h : Heap} : ∀ {as : List Nat} {fis : List FieldInfo}, Reps h as fis →
    fis.Pairwise (fun x y => ilen x ≠ ilen y) → as.Pairwise (fun x y => idxLen h x ≠ idxLen h y) := by
  intro as
  induction as with
  | nil => intro _ _ _; exact List.Pairwise.nil
  | cons a as ih =>
    intro fis hr hp
    cases fis with
    | nil => exact hr.elim
    | cons f fis =>
      rw [List.pairwise_cons] at hp ⊢
      refine ⟨?_, ih hr.2 hp.2⟩
      intro y hy
      obtain ⟨fy, hfy, hy'⟩ := reps_mem_addr hr.2 y hy
      rw [idxLen_fi hr.1, idxLen_fi hy']
      exact hp.1 fy hfy

/-- A behaviour of `sort.Slice` that returns a permutation sorted by `len(Index)` (any such permutation,
stable or not). -/
def GoodSort (sort : Heap → List Nat → List Nat) : Prop :=
  ∀ (h : Heap) (l : List Nat), (sort h l).Perm l ∧ (sort h l).Pairwise (fun a b => idxLen h a ≤ idxLen h b)

theorem goodSort_sortByLen : GoodSort sortByLen := by
  intro h l
  refine ⟨List.mergeSort_perm _ _, ?_⟩
  have := List.pairwise_mergeSort (le := fun a b => decide (idxLen h a ≤ idxLen h b))
    (by intro a b c hab hbc; simp only [decide_eq_true_eq] at hab hbc ⊢; omega)
    (by intro a b; simp only [Bool.or_eq_true, decide_eq_true_eq]; omega) l
  exact this.imp (fun hab => by simpa using hab)

/-- With a `GoodSort` behaviour for `sort.Slice`, a run of `field` is never stuck. -/
theorem field_not_stuck_of_good (c : Ctx) (h : Heap) (t : Nat) (strct hp : Val) (root : RType) (n : Int) (addrs : List Nat)
    (fields : List FieldInfo) (param : Bytes)
    (ht : h[t]? = some (tiObj strct root hp addrs n)) (hreps : Reps h addrs fields)
    (htags : TagsOk c.structs root fields) (hfuel : fields.length < c.fuel)
    (hsort : GoodSort c.sort) :
    ¬ (execProc c fieldIR h [.ptr t, .str param]).isStuck := by
  have hrun := field_run c h t strct hp root n addrs fields param ht hreps htags hfuel
  cases hcf : resolveParam.conflict (fields.filter (·.opts.param = param)) [] with
  | some pr =>
    obtain ⟨f1, f2⟩ := pr
    rw [hcf] at hrun
    simp only at hrun
    rw [hrun]
    exact fun hs => hs
  | none =>
    rw [hcf] at hrun
    simp only at hrun
    obtain ⟨candAddrs, v3, v4, v10, v11, v12, v13, hr, hm, hrun⟩ := hrun
    rw [hrun, exec_sortStmt]
    have hperm : (c.sort h candAddrs).Perm candAddrs := (hsort h candAddrs).1
    have hle : (c.sort h candAddrs).Pairwise (fun a b => idxLen h a ≤ idxLen h b) := (hsort h candAddrs).2
    have hpw := conflict_none_pairwise _ [] hcf List.Pairwise.nil
    rw [List.nil_append] at hpw
    have hneC := reps_pairwise hr hpw
    have hneP : (c.sort h candAddrs).Pairwise (fun x y => idxLen h x ≠ idxLen h y) :=
      hperm.symm.pairwise hneC (fun hxy e => hxy e.symm)
    have hlt : (c.sort h candAddrs).Pairwise (fun x y => idxLen h x < idxLen h y) :=
      hle.imp₂ (fun a b h1 h2 => by omega) hneP
    generalize c.sort h candAddrs = p at hperm hlt ⊢
    have hall : ∀ a ∈ p, ∃ fi, h[a]? = some (fiObj fi) := by
      intro a ha
      obtain ⟨fi, _, hfi⟩ := reps_mem_addr hr a (hperm.mem_iff.mp ha)
      exact ⟨fi, hfi⟩
    have hsorted : sortedBy (lessAt (exec c lessBody) h (frame (.ptr t) (.str param) (.ptrs p) v3 v4 .undef .undef .undef .undef
          (.ptrs addrs) v10 v11 v12 v13 .undef .undef) 5 6) p.length = true := by
      rw [sortedBy_iff]
      intro b hb a hab
      have ha : a < p.length := by omega
      have hpa : p[a]? = some p[a] := List.getElem?_eq_getElem ha
      have hpb : p[b]? = some p[b] := List.getElem?_eq_getElem hb
      obtain ⟨fa, hfa⟩ := hall p[a] (List.getElem_mem ha)
      obtain ⟨fb, hfb⟩ := hall p[b] (List.getElem_mem hb)
      have := List.pairwise_iff_getElem.mp hlt a b ha hb hab
      rw [idxLen_fi hfa, idxLen_fi hfb] at this
      rw [lessAt_ne c h p b a p[b] p[a] fb fa _ _ _ _ _ _ _ _ _ _ _ _ _ _ _ hpb hpa hfb hfa (by omega)]
      have : ¬ fb.index.length < fa.index.length := by omega
      simp [this]
    rw [List.isPerm_iff.mpr hperm, hsorted, Bool.and_self, if_pos rfl, andThen_norm]
    cases h0 : p[0]? with
    | none => rw [ret_none c h p h0]; exact fun hs => hs
    | some a0 => rw [ret_some c h p a0 h0]; exact fun hs => hs

/-- With `sortByLen` for `sort.Slice`, a run of `field` is never stuck. -/
theorem field_not_stuck (c : Ctx) (h : Heap) (t : Nat) (strct hp : Val) (root : RType) (n : Int) (addrs : List Nat)
    (fields : List FieldInfo) (param : Bytes)
    (ht : h[t]? = some (tiObj strct root hp addrs n)) (hreps : Reps h addrs fields)
    (htags : TagsOk c.structs root fields) (hfuel : fields.length < c.fuel)
    (hsort : c.sort = sortByLen) :
    ¬ (execProc c fieldIR h [.ptr t, .str param]).isStuck :=
  field_not_stuck_of_good c h t strct hp root n addrs fields param ht hreps htags hfuel (by rw [hsort]; exact goodSort_sortByLen)

end GoCrypt.TIIR.Field

#print axioms GoCrypt.TIIR.Field.field_spec
#print axioms GoCrypt.TIIR.Field.field_not_stuck
