import GoCrypt.Proofs.TIIRNorm

/-!
# Type-info IR: `normalize` with the heap of the error path

`Proofs/TIIRNorm.lean` proves `normalize` = `normalizeLoop` but says nothing about the heap when an error is
returned.  The cache theorems need it (after a failing `getTypeInfo` the cached records must still be
there), so the induction over the first loop is repeated here with one more fact: on the error path the
heap is the initial one with the `typeInfo` record `t` rewritten, plus appended records (`NormPostF`).
Same case lemmas (`Norm.body1_*`, `Norm.nl_*`) as the original.  Helper lemmas only.
-/

namespace GoCrypt.TIIR.NormF
open GoCrypt.Codec GoCrypt.Gen.typeinfoIR GoCrypt.TIIR GoCrypt.TIIR.Norm

/-- `Norm.Post1` with the heap of the error path. -/
def Post1F (B : Prop) (h : Heap) (t : Nat) (st root : RType) (addrs : List Nat) (bound : Nat) (res : Except TagErr TypeInfo)
    (r : Out) : Prop :=
  (B ∧ ∃ w, r = .stuck w) ∨
  match res with
  | .ok out => ∃ hp' outA m' v3' v4' v5' v6' v7',
      r = .norm (h.set t (tiObj (.rtype st) root hp' addrs 0))
        [.ptr t, .ptrs outA, .map m', v3', v4', v5', v6', v7', .undef, .ptrs addrs, .int addrs.length, .undef, .undef] ∧
      RepOpt h hp' out.hashPrefix ∧ Reps h outA out.fields ∧ outA.length ≤ bound ∧
      out.numReqValues = (out.fields.filter countsAsRequired).length ∧
      (∀ x ∈ outA, x ∈ addrs) ∧ (hp' = .nil ∨ ∃ x ∈ addrs, hp' = .ptr x)
  | .error e => ∃ hp' ext v, r = .ret (h.set t (tiObj (.rtype st) root hp' addrs 0) ++ ext) [v] ∧
      absErr (h.set t (tiObj (.rtype st) root hp' addrs 0) ++ ext) v = some e

/-- `NormPost` with the heap of the error path: the record `t` rewritten, records appended. -/
def NormPostF (h : Heap) (t : Nat) (strct : Val) (root : RType) (raw : List FieldInfo)
    (r : Res (Heap × List Val)) : Prop :=
  match normalizeLoop raw raw {} [] with
  | .ok out => ∃ hp outAddrs,
      r = .ok (h.set t (tiObj strct root hp outAddrs out.numReqValues), [.nil]) ∧
      RepOpt h hp out.hashPrefix ∧ Reps h outAddrs out.fields ∧
      (∀ x ∈ outAddrs, ∃ st' addrs0 n0, h[t]? = some (tiObj st' root .nil addrs0 n0) ∧ x ∈ addrs0) ∧
      (hp = .nil ∨ ∃ x st' addrs0 n0, h[t]? = some (tiObj st' root .nil addrs0 n0) ∧ x ∈ addrs0 ∧ hp = .ptr x)
  | .error e => ∃ o' ext v, r = .ok (h.set t o' ++ ext, [v]) ∧ absErr (h.set t o' ++ ext) v = some e

theorem loop1_specF (B : Prop) (c : Ctx) (h : Heap) (t : Nat) (st root : RType) (addrs : List Nat) (raw : List FieldInfo)
    (hcf : CallsFieldG B c) (ht : h[t]? = some (tiObj (.rtype st) root .nil addrs 0)) (hreps : Reps h addrs raw)
    (htags : TagsOk c.structs root raw) (hfuel : raw.length < c.fuel) (hidx : ∀ fi ∈ raw, fi.index.length < c.fuel) :
    ∀ (rest : List FieldInfo) (restA pre : List Nat) (fuel : Nat) (hp : Val) (acc : TypeInfo) (accA : List Nat)
      (m : List (Bytes × Bool)) (v3 v4 v5 v6 v7 : Val),
      rest.length ≤ fuel → addrs = pre ++ restA → Reps h restA rest → (∀ f ∈ rest, f ∈ raw) →
      RepOpt h hp acc.hashPrefix → Reps h accA acc.fields → accA.length + rest.length ≤ raw.length →
      (∀ x ∈ accA, x ∈ addrs) → (hp = .nil ∨ ∃ x ∈ addrs, hp = .ptr x) →
      Post1F B h t st root addrs raw.length (normalizeLoop raw rest acc (m.map Prod.fst))
        (loop (fun h env => eval c.structs h env loop1.forCond >>= asBool) (exec c body1) (exec c loop1.forPost) fuel
          (h.set t (tiObj (.rtype st) root hp addrs 0))
          [.ptr t, .ptrs accA, .map m, v3, v4, v5, v6, v7, .undef, .ptrs addrs, .int pre.length, .undef, .undef]) := by
  intro rest
  induction rest with
  | nil =>
    intro restA pre fuel hp acc accA m v3 v4 v5 v6 v7 hfu hadd hrr hmem hro hra hb hsub hhp
    cases restA with
    | cons a as => simp [Reps] at hrr
    | nil =>
      simp only [List.append_nil] at hadd
      subst hadd
      rw [loop_false _ _ _ _ _ _ (by rw [cond1_eq]; simp)]
      right
      simp only [normalizeLoop]
      exact ⟨hp, accA, m, v3, v4, v5, v6, v7, rfl, hro, hra, by simpa using hb, trivial, hsub, hhp⟩
  | cons f rest ih =>
    intro restA pre fuel hp acc accA m v3 v4 v5 v6 v7 hfu hadd hrr hmem hro hra hb hsub hhp
    cases restA with
    | nil => simp [Reps] at hrr
    | cons a restA =>
      obtain ⟨hfa0, hrr'⟩ := hrr
      cases fuel with
      | zero => simp at hfu
      | succ n =>
        have hne : t ≠ a := ne_of_objs ht (tiObj_length _ _ _ _ _) hfa0
        have hfa : (h.set t (tiObj (.rtype st) root hp addrs 0))[a]? = some (fiObj f) := by
          rw [get_set_ne _ _ hne]; exact hfa0
        have hti : (h.set t (tiObj (.rtype st) root hp addrs 0))[t]? = some (tiObj (.rtype st) root hp addrs 0) :=
          get_set_self _ ht
        have hk : addrs[pre.length]? = some a := by subst hadd; simp
        have hamem : a ∈ addrs := List.mem_of_getElem? hk
        have hsnoc : ∀ y, y ∈ addrs → ∀ x ∈ accA ++ [y], x ∈ addrs := by
          intro y hy x hx
          rcases List.mem_append.mp hx with hx | hx
          · exact hsub x hx
          · simp at hx; subst hx; exact hy
        have hlen : pre.length < addrs.length := by subst hadd; simp
        have hpre' : addrs = (pre ++ [a]) ++ restA := by subst hadd; simp
        have hlen' : (pre ++ [a]).length = pre.length + 1 := by simp
        have hfu' : rest.length ≤ n := by simp at hfu; omega
        have hmem' : ∀ f ∈ rest, f ∈ raw := fun g hg => hmem g (List.mem_cons_of_mem _ hg)
        have hfraw : f ∈ raw := hmem f (List.mem_cons_self)
        have hb' : accA.length + rest.length ≤ raw.length := by simp at hb; omega
        have hb'' : (accA ++ [a]).length + rest.length ≤ raw.length := by simp at hb ⊢; omega
        rw [loop_step _ _ _ _ _ _ (by rw [cond1_eq]; simp [hlen])]
        rw [exec_take_drop c _ _ 6 body1, body1_valid c _ t accA m v3 v4 v5 v6 v7 addrs pre.length a f hk hfa, andThen_norm]
        cases hv : validOpts f.opts with
        | false =>
          obtain ⟨gf, i, hfb, htag⟩ := htags f hfraw
          rw [body1_invalid c _ t accA m v5 v6 v7 addrs pre.length a f st root hp addrs 0 gf i hfa hti hfb, afterBody_ret,
            nl_invalid _ _ _ _ _ hv]
          right
          exact ⟨hp, [], _, by rw [List.append_nil], by simp [absErr, htag]⟩
        | true =>
          cases hpre : f.opts.isPrefix with
          | true =>
            rw [body1_prefix c _ t accA m v5 v6 v7 addrs pre.length a f _ root hp addrs 0 hfa hti hpre, afterBody_cont,
              post1_eq, afterPost_norm, nl_prefix _ _ _ _ _ hv hpre, List.set_set, ← hlen']
            exact ih restA (pre ++ [a]) n (.ptr a) _ accA m _ _ _ _ _ hfu' hpre' hrr' hmem' hfa0 hra hb' hsub
              (Or.inr ⟨a, hamem, rfl⟩)
          | false =>
            by_cases hpar : f.opts.param = []
            · rw [body1_plain c _ t accA m v5 v6 v7 addrs pre.length a f hfa hpre hpar, afterBody_cont,
                post1_eq, afterPost_norm, nl_plain _ _ _ _ _ hv hpre hpar, ← hlen']
              exact ih restA (pre ++ [a]) n hp _ (accA ++ [a]) m _ _ _ _ _ hfu' hpre' hrr' hmem' hro
                (reps_append hfa0 _ _ hra) hb'' (hsnoc a hamem) hhp
            · cases hseen : (mapLookup m f.opts.param).isSome with
              | true =>
                rw [body1_seen c _ t accA m v5 v6 v7 addrs pre.length a f hfa hpre hpar hseen, afterBody_cont,
                  post1_eq, afterPost_norm, nl_seen _ _ _ _ _ hv hpre hpar (by rw [← lookup_isSome]; exact hseen), ← hlen']
                exact ih restA (pre ++ [a]) n hp _ accA m _ _ _ _ _ hfu' hpre' hrr' hmem' hro hra hb' hsub hhp
              | false =>
                have hs : (m.map Prod.fst).contains f.opts.param = false := by rw [← lookup_isSome]; exact hseen
                have hfp := hcf _ t (.rtype st) hp root 0 addrs raw f.opts.param hti
                  (reps_set _ ht (tiObj_length _ _ _ _ _) addrs raw hreps) htags hfuel hidx
                rcases hfp with ⟨hB, hst⟩ | hfp
                · obtain ⟨w, hw⟩ := (isStuck_iff _).1 hst
                  rw [body1_call_stuck c _ t accA m v5 v6 v7 addrs pre.length a f w hfa hpre hpar hseen hw, afterBody_stuck]
                  exact Or.inl ⟨hB, w, rfl⟩
                · unfold FieldPost at hfp
                  cases hrp : resolveParam raw f.opts.param with
                  | error e =>
                    rw [hrp] at hfp
                    obtain ⟨o, v, hcall, habs⟩ := hfp
                    rw [body1_call_err c _ t accA m v5 v6 v7 addrs pre.length a f _ v hfa hpre hpar hseen hcall
                      (absErr_nonnil habs), afterBody_ret, nl_err _ _ _ _ _ hv hpre hpar hs e hrp]
                    right
                    exact ⟨hp, [o], v, rfl, habs⟩
                  | ok x =>
                    cases x with
                    | none => exact absurd rfl (resolveParam_none hrp f hfraw)
                    | some fi =>
                      rw [hrp] at hfp
                      obtain ⟨a', ha'mem, hfa', hcall⟩ := hfp
                      have hne' : t ≠ a' := ne_of_objs hti (tiObj_length _ _ _ _ _) hfa'
                      have hfa0' : h[a']? = some (fiObj fi) := by rw [get_set_ne _ _ hne'] at hfa'; exact hfa'
                      rw [body1_call_ok c _ t accA m v5 v6 v7 addrs pre.length a f a' hfa hpre hpar hseen hcall,
                        afterBody_norm, post1_eq, afterPost_norm, nl_ok _ _ _ _ _ hv hpre hpar hs fi hrp, ← hlen']
                      exact ih restA (pre ++ [a]) n hp _ (accA ++ [a']) ((f.opts.param, true) :: m) _ _ _ _ _ hfu' hpre' hrr'
                        hmem' hro (reps_append hfa0' _ _ hra) (by simp at hb ⊢; omega) (hsnoc a' ha'mem) hhp

/-! ## The second loop -/

theorem norm_spec_genF (B : Prop) (c : Ctx) (h : Heap) (t : Nat) (st : RType) (root : RType) (addrs : List Nat)
    (raw : List FieldInfo) (hcf : CallsFieldG B c)
    (ht : h[t]? = some (tiObj (.rtype st) root .nil addrs 0)) (hreps : Reps h addrs raw)
    (htags : TagsOk c.structs root raw) (hfuel : raw.length < c.fuel) (hidx : ∀ fi ∈ raw, fi.index.length < c.fuel) :
    (B ∧ (execProc c normalizeIR h [.ptr t]).isStuck) ∨
      NormPostF h t (.rtype st) root raw (execProc c normalizeIR h [.ptr t]) := by
  rw [execProc_eq _ _ _ _ (by rfl)]
  show (B ∧ (procResult (exec c normalizeIR.body h
      [.ptr t, .undef, .undef, .undef, .undef, .undef, .undef, .undef, .undef, .undef, .undef, .undef, .undef])).isStuck) ∨
    NormPostF h t (.rtype st) root raw (procResult (exec c normalizeIR.body h
      [.ptr t, .undef, .undef, .undef, .undef, .undef, .undef, .undef, .undef, .undef, .undef, .undef, .undef]))
  rw [exec_take_drop c _ _ 3, init_eq c h t _ root _ addrs _ ht, andThen_norm, drop3_eq, exec_seq, exec_loop1]
  have key := loop1_specF B c h t st root addrs raw hcf ht hreps htags hfuel hidx raw addrs [] c.fuel .nil {} [] []
    .undef .undef .undef .undef .undef (by omega) rfl hreps (fun f hf => hf) trivial trivial (by simp)
    (fun x hx => by cases hx) (Or.inl rfl)
  rw [set_get_self ht] at key
  simp only [List.map_nil, List.length_nil] at key
  unfold Post1F at key
  rcases key with ⟨hB, w, hw⟩ | key
  · rw [hw]; left; exact ⟨hB, trivial⟩
  · unfold NormPostF
    cases hres : normalizeLoop raw raw {} [] with
    | error e =>
      rw [hres] at key
      obtain ⟨hp', ext, v, hr, habs⟩ := key
      rw [hr]
      right
      exact ⟨_, ext, v, rfl, habs⟩
    | ok out =>
      rw [hres] at key
      obtain ⟨hp', outA, m', v3', v4', v5', v6', v7', hr, hro, hra, hbound, hnum, hsubO, hhpO⟩ := key
      rw [hr, andThen_norm, drop4_eq, exec_seq, init2_eq, andThen_norm, exec_seq, exec_loop2]
      obtain ⟨e8', h2⟩ := loop2_spec c h t (.rtype st) root hp' addrs outA _ ht (tiObj_length _ _ _ _ _)
        (.ptrs outA) (.map m') v3' v4' v5' v6' v7' (.ptrs addrs) (.int addrs.length) out.fields outA [] c.fuel 0 .undef
        (by have := reps_length _ _ hra; omega) rfl hra
      have e0 : ((0 : Nat) : Int) = 0 := rfl
      simp only [List.length_nil, Nat.zero_add] at h2
      rw [e0] at h2 ⊢
      rw [h2, andThen_norm, final_eq c h t _ ht]
      right
      refine ⟨hp', outA, ?_, hro, hra, fun x hx => ⟨_, addrs, 0, ht, hsubO x hx⟩,
        hhpO.imp id (fun ⟨x, hx, he⟩ => ⟨x, _, addrs, 0, ht, hx, he⟩)⟩
      rw [hnum]
      simp

end GoCrypt.TIIR.NormF
