import GoCrypt.Proofs.SIREncWriteInterior

/-!
# Stream IR of `hash/base64le`: `(*encoder).Write` — the interior loop is the model's `encInterior`

Helper lemmas only; the property theorems are in `Props/SIREncoder.lean`.
-/

namespace GoCrypt.SIR
open GoCrypt.B64IR (Buf Heap Slice Res sliceBytes writeList padInt decodeMapBytes encVal)
open GoCrypt.Base64LE GoCrypt.Stream GoCrypt.Gen.base64leStream GoCrypt.Gen.base64le

/-- The number of bytes one interior iteration encodes. -/
def intNN (len : Nat) : Nat := if 768 > len then len - len % 3 else 768

theorem intNN_props (len : Nat) (h : 3 ≤ len) : intNN len % 3 = 0 ∧ intNN len ≤ 768 ∧ intNN len ≤ len ∧ 3 ≤ intNN len := by
  unfold intNN; split <;> omega

/-- `nn := len(e.out) / 4 * 3; if nn > len(p) { nn = len(p); nn -= nn % 3 }` -/
theorem interior_nn (c : Ctx) (W : World) (d bp off len : Nat) (n : Int) (v4 v5 v6 : Val) (hlen : len < 2 ^ 62) :
    exec c (wInterior.forBody.take 2) W [.ptr d, .slice ⟨bp, off, len, len⟩, .int n, .err none, v4, v5, v6] =
      .norm W [.ptr d, .slice ⟨bp, off, len, len⟩, .int n, .err none, v4, .int (intNN len : Nat), v6] := by
  simp only [wInterior, Stmt.forBody, Stmt.head, Stmt.drop, Stmt.take, encoderWriteIR, intNN]
  by_cases h : 768 > len
  · have h' : (768 : Int) > (len : Int) := by omega
    b64_simp [h, h', natCast_tmod_ofNat]
  · have h' : ¬ (768 : Int) > (len : Int) := by omega
    b64_simp [h, h']

theorem encInterior_succ (e : Encoding) (st : EncSt) (p : Bytes) (n fuel : Nat) :
    encInterior e st p n (fuel + 1) =
      if p.length ≥ 3 then
        if (st.wWrite (encode e (p.take (intNN p.length)))).err.isSome then (st.wWrite (encode e (p.take (intNN p.length))), p, n)
        else encInterior e (st.wWrite (encode e (p.take (intNN p.length)))) (p.drop (intNN p.length)) (n + intNN p.length) fuel
      else (st, p, n) := by
  rw [encInterior]; rfl

theorem encInterior_short (e : Encoding) (st : EncSt) (p : Bytes) (n fuel : Nat) (h : p.length < 3) :
    encInterior e st p n fuel = (st, p, n) := by
  cases fuel with
  | zero => rfl
  | succ f => rw [encInterior_succ, if_neg (by omega)]

theorem wWrite_err_of_none (st : EncSt) (d : Bytes) (h : (st.wWrite d).err = none) : st.err = none := by
  unfold EncSt.wWrite at h
  split at h <;> simp_all

set_option maxHeartbeats 1000000 in
theorem interior_loop (n' : Nat) (hlib : EncLibSpec lib) (L : EncLayout) (e : Encoding) (O : List Obj) (P : Buf) (bp : Nat)
    (v4 v6 : Val) (hobj : O[L.d]? = some (encoderObj L.ae L.k L.bb L.bo none 0)) (hne : L.bo ≠ bp) (hne6 : L.d ≠ L.ae)
    (hne4 : L.bo ≠ L.b1) (hne5 : L.bo ≠ L.b2) (hsz : P.size < 2 ^ 62) :
    ∀ (m len : Nat), len ≤ m → ∀ (H : Heap) (X : List Ext) (st : EncSt) (off n : Nat) (v5 : Val) (Ob : Buf) (fuelI fuelM : Nat),
      st.err = none → EncAt H O L.ae L.b1 L.b2 e → X[L.k]? = some (writerOf st) → H[L.bo]? = some Ob → Ob.size = 1024 →
      H[bp]? = some P → off + len = P.size → len / 3 + 1 ≤ fuelI → len / 3 + 1 ≤ fuelM → n + len < 2 ^ 62 →
      ∃ (H' : Heap) (v5' : Val) (Ob' : Buf), H'[L.bo]? = some Ob' ∧ Ob'.size = 1024 ∧ (∀ b, b ≠ L.bo → H'[b]? = H[b]?) ∧
        H'.length = H.length ∧
        loop (fun W env => eval W env wInterior.forCond >>= asBool)
            (exec { call := callIn program lib (n' + 1) } wInterior.forBody) (exec { call := callIn program lib (n' + 1) } .skip)
            fuelI ⟨H, O, X⟩ [.ptr L.d, .slice ⟨bp, off, len, len⟩, .int n, .err none, v4, v5, v6] =
          (if (encInterior e st (P.toList.drop off) n fuelM).1.err.isSome then
            .ret ⟨H', O.set L.d (encoderObj L.ae L.k L.bb L.bo (encInterior e st (P.toList.drop off) n fuelM).1.err 0),
                X.set L.k (writerOf (encInterior e st (P.toList.drop off) n fuelM).1)⟩
              [.int (encInterior e st (P.toList.drop off) n fuelM).2.2, .err (encInterior e st (P.toList.drop off) n fuelM).1.err]
          else
            .norm ⟨H', O, X.set L.k (writerOf (encInterior e st (P.toList.drop off) n fuelM).1)⟩
              [.ptr L.d, .slice ⟨bp, P.size - (encInterior e st (P.toList.drop off) n fuelM).2.1.length,
                  (encInterior e st (P.toList.drop off) n fuelM).2.1.length, (encInterior e st (P.toList.drop off) n fuelM).2.1.length⟩,
                .int (encInterior e st (P.toList.drop off) n fuelM).2.2, .err none, v4, v5', v6]) ∧
        ((encInterior e st (P.toList.drop off) n fuelM).1.err = none →
          (encInterior e st (P.toList.drop off) n fuelM).2.1 =
              P.toList.drop (P.size - (encInterior e st (P.toList.drop off) n fuelM).2.1.length) ∧
            (encInterior e st (P.toList.drop off) n fuelM).2.1.length < 3 ∧
            (encInterior e st (P.toList.drop off) n fuelM).2.2 + (encInterior e st (P.toList.drop off) n fuelM).2.1.length = n + len) := by
  intro m
  induction m with
  | zero =>
    intro len hle H X st off n v5 Ob fuelI fuelM herr henc hwr hOb hObs hP hwin hfI hfM hn
    have hl0 : len = 0 := by omega
    subst hl0
    have hpl : (P.toList.drop off).length = 0 := by simp; omega
    rw [encInterior_short e st _ n fuelM (by omega)]
    dsimp only
    refine ⟨H, v5, Ob, hOb, hObs, fun _ _ => rfl, rfl, ?_, ?_⟩
    · simp only [herr, Option.isSome_none, Bool.false_eq_true, if_false, hpl]
      rw [loop_false]
      · rw [list_set_self X L.k _ hwr]
        have : P.size - 0 = off := by omega
        rw [this]
      · simp only [wInterior, Stmt.forCond, Stmt.head, Stmt.drop, encoderWriteIR]
        b64_simp []
    · intro _
      refine ⟨?_, by omega, by omega⟩
      rw [hpl]; congr 1
  | succ m ih =>
    intro len hle H X st off n v5 Ob fuelI fuelM herr henc hwr hOb hObs hP hwin hfI hfM hn
    have hpl : (P.toList.drop off).length = len := by simp; omega
    by_cases hshort : len < 3
    · rw [encInterior_short e st _ n fuelM (by omega)]
      dsimp only
      refine ⟨H, v5, Ob, hOb, hObs, fun _ _ => rfl, rfl, ?_, ?_⟩
      · simp only [herr, Option.isSome_none, Bool.false_eq_true, if_false, hpl]
        rw [loop_false]
        · rw [list_set_self X L.k _ hwr]
          have : P.size - len = off := by omega
          rw [this]
        · simp only [wInterior, Stmt.forCond, Stmt.head, Stmt.drop, encoderWriteIR]
          b64_simp []
          exact congrArg _ (decide_eq_false (by omega))
      · intro _
        refine ⟨?_, by omega, by omega⟩
        rw [hpl]; congr 1; omega
    · have hge : 3 ≤ len := by omega
      obtain ⟨fI, rfl⟩ : ∃ k, fuelI = k + 1 := ⟨fuelI - 1, by omega⟩
      obtain ⟨fM, rfl⟩ : ∃ k, fuelM = k + 1 := ⟨fuelM - 1, by omega⟩
      have hnn := intNN_props len hge
      have hcond : (eval ⟨H, O, X⟩ [.ptr L.d, .slice ⟨bp, off, len, len⟩, .int n, .err none, v4, v5, v6] wInterior.forCond >>= asBool) =
          .ok true := by
        simp only [wInterior, Stmt.forCond, Stmt.head, Stmt.drop, encoderWriteIR]
        b64_simp []
        exact congrArg _ (decide_eq_true (by omega))
      rw [loop_step _ _ _ _ _ _ hcond, exec_take_drop _ _ _ 2 wInterior.forBody,
        interior_nn _ _ _ _ _ _ _ _ _ _ (by omega), andThen_norm]
      have hcore := interior_core n' hlib L e st herr H O X Ob P bp off len n (intNN len) v4 v6 henc hobj hwr hOb hObs hP hne hne6
        hwin hsz (by omega) hnn.1 hnn.2.1 hnn.2.2.1
      simp only [wIntCore] at hcore
      rw [hcore, encInterior_succ, hpl, if_pos hge]
      have hbol : L.bo < H.length := lt_of_getElem? hOb
      cases hres : (st.wWrite (encode e ((P.toList.drop off).take (intNN len)))).err with
      | some cerr =>
        refine ⟨H.set L.bo (writeAt Ob 0 (encode e ((P.toList.drop off).take (intNN len)))), v5, _, List.getElem?_set_self hbol,
          by rw [B64IR.writeAt_size]; exact hObs, fun b hb => List.getElem?_set_ne (Ne.symm hb), by simp, ?_, ?_⟩
        · simp only [hres, Option.isSome_some, if_true, afterBody_ret]
        · intro h; simp [hres] at h
      | none =>
        simp only [hres, Option.isSome_none, Bool.false_eq_true, if_false, afterBody_norm, exec_skip, afterPost_norm]
        have hH1 : (H.set L.bo (writeAt Ob 0 (encode e ((P.toList.drop off).take (intNN len)))))[L.bo]? =
            some (writeAt Ob 0 (encode e ((P.toList.drop off).take (intNN len)))) := List.getElem?_set_self hbol
        obtain ⟨H', v5', Ob', h1, h2, h3, h4, h5, h6⟩ := ih (len - intNN len) (by omega)
          (H.set L.bo (writeAt Ob 0 (encode e ((P.toList.drop off).take (intNN len)))))
          (X.set L.k (writerOf (st.wWrite (encode e ((P.toList.drop off).take (intNN len))))))
          (st.wWrite (encode e ((P.toList.drop off).take (intNN len)))) (off + intNN len) (n + intNN len) (.int (intNN len : Nat))
          (writeAt Ob 0 (encode e ((P.toList.drop off).take (intNN len)))) fI fM hres
          (henc.mono _ _ rfl (List.getElem?_set_ne hne4) (List.getElem?_set_ne hne5))
          (List.getElem?_set_self (lt_of_getElem? hwr)) hH1 (by rw [B64IR.writeAt_size]; exact hObs)
          (by rw [List.getElem?_set_ne hne]; exact hP) (by omega) (by omega) (by omega) (by omega)
        rw [List.drop_drop] at *
        rw [List.set_set] at h5
        refine ⟨H', v5', Ob', h1, h2, fun b hb => (h3 b hb).trans (List.getElem?_set_ne (Ne.symm hb)), by rw [h4]; simp, h5, ?_⟩
        intro h
        obtain ⟨g1, g2, g3⟩ := h6 h
        exact ⟨g1, g2, by omega⟩

end GoCrypt.SIR
