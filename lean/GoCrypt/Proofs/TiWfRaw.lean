import GoCrypt.Proofs.CodecL2

/-!
# `getRawTypeInfo` (`rawFields`): what every raw field satisfies

Facts about the field list `rawFields structs fuel s` (`Model/TagInfo.lean`), for ANY struct description,
ANY fuel — nothing is assumed about `structs`:

* `raw_optInv` — every raw field's options satisfy `OptInv`: the base is in `2..36`, and a positive
  `length` comes with `hasLength` (the tag loop sets the two together);
* `raw_index_nodup` — the index paths are pairwise distinct (the path starts with the POSITION of the
  field in its struct, so this needs no assumption on field names);
* `raw_forall` — a property of the leaves that does not depend on the index path holds of every raw field
  if it holds of every non-skipped, non-embedded field of every struct of `structs`.
-/

namespace GoCrypt.Codec
open Bytes

namespace TiWf

/-- What the tag loop guarantees for the options of one field. -/
structure OptInv (o : FieldOpts) : Prop where
  base_lo : 2 ≤ o.base
  base_hi : o.base ≤ 36
  len : 0 < o.length → o.hasLength = true

theorem applyPart_inv (o : FieldOpts) (part : Bytes) (h : OptInv o) : OptInv (applyPart o part) := by
  obtain ⟨h1, h2, h3⟩ := h
  unfold applyPart
  split
  · exact ⟨h1, h2, h3⟩
  split
  · exact ⟨h1, h2, h3⟩
  split
  · exact ⟨h1, h2, h3⟩
  split
  · split
    · split
      · exact ⟨h1, h2, fun _ => rfl⟩
      · exact ⟨h1, h2, fun _ => rfl⟩
    · exact ⟨h1, h2, h3⟩
  split
  · exact ⟨h1, h2, h3⟩
  split
  · split
    · split
      · rename_i hv
        exact ⟨hv.1, hv.2, h3⟩
      · exact ⟨h1, h2, h3⟩
    · exact ⟨h1, h2, h3⟩
  split
  · split
    · exact ⟨h1, h2, h3⟩
    · split
      · exact ⟨h1, h2, h3⟩
      · exact ⟨h1, h2, h3⟩
  · exact ⟨h1, h2, h3⟩

theorem foldl_applyPart_inv : ∀ (parts : List Bytes) (o : FieldOpts), OptInv o → OptInv (parts.foldl applyPart o)
  | [], _, h => h
  | p :: ps, o, h => foldl_applyPart_inv ps (applyPart o p) (applyPart_inv o p h)

theorem fieldOpts_inv (f : GoField) : OptInv (fieldOpts f) := by
  unfold fieldOpts
  apply foldl_applyPart_inv
  have h0 : OptInv ({} : FieldOpts) := ⟨by decide, by decide, fun h => absurd h (by decide)⟩
  have h1 : OptInv (if f.name = "HashPrefix" then { ({} : FieldOpts) with isPrefix := true, enc := .none } else {}) := by
    split
    · exact ⟨by decide, by decide, fun h => absurd h (by decide)⟩
    · exact h0
  split
  · exact ⟨h1.1, h1.2, fun _ => rfl⟩
  · exact h1

/-- The leaf `getRawTypeInfo` builds for a field that is neither skipped nor an embedded struct. -/
def leaf (f : GoField) (idx : List Nat) : FieldInfo :=
  { index := idx, name := f.name, kind := f.kind, ptrDepth := f.ptrDepth, typeName := f.typeName, tag := f.tag,
    marshalText := f.marshalText, unmarshalText := f.unmarshalText, opts := fieldOpts f }

def skipped (f : GoField) : Bool := (!f.exported && !f.anonymous) || f.tag = tagDash

/-- The embedded struct a field is flattened into, if any. -/
def embeddedOf (structs : List GoStruct) (f : GoField) : Option GoStruct :=
  if f.anonymous then
    match f.kind with
    | .structRef n => lookupStruct structs n
    | _ => none
  else none

/-- What one field of a struct contributes. -/
def piece (structs : List GoStruct) (fuel : Nat) (p : GoField × Nat) : List FieldInfo :=
  if skipped p.1 then []
  else match embeddedOf structs p.1 with
    | some st => (rawFields structs fuel st).map fun fi => { fi with index := p.2 :: fi.index }
    | none => [leaf p.1 [p.2]]

theorem rawFields_succ (structs : List GoStruct) (fuel : Nat) (s : GoStruct) :
    rawFields structs (fuel + 1) s = (s.fields.zipIdx).flatMap (piece structs fuel) := by
  rw [rawFields]
  rfl

theorem lookupStruct_mem {structs : List GoStruct} {n : String} {st : GoStruct}
    (h : lookupStruct structs n = some st) : st ∈ structs :=
  List.mem_of_find?_eq_some h

/-- A property of the leaves that does not look at the index path. -/
theorem raw_forall (structs : List GoStruct) (P : FieldInfo → Prop)
    (hidx : ∀ fi idx, P fi → P { fi with index := idx })
    (hleaf : ∀ s ∈ structs, ∀ f ∈ s.fields, skipped f = false → embeddedOf structs f = none → ∀ i, P (leaf f [i])) :
    ∀ (fuel : Nat) (s : GoStruct), s ∈ structs → ∀ fi ∈ rawFields structs fuel s, P fi
  | 0, _, _, fi, h => by simp [rawFields] at h
  | fuel + 1, s, hs, fi, h => by
    rw [rawFields_succ, List.mem_flatMap] at h
    obtain ⟨⟨f, i⟩, hp, hfi⟩ := h
    have hf : f ∈ s.fields := by
      have := List.mem_zipIdx hp
      rw [this.2.2]
      exact List.getElem_mem _
    simp only [piece] at hfi
    split at hfi
    · cases hfi
    · rename_i hsk
      split at hfi
      · rename_i st he
        obtain ⟨g, hg, rfl⟩ := List.mem_map.1 hfi
        have hst : st ∈ structs := by
          unfold embeddedOf at he
          split at he
          · split at he
            · exact lookupStruct_mem he
            · cases he
          · cases he
        exact hidx g _ (raw_forall structs P hidx hleaf fuel st hst g hg)
      · rename_i he
        simp only [List.mem_singleton] at hfi
        subst hfi
        exact hleaf s hs f hf (by simpa using hsk) he i

/-- The same for a property that holds of every leaf, whatever the struct description. -/
theorem raw_forall' (structs : List GoStruct) (P : FieldInfo → Prop)
    (hidx : ∀ fi idx, P fi → P { fi with index := idx })
    (hleaf : ∀ f idx, P (leaf f idx)) :
    ∀ (fuel : Nat) (s : GoStruct), ∀ fi ∈ rawFields structs fuel s, P fi
  | 0, _, fi, h => by simp [rawFields] at h
  | fuel + 1, s, fi, h => by
    rw [rawFields_succ, List.mem_flatMap] at h
    obtain ⟨⟨f, i⟩, -, hfi⟩ := h
    simp only [piece] at hfi
    split at hfi
    · cases hfi
    · split at hfi
      · obtain ⟨g, hg, rfl⟩ := List.mem_map.1 hfi
        exact hidx g _ (raw_forall' structs P hidx hleaf fuel _ g hg)
      · simp only [List.mem_singleton] at hfi
        subst hfi
        exact hleaf f _

/-- Every raw field carries options the tag loop can produce. -/
theorem raw_optInv (structs : List GoStruct) (fuel : Nat) (s : GoStruct) :
    ∀ fi ∈ rawFields structs fuel s, OptInv fi.opts :=
  raw_forall' structs (fun fi => OptInv fi.opts) (fun _ _ h => h) (fun f _ => fieldOpts_inv f) fuel s

/-- A field marked as prefix is a field NAMED `HashPrefix` (the only place the flag is set). -/
theorem applyPart_isPrefix (o : FieldOpts) (part : Bytes) : (applyPart o part).isPrefix = o.isPrefix := by
  unfold applyPart
  repeat' split
  all_goals rfl

theorem foldl_applyPart_isPrefix : ∀ (parts : List Bytes) (o : FieldOpts),
    (parts.foldl applyPart o).isPrefix = o.isPrefix
  | [], _ => rfl
  | p :: ps, o => by
    rw [List.foldl_cons, foldl_applyPart_isPrefix ps, applyPart_isPrefix]

theorem fieldOpts_isPrefix (f : GoField) : (fieldOpts f).isPrefix = decide (f.name = "HashPrefix") := by
  unfold fieldOpts
  simp only [foldl_applyPart_isPrefix]
  by_cases h : f.name = "HashPrefix"
  · simp only [h, if_true, decide_true]
    split <;> rfl
  · simp only [h, if_false, decide_false]
    split <;> rfl

/-! ## Distinct index paths -/

/-- `flatMap` of pieces whose index paths begin with pairwise distinct keys. -/
theorem flatMap_index_nodup {α : Type} (key : α → Nat) (g : α → List FieldInfo) :
    ∀ (l : List α), (∀ p ∈ l, ((g p).map (·.index)).Nodup) →
      (∀ p ∈ l, ∀ fi ∈ g p, fi.index.head? = some (key p)) → (l.map key).Nodup →
      ((l.flatMap g).map (·.index)).Nodup
  | [], _, _, _ => by simp
  | p :: l, h1, h2, h3 => by
    rw [List.flatMap_cons, List.map_append, List.nodup_append]
    rw [List.map_cons, List.nodup_cons] at h3
    refine ⟨h1 p (by simp), flatMap_index_nodup key g l (fun q hq => h1 q (by simp [hq]))
      (fun q hq => h2 q (by simp [hq])) h3.2, ?_⟩
    intro a ha b hb hab
    obtain ⟨fa, hfa, rfl⟩ := List.mem_map.1 ha
    obtain ⟨fb, hfb, rfl⟩ := List.mem_map.1 hb
    obtain ⟨q, hq, hfb'⟩ := List.mem_flatMap.1 hfb
    have e1 := h2 p (by simp) fa hfa
    have e2 := h2 q (by simp [hq]) fb hfb'
    rw [hab, e2] at e1
    have : key q = key p := by simpa using e1
    exact h3.1 (this ▸ List.mem_map.2 ⟨q, hq, rfl⟩)

/-- The index paths of the raw fields are pairwise distinct — for every struct description. -/
theorem raw_index_nodup (structs : List GoStruct) :
    ∀ (fuel : Nat) (s : GoStruct), ((rawFields structs fuel s).map (·.index)).Nodup
  | 0, _ => by simp [rawFields]
  | fuel + 1, s => by
    rw [rawFields_succ]
    apply flatMap_index_nodup (fun p : GoField × Nat => p.2)
    · intro p _
      simp only [piece]
      split
      · simp
      · split
        · rw [List.map_map]
          have ih := raw_index_nodup structs fuel
          rename_i st _
          have : ((fun fi : FieldInfo => fi.index) ∘ fun fi : FieldInfo => { fi with index := p.2 :: fi.index }) =
              (fun idx => p.2 :: idx) ∘ (fun fi : FieldInfo => fi.index) := rfl
          rw [this, ← List.map_map]
          have ih' := ih st
          unfold List.Nodup at ih' ⊢
          rw [List.pairwise_map]
          exact ih'.imp fun hne hab => hne (List.cons.inj hab).2
        · simp
    · intro p _ fi hfi
      simp only [piece] at hfi
      split at hfi
      · cases hfi
      · split at hfi
        · obtain ⟨g, _, rfl⟩ := List.mem_map.1 hfi
          rfl
        · simp only [List.mem_singleton] at hfi
          subst hfi
          rfl
    · have : (s.fields.zipIdx).map (fun p : GoField × Nat => p.2) = List.range' 0 s.fields.length :=
        List.zipIdx_map_snd 0 s.fields
      rw [this]
      exact List.nodup_range' 1

end TiWf

end GoCrypt.Codec
