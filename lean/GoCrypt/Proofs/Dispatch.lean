import GoCrypt.Model.Dispatch
import GoCrypt.Proofs.Parse
import GoCrypt.Spec.RefParse

/-! Lemmas for `Props/C07`. -/

namespace GoCrypt.C07
open Bytes GoCrypt.Parse GoCrypt.Dispatch GoCrypt.RefParse

theorem takeWhile_cons_not_delim (a : UInt8) (as : Bytes) (h1 : a ≠ dollar) (h2 : a ≠ comma) :
    (a :: as).takeWhile (fun c => !isDelim c) = a :: as.takeWhile (fun c => !isDelim c) := by
  have : (!isDelim a) = true := by simp [isDelim, h1, h2]
  simp [List.takeWhile_cons, this]

theorem takeWhile_cons_delim (a : UInt8) (as : Bytes) (h : a = dollar ∨ a = comma) :
    (a :: as).takeWhile (fun c => !isDelim c) = [] := by
  have : (!isDelim a) = false := by rcases h with h | h <;> simp [isDelim, h]
  simp [List.takeWhile_cons, this]

theorem takeWhile_of_indexDelim_none (rest : Bytes) (h : indexDelim rest = none) :
    (rest.takeWhile fun c => !isDelim c).length = rest.length := by
  have := (indexDelim_none_iff rest).1 h
  clear h
  induction rest with
  | nil => rfl
  | cons a as ih =>
    have ha := this a (by simp)
    rw [takeWhile_cons_not_delim a as ha.1 ha.2]
    simp [ih (fun c hc => this c (by simp [hc]))]

theorem takeWhile_of_indexDelim_some (rest : Bytes) (i : Nat) (h : indexDelim rest = some i) :
    (rest.takeWhile fun c => !isDelim c).length = i := by
  induction rest generalizing i with
  | nil => simp [indexDelim] at h
  | cons c cs ih =>
    unfold indexDelim at h
    by_cases hc : c = dollar ∨ c = comma
    · simp [hc] at h; subst h
      rw [takeWhile_cons_delim c cs hc]; rfl
    · simp only [hc, if_false] at h
      cases hi : indexDelim cs with
      | none => simp [hi] at h
      | some j =>
        simp [hi] at h; subst h
        simp only [not_or] at hc
        rw [takeWhile_cons_not_delim c cs hc.1 hc.2]
        simp [ih j hi]

/-- Last registration of prefix `p` in a history (oldest first). -/
def lastReg {α} : List (Bytes × α) → Bytes → Option α
  | [], _ => none
  | (q, f) :: rest, p =>
    match lastReg rest p with
    | some g => some g
    | none => if q = p then some f else none

def replay {α} (r0 : Registry α) (hist : List (Bytes × α)) : Registry α :=
  hist.foldl (fun r e => register r e.1 e.2) r0

theorem lookup_replay {α} (hist : List (Bytes × α)) (r0 : Registry α) (p : Bytes) :
    lookup (replay r0 hist) p = (match lastReg hist p with | some f => some f | none => lookup r0 p) := by
  induction hist generalizing r0 with
  | nil => simp [replay, lastReg]
  | cons e es ih =>
    obtain ⟨q, f⟩ := e
    simp only [replay, List.foldl_cons] at ih ⊢
    rw [ih]
    simp only [lastReg]
    cases hl : lastReg es p with
    | some g => rfl
    | none =>
      by_cases hq : q = p <;> simp [register, lookup, hq]


end GoCrypt.C07
