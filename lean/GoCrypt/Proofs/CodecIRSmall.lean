import GoCrypt.Proofs.CodecIRDefs
import GoCrypt.Proofs.CodecIRBase
import GoCrypt.Proofs.TIIRIndirect

/-!
# Codec IR: `indirect` and `isEmpty`

The regenerated `indirect` follows every pointer (invalid `Value` at a nil one); the regenerated `isEmpty`
is the model's `isEmptyVal`. Helper lemmas only.
-/

namespace GoCrypt.CIR
open GoCrypt.Codec GoCrypt.Gen.codecIR
open GoCrypt.TIIR (RType Res kindNum fiType kindNum_ptr)

theorem kindNum_ne_20 (t : RType) : ¬ kindNum t = 20 := by
  unfold kindNum
  by_cases h : t.depth > 0
  · simp [h]
  · simp only [h, if_false]
    cases t.kind <;> simp <;> (repeat' split) <;> omega

theorem valIsNil_ptr (t : RType) (g : GVal) (ro : Bool) (h : 0 < t.depth) :
    ext1 .valIsNil (.rv t (.ptr g) ro) = .ok (.bool false) := by
  simp [ext1, h]

theorem valIsNil_nil (t : RType) (ro : Bool) (h : 0 < t.depth) :
    ext1 .valIsNil (.rv t .nilPtr ro) = .ok (.bool true) := by
  simp [ext1, h]

theorem valElem_ptr (t : RType) (g : GVal) (ro : Bool) (d : Nat) (h : t.depth = d + 1) :
    ext1 .valElem (.rv t (.ptr g) ro) = .ok (.rv { t with depth := d } g ro) := by
  simp [ext1, h]

/-- The loop of `indirect` on a chain of non-nil pointers. -/
theorem indirect_loop (c : Ctx) (m : Mem) (g0 : GVal) (ro : Bool) (fuel : Nat) :
    ∀ (t : RType) (v1 v2 : Val), t.depth < fuel →
    loop (fun m env => eval c m env (.bool true) >>= asBool) (exec c indirectIR.body.forBody)
      (exec c indirectIR.body.forPost) fuel m [.rv t (ptrChain t.depth g0) ro, v1, v2] =
        .ret m [.rv { t with depth := 0 } g0 ro] := by
  induction fuel with
  | zero => intro t _ _ ht; omega
  | succ fuel ih =>
    intro t v1 v2 ht
    rw [loop_step _ _ _ _ _ _ (by rfl)]
    simp only [indirectIR, Stmt.forBody, Stmt.forPost]
    have h20 := kindNum_ne_20 t
    by_cases hd : t.depth = 0
    · have hk : ¬ kindNum t = 22 := by rw [kindNum_ptr]; omega
      ci_simp [hk, h20]
      rw [hd]
      cases t; simp_all [ptrChain]
    · obtain ⟨d, hd'⟩ : ∃ d, t.depth = d + 1 := ⟨t.depth - 1, by omega⟩
      have hk : kindNum t = 22 := by rw [kindNum_ptr]; omega
      rw [hd']
      simp only [ptrChain]
      ci_simp [hk, valIsNil_ptr t _ ro (by omega), valElem_ptr t _ ro d hd']
      have := ih { t with depth := d } (.rtype t) (.int 22) (by simp; omega)
      simp only [indirectIR, Stmt.forBody, Stmt.forPost] at this
      exact this

theorem indirect_chain (c : Ctx) (m : Mem) (t : RType) (g0 : GVal) (ro : Bool) (ht : t.depth < c.fuel) :
    execProc c indirectIR m [.rv t (ptrChain t.depth g0) ro] = .ok (m, [.rv { t with depth := 0 } g0 ro]) := by
  rw [execProc_eq _ _ _ _ (by rfl)]
  have h1 : exec c indirectIR.body m [.rv t (ptrChain t.depth g0) ro, .undef, .undef] =
      .ret m [.rv { t with depth := 0 } g0 ro] := indirect_loop c m g0 ro c.fuel t .undef .undef ht
  show procResult (exec c indirectIR.body m [.rv t (ptrChain t.depth g0) ro, .undef, .undef]) = _
  rw [h1]; rfl

theorem indirect_nil (c : Ctx) (m : Mem) (t : RType) (ro : Bool) (hd : 0 < t.depth) (hf : 0 < c.fuel) :
    execProc c indirectIR m [.rv t .nilPtr ro] = .ok (m, [.rvInvalid]) := by
  rw [execProc_eq _ _ _ _ (by rfl)]
  show procResult (exec c indirectIR.body m [.rv t .nilPtr ro, .undef, .undef]) = _
  obtain ⟨f, hf'⟩ : ∃ f, c.fuel = f + 1 := ⟨c.fuel - 1, by omega⟩
  have hk : kindNum t = 22 := by rw [kindNum_ptr]; omega
  simp only [indirectIR, exec_for, hf']
  rw [loop_step _ _ _ _ _ _ (by rfl)]
  ci_simp [hk, valIsNil_nil t ro hd]

/-- What `c.call 3` must do (it is `indirect`). -/
def IndirectSpec (c : Ctx) : Prop :=
  (∀ (m : Mem) (t : RType) (g0 : GVal) (ro : Bool), t.depth < c.fuel →
    c.call 3 m [.rv t (ptrChain t.depth g0) ro] = .ok (m, [.rv { t with depth := 0 } g0 ro])) ∧
  (∀ (m : Mem) (t : RType) (ro : Bool), 0 < t.depth → 0 < c.fuel →
    c.call 3 m [.rv t .nilPtr ro] = .ok (m, [.rvInvalid]))

/-! ## `isEmpty` -/

theorem valKindNum_ptr (t : RType) (g : GVal) (h : 0 < t.depth) : valKindNum t g = .ok 22 := by
  simp [valKindNum, h]

theorem valKindNum_plain (t : RType) (g : GVal) (h : t.depth = 0) (hk : ∀ d, t.kind ≠ .other d) :
    valKindNum t g = .ok (kindNum t) := by
  unfold valKindNum
  simp only [h, Nat.lt_irrefl, if_false, gt_iff_lt]

theorem valKindNum_other (t : RType) (k n : Nat) (d : String) (h : t.depth = 0) (hk : t.kind = .other d) :
    valKindNum t (.other k n) = .ok (k : Int) := by
  simp [valKindNum, h, hk]

theorem kindNum_int (t : RType) (b : Nat) (h : t.depth = 0) (hk : t.kind = .int b) :
    kindNum t = 2 ∨ kindNum t = 3 ∨ kindNum t = 4 ∨ kindNum t = 5 ∨ kindNum t = 6 := by
  unfold kindNum; simp only [h, Nat.lt_irrefl, if_false, gt_iff_lt, hk]
  repeat' split
  all_goals simp

theorem kindNum_uint (t : RType) (b : Nat) (h : t.depth = 0) (hk : t.kind = .uint b) :
    kindNum t = 7 ∨ kindNum t = 8 ∨ kindNum t = 9 ∨ kindNum t = 10 ∨ kindNum t = 11 := by
  unfold kindNum; simp only [h, Nat.lt_irrefl, if_false, gt_iff_lt, hk]
  repeat' split
  all_goals simp

end GoCrypt.CIR
