import GoCrypt.Proofs.A2IRKeyInit
import GoCrypt.Proofs.A2IRKeyExtract
import GoCrypt.Proofs.Argon2SchedLinkFill

/-!
# Block IR: `Key`, `initBlocks`, `extractKey` as regenerated = the model's `key`, `initBlocks`, `extractKey`

Main statements (namespace `GoCrypt.A2IR`; the helper lemmas live in `GoCrypt.A2IR.KeyIR`, files
`A2IRKeyBase`, `A2IRKeyInit`, `A2IRKeyExtract` and the first part of this file):

* `initBlocks_proc`, `extractKey_proc`: the statements of `InitBlocksSpec` / `ExtractKeySpec` for the procedures
  themselves, for every context that knows `blake2bHash`;
* `key_proc`: `proc_Key` returns the model's `key` in a fresh buffer, for every context that knows its four callees;
* `initBlocksSpec_ctxOf`, `extractKeySpec_ctxOf`, `key_interp`: the same for the contexts `ctxOf H program d`.

`key_proc`: for an arbitrary context that knows `initHash`, `initBlocks`, `processBlocks` and `extractKey`
(their `…Spec`s), running `proc_Key` returns a fresh `[]byte` holding `Kdf.Argon2.key …`, and nothing that
existed before the call is changed.  The memory-size rule (`memory / (4·threads) · (4·threads)`, at least
`8·threads`, in `uint32` arithmetic) is the model's `modelMemory`; that the memory handed from one stage to the
next has the right size and 128-word blocks is proved about the model (`key_model_facts`).
-/

namespace GoCrypt.A2IR.KeyIR
open GoCrypt.Gen.argon2IR GoCrypt.Kdf GoCrypt.Argon2Sched

theorem key_tail (c : Ctx) (hib : InitBlocksSpec c) (hp : ProcessBlocksSpec c) (he : ExtractKeySpec c)
    (h : Heap) (H0 : Bytes) (v2 v3 : Val) (mode version time m' threads keyLen : Nat)
    (hH0 : H0.length = 72) (ht : threads ≤ 255) (hk1 : 1 ≤ keyLen) (hk : keyLen < 4294967296)
    (htime : time < 4294967296)
    (geo : Geom (m' / threads) (m' / threads / 4) threads) (hmul : m' = threads * (m' / threads))
    (hB0 : (Argon2.initBlocks H0 m' threads).size = m' ∧ Blocks128 (Argon2.initBlocks H0 m' threads))
    (hB1 : (Argon2.processBlocks (Argon2.initBlocks H0 m' threads) time m' threads mode version).size = m' ∧
      Blocks128 (Argon2.processBlocks (Argon2.initBlocks H0 m' threads) time m' threads mode version)) :
    ∃ h' : Heap,
      exec c (proc_Key.body.drop 3) (h.push [.bytes H0])
        [.int mode, .int version, v2, v3, .u32 time, .u32 m', .u8 threads, .u32 keyLen,
          .parr (.stk h.stk.length), .undef, .undef]
        = .ret h' [.bytes (.mem (h.mem.length + 1)) 0 keyLen keyLen] ∧
      h'.get (.mem (h.mem.length + 1)) = some (.bytes (Argon2.extractKey
        (Argon2.processBlocks (Argon2.initBlocks H0 m' threads) time m' threads mode version) m' threads keyLen)) ∧
      h'.stk.take h.stk.length = h.stk ∧ (∀ i, i < h.mem.length → h'.mem[i]? = h.mem[i]?) := by
  have htm : threads % 4294967296 = threads := Nat.mod_eq_of_lt (by omega)
  obtain ⟨h0', e1⟩ := hib (h.push [.bytes H0]) (.stk h.stk.length) H0 m' threads
    (by rw [Heap.get_push_top0]; rfl) hH0 geo hmul
  simp only [proc_Key, Stmt.drop]
  a2_simp [htm]
  rw [e1]
  a2_simp [htm]
  have hg1 : (((h.push [Obj.bytes H0]).set (Ref.stk h.stk.length) (Obj.bytes h0')).alloc
      (Obj.blocks (Argon2.initBlocks H0 m' threads))).get (.mem h.mem.length) = some (.blocks (Argon2.initBlocks H0 m' threads)) := by
    have := Heap.get_alloc_new ((h.push [Obj.bytes H0]).set (Ref.stk h.stk.length) (Obj.bytes h0')) (Obj.blocks (Argon2.initBlocks H0 m' threads))
    simpa using this
  rw [hp _ _ _ time m' threads mode version hg1 geo hmul htime hB0.1 hB0.2]
  a2_simp [htm]
  have hg2 : ((((h.push [Obj.bytes H0]).set (Ref.stk h.stk.length) (Obj.bytes h0')).alloc
      (Obj.blocks (Argon2.initBlocks H0 m' threads))).set (.mem h.mem.length)
        (.blocks (Argon2.processBlocks (Argon2.initBlocks H0 m' threads) time m' threads mode version))).get (.mem h.mem.length)
       = some (.blocks (Argon2.processBlocks (Argon2.initBlocks H0 m' threads) time m' threads mode version)) :=
    Heap.get_set_self _ _ _ (Ref.inH_of_get hg1)
  obtain ⟨B', e3⟩ := he _ _ _ m' threads keyLen hg2 hB1.1 hB1.2 geo hmul hk1 hk
  rw [e3]
  a2_simp [htm]
  refine ⟨_, rfl, ?_, ?_, ?_⟩
  · simp [Heap.get, Heap.alloc, Heap.set, Heap.push]
  · simp [Heap.alloc, Heap.set, Heap.push]
  · intro i hi
    simp [Heap.alloc, Heap.set, Heap.push, List.getElem?_append_left, hi]

open GoCrypt.Argon2Eq GoCrypt.Argon2SchedLink in
theorem key_model_facts (P S : Bytes) (t m p T y v : Nat) (hp1 : 1 ≤ p) (hp : p ≤ 255) (hm : m < 2 ^ 32) :
    BOk (modelMemory m p) (Argon2.initBlocks (Argon2.initHash P S t m p T y v) (modelMemory m p) p) ∧
    BOk (modelMemory m p) (Argon2.processBlocks (Argon2.initBlocks (Argon2.initHash P S t m p T y v) (modelMemory m p) p)
      t (modelMemory m p) p y v) := by
  rw [modelMemory_eq m p hp hm]
  obtain ⟨L, hL, e, h32⟩ := roundedMemory_shape m p hp1 hp hm
  rw [initHash_eq, initBlocks_eq (Spec.Argon2Rfc.H 64 (h0Preimage p T m t v y P S))
    (blake2b_length 64 _ (Nat.le_refl _)) p (4 * L) _ hp1 (by omega) e h32]
  have hG := refInit_GInv (Spec.Argon2Rfc.H 64 (h0Preimage p T m t v y P S)) p (4 * L) L _ rfl e
  obtain ⟨hfill, hB⟩ := fill_eq hL rfl e h32 hp1 t y v _ hG
  rw [hfill]
  exact ⟨hG.1, hB⟩

theorem blocks128_of_BOk {m : Nat} {B : Array Block} (hB : Argon2Eq.BOk m B) : B.size = m ∧ Blocks128 B :=
  ⟨hB.1, fun k hk => hB.2 k (by rw [← hB.1]; exact hk)⟩

theorem initHash_length (P S : Bytes) (t m p T y v : Nat) : (Argon2.initHash P S t m p T y v).length = 72 := by
  simp [Argon2.initHash, Argon2Eq.blake2b_length, Argon2.blake2bSize]

open GoCrypt.Argon2SchedLink in
theorem key_body (c : Ctx) (hi : InitHashSpec c) (hib : InitBlocksSpec c) (hp : ProcessBlocksSpec c) (he : ExtractKeySpec c)
    (h : Heap) (pwV saltV : Val) (pw salt : Bytes) (mode version time memory threads keyLen : Nat)
    (hpw : viewBytes h pwV = .ok pw) (hsalt : viewBytes h saltV = .ok salt)
    (ht1 : 1 ≤ threads) (ht : threads ≤ 255) (hk1 : 1 ≤ keyLen) (hk : keyLen < 4294967296)
    (htime : time < 4294967296) (hmem : memory < 4294967296) :
    ∃ h' : Heap, exec c proc_Key.body h [.int mode, .int version, pwV, saltV, .u32 time, .u32 memory, .u8 threads, .u32 keyLen, .undef, .undef, .undef]
        = .ret h' [.bytes (.mem (h.mem.length + 1)) 0 keyLen keyLen] ∧
      h'.get (.mem (h.mem.length + 1)) = some (.bytes (Argon2.key mode version pw salt time memory threads keyLen)) ∧
      h'.stk.take h.stk.length = h.stk ∧ (∀ i, i < h.mem.length → h'.mem[i]? = h.mem[i]?) := by
  have hpw' : lookup [pwV] 0 = .ok pwV := by cases pwV <;> simp_all [lookup, viewBytes]
  have hsalt' : lookup [saltV] 0 = .ok saltV := by cases saltV <;> simp_all [lookup, viewBytes]
  simp only [lookup_def, List.getElem?_cons_zero] at hpw' hsalt'
  have htm : threads % 4294967296 = threads := Nat.mod_eq_of_lt (by omega)
  have hfacts := key_model_facts pw salt time memory threads keyLen mode version ht1 ht (by omega)
  have geo := model_geom memory threads ht1 ht (by omega)
  have hmul := modelMemory_mul memory threads ht1 ht (by omega)
  obtain ⟨h', e, hrest⟩ := key_tail c hib hp he h (Argon2.initHash pw salt time memory threads keyLen mode version) pwV saltV
    mode version time (modelMemory memory threads) threads keyLen (initHash_length ..) ht hk1 hk htime geo hmul
    (blocks128_of_BOk hfacts.1) (blocks128_of_BOk hfacts.2)
  refine ⟨h', ?_, ?_⟩
  · rw [exec_take_drop c h _ 3, ← e]
    simp only [proc_Key, Stmt.take, Stmt.drop]
    a2_simp [hpw', hsalt', htm]
    rw [hi h pwV saltV pw salt time memory threads keyLen mode version hpw hsalt]
    a2_simp [hpw', hsalt', htm]
    split
    · rename_i hlt
      have hmm : modelMemory memory threads = 8 * threads % 4294967296 := by
        simp only [modelMemory, Argon2.u32, Argon2.syncPoints, Nat.reduceMul]; exact if_pos hlt
      rw [hmm]; a2_simp [htm]
    · rename_i hlt
      have hmm : modelMemory memory threads = memory / (4 * threads % 4294967296) * (4 * threads % 4294967296) % 4294967296 := by
        simp only [modelMemory, Argon2.u32, Argon2.syncPoints, Nat.reduceMul]; exact if_neg hlt
      rw [hmm]; a2_simp [htm]
  · rw [key_pipeline]; exact hrest

end GoCrypt.A2IR.KeyIR

namespace GoCrypt.A2IR
open GoCrypt.Gen.argon2IR GoCrypt.Kdf GoCrypt.Argon2Sched

/-- **`initBlocks`**: the statement of `InitBlocksSpec` for the regenerated procedure, in every context that knows
`blake2bHash`. -/
theorem initBlocks_proc (c : Ctx) (hb : Blake2bHashSpec c) (h : Heap) (r0 : Ref) (h0 : Bytes) (memory threads : Nat)
    (hg : h.get r0 = some (.bytes h0)) (hlen : h0.length = 72)
    (geo : Geom (memory / threads) (memory / threads / 4) threads) (hmul : memory = threads * (memory / threads)) :
    ∃ h0' : Bytes,
      execProc c proc_initBlocks h [.parr r0, .u32 memory, .u32 threads] =
        .ok ((h.set r0 (.bytes h0')).alloc (.blocks (Argon2.initBlocks h0 memory threads)), [.blks (.mem h.mem.length)]) :=
  KeyIR.initBlocks_proc c hb h r0 h0 memory threads hg hlen geo hmul

/-- **`extractKey`**: the statement of `ExtractKeySpec` for the regenerated procedure, in every context that knows
`blake2bHash`. -/
theorem extractKey_proc (c : Ctx) (hb : Blake2bHashSpec c) (h : Heap) (rB : Ref) (B : Array Block)
    (memory threads keyLen : Nat)
    (hg : h.get rB = some (.blocks B)) (hsz : B.size = memory) (h128 : Blocks128 B)
    (geo : Geom (memory / threads) (memory / threads / 4) threads) (hmul : memory = threads * (memory / threads))
    (hk1 : 1 ≤ keyLen) (hk : keyLen < 4294967296) :
    ∃ B' : Array Block,
      execProc c proc_extractKey h [.blks rB, .u32 memory, .u32 threads, .u32 keyLen] =
        .ok ((h.set rB (.blocks B')).alloc (.bytes (Argon2.extractKey B memory threads keyLen)),
             [.bytes (.mem h.mem.length) 0 keyLen keyLen]) :=
  KeyIR.extractKey_proc c hb h rB B memory threads keyLen hg hsz h128 geo hmul hk1 hk

/-- **`Key`**: the regenerated procedure returns the model's `key` in a fresh buffer; the local region and every
object that existed before the call are as before. -/
theorem key_proc (c : Ctx) (hi : InitHashSpec c) (hib : InitBlocksSpec c) (hp : ProcessBlocksSpec c) (he : ExtractKeySpec c)
    (h : Heap) (pwV saltV : Val) (pw salt : Bytes) (mode version time memory threads keyLen : Nat)
    (hpw : viewBytes h pwV = .ok pw) (hsalt : viewBytes h saltV = .ok salt)
    (ht1 : 1 ≤ threads) (ht : threads ≤ 255) (hk1 : 1 ≤ keyLen) (hk : keyLen < 4294967296)
    (htime : time < 4294967296) (hmem : memory < 4294967296) :
    ∃ h' : Heap, execProc c proc_Key h [.int mode, .int version, pwV, saltV, .u32 time, .u32 memory, .u8 threads, .u32 keyLen]
        = .ok (h', [.bytes (.mem (h.mem.length + 1)) 0 keyLen keyLen]) ∧
      h'.get (.mem (h.mem.length + 1)) = some (.bytes (Argon2.key mode version pw salt time memory threads keyLen)) ∧
      h'.stk = h.stk ∧ (∀ i, i < h.mem.length → h'.mem[i]? = h.mem[i]?) := by
  obtain ⟨h1, e, hg, hs, hm⟩ := KeyIR.key_body c hi hib hp he h pwV saltV pw salt mode version time memory threads keyLen
    hpw hsalt ht1 ht hk1 hk htime hmem
  refine ⟨h1.popTo h.stk.length, ?_, hg, hs, hm⟩
  rw [execProc_eq _ _ _ _ rfl]
  show procResult _ (exec c proc_Key.body h
    [.int mode, .int version, pwV, saltV, .u32 time, .u32 memory, .u8 threads, .u32 keyLen, .undef, .undef, .undef]) = _
  rw [e, procResult_ret _ _ _ rfl]

/-! ## the contexts of the regenerated program -/

theorem initBlocksSpec_ctxOf (H : Nat → Bytes → Bytes) (d : Nat) (hb : Blake2bHashSpec (ctxOf H program d)) :
    InitBlocksSpec (ctxOf H program (d + 1)) := by
  intro h r0 h0 memory threads hg hlen geo hmul
  rw [ctxOf_call, callIn_succ H program d "initBlocks" proc_initBlocks rfl]
  exact initBlocks_proc _ hb h r0 h0 memory threads hg hlen geo hmul

theorem extractKeySpec_ctxOf (H : Nat → Bytes → Bytes) (d : Nat) (hb : Blake2bHashSpec (ctxOf H program d)) :
    ExtractKeySpec (ctxOf H program (d + 1)) := by
  intro h rB B memory threads keyLen hg hsz h128 geo hmul hk1 hk
  rw [ctxOf_call, callIn_succ H program d "extractKey" proc_extractKey rfl]
  exact extractKey_proc _ hb h rB B memory threads keyLen hg hsz h128 geo hmul hk1 hk

/-- `Key` run in the regenerated program at call depth `d + 1`, from the specs of its four callees at depth `d`. -/
theorem key_interp (H : Nat → Bytes → Bytes) (d : Nat)
    (hi : InitHashSpec (ctxOf H program d)) (hib : InitBlocksSpec (ctxOf H program d))
    (hp : ProcessBlocksSpec (ctxOf H program d)) (he : ExtractKeySpec (ctxOf H program d))
    (h : Heap) (pwV saltV : Val) (pw salt : Bytes) (mode version time memory threads keyLen : Nat)
    (hpw : viewBytes h pwV = .ok pw) (hsalt : viewBytes h saltV = .ok salt)
    (ht1 : 1 ≤ threads) (ht : threads ≤ 255) (hk1 : 1 ≤ keyLen) (hk : keyLen < 4294967296)
    (htime : time < 4294967296) (hmem : memory < 4294967296) :
    ∃ h' : Heap,
      callIn H program (d + 1) "Key" h
          [.int mode, .int version, pwV, saltV, .u32 time, .u32 memory, .u8 threads, .u32 keyLen]
        = .ok (h', [.bytes (.mem (h.mem.length + 1)) 0 keyLen keyLen]) ∧
      h'.get (.mem (h.mem.length + 1)) = some (.bytes (Argon2.key mode version pw salt time memory threads keyLen)) ∧
      h'.stk = h.stk ∧ (∀ i, i < h.mem.length → h'.mem[i]? = h.mem[i]?) := by
  rw [callIn_succ H program d "Key" proc_Key rfl]
  exact key_proc _ hi hib hp he h pwV saltV pw salt mode version time memory threads keyLen hpw hsalt ht1 ht hk1 hk
    htime hmem

end GoCrypt.A2IR

section
open GoCrypt.A2IR
#print axioms GoCrypt.A2IR.initBlocks_proc
#print axioms GoCrypt.A2IR.extractKey_proc
#print axioms GoCrypt.A2IR.key_proc
#print axioms GoCrypt.A2IR.initBlocksSpec_ctxOf
#print axioms GoCrypt.A2IR.extractKeySpec_ctxOf
#print axioms GoCrypt.A2IR.key_interp
end
