import GoCrypt.Proofs.MiscIRBase
import GoCrypt.Model.Scheme
import GoCrypt.Gen.Kernels

/-!
# Misc IR: `hashutil.Encoding.Rand`, `cryptoutil.Rand`, `sha1.randRounds`

Helper lemmas only; the property theorems are in `Props/MiscIR.lean`.
-/

namespace GoCrypt.SIR
open GoCrypt.B64IR (Buf Heap Slice Res sliceBytes)
open GoCrypt.Gen.miscIR

/-! ## `cryptoutil.Rand` -/

namespace CU
open GoCrypt.Gen.miscIR.cryptoutil

theorem writeList_zeros (l : List UInt8) (n : Nat) (h : l.length = n) :
    B64IR.writeList (Array.replicate n 0) 0 l = l.toArray := by
  subst h
  rw [B64IR.writeList_eq_writeAt]; exact B64IR.writeAt_zeros l

theorem rand_proc (rk : Nat) (H : Heap) (O : List Obj) (X : List Ext) (e : Bytes) (er : Option Nat) (rest : List ReadResp)
    (sticky : Option Nat) (reads : Nat) (hk : X[rk]? = some (.reader (⟨e, er⟩ :: rest) sticky reads))
    (n : Nat) (hn : n ≤ e.length) :
    execProc (mctx program rk) randIR ⟨H, O, X⟩ [.int (n : Int)] =
      .ok (⟨H ++ [(e.take n).toArray], O, X.set rk (consumed e er rest sticky reads n 1)⟩, [.slice ⟨H.length, 0, n, n⟩]) := by
  have hrd := libRandRead_chunk rk (H ++ [Array.replicate n 0]) O X ⟨H.length, 0, n, n⟩ (Array.replicate n 0)
    List.getElem?_concat_length (by simp) e er rest sticky reads hk hn
  have hw := writeList_zeros (e.take n) n (by simp; omega)
  simp only [hw, set_concat_length] at hrd
  rw [execProc_eq _ randIR _ _ rfl]
  simp only [randIR]
  b64_simp [ccall_make, libMake_nat, ccall_read, hrd]
  rfl

theorem rand_proc_neg (rk : Nat) (W : World) (n : Int) (hn : n < 0) :
    execProc (mctx program rk) randIR W [.int n] = .panic := by
  rw [execProc_eq _ randIR _ _ rfl]
  simp only [randIR]
  b64_simp [ccall_make, libMake_neg _ n hn]
  rfl

theorem rand_proc_exhausted (rk : Nat) (H : Heap) (O : List Obj) (X : List Ext) (c reads : Nat)
    (hk : X[rk]? = some (.reader [] (some c) reads)) (n : Nat) (hn : 0 < n) :
    execProc (mctx program rk) randIR ⟨H, O, X⟩ [.int (n : Int)] = .panic := by
  have hrd := libRandRead_exhausted rk (H ++ [Array.replicate n 0]) O X ⟨H.length, 0, n, n⟩ (Array.replicate n 0)
    List.getElem?_concat_length (by simp) hn c reads hk
  rw [execProc_eq _ randIR _ _ rfl]
  simp only [randIR]
  b64_simp [ccall_make, libMake_nat, ccall_read, hrd]
  rfl

theorem rand_proc_short (rk : Nat) (H : Heap) (O : List Obj) (X : List Ext) (e : Bytes) (c : Nat) (rest : List ReadResp)
    (sticky : Option Nat) (reads : Nat) (hk : X[rk]? = some (.reader (⟨e, some c⟩ :: rest) sticky reads))
    (n : Nat) (hn : e.length < n) :
    execProc (mctx program rk) randIR ⟨H, O, X⟩ [.int (n : Int)] = .panic := by
  obtain ⟨W', c', hrd⟩ := libRandRead_short rk (H ++ [Array.replicate n 0]) O X ⟨H.length, 0, n, n⟩ (Array.replicate n 0)
    List.getElem?_concat_length (by simp) e c rest sticky reads hk hn
  rw [execProc_eq _ randIR _ _ rfl]
  simp only [randIR]
  b64_simp [ccall_make, libMake_nat, ccall_read, hrd, Option.isNone_some]
  rfl

end CU

/-! ## `sha1.randRounds` -/

namespace S1
open GoCrypt.Gen.miscIR.sha1

/-- The big-endian 32-bit word of four bytes. -/
def be32 (a b c d : UInt8) : Nat := ((a.toNat * 256 + b.toNat) * 256 + c.toNat) * 256 + d.toNat

theorem be32_lt (a b c d : UInt8) : be32 a b c d < 4294967296 := by
  have := a.toNat_lt; have := b.toNat_lt; have := c.toNat_lt; have := d.toNat_lt
  unfold be32; omega

theorem randRounds_arith (w : Nat) :
    B64IR.wrapU 32 (24680 - Int.tmod (w : Int) 6170) = ((GoCrypt.Gen.sha1.randRounds w : Nat) : Int) := by
  have h1 : Int.tmod (w : Int) 6170 = ((w % 6170 : Nat) : Int) := by
    rw [Int.tmod_eq_emod_of_nonneg (Int.natCast_nonneg w)]; rfl
  rw [h1]
  unfold B64IR.wrapU GoCrypt.Gen.sha1.randRounds
  have : w % 6170 < 6170 := Nat.mod_lt _ (by decide)
  omega

theorem libMake_4 (W : World) :
    libMake W [.int 4] = .ok (⟨W.heap ++ [Array.replicate 4 0], W.objs, W.exts⟩, [.slice ⟨W.heap.length, 0, 4, 4⟩]) :=
  libMake_nat W 4

theorem libBE_take4 (H : Heap) (O : List Obj) (X : List Ext) (a b c d : UInt8) (e' : Bytes) :
    libBEUint32 ⟨H ++ [((a :: b :: c :: d :: e').take 4).toArray], O, X⟩ [.slice ⟨H.length, 0, 4, 4⟩] =
      .ok (⟨H ++ [((a :: b :: c :: d :: e').take 4).toArray], O, X⟩, [.int ((be32 a b c d : Nat) : Int)]) := by
  have hs : sliceBytes (H ++ [((a :: b :: c :: d :: e').take 4).toArray]) ⟨H.length, 0, 4, 4⟩ = some [a, b, c, d] := by
    simp [sliceBytes]
  simp only [libBEUint32, hs, be32]
  simp

theorem randRounds_proc (rk : Nat) (H : Heap) (O : List Obj) (X : List Ext) (a b c d : UInt8) (e' : Bytes)
    (er : Option Nat) (rest : List ReadResp) (sticky : Option Nat) (reads : Nat)
    (hk : X[rk]? = some (.reader (⟨a :: b :: c :: d :: e', er⟩ :: rest) sticky reads)) :
    execProc (mctx program rk) randRoundsIR ⟨H, O, X⟩ [] =
      .ok (⟨H ++ [[a, b, c, d].toArray], O, X.set rk (consumed (a :: b :: c :: d :: e') er rest sticky reads 4 1)⟩,
        [.int ((GoCrypt.Gen.sha1.randRounds (be32 a b c d) : Nat) : Int)]) := by
  have hrd := libRandRead_chunk rk (H ++ [Array.replicate 4 0]) O X ⟨H.length, 0, 4, 4⟩ (Array.replicate 4 0)
    List.getElem?_concat_length (by simp) (a :: b :: c :: d :: e') er rest sticky reads hk (by simp)
  have hw := CU.writeList_zeros ((a :: b :: c :: d :: e').take 4) 4 (by simp)
  simp only [hw, set_concat_length] at hrd
  have hbe := libBE_take4 H O (X.set rk (consumed (a :: b :: c :: d :: e') er rest sticky reads 4 1)) a b c d e'
  rw [execProc_eq _ randRoundsIR _ _ rfl]
  simp only [randRoundsIR]
  b64_simp [scall_make, libMake_4, scall_read, scall_be32, hrd, hbe, randRounds_arith, Option.isNone_none]
  rfl

theorem randRounds_proc_exhausted (rk : Nat) (H : Heap) (O : List Obj) (X : List Ext) (c reads : Nat)
    (hk : X[rk]? = some (.reader [] (some c) reads)) :
    execProc (mctx program rk) randRoundsIR ⟨H, O, X⟩ [] = .panic := by
  have hrd := libRandRead_exhausted rk (H ++ [Array.replicate 4 0]) O X ⟨H.length, 0, 4, 4⟩ (Array.replicate 4 0)
    List.getElem?_concat_length (by simp) (by show 0 < 4; omega) c reads hk
  rw [execProc_eq _ randRoundsIR _ _ rfl]
  simp only [randRoundsIR]
  b64_simp [scall_make, libMake_4, scall_read, hrd]
  rfl

theorem randRounds_proc_short (rk : Nat) (H : Heap) (O : List Obj) (X : List Ext) (e : Bytes) (c : Nat) (rest : List ReadResp)
    (sticky : Option Nat) (reads : Nat) (hk : X[rk]? = some (.reader (⟨e, some c⟩ :: rest) sticky reads)) (he : e.length < 4) :
    execProc (mctx program rk) randRoundsIR ⟨H, O, X⟩ [] = .panic := by
  obtain ⟨W', c', hrd⟩ := libRandRead_short rk (H ++ [Array.replicate 4 0]) O X ⟨H.length, 0, 4, 4⟩ (Array.replicate 4 0)
    List.getElem?_concat_length (by simp) e c rest sticky reads hk he
  rw [execProc_eq _ randRoundsIR _ _ rfl]
  simp only [randRoundsIR]
  b64_simp [scall_make, libMake_4, scall_read, hrd, Option.isNone_some]
  rfl

end S1

/-! ## `hashutil.Encoding.Rand` -/

namespace HU
open GoCrypt.Gen.miscIR.hashutil

/-- `enc := *enc; buf := make([]byte, n); i := 0` -/
def rdPre : Stmt := randIR.body.take 4
def rdFor : Stmt := (randIR.body.drop 4).head
def rdBody : Stmt := rdFor.forBody
/-- `return buf` -/
def rdRet : Stmt := randIR.body.drop 5

theorem rdFor_eq : rdFor = .for_ rdFor.forFuel rdFor.forCond rdFor.forPost rdBody := rfl
theorem rd_split : randIR.body.drop 4 = (rdFor ;; rdRet) := rfl

theorem rdPre_run (rk : Nat) (H : Heap) (O : List Obj) (X : List Ext) (a b : Nat) (al : Bytes) (he : HEncAt H O a b al)
    (n : Nat) :
    exec (mctx program rk) rdPre ⟨H, O, X⟩ [.ptr a, .int (n : Int), .undef, .undef, .undef, .undef, .undef, .undef, .undef] =
      .norm ⟨H ++ [(decodeTable al).toArray, Array.replicate n 0], O ++ [hEncObj H.length al], X⟩
        [.ptr O.length, .int (n : Int), .slice ⟨H.length + 1, 0, n, n⟩, .int (0 : Nat), .undef, .undef,
          .slice ⟨H.length + 1, 0, n, n⟩, .undef, .undef] := by
  have hcl := cloneFields_henc H b al _ he.dmapBytes
  simp only [rdPre, Stmt.take, randIR]
  b64_simp [he.obj, hEncObj, hcl, hcall_make, libMake_nat, List.length_append, List.append_assoc]

theorem rdPre_neg (rk : Nat) (H : Heap) (O : List Obj) (X : List Ext) (a b : Nat) (al : Bytes) (he : HEncAt H O a b al)
    (n : Int) (hn : n < 0) :
    exec (mctx program rk) rdPre ⟨H, O, X⟩ [.ptr a, .int n, .undef, .undef, .undef, .undef, .undef, .undef, .undef] = .panic := by
  have hcl := cloneFields_henc H b al _ he.dmapBytes
  simp only [rdPre, Stmt.take, randIR]
  b64_simp [he.obj, hEncObj, hcl, hcall_make, libMake_neg _ n hn]

/-- The symbol drawn from entropy byte `x`. -/
def sym (al : Bytes) (x : UInt8) : UInt8 := al.getD (x.toNat % 64) 0

/-- One iteration with the next entropy byte `x` at the front of the reader's first script entry. -/
theorem rdBody_step (rk : Nat) (H : Heap) (O : List Obj) (X : List Ext) (o bb n : Nat) (al : Bytes) (hal : al.length = 64)
    (f2 : Val) (hO : O[o]? = some ⟨"Encoding", [.str al, .int al.length, f2]⟩)
    (D : Buf) (hH : H[bb]? = some D) (hD : D.size = n)
    (x : UInt8) (e' : Bytes) (er : Option Nat) (rest : List ReadResp) (sticky : Option Nat) (reads : Nat)
    (hX : X[rk]? = some (.reader (⟨x :: e', er⟩ :: rest) sticky reads))
    (k : Nat) (hk : k < n) (v1 v4 v5 v6 v7 v8 : Val) :
    exec (mctx program rk) rdBody ⟨H, O, X⟩ [.ptr o, v1, .slice ⟨bb, 0, n, n⟩, .int k, v4, v5, v6, v7, v8] =
      .norm ⟨H.set bb (D.setIfInBounds k (sym al x)), O, X.set rk (readerAfter (x :: e') er rest sticky reads 1 1)⟩
        [.ptr o, v1, .slice ⟨bb, 0, n, n⟩, .int k, .int ((x.toNat % 64 : Nat) : Int), .err none, v6, .ext rk,
          .int ((x.toNat % 64 : Nat) : Int)] := by
  have hri := libRandInt_chunk ⟨H, O, X⟩ rk x e' er rest sticky reads hX
  have hlt : x.toNat % 64 < 64 := Nat.mod_lt _ (by decide)
  have hu := libUint64_nat ⟨H, O, X.set rk (readerAfter (x :: e') er rest sticky reads 1 1)⟩ (x.toNat % 64) (by omega)
  have h64 : ((al.length : Nat) : Int) = 64 := by rw [hal]; rfl
  simp only [rdBody, rdFor, Stmt.forBody, Stmt.head, Stmt.drop, randIR]
  b64_simp [hcall_reader, hcall_int, hcall_uint64, hO, h64, hri, hu, hH, hD, hal, sym, Option.isNone_none]

theorem rdBody_exhausted (rk : Nat) (H : Heap) (O : List Obj) (X : List Ext) (o : Nat) (al : Bytes) (hal : al.length = 64)
    (f2 : Val) (hO : O[o]? = some ⟨"Encoding", [.str al, .int al.length, f2]⟩)
    (c reads : Nat) (hX : X[rk]? = some (.reader [] (some c) reads))
    (v1 v2 v3 v4 v5 v6 v7 v8 : Val) :
    exec (mctx program rk) rdBody ⟨H, O, X⟩ [.ptr o, v1, v2, v3, v4, v5, v6, v7, v8] = .panic := by
  have hri := libRandInt_exhausted ⟨H, O, X⟩ rk c reads hX
  have h64 : ((al.length : Nat) : Int) = 64 := by rw [hal]; rfl
  simp only [rdBody, rdFor, Stmt.forBody, Stmt.head, Stmt.drop, randIR]
  b64_simp [hcall_reader, hcall_int, hO, h64, hri, Option.isNone_some]

theorem rdFor_fuel (W : World) (s : Slice) (v0 v1 v3 v4 v5 v6 v7 v8 : Val) :
    (eval W [v0, v1, .slice s, v3, v4, v5, v6, v7, v8] rdFor.forFuel >>= asInt) = .ok ((1 + s.len : Nat) : Int) := by
  simp only [rdFor, Stmt.forFuel, Stmt.head, Stmt.drop, randIR]
  b64_simp []
  rfl

theorem rdFor_cond (W : World) (s : Slice) (k : Nat) (v0 v1 v4 v5 v6 v7 v8 : Val) :
    (eval W [v0, v1, .slice s, .int k, v4, v5, v6, v7, v8] rdFor.forCond >>= asBool) = .ok (decide (k < s.len)) := by
  simp only [rdFor, Stmt.forCond, Stmt.head, Stmt.drop, randIR]
  b64_simp []

theorem rdFor_post (c : Ctx) (W : World) (k : Nat) (hk : k < 9223372036854775807) (v0 v1 v2 v4 v5 v6 v7 v8 : Val) :
    exec c rdFor.forPost W [v0, v1, v2, .int k, v4, v5, v6, v7, v8] =
      .norm W [v0, v1, v2, .int (k + 1 : Nat), v4, v5, v6, v7, v8] := by
  simp only [rdFor, Stmt.forPost, Stmt.head, Stmt.drop, randIR]
  b64_simp []

theorem rdRet_run (c : Ctx) (W : World) (s : Slice) (v0 v1 v3 v4 v5 v6 v7 v8 : Val) :
    exec c rdRet W [v0, v1, .slice s, v3, v4, v5, v6, v7, v8] = .ret W [.slice s] := by
  simp only [rdRet, Stmt.drop, randIR]
  b64_simp []

/-! ### The loop -/

/-- `buf` after `k` iterations. -/
def rbuf (al e : Bytes) (n : Nat) : Nat → Buf
  | 0 => Array.replicate n 0
  | k + 1 => (rbuf al e n k).setIfInBounds k (sym al (e.getD k 0))

theorem rbuf_size (al e : Bytes) (n k : Nat) : (rbuf al e n k).size = n := by
  induction k with
  | zero => simp [rbuf]
  | succ k ih => simp [rbuf, ih]

theorem rbuf_get (al e : Bytes) (n k i : Nat) (hi : i < n) :
    (rbuf al e n k)[i]'(by rw [rbuf_size]; exact hi) = if i < k then sym al (e.getD i 0) else 0 := by
  induction k with
  | zero => simp [rbuf]
  | succ k ih =>
    show ((rbuf al e n k).setIfInBounds k (sym al (e.getD k 0)))[i]'(by rw [Array.size_setIfInBounds, rbuf_size]; exact hi) = _
    rw [Array.getElem_setIfInBounds (by rw [rbuf_size]; exact hi), ih]
    by_cases h1 : k = i
    · subst h1; simp
    · by_cases h2 : i < k
      · have : i < k + 1 := by omega
        simp [h1, h2, this]
      · have : ¬ i < k + 1 := by omega
        simp [h1, h2, this]

theorem rbuf_full (al e : Bytes) (n : Nat) (hn : n ≤ e.length) :
    rbuf al e n n = (GoCrypt.Scheme.randSymbols al (e.take n)).toArray := by
  apply Array.ext
  · simp [rbuf_size, GoCrypt.Scheme.randSymbols]; omega
  · intro i h1 h2
    have hi : i < n := by rw [rbuf_size] at h1; exact h1
    rw [rbuf_get al e n n i hi]
    simp only [hi, if_true, GoCrypt.Scheme.randSymbols, List.getElem_toArray, List.getElem_map, List.getElem_take, sym]
    rw [getD_eq_getElem_of_lt e i 0 (by omega)]

/-- The values the loop leaves in the slots `n` (inner), `err`, and the two temporaries after `k` iterations. -/
def rdVal (e : Bytes) (k : Nat) : Val := if k = 0 then .undef else .int (((e.getD (k - 1) 0).toNat % 64 : Nat) : Int)
def rdErr (k : Nat) : Val := if k = 0 then .undef else .err none
def rdExt (rk k : Nat) : Val := if k = 0 then .undef else .ext rk

/-- World and frame at the start of iteration `k`. -/
def rdSt (H : Heap) (O : List Obj) (X : List Ext) (rk o : Nat) (al e : Bytes) (er : Option Nat) (rest : List ReadResp)
    (sticky : Option Nat) (reads n : Nat) (k : Nat) : World × Env :=
  (⟨H ++ [(decodeTable al).toArray, rbuf al e n k], O, X.set rk (consumed e er rest sticky reads k k)⟩,
    [.ptr o, .int (n : Int), .slice ⟨H.length + 1, 0, n, n⟩, .int (k : Nat), rdVal e k, rdErr k,
      .slice ⟨H.length + 1, 0, n, n⟩, rdExt rk k, rdVal e k])

theorem rdStep (rk : Nat) (H : Heap) (O : List Obj) (X : List Ext) (o n : Nat) (al : Bytes) (hal : al.length = 64)
    (f2 : Val) (hO : O[o]? = some ⟨"Encoding", [.str al, .int al.length, f2]⟩)
    (e : Bytes) (er : Option Nat) (rest : List ReadResp) (sticky : Option Nat) (reads : Nat)
    (hrk : rk < X.length) (k : Nat) (hk : k < n) (hke : k < e.length) :
    exec (mctx program rk) rdBody (rdSt H O X rk o al e er rest sticky reads n k).1 (rdSt H O X rk o al e er rest sticky reads n k).2 =
      .norm (rdSt H O X rk o al e er rest sticky reads n (k + 1)).1
        [.ptr o, .int (n : Int), .slice ⟨H.length + 1, 0, n, n⟩, .int (k : Nat), rdVal e (k + 1), rdErr (k + 1),
          .slice ⟨H.length + 1, 0, n, n⟩, rdExt rk (k + 1), rdVal e (k + 1)] := by
  have hdrop : e.drop k = e[k] :: e.drop (k + 1) := List.drop_eq_getElem_cons hke
  have hX : (X.set rk (consumed e er rest sticky reads k k))[rk]? =
      some (.reader (⟨e[k] :: e.drop (k + 1), er⟩ :: rest) sticky (reads + k)) := by
    rw [List.getElem?_set_self hrk, consumed_lt e er rest sticky reads k hke, hdrop]
  have hstep := readerAfter_step e er rest sticky reads k k 1 (by omega) (by omega)
  rw [hdrop] at hstep
  have hcons : consumed e er rest sticky reads (k + 1) (k + 1) = readerAfter e er rest sticky reads (k + 1) (k + 1) := by
    simp [consumed]
  simp only [rdSt]
  rw [rdBody_step rk _ O _ o (H.length + 1) n al hal f2 hO (rbuf al e n k) (get_append2_1 _ _ _) (rbuf_size al e n k)
    e[k] (e.drop (k + 1)) er rest sticky (reads + k) hX k hk]
  simp only [set_append2_1, List.set_set, hstep, hcons, rbuf, getD_eq_getElem_of_lt e k 0 hke, rdVal, rdErr, rdExt,
    Nat.add_sub_cancel, Nat.succ_ne_zero, if_false]

theorem rand_proc (rk : Nat) (H : Heap) (O : List Obj) (X : List Ext) (a b : Nat) (al : Bytes) (he : HEncAt H O a b al)
    (hal : al.length = 64) (e : Bytes) (er : Option Nat) (rest : List ReadResp) (sticky : Option Nat) (reads : Nat)
    (hk : X[rk]? = some (.reader (⟨e, er⟩ :: rest) sticky reads)) (n : Nat) (hn : n ≤ e.length)
    (hn63 : n < 9223372036854775807) :
    execProc (mctx program rk) randIR ⟨H, O, X⟩ [.ptr a, .int (n : Int)] =
      .ok (⟨H ++ [(decodeTable al).toArray, (GoCrypt.Scheme.randSymbols al (e.take n)).toArray], O ++ [hEncObj H.length al],
          X.set rk (consumed e er rest sticky reads n n)⟩, [.slice ⟨H.length + 1, 0, n, n⟩]) := by
  have hrk : rk < X.length := by
    rcases Nat.lt_or_ge rk X.length with h' | h'
    · exact h'
    · rw [List.getElem?_eq_none h'] at hk; cases hk
  have hO : (O ++ [hEncObj H.length al])[O.length]? =
      some ⟨"Encoding", [.str al, .int al.length, .slice ⟨H.length, 0, 256, 256⟩]⟩ := List.getElem?_concat_length
  rw [execProc_eq _ randIR _ _ rfl, exec_take_drop _ _ _ 4]
  show procResult ((exec _ rdPre ⟨H, O, X⟩ [.ptr a, .int (n : Int), .undef, .undef, .undef, .undef, .undef, .undef, .undef]).andThen
    (exec _ (randIR.body.drop 4))) = _
  rw [rdPre_run rk H O X a b al he n, andThen_norm, rd_split, exec_seq, rdFor_eq, exec_for, rdFor_fuel, bindR_ok]
  have h0 : (⟨H ++ [(decodeTable al).toArray, Array.replicate n 0], O ++ [hEncObj H.length al], X⟩,
      [Val.ptr O.length, .int (n : Int), .slice ⟨H.length + 1, 0, n, n⟩, .int (0 : Nat), .undef, .undef,
        .slice ⟨H.length + 1, 0, n, n⟩, .undef, .undef]) =
      rdSt H (O ++ [hEncObj H.length al]) X rk O.length al e er rest sticky reads n 0 := by
    simp only [rdSt, rbuf, consumed, if_true, exts_set_self X rk _ hk, rdVal, rdErr, rdExt]
  have := loop_count (fun W env => eval W env rdFor.forCond >>= asBool) (exec (mctx program rk) rdBody)
    (exec (mctx program rk) rdFor.forPost)
    (rdSt H (O ++ [hEncObj H.length al]) X rk O.length al e er rest sticky reads n) n ?_ ?_ ?_ ?_
    (((1 + n : Nat) : Int)).toNat 0 (Nat.zero_le _) (by omega)
  · rw [← h0] at this
    rw [this]
    simp only [rdSt, andThen_norm, rdRet_run, procResult_ret, rbuf_full al e n hn]
  · intro k hk'
    simp only [rdSt, rdFor_cond, decide_eq_true hk']
  · simp only [rdSt, rdFor_cond]; simp
  · intro k hk'
    rw [rdStep rk H _ X O.length n al hal _ hO e er rest sticky reads hrk k hk' (by omega), andThen_norm,
      rdFor_post _ _ k (by omega)]
    rfl
  · intro k hk'
    rw [rdStep rk H _ X O.length n al hal _ hO e er rest sticky reads hrk k hk' (by omega)]
    exact ⟨_, _, rfl⟩

theorem rand_proc_neg (rk : Nat) (H : Heap) (O : List Obj) (X : List Ext) (a b : Nat) (al : Bytes) (he : HEncAt H O a b al)
    (n : Int) (hn : n < 0) :
    execProc (mctx program rk) randIR ⟨H, O, X⟩ [.ptr a, .int n] = .panic := by
  rw [execProc_eq _ randIR _ _ rfl, exec_take_drop _ _ _ 4]
  show procResult ((exec _ rdPre ⟨H, O, X⟩ [.ptr a, .int n, .undef, .undef, .undef, .undef, .undef, .undef, .undef]).andThen
    (exec _ (randIR.body.drop 4))) = _
  rw [rdPre_neg rk H O X a b al he n hn]
  rfl

theorem rand_proc_exhausted (rk : Nat) (H : Heap) (O : List Obj) (X : List Ext) (a b : Nat) (al : Bytes)
    (he : HEncAt H O a b al) (hal : al.length = 64) (c reads : Nat) (hk : X[rk]? = some (.reader [] (some c) reads))
    (n : Nat) (hn : 0 < n) :
    execProc (mctx program rk) randIR ⟨H, O, X⟩ [.ptr a, .int (n : Int)] = .panic := by
  have hO : (O ++ [hEncObj H.length al])[O.length]? =
      some ⟨"Encoding", [.str al, .int al.length, .slice ⟨H.length, 0, 256, 256⟩]⟩ := List.getElem?_concat_length
  rw [execProc_eq _ randIR _ _ rfl, exec_take_drop _ _ _ 4]
  show procResult ((exec _ rdPre ⟨H, O, X⟩ [.ptr a, .int (n : Int), .undef, .undef, .undef, .undef, .undef, .undef, .undef]).andThen
    (exec _ (randIR.body.drop 4))) = _
  rw [rdPre_run rk H O X a b al he n, andThen_norm, rd_split, exec_seq, rdFor_eq, exec_for, rdFor_fuel, bindR_ok]
  have := loop_count_exit (fun W env => eval W env rdFor.forCond >>= asBool) (exec (mctx program rk) rdBody)
    (exec (mctx program rk) rdFor.forPost)
    (fun _ => (⟨H ++ [(decodeTable al).toArray, Array.replicate n 0], O ++ [hEncObj H.length al], X⟩,
      [Val.ptr O.length, .int (n : Int), .slice ⟨H.length + 1, 0, n, n⟩, .int (0 : Nat), .undef, .undef,
        .slice ⟨H.length + 1, 0, n, n⟩, .undef, .undef])) 0 .panic (fun _ => rfl) ?_ ?_ ?_ ?_
    (((1 + n : Nat) : Int)).toNat 0 (Nat.zero_le _) (by omega)
  · simp only at this
    rw [this]
    rfl
  · intro k _
    simp only [rdFor_cond, decide_eq_true hn]
  · intro k hk'; omega
  · intro k hk'; omega
  · exact rdBody_exhausted rk _ _ X O.length al hal _ hO c reads hk _ _ _ _ _ _ _ _

/-- Fewer than `n` entropy bytes, then an error: the first `e.length` draws succeed, the next one fails, `Rand` panics. -/
theorem rand_proc_short (rk : Nat) (H : Heap) (O : List Obj) (X : List Ext) (a b : Nat) (al : Bytes) (he : HEncAt H O a b al)
    (hal : al.length = 64) (e : Bytes) (c : Nat) (sticky : Option Nat) (reads : Nat)
    (hk : X[rk]? = some (.reader [⟨e, some c⟩] sticky reads)) (he0 : 0 < e.length) (n : Nat) (hn : e.length < n)
    (hn63 : n < 9223372036854775807) :
    execProc (mctx program rk) randIR ⟨H, O, X⟩ [.ptr a, .int (n : Int)] = .panic := by
  have hrk : rk < X.length := by
    rcases Nat.lt_or_ge rk X.length with h' | h'
    · exact h'
    · rw [List.getElem?_eq_none h'] at hk; cases hk
  have hO : (O ++ [hEncObj H.length al])[O.length]? =
      some ⟨"Encoding", [.str al, .int al.length, .slice ⟨H.length, 0, 256, 256⟩]⟩ := List.getElem?_concat_length
  rw [execProc_eq _ randIR _ _ rfl, exec_take_drop _ _ _ 4]
  show procResult ((exec _ rdPre ⟨H, O, X⟩ [.ptr a, .int (n : Int), .undef, .undef, .undef, .undef, .undef, .undef, .undef]).andThen
    (exec _ (randIR.body.drop 4))) = _
  rw [rdPre_run rk H O X a b al he n, andThen_norm, rd_split, exec_seq, rdFor_eq, exec_for, rdFor_fuel, bindR_ok]
  have h0 : (⟨H ++ [(decodeTable al).toArray, Array.replicate n 0], O ++ [hEncObj H.length al], X⟩,
      [Val.ptr O.length, .int (n : Int), .slice ⟨H.length + 1, 0, n, n⟩, .int (0 : Nat), .undef, .undef,
        .slice ⟨H.length + 1, 0, n, n⟩, .undef, .undef]) =
      rdSt H (O ++ [hEncObj H.length al]) X rk O.length al e (some c) [] sticky reads n 0 := by
    simp only [rdSt, rbuf, consumed, if_true, exts_set_self X rk _ hk, rdVal, rdErr, rdExt]
  have := loop_count_exit (fun W env => eval W env rdFor.forCond >>= asBool) (exec (mctx program rk) rdBody)
    (exec (mctx program rk) rdFor.forPost)
    (rdSt H (O ++ [hEncObj H.length al]) X rk O.length al e (some c) [] sticky reads n) e.length .panic (fun _ => rfl)
    ?_ ?_ ?_ ?_ (((1 + n : Nat) : Int)).toNat 0 (Nat.zero_le _) (by omega)
  · rw [← h0] at this
    rw [this]
    rfl
  · intro k hk'
    simp only [rdSt, rdFor_cond, decide_eq_true (show k < n by omega)]
  · intro k hk'
    rw [rdStep rk H _ X O.length n al hal _ hO e (some c) [] sticky reads hrk k (by omega) hk', andThen_norm,
      rdFor_post _ _ k (by omega)]
    rfl
  · intro k hk'
    rw [rdStep rk H _ X O.length n al hal _ hO e (some c) [] sticky reads hrk k (by omega) hk']
    exact ⟨_, _, rfl⟩
  · have hne : ¬ e.length = 0 := by omega
    have hX : (X.set rk (consumed e (some c) [] sticky reads e.length e.length))[rk]? =
        some (.reader [] (some c) (reads + e.length)) := by
      rw [List.getElem?_set_self hrk]
      simp [consumed, readerAfter, hne]
    simp only [rdSt]
    exact rdBody_exhausted rk _ _ _ O.length al hal _ hO c (reads + e.length) hX _ _ _ _ _ _ _ _

end HU

end GoCrypt.SIR
