import GoCrypt.Proofs.A2IRBase
import GoCrypt.Gen.Argon2IR
import GoCrypt.Proofs.Argon2Eq.Index

/-!
# Block IR, step 1: `phi` and `indexAlpha` as regenerated = the integer kernels of `Gen/Kernels.lean`

The regenerated bodies are run symbolically; `uint64` arithmetic (machine words in the IR) is carried over
to the kernel's natural-number arithmetic with the `UInt64.toNat_*` lemmas.
-/

namespace GoCrypt.A2IR
open GoCrypt.Gen.argon2IR

theorem u64_ofNat_toNat_lt (a : Nat) (h : a < 18446744073709551616) : (UInt64.ofNat a).toNat = a := by
  simp [UInt64.toNat_ofNat', Nat.mod_eq_of_lt h]

theorem u64_ofNat_ne_zero (a : Nat) (h0 : 0 < a) (h : a < 18446744073709551616) : ¬ UInt64.ofNat a = 0 := by
  intro e
  have := congrArg UInt64.toNat e
  rw [u64_ofNat_toNat_lt a h] at this
  simp at this
  omega

/-! ## `phi` -/

theorem phi_body (c : Ctx) (h : Heap) (rand m s : UInt64) (lane lanes : Nat) (hl : 0 < lanes) (hl32 : lanes < 4294967296) :
    exec c proc_phi.body h [.u64 rand, .u64 m, .u64 s, .u32 lane, .u32 lanes, .undef] =
      .ret h [.u32 (Gen.argon2crypto.phi rand.toNat m.toNat s.toNat lane lanes)] := by
  have hne : ¬ UInt64.ofNat lanes = 0 := u64_ofNat_ne_zero lanes hl (by omega)
  simp only [proc_phi]
  a2_simp [u64_ofNat_mod, hne]
  rw [Argon2Eq.phi_unfold]
  have hlm : lanes % 18446744073709551616 = lanes := Nat.mod_eq_of_lt (by omega)
  simp only [UInt64.toNat_mod, UInt64.toNat_sub, UInt64.toNat_add, UInt64.toNat_mul, UInt64.toNat_shiftRight,
    UInt64.toNat_and, UInt64.toNat_ofNat', Nat.reducePow, Nat.reduceMod, hlm]
  have hsub : ∀ a b : Nat, b < 18446744073709551616 → 18446744073709551616 - b + a = a + 18446744073709551616 - b := by
    intro a b hb; omega
  rw [hsub _ _ (Nat.mod_lt _ (by decide))]

theorem phi_proc (c : Ctx) (h : Heap) (rand m s : UInt64) (lane lanes : Nat) (hl : 0 < lanes) (hl32 : lanes < 4294967296) :
    execProc c proc_phi h [.u64 rand, .u64 m, .u64 s, .u32 lane, .u32 lanes] =
      .ok (h, [.u32 (Gen.argon2crypto.phi rand.toNat m.toNat s.toNat lane lanes)]) := by
  rw [execProc_eq _ _ _ _ rfl]
  show procResult _ (exec c proc_phi.body h [.u64 rand, .u64 m, .u64 s, .u32 lane, .u32 lanes, .undef]) = _
  rw [phi_body c h rand m s lane lanes hl hl32, procResult_ret _ _ _ rfl, Heap.popTo_self _ _ rfl]

/-- What a context must know about `phi`. -/
def PhiSpec (c : Ctx) : Prop :=
  ∀ (h : Heap) (rand m s : UInt64) (lane lanes : Nat), 0 < lanes → lanes < 4294967296 →
    c.call "phi" h [.u64 rand, .u64 m, .u64 s, .u32 lane, .u32 lanes] =
      .ok (h, [.u32 (Gen.argon2crypto.phi rand.toNat m.toNat s.toNat lane lanes)])

theorem phiSpec_ctxOf (H : Nat → Bytes → Bytes) (d : Nat) : PhiSpec (ctxOf H program (d + 1)) := by
  intro h rand m s lane lanes hl hl32
  rw [ctxOf_call, callIn_succ H program d "phi" proc_phi rfl]
  exact phi_proc _ h rand m s lane lanes hl hl32

/-! ## `indexAlpha` -/

set_option maxHeartbeats 1000000 in
theorem indexAlpha_body (c : Ctx) (hphi : PhiSpec c) (h : Heap) (rand : UInt64) (lanes segments threads n slice lane index : Nat)
    (hl : 0 < lanes) (hl32 : lanes < 4294967296) (ht : 0 < threads) :
    exec c proc_indexAlpha.body h
      [.u64 rand, .u32 lanes, .u32 segments, .u32 threads, .u32 n, .u32 slice, .u32 lane, .u32 index, .undef, .undef, .undef, .undef] =
      .ret h [.u32 (Gen.argon2crypto.indexAlpha rand.toNat lanes segments threads n slice lane index)] := by
  have ht0 : ¬ threads = 0 := by omega
  rw [Argon2Eq.indexAlpha_unfold]
  simp only [proc_indexAlpha, Argon2Eq.alphaM, Argon2Eq.alphaS, Argon2Eq.refLaneOf]
  by_cases hn : n = 0 <;> by_cases hs : slice = 0 <;> by_cases hi : index = 0 <;>
    by_cases hlr : lane = (rand.toNat >>> 32) % 4294967296 % threads <;>
    a2_simp [u64_ofNat_mod, ht0, hn, hs, hi, hlr, UInt64.toNat_shiftRight, UInt64.toNat_ofNat', Nat.reduceMod,
      true_or, or_true, or_self, false_or, or_false] <;>
    rw [hphi _ _ _ _ _ _ hl hl32] <;>
    a2_simp [u64_ofNat_toNat_lt, Nat.reduceMod, and_false, false_and, and_self, hlr]

theorem indexAlpha_proc (c : Ctx) (hphi : PhiSpec c) (h : Heap) (rand : UInt64) (lanes segments threads n slice lane index : Nat)
    (hl : 0 < lanes) (hl32 : lanes < 4294967296) (ht : 0 < threads) :
    execProc c proc_indexAlpha h
      [.u64 rand, .u32 lanes, .u32 segments, .u32 threads, .u32 n, .u32 slice, .u32 lane, .u32 index] =
      .ok (h, [.u32 (Gen.argon2crypto.indexAlpha rand.toNat lanes segments threads n slice lane index)]) := by
  rw [execProc_eq _ _ _ _ rfl]
  show procResult _ (exec c proc_indexAlpha.body h
    [.u64 rand, .u32 lanes, .u32 segments, .u32 threads, .u32 n, .u32 slice, .u32 lane, .u32 index, .undef, .undef, .undef, .undef]) = _
  rw [indexAlpha_body c hphi h rand lanes segments threads n slice lane index hl hl32 ht, procResult_ret _ _ _ rfl,
    Heap.popTo_self _ _ rfl]

/-- What a context must know about `indexAlpha`. -/
def IndexAlphaSpec (c : Ctx) : Prop :=
  ∀ (h : Heap) (rand : UInt64) (lanes segments threads n slice lane index : Nat),
    0 < lanes → lanes < 4294967296 → 0 < threads →
    c.call "indexAlpha" h [.u64 rand, .u32 lanes, .u32 segments, .u32 threads, .u32 n, .u32 slice, .u32 lane, .u32 index] =
      .ok (h, [.u32 (Gen.argon2crypto.indexAlpha rand.toNat lanes segments threads n slice lane index)])

theorem indexAlphaSpec_ctxOf (H : Nat → Bytes → Bytes) (d : Nat) : IndexAlphaSpec (ctxOf H program (d + 2)) := by
  intro h rand lanes segments threads n slice lane index hl hl32 ht
  rw [ctxOf_call, callIn_succ H program (d + 1) "indexAlpha" proc_indexAlpha rfl]
  exact indexAlpha_proc _ (phiSpec_ctxOf H d) h rand lanes segments threads n slice lane index hl hl32 ht

end GoCrypt.A2IR
