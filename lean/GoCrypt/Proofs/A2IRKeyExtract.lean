import GoCrypt.Proofs.A2IRKeyBase
import GoCrypt.Proofs.Argon2Eq.Key

/-!
# Block IR: `extractKey` as regenerated = the model's `extractKey`

The program XORs the last block of every lane but the last into `B[memory-1]` IN PLACE (the model only reads
`B`), serialises that block into a local 1024-byte array and hashes it into a fresh `[]byte`.
-/

namespace GoCrypt.A2IR.KeyIR
open GoCrypt.Gen.argon2IR GoCrypt.Kdf GoCrypt.Argon2Sched

/-! ## the model's `extractKey` as two folds -/

/-- `for i, v := range src { last[i] ^= v }` -/
def ekXor (last src : Block) : Block :=
  (List.range' 0 128).foldl (fun b i => b.set! i (b[i]! ^^^ src[i]!)) last

/-- the accumulator after the lanes `< k` have been XOR-ed in; `idx lane` is the block that lane contributes -/
def ekAcc (B : Array Block) (init : Block) (idx : Nat → Nat) (k : Nat) : Block :=
  (List.range' 0 k).foldl (fun b lane => ekXor b B[idx lane]!) init

theorem extractKey_unfold (B : Array Block) (memory threads keyLen : Nat) :
    Argon2.extractKey B memory threads keyLen =
      Argon2.blake2bHash keyLen (Argon2.bytesOfBlock (ekAcc B B[Argon2.u32 (memory + 4294967296 - 1)]!
        (fun lane => Argon2.u32 (Argon2.u32 (Argon2.u32 (lane * (memory / threads)) + memory / threads) + 4294967296 - 1))
        (threads - 1))) := by
  unfold Argon2.extractKey
  simp only [Std.Legacy.Range.forIn_eq_forIn_range', Argon2Eq.range_size, List.forIn_pure_yield_eq_foldl, pure_bind,
    Argon2.blockLength, Id.run_pure, ekAcc, ekXor]

theorem ekXor_size (last src : Block) : (ekXor last src).size = last.size :=
  foldl_set!_size (fun b i => b[i]! ^^^ src[i]!) _ last

theorem ekAcc_zero (B : Array Block) (init : Block) (idx : Nat → Nat) : ekAcc B init idx 0 = init := id rfl

theorem ekAcc_succ (B : Array Block) (init : Block) (idx : Nat → Nat) (k : Nat) :
    ekAcc B init idx (k + 1) = ekXor (ekAcc B init idx k) B[idx k]! := by
  unfold ekAcc
  rw [List.range'_concat, List.foldl_append]
  simp only [List.foldl_cons, List.foldl_nil, Nat.zero_add, Nat.one_mul]

theorem ekAcc_size (B : Array Block) (init : Block) (idx : Nat → Nat) (k : Nat) :
    (ekAcc B init idx k).size = init.size := by
  induction k with
  | zero => rfl
  | succ k ih => rw [ekAcc_succ, ekXor_size, ih]

theorem ekAcc_congr (B : Array Block) (init init' : Block) (idx idx' : Nat → Nat) (k : Nat) (hi : init = init')
    (hx : ∀ j, j < k → idx j = idx' j) : ekAcc B init idx k = ekAcc B init' idx' k := by
  subst hi
  induction k with
  | zero => rw [ekAcc_zero, ekAcc_zero]
  | succ k ih => rw [ekAcc_succ, ekAcc_succ, ih (fun j hj => hx j (by omega)), hx k (by omega)]

/-- the outer loop of `extractKey` -/
def ekLoop : Stmt := (proc_extractKey.body.drop 2).head

theorem xor_step (c : Ctx) (H : Heap) (rB : Ref) (A : Array Block) (memory i : Nat) (src : Block)
    (v2 v3 v4 v5 s6 s7 v8 v9 v10 v11 : Val)
    (hg : H.get rB = some (.blocks A)) (hm1 : 1 ≤ memory) (hm32 : memory < 4294967296) (hlast : memory - 1 < A.size)
    (h128 : A[memory - 1]!.size = 128) (hi : i < 128) :
    (bindR (setSlot [.blks rB, .u32 memory, v2, v3, v4, v5, s6, s7, v8, v9, v10, v11] 6 (.int i)) fun env1 =>
      bindR (setSlot env1 7 (.u64 src[i]!)) fun env2 => exec c ekLoop.forBody.forBody H env2) =
    .norm (H.set rB (.blocks (A.set! (memory - 1) (A[memory - 1]!.set! i (A[memory - 1]![i]! ^^^ src[i]!)))))
      [.blks rB, .u32 memory, v2, v3, v4, v5, .int i, .u64 src[i]!, v8, v9, v10, v11] := by
  have hl : (memory + 4294967296 - 1) % 4294967296 = memory - 1 := by omega
  simp only [ekLoop, proc_extractKey, Stmt.drop, Stmt.head, Stmt.forBody]
  a2_simp [hl, hg, asIdx_nat, readWord_of_get hg hlast h128 hi, storeWord_of_get _ hg hlast h128 hi]

def xorUpTo (X src : Block) (j : Nat) : Block :=
  (List.range' 0 j).foldl (fun b i => b.set! i (b[i]! ^^^ src[i]!)) X

theorem xorUpTo_succ (X src : Block) (j : Nat) :
    xorUpTo X src (j + 1) = (xorUpTo X src j).set! j ((xorUpTo X src j)[j]! ^^^ src[j]!) := by
  unfold xorUpTo
  rw [List.range'_concat, List.foldl_append]
  simp only [List.foldl_cons, List.foldl_nil, Nat.zero_add, Nat.one_mul]

theorem xorUpTo_size (X src : Block) (j : Nat) : (xorUpTo X src j).size = X.size :=
  foldl_set!_size (fun b i => b[i]! ^^^ src[i]!) _ X

theorem xor_inner (c : Ctx) (H0 : Heap) (rB : Ref) (A : Array Block) (memory : Nat) (X src : Block)
    (v2 v3 v4 v5 s6 s7 v8 v9 v10 v11 : Val)
    (hin : rB.inH H0) (hm1 : 1 ≤ memory) (hm32 : memory < 4294967296) (hlast : memory - 1 < A.size)
    (hX : X.size = 128) :
    ∃ s6' s7', rangeLoop (fun i h env =>
        bindR (setSlot env 6 (.int i)) fun env1 =>
        bindR (setSlot env1 7 (.u64 src[i]!)) fun env2 => exec c ekLoop.forBody.forBody h env2) 128 0
        (H0.set rB (.blocks (A.set! (memory - 1) X)))
        [.blks rB, .u32 memory, v2, v3, v4, v5, s6, s7, v8, v9, v10, v11] =
      .norm (H0.set rB (.blocks (A.set! (memory - 1) (ekXor X src))))
        [.blks rB, .u32 memory, v2, v3, v4, v5, s6', s7', v8, v9, v10, v11] := by
  have step : ∀ (k : Nat) (H : Heap) (env : Env), 0 ≤ k → k < 0 + 128 →
      (∃ s6 s7, H = H0.set rB (.blocks (A.set! (memory - 1) (xorUpTo X src k))) ∧
        env = [.blks rB, .u32 memory, v2, v3, v4, v5, s6, s7, v8, v9, v10, v11]) →
      ∃ h' env', (bindR (setSlot env 6 (.int k)) fun env1 =>
        bindR (setSlot env1 7 (.u64 src[k]!)) fun env2 => exec c ekLoop.forBody.forBody H env2) = .norm h' env' ∧
        ∃ s6 s7, h' = H0.set rB (.blocks (A.set! (memory - 1) (xorUpTo X src (k + 1)))) ∧
          env' = [.blks rB, .u32 memory, v2, v3, v4, v5, s6, s7, v8, v9, v10, v11] := by
    rintro k H env _ hk ⟨t6, t7, rfl, rfl⟩
    have hsz : (xorUpTo X src k).size = 128 := by rw [xorUpTo_size, hX]
    have hlast' : memory - 1 < (A.set! (memory - 1) (xorUpTo X src k)).size := by
      simpa [Array.set!_eq_setIfInBounds] using hlast
    have hself := getElem!_set!_self A (memory - 1) (xorUpTo X src k) hlast
    refine ⟨_, _, xor_step c _ rB (A.set! (memory - 1) (xorUpTo X src k)) memory k src v2 v3 v4 v5 t6 t7 v8 v9 v10 v11
      (Heap.get_set_self _ _ _ hin) hm1 hm32 hlast' (by rw [hself]; exact hsz) (by omega), _, _, ?_, rfl⟩
    rw [Heap.set_set, hself, set!_set!_self, xorUpTo_succ]
  obtain ⟨h', env', e, s6', s7', rfl, rfl⟩ := rangeLoop_inv
    (fun i h env =>
        bindR (setSlot env 6 (.int i)) fun env1 =>
        bindR (setSlot env1 7 (.u64 src[i]!)) fun env2 => exec c ekLoop.forBody.forBody h env2)
    (fun j H env => ∃ s6 s7, H = H0.set rB (.blocks (A.set! (memory - 1) (xorUpTo X src j))) ∧
      env = [.blks rB, .u32 memory, v2, v3, v4, v5, s6, s7, v8, v9, v10, v11])
    128 0 _ _ ⟨s6, s7, rfl, rfl⟩ step
  exact ⟨s6', s7', e⟩

theorem ekLoop_forBody : ekLoop.forBody = .forBlk 6 7 (forBlkExpr ekLoop.forBody) ekLoop.forBody.forBody := id rfl

theorem ek_outer_step (c : Ctx) (h : Heap) (rB : Ref) (B : Array Block) (memory threads q keyLen k : Nat) (s6 s7 : Val)
    (hg : h.get rB = some (.blocks B)) (hsz : B.size = memory) (h128 : Blocks128 B)
    (geo : Geom q (q / 4) threads) (hmul : memory = threads * q)
    (hk : k < threads - 1) :
    ∃ s6' s7', (exec c ekLoop.forBody (h.set rB (.blocks (B.set! (memory - 1)
          (ekAcc B B[memory - 1]! (fun lane => lane * q + q - 1) k))))
        [.blks rB, .u32 memory, .u32 threads, .u32 keyLen, .u32 q, .u32 k, s6, s7,
          .undef, .undef, .undef, .undef]).andThen (exec c ekLoop.forPost) =
      .norm (h.set rB (.blocks (B.set! (memory - 1) (ekAcc B B[memory - 1]! (fun lane => lane * q + q - 1) (k + 1)))))
        [.blks rB, .u32 memory, .u32 threads, .u32 keyLen, .u32 q, .u32 (k + 1), s6', s7',
          .undef, .undef, .undef, .undef] := by
  obtain ⟨g1, g2, g3, g4⟩ := geo
  have hkq : k * q + 2 * q ≤ threads * q := by
    have := Nat.mul_le_mul_right q (show k + 2 ≤ threads by omega)
    rwa [Nat.add_mul] at this
  have hidx : ((k * q % 4294967296 + q) % 4294967296 + 4294967296 - 1) % 4294967296 = k * q + q - 1 := by omega
  have hlast : memory - 1 < B.size := by omega
  have hXsz : (ekAcc B B[memory - 1]! (fun lane => lane * q + q - 1) k).size = 128 := by rw [ekAcc_size]; exact h128 _ hlast
  have hin : rB.inH h := Ref.inH_of_get hg
  have hne : memory - 1 ≠ k * q + q - 1 := by omega
  have hsrc : eval (h.set rB (.blocks (B.set! (memory - 1) (ekAcc B B[memory - 1]! (fun lane => lane * q + q - 1) k))))
      [.blks rB, .u32 memory, .u32 threads, .u32 keyLen, .u32 q, .u32 k, s6, s7, .undef, .undef, .undef, .undef]
      (forBlkExpr ekLoop.forBody) = .ok (.blk B[k * q + q - 1]!) := by
    have hsz' : k * q + q - 1 < (B.set! (memory - 1) (ekAcc B B[memory - 1]! (fun lane => lane * q + q - 1) k)).size := by
      simp only [Array.set!_eq_setIfInBounds, Array.size_setIfInBounds]; omega
    simp only [ekLoop, proc_extractKey, Stmt.drop, Stmt.head, Stmt.forBody, forBlkExpr]
    a2_simp [hidx, Heap.get_set_self _ _ _ hin, hsz', blockAt_of_get (Heap.get_set_self _ _ _ hin) hsz',
      getElem!_set!_ne _ _ _ _ hne]
  obtain ⟨s6', s7', e⟩ := xor_inner c h rB B memory (ekAcc B B[memory - 1]! (fun lane => lane * q + q - 1) k) B[k * q + q - 1]!
    (.u32 threads) (.u32 keyLen) (.u32 q) (.u32 k) s6 s7 .undef .undef .undef .undef hin (by omega) (by omega) hlast hXsz
  refine ⟨s6', s7', ?_⟩
  rw [ekLoop_forBody, exec_forBlk, hsrc]
  simp only [bindR_ok]
  rw [e, andThen_norm, ekAcc_succ]
  simp only [ekLoop, proc_extractKey, Stmt.drop, Stmt.head, Stmt.forPost]
  have hk1 : (k + 1) % 4294967296 = k + 1 := by
    have := Nat.le_mul_of_pos_right threads (show 0 < q by omega)
    omega
  a2_simp [hk1]
/-- the serialisation loop of `extractKey` -/
def ekSer : Stmt := (proc_extractKey.body.drop 4).head

theorem le64_length (w : UInt64) : (le64 w).length = 8 := by simp [le64]

theorem le64_pushes (v : UInt64) (out : Array UInt8) :
    List.foldl (fun (o : Array UInt8) k => o.push (v >>> UInt64.ofNat (8 * k)).toUInt8) out (List.range' 0 8)
      = out ++ (le64 v).toArray := by
  simp only [Argon2Eq.range'_0_8, le64, Argon2Eq.range_8, List.foldl_cons, List.foldl_nil, List.map_cons, List.map_nil]
  apply Array.toList_inj.mp
  simp

theorem bytesOfBlock_flatMap (b : Block) :
    Argon2.bytesOfBlock b = (List.range' 0 128).flatMap (fun i => le64 b[i]!) := by
  unfold Argon2.bytesOfBlock
  simp only [Std.Legacy.Range.forIn_eq_forIn_range', Argon2Eq.range_size, List.forIn_pure_yield_eq_foldl, pure_bind,
    le64_pushes, Argon2.blockLength, Id.run_pure]
  rw [Argon2Eq.appendLoop (fun i => le64 b[i]!)]
  simp

theorem ser_step (c : Ctx) (G : Heap) (buf : Bytes) (i : Nat) (w : UInt64)
    (v0 v1 v2 v3 v4 v5 v6 v7 s9 s10 v11 : Val) (hbuf : buf.length = 1024) (hi : i < 128) :
    (bindR (setSlot [v0, v1, v2, v3, v4, v5, v6, v7, .parr (.stk G.stk.length), s9, s10, v11] 9 (.int i)) fun env1 =>
      bindR (setSlot env1 10 (.u64 w)) fun env2 => exec c ekSer.forBody (G.push [.bytes buf]) env2) =
    .norm (G.push [.bytes (buf.take (i * 8) ++ le64 w ++ buf.drop (i * 8 + 8))])
      [v0, v1, v2, v3, v4, v5, v6, v7, .parr (.stk G.stk.length), .int i, .u64 w, v11] := by
  simp only [ekSer, proc_extractKey, Stmt.drop, Stmt.head, Stmt.forBody]
  a2_simp [Heap.get_push_top0, natCast_mul_ofNat, wrapS64_natCast, asIdx_nat, sliceVal, putLE, writeAt, lenOf, le64_length, hbuf,
    Heap.set_push_top0]

/-- the first `8·j` bytes of the serialised block -/
def serPre (X : Block) (j : Nat) : Bytes := (List.range' 0 j).flatMap (fun i => le64 X[i]!)

theorem serPre_succ (X : Block) (j : Nat) : serPre X (j + 1) = serPre X j ++ le64 X[j]! := by
  unfold serPre
  rw [List.range'_concat, List.flatMap_append]
  simp only [List.flatMap_cons, List.flatMap_nil, Nat.zero_add, Nat.one_mul, List.append_nil]

theorem serPre_length (X : Block) (j : Nat) : (serPre X j).length = 8 * j := by
  induction j with
  | zero => rfl
  | succ j ih => rw [serPre_succ, List.length_append, ih, le64_length]; omega

theorem ser_loop (c : Ctx) (G : Heap) (X : Block)
    (v0 v1 v2 v3 v4 v5 v6 v7 s9 s10 v11 : Val) :
    ∃ s9' s10', rangeLoop (fun i h env =>
        bindR (setSlot env 9 (.int i)) fun env1 =>
        bindR (setSlot env1 10 (.u64 X[i]!)) fun env2 => exec c ekSer.forBody h env2) 128 0
        (G.push [.bytes (List.replicate 1024 0)])
        [v0, v1, v2, v3, v4, v5, v6, v7, .parr (.stk G.stk.length), s9, s10, v11] =
      .norm (G.push [.bytes (Argon2.bytesOfBlock X)])
        [v0, v1, v2, v3, v4, v5, v6, v7, .parr (.stk G.stk.length), s9', s10', v11] := by
  have step : ∀ (k : Nat) (H : Heap) (env : Env), 0 ≤ k → k < 0 + 128 →
      (∃ s9 s10, H = G.push [.bytes (serPre X k ++ List.replicate (1024 - 8 * k) 0)] ∧
        env = [v0, v1, v2, v3, v4, v5, v6, v7, .parr (.stk G.stk.length), s9, s10, v11]) →
      ∃ h' env', (bindR (setSlot env 9 (.int k)) fun env1 =>
        bindR (setSlot env1 10 (.u64 X[k]!)) fun env2 => exec c ekSer.forBody H env2) = .norm h' env' ∧
        ∃ s9 s10, h' = G.push [.bytes (serPre X (k + 1) ++ List.replicate (1024 - 8 * (k + 1)) 0)] ∧
          env' = [v0, v1, v2, v3, v4, v5, v6, v7, .parr (.stk G.stk.length), s9, s10, v11] := by
    rintro k H env _ hk ⟨t9, t10, rfl, rfl⟩
    have hlen := serPre_length X k
    refine ⟨_, _, ser_step c G _ k X[k]! v0 v1 v2 v3 v4 v5 v6 v7 t9 t10 v11
      (by rw [List.length_append, hlen, List.length_replicate]; omega) (by omega), _, _, ?_, rfl⟩
    have e1 : List.take (k * 8) (serPre X k ++ List.replicate (1024 - 8 * k) 0) = serPre X k := by
      rw [List.take_append_of_le_length (by omega), List.take_of_length_le (by omega)]
    have e2 : List.drop (k * 8 + 8) (serPre X k ++ List.replicate (1024 - 8 * k) 0)
        = List.replicate (1024 - 8 * (k + 1)) 0 := by
      rw [List.drop_append, List.drop_of_length_le (by omega), List.nil_append, List.drop_replicate, hlen]
      congr 1; omega
    rw [e1, e2, serPre_succ]
  obtain ⟨h', env', e, s9', s10', rfl, rfl⟩ := rangeLoop_inv
    (fun i h env =>
        bindR (setSlot env 9 (.int i)) fun env1 =>
        bindR (setSlot env1 10 (.u64 X[i]!)) fun env2 => exec c ekSer.forBody h env2)
    (fun j H env => ∃ s9 s10, H = G.push [.bytes (serPre X j ++ List.replicate (1024 - 8 * j) 0)] ∧
      env = [v0, v1, v2, v3, v4, v5, v6, v7, .parr (.stk G.stk.length), s9, s10, v11])
    128 0 _ _ ⟨s9, s10, rfl, rfl⟩ step
  refine ⟨s9', s10', ?_⟩
  have e0 : serPre X 0 ++ List.replicate (1024 - 8 * 0) 0 = List.replicate 1024 (0 : UInt8) := by
    rw [show serPre X 0 = [] from rfl, List.nil_append]
  have e128 : serPre X (0 + 128) ++ List.replicate (1024 - 8 * (0 + 128)) 0 = Argon2.bytesOfBlock X := by
    rw [bytesOfBlock_flatMap]
    simp only [serPre, Nat.zero_add, Nat.reduceMul, Nat.reduceSub, List.replicate_zero, List.append_nil]
  rw [e0, e128] at e
  exact e

theorem bytesOfBlock_length (X : Block) : (Argon2.bytesOfBlock X).length = 1024 := by
  rw [bytesOfBlock_flatMap]; exact serPre_length X 128

theorem extractKey_eq_acc (B : Array Block) (memory threads q keyLen : Nat) (hq : memory / threads = q)
    (geo : Geom q (q / 4) threads) (hmul : memory = threads * q) :
    Argon2.extractKey B memory threads keyLen =
      Argon2.blake2bHash keyLen (Argon2.bytesOfBlock
        (ekAcc B B[memory - 1]! (fun lane => lane * q + q - 1) (threads - 1))) := by
  obtain ⟨g1, g2, g3, g4⟩ := geo
  have htq : threads ≤ threads * q := Nat.le_mul_of_pos_right threads (show 0 < q by omega)
  have hlu : Argon2.u32 (memory + 4294967296 - 1) = memory - 1 := by simp only [Argon2.u32]; omega
  rw [extractKey_unfold, hq, hlu]
  rw [ekAcc_congr B B[memory - 1]! B[memory - 1]! _ (fun lane => lane * q + q - 1) (threads - 1) rfl]
  intro j hj
  have hjq : j * q + 2 * q ≤ threads * q := by
    have := Nat.mul_le_mul_right q (show j + 2 ≤ threads by omega)
    rwa [Nat.add_mul] at this
  simp only [Argon2.u32]; omega

/-! ## the whole body -/

theorem ek_drop2 : proc_extractKey.body.drop 2 = (ekLoop ;;; proc_extractKey.body.drop 3) := id rfl
theorem ek_drop3 : proc_extractKey.body.drop 3 = (.declBytes 8 1024 ;;; ekSer ;;; proc_extractKey.body.drop 5) := id rfl
theorem ekLoop_eq : ekLoop = .for_ ekLoop.forFuel ekLoop.forCond ekLoop.forPost ekLoop.forBody := id rfl
theorem ekSer_eq : ekSer = .forBlk 9 10 (forBlkExpr ekSer) ekSer.forBody := id rfl

theorem extractKey_body (c : Ctx) (hb : Blake2bHashSpec c) (h : Heap) (rB : Ref) (B : Array Block)
    (memory threads keyLen : Nat)
    (hg : h.get rB = some (.blocks B)) (hsz : B.size = memory) (h128 : Blocks128 B)
    (geo : Geom (memory / threads) (memory / threads / 4) threads) (hmul : memory = threads * (memory / threads))
    (hk1 : 1 ≤ keyLen) (hk : keyLen < 4294967296) :
    ∃ (B' : Array Block) (blk : Bytes),
      exec c proc_extractKey.body h [.blks rB, .u32 memory, .u32 threads, .u32 keyLen,
          .undef, .undef, .undef, .undef, .undef, .undef, .undef, .undef] =
        .ret (((h.set rB (.blocks B')).push [.bytes blk]).alloc
          (.bytes (Argon2.extractKey B memory threads keyLen))) [.bytes (.mem h.mem.length) 0 keyLen keyLen] := by
  have geo' := geo
  obtain ⟨g1, g2, g3, g4⟩ := geo'
  generalize hq : memory / threads = q at *
  have hin : rB.inH h := Ref.inH_of_get hg
  have ht0 : ¬ threads = 0 := by omega
  have htq : threads ≤ threads * q := Nat.le_mul_of_pos_right threads (show 0 < q by omega)
  have hlast : memory - 1 < B.size := by omega
  have hfuel : (threads + 4294967296 - 1) % 4294967296 = threads - 1 := by omega
  -- the first two statements
  rw [exec_take_drop c h _ 2, ek_drop2]
  have e0 : exec c (proc_extractKey.body.take 2) h [.blks rB, .u32 memory, .u32 threads, .u32 keyLen,
        .undef, .undef, .undef, .undef, .undef, .undef, .undef, .undef] =
      .norm h [.blks rB, .u32 memory, .u32 threads, .u32 keyLen, .u32 q, .u32 0,
        .undef, .undef, .undef, .undef, .undef, .undef] := by
    simp only [proc_extractKey, Stmt.take]
    a2_simp [ht0, hq]
  rw [e0, andThen_norm, exec_seq, ekLoop_eq, exec_for]
  -- the XOR loop
  have efuel : (eval h [.blks rB, .u32 memory, .u32 threads, .u32 keyLen, .u32 q, .u32 0,
        .undef, .undef, .undef, .undef, .undef, .undef] ekLoop.forFuel >>= asIdx) = .ok (threads - 1) := by
    simp only [ekLoop, proc_extractKey, Stmt.drop, Stmt.head, Stmt.forFuel]
    a2_simp [hfuel]
  rw [efuel, bindR_ok]
  obtain ⟨H1, env1, eloop, s6, s7, rfl, rfl⟩ := loop_inv
    (fun h env => eval h env ekLoop.forCond >>= asBool)
    (fun h env => (exec c ekLoop.forBody h env).andThen (exec c ekLoop.forPost))
    (fun k H env => ∃ s6 s7,
      H = h.set rB (.blocks (B.set! (memory - 1) (ekAcc B B[memory - 1]! (fun lane => lane * q + q - 1) k))) ∧
      env = [.blks rB, .u32 memory, .u32 threads, .u32 keyLen, .u32 q, .u32 k, s6, s7,
        .undef, .undef, .undef, .undef])
    (threads - 1)
    (by
      rintro k H env hk ⟨s6, s7, rfl, rfl⟩
      refine ⟨?_, ?_⟩
      · simp only [ekLoop, proc_extractKey, Stmt.drop, Stmt.head, Stmt.forCond]
        a2_simp [hfuel, hk]
      · obtain ⟨s6', s7', e⟩ := ek_outer_step c h rB B memory threads q keyLen k s6 s7 hg hsz h128 geo hmul hk
        exact ⟨_, _, e, s6', s7', rfl, rfl⟩)
    (by
      rintro H env ⟨s6, s7, rfl, rfl⟩
      simp only [ekLoop, proc_extractKey, Stmt.drop, Stmt.head, Stmt.forCond]
      a2_simp [hfuel, Nat.lt_irrefl])
    (threads - 1) 0 h _ (Nat.zero_le _) (by omega)
    ⟨.undef, .undef, by rw [ekAcc_zero, set!_getElem!_self _ _ hlast, Heap.set_get_self hg], rfl⟩
  rw [eloop, andThen_norm, extractKey_eq_acc B memory threads q keyLen hq geo hmul]
  have hXsz : (ekAcc B B[memory - 1]! (fun lane => lane * q + q - 1) (threads - 1)).size = 128 := by
    rw [ekAcc_size]; exact h128 _ hlast
  generalize ekAcc B B[memory - 1]! (fun lane => lane * q + q - 1) (threads - 1) = X at *
  clear eloop
  -- `var block [1024]byte`
  rw [ek_drop3, exec_seq, exec_declBytes]
  simp only [setSlot_def, List.length_cons, List.length_nil, List.set_cons_succ, List.set_cons_zero, Nat.reduceAdd,
    Nat.reduceLT, if_true, bindR_ok, andThen_norm, exec_seq]
  have hGg : (h.set rB (.blocks (B.set! (memory - 1) X))).get rB = some (.blocks (B.set! (memory - 1) X)) :=
    Heap.get_set_self _ _ _ hin
  have hGm : (h.set rB (.blocks (B.set! (memory - 1) X))).mem.length = h.mem.length := Heap.mem_length_set _ _ _
  generalize hG : h.set rB (.blocks (B.set! (memory - 1) X)) = G at *
  have hinG : rB.inH G := Ref.inH_of_get hGg
  have hl : (memory + 4294967296 - 1) % 4294967296 = memory - 1 := by omega
  have hlast' : memory - 1 < (B.set! (memory - 1) X).size := by
    simpa [Array.set!_eq_setIfInBounds] using hlast
  -- the serialisation loop
  have hsrc : ∀ z : Bytes, eval (G.push [.bytes z])
      [.blks rB, .u32 memory, .u32 threads, .u32 keyLen, .u32 q, .u32 (threads - 1), s6, s7,
        .parr (.stk G.stk.length), .undef, .undef, .undef] (forBlkExpr ekSer) = .ok (.blk X) := by
    intro z
    have hgp := (Heap.get_push_of_in G [.bytes z] rB hinG).trans hGg
    simp only [ekSer, proc_extractKey, Stmt.drop, Stmt.head, forBlkExpr]
    a2_simp [hl, hgp, hlast', blockAt_of_get hgp hlast', getElem!_set!_self _ _ _ hlast]
  obtain ⟨s9, s10, eser⟩ := ser_loop c G X (.blks rB) (.u32 memory) (.u32 threads) (.u32 keyLen) (.u32 q)
    (.u32 (threads - 1)) s6 s7 .undef .undef .undef
  rw [ekSer_eq, exec_forBlk, hsrc]
  simp only [bindR_ok]
  rw [eser, andThen_norm]
  -- `make`, `blake2bHash`, `return`
  have hget8 : ((G.push [.bytes (Argon2.bytesOfBlock X)]).alloc (.bytes (List.replicate keyLen 0))).get
      (.stk G.stk.length) = some (.bytes (Argon2.bytesOfBlock X)) := by
    rw [Heap.get_alloc_of_in _ _ _ (by simp [Ref.inH]), Heap.get_push_top0]; rfl
  simp only [proc_extractKey, Stmt.drop]
  a2_simp [sliceVal, lenOf, hget8, bytesOfBlock_length, asIdx_nat]
  have hgk : ((G.push [.bytes (Argon2.bytesOfBlock X)]).alloc (.bytes (List.replicate keyLen 0))).get
      (.mem G.mem.length) = some (.bytes (List.replicate keyLen 0)) := Heap.get_alloc_new _ _
  have hview : viewBytes ((G.push [.bytes (Argon2.bytesOfBlock X)]).alloc (.bytes (List.replicate keyLen 0)))
      (.bytes (.stk G.stk.length) 0 1024 1024) = .ok (Argon2.bytesOfBlock X) := by
    simp only [viewBytes, getBytes_of_get hget8, ok_bind, bytesOfBlock_length, Nat.zero_add, Nat.le_refl, if_true,
      List.drop_zero]
    rw [List.take_of_length_le (by rw [bytesOfBlock_length]; exact Nat.le_refl _)]
  rw [hb _ (.mem G.mem.length) 0 keyLen keyLen _ _ _ hgk (by simp) (Nat.le_refl _) hk1 hk hview]
  a2_simp
  refine ⟨B.set! (memory - 1) X, Argon2.bytesOfBlock X, ?_⟩
  rw [hG, ← hGm]
  have hpm : (G.push [.bytes (Argon2.bytesOfBlock X)]).mem.length = G.mem.length := rfl
  rw [← hpm, Heap.set_alloc_new, List.take_zero, List.nil_append,
    List.drop_of_length_le (by rw [List.length_replicate]; exact Nat.le_refl _), List.append_nil]

/-- **`extractKey`** (statement of `ExtractKeySpec` for the procedure itself) -/
theorem extractKey_proc (c : Ctx) (hb : Blake2bHashSpec c) (h : Heap) (rB : Ref) (B : Array Block)
    (memory threads keyLen : Nat)
    (hg : h.get rB = some (.blocks B)) (hsz : B.size = memory) (h128 : Blocks128 B)
    (geo : Geom (memory / threads) (memory / threads / 4) threads) (hmul : memory = threads * (memory / threads))
    (hk1 : 1 ≤ keyLen) (hk : keyLen < 4294967296) :
    ∃ B' : Array Block,
      execProc c proc_extractKey h [.blks rB, .u32 memory, .u32 threads, .u32 keyLen] =
        .ok ((h.set rB (.blocks B')).alloc (.bytes (Argon2.extractKey B memory threads keyLen)),
             [.bytes (.mem h.mem.length) 0 keyLen keyLen]) := by
  obtain ⟨B', blk, e⟩ := extractKey_body c hb h rB B memory threads keyLen hg hsz h128 geo hmul hk1 hk
  refine ⟨B', ?_⟩
  rw [execProc_eq _ _ _ _ rfl]
  show procResult _ (exec c proc_extractKey.body h [.blks rB, .u32 memory, .u32 threads, .u32 keyLen,
    .undef, .undef, .undef, .undef, .undef, .undef, .undef, .undef]) = _
  rw [e, procResult_ret _ _ _ rfl, Heap.popTo_push_alloc _ _ _ _ (Heap.stk_length_set _ _ _).symm]

end GoCrypt.A2IR.KeyIR
