import GoCrypt.Proofs.A2IRSegmentLoop
import GoCrypt.Proofs.Argon2Eq.Fill

/-!
# Block IR, step 3: `processBlocks` (three nested loops, the innermost a tasks/join node) = the model's `processBlocks`
-/

namespace GoCrypt.A2IR
open GoCrypt.Gen.argon2IR GoCrypt.Kdf GoCrypt.Argon2Sched GoCrypt.Argon2Eq

def pbBody : Stmt := proc_processBlocks.body
def pbOuter : Stmt := (pbBody.drop 4).head
def pbInner : Stmt := (pbOuter.forBody.drop 1).head
def pbTasks : Stmt := (pbInner.forBody.drop 1).head

theorem Heap.set_comm (h : Heap) (r r' : Ref) (o o' : Obj) (hne : r ≠ r') : (h.set r o).set r' o' = (h.set r' o').set r o := by
  cases r <;> cases r' <;> simp only [Heap.set]
  · rw [List.set_comm _ _ (fun e => hne (by rw [e]))]
  · rw [List.set_comm _ _ (fun e => hne (by rw [e]))]

section folds
variable (time memory threads mode version : Nat)

def laneFold (B : Array Block) (n slice k : Nat) : Array Block :=
  (List.range' 0 k).foldl (fun B lane =>
    Argon2.processSegment B time memory threads mode version (memory / threads) (memory / threads / 4) n slice lane) B
def sliceFold (B : Array Block) (n k : Nat) : Array Block :=
  (List.range' 0 k).foldl (fun B slice => laneFold time memory threads mode version B n slice threads) B
def passFold (B : Array Block) (k : Nat) : Array Block :=
  (List.range' 0 k).foldl (fun B n => sliceFold time memory threads mode version B n 4) B

theorem laneFold_succ (B : Array Block) (n slice k : Nat) : laneFold time memory threads mode version B n slice (k + 1) =
    Argon2.processSegment (laneFold time memory threads mode version B n slice k) time memory threads mode version
      (memory / threads) (memory / threads / 4) n slice k := by
  simp only [laneFold, List.range'_concat, List.foldl_append, List.foldl_cons, List.foldl_nil, Nat.zero_add, Nat.one_mul]
theorem sliceFold_succ (B : Array Block) (n k : Nat) : sliceFold time memory threads mode version B n (k + 1) =
    laneFold time memory threads mode version (sliceFold time memory threads mode version B n k) n k threads := by
  simp only [sliceFold, List.range'_concat, List.foldl_append, List.foldl_cons, List.foldl_nil, Nat.zero_add, Nat.one_mul]
theorem passFold_succ (B : Array Block) (k : Nat) : passFold time memory threads mode version B (k + 1) =
    sliceFold time memory threads mode version (passFold time memory threads mode version B k) k 4 := by
  simp only [passFold, List.range'_concat, List.foldl_append, List.foldl_cons, List.foldl_nil, Nat.zero_add, Nat.one_mul]

theorem processBlocks_eq_passFold (B : Array Block) :
    Argon2.processBlocks B time memory threads mode version = passFold time memory threads mode version B time := by
  rw [processBlocks_eq_foldl]; rfl

end folds

/-- the memory keeps its shape -/
def MemOk (threads lanes : Nat) (B : Array Block) : Prop := B.size = threads * lanes ∧ Blocks128 B

theorem processSegment_ok {threads lanes segments : Nat} (geo : Geom lanes segments threads) (B : Array Block)
    (time memory mode version n slice lane : Nat) (hslice : slice < 4) (hlane : lane < threads) (hB : MemOk threads lanes B) :
    MemOk threads lanes (Argon2.processSegment B time memory threads mode version lanes segments n slice lane) := by
  have hseg := geo.seg
  have hi0 : (if n = 0 ∧ slice = 0 then 2 else 0) ≤ segments := by split <;> omega
  have h0 : n = 0 ∧ slice = 0 → 2 ≤ (if n = 0 ∧ slice = 0 then 2 else 0) := fun e => by rw [if_pos e]; omega
  rw [processSegment_eq_sSeq geo B time memory mode version n slice lane hslice hlane hB.1 hB.2]
  have hI := segInv_init geo B time memory mode n slice lane hslice hlane hB.1 hB.2
  generalize (if n = 0 ∧ slice = 0 then 2 else 0) = i0 at hi0 h0 hI ⊢
  have := segInv_seq (mode := mode) (version := version) geo hslice hlane h0 _ hI (segments - i0) (by omega)
  exact ⟨this.bsz, this.b128⟩

theorem laneFold_ok {threads : Nat} (time memory mode version : Nat) (geo : Geom (memory / threads) (memory / threads / 4) threads)
    (B : Array Block) (n slice : Nat) (hslice : slice < 4) (hB : MemOk threads (memory / threads) B) :
    ∀ k, k ≤ threads → MemOk threads (memory / threads) (laneFold time memory threads mode version B n slice k) := by
  intro k
  induction k with
  | zero => intro _; exact hB
  | succ k ih =>
    intro hk
    rw [laneFold_succ]
    exact processSegment_ok geo _ _ _ _ _ _ _ _ hslice (by omega) (ih (by omega))

theorem sliceFold_ok {threads : Nat} (time memory mode version : Nat) (geo : Geom (memory / threads) (memory / threads / 4) threads)
    (B : Array Block) (n : Nat) (hB : MemOk threads (memory / threads) B) :
    ∀ k, k ≤ 4 → MemOk threads (memory / threads) (sliceFold time memory threads mode version B n k) := by
  intro k
  induction k with
  | zero => intro _; exact hB
  | succ k ih =>
    intro hk
    rw [sliceFold_succ]
    exact laneFold_ok time memory mode version geo _ _ _ (by omega) (ih (by omega)) threads (Nat.le_refl _)

theorem passFold_ok {threads : Nat} (time memory mode version : Nat) (geo : Geom (memory / threads) (memory / threads / 4) threads)
    (B : Array Block) (hB : MemOk threads (memory / threads) B) :
    ∀ k, MemOk threads (memory / threads) (passFold time memory threads mode version B k) := by
  intro k
  induction k with
  | zero => exact hB
  | succ k ih =>
    rw [passFold_succ]
    exact sliceFold_ok time memory mode version geo _ _ ih 4 (Nat.le_refl _)


/-! ## loops with named condition / step functions -/

def loopCond (cnd : Expr) : Heap → Env → Res Bool := fun h env => eval h env cnd >>= asBool
def forStep (c : Ctx) (body post : Stmt) : Heap → Env → Out := fun h env => (exec c body h env).andThen (exec c post)
def taskStep (c : Ctx) (post : Stmt) (wg : Expr) (f : String) (args : List Expr) : Heap → Env → Out := fun h env =>
  (bindR (eval h env wg) fun w =>
   bindR (wgAdd h w 1) fun h1 =>
   bindR (evalArgs h1 env args) fun vals =>
   bindR (c.call f h1 vals) fun (h2, _) => .norm h2 env).andThen (exec c post)
def taskJoin (wg : Expr) : Heap → Env → Out := fun h env =>
  bindR (eval h env wg) fun w => bindR (wgWait h w) fun _ => .norm h env

theorem exec_for' (c : Ctx) (h : Heap) (env : Env) (fuel cnd : Expr) (post body : Stmt) :
    exec c (.for_ fuel cnd post body) h env =
      bindR (eval h env fuel >>= asIdx) fun n => loop (loopCond cnd) (forStep c body post) n h env := id rfl

theorem exec_tasks' (c : Ctx) (h : Heap) (env : Env) (fuel : Expr) (init : Stmt) (cnd : Expr) (post : Stmt) (wg : Expr)
    (f : String) (args : List Expr) :
    exec c (.tasks fuel init cnd post wg f args) h env =
      (exec c init h env).andThen fun h env =>
      bindR (eval h env fuel >>= asIdx) fun n =>
      (loop (loopCond cnd) (taskStep c post wg f args) n h env).andThen (taskJoin wg) := id rfl

namespace Stmt
def tFuel : Stmt → Expr
  | .tasks f _ _ _ _ _ _ => f
  | _ => .unknown "not a tasks node"
def tInit : Stmt → Stmt
  | .tasks _ i _ _ _ _ _ => i
  | _ => .unknown "not a tasks node"
def tCond : Stmt → Expr
  | .tasks _ _ c _ _ _ _ => c
  | _ => .unknown "not a tasks node"
def tPost : Stmt → Stmt
  | .tasks _ _ _ p _ _ _ => p
  | _ => .unknown "not a tasks node"
def tWg : Stmt → Expr
  | .tasks _ _ _ _ w _ _ => w
  | _ => .unknown "not a tasks node"
def tArgs : Stmt → List Expr
  | .tasks _ _ _ _ _ _ a => a
  | _ => []
end Stmt

local macro "pbEnv%" rB:term:max time:term:max memory:term:max threads:term:max mode:term:max version:term:max
    v8:term:max n:term:max slice:term:max w:term:max lane:term:max : term =>
  `([Val.blks $rB, Val.u32 $time, Val.u32 $memory, Val.u32 $threads, Val.int ($mode : Nat), Val.int ($version : Nat),
     Val.u32 ($memory / $threads), Val.u32 ($memory / $threads / 4), $v8, $n, $slice, $w, $lane])

set_option maxHeartbeats 1000000 in
/-- the tasks/join node: the lanes of one slice, run one after the other -/
theorem pb_tasks (c : Ctx) (hps : ProcessSegmentSpec c) (G : Heap) (rB rW : Ref) (B : Array Block)
    (time memory threads mode version n slice : Nat) (v8 v12 : Val)
    (geo : Geom (memory / threads) (memory / threads / 4) threads) (hslice : slice < 4)
    (hgB : G.get rB = some (.blocks B)) (hgW : G.get rW = some (.wg 0)) (hB : MemOk threads (memory / threads) B) :
    exec c pbTasks G (pbEnv% rB time memory threads mode version v8 (.u32 n) (.u32 slice) (.pwg rW) v12) =
      .norm (G.set rB (.blocks (laneFold time memory threads mode version B n slice threads)))
        (pbEnv% rB time memory threads mode version v8 (.u32 n) (.u32 slice) (.pwg rW) (.u32 threads)) := by
  have hne : rB ≠ rW := by intro e; rw [e, hgW] at hgB; cases hgB
  have hrB := Ref.inH_of_get hgB
  have hrW := Ref.inH_of_get hgW
  have ht32 : threads < 4294967296 := by
    have := geo.mem; have := geo.lanes_eq; have := geo.seg
    have : threads * 1 ≤ threads * (memory / threads) := Nat.mul_le_mul_left _ (by omega)
    omega
  have e : pbTasks = .tasks pbTasks.tFuel pbTasks.tInit pbTasks.tCond pbTasks.tPost pbTasks.tWg "processSegment" pbTasks.tArgs := rfl
  rw [e, exec_tasks']
  have hinit : exec c pbTasks.tInit G (pbEnv% rB time memory threads mode version v8 (.u32 n) (.u32 slice) (.pwg rW) v12) =
      .norm G (pbEnv% rB time memory threads mode version v8 (.u32 n) (.u32 slice) (.pwg rW) (.u32 0)) := by
    simp only [pbTasks, pbInner, pbOuter, pbBody, proc_processBlocks, Stmt.drop, Stmt.head, Stmt.forBody, Stmt.tInit]
    a2_simp
  have hfuel : eval G (pbEnv% rB time memory threads mode version v8 (.u32 n) (.u32 slice) (.pwg rW) (.u32 0)) pbTasks.tFuel =
      .ok (.u32 threads) := by
    simp only [pbTasks, pbInner, pbOuter, pbBody, proc_processBlocks, Stmt.drop, Stmt.head, Stmt.forBody, Stmt.tFuel]
    a2_simp
  rw [hinit, andThen_norm, hfuel]
  simp only [ok_bind, asIdx_u32, bindR_ok]
  have hloop := loop_count (loopCond pbTasks.tCond) (taskStep c pbTasks.tPost pbTasks.tWg "processSegment" pbTasks.tArgs)
    (fun k => (G.set rB (.blocks (laneFold time memory threads mode version B n slice k)),
               pbEnv% rB time memory threads mode version v8 (.u32 n) (.u32 slice) (.pwg rW) (.u32 k))) threads
    (by
      intro k hk
      simp only [loopCond, pbTasks, pbInner, pbOuter, pbBody, proc_processBlocks, Stmt.drop, Stmt.head, Stmt.forBody, Stmt.tCond]
      a2_simp [hk])
    (by
      simp only [loopCond, pbTasks, pbInner, pbOuter, pbBody, proc_processBlocks, Stmt.drop, Stmt.head, Stmt.forBody, Stmt.tCond]
      a2_simp [Nat.lt_irrefl])
    (by
      intro k hk
      have hBk := laneFold_ok time memory mode version geo B n slice hslice hB k (by omega)
      dsimp only
      rw [laneFold_succ]
      generalize laneFold time memory threads mode version B n slice k = Bk at hBk
      have g1 : (G.set rB (.blocks Bk)).get rW = some (.wg 0) := by rw [Heap.get_set_ne _ _ _ _ hne]; exact hgW
      have g2 : ((G.set rB (.blocks Bk)).set rW (.wg 1)).get rB = some (.blocks Bk) := by
        rw [Heap.get_set_ne _ _ _ _ (Ne.symm hne)]; exact Heap.get_set_self _ _ _ hrB
      have g3 : ((G.set rB (.blocks Bk)).set rW (.wg 1)).get rW = some (.wg 1) :=
        Heap.get_set_self _ _ _ ((Ref.inH_set _ _ _ _).mpr hrW)
      have hcall := hps _ rB rW Bk 1 time memory threads mode version (memory / threads) (memory / threads / 4) n slice k
        g2 g3 (by omega) geo hBk.1 hBk.2 hslice hk
      have hheap : ((((G.set rB (.blocks Bk)).set rW (.wg 1)).set rB (.blocks (Argon2.processSegment Bk time memory threads mode version
          (memory / threads) (memory / threads / 4) n slice k))).set rW (.wg (1 - 1))) =
          G.set rB (.blocks (Argon2.processSegment Bk time memory threads mode version (memory / threads) (memory / threads / 4) n slice k)) := by
        rw [Heap.set_comm _ rW rB _ _ (Ne.symm hne), Heap.set_set, Heap.set_set]
        apply Heap.set_get_self
        rw [Heap.get_set_ne _ _ _ _ hne]; exact hgW
      rw [hheap] at hcall
      simp only [taskStep, pbTasks, pbInner, pbOuter, pbBody, proc_processBlocks, Stmt.drop, Stmt.head, Stmt.forBody, Stmt.tWg,
        Stmt.tArgs, Stmt.tPost]
      a2_simp [wgAdd, g1, hcall, Nat.mod_eq_of_lt])
    threads 0 (Nat.zero_le _) (Nat.le_refl _)
  simp only at hloop
  rw [show laneFold time memory threads mode version B n slice 0 = B from rfl, Heap.set_get_self _ _ _ hgB] at hloop
  rw [hloop, andThen_norm]
  have gW : (G.set rB (.blocks (laneFold time memory threads mode version B n slice threads))).get rW = some (.wg 0) := by
    rw [Heap.get_set_ne _ _ _ _ hne]; exact hgW
  simp only [taskJoin, pbTasks, pbInner, pbOuter, pbBody, proc_processBlocks, Stmt.drop, Stmt.head, Stmt.forBody, Stmt.tWg]
  a2_simp [wgWait, gW]


theorem replicate_succ_append {α} (j : Nat) (x : α) : List.replicate (j + 1) x = List.replicate j x ++ [x] := by
  rw [List.replicate_succ']

set_option maxHeartbeats 1000000 in
/-- the loop over the four slices of one pass; every iteration declares one more `sync.WaitGroup` -/
theorem pb_inner (c : Ctx) (hps : ProcessSegmentSpec c) (G : Heap) (rB : Ref) (B : Array Block)
    (time memory threads mode version n : Nat) (v8 v11 v12 : Val)
    (geo : Geom (memory / threads) (memory / threads / 4) threads)
    (hgB : G.get rB = some (.blocks B)) (hB : MemOk threads (memory / threads) B) :
    exec c pbInner G (pbEnv% rB time memory threads mode version v8 (.u32 n) (.u32 0) v11 v12) =
      .norm ((G.set rB (.blocks (sliceFold time memory threads mode version B n 4))).push (List.replicate 4 (.wg 0)))
        (pbEnv% rB time memory threads mode version v8 (.u32 n) (.u32 4) (.pwg (.stk (G.stk.length + 3))) (.u32 threads)) := by
  have hrB := Ref.inH_of_get hgB
  have e : pbInner = .for_ (.u32 4) pbInner.forCond pbInner.forPost (.declWG 11 ;;; pbTasks) := rfl
  rw [e, exec_for']
  simp only [eval_u32, ok_bind, asIdx_u32, bindR_ok]
  have hloop := loop_count (loopCond pbInner.forCond) (forStep c (.declWG 11 ;;; pbTasks) pbInner.forPost)
    (fun j => ((G.set rB (.blocks (sliceFold time memory threads mode version B n j))).push (List.replicate j (.wg 0)),
               pbEnv% rB time memory threads mode version v8 (.u32 n) (.u32 j)
                 (if j = 0 then v11 else .pwg (.stk (G.stk.length + (j - 1)))) (if j = 0 then v12 else .u32 threads))) 4
    (by
      intro j hj
      simp only [loopCond, pbInner, pbOuter, pbBody, proc_processBlocks, Stmt.drop, Stmt.head, Stmt.forBody, Stmt.forCond]
      a2_simp [hj])
    (by
      simp only [loopCond, pbInner, pbOuter, pbBody, proc_processBlocks, Stmt.drop, Stmt.head, Stmt.forBody, Stmt.forCond]
      a2_simp)
    (by
      intro j hj
      have hBj := sliceFold_ok time memory mode version geo B n hB j (by omega)
      dsimp only
      rw [sliceFold_succ]
      generalize sliceFold time memory threads mode version B n j = Bj at hBj
      have hin : rB.inH ((G.set rB (.blocks Bj)).push (List.replicate j (.wg 0))) :=
        Ref.inH_push _ _ _ ((Ref.inH_set _ _ _ _).mpr hrB)
      have hlen : ((G.set rB (.blocks Bj)).push (List.replicate j (.wg 0))).stk.length = G.stk.length + j := by simp
      have g1 : (((G.set rB (.blocks Bj)).push (List.replicate j (.wg 0))).push [.wg 0]).get rB = some (.blocks Bj) := by
        rw [Heap.get_push_of_in _ _ _ hin, Heap.get_push_of_in _ _ _ ((Ref.inH_set _ _ _ _).mpr hrB)]
        exact Heap.get_set_self _ _ _ hrB
      have g2 : (((G.set rB (.blocks Bj)).push (List.replicate j (.wg 0))).push [.wg 0]).get (.stk (G.stk.length + j)) = some (.wg 0) := by
        rw [← hlen, Heap.get_push_top0]; rfl
      have ht := pb_tasks c hps _ rB (.stk (G.stk.length + j)) Bj time memory threads mode version n j v8
        (if j = 0 then v12 else .u32 threads) geo hj g1 g2 hBj
      have hheap : ((((G.set rB (.blocks Bj)).push (List.replicate j (.wg 0))).push [.wg 0]).set rB
            (.blocks (laneFold time memory threads mode version Bj n j threads))) =
          (G.set rB (.blocks (laneFold time memory threads mode version Bj n j threads))).push (.wg 0 :: List.replicate j (.wg 0)) := by
        rw [Heap.set_push_of_in _ _ _ _ hin, Heap.set_push_of_in _ _ _ _ ((Ref.inH_set _ _ _ _).mpr hrB), Heap.set_set,
          Heap.push_push, ← replicate_succ_append, List.replicate_succ]
      rw [hheap, Heap.push_push] at ht
      simp only [forStep, exec_seq, exec_declWG]
      a2_simp [hlen, ht]
      simp only [pbInner, pbOuter, pbBody, proc_processBlocks, Stmt.drop, Stmt.head, Stmt.forBody, Stmt.forPost]
      a2_simp [Nat.mod_eq_of_lt, Nat.add_sub_cancel])
    4 0 (Nat.zero_le _) (Nat.le_refl _)
  simp only [if_true, Nat.reduceEqDiff, if_false, Nat.reduceSub] at hloop
  rw [show sliceFold time memory threads mode version B n 0 = B from rfl, Heap.set_get_self _ _ _ hgB] at hloop
  simp only [List.replicate_zero, Heap.push_nil] at hloop
  exact hloop


theorem replicate_add_four {α} (k : Nat) (x : α) : List.replicate (4 * k) x ++ List.replicate 4 x = List.replicate (4 * (k + 1)) x := by
  rw [List.replicate_append_replicate, show 4 * k + 4 = 4 * (k + 1) by omega]

set_option maxHeartbeats 2000000 in
theorem processBlocks_proc (c : Ctx) (hps : ProcessSegmentSpec c) (h : Heap) (rB : Ref) (B : Array Block)
    (time memory threads mode version : Nat)
    (hgB : h.get rB = some (.blocks B)) (geo : Geom (memory / threads) (memory / threads / 4) threads)
    (hmem : memory = threads * (memory / threads)) (htime : time < 4294967296) (hsz : B.size = memory) (h128 : Blocks128 B) :
    execProc c proc_processBlocks h [.blks rB, .u32 time, .u32 memory, .u32 threads, .int mode, .int version] =
      .ok (h.set rB (.blocks (Argon2.processBlocks B time memory threads mode version)), []) := by
  have hrB := Ref.inH_of_get hgB
  have hB : MemOk threads (memory / threads) B := ⟨by rw [hsz]; exact hmem, h128⟩
  have ht0 : ¬ threads = 0 := by have := geo.thr; omega
  rw [execProc_eq _ _ _ _ rfl]
  show procResult _ (exec c pbBody h [.blks rB, .u32 time, .u32 memory, .u32 threads, .int mode, .int version,
    .undef, .undef, .undef, .undef, .undef, .undef, .undef]) = _
  rw [exec_take_drop c h _ 4 pbBody]
  have hpre : exec c (pbBody.take 4) h [.blks rB, .u32 time, .u32 memory, .u32 threads, .int mode, .int version,
      .undef, .undef, .undef, .undef, .undef, .undef, .undef] =
      .norm h (pbEnv% rB time memory threads mode version .undef (.u32 0) .undef .undef .undef) := by
    simp only [pbBody, proc_processBlocks, Stmt.take]
    a2_simp [ht0]
  rw [hpre, andThen_norm]
  have e : pbBody.drop 4 = .for_ (.var 1) pbOuter.forCond pbOuter.forPost (pbOuter.forBody.head ;;; pbInner) := rfl
  rw [e, exec_for']
  have hfuel : eval h (pbEnv% rB time memory threads mode version .undef (.u32 0) .undef .undef .undef) (.var 1) = .ok (.u32 time) := by
    a2_simp
  rw [hfuel]
  simp only [ok_bind, asIdx_u32, bindR_ok]
  have hloop := loop_count (loopCond pbOuter.forCond) (forStep c (pbOuter.forBody.head ;;; pbInner) pbOuter.forPost)
    (fun k => ((h.set rB (.blocks (passFold time memory threads mode version B k))).push (List.replicate (4 * k) (.wg 0)),
               pbEnv% rB time memory threads mode version .undef (.u32 k)
                 (if k = 0 then .undef else .u32 4)
                 (if k = 0 then .undef else .pwg (.stk (h.stk.length + 4 * (k - 1) + 3)))
                 (if k = 0 then .undef else .u32 threads))) time
    (by
      intro k hk
      simp only [loopCond, pbOuter, pbBody, proc_processBlocks, Stmt.drop, Stmt.head, Stmt.forCond]
      a2_simp [hk])
    (by
      simp only [loopCond, pbOuter, pbBody, proc_processBlocks, Stmt.drop, Stmt.head, Stmt.forCond]
      a2_simp [Nat.lt_irrefl])
    (by
      intro k hk
      have hBk := passFold_ok time memory mode version geo B hB k
      dsimp only
      rw [passFold_succ]
      generalize passFold time memory threads mode version B k = Bk at hBk
      have hin : rB.inH (h.set rB (.blocks Bk)) := (Ref.inH_set _ _ _ _).mpr hrB
      have g1 : ((h.set rB (.blocks Bk)).push (List.replicate (4 * k) (.wg 0))).get rB = some (.blocks Bk) := by
        rw [Heap.get_push_of_in _ _ _ hin]; exact Heap.get_set_self _ _ _ hrB
      have hi := pb_inner c hps _ rB Bk time memory threads mode version k .undef
        (if k = 0 then .undef else .pwg (.stk (h.stk.length + 4 * (k - 1) + 3))) (if k = 0 then .undef else .u32 threads) geo g1 hBk
      have hheap : (((h.set rB (.blocks Bk)).push (List.replicate (4 * k) (.wg 0))).set rB
            (.blocks (sliceFold time memory threads mode version Bk k 4))).push (List.replicate 4 (.wg 0)) =
          (h.set rB (.blocks (sliceFold time memory threads mode version Bk k 4))).push (List.replicate (4 * (k + 1)) (.wg 0)) := by
        rw [Heap.set_push_of_in _ _ _ _ hin, Heap.set_set, Heap.push_push, replicate_add_four]
      have hlen : ((h.set rB (.blocks Bk)).push (List.replicate (4 * k) (.wg 0))).stk.length = h.stk.length + 4 * k := by simp
      rw [hheap, hlen] at hi
      simp only [forStep, exec_seq]
      have hs0 : exec c pbOuter.forBody.head ((h.set rB (.blocks Bk)).push (List.replicate (4 * k) (.wg 0)))
          (pbEnv% rB time memory threads mode version .undef (.u32 k) (if k = 0 then .undef else .u32 4)
            (if k = 0 then .undef else .pwg (.stk (h.stk.length + 4 * (k - 1) + 3))) (if k = 0 then .undef else .u32 threads)) =
          .norm ((h.set rB (.blocks Bk)).push (List.replicate (4 * k) (.wg 0)))
          (pbEnv% rB time memory threads mode version .undef (.u32 k) (.u32 0)
            (if k = 0 then .undef else .pwg (.stk (h.stk.length + 4 * (k - 1) + 3))) (if k = 0 then .undef else .u32 threads)) := by
        simp only [pbOuter, pbBody, proc_processBlocks, Stmt.drop, Stmt.head, Stmt.forBody]
        a2_simp
      rw [hs0, andThen_norm, hi, andThen_norm]
      simp only [pbOuter, pbBody, proc_processBlocks, Stmt.drop, Stmt.head, Stmt.forPost]
      a2_simp [Nat.mod_eq_of_lt, Nat.add_sub_cancel])
    time 0 (Nat.zero_le _) (Nat.le_refl _)
  simp only [if_true, Nat.mul_zero, List.replicate_zero, Heap.push_nil] at hloop
  rw [show passFold time memory threads mode version B 0 = B from rfl, Heap.set_get_self _ _ _ hgB] at hloop
  rw [hloop, procResult_norm, Heap.popTo_push _ _ _ (by simp), processBlocks_eq_passFold]

theorem processBlocksSpec_of (c c' : Ctx) (hcall : ∀ h args, c.call "processBlocks" h args = execProc c' proc_processBlocks h args)
    (hps : ProcessSegmentSpec c') : ProcessBlocksSpec c := by
  intro h rB B time memory threads mode version hgB geo hmem htime hsz h128
  rw [hcall]
  exact processBlocks_proc c' hps h rB B time memory threads mode version hgB geo hmem htime hsz h128

end GoCrypt.A2IR
