import GoCrypt.Proofs.AcceptArgon2
import GoCrypt.Spec.Respell

/-!
# C20: every accepted string is a tolerated respelling of the canonical string — generic part

`respell` evaluated on the shape the grammar gives: the string is the prefix followed by the
`$`-separated fragments (one trailing `$` tolerated), and `align` walks the field list.
-/

namespace GoCrypt.Accept
open Bytes GoCrypt.Parse GoCrypt.RefParse GoCrypt.Codec GoCrypt.Codec.Shapes GoCrypt.Respell

/-! ## `RefParse.splitOn` and a trailing delimiter -/

theorem splitOn_snoc (d : UInt8) : ∀ (b : Bytes), RefParse.splitOn d (b ++ [d]) = RefParse.splitOn d b ++ [[]]
  | [] => by simp [RefParse.splitOn]
  | c :: b => by
    have ih := splitOn_snoc d b
    by_cases hc : c = d
    · simp [RefParse.splitOn, hc, ih]
    · cases hs : RefParse.splitOn d b with
      | nil => exact absurd hs (splitOn_ne_nil d b)
      | cons q qs =>
        rw [hs] at ih
        simp [RefParse.splitOn, hc, ih, hs]

theorem splitOn_getLast_nil (d : UInt8) : ∀ (s : Bytes), (RefParse.splitOn d s).getLast? = some [] →
    s = [] ∨ ∃ b, s = b ++ [d]
  | [], _ => Or.inl rfl
  | c :: cs, h => by
    right
    by_cases hc : c = d
    · subst hc
      cases hs : RefParse.splitOn c cs with
      | nil => exact absurd hs (splitOn_ne_nil c cs)
      | cons q qs =>
        simp only [RefParse.splitOn, if_true, hs, List.getLast?_cons_cons] at h
        rw [← hs] at h
        rcases splitOn_getLast_nil c cs h with rfl | ⟨b, rfl⟩
        · exact ⟨[], rfl⟩
        · exact ⟨c :: b, rfl⟩
    · cases hs : RefParse.splitOn d cs with
      | nil => exact absurd hs (splitOn_ne_nil d cs)
      | cons q qs =>
        simp only [RefParse.splitOn, hc, if_false, hs] at h
        cases qs with
        | nil => simp at h
        | cons r rs =>
          rw [List.getLast?_cons_cons] at h
          have h' : (RefParse.splitOn d cs).getLast? = some [] := by rw [hs, List.getLast?_cons_cons]; exact h
          rcases splitOn_getLast_nil d cs h' with rfl | ⟨b, rfl⟩
          · simp [RefParse.splitOn] at hs
          · exact ⟨c :: b, rfl⟩

/-- The body `respell` looks at: the text after the prefix with its one tolerated trailing `$` removed
has exactly the grammar's fragments as its `$`-separated pieces. -/
theorem fragments_body (rest : Bytes) (ps : List Bytes) (h : Grammar.fragments rest = ps) (hne : ps ≠ []) :
    ∃ body ∈ stripTrailing rest,
      fragsOf body = ps.map (Respell.splitOn comma) ∨ (body.isEmpty = true ∧ ps = [[]]) := by
  unfold Grammar.fragments at h
  simp only [Grammar.splitOn] at h
  by_cases hl : (RefParse.splitOn dollar rest).getLast? = some []
  · simp only [hl, if_true] at h
    rcases splitOn_getLast_nil dollar rest hl with rfl | ⟨b, rfl⟩
    · simp [RefParse.splitOn] at h; exact absurd h hne
    · rw [splitOn_snoc, List.dropLast_concat] at h
      refine ⟨b, ?_, ?_⟩
      · simp [stripTrailing]
      · by_cases hb : b = []
        · subst hb
          right
          simp [RefParse.splitOn] at h
          exact ⟨rfl, h.symm⟩
        · left
          have : b.isEmpty = false := by simpa using hb
          simp only [fragsOf, this, Bool.false_eq_true, if_false, Respell.splitOn, h]
  · simp only [hl, if_false] at h
    refine ⟨rest, ?_, Or.inl ?_⟩
    · unfold stripTrailing
      split
      · split <;> simp
      · simp
    · have hr : rest ≠ [] := by
        rintro rfl
        simp [RefParse.splitOn] at hl
      have : rest.isEmpty = false := by simpa using hr
      simp only [fragsOf, this, Bool.false_eq_true, if_false, Respell.splitOn, h]

/-- The prefix text `respell` computes. -/
def pfxTextOf (ti : TypeInfo) (vals : Vals) : Option Bytes :=
  match ti.hashPrefix with
  | some hp =>
    (match marshalValue hp ((getVal vals hp.index).getD (zeroOf hp.kind hp.ptrDepth)) with
     | .ok t => some t
     | .error _ => none)
  | none => some []

theorem respell_eq (ti : TypeInfo) (vals : Vals) (s : Bytes) :
    respell ti vals s =
      match pfxTextOf ti vals with
      | none => false
      | some p =>
        p.isPrefixOf s &&
        (stripTrailing (s.drop p.length)).any fun body =>
          align vals (ti.fields.length + 2) ti.fields (fragsOf body) [] ||
          (body.isEmpty && align vals (ti.fields.length + 2) ti.fields [[[]]] []) := by
  unfold respell pfxTextOf
  cases ti.hashPrefix with
  | none => rfl
  | some hp =>
    simp only
    cases marshalValue hp ((getVal vals hp.index).getD (zeroOf hp.kind hp.ptrDepth)) <;> rfl

theorem respell_of_align (ti : TypeInfo) (vals : Vals) (p rest : Bytes) (ps : List Bytes)
    (hp : pfxTextOf ti vals = some p) (hfr : Grammar.fragments rest = ps) (hne : ps ≠ [])
    (hal : align vals (ti.fields.length + 2) ti.fields (ps.map (Respell.splitOn comma)) [] = true) :
    respell ti vals (p ++ rest) = true := by
  rw [respell_eq, hp]
  simp only [isPrefixOf_append_self, List.drop_left, Bool.true_and, List.any_eq_true]
  obtain ⟨body, hmem, hb⟩ := fragments_body rest ps hfr hne
  refine ⟨body, hmem, ?_⟩
  rcases hb with hb | ⟨hb1, hb2⟩
  · rw [hb, hal]; rfl
  · subst hb2
    have : ([[]] : List Bytes).map (Respell.splitOn comma) = [[[]]] := rfl
    rw [this] at hal
    rw [hb1, hal]; simp

/-! ## Steps of `align` -/

theorem align_nil (vals : Vals) (fuel : Nat) : align vals (fuel + 1) [] [] [] = true := by
  rw [align]; rfl

/-- A written, non-grouped, non-inline field takes the next single-member fragment. -/
theorem align_req (vals : Vals) (fuel : Nat) (fi : FieldInfo) (rest : List FieldInfo) (m : Bytes)
    (frs : List (List Bytes)) (glue t : Bytes)
    (hg : fi.opts.group = false) (hem : emitted vals fi = true)
    (hm : marshalValue fi (fieldVal vals fi) = .ok t) (hinl : fi.opts.inline = false)
    (h1 : memberIs glue fi t m = true) (h2 : align vals fuel rest frs [] = true) :
    align vals (fuel + 1) (fi :: rest) ([m] :: frs) glue = true := by
  rw [align.eq_def]
  have hem' : (fi.opts.omitEmpty && isEmptyVal fi ((getVal vals fi.index).getD (zeroOf fi.kind fi.ptrDepth))) = false := by
    simpa only [emitted, fieldVal, Bool.not_eq_true'] using hem
  have hm' : marshalValue fi ((getVal vals fi.index).getD (zeroOf fi.kind fi.ptrDepth)) = .ok t := hm
  simp only [hg, Bool.false_eq_true, if_false, hem', hm', hinl, h1, h2, Bool.and_self]

/-- A written inline field: its text is glued in front of whatever comes next. -/
theorem align_inline (vals : Vals) (fuel : Nat) (fi : FieldInfo) (rest : List FieldInfo)
    (frags : List (List Bytes)) (glue t : Bytes)
    (hg : fi.opts.group = false) (hem : emitted vals fi = true)
    (hm : marshalValue fi (fieldVal vals fi) = .ok t) (hinl : fi.opts.inline = true)
    (h2 : align vals fuel rest frags (glue ++ named fi t) = true) :
    align vals (fuel + 1) (fi :: rest) frags glue = true := by
  rw [align.eq_def]
  have hem' : (fi.opts.omitEmpty && isEmptyVal fi ((getVal vals fi.index).getD (zeroOf fi.kind fi.ptrDepth))) = false := by
    simpa only [emitted, fieldVal, Bool.not_eq_true'] using hem
  have hm' : marshalValue fi ((getVal vals fi.index).getD (zeroOf fi.kind fi.ptrDepth)) = .ok t := hm
  simp only [hg, Bool.false_eq_true, if_false, hem', hm', hinl, if_true, h2]

/-- An omitted optional field that is absent from the string. -/
theorem align_omit_absent (vals : Vals) (fuel : Nat) (fi : FieldInfo) (rest : List FieldInfo)
    (frags : List (List Bytes)) (glue : Bytes)
    (hg : fi.opts.group = false) (hem : emitted vals fi = false)
    (h2 : align vals fuel rest frags glue = true) :
    align vals (fuel + 1) (fi :: rest) frags glue = true := by
  rw [align.eq_def]
  have hem' : (fi.opts.omitEmpty && isEmptyVal fi ((getVal vals fi.index).getD (zeroOf fi.kind fi.ptrDepth))) = true := by
    simpa only [emitted, fieldVal, Bool.not_eq_false'] using hem
  simp only [hg, Bool.false_eq_true, if_false, hem', if_true, h2, Bool.true_or]

/-- An omitted optional field spelled out as an explicit zero / empty text. -/
theorem align_omit_zero (vals : Vals) (fuel : Nat) (fi : FieldInfo) (rest : List FieldInfo) (m : Bytes)
    (frs : List (List Bytes))
    (hg : fi.opts.group = false) (hem : emitted vals fi = false)
    (h1 : memberIsZero fi m = true) (h2 : align vals fuel rest frs [] = true) :
    align vals (fuel + 1) (fi :: rest) ([m] :: frs) [] = true := by
  rw [align.eq_def]
  have hem' : (fi.opts.omitEmpty && isEmptyVal fi ((getVal vals fi.index).getD (zeroOf fi.kind fi.ptrDepth))) = true := by
    simpa only [emitted, fieldVal, Bool.not_eq_false'] using hem
  simp only [hg, Bool.false_eq_true, if_false, hem', if_true, h1, h2, List.isEmpty_nil, Bool.and_self,
    Bool.or_true]

/-! ## Member texts -/

theorem parseDigits_lt (base bits : Nat) : ∀ (s : Bytes) (acc m : Nat), acc < 2 ^ bits →
    Strconv.parseDigits base bits s acc = .ok m → m < 2 ^ bits
  | [], acc, m, ha, h => by
    simp only [Strconv.parseDigits, Except.ok.injEq] at h; omega
  | c :: cs, acc, m, _, h => by
    unfold Strconv.parseDigits at h
    cases hd : Strconv.digitVal c with
    | none => simp [hd] at h
    | some d =>
      simp only [hd] at h
      split at h
      · split at h
        · next hlt => exact parseDigits_lt base bits cs _ m hlt h
        · cases h
      · cases h

theorem parseUint_lt (s : Bytes) (base bits m : Nat) (h : Strconv.parseUint s base bits = .ok m) : m < 2 ^ bits := by
  unfold Strconv.parseUint at h
  split at h
  · cases h
  · exact parseDigits_lt base bits s 0 m (Nat.two_pow_pos bits) h

/-- An unnamed member equal to the canonical text. -/
theorem memberIs_plain (fi : FieldInfo) (glue t : Bytes) (hp : fi.opts.param = []) :
    memberIs glue fi t (glue ++ t) = true := by
  unfold memberIs unname
  simp [hp, isPrefixOf_append_self, sameText]

/-- A decimal member with the same value as the canonical text (unnamed or named). -/
theorem memberIs_uint (fi : FieldInfo) (key body : Bytes) (bits n : Nat)
    (hut : fi.unmarshalText = .none) (hk : fi.kind = .uint bits) (hb : fi.opts.base = 10)
    (hkey : key = if fi.opts.param = [] then [] else fi.opts.param ++ [equals])
    (hparse : Strconv.parseUint body 10 bits = .ok n) (t : Bytes)
    (ht : Strconv.parseUint t 10 bits = .ok n) :
    memberIs [] fi t (key ++ body) = true := by
  unfold memberIs unname
  subst hkey
  by_cases hp : fi.opts.param = []
  · simp [hp, sameText, isIntKind, hut, hk, hb, hparse, ht]
  · simp [hp, isPrefixOf_append_self, sameText, isIntKind, hut, hk, hb, hparse, ht]

/-- A decimal member spelling zero for an omitted optional field. -/
theorem memberIsZero_uint (fi : FieldInfo) (key body : Bytes) (bits : Nat)
    (hut : fi.unmarshalText = .none) (hk : fi.kind = .uint bits) (hb : fi.opts.base = 10)
    (hptr : fi.ptrDepth = 0)
    (hkey : key = if fi.opts.param = [] then [] else fi.opts.param ++ [equals])
    (hparse : Strconv.parseUint body 10 bits = .ok 0) :
    memberIsZero fi (key ++ body) = true := by
  unfold memberIsZero unname
  subst hkey
  by_cases hp : fi.opts.param = []
  · simp [hp, isZeroText, hptr, hut, hk, hb, hparse]
  · simp [hp, isPrefixOf_append_self, isZeroText, hptr, hut, hk, hb, hparse]

theorem prefix_split (key s : Bytes) (h : key.isPrefixOf s = true) : s = key ++ s.drop key.length := by
  obtain ⟨t, rfl⟩ := List.isPrefixOf_iff_prefix.1 h
  simp

end GoCrypt.Accept
