import GoCrypt.Proofs.KdfIR2Base
import GoCrypt.Gen.KdfIR2
import GoCrypt.Model.Kdf.Des
import GoCrypt.Model.Codec

/-!
# Second-generation IR: the DES glue = the hand models

`descrypt.Key`, `descrypt.EncodeInt`, `descrypt.DecodeInt`, `desext.key`, `desext.min` and the tails of
`des.Key` / `desext.Key` after their guards, as regenerated in `Gen/KdfIR2.lean`, against
`Des.desKey`, `Codec.desEncodeInt`, `Codec.desDecodeInt`, `Des.desextKey` and `Des.be64 (Des.encrypt …)`.
`descrypt.Encrypt` and `hashutil.HashEncoding.Encode/Decode` are opaque primitives: `DesCalls` states
the meaning the proofs assume for them. Helper lemmas only; the property theorems are in
`Props/KdfIR2.lean`.
-/

namespace GoCrypt.HashIR2
open GoCrypt.Gen.KdfIR2 GoCrypt.Kdf GoCrypt.Codec

set_option linter.unusedSimpArgs false

/-! ## Lists: the state of an indexed loop after `k` iterations -/

theorem foldl_zipIdx_take_succ {α β : Type} (f : β → α × Nat → β) (l : List α) (b : β) (k : Nat) (h : k < l.length) :
    ((l.take (k + 1)).zipIdx).foldl f b = f (((l.take k).zipIdx).foldl f b) (l[k], k) := by
  rw [List.take_succ_eq_append_getElem h, List.zipIdx_append, List.foldl_append, List.zipIdx_singleton]
  simp only [List.foldl_cons, List.foldl_nil, List.length_take, Nat.zero_add]
  congr 2
  omega

/-- Filling a zeroed buffer front to back: storing element `k` of `l` after its first `k` elements. -/
theorem take_append_replicate_set {α : Type} (l : List α) (z x : α) (n k : Nat) (hk : k < l.length) (hn : k < n)
    (hx : l[k] = x) :
    (l.take k ++ List.replicate (n - k) z).set k x = l.take (k + 1) ++ List.replicate (n - (k + 1)) z := by
  have hlen : (l.take k).length = k := by simp only [List.length_take]; omega
  rw [List.set_append_right _ _ (by omega), hlen, Nat.sub_self]
  obtain ⟨m, hm⟩ : ∃ m, n - k = m + 1 := ⟨n - k - 1, by omega⟩
  have hm' : n - (k + 1) = m := by omega
  rw [hm, hm', List.replicate_succ, List.set_cons_zero, List.take_succ_eq_append_getElem hk, hx,
    List.append_assoc]
  rfl

/-! ## What the proofs assume about the opaque primitives -/

/-- `descrypt.Encrypt` on 64/64/32/32-bit unsigned arguments is the table-driven model `Des.encrypt`. -/
def encryptNat (k i s r : Int) : Nat :=
  (Des.encrypt (UInt64.ofNat k.toNat) (UInt64.ofNat i.toNat) (UInt32.ofNat s.toNat) r.toNat).toNat

theorem encryptNat_lt (k i s r : Int) : encryptNat k i s r < 2 ^ 64 := UInt64.toNat_lt _

/-- What the proofs assume about the primitives. `descrypt.Encrypt` is a function `E` of its four integer
arguments with 64-bit results — the lemmas of this file hold for EVERY such `E` (it stays a variable,
so that nothing ever evaluates DES rounds); `Props/KdfIR2.lean` instantiates `E := encryptNat`.
`hashutil.HashEncoding.Encode(c)` is the `c`-th symbol of the hash alphabet or `0xFF`;
`hashutil.HashEncoding.Decode(c)` is the index of `c` in it or `0xFF`. -/
structure DesCalls (c : Ctx) (E : Int → Int → Int → Int → Nat) : Prop where
  encrypt : ∀ k i s r : Int, c.call "descrypt.Encrypt" [.int k, .int i, .int s, .int r] = .ok (nat (E k i s r))
  encrypt_lt : ∀ k i s r : Int, E k i s r < 2 ^ 64
  encode : ∀ x : Int, c.call "hashutil.HashEncoding.Encode" [.int x] = .ok (nat (hashAlphabet.getD x.toNat 255).toNat)
  decode : ∀ x : Int, c.call "hashutil.HashEncoding.Decode" [.int x] = .ok (nat (hashDecode (UInt8.ofNat x.toNat)))

/-! ## `descrypt.Key` -/

/-- The accumulator of `descrypt.Key` after `k` iterations, as the IR computes it. -/
def keyNat (pw : Bytes) : Nat → Nat
  | 0 => 0
  | k + 1 => (keyNat pw k + (((pw.getD k 0).toNat &&& 127) <<< (57 - k * 8)) % 2 ^ 64) % 2 ^ 64

theorem descrypt_key_body (c : Ctx) (pw : Bytes) :
    exec c des_descrypt.proc_Key.body (Env.init 3 [.bytes pw]) = .ret (nat (keyNat pw (min pw.length 8))) := by
  simp only [des_descrypt.proc_Key, Env.init, List.map, List.length, List.replicate]
  simp [eval, evalBin, Env.put, Env.get]
  rw [exec_for_count c _ _ _ _ _ (fun k => [some (.bytes pw), some (nat (keyNat pw k)), some (nat k)])
    (min pw.length 8) ((pw.length : Int) + 1)]
  · simp [eval, Env.get]
  · simp [keyNat]
  · simp [eval, evalBin, Env.get]
  · omega
  · intro k hk
    have hk1 : k < pw.length := by omega
    have hk2 : k < 8 := by omega
    simp [eval, evalBin, Env.get, hk1]
    omega
  · simp [eval, evalBin, Env.get]
    omega
  · intro k hk
    have hk1 : k < pw.length := by omega
    have hk2 : k < 8 := by omega
    have e : (57 - (k : Int) * 8) % 18446744073709551616 = ((57 - k * 8 : Nat) : Int) := by omega
    simp [eval, evalBin, Env.get, Env.put, hk1, e]
    simp [keyNat, hk1]

/-- The model's fold after `k` of the (at most eight) bytes. -/
def desKeyUpTo (pw : Bytes) (k : Nat) : UInt64 :=
  (((pw.take 8).take k).zipIdx).foldl (fun v (ci : UInt8 × Nat) => v + ((ci.1 &&& 0x7F).toUInt64 <<< (UInt64.ofNat (57 - ci.2 * 8)))) 0

theorem desKeyUpTo_full (pw : Bytes) : desKeyUpTo pw (min pw.length 8) = Des.desKey pw := by
  unfold desKeyUpTo Des.desKey
  have : (pw.take 8).take (min pw.length 8) = pw.take 8 := by
    apply List.take_of_length_le; simp only [List.length_take]; omega
  rw [this]

theorem keyNat_eq (pw : Bytes) : ∀ k, k ≤ min pw.length 8 → keyNat pw k = (desKeyUpTo pw k).toNat
  | 0, _ => by simp [keyNat, desKeyUpTo]
  | k + 1, h => by
    have hk : k < (pw.take 8).length := by simp only [List.length_take]; omega
    have hk1 : k < pw.length := by omega
    have ih := keyNat_eq pw k (by omega)
    unfold desKeyUpTo at ih ⊢
    rw [foldl_zipIdx_take_succ _ _ _ _ hk]
    simp only [keyNat, ih, UInt64.toNat_add, UInt64.toNat_shiftLeft, UInt8.toNat_toUInt64, UInt8.toNat_and,
      UInt64.toNat_ofNat', List.getElem_take]
    have e1 : (57 - k * 8) % 2 ^ 64 % 64 = 57 - k * 8 := by omega
    have e2 : (0x7F : UInt8).toNat = 127 := rfl
    have e3 : (pw.getD k 0) = pw[k] := by simp [hk1]
    rw [e1, e2, e3]

theorem descrypt_key_proc (c : Ctx) (pw : Bytes) :
    execProc c des_descrypt.proc_Key [.bytes pw] = .ok (nat (Des.desKey pw).toNat) := by
  rw [← desKeyUpTo_full, ← keyNat_eq pw _ (Nat.le_refl _)]
  exact execProc_of_ret _ _ _ _ rfl (by decide) (descrypt_key_body c pw)

/-! ## `descrypt.DecodeInt` -/

def decodeNat (b : Bytes) : Nat → Nat
  | 0 => 0
  | k + 1 => (decodeNat b k + (hashDecode (b.getD k 0) <<< (k * 6)) % 2 ^ 32) % 2 ^ 32

theorem descrypt_decodeInt_body (c : Ctx) {E : Int → Int → Int → Int → Nat} (hc : DesCalls c E) (b : Bytes) :
    exec c des_descrypt.proc_DecodeInt.body (Env.init 4 [.bytes b]) = .ret (nat (decodeNat b (min b.length 4))) := by
  simp only [des_descrypt.proc_DecodeInt, Env.init, List.map, List.length, List.replicate]
  simp [eval, evalBin, Env.put, Env.get]
  rw [exec_for_count c _ _ _ _ _ (fun k => [some (.bytes b), some (nat (decodeNat b k)), some (nat k), none])
    (min b.length 4) ((b.length : Int) + 1)]
  · simp [eval, Env.get]
  · simp [decodeNat]
  · simp [eval, evalBin, Env.get]
  · omega
  · intro k hk
    have hk1 : k < b.length := by omega
    have hk2 : k < 4 := by omega
    simp [eval, evalBin, Env.get, hk1]
    omega
  · simp [eval, evalBin, Env.get]
    omega
  · intro k hk
    have hk1 : k < b.length := by omega
    have hk2 : k < 4 := by omega
    obtain ⟨s, hs⟩ : ∃ s : Nat, s = k * 6 := ⟨_, rfl⟩
    have e : ((k : Int) * 6) % 18446744073709551616 = (s : Int) := by omega
    simp [eval, evalBin, Env.get, Env.put, hk1, e, hc.decode]
    simp [decodeNat, hk1, hs]

def decodeUpTo (b : Bytes) (k : Nat) : Nat :=
  (((b.take 4).take k).zipIdx).foldl (fun v (ci : UInt8 × Nat) => (v + ((hashDecode ci.1 <<< (ci.2 * 6)) % 4294967296)) % 4294967296) 0

theorem decodeNat_eq (b : Bytes) : ∀ k, k ≤ min b.length 4 → decodeNat b k = decodeUpTo b k
  | 0, _ => by simp [decodeNat, decodeUpTo]
  | k + 1, h => by
    have hk : k < (b.take 4).length := by simp only [List.length_take]; omega
    have hk1 : k < b.length := by omega
    have ih := decodeNat_eq b k (by omega)
    unfold decodeUpTo at ih ⊢
    rw [foldl_zipIdx_take_succ _ _ _ _ hk]
    have e3 : (b.getD k 0) = b[k] := by simp [hk1]
    simp only [decodeNat, ih, List.getElem_take, e3]

theorem descrypt_decodeInt_proc (c : Ctx) {E : Int → Int → Int → Int → Nat} (hc : DesCalls c E) (b : Bytes) :
    execProc c des_descrypt.proc_DecodeInt [.bytes b] = .ok (nat (desDecodeInt b)) := by
  have h : desDecodeInt b = decodeNat b (min b.length 4) := by
    rw [decodeNat_eq b _ (Nat.le_refl _)]
    unfold desDecodeInt decodeUpTo
    have : (b.take 4).take (min b.length 4) = b.take 4 := by
      apply List.take_of_length_le; simp only [List.length_take]; omega
    rw [this]
  rw [h]
  exact execProc_of_ret _ _ _ _ rfl (by decide) (descrypt_decodeInt_body c hc b)

/-! ## `descrypt.EncodeInt` -/

theorem descrypt_encodeInt_body (c : Ctx) {E : Int → Int → Int → Int → Nat} (hc : DesCalls c E) (v : Nat) :
    exec c des_descrypt.proc_EncodeInt.body (Env.init 4 [nat v]) = .ret (.bytes (desEncodeInt v)) := by
  simp only [des_descrypt.proc_EncodeInt, Env.init, List.map, List.length, List.replicate]
  ir_simp
  rw [exec_for_count c _ _ _ _ _ (fun k => [some (nat v),
      some (.bytes ((desEncodeInt v).take k ++ List.replicate (4 - k) 0)), some (nat k), none]) 4 5]
  · have : (desEncodeInt v).length = 4 := by simp [desEncodeInt]
    have h4 : List.take 4 (desEncodeInt v) = desEncodeInt v := List.take_of_length_le (by omega)
    ir_simp [sliceOf_all, this, h4]
  · simp [desEncodeInt]
  · ir_simp
  · omega
  · intro k hk
    ir_simp
    omega
  · ir_simp
  · intro k hk
    obtain ⟨s, hs⟩ : ∃ s : Nat, s = k * 6 := ⟨_, rfl⟩
    have e : ((k : Int) * 6) % 18446744073709551616 = (s : Int) := by omega
    have hb : v >>> s &&& 63 ≤ 63 := Nat.and_le_right
    have e2 : ((v >>> s &&& 63 : Nat) : Int) % 256 = ((v >>> s &&& 63 : Nat) : Int) := by omega
    have hlen : (desEncodeInt v).length = 4 := by simp [desEncodeInt]
    have hl : k < (List.take k (desEncodeInt v) ++ List.replicate (4 - k) (0 : UInt8)).length := by
      simp only [List.length_append, List.length_take, List.length_replicate]; omega
    have hx : ∀ x : UInt8, x.toNat < 256 := fun x => x.toNat_lt
    ir_simp [e, e2, hc.encode, storeByte_nat _ _ _ (hx _) hl]
    have := take_append_replicate_set (desEncodeInt v) 0 (hashAlphabet.getD (v >>> s &&& 63) 255) 4 k (by omega) hk
      (by subst hs; simp [desEncodeInt])
    simpa using this

theorem descrypt_encodeInt_proc (c : Ctx) {E : Int → Int → Int → Int → Nat} (hc : DesCalls c E) (v : Nat) :
    execProc c des_descrypt.proc_EncodeInt [nat v] = .ok (.bytes (desEncodeInt v)) :=
  execProc_of_ret _ _ _ _ rfl (by decide) (descrypt_encodeInt_body c hc v)

/-! ## `desext.min` -/

theorem desext_min_proc (c : Ctx) (a b : Int) :
    execProc c desext.proc_min [.int a, .int b] = .ok (.int (min a b)) := by
  apply execProc_of_ret _ _ _ _ rfl (by decide)
  simp only [desext.proc_min, Env.init, List.map, List.length, List.replicate]
  by_cases h : a < b
  · have : min a b = a := by omega
    ir_simp [h, this]
  · have : min a b = b := by omega
    ir_simp [h, this]

/-! ## `desext.key` -/

structure DesextCalls (c : Ctx) (E : Int → Int → Int → Int → Nat) : Prop extends DesCalls c E where
  min : ∀ a b : Int, c.call "desext.min" [.int a, .int b] = .ok (.int (min a b))
  key : ∀ pw, c.call "descrypt.Key" [.bytes pw] = .ok (nat (Des.desKey pw).toNat)

/-- The running key of `desext.key` after `k` further 8-byte blocks, for an arbitrary `Encrypt`. -/
def extNat (E : Int → Int → Int → Int → Nat) (pw : Bytes) : Nat → Nat
  | 0 => (Des.desKey (pw.take 8)).toNat
  | k + 1 => E (extNat E pw k) (extNat E pw k) 0 1 ^^^ (Des.desKey ((pw.drop (8 + 8 * k)).take 8)).toNat

/-- The same in the model's terms. -/
def desextUpTo (pw : Bytes) : Nat → UInt64
  | 0 => Des.desKey (pw.take 8)
  | k + 1 => Des.encrypt (desextUpTo pw k) (desextUpTo pw k) 0 1 ^^^ Des.desKey ((pw.drop (8 + 8 * k)).take 8)

theorem extNat_encryptNat (pw : Bytes) : ∀ k, extNat encryptNat pw k = (desextUpTo pw k).toNat
  | 0 => rfl
  | k + 1 => by
    rw [extNat, extNat_encryptNat pw k, desextUpTo, UInt64.toNat_xor]
    simp [encryptNat]

theorem take_min_length {α : Type} (l : List α) (n : Nat) : l.take (min l.length n) = l.take n := by
  by_cases h : l.length ≤ n
  · rw [Nat.min_eq_left h, List.take_of_length_le (Nat.le_refl _), List.take_of_length_le h]
  · rw [Nat.min_eq_right (by omega)]

theorem desext_key_body (c : Ctx) {E : Int → Int → Int → Int → Nat} (hc : DesextCalls c E) (pw : Bytes) :
    exec c desext.proc_key.body (Env.init 7 [.bytes pw]) =
      .ret (nat (extNat E pw ((pw.length - 8 + 7) / 8))) := by
  simp only [desext.proc_key, Env.init, List.map, List.length, List.replicate]
  have hmin : min (pw.length : Int) 8 = ((min pw.length 8 : Nat) : Int) := by omega
  have hm : min pw.length 8 ≤ pw.length := Nat.min_le_left _ _
  ir_simp [hc.min, hmin, hc.key, take_min_length, sliceOf_zero_nat _ _ hm]
  rw [exec_for_count c _ _ _ _ _ (fun k => [some (.bytes pw), some (nat (min pw.length 8)),
      some (nat (extNat E pw k)), some (nat (8 + 8 * k)), none, none, none])
    ((pw.length - 8 + 7) / 8) ((pw.length : Int) - 8 + 1)]
  · ir_simp
  · simp [extNat]
  · ir_simp
  · omega
  · intro k hk
    ir_simp
    omega
  · ir_simp
    omega
  · intro k hk
    have hlt : 8 + 8 * k < pw.length := by omega
    obtain ⟨i, hi⟩ : ∃ i : Nat, i = 8 + 8 * k := ⟨_, rfl⟩
    have e : (8 : Int) + 8 * (k : Int) = (i : Int) := by omega
    have hmin2 : min ((i : Int) + 8) (pw.length : Int) = ((min (i + 8) pw.length : Nat) : Int) := by omega
    have h1 : i ≤ min (i + 8) pw.length := by omega
    have h2 : min (i + 8) pw.length ≤ pw.length := Nat.min_le_right _ _
    ir_simp [e, hc.min, hmin2, hc.key, hc.encrypt, sliceOf_nat _ _ _ h1 h2]
    refine ⟨?_, by omega⟩
    have hl : List.drop i (List.take (min (i + 8) pw.length) pw) = (pw.drop i).take 8 := by
      rw [Nat.min_comm, take_min_length, List.drop_take]
      congr 1; omega
    rw [hl, hi]
    simp [extNat]

theorem desextKey_go (pw : Bytes) : ∀ (fuel k : Nat), k ≤ (pw.length - 8 + 7) / 8 → (pw.length - 8 + 7) / 8 - k ≤ fuel →
    Des.desextKey.go fuel (pw.drop (8 + 8 * k)) (desextUpTo pw k) = desextUpTo pw ((pw.length - 8 + 7) / 8)
  | 0, k, h1, h2 => by
    have : k = (pw.length - 8 + 7) / 8 := by omega
    rw [Des.desextKey.go, ← this]
  | fuel + 1, k, h1, h2 => by
    rw [Des.desextKey.go]
    by_cases hk : k = (pw.length - 8 + 7) / 8
    · have : (pw.drop (8 + 8 * k)).isEmpty = true := by
        rw [List.isEmpty_iff, List.drop_eq_nil_iff]; omega
      rw [if_pos this, ← hk]
    · have : ¬ (pw.drop (8 + 8 * k)).isEmpty = true := by
        rw [List.isEmpty_iff, List.drop_eq_nil_iff]; omega
      rw [if_neg this, List.drop_drop]
      have e : 8 + 8 * k + 8 = 8 + 8 * (k + 1) := by omega
      have := desextKey_go pw fuel (k + 1) (by omega) (by omega)
      rw [desextUpTo] at this
      rw [e]; exact this

theorem desextUpTo_full (pw : Bytes) : desextUpTo pw ((pw.length - 8 + 7) / 8) = Des.desextKey pw := by
  have := desextKey_go pw (pw.length / 8 + 1) 0 (Nat.zero_le _) (by omega)
  rw [← this]
  rfl

theorem desext_key_proc (c : Ctx) {E : Int → Int → Int → Int → Nat} (hc : DesextCalls c E) (pw : Bytes) :
    execProc c desext.proc_key [.bytes pw] = .ok (nat (extNat E pw ((pw.length - 8 + 7) / 8))) :=
  execProc_of_ret _ _ _ _ rfl (by decide) (desext_key_body c hc pw)

/-- With the model's DES for `E`, that is `Des.desextKey`. -/
theorem extNat_full (pw : Bytes) : extNat encryptNat pw ((pw.length - 8 + 7) / 8) = (Des.desextKey pw).toNat := by
  rw [extNat_encryptNat, desextUpTo_full]

/-! ## The tails of `des.Key` and `desext.Key` -/

theorem ofNat_shr_eq (v : UInt64) (s : Nat) (hs : s < 64) :
    UInt8.ofNat (v.toNat >>> s) = (v >>> UInt64.ofNat s).toUInt8 := by
  apply UInt8.toNat_inj.mp
  rw [UInt64.toNat_toUInt8, UInt64.toNat_shiftRight, UInt64.toNat_ofNat', UInt8.toNat_ofNat']
  have : s % 2 ^ 64 % 64 = s := by omega
  rw [this]

/-- `binary.BigEndian.PutUint64(b[:], v)` on an 8-byte buffer is the model's `be64`. -/
theorem putUintAt_be64 (b : Bytes) (hb : b.length = 8) (v : UInt64) :
    putUintAt b 0 8 true (v.toNat : Int) = .ok (.bytes (Des.be64 v)) := by
  have h1 : (0 : Int) ≤ 0 ∧ (0 : Int) ≤ (b.length : Int) := ⟨by decide, by omega⟩
  have h2 : (0 : Int).toNat + 8 ≤ b.length := by simp [hb]
  have h3 : (0 : Int) ≤ (v.toNat : Int) ∧ ((v.toNat : Int)).toNat < 2 ^ (8 * 8) := by
    have := v.toNat_lt
    constructor
    · omega
    · rw [Int.toNat_natCast]; exact this
  have h4 : v.toNat < 2 ^ (8 * 8) := v.toNat_lt
  simp only [putUintAt, h1, h2, h3, h4, and_self, if_true, Int.toNat_natCast]
  have hd : b.drop 8 = [] := by rw [List.drop_eq_nil_iff]; omega
  have hr : List.range 8 = [0, 1, 2, 3, 4, 5, 6, 7] := by decide
  simp [hd, leBytes, Des.be64, hr, ofNat_shr_eq]

structure DesTailCalls (c : Ctx) (E : Int → Int → Int → Int → Nat) : Prop extends DesCalls c E where
  key : ∀ pw, c.call "descrypt.Key" [.bytes pw] = .ok (nat (Des.desKey pw).toNat)
  decodeInt : ∀ b, c.call "descrypt.DecodeInt" [.bytes b] = .ok (nat (desDecodeInt b))

theorem be64_length (v : UInt64) : (Des.be64 v).length = 8 := by simp [Des.be64]

/-- The same for a value given as a natural number. -/
theorem putUintAt_be64_nat (b : Bytes) (hb : b.length = 8) (n : Nat) (hn : n < 2 ^ 64) :
    putUintAt b 0 8 true (n : Int) = .ok (.bytes (Des.be64 (UInt64.ofNat n))) := by
  have := putUintAt_be64 b hb (UInt64.ofNat n)
  rw [UInt64.toNat_ofNat', Nat.mod_eq_of_lt hn] at this
  exact this

theorem des_key_tail_proc (c : Ctx) {E : Int → Int → Int → Int → Nat} (hc : DesTailCalls c E) (pw salt : Bytes) :
    execProc c des.proc_Key [.bytes pw, .bytes salt] =
      .ok (.bytes (Des.be64 (UInt64.ofNat (E ↑(Des.desKey pw).toNat 0 ↑(desDecodeInt salt) 25)))) := by
  apply execProc_of_ret _ _ _ _ rfl (by decide)
  simp only [des.proc_Key, Env.init, List.map, List.length, List.replicate]
  ir_simp [hc.key, hc.decodeInt, hc.encrypt, putUintAt_be64_nat [0, 0, 0, 0, 0, 0, 0, 0] rfl _ (hc.encrypt_lt ..),
    sliceOf_all, be64_length]

structure DesextTailCalls (c : Ctx) (E : Int → Int → Int → Int → Nat) (X : Bytes → Nat) : Prop extends DesCalls c E where
  extKey : ∀ pw, c.call "desext.key" [.bytes pw] = .ok (nat (X pw))
  decodeInt : ∀ b, c.call "descrypt.DecodeInt" [.bytes b] = .ok (nat (desDecodeInt b))

theorem desext_key_tail_proc (c : Ctx) {E : Int → Int → Int → Int → Nat} {X : Bytes → Nat} (hc : DesextTailCalls c E X)
    (pw salt : Bytes) (rounds : Nat) :
    execProc c desext.proc_Key [.bytes pw, .bytes salt, nat rounds] =
      .ok (.bytes (Des.be64 (UInt64.ofNat (E ↑(X pw) 0 ↑(desDecodeInt salt) ↑rounds)))) := by
  apply execProc_of_ret _ _ _ _ rfl (by decide)
  simp only [desext.proc_Key, Env.init, List.map, List.length, List.replicate]
  ir_simp [hc.extKey, hc.decodeInt, hc.encrypt, putUintAt_be64_nat [0, 0, 0, 0, 0, 0, 0, 0] rfl _ (hc.encrypt_lt ..),
    sliceOf_all, be64_length]

/-! ## Linking: the call contexts of the regenerated programs satisfy the call specifications -/

/-- The meaning the theorems assume for the three opaque primitives of the DES programs. -/
structure DesPrimSpec (prim : String → List Val → Res Val) (E : Int → Int → Int → Int → Nat) : Prop where
  encrypt : ∀ k i s r : Int, prim "descrypt.Encrypt" [.int k, .int i, .int s, .int r] = .ok (nat (E k i s r))
  encrypt_lt : ∀ k i s r : Int, E k i s r < 2 ^ 64
  encode : ∀ x : Int, prim "hashutil.HashEncoding.Encode" [.int x] = .ok (nat (hashAlphabet.getD x.toNat 255).toNat)
  decode : ∀ x : Int, prim "hashutil.HashEncoding.Decode" [.int x] = .ok (nat (hashDecode (UInt8.ofNat x.toNat)))

/-- A program that defines none of the primitive names itself passes them through to `π.prim`. -/
structure NoDesPrims (P : Program) : Prop where
  p1 : List.lookup "descrypt.Encrypt" P.procs = none
  p2 : List.lookup "hashutil.HashEncoding.Encode" P.procs = none
  p3 : List.lookup "hashutil.HashEncoding.Decode" P.procs = none
  l1 : List.lookup "descrypt.Encrypt" P.links = none
  l2 : List.lookup "hashutil.HashEncoding.Encode" P.links = none
  l3 : List.lookup "hashutil.HashEncoding.Decode" P.links = none

theorem desCalls_ctxOf (π : Params) (P : Program) {E : Int → Int → Int → Int → Nat} (hπ : DesPrimSpec π.prim E)
    (hP : NoDesPrims P) (d : Nat) : DesCalls (ctxOf π P (d + 1)) E where
  encrypt k i s r := by
    show callIn π P (d + 1) _ _ = _
    rw [callIn_prim π P d _ _ hP.p1 hP.l1]; exact hπ.encrypt k i s r
  encrypt_lt := hπ.encrypt_lt
  encode x := by
    show callIn π P (d + 1) _ _ = _
    rw [callIn_prim π P d _ _ hP.p2 hP.l2]; exact hπ.encode x
  decode x := by
    show callIn π P (d + 1) _ _ = _
    rw [callIn_prim π P d _ _ hP.p3 hP.l3]; exact hπ.decode x

theorem noDesPrims_descrypt : NoDesPrims des_descrypt.program := ⟨rfl, rfl, rfl, rfl, rfl, rfl⟩
theorem noDesPrims_desext : NoDesPrims desext.program := ⟨rfl, rfl, rfl, rfl, rfl, rfl⟩
theorem noDesPrims_des : NoDesPrims des.program := ⟨rfl, rfl, rfl, rfl, rfl, rfl⟩

theorem desextCalls_ctxOf (π : Params) {E : Int → Int → Int → Int → Nat} (hπ : DesPrimSpec π.prim E) (d : Nat) :
    DesextCalls (ctxOf π desext.program (d + 2)) E where
  toDesCalls := desCalls_ctxOf π _ hπ noDesPrims_desext (d + 1)
  min a b := by
    rw [ctxOf_call]
    rw [callIn_proc π _ (d + 1) "desext.min" desext.proc_min _ rfl]
    exact desext_min_proc _ a b
  key pw := by
    rw [ctxOf_call]
    rw [callIn_proc π _ (d + 1) "descrypt.Key" des_descrypt.proc_Key _ rfl]
    exact descrypt_key_proc _ pw

theorem desextTailCalls_ctxOf (π : Params) {E : Int → Int → Int → Int → Nat} (hπ : DesPrimSpec π.prim E) (d : Nat) :
    DesextTailCalls (ctxOf π desext.program (d + 3)) E (fun pw => extNat E pw ((pw.length - 8 + 7) / 8)) where
  toDesCalls := desCalls_ctxOf π _ hπ noDesPrims_desext (d + 2)
  extKey pw := by
    rw [ctxOf_call]
    rw [callIn_proc π _ (d + 2) "desext.key" desext.proc_key _ rfl]
    exact desext_key_proc _ (desextCalls_ctxOf π hπ d) pw
  decodeInt b := by
    rw [ctxOf_call]
    rw [callIn_proc π _ (d + 2) "descrypt.DecodeInt" des_descrypt.proc_DecodeInt _ rfl]
    exact descrypt_decodeInt_proc _ (desCalls_ctxOf π _ hπ noDesPrims_desext (d + 1)) b

theorem desTailCalls_ctxOf (π : Params) {E : Int → Int → Int → Int → Nat} (hπ : DesPrimSpec π.prim E) (d : Nat) :
    DesTailCalls (ctxOf π des.program (d + 2)) E where
  toDesCalls := desCalls_ctxOf π _ hπ noDesPrims_des (d + 1)
  key pw := by
    rw [ctxOf_call]
    rw [callIn_proc π _ (d + 1) "descrypt.Key" des_descrypt.proc_Key _ rfl]
    exact descrypt_key_proc _ pw
  decodeInt b := by
    rw [ctxOf_call]
    rw [callIn_proc π _ (d + 1) "descrypt.DecodeInt" des_descrypt.proc_DecodeInt _ rfl]
    exact descrypt_decodeInt_proc _ (desCalls_ctxOf π _ hπ noDesPrims_des d) b

end GoCrypt.HashIR2
