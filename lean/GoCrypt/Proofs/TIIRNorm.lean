import GoCrypt.Proofs.TIIRDefs

/-!
# Type-info IR: `(*typeInfo).normalize`

The regenerated `normalize` computes the model's `normalizeLoop` (`NormSpec`), given that the callee
`ti.field` behaves as `FieldPost` says (`CallsField`). Helper lemmas only.
-/

namespace GoCrypt.TIIR.Norm
open GoCrypt.Codec GoCrypt.Gen.typeinfoIR GoCrypt.TIIR

/-! ## Heap facts -/

theorem fiObj_length (fi : FieldInfo) : (fiObj fi).length = 12 := by
  simp [fiObj, optsVals]

theorem tiObj_length (s : Val) (r : RType) (hp : Val) (l : List Nat) (n : Int) : (tiObj s r hp l n).length = 5 := by
  simp [tiObj]

theorem lt_of_get {h : Heap} {t : Nat} {o : Obj} (ht : h[t]? = some o) : t < h.length := by
  rcases Nat.lt_or_ge t h.length with hlt | hge
  · exact hlt
  · rw [List.getElem?_eq_none hge] at ht; cases ht

theorem get_set_self {h : Heap} {t : Nat} {o : Obj} (o' : Obj) (ht : h[t]? = some o) : (h.set t o')[t]? = some o' := by
  have := lt_of_get ht
  simp [this]

theorem get_set_ne (h : Heap) {t a : Nat} (o' : Obj) (hne : t ≠ a) : (h.set t o')[a]? = h[a]? := by
  simp [List.getElem?_set_ne hne]

theorem set_get_self {h : Heap} {t : Nat} {o : Obj} (ht : h[t]? = some o) : h.set t o = h := by
  apply List.ext_getElem?
  intro i
  by_cases hi : t = i
  · subst hi; rw [get_set_self o ht, ht]
  · rw [get_set_ne h o hi]

/-- A `fieldInfo` record is not the `typeInfo` record. -/
theorem ne_of_objs {h : Heap} {t a : Nat} {o : Obj} {fi : FieldInfo} (ht : h[t]? = some o) (ho : o.length = 5)
    (ha : h[a]? = some (fiObj fi)) : t ≠ a := by
  intro e
  subst e
  rw [ht] at ha
  have := congrArg (fun x => x.map List.length) ha
  simp [fiObj_length, ho] at this

theorem reps_set {h : Heap} {t : Nat} {o : Obj} (o' : Obj) (ht : h[t]? = some o) (ho : o.length = 5) :
    ∀ (as : List Nat) (fis : List FieldInfo), Reps h as fis → Reps (h.set t o') as fis := by
  intro as
  induction as with
  | nil => intro fis hr; cases fis <;> simp_all [Reps]
  | cons a as ih =>
    intro fis hr
    cases fis with
    | nil => simp [Reps] at hr
    | cons fi fis =>
      simp only [Reps] at hr ⊢
      refine ⟨?_, ih fis hr.2⟩
      rw [get_set_ne h o' (ne_of_objs ht ho hr.1)]
      exact hr.1

theorem reps_append {h : Heap} {a : Nat} {fi : FieldInfo} (ha : h[a]? = some (fiObj fi)) :
    ∀ (as : List Nat) (fis : List FieldInfo), Reps h as fis → Reps h (as ++ [a]) (fis ++ [fi]) := by
  intro as
  induction as with
  | nil => intro fis hr; cases fis <;> simp_all [Reps]
  | cons a' as ih =>
    intro fis hr
    cases fis with
    | nil => simp [Reps] at hr
    | cons fi' fis =>
      simp only [Reps, List.cons_append] at hr ⊢
      exact ⟨hr.1, ih fis hr.2⟩

theorem reps_length {h : Heap} : ∀ (as : List Nat) (fis : List FieldInfo), Reps h as fis → as.length = fis.length := by
  intro as
  induction as with
  | nil => intro fis hr; cases fis <;> simp_all [Reps]
  | cons a' as ih =>
    intro fis hr
    cases fis with
    | nil => simp [Reps] at hr
    | cons fi' fis =>
      simp only [Reps] at hr
      simp [ih fis hr.2]

/-! ## Model facts -/

theorem lookup_isSome (m : List (Bytes × Bool)) (k : Bytes) :
    (mapLookup m k).isSome = (m.map Prod.fst).contains k := by
  unfold mapLookup
  induction m with
  | nil => rfl
  | cons x m ih =>
    obtain ⟨k', b⟩ := x
    simp only [List.lookup, List.map_cons, List.contains_cons]
    by_cases hk : k = k'
    · subst hk; simp
    · have : (k == k') = false := by simpa using hk
      rw [this]; simpa using ih

theorem foldl_some (g : Option FieldInfo → FieldInfo → Option FieldInfo)
    (hg : ∀ b f, ∃ r, g (some b) f = some r) (l : List FieldInfo) (b : FieldInfo) :
    ∃ r, l.foldl g (some b) = some r := by
  induction l generalizing b with
  | nil => exact ⟨b, rfl⟩
  | cons x l ih =>
    simp only [List.foldl_cons]
    obtain ⟨r, hr⟩ := hg b x
    rw [hr]; exact ih r

theorem foldl_some_ne (g : Option FieldInfo → FieldInfo → Option FieldInfo)
    (hg : ∀ b f, ∃ r, g (some b) f = some r) (l : List FieldInfo) (b : FieldInfo) :
    l.foldl g (some b) ≠ none := by
  obtain ⟨r, hr⟩ := foldl_some g hg l b
  rw [hr]; simp

theorem resolveParam_none {l : List FieldInfo} {p : Bytes} (hr : resolveParam l p = .ok none) :
    ∀ f ∈ l, f.opts.param ≠ p := by
  intro f hf hp
  unfold resolveParam at hr
  simp only at hr
  have hmem : f ∈ l.filter (·.opts.param = p) := by simp [List.mem_filter, hf, hp]
  cases hc : resolveParam.conflict (l.filter (·.opts.param = p)) [] with
  | some x => rw [hc] at hr; simp at hr
  | none =>
    rw [hc] at hr
    simp only at hr
    cases hl : l.filter (·.opts.param = p) with
    | nil => rw [hl] at hmem; cases hmem
    | cons x xs =>
      rw [hl] at hr
      simp only [List.foldl_cons] at hr
      exact foldl_some_ne _ (by
        intro b f
        by_cases hx : fieldLess f b
        · exact ⟨f, by simp [hx]⟩
        · exact ⟨b, by simp [hx]⟩) xs x (Except.ok.inj hr)

theorem absErr_nonnil {h : Heap} {v : Val} {e : TagErr} (ha : absErr h v = some e) :
    (∃ x, v = .ptr x) ∨ (∃ ps, v = .errNew ps) := by
  cases v <;> simp [absErr] at ha
  · exact Or.inl ⟨_, rfl⟩
  · exact Or.inr ⟨_, rfl⟩

/-! ## The parts of `normalize` -/

def loop1 : Stmt := (normalizeIR.body.drop 3).head
def body1 : Stmt := loop1.forBody
def loop2 : Stmt := (normalizeIR.body.drop 5).head
def body2 : Stmt := loop2.forBody

/-- The first part of the loop body: `f := ti.Fields[k]`, `isValid` computed. -/
theorem body1_valid (c : Ctx) (hc : Heap) (t : Nat) (accA : List Nat) (m : List (Bytes × Bool))
    (v3 v4 v5 v6 v7 : Val) (addrs : List Nat) (k a : Nat) (f : FieldInfo)
    (hk : addrs[k]? = some a) (hfa : hc[a]? = some (fiObj f)) :
    exec c (body1.take 6) hc [.ptr t, .ptrs accA, .map m, v3, v4, v5, v6, v7, .undef, .ptrs addrs, .int k, .undef, .undef] =
      .norm hc [.ptr t, .ptrs accA, .map m, .ptr a, .bool (validOpts f.opts), v5, v6, v7, .undef, .ptrs addrs, .int k, .undef, .undef] := by
  obtain ⟨idx, nm, kd, pd, tn, tg, mt, ut, o⟩ := f
  obtain ⟨ip, oe, g, p, enc, len, hl, inl, base⟩ := o
  simp only [fiObj, optsVals] at hfa
  simp only [body1, loop1, normalizeIR, Stmt.drop, Stmt.head, Stmt.forBody, Stmt.take]
  cases oe <;> cases g <;> cases inl <;> cases ip <;> by_cases hp : p = [] <;>
    ti_simp [indexVal_ptrs _ _ _ hk, fieldOf, hfa, hp, validOpts]
  all_goals simp

/-- `!isValid`: the error is returned. -/
theorem body1_invalid (c : Ctx) (hc : Heap) (t : Nat) (accA : List Nat) (m : List (Bytes × Bool))
    (v5 v6 v7 : Val) (addrs : List Nat) (k a : Nat) (f : FieldInfo) (st root : RType) (hp : Val) (addrs' : List Nat) (n : Int)
    (gf : GoField) (i : Nat)
    (hfa : hc[a]? = some (fiObj f)) (hti : hc[t]? = some (tiObj (.rtype st) root hp addrs' n))
    (hfb : fieldByIndex c.structs root true (f.index.map Int.ofNat) = .ok (gf, i)) :
    exec c (body1.drop 6) hc [.ptr t, .ptrs accA, .map m, .ptr a, .bool false, v5, v6, v7, .undef, .ptrs addrs, .int k, .undef, .undef] =
      .ret hc [.errNew [.lit invalidTagLit, .typeStr st, .lit [46], .name f.name, .lit [58, 32], .quoted gf.tag]] := by
  simp only [fiObj, optsVals] at hfa
  simp only [tiObj] at hti
  simp only [body1, loop1, normalizeIR, Stmt.drop, Stmt.head, Stmt.forBody]
  ti_simp [fieldOf, hfa, hti, hfb, invalidTagLit]

/-- `f.Opts.Prefix`: `ti.HashPrefix = f; continue`. -/
theorem body1_prefix (c : Ctx) (hc : Heap) (t : Nat) (accA : List Nat) (m : List (Bytes × Bool))
    (v5 v6 v7 : Val) (addrs : List Nat) (k a : Nat) (f : FieldInfo) (s : Val) (root : RType) (hp : Val) (addrs' : List Nat) (n : Int)
    (hfa : hc[a]? = some (fiObj f)) (hti : hc[t]? = some (tiObj s root hp addrs' n))
    (hpre : f.opts.isPrefix = true) :
    exec c (body1.drop 6) hc [.ptr t, .ptrs accA, .map m, .ptr a, .bool true, v5, v6, v7, .undef, .ptrs addrs, .int k, .undef, .undef] =
      .cont (hc.set t (tiObj s root (.ptr a) addrs' n))
        [.ptr t, .ptrs accA, .map m, .ptr a, .bool true, v5, v6, v7, .undef, .ptrs addrs, .int k, .undef, .undef] := by
  simp only [fiObj, optsVals] at hfa
  simp only [tiObj] at hti ⊢
  simp only [body1, loop1, normalizeIR, Stmt.drop, Stmt.head, Stmt.forBody]
  ti_simp [fieldOf, hfa, hti, hpre]

/-- `f.Opts.Param == ""`: `fields = append(fields, f); continue`. -/
theorem body1_plain (c : Ctx) (hc : Heap) (t : Nat) (accA : List Nat) (m : List (Bytes × Bool))
    (v5 v6 v7 : Val) (addrs : List Nat) (k a : Nat) (f : FieldInfo)
    (hfa : hc[a]? = some (fiObj f))
    (hpre : f.opts.isPrefix = false) (hpar : f.opts.param = []) :
    exec c (body1.drop 6) hc [.ptr t, .ptrs accA, .map m, .ptr a, .bool true, v5, v6, v7, .undef, .ptrs addrs, .int k, .undef, .undef] =
      .cont hc
        [.ptr t, .ptrs (accA ++ [a]), .map m, .ptr a, .bool true, v5, v6, v7, .undef, .ptrs addrs, .int k, .undef, .undef] := by
  simp only [fiObj, optsVals] at hfa
  simp only [body1, loop1, normalizeIR, Stmt.drop, Stmt.head, Stmt.forBody]
  ti_simp [fieldOf, hfa, hpre, hpar]

/-- The param was resolved before: `continue`. -/
theorem body1_seen (c : Ctx) (hc : Heap) (t : Nat) (accA : List Nat) (m : List (Bytes × Bool))
    (v5 v6 v7 : Val) (addrs : List Nat) (k a : Nat) (f : FieldInfo)
    (hfa : hc[a]? = some (fiObj f))
    (hpre : f.opts.isPrefix = false) (hpar : ¬ f.opts.param = []) (hseen : (mapLookup m f.opts.param).isSome = true) :
    exec c (body1.drop 6) hc [.ptr t, .ptrs accA, .map m, .ptr a, .bool true, v5, v6, v7, .undef, .ptrs addrs, .int k, .undef, .undef] =
      .cont hc
        [.ptr t, .ptrs accA, .map m, .ptr a, .bool true, .bool true, v6, v7, .undef, .ptrs addrs, .int k, .undef, .undef] := by
  simp only [fiObj, optsVals] at hfa
  simp only [body1, loop1, normalizeIR, Stmt.drop, Stmt.head, Stmt.forBody]
  ti_simp [fieldOf, hfa, hpre, hpar, hseen]

/-- The call of `ti.field` is stuck. -/
theorem body1_call_stuck (c : Ctx) (hc : Heap) (t : Nat) (accA : List Nat) (m : List (Bytes × Bool))
    (v5 v6 v7 : Val) (addrs : List Nat) (k a : Nat) (f : FieldInfo) (w : String)
    (hfa : hc[a]? = some (fiObj f))
    (hpre : f.opts.isPrefix = false) (hpar : ¬ f.opts.param = []) (hseen : (mapLookup m f.opts.param).isSome = false)
    (hcall : c.call 0 hc [.ptr t, .str f.opts.param] = .stuck w) :
    exec c (body1.drop 6) hc [.ptr t, .ptrs accA, .map m, .ptr a, .bool true, v5, v6, v7, .undef, .ptrs addrs, .int k, .undef, .undef] =
      .stuck w := by
  simp only [fiObj, optsVals] at hfa
  simp only [body1, loop1, normalizeIR, Stmt.drop, Stmt.head, Stmt.forBody]
  ti_simp [fieldOf, hfa, hpre, hpar, hseen, hcall]

/-- The call of `ti.field` returns an error: it is returned. -/
theorem body1_call_err (c : Ctx) (hc : Heap) (t : Nat) (accA : List Nat) (m : List (Bytes × Bool))
    (v5 v6 v7 : Val) (addrs : List Nat) (k a : Nat) (f : FieldInfo) (h' : Heap) (v : Val)
    (hfa : hc[a]? = some (fiObj f))
    (hpre : f.opts.isPrefix = false) (hpar : ¬ f.opts.param = []) (hseen : (mapLookup m f.opts.param).isSome = false)
    (hcall : c.call 0 hc [.ptr t, .str f.opts.param] = .ok (h', [.nil, v]))
    (hv : (∃ x, v = .ptr x) ∨ (∃ ps, v = .errNew ps)) :
    exec c (body1.drop 6) hc [.ptr t, .ptrs accA, .map m, .ptr a, .bool true, v5, v6, v7, .undef, .ptrs addrs, .int k, .undef, .undef] =
      .ret h' [v] := by
  simp only [fiObj, optsVals] at hfa
  simp only [body1, loop1, normalizeIR, Stmt.drop, Stmt.head, Stmt.forBody]
  rcases hv with ⟨x, rfl⟩ | ⟨ps, rfl⟩ <;>
  ti_simp [fieldOf, hfa, hpre, hpar, hseen, hcall]

/-- The call of `ti.field` returns a field: it is appended and the param recorded. -/
theorem body1_call_ok (c : Ctx) (hc : Heap) (t : Nat) (accA : List Nat) (m : List (Bytes × Bool))
    (v5 v6 v7 : Val) (addrs : List Nat) (k a : Nat) (f : FieldInfo) (a' : Nat)
    (hfa : hc[a]? = some (fiObj f))
    (hpre : f.opts.isPrefix = false) (hpar : ¬ f.opts.param = []) (hseen : (mapLookup m f.opts.param).isSome = false)
    (hcall : c.call 0 hc [.ptr t, .str f.opts.param] = .ok (hc, [.ptr a', .nil])) :
    exec c (body1.drop 6) hc [.ptr t, .ptrs accA, .map m, .ptr a, .bool true, v5, v6, v7, .undef, .ptrs addrs, .int k, .undef, .undef] =
      .norm hc [.ptr t, .ptrs (accA ++ [a']), .map ((f.opts.param, true) :: m), .ptr a, .bool true, .bool false, .ptr a', .nil,
        .undef, .ptrs addrs, .int k, .undef, .undef] := by
  simp only [fiObj, optsVals] at hfa
  simp only [body1, loop1, normalizeIR, Stmt.drop, Stmt.head, Stmt.forBody]
  ti_simp [fieldOf, hfa, hpre, hpar, hseen, hcall]

/-! ## The model, one case at a time -/

section model
variable (all : List FieldInfo) (f : FieldInfo) (rest : List FieldInfo) (ti : TypeInfo) (seen : List Bytes)

theorem nl_invalid (hv : validOpts f.opts = false) :
    normalizeLoop all (f :: rest) ti seen = .error (.invalidTag f.name f.tag) := by
  simp [normalizeLoop, hv]

theorem nl_prefix (hv : validOpts f.opts = true) (hpre : f.opts.isPrefix = true) :
    normalizeLoop all (f :: rest) ti seen = normalizeLoop all rest { ti with hashPrefix := some f } seen := by
  simp [normalizeLoop, hv, hpre]

theorem nl_plain (hv : validOpts f.opts = true) (hpre : f.opts.isPrefix = false) (hpar : f.opts.param = []) :
    normalizeLoop all (f :: rest) ti seen = normalizeLoop all rest { ti with fields := ti.fields ++ [f] } seen := by
  simp [normalizeLoop, hv, hpre, hpar]

theorem nl_seen (hv : validOpts f.opts = true) (hpre : f.opts.isPrefix = false) (hpar : ¬ f.opts.param = [])
    (hs : seen.contains f.opts.param = true) :
    normalizeLoop all (f :: rest) ti seen = normalizeLoop all rest ti seen := by
  rw [normalizeLoop]
  simp only [hv, hpre, hpar, hs]
  simp

theorem nl_err (hv : validOpts f.opts = true) (hpre : f.opts.isPrefix = false) (hpar : ¬ f.opts.param = [])
    (hs : seen.contains f.opts.param = false) (e : TagErr) (hr : resolveParam all f.opts.param = .error e) :
    normalizeLoop all (f :: rest) ti seen = .error e := by
  rw [normalizeLoop]
  simp only [hv, hpre, hpar, hs, hr]
  simp

theorem nl_ok (hv : validOpts f.opts = true) (hpre : f.opts.isPrefix = false) (hpar : ¬ f.opts.param = [])
    (hs : seen.contains f.opts.param = false) (fi : FieldInfo) (hr : resolveParam all f.opts.param = .ok (some fi)) :
    normalizeLoop all (f :: rest) ti seen =
      normalizeLoop all rest { ti with fields := ti.fields ++ [fi] } (f.opts.param :: seen) := by
  rw [normalizeLoop]
  simp only [hv, hpre, hpar, hs, hr]
  simp

end model

/-! ## The first loop -/

theorem isStuck_iff {α : Type} (r : Res α) : r.isStuck ↔ ∃ w, r = .stuck w := by
  cases r <;> simp [Res.isStuck]

theorem post1_eq (c : Ctx) (hc : Heap) (e0 e1 e2 e3 e4 e5 e6 e7 e8 e9 e11 e12 : Val) (k : Nat) :
    exec c loop1.forPost hc [e0, e1, e2, e3, e4, e5, e6, e7, e8, e9, .int k, e11, e12] =
      .norm hc [e0, e1, e2, e3, e4, e5, e6, e7, e8, e9, .int (k + 1 : Nat), e11, e12] := by
  simp only [loop1, normalizeIR, Stmt.drop, Stmt.head, Stmt.forPost]
  ti_simp

theorem cond1_eq (c : Ctx) (hc : Heap) (e0 e1 e2 e3 e4 e5 e6 e7 e8 e11 e12 : Val) (l : List Nat) (k : Nat) :
    (eval c.structs hc [e0, e1, e2, e3, e4, e5, e6, e7, e8, .ptrs l, .int k, e11, e12] loop1.forCond >>= asBool) =
      .ok (decide (k < l.length)) := by
  simp only [loop1, normalizeIR, Stmt.drop, Stmt.head, Stmt.forCond]
  ti_simp

/-- `CallsField` with a side condition `B` attached to the `stuck` alternative: `B := True` is `CallsField`,
`B := False` says that the callee is never stuck. -/
def CallsFieldG (B : Prop) (c : Ctx) : Prop :=
  ∀ (h : Heap) (t : Nat) (strct hp : Val) (root : RType) (n : Int) (addrs : List Nat)
    (fields : List FieldInfo) (param : Bytes),
    h[t]? = some (tiObj strct root hp addrs n) → Reps h addrs fields → TagsOk c.structs root fields →
    fields.length < c.fuel → (∀ fi ∈ fields, fi.index.length < c.fuel) →
    (B ∧ (c.call 0 h [.ptr t, .str param]).isStuck) ∨ FieldPost h addrs fields param (c.call 0 h [.ptr t, .str param])

/-- What the first loop must produce, given the model's answer `res`. -/
def Post1 (B : Prop) (h : Heap) (t : Nat) (st root : RType) (addrs : List Nat) (bound : Nat) (res : Except TagErr TypeInfo)
    (r : Out) : Prop :=
  (B ∧ ∃ w, r = .stuck w) ∨
  match res with
  | .ok out => ∃ hp' outA m' v3' v4' v5' v6' v7',
      r = .norm (h.set t (tiObj (.rtype st) root hp' addrs 0))
        [.ptr t, .ptrs outA, .map m', v3', v4', v5', v6', v7', .undef, .ptrs addrs, .int addrs.length, .undef, .undef] ∧
      RepOpt h hp' out.hashPrefix ∧ Reps h outA out.fields ∧ outA.length ≤ bound ∧
      out.numReqValues = (out.fields.filter countsAsRequired).length
  | .error e => ∃ h' v, r = .ret h' [v] ∧ absErr h' v = some e

theorem loop1_spec (B : Prop) (c : Ctx) (h : Heap) (t : Nat) (st root : RType) (addrs : List Nat) (raw : List FieldInfo)
    (hcf : CallsFieldG B c) (ht : h[t]? = some (tiObj (.rtype st) root .nil addrs 0)) (hreps : Reps h addrs raw)
    (htags : TagsOk c.structs root raw) (hfuel : raw.length < c.fuel) (hidx : ∀ fi ∈ raw, fi.index.length < c.fuel) :
    ∀ (rest : List FieldInfo) (restA pre : List Nat) (fuel : Nat) (hp : Val) (acc : TypeInfo) (accA : List Nat)
      (m : List (Bytes × Bool)) (v3 v4 v5 v6 v7 : Val),
      rest.length ≤ fuel → addrs = pre ++ restA → Reps h restA rest → (∀ f ∈ rest, f ∈ raw) →
      RepOpt h hp acc.hashPrefix → Reps h accA acc.fields → accA.length + rest.length ≤ raw.length →
      Post1 B h t st root addrs raw.length (normalizeLoop raw rest acc (m.map Prod.fst))
        (loop (fun h env => eval c.structs h env loop1.forCond >>= asBool) (exec c body1) (exec c loop1.forPost) fuel
          (h.set t (tiObj (.rtype st) root hp addrs 0))
          [.ptr t, .ptrs accA, .map m, v3, v4, v5, v6, v7, .undef, .ptrs addrs, .int pre.length, .undef, .undef]) := by
  intro rest
  induction rest with
  | nil =>
    intro restA pre fuel hp acc accA m v3 v4 v5 v6 v7 hfu hadd hrr hmem hro hra hb
    cases restA with
    | cons a as => simp [Reps] at hrr
    | nil =>
      simp only [List.append_nil] at hadd
      subst hadd
      rw [loop_false _ _ _ _ _ _ (by rw [cond1_eq]; simp)]
      right
      simp only [normalizeLoop]
      exact ⟨hp, accA, m, v3, v4, v5, v6, v7, rfl, hro, hra, by simpa using hb, trivial⟩
  | cons f rest ih =>
    intro restA pre fuel hp acc accA m v3 v4 v5 v6 v7 hfu hadd hrr hmem hro hra hb
    cases restA with
    | nil => simp [Reps] at hrr
    | cons a restA =>
      obtain ⟨hfa0, hrr'⟩ := hrr
      cases fuel with
      | zero => simp at hfu
      | succ n =>
        have hne : t ≠ a := ne_of_objs ht (tiObj_length _ _ _ _ _) hfa0
        have hfa : (h.set t (tiObj (.rtype st) root hp addrs 0))[a]? = some (fiObj f) := by
          rw [get_set_ne _ _ hne]; exact hfa0
        have hti : (h.set t (tiObj (.rtype st) root hp addrs 0))[t]? = some (tiObj (.rtype st) root hp addrs 0) :=
          get_set_self _ ht
        have hk : addrs[pre.length]? = some a := by subst hadd; simp
        have hlen : pre.length < addrs.length := by subst hadd; simp
        have hpre' : addrs = (pre ++ [a]) ++ restA := by subst hadd; simp
        have hlen' : (pre ++ [a]).length = pre.length + 1 := by simp
        have hfu' : rest.length ≤ n := by simp at hfu; omega
        have hmem' : ∀ f ∈ rest, f ∈ raw := fun g hg => hmem g (List.mem_cons_of_mem _ hg)
        have hfraw : f ∈ raw := hmem f (List.mem_cons_self)
        have hb' : accA.length + rest.length ≤ raw.length := by simp at hb; omega
        have hb'' : (accA ++ [a]).length + rest.length ≤ raw.length := by simp at hb ⊢; omega
        rw [loop_step _ _ _ _ _ _ (by rw [cond1_eq]; simp [hlen])]
        rw [exec_take_drop c _ _ 6 body1, body1_valid c _ t accA m v3 v4 v5 v6 v7 addrs pre.length a f hk hfa, andThen_norm]
        cases hv : validOpts f.opts with
        | false =>
          obtain ⟨gf, i, hfb, htag⟩ := htags f hfraw
          rw [body1_invalid c _ t accA m v5 v6 v7 addrs pre.length a f st root hp addrs 0 gf i hfa hti hfb, afterBody_ret,
            nl_invalid _ _ _ _ _ hv]
          right
          exact ⟨_, _, rfl, by simp [absErr, htag]⟩
        | true =>
          cases hpre : f.opts.isPrefix with
          | true =>
            rw [body1_prefix c _ t accA m v5 v6 v7 addrs pre.length a f _ root hp addrs 0 hfa hti hpre, afterBody_cont,
              post1_eq, afterPost_norm, nl_prefix _ _ _ _ _ hv hpre, List.set_set, ← hlen']
            exact ih restA (pre ++ [a]) n (.ptr a) _ accA m _ _ _ _ _ hfu' hpre' hrr' hmem' hfa0 hra hb'
          | false =>
            by_cases hpar : f.opts.param = []
            · rw [body1_plain c _ t accA m v5 v6 v7 addrs pre.length a f hfa hpre hpar, afterBody_cont,
                post1_eq, afterPost_norm, nl_plain _ _ _ _ _ hv hpre hpar, ← hlen']
              exact ih restA (pre ++ [a]) n hp _ (accA ++ [a]) m _ _ _ _ _ hfu' hpre' hrr' hmem' hro
                (reps_append hfa0 _ _ hra) hb''
            · cases hseen : (mapLookup m f.opts.param).isSome with
              | true =>
                rw [body1_seen c _ t accA m v5 v6 v7 addrs pre.length a f hfa hpre hpar hseen, afterBody_cont,
                  post1_eq, afterPost_norm, nl_seen _ _ _ _ _ hv hpre hpar (by rw [← lookup_isSome]; exact hseen), ← hlen']
                exact ih restA (pre ++ [a]) n hp _ accA m _ _ _ _ _ hfu' hpre' hrr' hmem' hro hra hb'
              | false =>
                have hs : (m.map Prod.fst).contains f.opts.param = false := by rw [← lookup_isSome]; exact hseen
                have hfp := hcf _ t (.rtype st) hp root 0 addrs raw f.opts.param hti
                  (reps_set _ ht (tiObj_length _ _ _ _ _) addrs raw hreps) htags hfuel hidx
                rcases hfp with ⟨hB, hst⟩ | hfp
                · obtain ⟨w, hw⟩ := (isStuck_iff _).1 hst
                  rw [body1_call_stuck c _ t accA m v5 v6 v7 addrs pre.length a f w hfa hpre hpar hseen hw, afterBody_stuck]
                  exact Or.inl ⟨hB, w, rfl⟩
                · unfold FieldPost at hfp
                  cases hrp : resolveParam raw f.opts.param with
                  | error e =>
                    rw [hrp] at hfp
                    obtain ⟨o, v, hcall, habs⟩ := hfp
                    rw [body1_call_err c _ t accA m v5 v6 v7 addrs pre.length a f _ v hfa hpre hpar hseen hcall
                      (absErr_nonnil habs), afterBody_ret, nl_err _ _ _ _ _ hv hpre hpar hs e hrp]
                    right
                    exact ⟨_, _, rfl, habs⟩
                  | ok x =>
                    cases x with
                    | none => exact absurd rfl (resolveParam_none hrp f hfraw)
                    | some fi =>
                      rw [hrp] at hfp
                      obtain ⟨a', _, hfa', hcall⟩ := hfp
                      have hne' : t ≠ a' := ne_of_objs hti (tiObj_length _ _ _ _ _) hfa'
                      have hfa0' : h[a']? = some (fiObj fi) := by rw [get_set_ne _ _ hne'] at hfa'; exact hfa'
                      rw [body1_call_ok c _ t accA m v5 v6 v7 addrs pre.length a f a' hfa hpre hpar hseen hcall,
                        afterBody_norm, post1_eq, afterPost_norm, nl_ok _ _ _ _ _ hv hpre hpar hs fi hrp, ← hlen']
                      exact ih restA (pre ++ [a]) n hp _ (accA ++ [a']) ((f.opts.param, true) :: m) _ _ _ _ _ hfu' hpre' hrr'
                        hmem' hro (reps_append hfa0' _ _ hra) (by simp at hb ⊢; omega)

/-! ## The second loop -/

theorem post2_eq (c : Ctx) (hc : Heap) (e0 e1 e2 e3 e4 e5 e6 e7 e8 e9 e10 e11 : Val) (k : Nat) :
    exec c loop2.forPost hc [e0, e1, e2, e3, e4, e5, e6, e7, e8, e9, e10, e11, .int k] =
      .norm hc [e0, e1, e2, e3, e4, e5, e6, e7, e8, e9, e10, e11, .int (k + 1 : Nat)] := by
  simp only [loop2, normalizeIR, Stmt.drop, Stmt.head, Stmt.forPost]
  ti_simp

theorem cond2_eq (c : Ctx) (hc : Heap) (e0 e1 e2 e3 e4 e5 e6 e7 e8 e9 e10 : Val) (l : List Nat) (k : Nat) :
    (eval c.structs hc [e0, e1, e2, e3, e4, e5, e6, e7, e8, e9, e10, .ptrs l, .int k] loop2.forCond >>= asBool) =
      .ok (decide (k < l.length)) := by
  simp only [loop2, normalizeIR, Stmt.drop, Stmt.head, Stmt.forCond]
  ti_simp

theorem body2_count (c : Ctx) (hc : Heap) (t : Nat) (e1 e2 e3 e4 e5 e6 e7 e8 e9 e10 : Val) (l : List Nat) (k a : Nat)
    (f : FieldInfo) (s : Val) (root : RType) (hp : Val) (addrs' : List Nat) (n : Nat)
    (hk : l[k]? = some a) (hfa : hc[a]? = some (fiObj f)) (hti : hc[t]? = some (tiObj s root hp addrs' n))
    (hcnt : countsAsRequired f = true) :
    exec c body2 hc [.ptr t, e1, e2, e3, e4, e5, e6, e7, e8, e9, e10, .ptrs l, .int k] =
      .norm (hc.set t (tiObj s root hp addrs' (n + 1 : Nat)))
        [.ptr t, e1, e2, e3, e4, e5, e6, e7, .ptr a, e9, e10, .ptrs l, .int k] := by
  obtain ⟨idx, nm, kd, pd, tn, tg, mt, ut, o⟩ := f
  obtain ⟨ip, oe, g, p, enc, len, hl, inl, base⟩ := o
  simp only [fiObj, optsVals] at hfa
  simp only [tiObj] at hti ⊢
  simp only [body2, loop2, normalizeIR, Stmt.drop, Stmt.head, Stmt.forBody]
  cases oe <;> cases g <;> cases inl <;> simp [countsAsRequired] at hcnt
  ti_simp [indexVal_ptrs _ _ _ hk, fieldOf, hfa, hti]

theorem body2_skip (c : Ctx) (hc : Heap) (t : Nat) (e1 e2 e3 e4 e5 e6 e7 e8 e9 e10 : Val) (l : List Nat) (k a : Nat)
    (f : FieldInfo)
    (hk : l[k]? = some a) (hfa : hc[a]? = some (fiObj f))
    (hcnt : countsAsRequired f = false) :
    exec c body2 hc [.ptr t, e1, e2, e3, e4, e5, e6, e7, e8, e9, e10, .ptrs l, .int k] =
      .norm hc [.ptr t, e1, e2, e3, e4, e5, e6, e7, .ptr a, e9, e10, .ptrs l, .int k] := by
  obtain ⟨idx, nm, kd, pd, tn, tg, mt, ut, o⟩ := f
  obtain ⟨ip, oe, g, p, enc, len, hl, inl, base⟩ := o
  simp only [fiObj, optsVals] at hfa
  simp only [body2, loop2, normalizeIR, Stmt.drop, Stmt.head, Stmt.forBody]
  cases oe <;> cases g <;> cases inl <;> simp [countsAsRequired] at hcnt <;>
    ti_simp [indexVal_ptrs _ _ _ hk, fieldOf, hfa]

theorem loop2_spec (c : Ctx) (h : Heap) (t : Nat) (s : Val) (root : RType) (hp : Val) (addrs outA : List Nat) (o : Obj)
    (ht : h[t]? = some o) (ho : o.length = 5) (e1 e2 e3 e4 e5 e6 e7 e9 e10 : Val) :
    ∀ (restF : List FieldInfo) (restA pre : List Nat) (fuel n : Nat) (e8 : Val),
      restF.length ≤ fuel → outA = pre ++ restA → Reps h restA restF →
      ∃ e8', loop (fun h env => eval c.structs h env loop2.forCond >>= asBool) (exec c body2) (exec c loop2.forPost) fuel
          (h.set t (tiObj s root hp addrs n))
          [.ptr t, e1, e2, e3, e4, e5, e6, e7, e8, e9, e10, .ptrs outA, .int pre.length] =
        .norm (h.set t (tiObj s root hp addrs (n + (restF.filter countsAsRequired).length : Nat)))
          [.ptr t, e1, e2, e3, e4, e5, e6, e7, e8', e9, e10, .ptrs outA, .int outA.length] := by
  intro restF
  induction restF with
  | nil =>
    intro restA pre fuel n e8 hfu hadd hrr
    cases restA with
    | cons a as => simp [Reps] at hrr
    | nil =>
      simp only [List.append_nil] at hadd
      subst hadd
      rw [loop_false _ _ _ _ _ _ (by rw [cond2_eq]; simp)]
      exact ⟨e8, by simp⟩
  | cons f restF ih =>
    intro restA pre fuel n e8 hfu hadd hrr
    cases restA with
    | nil => simp [Reps] at hrr
    | cons a restA =>
      obtain ⟨hfa0, hrr'⟩ := hrr
      cases fuel with
      | zero => simp at hfu
      | succ fuel =>
        have hne : t ≠ a := ne_of_objs ht ho hfa0
        have hfa : (h.set t (tiObj s root hp addrs n))[a]? = some (fiObj f) := by
          rw [get_set_ne _ _ hne]; exact hfa0
        have hti : (h.set t (tiObj s root hp addrs n))[t]? = some (tiObj s root hp addrs n) := get_set_self _ ht
        have hk : outA[pre.length]? = some a := by subst hadd; simp
        have hlen : pre.length < outA.length := by subst hadd; simp
        have hpre' : outA = (pre ++ [a]) ++ restA := by subst hadd; simp
        have hlen' : (pre ++ [a]).length = pre.length + 1 := by simp
        have hfu' : restF.length ≤ fuel := by simp at hfu; omega
        rw [loop_step _ _ _ _ _ _ (by rw [cond2_eq]; simp [hlen])]
        cases hcnt : countsAsRequired f with
        | true =>
          rw [body2_count c _ t e1 e2 e3 e4 e5 e6 e7 e8 e9 e10 outA pre.length a f s root hp addrs n hk hfa hti hcnt,
            afterBody_norm, post2_eq, afterPost_norm, List.set_set, ← hlen']
          obtain ⟨e8', he⟩ := ih restA (pre ++ [a]) fuel (n + 1) (.ptr a) hfu' hpre' hrr'
          refine ⟨e8', ?_⟩
          have hc' : n + 1 + (restF.filter countsAsRequired).length =
              n + ((f :: restF).filter countsAsRequired).length := by
            simp [hcnt]; omega
          rw [he, hc']
        | false =>
          rw [body2_skip c _ t e1 e2 e3 e4 e5 e6 e7 e8 e9 e10 outA pre.length a f hk hfa hcnt,
            afterBody_norm, post2_eq, afterPost_norm, ← hlen']
          obtain ⟨e8', he⟩ := ih restA (pre ++ [a]) fuel n (.ptr a) hfu' hpre' hrr'
          refine ⟨e8', ?_⟩
          have hc' : (restF.filter countsAsRequired).length = ((f :: restF).filter countsAsRequired).length := by
            simp [hcnt]
          rw [he, hc']

/-! ## The whole function -/

theorem drop3_eq : normalizeIR.body.drop 3 = (loop1 ;; normalizeIR.body.drop 4) := rfl
theorem drop4_eq : normalizeIR.body.drop 4 = ((normalizeIR.body.drop 4).head ;; loop2 ;; normalizeIR.body.drop 6) := rfl

theorem exec_loop1 (c : Ctx) (h : Heap) (env : Env) :
    exec c loop1 h env =
      loop (fun h env => eval c.structs h env loop1.forCond >>= asBool) (exec c body1) (exec c loop1.forPost) c.fuel h env := rfl

theorem exec_loop2 (c : Ctx) (h : Heap) (env : Env) :
    exec c loop2 h env =
      loop (fun h env => eval c.structs h env loop2.forCond >>= asBool) (exec c body2) (exec c loop2.forPost) c.fuel h env := rfl

/-- `var fields`, `params := …`, the range temporaries. -/
theorem init_eq (c : Ctx) (h : Heap) (t : Nat) (s : Val) (root : RType) (hp : Val) (addrs : List Nat) (n : Int)
    (ht : h[t]? = some (tiObj s root hp addrs n)) :
    exec c (normalizeIR.body.take 3) h
        [.ptr t, .undef, .undef, .undef, .undef, .undef, .undef, .undef, .undef, .undef, .undef, .undef, .undef] =
      .norm h [.ptr t, .ptrs [], .map [], .undef, .undef, .undef, .undef, .undef, .undef, .ptrs addrs, .int (0 : Nat), .undef, .undef] := by
  simp only [tiObj] at ht
  simp only [normalizeIR, Stmt.take]
  ti_simp [fieldOf, ht]
  rfl

/-- The range temporaries of the second loop. -/
theorem init2_eq (c : Ctx) (hc : Heap) (e0 e2 e3 e4 e5 e6 e7 e8 e9 e10 e11 e12 : Val) (l : List Nat) :
    exec c (normalizeIR.body.drop 4).head hc [e0, .ptrs l, e2, e3, e4, e5, e6, e7, e8, e9, e10, e11, e12] =
      .norm hc [e0, .ptrs l, e2, e3, e4, e5, e6, e7, e8, e9, e10, .ptrs l, .int (0 : Nat)] := by
  simp only [normalizeIR, Stmt.drop, Stmt.head]
  ti_simp
  rfl

/-- `ti.Fields = fields; return nil`. -/
theorem final_eq (c : Ctx) (h : Heap) (t : Nat) (o : Obj) (ht : h[t]? = some o)
    (s : Val) (root : RType) (hp : Val) (addrs outA : List Nat) (n : Int)
    (e2 e3 e4 e5 e6 e7 e8 e9 e10 e11 e12 : Val) :
    exec c (normalizeIR.body.drop 6) (h.set t (tiObj s root hp addrs n))
        [.ptr t, .ptrs outA, e2, e3, e4, e5, e6, e7, e8, e9, e10, e11, e12] =
      .ret (h.set t (tiObj s root hp outA n)) [.nil] := by
  have hlt := lt_of_get ht
  simp only [tiObj]
  simp only [normalizeIR, Stmt.drop]
  ti_simp

/-- `NormSpec` with the side condition `B` on the `stuck` alternative (see `CallsFieldG`). -/
theorem norm_spec_gen (B : Prop) (c : Ctx) (h : Heap) (t : Nat) (st : RType) (root : RType) (addrs : List Nat)
    (raw : List FieldInfo) (hcf : CallsFieldG B c)
    (ht : h[t]? = some (tiObj (.rtype st) root .nil addrs 0)) (hreps : Reps h addrs raw)
    (htags : TagsOk c.structs root raw) (hfuel : raw.length < c.fuel) (hidx : ∀ fi ∈ raw, fi.index.length < c.fuel) :
    (B ∧ (execProc c normalizeIR h [.ptr t]).isStuck) ∨
      NormPost h t (.rtype st) root raw (execProc c normalizeIR h [.ptr t]) := by
  rw [execProc_eq _ _ _ _ (by rfl)]
  show (B ∧ (procResult (exec c normalizeIR.body h
      [.ptr t, .undef, .undef, .undef, .undef, .undef, .undef, .undef, .undef, .undef, .undef, .undef, .undef])).isStuck) ∨
    NormPost h t (.rtype st) root raw (procResult (exec c normalizeIR.body h
      [.ptr t, .undef, .undef, .undef, .undef, .undef, .undef, .undef, .undef, .undef, .undef, .undef, .undef]))
  rw [exec_take_drop c _ _ 3, init_eq c h t _ root _ addrs _ ht, andThen_norm, drop3_eq, exec_seq, exec_loop1]
  have key := loop1_spec B c h t st root addrs raw hcf ht hreps htags hfuel hidx raw addrs [] c.fuel .nil {} [] []
    .undef .undef .undef .undef .undef (by omega) rfl hreps (fun f hf => hf) trivial trivial (by simp)
  rw [set_get_self ht] at key
  simp only [List.map_nil, List.length_nil] at key
  unfold Post1 at key
  rcases key with ⟨hB, w, hw⟩ | key
  · rw [hw]; left; exact ⟨hB, trivial⟩
  · unfold NormPost
    cases hres : normalizeLoop raw raw {} [] with
    | error e =>
      rw [hres] at key
      obtain ⟨h', v, hr, habs⟩ := key
      rw [hr]
      right
      exact ⟨h', v, rfl, habs⟩
    | ok out =>
      rw [hres] at key
      obtain ⟨hp', outA, m', v3', v4', v5', v6', v7', hr, hro, hra, hbound, hnum⟩ := key
      rw [hr, andThen_norm, drop4_eq, exec_seq, init2_eq, andThen_norm, exec_seq, exec_loop2]
      obtain ⟨e8', h2⟩ := loop2_spec c h t (.rtype st) root hp' addrs outA _ ht (tiObj_length _ _ _ _ _)
        (.ptrs outA) (.map m') v3' v4' v5' v6' v7' (.ptrs addrs) (.int addrs.length) out.fields outA [] c.fuel 0 .undef
        (by have := reps_length _ _ hra; omega) rfl hra
      have e0 : ((0 : Nat) : Int) = 0 := rfl
      simp only [List.length_nil, Nat.zero_add] at h2
      rw [e0] at h2 ⊢
      rw [h2, andThen_norm, final_eq c h t _ ht]
      right
      refine ⟨hp', outA, ?_, hro, hra⟩
      rw [hnum]
      simp

theorem norm_spec : NormSpec := by
  intro c h t st root addrs raw hcf ht hreps htags hfuel hidx
  have hcf' : CallsFieldG True c := fun h t s hp r n a f p h1 h2 h3 h4 h5 =>
    (hcf h t s hp r n a f p h1 h2 h3 h4 h5).imp (fun hs => ⟨trivial, hs⟩) id
  exact (norm_spec_gen True c h t st root addrs raw hcf' ht hreps htags hfuel hidx).imp (fun hs => hs.2) id

/-- When the callee `field` is never stuck, `normalize` is never stuck: exactly the model's result. -/
theorem norm_spec_exact (c : Ctx) (h : Heap) (t : Nat) (st : RType) (root : RType) (addrs : List Nat)
    (raw : List FieldInfo) (hcf : CallsFieldG False c)
    (ht : h[t]? = some (tiObj (.rtype st) root .nil addrs 0)) (hreps : Reps h addrs raw)
    (htags : TagsOk c.structs root raw) (hfuel : raw.length < c.fuel) (hidx : ∀ fi ∈ raw, fi.index.length < c.fuel) :
    NormPost h t (.rtype st) root raw (execProc c normalizeIR h [.ptr t]) :=
  (norm_spec_gen False c h t st root addrs raw hcf ht hreps htags hfuel hidx).elim (fun hs => hs.1.elim) id

#print axioms GoCrypt.TIIR.Norm.norm_spec
#print axioms GoCrypt.TIIR.Norm.norm_spec_exact

end GoCrypt.TIIR.Norm
