import GoCrypt.Proofs.SIREncWriteTop
import GoCrypt.Proofs.SIRLibEncode

/-!
# Stream IR of `hash/base64le`: `NewEncoder`, and the program-level forms of `Write`/`Close`

Helper lemmas only; the property theorems are in `Props/SIREncoder.lean`.
-/

namespace GoCrypt.SIR
open GoCrypt.B64IR (Buf Heap Slice Res sliceBytes writeList padInt decodeMapBytes encVal)
open GoCrypt.Base64LE GoCrypt.Stream GoCrypt.Gen.base64leStream GoCrypt.Gen.base64le

theorem newEncoder_proc (c : Ctx) (H : Heap) (O : List Obj) (X : List Ext) (ae k : Nat) :
    execProc c newEncoderIR ⟨H, O, X⟩ [.ptr ae, .ext k] =
      .ok (⟨H ++ [Array.replicate 3 0, Array.replicate 1024 0], O ++ [encoderObj ae k H.length (H.length + 1) none 0], X⟩,
        [.ptr O.length]) := by
  simp only [execProc, newEncoderIR]
  b64_simp [evalInits, List.length_append, List.append_assoc]
  simp only [encoderObj]
  rfl

/-- The world `NewEncoder` leaves represents the initial model state (nothing buffered, no error). -/
theorem newEncoder_rep (e : Encoding) (H : Heap) (O : List Obj) (X : List Ext) (ae b1 b2 k : Nat) (st : EncSt)
    (henc : EncAt H O ae b1 b2 e) (hwr : X[k]? = some (writerOf st)) (herr : st.err = none) (hbuf : st.buf = []) :
    EncRep ⟨O.length, ae, b1, b2, k, H.length, H.length + 1⟩ e st
      (H ++ [Array.replicate 3 0, Array.replicate 1024 0]) (O ++ [encoderObj ae k H.length (H.length + 1) none 0]) X := by
  have h1 : b1 < H.length := lt_of_getElem? henc.alpha
  have h2 : b2 < H.length := lt_of_getElem? henc.dmap
  have ha : ae < O.length := lt_of_getElem? henc.obj
  exact {
    enc := henc.mono _ _ (List.getElem?_append_left ha) (List.getElem?_append_left h1) (List.getElem?_append_left h2)
    obj := by simp [herr, hbuf]
    wr := hwr
    buf := ⟨Array.replicate 3 0, by simp, by simp, by simp [hbuf]⟩
    out := ⟨Array.replicate 1024 0, by simp [List.getElem?_append_right], by simp⟩
    ne1 := by simp
    ne2 := by simp only; omega
    ne3 := by simp only; omega
    ne4 := by simp only; omega
    ne5 := by simp only; omega
    ne6 := by simp only; omega }

end GoCrypt.SIR
