import GoCrypt.Proofs.SIREncWriteLoop

/-!
# Stream IR of `hash/base64le`: `(*encoder).Write` — the leading fringe

Helper lemmas only; the property theorems are in `Props/SIREncoder.lean`.
-/

namespace GoCrypt.SIR
open GoCrypt.B64IR (Buf Heap Slice Res sliceBytes writeList padInt decodeMapBytes encVal)
open GoCrypt.Base64LE GoCrypt.Stream GoCrypt.Gen.base64leStream GoCrypt.Gen.base64le

/-- The statements of the `if e.nbuf > 0 { … }` block. -/
def wLeadBlock : Stmt := wLead.iteThen
/-- `for i = 0; i < len(p) && e.nbuf < 3; i++ { … }` -/
def wLeadFor : Stmt := (wLeadBlock.drop 2).head
/-- what follows that loop inside the block -/
def wLeadRest : Stmt := wLeadBlock.drop 3

theorem wLead_eq : wLead = .ite wLead.iteCond wLeadBlock .skip := rfl
theorem wLeadBlock_split : wLeadBlock.drop 2 = (wLeadFor ;; wLeadRest) := rfl
theorem wLeadFor_eq : wLeadFor = .for_ wLeadFor.forFuel wLeadFor.forCond wLeadFor.forPost wLeadFor.forBody := rfl

/-- World and frame at the start of iteration `j` of the leading loop (`m` bytes were buffered). -/
def leadSt (L : EncLayout) (H : Heap) (O : List Obj) (X : List Ext) (B P : Buf) (bp m : Nat) (v5 v6 : Val) (j : Nat) : World × Env :=
  (⟨H.set L.bb (writeList B m (P.toList.take j)), O.set L.d (encoderObj L.ae L.k L.bb L.bo none (m + j)), X⟩,
   [.ptr L.d, .slice ⟨bp, 0, P.size, P.size⟩, .int 0, .err none, .int j, v5, v6])

theorem take_succ_get (l : List UInt8) (j : Nat) (h : j < l.length) : l.take (j + 1) = l.take j ++ [l[j]] :=
  List.take_succ_eq_append_getElem h

theorem leadLoop (c : Ctx) (L : EncLayout) (H : Heap) (O : List Obj) (X : List Ext) (B P : Buf) (bp m : Nat) (v5 v6 : Val)
    (hdl : L.d < O.length) (hB : H[L.bb]? = some B) (hBs : B.size = 3) (hP : H[bp]? = some P) (hne : L.bb ≠ bp)
    (hm : m < 3) (hsz : P.size < 2 ^ 62) :
    exec c wLeadFor (leadSt L H O X B P bp m v5 v6 0).1 (leadSt L H O X B P bp m v5 v6 0).2 =
      .norm (leadSt L H O X B P bp m v5 v6 (min P.size (3 - m))).1 (leadSt L H O X B P bp m v5 v6 (min P.size (3 - m))).2 := by
  have hbl : L.bb < H.length := lt_of_getElem? hB
  rw [wLeadFor_eq, exec_for]
  have hfuel : (eval (leadSt L H O X B P bp m v5 v6 0).1 (leadSt L H O X B P bp m v5 v6 0).2 wLeadFor.forFuel >>= asInt) =
      .ok ((1 + P.size + 3 : Nat) : Int) := by
    simp only [wLeadFor, wLeadBlock, wLead, Stmt.iteThen, Stmt.forFuel, Stmt.head, Stmt.drop, encoderWriteIR, leadSt]
    b64_simp []
    rfl
  rw [hfuel, bindR_ok, Int.toNat_natCast]
  refine loop_count _ _ _ (leadSt L H O X B P bp m v5 v6) (min P.size (3 - m)) ?_ ?_ ?_ ?_ _ 0 (Nat.zero_le _) (by omega)
  · intro j hj
    simp only [wLeadFor, wLeadBlock, wLead, Stmt.iteThen, Stmt.forCond, Stmt.head, Stmt.drop, encoderWriteIR, leadSt, encoderObj]
    b64_simp []
    have h1 : decide (j < P.size) = true := decide_eq_true (by omega)
    have h2 : decide (m + j < 3) = true := decide_eq_true (by omega)
    simp [h1, h2]
  · simp only [wLeadFor, wLeadBlock, wLead, Stmt.iteThen, Stmt.forCond, Stmt.head, Stmt.drop, encoderWriteIR, leadSt, encoderObj]
    b64_simp []
    by_cases h1 : min P.size (3 - m) < P.size
    · have h2 : decide (m + min P.size (3 - m) < 3) = false := decide_eq_false (by omega)
      simp [h1, h2]
    · simp [h1]
  · intro j hj
    have hPj : j < P.size := by omega
    have hws : m + j < (writeList B m (P.toList.take j)).size := by simp; omega
    simp only [wLeadFor, wLeadBlock, wLead, Stmt.iteThen, Stmt.forBody, Stmt.forPost, Stmt.head, Stmt.drop, encoderWriteIR, leadSt,
      encoderObj]
    b64_simp [hP, hB, hne, B64IR.writeList_size, hBs]
    rw [take_succ_get _ _ (by simpa using hPj), B64IR.writeList_append]
    simp [writeList, Nat.min_eq_left (show j ≤ P.size by omega), Nat.add_assoc]
  · intro j hj
    have hPj : j < P.size := by omega
    simp only [wLeadFor, wLeadBlock, wLead, Stmt.iteThen, Stmt.forBody, Stmt.forPost, Stmt.head, Stmt.drop, encoderWriteIR, leadSt,
      encoderObj]
    b64_simp [hP, hB, hne, B64IR.writeList_size, hBs]
    exact ⟨_, _, rfl⟩

end GoCrypt.SIR
