import Lean

/-! The simp set used to evaluate the flow-IR interpreter (`Spec/FlowVal.lean`) symbolically. -/

/-- Equations that evaluate `FlowVal.step` / `FlowVal.eval` on a concrete statement. -/
register_simp_attr flowval
