import GoCrypt.Spec.CryptSpecs
import GoCrypt.Model.Kdf.Hashed

/-!
# Lemmas about the hash-based KDF skeletons (used by `Props/KdfProps`)

Closed forms of the length-dependent loops, totality, equality with the reference descriptions of
`Spec/CryptSpecs`, and the backwards walk along the hash chain used by the absorption theorems.
-/

namespace GoCrypt.Kdf
open GoCrypt.CryptSpec

theorem cycleTake_length (b : Bytes) (n : Nat) : (cycleTake b n).length = n := by simp [cycleTake]

theorem cycleTake_zero (b : Bytes) : cycleTake b 0 = [] := by simp [cycleTake]

theorem cycleTake_getElem (b : Bytes) (n i : Nat) (h : i < (cycleTake b n).length) :
    (cycleTake b n)[i] = b.getD (i % b.length) 0 := by
  simp [cycleTake]

theorem cycleTake_of_le {b : Bytes} {n : Nat} (h : n ≤ b.length) : cycleTake b n = b.take n := by
  apply List.ext_getElem
  · simp [cycleTake_length]; omega
  · intro i h1 h2
    rw [cycleTake_getElem]
    rw [cycleTake_length] at h1
    have : i % b.length = i := Nat.mod_eq_of_lt (by omega)
    rw [this, List.getElem_take, List.getD_eq_getElem?_getD, List.getElem?_eq_getElem (by omega)]
    rfl

theorem cycleTake_self (b : Bytes) : cycleTake b b.length = b := by
  rw [cycleTake_of_le (Nat.le_refl _), List.take_length]

theorem cycleTake_add_length (b : Bytes) (n : Nat) :
    cycleTake b (b.length + n) = b ++ cycleTake b n := by
  apply List.ext_getElem
  · simp [cycleTake_length]
  · intro i h1 h2
    rw [cycleTake_getElem]
    by_cases hi : i < b.length
    · rw [List.getElem_append_left hi, Nat.mod_eq_of_lt hi, List.getD_eq_getElem?_getD,
        List.getElem?_eq_getElem hi]; rfl
    · rw [List.getElem_append_right (by omega), cycleTake_getElem]
      congr 1
      have : i = (i - b.length) + b.length := by omega
      conv => lhs; rw [this, Nat.add_mod_right]

theorem cycleTake_sub_length {b : Bytes} {n : Nat} (h : b.length ≤ n) :
    cycleTake b n = b ++ cycleTake b (n - b.length) := by
  have : n = b.length + (n - b.length) := by omega
  conv => lhs; rw [this]
  exact cycleTake_add_length b _


/-! ## Binary digits -/

theorem binDigits_go_eq (f1 f2 n : Nat) (h1 : n ≤ f1) (h2 : n ≤ f2) :
    binDigitsLSB.go f1 n = binDigitsLSB.go f2 n := by
  induction f1 generalizing f2 n with
  | zero => have : n = 0 := by omega
            subst this; cases f2 <;> rfl
  | succ f ih =>
    cases n with
    | zero => cases f2 <;> rfl
    | succ m =>
      cases f2 with
      | zero => omega
      | succ g =>
        simp only [binDigitsLSB.go, Nat.succ_ne_zero, if_false]
        rw [ih g _ (by omega) (by omega)]

theorem binDigitsLSB_zero : binDigitsLSB 0 = [] := rfl

theorem binDigitsLSB_pos {n : Nat} (h : n ≠ 0) :
    binDigitsLSB n = decide (n % 2 = 1) :: binDigitsLSB (n / 2) := by
  cases n with
  | zero => exact absurd rfl h
  | succ m =>
    unfold binDigitsLSB
    simp only [binDigitsLSB.go, Nat.succ_ne_zero, if_false]
    rw [binDigits_go_eq m ((m + 1) / 2) _ (by omega) (Nat.le_refl _)]

/-! ## The length-dependent loops -/

theorem sliceTo_of_le {b : Bytes} {n : Nat} (h : n ≤ b.length) : sliceTo b n = some (b.take n) := by
  simp [sliceTo, h]

theorem md5Fill_spec_fuel (d : Bytes) (hd : d.length = 16) (fuel n : Nat) (h : n < fuel) :
    md5Fill d fuel n = some (cycleTake d n) := by
  induction fuel generalizing n with
  | zero => omega
  | succ f ih =>
    unfold md5Fill
    by_cases h0 : n = 0
    · subst h0; simp [cycleTake_zero]
    · by_cases h16 : n > 16
      · rw [if_neg h0, if_pos h16, ih _ (by omega), cycleTake_sub_length (n := n) (by omega), hd]; rfl
      · rw [if_neg h0, if_neg h16, sliceTo_of_le (by omega), cycleTake_of_le (by omega)]

theorem dup_fuel_ok (n size : Nat) (hs : 0 < size) : n < (n + 1 + 1) * size := by
  have : n + 1 + 1 ≤ (n + 1 + 1) * size := Nat.le_mul_of_pos_right _ hs
  omega

theorem duplicate_spec_fuel (size : Nat) (b : Bytes) (hs : 0 < size) (hb : b.length = size) (fuel n : Nat)
    (h : n < (fuel + 1) * size) : duplicate size b fuel n = some (cycleTake b n) := by
  induction fuel generalizing n with
  | zero =>
    unfold duplicate
    rw [sliceTo_of_le (by omega), cycleTake_of_le (by omega)]
  | succ f ih =>
    unfold duplicate
    by_cases hge : n ≥ size
    · have h' : n - size < (f + 1) * size := by
        rw [Nat.succ_mul] at h; omega
      rw [if_pos ⟨hge, hs⟩, sliceTo_of_le (by omega), ih _ h', cycleTake_sub_length (n := n) (by omega), hb,
        ← hb, List.take_length]
      rfl
    · rw [if_neg (by omega), sliceTo_of_le (by omega), cycleTake_of_le (by omega)]

theorem shaFill_spec_fuel (size : Nat) (db : Bytes) (hs : 0 < size) (hb : db.length = size) (fuel n : Nat)
    (h : n ≤ (fuel + 1) * size) : shaFill size db fuel n = some (cycleTake db n) := by
  induction fuel generalizing n with
  | zero =>
    unfold shaFill
    rw [sliceTo_of_le (by omega), cycleTake_of_le (by omega)]
  | succ f ih =>
    unfold shaFill
    by_cases hgt : n > size
    · have h' : n - size ≤ (f + 1) * size := by
        rw [Nat.succ_mul] at h; omega
      rw [if_pos ⟨hgt, hs⟩, ih _ h', cycleTake_sub_length (n := n) (by omega), hb]
      rfl
    · rw [if_neg (by omega), sliceTo_of_le (by omega), cycleTake_of_le (by omega)]

theorem shaBits_spec_fuel (db pw : Bytes) (fuel n : Nat) (h : n < fuel) :
    shaBits db pw fuel n = (binDigitsLSB n).flatMap fun bit => if bit then db else pw := by
  induction fuel generalizing n with
  | zero => omega
  | succ f ih =>
    unfold shaBits
    by_cases h0 : n = 0
    · subst h0; simp [binDigitsLSB_zero]
    · rw [if_neg h0, binDigitsLSB_pos h0, ih _ (by omega)]
      by_cases hb : n % 2 = 1 <;> simp [hb]

theorem md5Bits_spec_fuel (pw : Bytes) (fuel n : Nat) (h : n < fuel) (hpw : n ≠ 0 → pw ≠ []) :
    md5Bits pw fuel n = some ((binDigitsLSB n).flatMap fun bit => if bit then [0] else pw.take 1) := by
  induction fuel generalizing n with
  | zero => omega
  | succ f ih =>
    unfold md5Bits
    by_cases h0 : n = 0
    · subst h0; simp [binDigitsLSB_zero]
    · have hne : pw ≠ [] := hpw h0
      have hl : 1 ≤ pw.length := by
        cases pw with
        | nil => exact absurd rfl hne
        | cons => simp
      rw [if_neg h0, binDigitsLSB_pos h0, ih _ (by omega) (fun _ => hne)]
      by_cases hb : n % 2 = 1 <;> simp [hb, sliceTo_of_le hl]


/-! ## `permute` -/

theorem permute_nil (b : Bytes) : permute b [] = some [] := rfl

theorem permute_cons (b : Bytes) (j : Nat) (t : List Nat) :
    permute b (j :: t) = (b[j]?).bind fun x => (permute b t).bind fun r => some (x :: r) := by
  simp only [permute, List.mapM_cons]
  rfl

theorem permute_total (b : Bytes) (t : List Nat) (h : ∀ j ∈ t, j < b.length) :
    ∃ k, permute b t = some k ∧ k.length = t.length := by
  induction t with
  | nil => exact ⟨[], rfl, rfl⟩
  | cons j t ih =>
    obtain ⟨k, hk, hl⟩ := ih (fun x hx => h x (List.mem_cons_of_mem _ hx))
    have hj : j < b.length := h j (List.mem_cons_self ..)
    refine ⟨b[j] :: k, ?_, by simp [hl]⟩
    rw [permute_cons, hk, List.getElem?_eq_getElem hj]
    rfl

/-- Equal transpositions agree on every index the table mentions. -/
theorem permute_eq_getElem? (b b' : Bytes) (t : List Nat) (k : Bytes)
    (h : permute b t = some k) (h' : permute b' t = some k) : ∀ j ∈ t, b[j]? = b'[j]? := by
  induction t generalizing k with
  | nil => intro j hj; cases hj
  | cons i t ih =>
    rw [permute_cons] at h h'
    cases hb : b[i]? with
    | none => rw [hb] at h; cases h
    | some x =>
      cases hb' : b'[i]? with
      | none => rw [hb'] at h'; cases h'
      | some x' =>
        cases ht : permute b t with
        | none => rw [hb, ht] at h; cases h
        | some r =>
          cases ht' : permute b' t with
          | none => rw [hb', ht'] at h'; cases h'
          | some r' =>
            rw [hb, ht] at h; rw [hb', ht'] at h'
            simp only [Option.bind_some, Option.some.injEq] at h h'
            have hxr : x :: r = x' :: r' := h.trans h'.symm
            injection hxr with hx hr
            subst hx; subst hr
            intro j hj
            rcases List.mem_cons.1 hj with rfl | hj
            · rw [hb, hb']
            · exact ih r ht ht' j hj

/-! ### Pigeonhole: a duplicate-free table of `n` indices below `n` mentions every index -/

theorem nodup_lt_length_le (n : Nat) (l : List Nat) (hn : l.Nodup) (hlt : ∀ x ∈ l, x < n) : l.length ≤ n := by
  induction n generalizing l with
  | zero =>
    cases l with
    | nil => simp
    | cons a _ => exact absurd (hlt a (List.mem_cons_self ..)) (Nat.not_lt_zero _)
  | succ n ih =>
    by_cases hm : n ∈ l
    · have h1 : (l.erase n).length ≤ n := by
        apply ih _ (hn.erase n)
        intro x hx
        have := (hn.mem_erase_iff).1 hx
        have := hlt x this.2
        omega
      rw [List.length_erase_of_mem hm] at h1
      omega
    · have : l.length ≤ n := by
        apply ih _ hn
        intro x hx
        have h1 := hlt x hx
        have h2 : x ≠ n := fun e => hm (e ▸ hx)
        omega
      omega

theorem nodup_full (n : Nat) (l : List Nat) (hn : l.Nodup) (hlen : l.length = n) (hlt : ∀ x ∈ l, x < n) :
    ∀ i, i < n → i ∈ l := by
  intro i hi
  by_cases hni : i ∈ l
  · exact hni
  exfalso
  have h := nodup_lt_length_le n (i :: l) (List.nodup_cons.2 ⟨hni, hn⟩)
    (by intro x hx; rcases List.mem_cons.1 hx with rfl | hx
        · exact hi
        · exact hlt x hx)
  simp at h; omega

/-- Transposition by a table that mentions every index is injective on blocks of that size. -/
theorem permute_injective (n : Nat) (t : List Nat) (hfull : ∀ i, i < n → i ∈ t) (b b' k : Bytes)
    (hb : b.length = n) (hb' : b'.length = n)
    (h : permute b t = some k) (h' : permute b' t = some k) : b = b' := by
  apply List.ext_getElem?
  intro i
  by_cases hi : i < n
  · exact permute_eq_getElem? b b' t k h h' i (hfull i hi)
  · rw [List.getElem?_eq_none (by omega), List.getElem?_eq_none (by omega)]


/-! ## Totality -/

theorem md5Rounds_length (H : Bytes → Bytes) (hlen : ∀ x, (H x).length = 16) (pw salt d : Bytes)
    (hd : d.length = 16) (n : Nat) : (md5Rounds H pw salt n d).length = 16 := by
  cases n with
  | zero => exact hd
  | succ n => exact hlen _

/-- The two length-dependent steps of md5-crypt never panic. -/
theorem md5crypt_unfold (H : Bytes → Bytes) (hlen : ∀ x, (H x).length = 16) (perm : List Nat) (pw salt pfx : Bytes) :
    md5cryptEncrypt H perm pw salt pfx =
      permute (md5Rounds H pw salt 1000
        (H (pw ++ pfx ++ salt ++ cycleTake (H (pw ++ salt ++ pw)) pw.length ++
          (binDigitsLSB pw.length).flatMap fun bit => if bit then [0] else pw.take 1))) perm := by
  have h1 := md5Fill_spec_fuel (H (pw ++ salt ++ pw)) (hlen _) (pw.length + 1) pw.length (Nat.lt_add_one _)
  have h2 := md5Bits_spec_fuel pw (pw.length + 1) pw.length (Nat.lt_add_one _)
    (by intro h e; subst e; exact h rfl)
  simp only [md5cryptEncrypt, h1, h2]
  rfl

theorem md5crypt_total' (H : Bytes → Bytes) (perm : List Nat) (pw salt pfx : Bytes)
    (hlen : ∀ x, (H x).length = 16) (hperm : ∀ j ∈ perm, j < 16) :
    ∃ k, md5cryptEncrypt H perm pw salt pfx = some k ∧ k.length = perm.length := by
  rw [md5crypt_unfold H hlen]
  apply permute_total
  rw [md5Rounds_length H hlen _ _ _ (hlen _)]
  exact hperm


/-! ## Model = reference description -/

theorem md5Rounds_eq_stretch (H : Bytes → Bytes) (pw salt d : Bytes) (n : Nat) :
    md5Rounds H pw salt n d = stretch H pw salt d n := by
  induction n with
  | zero => rfl
  | succ n ih => simp only [md5Rounds, md5Round, stretch, roundInput, onlyIf, ih]

theorem md5crypt_eq_spec' (H : Bytes → Bytes) (hlen : ∀ x, (H x).length = 16) (perm : List Nat) (pw salt pfx : Bytes) :
    md5cryptEncrypt H perm pw salt pfx = permute (md5cryptSpec H pw salt pfx) perm := by
  rw [md5crypt_unfold H hlen, md5Rounds_eq_stretch]
  rfl

theorem repeatBytes_eq_times (b : Bytes) (n : Nat) : repeatBytes b n = times n b := by
  induction n with
  | zero => rfl
  | succ n ih => simp [repeatBytes, times, List.replicate_succ, ih]

theorem headD_eq (b : Bytes) : b.headD 0 = b[0]?.getD 0 := by cases b <;> rfl

theorem shaRounds_eq_stretch (H : Bytes → Bytes) (pwLen : Nat) (p s d : Bytes) (hp : p.length = pwLen) (n : Nat) :
    shaRounds H pwLen p s n d = some (stretch H p s d n) := by
  induction n with
  | zero => rfl
  | succ n ih =>
    have : sliceTo p pwLen = some p := by rw [sliceTo_of_le (by omega), ← hp, List.take_length]
    simp only [shaRounds, ih, shaRound, this, stretch, roundInput, onlyIf]
    rfl

theorem sha2crypt_eq_spec' (H : Bytes → Bytes) (size : Nat) (hs : 0 < size) (hlen : ∀ x, (H x).length = size)
    (perm : List Nat) (pw salt : Bytes) (rounds : Nat) :
    sha2cryptEncrypt H size perm pw salt rounds = permute (shacryptSpec H size pw salt rounds) perm := by
  have h1 := shaFill_spec_fuel size (H (pw ++ salt ++ pw)) hs (hlen _) (pw.length + 1) pw.length
    (Nat.le_of_lt (dup_fuel_ok _ _ hs))
  have h2 := shaBits_spec_fuel (H (pw ++ salt ++ pw)) pw (pw.length + 1) pw.length (Nat.lt_add_one _)
  have h3 := duplicate_spec_fuel size (H (times pw.length pw)) hs (hlen _) (pw.length + 1) pw.length
    (dup_fuel_ok _ _ hs)
  have h4 := fun x => duplicate_spec_fuel size (H x) hs (hlen _) (salt.length + 1) salt.length
    (dup_fuel_ok _ _ hs)
  have h5 := fun s d => shaRounds_eq_stretch H pw.length (cycleTake (H (times pw.length pw)) pw.length) s d
    (cycleTake_length _ _) rounds
  simp only [sha2cryptEncrypt, repeatBytes_eq_times, headD_eq, h1, h2, h3, h4, h5, Option.bind_eq_bind,
    Option.bind_some]
  rfl

theorem stretch_length (H : Bytes → Bytes) (size : Nat) (hlen : ∀ x, (H x).length = size) (P S A : Bytes)
    (hA : A.length = size) (n : Nat) : (stretch H P S A n).length = size := by
  cases n with
  | zero => exact hA
  | succ n => exact hlen _

theorem sha2crypt_total' (H : Bytes → Bytes) (size : Nat) (perm : List Nat) (pw salt : Bytes) (rounds : Nat)
    (hs : 0 < size) (hlen : ∀ x, (H x).length = size) (hperm : ∀ j ∈ perm, j < size) :
    ∃ k, sha2cryptEncrypt H size perm pw salt rounds = some k ∧ k.length = perm.length := by
  rw [sha2crypt_eq_spec' H size hs hlen]
  apply permute_total
  rw [shacryptSpec, stretch_length H size hlen _ _ _ (by rw [shaA]; exact hlen _)]
  exact hperm


/-! ## Sun MD5 / SHA1-crypt totality -/

theorem mapM_option_total {α β : Type} (f : α → Option β) (l : List α) (h : ∀ x ∈ l, ∃ y, f x = some y) :
    ∃ ys, l.mapM f = some ys := by
  induction l with
  | nil => exact ⟨[], rfl⟩
  | cons a l ih =>
    obtain ⟨ys, hys⟩ := ih (fun x hx => h x (List.mem_cons_of_mem _ hx))
    obtain ⟨y, hy⟩ := h a (List.mem_cons_self ..)
    refine ⟨y :: ys, ?_⟩
    rw [List.mapM_cons, hy, hys]; rfl

theorem forIn_option_total {α σ : Type} (l : List α) (f : α → σ → Option (ForInStep σ))
    (h : ∀ x s, ∃ s', f x s = some (ForInStep.yield s')) (init : σ) : ∃ r, forIn l init f = some r := by
  induction l generalizing init with
  | nil => exact ⟨init, rfl⟩
  | cons a l ih =>
    obtain ⟨s', hs'⟩ := h a init
    obtain ⟨r, hr⟩ := ih s'
    refine ⟨r, ?_⟩
    rw [List.forIn_cons, hs']
    exact hr

theorem sunBit_total (digest : Bytes) (hd : digest.length = 16) (off : Nat) : ∃ v, sunBit digest off = some v := by
  have h : off % 128 / 8 < digest.length := by omega
  simp only [sunBit, List.getElem?_eq_getElem h]
  exact ⟨_, rfl⟩

theorem sunCoin_total (digest : Bytes) (hd : digest.length = 16) (round : Nat) :
    ∃ c, sunCoin digest round = some c := by
  unfold sunCoin
  have hmap := mapM_option_total (fun j => do
      let dj ← digest[j]?
      let doff ← digest[(j + 3) % 16]?
      let ind4 := (dj.toNat >>> (doff.toNat % 5)) &&& 0x0F
      let sh7 := (doff.toNat >>> (dj.toNat % 8)) &&& 0x01
      let di ← digest[ind4]?
      pure ((di.toNat >>> sh7) &&& 0x7F)) (List.range 16) (by
    intro j hj
    have hj : j < digest.length := by rw [hd]; exact List.mem_range.1 hj
    have hj3 : (j + 3) % 16 < digest.length := by omega
    have h4 : (digest[j].toNat >>> (digest[(j + 3) % 16].toNat % 5)) &&& 0x0F < digest.length := by
      rw [hd]; exact Nat.lt_of_le_of_lt Nat.and_le_right (by decide)
    simp only [List.getElem?_eq_getElem hj, List.getElem?_eq_getElem hj3, Option.bind_eq_bind, Option.bind_some,
      List.getElem?_eq_getElem h4]
    exact ⟨_, rfl⟩)
  obtain ⟨ind7, h7⟩ := hmap
  rw [h7]
  simp only [Option.bind_eq_bind, Option.bind_some]
  obtain ⟨st, hst⟩ := forIn_option_total (List.range 8) (fun j (__s : Nat × Nat) =>
      (sunBit digest (ind7.getD j 0)).bind fun a =>
        (sunBit digest (ind7.getD (j + 8) 0)).bind fun b =>
          pure (ForInStep.yield (__s.fst ||| a <<< j, __s.snd ||| b <<< j))) (by
    intro j s
    obtain ⟨a, ha⟩ := sunBit_total digest hd (ind7.getD j 0)
    obtain ⟨b, hb⟩ := sunBit_total digest hd (ind7.getD (j + 8) 0)
    rw [ha, hb]
    exact ⟨_, rfl⟩) (0, 0)
  rw [hst]
  obtain ⟨ba, hba⟩ := sunBit_total digest hd round
  obtain ⟨bb, hbb⟩ := sunBit_total digest hd ((round + 64) % 4294967296)
  obtain ⟨x, hx⟩ := sunBit_total digest hd (st.fst >>> ba &&& 127)
  obtain ⟨y, hy⟩ := sunBit_total digest hd (st.snd >>> bb &&& 127)
  simp only [Option.bind_some, hba, hbb, hx, hy]
  exact ⟨_, rfl⟩

theorem sunRounds_succ (H : Bytes → Bytes) (phrase d : Bytes) (n : Nat) :
    sunRounds H phrase (n + 1) d = (sunRounds H phrase n d).bind fun prev => (sunCoin prev n).bind fun coin =>
      some (H (prev ++ (if coin then phrase else []) ++ Strconv.formatUint n 10)) := rfl

theorem sunRounds_total (H : Bytes → Bytes) (hlen : ∀ x, (H x).length = 16) (phrase d : Bytes) (hd : d.length = 16)
    (n : Nat) : ∃ r, sunRounds H phrase n d = some r ∧ r.length = 16 := by
  induction n with
  | zero => exact ⟨d, rfl, hd⟩
  | succ n ih =>
    obtain ⟨prev, hp, hpl⟩ := ih
    obtain ⟨c, hc⟩ := sunCoin_total prev hpl n
    refine ⟨H (prev ++ (if c then phrase else []) ++ Strconv.formatUint n 10), ?_, hlen _⟩
    rw [sunRounds_succ, hp, Option.bind_some, hc, Option.bind_some]

theorem sunmd5_total' (H : Bytes → Bytes) (phrase : Bytes) (perm : List Nat) (pw saltString : Bytes) (rounds : Nat)
    (hlen : ∀ x, (H x).length = 16) (hperm : ∀ j ∈ perm, j < 16) :
    ∃ k, sunmd5Derive H phrase perm pw saltString rounds = some k ∧ k.length = perm.length := by
  obtain ⟨last, hl, hll⟩ := sunRounds_total H hlen phrase (H (pw ++ saltString)) (hlen _) ((rounds + 4096) % 4294967296)
  obtain ⟨k, hk, hkl⟩ := permute_total last perm (by rw [hll]; exact hperm)
  refine ⟨k, ?_, hkl⟩
  simp only [sunmd5Derive, hl, Option.bind_eq_bind, Option.bind_some, hk]

theorem sha1Iter_length (HM : Bytes → Bytes → Bytes) (hlen : ∀ k m, (HM k m).length = 20) (pw b : Bytes)
    (hb : b.length = 20) (n : Nat) : (sha1Iter HM pw n b).length = 20 := by
  cases n with
  | zero => exact hb
  | succ n => exact hlen _ _

theorem sha1_total' (HM : Bytes → Bytes → Bytes) (perm : List Nat) (pfx pw salt : Bytes) (rounds : Nat)
    (hlen : ∀ k m, (HM k m).length = 20) (hperm : ∀ j ∈ perm, j < 20) :
    ∃ k, sha1Derive HM perm pfx pw salt rounds = some k ∧ k.length = perm.length := by
  unfold sha1Derive
  apply permute_total
  rw [sha1Iter_length HM hlen _ _ (hlen _ _)]
  exact hperm


/-! ## Absorption: walking the hash chain backwards -/

/-- Equal digests come from equal inputs, or exhibit a collision. -/
theorem hash_eq_cases (H : Bytes → Bytes) {x y : Bytes} (h : H x = H y) : x = y ∨ Collision H := by
  by_cases hxy : x = y
  · exact Or.inl hxy
  · exact Or.inr ⟨x, y, hxy, h⟩

theorem append4_inj {a b c d a' b' c' d' : Bytes} (h : a ++ b ++ c ++ d = a' ++ b' ++ c' ++ d')
    (ha : a.length = a'.length) (hb : b.length = b'.length) (hc : c.length = c'.length) :
    a = a' ∧ b = b' ∧ c = c' ∧ d = d' := by
  simp only [List.append_assoc] at h
  obtain ⟨h1, h⟩ := List.append_inj h ha
  obtain ⟨h2, h⟩ := List.append_inj h hb
  obtain ⟨h3, h4⟩ := List.append_inj h hc
  exact ⟨h1, h2, h3, h4⟩

theorem onlyIf_length (c : Prop) [Decidable c] (x : Bytes) : (onlyIf c x).length = if c then x.length else 0 := by
  unfold onlyIf; split <;> rfl

/-- A round input determines the running digest and the password sequence (the round input always
contains `P` at least once, so its length fixes `len P`). -/
theorem roundInput_inj {P S C P' S' C' : Bytes} (i : Nat) (hC : C.length = C'.length) (hS : S.length = S'.length)
    (h : roundInput P S i C = roundInput P' S' i C') : P = P' ∧ C = C' := by
  have hl := congrArg List.length h
  simp only [roundInput, List.length_append, onlyIf_length] at hl
  have hP : P.length = P'.length := by
    by_cases h2 : i % 2 = 1 <;> by_cases h3 : i % 3 = 0 <;> by_cases h7 : i % 7 = 0 <;>
      simp only [h2, h3, h7, if_true, if_false, ne_eq, not_true_eq_false, not_false_eq_true] at hl <;> omega
  have hb : (onlyIf (i % 3 ≠ 0) S).length = (onlyIf (i % 3 ≠ 0) S').length := by
    simp only [onlyIf_length, hS]
  have hc : (onlyIf (i % 7 ≠ 0) P).length = (onlyIf (i % 7 ≠ 0) P').length := by
    simp only [onlyIf_length, hP]
  unfold roundInput at h
  by_cases h2 : i % 2 = 1
  · simp only [h2, if_true] at h
    obtain ⟨h1, _, _, h4⟩ := append4_inj h hP hb hc
    exact ⟨h1, h4⟩
  · simp only [h2, if_false] at h
    obtain ⟨h1, _, _, h4⟩ := append4_inj h hC hb hc
    exact ⟨h4, h1⟩

theorem RoundCollision.collision {H : Bytes → Bytes} {P S A P' S' A' : Bytes} {n : Nat}
    (h : RoundCollision H P S A P' S' A' n) : Collision H := by
  obtain ⟨i, _, hne, heq⟩ := h
  exact ⟨_, _, hne, heq⟩

/-- Walking `n > 0` rounds back: equal final digests force equal `P` and equal starting digests,
unless one of the `n` pairs of corresponding round inputs is a collision. -/
theorem stretch_inj (H : Bytes → Bytes) (size : Nat) (hlen : ∀ x, (H x).length = size)
    {P S A P' S' A' : Bytes} (hA : A.length = size) (hA' : A'.length = size) (hS : S.length = S'.length)
    (n : Nat) (hn : 0 < n) (h : stretch H P S A n = stretch H P' S' A' n) :
    (P = P' ∧ A = A') ∨ RoundCollision H P S A P' S' A' n := by
  induction n with
  | zero => omega
  | succ n ih =>
    by_cases hin : roundInput P S n (stretch H P S A n) = roundInput P' S' n (stretch H P' S' A' n)
    · have hC : (stretch H P S A n).length = (stretch H P' S' A' n).length := by
        rw [stretch_length H size hlen _ _ _ hA, stretch_length H size hlen _ _ _ hA']
      obtain ⟨hP, hCeq⟩ := roundInput_inj n hC hS hin
      cases n with
      | zero => exact Or.inl ⟨hP, hCeq⟩
      | succ m =>
        rcases ih (Nat.succ_pos _) hCeq with h1 | ⟨i, hi, hc⟩
        · exact Or.inl h1
        · exact Or.inr ⟨i, Nat.lt_succ_of_lt hi, hc⟩
    · exact Or.inr ⟨n, Nat.lt_succ_self _, hin, h⟩

/-- Two transposed blocks that agree were equal blocks. -/
theorem permute_eq_imp (n : Nat) (t : List Nat) (hfull : ∀ i, i < n → i ∈ t) (hlt : ∀ j ∈ t, j < n) (b b' : Bytes)
    (hb : b.length = n) (hb' : b'.length = n) (h : permute b t = permute b' t) : b = b' := by
  obtain ⟨k, hk, _⟩ := permute_total b t (by rw [hb]; exact hlt)
  exact permute_injective n t hfull b b' k hb hb' hk (h ▸ hk)

/-! ### md5-crypt -/

theorem md5Intermediate_length (H : Bytes → Bytes) (hlen : ∀ x, (H x).length = 16) (pw salt pfx : Bytes) :
    (md5Intermediate H pw salt pfx).length = 16 := hlen _

theorem md5crypt_absorbs_located' (H : Bytes → Bytes) (hlen : ∀ x, (H x).length = 16) (perm : List Nat)
    (hfull : ∀ i, i < 16 → i ∈ perm) (hlt : ∀ j ∈ perm, j < 16) (pw pw' salt pfx : Bytes)
    (h : md5cryptEncrypt H perm pw salt pfx = md5cryptEncrypt H perm pw' salt pfx) :
    pw = pw' ∨ RoundCollision H pw salt (md5Intermediate H pw salt pfx) pw' salt (md5Intermediate H pw' salt pfx) 1000 := by
  rw [md5crypt_eq_spec' H hlen, md5crypt_eq_spec' H hlen] at h
  have hA := md5Intermediate_length H hlen pw salt pfx
  have hA' := md5Intermediate_length H hlen pw' salt pfx
  have heq := permute_eq_imp 16 perm hfull hlt _ _
    (stretch_length H 16 hlen pw salt _ hA 1000) (stretch_length H 16 hlen pw' salt _ hA' 1000) h
  rcases stretch_inj H 16 hlen hA hA' rfl 1000 (by decide) heq with ⟨hp, _⟩ | hc
  · exact Or.inl hp
  · exact Or.inr hc

/-! ### SHA-crypt -/

theorem sha2crypt_absorbs_located' (H : Bytes → Bytes) (size : Nat) (hs : 0 < size) (hlen : ∀ x, (H x).length = size)
    (perm : List Nat) (hfull : ∀ i, i < size → i ∈ perm) (hlt : ∀ j ∈ perm, j < size) (pw pw' salt : Bytes)
    (rounds : Nat) (hr : 0 < rounds)
    (h : sha2cryptEncrypt H size perm pw salt rounds = sha2cryptEncrypt H size perm pw' salt rounds) :
    pw = pw' ∨
    RoundCollision H (shaP H pw) (shaS H pw salt) (shaA H pw salt) (shaP H pw') (shaS H pw' salt) (shaA H pw' salt) rounds ∨
    (shaAInput H pw salt ≠ shaAInput H pw' salt ∧ H (shaAInput H pw salt) = H (shaAInput H pw' salt)) := by
  rw [sha2crypt_eq_spec' H size hs hlen, sha2crypt_eq_spec' H size hs hlen] at h
  have hA : (shaA H pw salt).length = size := hlen _
  have hA' : (shaA H pw' salt).length = size := hlen _
  have heq := permute_eq_imp size perm hfull hlt _ _
    (stretch_length H size hlen _ _ _ hA rounds) (stretch_length H size hlen _ _ _ hA' rounds) h
  have hS : (shaS H pw salt).length = (shaS H pw' salt).length := by
    simp only [shaS, cycleTake_length]
  rcases stretch_inj H size hlen hA hA' hS rounds hr heq with ⟨hP, hAA⟩ | hc
  · have hl : pw.length = pw'.length := by
      have := congrArg List.length hP
      simpa only [shaP, cycleTake_length] using this
    by_cases hin : shaAInput H pw salt = shaAInput H pw' salt
    · left
      unfold shaAInput at hin
      simp only [List.append_assoc] at hin
      exact (List.append_inj hin hl).1
    · exact Or.inr (Or.inr ⟨hin, hAA⟩)
  · exact Or.inr (Or.inl hc)

/-! ### Sun MD5 -/

theorem sunRounds_inj (H : Bytes → Bytes) (hlen : ∀ x, (H x).length = 16) (phrase d d' : Bytes)
    (hd : d.length = 16) (hd' : d'.length = 16) (n : Nat) (r : Bytes)
    (h : sunRounds H phrase n d = some r) (h' : sunRounds H phrase n d' = some r) : d = d' ∨ Collision H := by
  induction n generalizing r with
  | zero =>
    simp only [sunRounds, Option.some.injEq] at h h'
    exact Or.inl (h.trans h'.symm)
  | succ n ih =>
    obtain ⟨prev, hp, hpl⟩ := sunRounds_total H hlen phrase d hd n
    obtain ⟨prev', hp', hpl'⟩ := sunRounds_total H hlen phrase d' hd' n
    obtain ⟨c, hc⟩ := sunCoin_total prev hpl n
    obtain ⟨c', hc'⟩ := sunCoin_total prev' hpl' n
    rw [sunRounds_succ, hp, Option.bind_some, hc, Option.bind_some, Option.some.injEq] at h
    rw [sunRounds_succ, hp', Option.bind_some, hc', Option.bind_some, Option.some.injEq] at h'
    rcases hash_eq_cases H (h.trans h'.symm) with hin | hcol
    · simp only [List.append_assoc] at hin
      have hprev : prev = prev' := (List.append_inj hin (hpl.trans hpl'.symm)).1
      subst hprev
      exact ih prev hp hp'
    · exact Or.inr hcol

theorem sunmd5_absorbs' (H : Bytes → Bytes) (hlen : ∀ x, (H x).length = 16) (phrase : Bytes) (perm : List Nat)
    (hfull : ∀ i, i < 16 → i ∈ perm) (hlt : ∀ j ∈ perm, j < 16) (pw pw' saltString : Bytes) (rounds : Nat)
    (h : sunmd5Derive H phrase perm pw saltString rounds = sunmd5Derive H phrase perm pw' saltString rounds) :
    pw = pw' ∨ Collision H := by
  obtain ⟨last, hl, hll⟩ := sunRounds_total H hlen phrase (H (pw ++ saltString)) (hlen _) ((rounds + 4096) % 4294967296)
  obtain ⟨last', hl', hll'⟩ := sunRounds_total H hlen phrase (H (pw' ++ saltString)) (hlen _) ((rounds + 4096) % 4294967296)
  simp only [sunmd5Derive, hl, hl', Option.bind_eq_bind, Option.bind_some] at h
  have heq := permute_eq_imp 16 perm hfull hlt last last' hll hll' h
  subst heq
  rcases sunRounds_inj H hlen phrase _ _ (hlen _) (hlen _) _ last hl hl' with h0 | hcol
  · rcases hash_eq_cases H h0 with hin | hcol
    · exact Or.inl (List.append_cancel_right hin)
    · exact Or.inr hcol
  · exact Or.inr hcol

/-! ### SHA1-crypt (HMAC) -/

theorem sha1_final_form (HM : Bytes → Bytes → Bytes) (pw m0 : Bytes) (n : Nat) :
    ∃ m, sha1Iter HM pw n (HM pw m0) = HM pw m := by
  cases n with
  | zero => exact ⟨m0, rfl⟩
  | succ n => exact ⟨_, rfl⟩

theorem sha1_tags_eq (HM : Bytes → Bytes → Bytes) (hlen : ∀ k m, (HM k m).length = 20) (perm : List Nat)
    (hfull : ∀ i, i < 20 → i ∈ perm) (hlt : ∀ j ∈ perm, j < 20) (pfx pw pw' salt : Bytes) (rounds : Nat)
    (h : sha1Derive HM perm pfx pw salt rounds = sha1Derive HM perm pfx pw' salt rounds) :
    ∃ m m', HM pw m = HM pw' m' := by
  unfold sha1Derive at h
  have heq := permute_eq_imp 20 perm hfull hlt _ _
    (sha1Iter_length HM hlen pw _ (hlen _ _) _) (sha1Iter_length HM hlen pw' _ (hlen _ _) _) h
  obtain ⟨m, hm⟩ := sha1_final_form HM pw (salt ++ pfx ++ Strconv.formatUint rounds 10) (rounds - 1)
  obtain ⟨m', hm'⟩ := sha1_final_form HM pw' (salt ++ pfx ++ Strconv.formatUint rounds 10) (rounds - 1)
  exact ⟨m, m', by rw [← hm, ← hm', heq]⟩

/-- Keys that HMAC cannot tell apart give the same SHA1-crypt key: this is why full absorption
fails for the real HMAC (`k` and `k ++ [0]` are such a pair). -/
theorem sha1_key_equiv' (HM : Bytes → Bytes → Bytes) (perm : List Nat) (pfx k k' salt : Bytes) (rounds : Nat)
    (hk : ∀ m, HM k m = HM k' m) :
    sha1Derive HM perm pfx k salt rounds = sha1Derive HM perm pfx k' salt rounds := by
  have hiter : ∀ n b, sha1Iter HM k n b = sha1Iter HM k' n b := by
    intro n b
    induction n with
    | zero => rfl
    | succ n ih => simp only [sha1Iter, ih, hk]
  simp only [sha1Derive, hiter, hk]

end GoCrypt.Kdf
