import GoCrypt.Spec.CryptSpecs2
import GoCrypt.Model.Kdf.Misc

/-!
# NT hash: Go's UTF-8 → UTF-16LE transcoding = the reference stated through scalar values

`goStep` is the model's per-position decision restated in arithmetic; `complete1` ("the decoder
inverts the encoder on every scalar value") and `sound1` ("whatever the decoder accepts is the
encoding of a scalar value") connect it to `utf8Prefix`.
-/

namespace GoCrypt.C03bProofs
open GoCrypt.Kdf GoCrypt.CryptSpec2 GoCrypt

/-! ## bit operations as arithmetic -/

theorem or_low (x y i : Nat) (h : y < 2 ^ i) : x <<< i ||| y = x * 2 ^ i + y := by
  rw [← Nat.shiftLeft_add_eq_or_of_lt h, Nat.shiftLeft_eq]

theorem and31 (x : Nat) : x &&& 31 = x % 32 := Nat.and_two_pow_sub_one_eq_mod x 5
theorem and63 (x : Nat) : x &&& 63 = x % 64 := Nat.and_two_pow_sub_one_eq_mod x 6
theorem and15' (x : Nat) : x &&& 15 = x % 16 := Nat.and_two_pow_sub_one_eq_mod x 4
theorem and7 (x : Nat) : x &&& 7 = x % 8 := Nat.and_two_pow_sub_one_eq_mod x 3

theorem bits2 (a b : Nat) : (a &&& 31) <<< 6 ||| b &&& 63 = a % 32 * 64 + b % 64 := by
  rw [and31, and63, or_low _ _ 6 (Nat.mod_lt _ (by decide))]

theorem bits3 (a b c : Nat) : (a &&& 15) <<< 12 ||| (b &&& 63) <<< 6 ||| c &&& 63 = a % 16 * 4096 + b % 64 * 64 + c % 64 := by
  rw [and15', and63, and63]
  have h1 : (a % 16) <<< 12 ||| (b % 64) <<< 6 = (a % 16 * 64 + b % 64) <<< 6 := by
    have : (b % 64) <<< 6 < 2 ^ 12 := by rw [Nat.shiftLeft_eq]; omega
    rw [or_low _ _ 12 this, Nat.shiftLeft_eq, Nat.shiftLeft_eq]; omega
  rw [h1, or_low _ _ 6 (Nat.mod_lt _ (by decide))]; omega

theorem bits4 (a b c d : Nat) : (a &&& 7) <<< 18 ||| (b &&& 63) <<< 12 ||| (c &&& 63) <<< 6 ||| d &&& 63 =
    a % 8 * 262144 + b % 64 * 4096 + c % 64 * 64 + d % 64 := by
  rw [and7, and63, and63, and63]
  have h1 : (a % 8) <<< 18 ||| (b % 64) <<< 12 = (a % 8 * 64 + b % 64) <<< 12 := by
    have : (b % 64) <<< 12 < 2 ^ 18 := by rw [Nat.shiftLeft_eq]; omega
    rw [or_low _ _ 18 this, Nat.shiftLeft_eq, Nat.shiftLeft_eq]; omega
  have h2 : (a % 8 * 64 + b % 64) <<< 12 ||| (c % 64) <<< 6 = ((a % 8 * 64 + b % 64) * 64 + c % 64) <<< 6 := by
    have : (c % 64) <<< 6 < 2 ^ 12 := by rw [Nat.shiftLeft_eq]; omega
    rw [or_low _ _ 12 this, Nat.shiftLeft_eq, Nat.shiftLeft_eq]; omega
  rw [h1, h2, or_low _ _ 6 (Nat.mod_lt _ (by decide))]; omega

/-! ## one decoding step -/


def lo3 (a : Nat) : Nat := if a = 0xE0 then 0xA0 else 0x80
def hi3 (a : Nat) : Nat := if a = 0xED then 0x9F else 0xBF
def lo4 (a : Nat) : Nat := if a = 0xF0 then 0x90 else 0x80
def hi4 (a : Nat) : Nat := if a = 0xF4 then 0x8F else 0xBF

/-- The model's per-position decision, in arithmetic form: value and width of the well-formed
sequence at the head of `s`, if any. -/
def goStep : Bytes → Option (Nat × Nat)
  | [] => none
  | b0 :: rest =>
    let a := b0.toNat
    if a < 0x80 then some (a, 1)
    else if 0xC2 ≤ a ∧ a ≤ 0xDF then
      match rest with
      | b1 :: _ =>
        if 0x80 ≤ b1.toNat ∧ b1.toNat ≤ 0xBF then some (a % 32 * 64 + b1.toNat % 64, 2) else none
      | _ => none
    else if 0xE0 ≤ a ∧ a ≤ 0xEF then
      match rest with
      | b1 :: b2 :: _ =>
        if lo3 a ≤ b1.toNat ∧ b1.toNat ≤ hi3 a ∧
            0x80 ≤ b2.toNat ∧ b2.toNat ≤ 0xBF then
          some (a % 16 * 4096 + b1.toNat % 64 * 64 + b2.toNat % 64, 3)
        else none
      | _ => none
    else if 0xF0 ≤ a ∧ a ≤ 0xF4 then
      match rest with
      | b1 :: b2 :: b3 :: _ =>
        if lo4 a ≤ b1.toNat ∧ b1.toNat ≤ hi4 a ∧
            0x80 ≤ b2.toNat ∧ b2.toNat ≤ 0xBF ∧ 0x80 ≤ b3.toNat ∧ b3.toNat ≤ 0xBF then
          some (a % 8 * 262144 + b1.toNat % 64 * 4096 + b2.toNat % 64 * 64 + b3.toNat % 64, 4)
        else none
      | _ => none
    else none

theorem ofNat_eq_iff (n : Nat) (b : UInt8) (h : n < 256) : UInt8.ofNat n = b ↔ n = b.toNat := by
  constructor
  · intro e; rw [← e, UInt8.toNat_ofNat_of_lt' h]
  · intro e; rw [e, UInt8.ofNat_toNat]


theorem toNat_ofNat_lt (n : Nat) (h : n < 256) : (UInt8.ofNat n).toNat = n := UInt8.toNat_ofNat_of_lt' h

theorem complete1 (c : Nat) (rest : Bytes) (hc : IsScalar c) :
    goStep (utf8Encode c ++ rest) = some (c, (utf8Encode c).length) := by
  unfold IsScalar at hc
  unfold utf8Encode
  by_cases h1 : c < 0x80
  · simp only [if_pos h1, goStep, List.cons_append, List.nil_append, toNat_ofNat_lt c (by omega), List.length_cons, List.length_nil]
  · by_cases h2 : c < 0x800
    · have e0 : (UInt8.ofNat (0xC0 + c / 64)).toNat = 0xC0 + c / 64 := toNat_ofNat_lt _ (by omega)
      have e1 : (UInt8.ofNat (0x80 + c % 64)).toNat = 0x80 + c % 64 := toNat_ofNat_lt _ (by omega)
      simp only [if_neg h1, if_pos h2, goStep, List.cons_append, List.nil_append, e0, e1, List.length_cons, List.length_nil]
      rw [if_neg (by omega), if_pos (by omega), if_pos (by omega)]
      simp only [Option.some.injEq, Prod.mk.injEq, and_true]
      omega
    · by_cases h3 : c < 0x10000
      · have e0 : (UInt8.ofNat (0xE0 + c / 4096)).toNat = 0xE0 + c / 4096 := toNat_ofNat_lt _ (by omega)
        have e1 : (UInt8.ofNat (0x80 + c / 64 % 64)).toNat = 0x80 + c / 64 % 64 := toNat_ofNat_lt _ (by omega)
        have e2 : (UInt8.ofNat (0x80 + c % 64)).toNat = 0x80 + c % 64 := toNat_ofNat_lt _ (by omega)
        simp only [if_neg h1, if_neg h2, if_pos h3, goStep, List.cons_append, List.nil_append, e0, e1, e2, List.length_cons, List.length_nil]
        rw [if_neg (by omega), if_neg (by omega), if_pos (by omega), if_pos (by unfold lo3 hi3; split <;> split <;> omega)]
        simp only [Option.some.injEq, Prod.mk.injEq, and_true]
        omega
      · have e0 : (UInt8.ofNat (0xF0 + c / 262144)).toNat = 0xF0 + c / 262144 := toNat_ofNat_lt _ (by omega)
        have e1 : (UInt8.ofNat (0x80 + c / 4096 % 64)).toNat = 0x80 + c / 4096 % 64 := toNat_ofNat_lt _ (by omega)
        have e2 : (UInt8.ofNat (0x80 + c / 64 % 64)).toNat = 0x80 + c / 64 % 64 := toNat_ofNat_lt _ (by omega)
        have e3 : (UInt8.ofNat (0x80 + c % 64)).toNat = 0x80 + c % 64 := toNat_ofNat_lt _ (by omega)
        simp only [if_neg h1, if_neg h2, if_neg h3, goStep, List.cons_append, List.nil_append, e0, e1, e2, e3, List.length_cons, List.length_nil]
        rw [if_neg (by omega), if_neg (by omega), if_neg (by omega), if_pos (by omega), if_pos (by unfold lo4 hi4; split <;> split <;> omega)]
        simp only [Option.some.injEq, Prod.mk.injEq, and_true]
        omega

theorem sound1 (s : Bytes) (c k : Nat) (h : goStep s = some (c, k)) :
    IsScalar c ∧ utf8Encode c = s.take k ∧ k ≤ s.length ∧ utf8Payload (s.take k) = c ∧ 1 ≤ k ∧ k ≤ 4 := by
  match s with
  | [] => simp [goStep] at h
  | b0 :: rest =>
    have hb0 : b0.toNat < 256 := UInt8.toNat_lt b0
    simp only [goStep] at h
    split at h
    · next h1 =>
      simp only [Option.some.injEq, Prod.mk.injEq] at h; obtain ⟨rfl, rfl⟩ := h
      refine ⟨Or.inl (by omega), ?_, by simp, rfl, by omega, by omega⟩
      simp [utf8Encode, h1, UInt8.ofNat_toNat]
    · next h1 =>
      split at h
      · next h2 =>
        match rest with
        | [] => simp at h
        | b1 :: r =>
          have hb1 : b1.toNat < 256 := UInt8.toNat_lt b1
          simp only at h
          split at h
          · next h3 =>
            simp only [Option.some.injEq, Prod.mk.injEq] at h; obtain ⟨rfl, rfl⟩ := h
            refine ⟨Or.inl (by omega), ?_, by simp, rfl, by omega, by omega⟩
            have e0 : 0xC0 + (b0.toNat % 32 * 64 + b1.toNat % 64) / 64 = b0.toNat := by omega
            have e1 : 0x80 + (b0.toNat % 32 * 64 + b1.toNat % 64) % 64 = b1.toNat := by omega
            unfold utf8Encode
            rw [if_neg (by omega), if_pos (by omega), e0, e1, UInt8.ofNat_toNat, UInt8.ofNat_toNat]
            rfl
          · simp at h
      · next h2 =>
        split at h
        · next h3 =>
          match rest with
          | [] => simp at h
          | [_] => simp at h
          | b1 :: b2 :: r =>
            have hb1 : b1.toNat < 256 := UInt8.toNat_lt b1
            have hb2 : b2.toNat < 256 := UInt8.toNat_lt b2
            simp only at h
            split at h
            · next h4 =>
              simp only [Option.some.injEq, Prod.mk.injEq] at h; obtain ⟨rfl, rfl⟩ := h
              have h5 : lo3 b0.toNat ≤ b1.toNat := h4.1
              have h6 : b1.toNat ≤ hi3 b0.toNat := h4.2.1
              unfold lo3 at h5; unfold hi3 at h6
              have e2 : 0x80 + (b0.toNat % 16 * 4096 + b1.toNat % 64 * 64 + b2.toNat % 64) % 64 = b2.toNat := by omega
              have hs : IsScalar (b0.toNat % 16 * 4096 + b1.toNat % 64 * 64 + b2.toNat % 64) := by
                unfold IsScalar; split at h5 <;> split at h6 <;> omega
              have e0 : 0xE0 + (b0.toNat % 16 * 4096 + b1.toNat % 64 * 64 + b2.toNat % 64) / 4096 = b0.toNat := by
                split at h5 <;> split at h6 <;> omega
              have e1 : 0x80 + (b0.toNat % 16 * 4096 + b1.toNat % 64 * 64 + b2.toNat % 64) / 64 % 64 = b1.toNat := by
                split at h5 <;> split at h6 <;> omega
              have g1 : ¬ (b0.toNat % 16 * 4096 + b1.toNat % 64 * 64 + b2.toNat % 64 < 0x800) := by
                split at h5 <;> split at h6 <;> omega
              refine ⟨hs, ?_, by simp, rfl, by omega, by omega⟩
              unfold utf8Encode
              rw [if_neg (by omega), if_neg g1, if_pos (by omega), e0, e1, e2,
                UInt8.ofNat_toNat, UInt8.ofNat_toNat, UInt8.ofNat_toNat]
              rfl
            · simp at h
        · next h3 =>
          split at h
          · next h4 =>
            match rest with
            | [] => simp at h
            | [_] => simp at h
            | [_, _] => simp at h
            | b1 :: b2 :: b3 :: r =>
              have hb1 : b1.toNat < 256 := UInt8.toNat_lt b1
              have hb2 : b2.toNat < 256 := UInt8.toNat_lt b2
              have hb3 : b3.toNat < 256 := UInt8.toNat_lt b3
              simp only at h
              split at h
              · next h5 =>
                simp only [Option.some.injEq, Prod.mk.injEq] at h; obtain ⟨rfl, rfl⟩ := h
                have h6 : lo4 b0.toNat ≤ b1.toNat := h5.1
                have h7 : b1.toNat ≤ hi4 b0.toNat := h5.2.1
                unfold lo4 at h6; unfold hi4 at h7
                have e2 : 0x80 + (b0.toNat % 8 * 262144 + b1.toNat % 64 * 4096 + b2.toNat % 64 * 64 + b3.toNat % 64) / 64 % 64 = b2.toNat := by omega
                have e3 : 0x80 + (b0.toNat % 8 * 262144 + b1.toNat % 64 * 4096 + b2.toNat % 64 * 64 + b3.toNat % 64) % 64 = b3.toNat := by omega
                have hs : IsScalar (b0.toNat % 8 * 262144 + b1.toNat % 64 * 4096 + b2.toNat % 64 * 64 + b3.toNat % 64) := by
                  unfold IsScalar; split at h6 <;> split at h7 <;> omega
                have e0 : 0xF0 + (b0.toNat % 8 * 262144 + b1.toNat % 64 * 4096 + b2.toNat % 64 * 64 + b3.toNat % 64) / 262144 = b0.toNat := by
                  split at h6 <;> split at h7 <;> omega
                have e1 : 0x80 + (b0.toNat % 8 * 262144 + b1.toNat % 64 * 4096 + b2.toNat % 64 * 64 + b3.toNat % 64) / 4096 % 64 = b1.toNat := by
                  split at h6 <;> split at h7 <;> omega
                have g1 : ¬ (b0.toNat % 8 * 262144 + b1.toNat % 64 * 4096 + b2.toNat % 64 * 64 + b3.toNat % 64 < 0x10000) := by
                  split at h6 <;> split at h7 <;> omega
                refine ⟨hs, ?_, by simp, rfl, by omega, by omega⟩
                unfold utf8Encode
                rw [if_neg (by omega), if_neg (by omega), if_neg g1, e0, e1, e2, e3,
                  UInt8.ofNat_toNat, UInt8.ofNat_toNat, UInt8.ofNat_toNat, UInt8.ofNat_toNat]
                rfl
              · simp at h
          · simp at h

/-! ## the model's loop, one step -/

theorem ite_toNat (p : Prop) [Decidable p] (a b : UInt8) : (if p then a else b).toNat = if p then a.toNat else b.toNat := by
  split <;> rfl

theorem lo3_eq (a : Nat) : (if a = 224 then 160 else 128) = lo3 a := rfl
theorem hi3_eq (a : Nat) : (if a = 237 then 159 else 191) = hi3 a := rfl
theorem lo4_eq (a : Nat) : (if a = 240 then 144 else 128) = lo4 a := rfl
theorem hi4_eq (a : Nat) : (if a = 244 then 143 else 191) = hi4 a := rfl

theorem decodeRunes_step (fuel : Nat) (b0 : UInt8) (rest : Bytes) :
    decodeRunes (fuel + 1) (b0 :: rest) =
      match goStep (b0 :: rest) with
      | some (c, k) => c :: decodeRunes fuel ((b0 :: rest).drop k)
      | none => 0xFFFD :: decodeRunes fuel rest := by
  simp only [decodeRunes, UInt8.lt_iff_toNat_lt, UInt8.le_iff_toNat_le, Bool.and_eq_true, decide_eq_true_eq, beq_iff_eq,
    ← UInt8.toNat_inj, UInt8.toNat_ofNat, Nat.reducePow, Nat.reduceMod, ite_toNat, bits2, bits3, bits4, goStep, lo3_eq, hi3_eq, lo4_eq, hi4_eq]
  by_cases h1 : b0.toNat < 128
  · simp only [if_pos h1, List.drop_succ_cons, List.drop_zero]
  · simp only [if_neg h1]
    by_cases h2 : 194 ≤ b0.toNat ∧ b0.toNat ≤ 223
    · simp only [if_pos h2]
      match rest with
      | [] => rfl
      | b1 :: r =>
        simp only []
        split <;> simp
    · simp only [if_neg h2]
      by_cases h3 : 224 ≤ b0.toNat ∧ b0.toNat ≤ 239
      · simp only [if_pos h3]
        match rest with
        | [] => rfl
        | [_] => rfl
        | b1 :: b2 :: r =>
          simp only [and_assoc]
          by_cases hc : lo3 b0.toNat ≤ b1.toNat ∧ b1.toNat ≤ hi3 b0.toNat ∧ 128 ≤ b2.toNat ∧ b2.toNat ≤ 191
          · rw [if_pos hc, if_pos hc]; rfl
          · rw [if_neg hc, if_neg hc]
      · simp only [if_neg h3]
        by_cases h4 : 240 ≤ b0.toNat ∧ b0.toNat ≤ 244
        · simp only [if_pos h4]
          match rest with
          | [] => rfl
          | [_] => rfl
          | [_, _] => rfl
          | b1 :: b2 :: b3 :: r =>
            simp only [and_assoc]
            by_cases hc : lo4 b0.toNat ≤ b1.toNat ∧ b1.toNat ≤ hi4 b0.toNat ∧
                  128 ≤ b2.toNat ∧ b2.toNat ≤ 191 ∧ 128 ≤ b3.toNat ∧ b3.toNat ≤ 191
            · rw [if_pos hc, if_pos hc]; rfl
            · rw [if_neg hc, if_neg hc]
        · simp only [if_neg h4]

/-! ## `utf8Prefix` is the model's decision -/

/-- The candidate of length `k` in `utf8Prefix`. -/
def cand (s : Bytes) (k : Nat) : Option (Nat × Nat) :=
  let c := utf8Payload (s.take k)
  if k ≤ s.length ∧ IsScalar c ∧ utf8Encode c = s.take k then some (c, k) else none

theorem utf8Prefix_def (s : Bytes) : utf8Prefix s = [1, 2, 3, 4].findSome? (cand s) := rfl

theorem cand_some {s : Bytes} {k c k' : Nat} (h : cand s k = some (c, k')) :
    k' = k ∧ k ≤ s.length ∧ IsScalar c ∧ utf8Encode c = s.take k := by
  unfold cand at h
  simp only [] at h
  split at h
  · next hc =>
    simp only [Option.some.injEq, Prod.mk.injEq] at h
    obtain ⟨rfl, rfl⟩ := h
    exact ⟨rfl, hc.1, hc.2.1, hc.2.2⟩
  · simp at h

theorem cand_goStep {s : Bytes} {k c k' : Nat} (h : cand s k = some (c, k')) : goStep s = some (c, k') := by
  obtain ⟨rfl, hk, hs, he⟩ := cand_some h
  have : s = utf8Encode c ++ s.drop k' := by rw [he, List.take_append_drop]
  have hl : (utf8Encode c).length = k' := by rw [he, List.length_take]; omega
  rw [this, complete1 c _ hs, hl]

theorem goStep_cand {s : Bytes} {c k : Nat} (h : goStep s = some (c, k)) : cand s k = some (c, k) := by
  obtain ⟨hs, he, hk, hp, _, _⟩ := sound1 s c k h
  unfold cand
  simp only [hp]
  rw [if_pos ⟨hk, hs, he⟩]

theorem findSome_unique {α β : Type} (f : α → Option β) (l : List α) (k : α) (hk : k ∈ l)
    (h : ∀ x ∈ l, x ≠ k → f x = none) : l.findSome? f = f k := by
  induction l with
  | nil => cases hk
  | cons a l ih =>
    by_cases ha : a = k
    · subst ha
      cases hf : f a with
      | some v => simp [hf]
      | none =>
        simp only [List.findSome?_cons, hf]
        by_cases hm : a ∈ l
        · exact (ih hm (fun x hx hne => h x (List.mem_cons_of_mem _ hx) hne)).trans hf
        · rw [List.findSome?_eq_none_iff.2]
          intro x hx
          exact h x (List.mem_cons_of_mem _ hx) (fun e => hm (e ▸ hx))
    · have hm : k ∈ l := by
        rcases List.mem_cons.1 hk with e | e
        · exact absurd e.symm ha
        · exact e
      simp only [List.findSome?_cons, h a (List.mem_cons_self ..) ha]
      exact ih hm (fun x hx hne => h x (List.mem_cons_of_mem _ hx) hne)

theorem utf8Prefix_eq_goStep (s : Bytes) : utf8Prefix s = goStep s := by
  rw [utf8Prefix_def]
  cases hg : goStep s with
  | none =>
    rw [List.findSome?_eq_none_iff]
    intro k _
    cases hc : cand s k with
    | none => rfl
    | some v =>
      obtain ⟨c, k'⟩ := v
      rw [cand_goStep hc] at hg; cases hg
  | some v =>
    obtain ⟨c, k⟩ := v
    obtain ⟨_, _, _, _, h1, h4⟩ := sound1 s c k hg
    have hk : k ∈ [1, 2, 3, 4] := by
      have : k = 1 ∨ k = 2 ∨ k = 3 ∨ k = 4 := by omega
      rcases this with h | h | h | h <;> subst h <;> simp
    rw [findSome_unique (cand s) _ k hk, goStep_cand hg]
    intro x _ hne
    cases hc : cand s x with
    | none => rfl
    | some v =>
      obtain ⟨c', k'⟩ := v
      have := cand_goStep hc
      rw [hg] at this
      simp only [Option.some.injEq, Prod.mk.injEq] at this
      obtain ⟨rfl, rfl⟩ := this
      exact absurd (cand_some hc).1.symm hne


/-! ## the whole string; UTF-16; hex -/

theorem go_skip (s : Bytes) (skip : Nat) : utf8Scalars.go s skip = utf8Scalars.go (s.drop skip) 0 := by
  induction s generalizing skip with
  | nil => simp [utf8Scalars.go]
  | cons b rest ih =>
    cases skip with
    | zero => rfl
    | succ n => rw [utf8Scalars.go, ih n]; rfl

theorem go_cons (b : UInt8) (rest : Bytes) :
    utf8Scalars.go (b :: rest) 0 =
      match goStep (b :: rest) with
      | some (c, k) => c :: utf8Scalars.go ((b :: rest).drop k) 0
      | none => 0xFFFD :: utf8Scalars.go rest 0 := by
  rw [utf8Scalars.go, utf8Prefix_eq_goStep]
  cases hg : goStep (b :: rest) with
  | none => rfl
  | some v =>
    obtain ⟨c, k⟩ := v
    obtain ⟨_, _, _, _, h1, _⟩ := sound1 _ c k hg
    simp only []
    rw [go_skip rest (k - 1)]
    have : k = (k - 1) + 1 := by omega
    rw [this, List.drop_succ_cons]
    simp

theorem decodeRunes_eq : ∀ fuel (s : Bytes), s.length < fuel → decodeRunes fuel s = utf8Scalars.go s 0 := by
  intro fuel
  induction fuel with
  | zero => intro s h; omega
  | succ fuel ih =>
    intro s h
    match s with
    | [] => rfl
    | b :: rest =>
      rw [decodeRunes_step, go_cons]
      cases hg : goStep (b :: rest) with
      | none => simp only []; rw [ih rest (by simpa using h)]
      | some v =>
        obtain ⟨c, k⟩ := v
        obtain ⟨_, _, _, _, h1, _⟩ := sound1 _ c k hg
        simp only []
        rw [ih _ (by rw [List.length_drop]; simp at h ⊢; omega)]

theorem decodeRunes_scalar : ∀ fuel (s : Bytes), ∀ c ∈ decodeRunes fuel s, IsScalar c := by
  intro fuel
  induction fuel with
  | zero => intro s c h; simp [decodeRunes] at h
  | succ fuel ih =>
    intro s c h
    match s with
    | [] => simp [decodeRunes] at h
    | b :: rest =>
      rw [decodeRunes_step] at h
      cases hg : goStep (b :: rest) with
      | none =>
        rw [hg] at h
        simp only [List.mem_cons] at h
        rcases h with h | h
        · subst h; exact Or.inr (by decide)
        · exact ih _ c h
      | some v =>
        obtain ⟨c', k⟩ := v
        rw [hg] at h
        simp only [List.mem_cons] at h
        rcases h with h | h
        · subst h; exact (sound1 _ _ k hg).1
        · exact ih _ c h

theorem and1023 (x : Nat) : x &&& 1023 = x % 1024 := Nat.and_two_pow_sub_one_eq_mod x 10

theorem utf16Units_eq (c : Nat) (h : IsScalar c) : utf16Units c = utf16Encode c := by
  unfold IsScalar at h
  unfold utf16Units utf16Encode
  by_cases h1 : c < 0x10000
  · rw [if_pos (by omega), if_pos h1]
  · rw [if_neg (by omega), if_pos (by omega), if_neg h1]
    simp only [and1023, Nat.shiftRight_eq_div_pow]
    have : (c - 65536) / 2 ^ 10 % 1024 = (c - 65536) / 1024 := by omega
    rw [this]

theorem flatMap_congr' {α β : Type} (l : List α) (f g : α → List β) (h : ∀ x ∈ l, f x = g x) : l.flatMap f = l.flatMap g := by
  induction l with
  | nil => rfl
  | cons a l ih =>
    rw [List.flatMap_cons, List.flatMap_cons, h a (List.mem_cons_self ..), ih (fun x hx => h x (List.mem_cons_of_mem _ hx))]

/-- `nthash.encodePassword` = the reference transcoding. -/
theorem utf16le_eq (pw : Bytes) : Kdf.utf16le pw = CryptSpec2.utf16le pw := by
  unfold Kdf.utf16le CryptSpec2.utf16le le16 utf8Scalars
  rw [flatMap_congr' _ utf16Units utf16Encode (fun c hc => utf16Units_eq c (decodeRunes_scalar _ _ c hc)),
    decodeRunes_eq _ _ (Nat.lt_succ_self _)]
  apply flatMap_congr'
  intro u _
  rw [Nat.shiftRight_eq_div_pow, ← UInt8.ofNat_mod_size (x := u)]

theorem hexDigit_eq : ∀ n, n < 16 →
    (if n < 10 then UInt8.ofNat (48 + n) else UInt8.ofNat (87 + n)) = hexDigits.getD n 0 := by decide

theorem hexLower_eq (b : Bytes) : hexLower b = hex b := by
  unfold hexLower hex
  apply flatMap_congr'
  intro c _
  have hc : c.toNat < 256 := UInt8.toNat_lt c
  simp only []
  rw [hexDigit_eq (c.toNat / 16) (by omega), hexDigit_eq (c.toNat % 16) (by omega)]

theorem nthash_eq_spec' (H : Bytes → Bytes) (pw : Bytes) : hexLower (H (Kdf.utf16le pw)) = nthashSpec H pw := by
  rw [hexLower_eq, utf16le_eq]; rfl


/-- What `utf8Prefix` searches for: `s` starts with the UTF-8 encoding (of length `k`) of the scalar
value `c`. -/
theorem utf8Prefix_iff' (s : Bytes) (c k : Nat) :
    utf8Prefix s = some (c, k) ↔ IsScalar c ∧ k ≤ s.length ∧ utf8Encode c = s.take k := by
  rw [utf8Prefix_eq_goStep]
  constructor
  · intro h
    obtain ⟨hs, he, hk, _, _, _⟩ := sound1 s c k h
    exact ⟨hs, hk, he⟩
  · intro ⟨hs, hk, he⟩
    have : s = utf8Encode c ++ s.drop k := by rw [he, List.take_append_drop]
    have hl : (utf8Encode c).length = k := by rw [he, List.length_take]; omega
    rw [this, complete1 c _ hs, hl]

end GoCrypt.C03bProofs
