import GoCrypt.Proofs.A2IRKeyBase
import GoCrypt.Proofs.Argon2Eq.Key

/-!
# Block IR: `initBlocks` as regenerated = the model's `initBlocks`

Per lane: two `PutUint32` into the scratch bytes of `h0`, `blake2bHash` into the local `block0`, and a loop that
loads the 128 little-endian words of `block0` into `B[j]` (`= blockOfBytes`), twice (counters 0 and 1).
`ibHeap` names the shape of the heap during the loop; `ibFold` is the model's loop state `(h0, B)`.
-/

namespace GoCrypt.A2IR.KeyIR
open GoCrypt.Gen.argon2IR GoCrypt.Kdf GoCrypt.Argon2Sched

/-! ## the model's `initBlocks` as a fold -/

/-- one lane of the model's `initBlocks`: the state is `(h0, B)` -/
def ibStep (memory threads : Nat) (s : Bytes × Array Block) (lane : Nat) : Bytes × Array Block :=
  let a1 := Argon2.putUint32At (Argon2.putUint32At s.1 (Argon2.blake2bSize + 4) lane) Argon2.blake2bSize 0
  let a2 := Argon2.putUint32At a1 Argon2.blake2bSize 1
  (a2, Argon2.setB (Argon2.setB s.2 (Argon2.u32 (Argon2.u32 (lane * (memory / threads)) + 0))
      (Argon2.blockOfBytes (Argon2.blake2bHash 1024 a1)))
    (Argon2.u32 (Argon2.u32 (lane * (memory / threads)) + 1)) (Argon2.blockOfBytes (Argon2.blake2bHash 1024 a2)))

theorem initBlocks_unfold (h0 : Bytes) (memory threads : Nat) :
    Argon2.initBlocks h0 memory threads =
      ((List.range' 0 threads).foldl (fun s lane => ibStep memory threads s lane)
        (h0, Array.replicate memory Argon2.zeroBlock)).2 := by
  unfold Argon2.initBlocks
  simp only [Std.Legacy.Range.forIn_eq_forIn_range', Argon2Eq.range_size, List.forIn_pure_yield_eq_foldl, pure_bind,
    ibStep, Id.run_pure]

/-- `for i := range b { b[i] = binary.LittleEndian.Uint64(block0[i*8:]) }`, the first `j` iterations -/
def fillUpTo (blk : Bytes) (W : Block) (j : Nat) : Block :=
  (List.range' 0 j).foldl (fun b i => b.set! i (readLE64 (blk.drop (i * 8)))) W

theorem fillUpTo_succ (blk : Bytes) (W : Block) (j : Nat) :
    fillUpTo blk W (j + 1) = (fillUpTo blk W j).set! j (readLE64 (blk.drop (j * 8))) := by
  unfold fillUpTo
  rw [List.range'_concat, List.foldl_append]
  simp only [List.foldl_cons, List.foldl_nil, Nat.zero_add, Nat.one_mul]

theorem fillUpTo_size (blk : Bytes) (W : Block) (j : Nat) : (fillUpTo blk W j).size = W.size :=
  foldl_set!_size (fun _ i => readLE64 (blk.drop (i * 8))) _ W

theorem getElem!_drop (l : Bytes) (n k : Nat) : (l.drop n)[k]! = l.toArray[n + k]! := by
  simp [List.getElem!_eq_getElem?_getD, List.getElem?_drop]

theorem fillUpTo_full (blk : Bytes) (W : Block) (hW : W.size = 128) :
    fillUpTo blk W 128 = Argon2.blockOfBytes blk := by
  unfold fillUpTo Argon2.blockOfBytes
  simp only [Std.Legacy.Range.forIn_eq_forIn_range', Argon2Eq.range_size, List.forIn_pure_yield_eq_foldl, pure_bind]
  have h1 := Argon2Eq.setLoop 128 (fun (_ : UInt64) i => readLE64 (blk.drop (i * 8))) W hW
  have h2 := Argon2Eq.setLoop 128 (fun (_ : UInt64) i =>
      List.foldl (fun w k => w ||| (List.toArray blk)[i * 8 + k]!.toUInt64 <<< UInt64.ofNat (8 * k)) 0 (List.range' 0 8))
    Argon2.zeroBlock (by simp [Argon2.zeroBlock, Argon2.blockLength])
  simp only [Argon2.blockLength, Id.run_pure] at h2 ⊢
  rw [h1, h2]
  apply Argon2Eq.map_range_congr
  intro i _
  simp only [readLE64, Argon2Eq.range'_0_8, Argon2Eq.range_8, List.foldl_cons, List.foldl_nil, getElem!_drop]

section
open GoCrypt.Spec.Argon2Rfc
theorem H_length (k : Nat) (v : Bytes) (h : k ≤ 64) : (H k v).length = k := Argon2Eq.blake2b_length k v h

theorem Vseq_flatten_length (n : Nat) : ∀ v : Bytes, v.length = 64 →
    ((Vseq n v).map (·.take 32)).flatten.length = 32 * n := by
  induction n with
  | zero => intro v _; rfl
  | succ n ih =>
    intro v hv
    rw [show Vseq (n + 1) v = v :: Vseq n (H 64 v) from rfl, List.map_cons, List.flatten_cons, List.length_append,
      ih _ (H_length 64 _ (Nat.le_refl _)), List.length_take, hv]
    omega

/-- `blake2bHash` writes exactly `len(out)` bytes -/
theorem blake2bHash_length (T : Nat) (x : Bytes) : (Argon2.blake2bHash T x).length = T := by
  rw [Argon2Eq.blake2bHash_eq_H']
  unfold H'
  split
  · rename_i h; exact Argon2Eq.blake2b_length T _ h
  · rename_i h
    simp only
    rw [List.length_append, Vseq_flatten_length _ _ (H_length 64 _ (Nat.le_refl _)), H_length _ _ (by omega)]
    omega
end

/-! ## the program -/

/-- the lane loop of `initBlocks` -/
def ibLoop : Stmt := (proc_initBlocks.body.drop 3).head

/-- `B[j+off][i] = binary.LittleEndian.Uint64(block0[i*8:])` with `i` in slot `slot` -/
def ibFillBody (slot off : Nat) : Stmt :=
  .assign [.word (.elem (.var 4) (.bin .add (.var 6) (.u32 off))) (.var slot)]
    [(.leU64 (.slice (.var 3) (.bin .mul (.var slot) (.int 8)) (.len (.var 3))))]

theorem ibLoop_fill0 : (ibLoop.forBody.drop 4).head = .forN 7 128 (ibFillBody 7 0) := id rfl
theorem ibLoop_fill1 : ibLoop.forBody.drop 7 = .forN 8 128 (ibFillBody 8 1) := id rfl

theorem fill_step (c : Ctx) (H : Heap) (rb : Ref) (m : Nat) (A : Array Block) (blk : Bytes) (j idx i slot off : Nat)
    (v0 v1 v2 v5 s7 s8 : Val) (hs : (slot = 7 ∧ off = 0) ∨ (slot = 8 ∧ off = 1))
    (hgB : H.get (.mem m) = some (.blocks A)) (hgb : H.get rb = some (.bytes blk)) (hblk : blk.length = 1024)
    (hidx : idx = (j + off) % 4294967296) (hlt : idx < A.size) (h128 : A[idx]!.size = 128) (hi : i < 128) :
    (bindR (setSlot [v0, v1, v2, .parr rb, .blks (.mem m), v5, .u32 j, s7, s8] slot (.int i)) fun env' =>
      exec c (ibFillBody slot off) H env') =
    .norm (H.set (.mem m) (.blocks (A.set! idx (A[idx]!.set! i (readLE64 (blk.drop (i * 8)))))))
      ([v0, v1, v2, .parr rb, .blks (.mem m), v5, .u32 j, s7, s8].set slot (.int i)) := by
  have htake : List.take (1024 - i * 8) (List.drop (i * 8) blk) = List.drop (i * 8) blk :=
    List.take_of_length_le (by rw [List.length_drop, hblk]; exact Nat.le_refl _)
  subst hidx
  rcases hs with ⟨rfl, rfl⟩ | ⟨rfl, rfl⟩ <;>
  · simp only [ibFillBody]
    try simp only [Nat.add_zero] at hlt h128
    a2_simp [hgB, hgb, hblk, hlt, asIdx_nat, natCast_mul_ofNat, wrapS64_natCast, sliceVal, lenOf, viewBytes, htake,
      List.length_drop, storeWord_of_get _ hgB hlt h128 hi]

theorem fill_loop (c : Ctx) (H0 : Heap) (rb : Ref) (m : Nat) (A : Array Block) (blk : Bytes) (j idx slot off : Nat)
    (v0 v1 v2 v5 s7 s8 : Val) (hs : (slot = 7 ∧ off = 0) ∨ (slot = 8 ∧ off = 1))
    (hinm : (Ref.mem m).inH H0) (hgb : H0.get rb = some (.bytes blk)) (hrb : Ref.mem m ≠ rb) (hblk : blk.length = 1024)
    (hidx : idx = (j + off) % 4294967296) (hlt : idx < A.size) (W : Block) (hW : W.size = 128) :
    ∃ s7' s8', exec c (.forN slot 128 (ibFillBody slot off)) (H0.set (.mem m) (.blocks (A.set! idx W)))
        [v0, v1, v2, .parr rb, .blks (.mem m), v5, .u32 j, s7, s8] =
      .norm (H0.set (.mem m) (.blocks (A.set! idx (Argon2.blockOfBytes blk))))
        [v0, v1, v2, .parr rb, .blks (.mem m), v5, .u32 j, s7', s8'] := by
  have step : ∀ (k : Nat) (H : Heap) (env : Env), 0 ≤ k → k < 0 + 128 →
      (∃ s7 s8, H = H0.set (.mem m) (.blocks (A.set! idx (fillUpTo blk W k))) ∧
        env = [v0, v1, v2, .parr rb, .blks (.mem m), v5, .u32 j, s7, s8]) →
      ∃ h' env', (bindR (setSlot env slot (.int k)) fun env' => exec c (ibFillBody slot off) H env') = .norm h' env' ∧
        ∃ s7 s8, h' = H0.set (.mem m) (.blocks (A.set! idx (fillUpTo blk W (k + 1)))) ∧
          env' = [v0, v1, v2, .parr rb, .blks (.mem m), v5, .u32 j, s7, s8] := by
    rintro k H env _ hk ⟨t7, t8, rfl, rfl⟩
    have hsz : (fillUpTo blk W k).size = 128 := by rw [fillUpTo_size, hW]
    have hlt' : idx < (A.set! idx (fillUpTo blk W k)).size := by
      simpa [Array.set!_eq_setIfInBounds] using hlt
    have hself := getElem!_set!_self A idx (fillUpTo blk W k) hlt
    refine ⟨_, _, fill_step c _ rb m (A.set! idx (fillUpTo blk W k)) blk j idx k slot off v0 v1 v2 v5 t7 t8 hs
      (Heap.get_set_self _ _ _ hinm) ((Heap.get_set_ne _ _ _ _ hrb).trans hgb) hblk hidx hlt'
      (by rw [hself]; exact hsz) (by omega), ?_⟩
    rw [Heap.set_set, hself, set!_set!_self, fillUpTo_succ]
    rcases hs with ⟨rfl, rfl⟩ | ⟨rfl, rfl⟩
    · exact ⟨_, _, rfl, rfl⟩
    · exact ⟨_, _, rfl, rfl⟩
  obtain ⟨h', env', e, s7', s8', rfl, rfl⟩ := rangeLoop_inv
    (fun i h env => bindR (setSlot env slot (.int i)) fun env' => exec c (ibFillBody slot off) h env')
    (fun k H env => ∃ s7 s8, H = H0.set (.mem m) (.blocks (A.set! idx (fillUpTo blk W k))) ∧
        env = [v0, v1, v2, .parr rb, .blks (.mem m), v5, .u32 j, s7, s8])
    128 0 _ _ ⟨s7, s8, rfl, rfl⟩ step
  refine ⟨s7', s8', ?_⟩
  rw [exec_forN]
  rw [Nat.zero_add, fillUpTo_full blk W hW] at e
  exact e

/-! ## the heap of `initBlocks`: `h0` updated, `block0` on top of the locals, `B` as the newest `mem` object -/

def ibHeap (h : Heap) (r0 : Ref) (a blk : Bytes) (Bk : Array Block) : Heap :=
  ((h.set r0 (.bytes a)).push [.bytes blk]).alloc (.blocks Bk)

section ibHeap
variable (h : Heap) (r0 : Ref) (hin : r0.inH h)
include hin

theorem ibHeap_get0 (a blk : Bytes) (Bk : Array Block) : (ibHeap h r0 a blk Bk).get r0 = some (.bytes a) := by
  have h1 : r0.inH (h.set r0 (.bytes a)) := (Ref.inH_set _ _ _ _).mpr hin
  unfold ibHeap
  rw [Heap.get_alloc_of_in _ _ _ (Ref.inH_push _ _ _ h1), Heap.get_push_of_in _ _ _ h1, Heap.get_set_self _ _ _ hin]

omit hin in
theorem ibHeap_getb (a blk : Bytes) (Bk : Array Block) :
    (ibHeap h r0 a blk Bk).get (.stk h.stk.length) = some (.bytes blk) := by
  unfold ibHeap
  have := Heap.get_push_top0 (h.set r0 (.bytes a)) [.bytes blk]
  rw [Heap.stk_length_set] at this
  exact this

omit hin in
theorem ibHeap_getB (a blk : Bytes) (Bk : Array Block) :
    (ibHeap h r0 a blk Bk).get (.mem h.mem.length) = some (.blocks Bk) := by
  unfold ibHeap
  have := Heap.get_alloc_new ((h.set r0 (.bytes a)).push [.bytes blk]) (.blocks Bk)
  rw [Heap.mem_length_push, Heap.mem_length_set] at this
  exact this

theorem ibHeap_set0 (a a' blk : Bytes) (Bk : Array Block) :
    (ibHeap h r0 a blk Bk).set r0 (.bytes a') = ibHeap h r0 a' blk Bk := by
  cases h with | mk m s =>
  cases r0 with
  | mem i => simp only [Ref.inH] at hin; simp [ibHeap, Heap.set, Heap.push, Heap.alloc, List.set_append_left, hin]
  | stk i => simp only [Ref.inH] at hin; simp [ibHeap, Heap.set, Heap.push, Heap.alloc, List.set_append_left, hin]

theorem ibHeap_setb (a blk blk' : Bytes) (Bk : Array Block) :
    (ibHeap h r0 a blk Bk).set (.stk h.stk.length) (.bytes blk') = ibHeap h r0 a blk' Bk := by
  cases h with | mk m s =>
  cases r0 with
  | mem i => simp [ibHeap, Heap.set, Heap.push, Heap.alloc]
  | stk i => simp [ibHeap, Heap.set, Heap.push, Heap.alloc]

theorem ibHeap_setB (a blk : Bytes) (Bk Bk' : Array Block) :
    (ibHeap h r0 a blk Bk).set (.mem h.mem.length) (.blocks Bk') = ibHeap h r0 a blk Bk' := by
  cases h with | mk m s =>
  cases r0 with
  | mem i => simp [ibHeap, Heap.set, Heap.push, Heap.alloc]
  | stk i => simp [ibHeap, Heap.set, Heap.push, Heap.alloc]

end ibHeap

theorem le32_length (v : Nat) : (le32 v).length = 4 := id rfl
theorem le32_eq_model (v : Nat) : le32 v = Argon2.le32 v := id rfl

theorem putUint32At_length (b : Bytes) (off v : Nat) (h : off + 4 ≤ b.length) :
    (Argon2.putUint32At b off v).length = b.length := by
  simp only [Argon2.putUint32At, List.length_append, List.length_take, List.length_drop,
    show (Argon2.le32 v).length = 4 from rfl]
  omega

theorem putLE_ibHeap (h : Heap) (r0 : Ref) (hin : r0.inH h) (a blk : Bytes) (Bk : Array Block) (off len cap v : Nat)
    (hlen : 4 ≤ len) (ha : off + 4 ≤ a.length) :
    putLE (ibHeap h r0 a blk Bk) (.bytes r0 off len cap) (le32 v) =
      .ok (ibHeap h r0 (Argon2.putUint32At a off v) blk Bk) := by
  have hl : ¬ len < 4 := by omega
  simp only [putLE, le32_length, hl, if_false, writeAt, getBytes_of_get (ibHeap_get0 h r0 hin a blk Bk), ok_bind, ha,
    if_true, ibHeap_set0 h r0 hin]
  simp only [Argon2.putUint32At, le32_eq_model]

theorem call_ibHeap (c : Ctx) (hb : Blake2bHashSpec c) (h : Heap) (r0 : Ref) (hin : r0.inH h) (a blk : Bytes)
    (Bk : Array Block) (ha : a.length = 72) (hblk : blk.length = 1024) :
    c.call "blake2bHash" (ibHeap h r0 a blk Bk) [.bytes (.stk h.stk.length) 0 1024 1024, .bytes r0 0 72 72] =
      .ok (ibHeap h r0 a (Argon2.blake2bHash 1024 a) Bk, []) := by
  have hview : viewBytes (ibHeap h r0 a blk Bk) (.bytes r0 0 72 72) = .ok a := by
    simp only [viewBytes, getBytes_of_get (ibHeap_get0 h r0 hin a blk Bk), ok_bind, ha, Nat.zero_add, Nat.le_refl,
      if_true, List.drop_zero]
    rw [List.take_of_length_le (by omega)]
  rw [hb _ (.stk h.stk.length) 0 1024 1024 (.bytes r0 0 72 72) blk a (ibHeap_getb h r0 a blk Bk) (by omega)
    (Nat.le_refl _) (by omega) (by omega) hview, ibHeap_setb h r0 hin, List.take_zero, List.nil_append,
    List.drop_of_length_le (by omega), List.append_nil]

theorem ib_seg1 (c : Ctx) (hb : Blake2bHashSpec c) (h : Heap) (r0 : Ref) (hin : r0.inH h) (a blk : Bytes) (Bk : Array Block)
    (memory threads k : Nat) (s6 s7 s8 : Val) (ha : a.length = 72) (hblk : blk.length = 1024) (ht0 : ¬ threads = 0)
    (hkq : k * (memory / threads) < 4294967296) :
    exec c (ibLoop.forBody.take 4) (ibHeap h r0 a blk Bk)
      [.parr r0, .u32 memory, .u32 threads, .parr (.stk h.stk.length), .blks (.mem h.mem.length), .u32 k, s6, s7, s8] =
    .norm (ibHeap h r0 (Argon2.putUint32At (Argon2.putUint32At a 68 k) 64 0)
        (Argon2.blake2bHash 1024 (Argon2.putUint32At (Argon2.putUint32At a 68 k) 64 0)) Bk)
      [.parr r0, .u32 memory, .u32 threads, .parr (.stk h.stk.length), .blks (.mem h.mem.length), .u32 k,
        .u32 (k * (memory / threads)), s7, s8] := by
  have ha1 : (Argon2.putUint32At a 68 k).length = 72 := by rw [putUint32At_length _ _ _ (by omega), ha]
  have ha2 : (Argon2.putUint32At (Argon2.putUint32At a 68 k) 64 0).length = 72 := by
    rw [putUint32At_length _ _ _ (by omega), ha1]
  have hmod : k * (memory / threads) % 4294967296 = k * (memory / threads) := Nat.mod_eq_of_lt hkq
  simp only [ibLoop, proc_initBlocks, Stmt.drop, Stmt.head, Stmt.forBody, Stmt.take]
  a2_simp [ht0, hmod, sliceVal, lenOf, ibHeap_get0 h r0 hin, ibHeap_getb h r0, ha, ha1, ha2, hblk, asIdx_nat,
    putLE_ibHeap h r0 hin, call_ibHeap c hb h r0 hin]

theorem ib_seg2 (c : Ctx) (hb : Blake2bHashSpec c) (h : Heap) (r0 : Ref) (hin : r0.inH h) (a blk : Bytes) (Bk : Array Block)
    (v1 v2 v5 v6 s7 s8 : Val) (ha : a.length = 72) (hblk : blk.length = 1024) :
    exec c ((ibLoop.forBody.drop 5).take 2) (ibHeap h r0 a blk Bk)
      [.parr r0, v1, v2, .parr (.stk h.stk.length), .blks (.mem h.mem.length), v5, v6, s7, s8] =
    .norm (ibHeap h r0 (Argon2.putUint32At a 64 1) (Argon2.blake2bHash 1024 (Argon2.putUint32At a 64 1)) Bk)
      [.parr r0, v1, v2, .parr (.stk h.stk.length), .blks (.mem h.mem.length), v5, v6, s7, s8] := by
  have ha1 : (Argon2.putUint32At a 64 1).length = 72 := by rw [putUint32At_length _ _ _ (by omega), ha]
  simp only [ibLoop, proc_initBlocks, Stmt.drop, Stmt.head, Stmt.forBody, Stmt.take]
  a2_simp [sliceVal, lenOf, ibHeap_get0 h r0 hin, ibHeap_getb h r0, ha, ha1, hblk, asIdx_nat,
    putLE_ibHeap h r0 hin, call_ibHeap c hb h r0 hin]

theorem fill_ib (c : Ctx) (h : Heap) (r0 : Ref) (hin : r0.inH h) (a blk : Bytes) (Bk : Array Block)
    (j idx slot off : Nat) (v1 v2 v5 s7 s8 : Val) (hs : (slot = 7 ∧ off = 0) ∨ (slot = 8 ∧ off = 1))
    (hblk : blk.length = 1024) (hidx : idx = (j + off) % 4294967296) (hlt : idx < Bk.size) (h128 : Bk[idx]!.size = 128) :
    ∃ s7' s8', exec c (.forN slot 128 (ibFillBody slot off)) (ibHeap h r0 a blk Bk)
        [.parr r0, v1, v2, .parr (.stk h.stk.length), .blks (.mem h.mem.length), v5, .u32 j, s7, s8] =
      .norm (ibHeap h r0 a blk (Bk.set! idx (Argon2.blockOfBytes blk)))
        [.parr r0, v1, v2, .parr (.stk h.stk.length), .blks (.mem h.mem.length), v5, .u32 j, s7', s8'] := by
  have e := fill_loop c (ibHeap h r0 a blk Bk) (.stk h.stk.length) h.mem.length Bk blk j idx slot off
    (.parr r0) v1 v2 v5 s7 s8 hs (Ref.inH_of_get (ibHeap_getB h r0 a blk Bk)) (ibHeap_getb h r0 a blk Bk)
    (by intro e; cases e) hblk hidx hlt Bk[idx]! h128
  rw [ibHeap_setB h r0 hin, ibHeap_setB h r0 hin, set!_getElem!_self _ _ hlt] at e
  exact e

theorem ib_drop4 : ibLoop.forBody.drop 4 = (.forN 7 128 (ibFillBody 7 0) ;;; ibLoop.forBody.drop 5) := id rfl
theorem ib_drop7 : (ibLoop.forBody.drop 5).drop 2 = .forN 8 128 (ibFillBody 8 1) := id rfl

theorem blockOfBytes_size (b : Bytes) : (Argon2.blockOfBytes b).size = 128 := by
  rw [Argon2Eq.blockOfBytes_eq]; exact Argon2Eq.spec_blockOfBytes_size b

theorem blocks128_set! (B : Array Block) (i : Nat) (v : Block) (hB : Blocks128 B) (hv : v.size = 128) :
    Blocks128 (B.set! i v) := by
  intro k hk
  have hk' : k < B.size := by simpa [Array.set!_eq_setIfInBounds] using hk
  by_cases e : i = k
  · subst e; rw [getElem!_set!_self _ _ _ hk']; exact hv
  · rw [getElem!_set!_ne _ _ _ _ e]; exact hB k hk'

theorem ib_lane_step (c : Ctx) (hb : Blake2bHashSpec c) (h : Heap) (r0 : Ref) (hin : r0.inH h) (a blk : Bytes)
    (Bk : Array Block) (memory threads k : Nat) (s6 s7 s8 : Val)
    (ha : a.length = 72) (hblk : blk.length = 1024) (hBsz : Bk.size = memory) (hB128 : Blocks128 Bk)
    (geo : Geom (memory / threads) (memory / threads / 4) threads) (hmul : memory = threads * (memory / threads))
    (hk : k < threads) :
    ∃ (blk' : Bytes) (s6' s7' s8' : Val), blk'.length = 1024 ∧
      (ibStep memory threads (a, Bk) k).1.length = 72 ∧ (ibStep memory threads (a, Bk) k).2.size = memory ∧
      Blocks128 (ibStep memory threads (a, Bk) k).2 ∧
      (exec c ibLoop.forBody (ibHeap h r0 a blk Bk)
        [.parr r0, .u32 memory, .u32 threads, .parr (.stk h.stk.length), .blks (.mem h.mem.length), .u32 k, s6, s7, s8]).andThen
        (exec c ibLoop.forPost) =
      .norm (ibHeap h r0 (ibStep memory threads (a, Bk) k).1 blk' (ibStep memory threads (a, Bk) k).2)
        [.parr r0, .u32 memory, .u32 threads, .parr (.stk h.stk.length), .blks (.mem h.mem.length), .u32 (k + 1),
          s6', s7', s8'] := by
  obtain ⟨g1, g2, g3, g4⟩ := geo
  generalize hq : memory / threads = q at *
  have hkq : k * q + q ≤ threads * q := by
    have := Nat.mul_le_mul_right q (show k + 1 ≤ threads by omega)
    rwa [Nat.add_mul, Nat.one_mul] at this
  have htq : threads ≤ threads * q := Nat.le_mul_of_pos_right threads (show 0 < q by omega)
  have ht0 : ¬ threads = 0 := by omega
  -- the model's step
  have hu0 : Argon2.u32 (Argon2.u32 (k * q) + 0) = k * q := by simp only [Argon2.u32]; omega
  have hu1 : Argon2.u32 (Argon2.u32 (k * q) + 1) = k * q + 1 := by simp only [Argon2.u32]; omega
  have hlt0 : k * q < Bk.size := by omega
  have hlt1 : ∀ v, k * q + 1 < (Bk.set! (k * q) v).size := by
    intro v; simp only [Array.set!_eq_setIfInBounds, Array.size_setIfInBounds]; omega
  have ha1 : (Argon2.putUint32At a 68 k).length = 72 := by rw [putUint32At_length _ _ _ (by omega), ha]
  have ha2 : (Argon2.putUint32At (Argon2.putUint32At a 68 k) 64 0).length = 72 := by
    rw [putUint32At_length _ _ _ (by omega), ha1]
  have ha3 : (Argon2.putUint32At (Argon2.putUint32At (Argon2.putUint32At a 68 k) 64 0) 64 1).length = 72 := by
    rw [putUint32At_length _ _ _ (by omega), ha2]
  have hstep : ibStep memory threads (a, Bk) k =
      (Argon2.putUint32At (Argon2.putUint32At (Argon2.putUint32At a 68 k) 64 0) 64 1,
        (Bk.set! (k * q) (Argon2.blockOfBytes (Argon2.blake2bHash 1024
            (Argon2.putUint32At (Argon2.putUint32At a 68 k) 64 0)))).set! (k * q + 1)
          (Argon2.blockOfBytes (Argon2.blake2bHash 1024
            (Argon2.putUint32At (Argon2.putUint32At (Argon2.putUint32At a 68 k) 64 0) 64 1)))) := by
    simp only [ibStep, Argon2.blake2bSize, Nat.reduceAdd, hq, hu0, hu1]
    rw [Argon2Eq.setB_eq _ _ _ hlt0, Argon2Eq.setB_eq _ _ _ (hlt1 _)]
  rw [hstep]
  dsimp only
  -- the program
  have e1 := ib_seg1 c hb h r0 hin a blk Bk memory threads k s6 s7 s8 ha hblk ht0 (by rw [hq]; omega)
  rw [hq] at e1
  obtain ⟨t7, t8, e2⟩ := fill_ib c h r0 hin (Argon2.putUint32At (Argon2.putUint32At a 68 k) 64 0)
    (Argon2.blake2bHash 1024 (Argon2.putUint32At (Argon2.putUint32At a 68 k) 64 0)) Bk (k * q) (k * q) 7 0
    (.u32 memory) (.u32 threads) (.u32 k) s7 s8 (Or.inl ⟨rfl, rfl⟩) (blake2bHash_length _ _) (by omega) hlt0
    (hB128 _ hlt0)
  have e3 := ib_seg2 c hb h r0 hin (Argon2.putUint32At (Argon2.putUint32At a 68 k) 64 0)
    (Argon2.blake2bHash 1024 (Argon2.putUint32At (Argon2.putUint32At a 68 k) 64 0))
    (Bk.set! (k * q) (Argon2.blockOfBytes (Argon2.blake2bHash 1024
      (Argon2.putUint32At (Argon2.putUint32At a 68 k) 64 0))))
    (.u32 memory) (.u32 threads) (.u32 k) (.u32 (k * q)) t7 t8 ha2 (blake2bHash_length _ _)
  obtain ⟨u7, u8, e4⟩ := fill_ib c h r0 hin
    (Argon2.putUint32At (Argon2.putUint32At (Argon2.putUint32At a 68 k) 64 0) 64 1)
    (Argon2.blake2bHash 1024 (Argon2.putUint32At (Argon2.putUint32At (Argon2.putUint32At a 68 k) 64 0) 64 1))
    (Bk.set! (k * q) (Argon2.blockOfBytes (Argon2.blake2bHash 1024
      (Argon2.putUint32At (Argon2.putUint32At a 68 k) 64 0)))) (k * q) (k * q + 1) 8 1
    (.u32 memory) (.u32 threads) (.u32 k) t7 t8 (Or.inr ⟨rfl, rfl⟩) (blake2bHash_length _ _) (by omega) (hlt1 _)
    (by rw [getElem!_set!_ne _ _ _ _ (by omega)]; exact hB128 _ (by omega))
  refine ⟨Argon2.blake2bHash 1024 (Argon2.putUint32At (Argon2.putUint32At (Argon2.putUint32At a 68 k) 64 0) 64 1),
    .u32 (k * q), u7, u8, blake2bHash_length 1024 _, ha3, ?_, ?_, ?_⟩
  · simp only [Array.set!_eq_setIfInBounds, Array.size_setIfInBounds]; exact hBsz
  · exact blocks128_set! _ _ _ (blocks128_set! _ _ _ hB128 (blockOfBytes_size _)) (blockOfBytes_size _)
  · rw [exec_take_drop c _ _ 4, e1, andThen_norm, ib_drop4, exec_seq, e2, andThen_norm,
      exec_take_drop c _ _ 2, e3, andThen_norm, ib_drop7, e4, andThen_norm]
    have hk1 : (k + 1) % 4294967296 = k + 1 := by omega
    simp only [ibLoop, proc_initBlocks, Stmt.drop, Stmt.head, Stmt.forPost]
    a2_simp [hk1]

theorem ib_drop3 : proc_initBlocks.body.drop 3 = (ibLoop ;;; .ret [.var 4]) := id rfl
theorem ibLoop_eq : ibLoop = .for_ ibLoop.forFuel ibLoop.forCond ibLoop.forPost ibLoop.forBody := id rfl

theorem ib_prologue (c : Ctx) (h : Heap) (r0 : Ref) (h0 : Bytes) (memory threads : Nat)
    (hg : h.get r0 = some (.bytes h0)) :
    exec c (proc_initBlocks.body.take 3) h [.parr r0, .u32 memory, .u32 threads, .undef, .undef, .undef, .undef, .undef, .undef] =
      .norm (ibHeap h r0 h0 (List.replicate 1024 0) (Array.replicate memory Argon2.zeroBlock))
        [.parr r0, .u32 memory, .u32 threads, .parr (.stk h.stk.length), .blks (.mem h.mem.length), .u32 0,
          .undef, .undef, .undef] := by
  unfold ibHeap
  rw [Heap.set_get_self hg]
  simp only [proc_initBlocks, Stmt.take]
  rw [exec_seq, exec_declBytes]
  generalize List.replicate 1024 (0 : UInt8) = z
  a2_simp
  rfl

/-- the model's state `(h0, B)` after `k` lanes -/
def ibFold (h0 : Bytes) (memory threads k : Nat) : Bytes × Array Block :=
  (List.range' 0 k).foldl (fun s lane => ibStep memory threads s lane) (h0, Array.replicate memory Argon2.zeroBlock)

theorem ibFold_succ (h0 : Bytes) (memory threads k : Nat) :
    ibFold h0 memory threads (k + 1) =
      ibStep memory threads ((ibFold h0 memory threads k).1, (ibFold h0 memory threads k).2) k := by
  unfold ibFold
  rw [List.range'_concat, List.foldl_append]
  simp only [List.foldl_cons, List.foldl_nil, Nat.zero_add, Nat.one_mul]

theorem initBlocks_body (c : Ctx) (hb : Blake2bHashSpec c) (h : Heap) (r0 : Ref) (h0 : Bytes) (memory threads : Nat)
    (hg : h.get r0 = some (.bytes h0)) (hlen : h0.length = 72)
    (geo : Geom (memory / threads) (memory / threads / 4) threads) (hmul : memory = threads * (memory / threads)) :
    ∃ h0' blk : Bytes,
      exec c proc_initBlocks.body h [.parr r0, .u32 memory, .u32 threads, .undef, .undef, .undef, .undef, .undef, .undef] =
        .ret (ibHeap h r0 h0' blk (Argon2.initBlocks h0 memory threads)) [.blks (.mem h.mem.length)] := by
  have hin : r0.inH h := Ref.inH_of_get hg
  have ht : threads < 4294967296 := by
    obtain ⟨g1, g2, g3, g4⟩ := geo
    have := Nat.le_mul_of_pos_right threads (show 0 < memory / threads by omega)
    omega
  rw [exec_take_drop c h _ 3, ib_prologue c h r0 h0 memory threads hg, andThen_norm, ib_drop3, exec_seq, ibLoop_eq,
    exec_for]
  have efuel : (eval (ibHeap h r0 h0 (List.replicate 1024 0) (Array.replicate memory Argon2.zeroBlock))
      [.parr r0, .u32 memory, .u32 threads, .parr (.stk h.stk.length), .blks (.mem h.mem.length), .u32 0,
        .undef, .undef, .undef] ibLoop.forFuel >>= asIdx) = .ok threads := by
    generalize List.replicate 1024 (0 : UInt8) = z
    simp only [ibLoop, proc_initBlocks, Stmt.drop, Stmt.head, Stmt.forFuel]
    a2_simp
  rw [efuel, bindR_ok]
  obtain ⟨H1, env1, eloop, blk, s6, s7, s8, -, -, -, -, rfl, rfl⟩ := loop_inv
    (fun h env => eval h env ibLoop.forCond >>= asBool)
    (fun h env => (exec c ibLoop.forBody h env).andThen (exec c ibLoop.forPost))
    (fun k H env => ∃ (blk : Bytes) (s6 s7 s8 : Val), blk.length = 1024 ∧
      (ibFold h0 memory threads k).1.length = 72 ∧ (ibFold h0 memory threads k).2.size = memory ∧
      Blocks128 (ibFold h0 memory threads k).2 ∧
      H = ibHeap h r0 (ibFold h0 memory threads k).1 blk (ibFold h0 memory threads k).2 ∧
      env = [.parr r0, .u32 memory, .u32 threads, .parr (.stk h.stk.length), .blks (.mem h.mem.length), .u32 k, s6, s7, s8])
    threads
    (by
      rintro k H env hk ⟨blk, s6, s7, s8, hblk, ha, hBsz, hB128, rfl, rfl⟩
      refine ⟨?_, ?_⟩
      · simp only [ibLoop, proc_initBlocks, Stmt.drop, Stmt.head, Stmt.forCond]
        a2_simp [hk]
      · obtain ⟨blk', s6', s7', s8', hblk', ha', hBsz', hB128', e⟩ := ib_lane_step c hb h r0 hin _ blk _ memory threads k
          s6 s7 s8 ha hblk hBsz hB128 geo hmul hk
        rw [← ibFold_succ] at ha' hBsz' hB128' e
        exact ⟨_, _, e, blk', s6', s7', s8', hblk', ha', hBsz', hB128', rfl, rfl⟩)
    (by
      rintro H env ⟨blk, s6, s7, s8, -, -, -, -, rfl, rfl⟩
      simp only [ibLoop, proc_initBlocks, Stmt.drop, Stmt.head, Stmt.forCond]
      a2_simp [Nat.lt_irrefl])
    threads 0 _ _ (Nat.zero_le _) (by omega)
    ⟨List.replicate 1024 0, .undef, .undef, .undef, List.length_replicate .., hlen, by simp [ibFold],
      by
        intro k hk
        simp only [ibFold, List.range'_zero, List.foldl_nil] at hk ⊢
        rw [getElem!_pos (Array.replicate memory Argon2.zeroBlock) k hk]
        simp [Argon2.zeroBlock, Argon2.blockLength], rfl, rfl⟩
  have hF0 : ibFold h0 memory threads 0 = (h0, Array.replicate memory Argon2.zeroBlock) := rfl
  rw [hF0] at eloop
  dsimp only at eloop
  rw [eloop, andThen_norm]
  refine ⟨(ibFold h0 memory threads threads).1, blk, ?_⟩
  rw [initBlocks_unfold]
  a2_simp
  rfl

/-- **`initBlocks`** (statement of `InitBlocksSpec` for the procedure itself) -/
theorem initBlocks_proc (c : Ctx) (hb : Blake2bHashSpec c) (h : Heap) (r0 : Ref) (h0 : Bytes) (memory threads : Nat)
    (hg : h.get r0 = some (.bytes h0)) (hlen : h0.length = 72)
    (geo : Geom (memory / threads) (memory / threads / 4) threads) (hmul : memory = threads * (memory / threads)) :
    ∃ h0' : Bytes,
      execProc c proc_initBlocks h [.parr r0, .u32 memory, .u32 threads] =
        .ok ((h.set r0 (.bytes h0')).alloc (.blocks (Argon2.initBlocks h0 memory threads)), [.blks (.mem h.mem.length)]) := by
  obtain ⟨h0', blk, e⟩ := initBlocks_body c hb h r0 h0 memory threads hg hlen geo hmul
  refine ⟨h0', ?_⟩
  rw [execProc_eq _ _ _ _ rfl]
  show procResult _ (exec c proc_initBlocks.body h
    [.parr r0, .u32 memory, .u32 threads, .undef, .undef, .undef, .undef, .undef, .undef]) = _
  rw [e, procResult_ret _ _ _ rfl]
  unfold ibHeap
  rw [Heap.popTo_push_alloc _ _ _ _ (Heap.stk_length_set _ _ _).symm]

end GoCrypt.A2IR.KeyIR
