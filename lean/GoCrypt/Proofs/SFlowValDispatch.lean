import GoCrypt.Proofs.SFlowVal
import GoCrypt.Model.Dispatch

/-!
# `crypt.Check` / `crypt.RegisterHash`: the regenerated programs against `Model/Dispatch.lean`

The case analysis is the model's (`prefixOf`): empty hash; leading `$` with no / an immediate / a
later delimiter; leading `_`; any other first byte — each followed by the two outcomes of the
registry lookup.  In every case `simp [sflowval]` runs the regenerated `Check` to its `return`.
In particular every slice expression is evaluated through `sliceStr`, whose out-of-bounds outcome
is `panic`: the proofs go through only because `hash[1:]` is reached with `hash = '$' :: rest` and
`hash[:i+2]` with `i + 2 ≤ len(hash)` (`indexDelim_lt'`).
-/

namespace GoCrypt.SFlowVal
open GoCrypt GoCrypt.Flow GoCrypt.SFlow GoCrypt.Dispatch

/-! ## Projections of `dprims` -/

@[sflowval] theorem dprims_zero {α} (T : String) : (dprims α).zero T =
    if T = "string" then some (.str [])
    else if T = "int" then some (.int 0)
    else if T = "bool" then some (.bool false)
    else if T = "error" then some .nil
    else none := rfl

@[sflowval] theorem dprims_call {α} (f : String) (args : List (Val (DVal α))) (st : DState α) :
    (dprims α).call f args st =
    if f = "(*sync.Map).Load" then
      match args with
      | [.ext .cache, .str p] =>
        (match mapLoad st.reg p with
         | some h => .ok (.pair (.ext (.handler h)) (.bool true), st)
         | none => .ok (.pair .nil (.bool false), st))
      | _ => .stuck "(*sync.Map).Load: operands"
    else if f = "(*sync.Map).Store" then
      match args with
      | [.ext .cache, .str p, .ext (.handler h)] => .ok (.unit, { st with reg := mapStore st.reg p h })
      | _ => .stuck "(*sync.Map).Store: operands"
    else .stuck ("function " ++ f) := rfl

@[sflowval] theorem dprims_apply {α} (v : Val (DVal α)) (args : List (Val (DVal α))) (st : DState α) :
    (dprims α).apply v args st =
    match v, args with
    | .ext (.handler h), [.str a, .str b] =>
      .ok (.ext (.result st.calls.length), { st with calls := st.calls ++ [(h, a, b)] })
    | .nil, _ => .panic "call of a nil function"
    | _, _ => .stuck "call: operands" := rfl

@[sflowval] theorem constVal_errHash {α} :
    constVal (dprims α) "crypt.ErrHash" = some (.ext (.errVar "crypt.ErrHash")) := rfl
@[sflowval] theorem constVal_cache {α} : constVal (dprims α) "crypt.hashCache" = some (.ext .cache) := rfl

/-- The type asserted in `Check` is the type `RegisterHash` stores (both regenerated). -/
theorem handlerTy_eq : handlerTy = "func(hash string, password string) error" := by decide

/-- `check.(func(hash, password string) error)` on a loaded handler. -/
@[sflowval] theorem unop_assert_handler {α} (f : α) :
    unop (dprims α) "assert:func(hash string, password string) error" (.ext (.handler f)) = .ok (.ext (.handler f)) := by
  have ht : tagged "assert:func(hash string, password string) error" =
      some ("assert", "func(hash string, password string) error") := by decide
  simp [unop, ht, dprims, handlerTy_eq]

/-! ## The registry primitives are the model's -/

@[sflowval] theorem mapLoad_eq_lookup {α} (r : Registry α) (p : Bytes) : mapLoad r p = lookup r p := by
  induction r with
  | nil => rfl
  | cons e r ih => obtain ⟨q, f⟩ := e; simp [mapLoad, lookup, ih]

theorem mapStore_eq_register {α} (r : Registry α) (p : Bytes) (f : α) : mapStore r p f = register r p f := rfl

/-! ## `Check` -/

/-- What `Check` does, in the interpreter's own terms: the outcome of the run, registry included. -/
def checkRun {α} (r : Registry α) (h pw : Bytes) : Outcome (DState α) (DVal α) :=
  match check r h pw with
  | .errHash => .ret [.ext (.errVar "crypt.ErrHash")] { reg := r, calls := [] }
  | .call f a b => .ret [.ext (.result 0)] { reg := r, calls := [(f, a, b)] }

syntax "sflow_check" (" [" Lean.Parser.Tactic.simpLemma,* "]")? : tactic
macro_rules
  | `(tactic| sflow_check) =>
    `(tactic| simp [sflowval, runCheck, checkRun, check, prefixOf, Gen.crypt.checkFlow])
  | `(tactic| sflow_check [$ls,*]) =>
    `(tactic| simp [sflowval, runCheck, checkRun, check, prefixOf, Gen.crypt.checkFlow, $ls,*])

theorem runCheck_eq {α} (r : Registry α) (h pw : Bytes) :
    runCheck r Gen.crypt.checkFlow h pw = checkRun r h pw := by
  cases h with
  | nil =>
    -- no leading `$`, no leading `_`: the empty prefix
    cases hl : lookup r [] <;> sflow_check [hl]
  | cons c rest =>
    by_cases hc : c = 36
    · subst hc
      have hd : Bytes.dollar = 36 := rfl
      -- `i := strings.IndexAny(hash[1:], "$,")`, with `hash[1:] = rest`
      generalize hk : indexAny rest [36, 44] = k
      rcases indexAny_cases rest with ⟨hi, e⟩ | ⟨hi, e⟩ | ⟨i, hi, e⟩
      · -- unterminated identifier: `i = -1`, the `else` branch returns ErrHash
        have : k = -1 := by rw [← hk, e]
        subst this
        sflow_check [hd, hi, hk]
      · -- empty identifier: `i = 0`
        have : k = 0 := by rw [← hk, e]
        subst this
        sflow_check [hd, hi, hk]
      · -- `prefix = hash[:i+2]`, in bounds because `i` indexes `hash[1:]`
        have hlt := indexDelim_lt' rest (i + 1) hi
        have hk' : k = ((i + 1 : Nat) : Int) := by rw [← hk, e]
        have hk0 : 0 ≤ k := by omega
        have hk1 : ¬ k = 0 := by omega
        have hsl : binop (ν := DVal α) "[:_]" (.str (36 :: rest)) (.int (k + 2)) =
            .ok (.str ((36 :: rest).take (i + 3))) := by
          have e2 : k + 2 = ((i + 3 : Nat) : Int) := by omega
          rw [binop_sliceTo, e2]
          exact sliceStr_to _ _ (by simp; omega)
        cases hl : lookup r (36 :: rest.take (i + 2)) <;>
          sflow_check [hd, hi, hk, hk0, hk1, hsl, hl]
    · have hc' : ((36 : UInt8) == c) = false := by
        simp only [beq_eq_false_iff_ne, ne_eq]; exact fun e => hc e.symm
      have hcd : ¬ c = Bytes.dollar := hc
      by_cases hu : c = 95
      · -- leading `_`
        subst hu
        cases hl : lookup r [95] <;> sflow_check [Bytes.underscore, Bytes.dollar, hl]
      · have hu' : ((95 : UInt8) == c) = false := by
          simp only [beq_eq_false_iff_ne, ne_eq]; exact fun e => hu e.symm
        have hcu : ¬ c = Bytes.underscore := hu
        cases hl : lookup r [] <;> sflow_check [hc', hu', hcd, hcu, hl]

/-! ## `RegisterHash` -/

theorem runRegister_eq {α} (r : Registry α) (p : Bytes) (f : α) :
    runFunc (dprims α) Gen.crypt.registerFlow [.str p, .ext (.handler f)] { reg := r } =
      .ret [] { reg := register r p f, calls := [] } := by
  simp [sflowval, Gen.crypt.registerFlow, mapStore_eq_register]

end GoCrypt.SFlowVal
