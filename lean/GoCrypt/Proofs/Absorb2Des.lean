import GoCrypt.Proofs.Absorb2Defs
import GoCrypt.Props.C03b

/-!
# Absorption for DES-crypt and BSDi extended DES (helper lemmas for `Props/C02b.lean`)
-/

namespace GoCrypt.Absorb2
open GoCrypt GoCrypt.Kdf GoCrypt.CryptSpec2 GoCrypt.C03bProofs

/-! ## the key step: `desKeyOf g = desKeyOf g' ↔ desNorm g = desNorm g'` -/

theorem and127_toNat (c : UInt8) : (c &&& 0x7F).toNat = c.toNat % 128 := by
  rw [UInt8.toNat_and]; exact Nat.and_two_pow_sub_one_eq_mod c.toNat 7

theorem desNorm_eq_iff (g g' : Bytes) :
    desNorm g = desNorm g' ↔ ∀ i, i < 8 → (g.getD i 0).toNat % 128 = (g'.getD i 0).toNat % 128 := by
  unfold desNorm
  constructor
  · intro h i hi
    have := congrArg (fun l => (l.getD i 0).toNat) h
    simp only [List.getD_eq_getElem?_getD, List.getElem?_map, List.getElem?_range hi, Option.map_some, Option.getD_some] at this
    rw [and127_toNat, and127_toNat] at this
    simpa [List.getD_eq_getElem?_getD] using this
  · intro h
    apply List.map_congr_left
    intro i hi
    have hi' : i < 8 := List.mem_range.1 hi
    rw [← UInt8.toNat_inj, and127_toNat, and127_toNat]
    exact h i hi'

theorem desKeyOf_toNat (g : Bytes) : (desKeyOf g).toNat = beNat (desKeyBytes g) := by
  rw [← desKey_eq, desKey_toNat]

theorem beNat_desKeyBytes (g : Bytes) :
    beNat (desKeyBytes g) =
      (g.getD 0 0).toNat % 128 * 2 * 256 ^ 7 + (g.getD 1 0).toNat % 128 * 2 * 256 ^ 6 +
      (g.getD 2 0).toNat % 128 * 2 * 256 ^ 5 + (g.getD 3 0).toNat % 128 * 2 * 256 ^ 4 +
      (g.getD 4 0).toNat % 128 * 2 * 256 ^ 3 + (g.getD 5 0).toNat % 128 * 2 * 256 ^ 2 +
      (g.getD 6 0).toNat % 128 * 2 * 256 + (g.getD 7 0).toNat % 128 * 2 := by
  simp only [desKeyBytes, range8', List.map_cons, List.map_nil, beNat, List.foldl_cons, List.foldl_nil, keyByte_toNat,
    Nat.reducePow]
  omega

theorem desKeyOf_eq_iff (g g' : Bytes) : desKeyOf g = desKeyOf g' ↔ desNorm g = desNorm g' := by
  rw [desNorm_eq_iff, ← UInt64.toNat_inj, desKeyOf_toNat, desKeyOf_toNat, beNat_desKeyBytes, beNat_desKeyBytes]
  simp only [Nat.reducePow]
  constructor
  · intro h i hi
    have : i = 0 ∨ i = 1 ∨ i = 2 ∨ i = 3 ∨ i = 4 ∨ i = 5 ∨ i = 6 ∨ i = 7 := by omega
    rcases this with rfl | rfl | rfl | rfl | rfl | rfl | rfl | rfl <;> omega
  · intro h
    rw [h 0 (by omega), h 1 (by omega), h 2 (by omega), h 3 (by omega), h 4 (by omega), h 5 (by omega), h 6 (by omega),
      h 7 (by omega)]

theorem desKey_eq_iff' (pw pw' : Bytes) : Des.desKey pw = Des.desKey pw' ↔ desEquiv pw pw' := by
  rw [desKey_eq, desKey_eq]; exact desKeyOf_eq_iff pw pw'

/-! ## block keys have clear parity positions -/

theorem mask_testBit : ∀ i, i < 64 → (0x0101010101010101 : Nat).testBit i = decide (i % 8 = 0) := by decide

theorem parityFree_iff (k : UInt64) : ParityFree k ↔ ∀ j, j < 8 → k.toNat / 2 ^ (8 * j) % 2 = 0 := by
  unfold ParityFree
  rw [← UInt64.toNat_inj, UInt64.toNat_and]
  have hm : (0x0101010101010101 : UInt64).toNat = 0x0101010101010101 := rfl
  rw [hm]
  have h0 : (0 : UInt64).toNat = 0 := rfl
  rw [h0]
  constructor
  · intro h j hj
    have := congrArg (fun n => n.testBit (8 * j)) h
    simp only [Nat.testBit_and, Nat.zero_testBit] at this
    rw [mask_testBit _ (by omega)] at this
    have h8 : 8 * j % 8 = 0 := by omega
    simp only [h8, decide_true, Bool.and_true] at this
    rw [Nat.testBit_eq_decide_div_mod_eq] at this
    have := of_decide_eq_false this
    omega
  · intro h
    apply Nat.eq_of_testBit_eq
    intro i
    rw [Nat.testBit_and, Nat.zero_testBit]
    by_cases hi : i < 64
    · rw [mask_testBit i hi]
      by_cases h8 : i % 8 = 0
      · have hj : i = 8 * (i / 8) := by omega
        have := h (i / 8) (by omega)
        rw [← hj] at this
        rw [Nat.testBit_eq_decide_div_mod_eq]
        simp [this]
      · simp [h8]
    · have : (0x0101010101010101 : Nat) < 2 ^ i :=
        Nat.lt_of_lt_of_le (by decide : (0x0101010101010101 : Nat) < 2 ^ 64) (Nat.pow_le_pow_right (by decide) (by omega))
      rw [Nat.testBit_lt_two_pow this, Bool.and_false]

theorem desKeyOf_parityFree (g : Bytes) : ParityFree (desKeyOf g) := by
  rw [parityFree_iff, desKeyOf_toNat, beNat_desKeyBytes]
  simp only [Nat.reducePow]
  intro j hj
  have : j = 0 ∨ j = 1 ∨ j = 2 ∨ j = 3 ∨ j = 4 ∨ j = 5 ∨ j = 6 ∨ j = 7 := by omega
  rcases this with rfl | rfl | rfl | rfl | rfl | rfl | rfl | rfl <;> simp only [Nat.reduceMul, Nat.reducePow] <;> omega

theorem desKey_parityFree (pw : Bytes) : ParityFree (Des.desKey pw) := by
  rw [desKey_eq]; exact desKeyOf_parityFree pw

/-! ## DES-crypt -/

theorem desModel_eq_fips' : desModel = DesFips.desWord := by
  funext key salt block; exact DesEq.encrypt_eq_fips key block salt

/-- `descrypt.Encrypt(key, 0, salt, n)` is `n` salted FIPS encryptions of the zero block. -/
theorem encrypt_eq_desCryptN (key : UInt64) (salt n : Nat) :
    Des.encrypt key 0 (UInt32.ofNat salt) n = desCryptN salt n key := by
  rw [encrypt_iterate, desModel_eq_fips']; rfl

theorem des_absorbs' (pw pw' : Bytes) (salt : Nat)
    (h : Des.encrypt (Des.desKey pw) 0 (UInt32.ofNat salt) 25 = Des.encrypt (Des.desKey pw') 0 (UInt32.ofNat salt) 25) :
    desEquiv pw pw' ∨
      (Des.desKey pw ≠ Des.desKey pw' ∧ desCrypt25 salt (Des.desKey pw) = desCrypt25 salt (Des.desKey pw')) := by
  by_cases hk : Des.desKey pw = Des.desKey pw'
  · exact Or.inl ((desKey_eq_iff' pw pw').1 hk)
  · refine Or.inr ⟨hk, ?_⟩
    rw [encrypt_eq_desCryptN, encrypt_eq_desCryptN] at h
    exact h

/-! ## BSDi: the key is the fold of the block keys; equivalence = equal block keys -/

theorem map_eq_map_iff_of {α β γ : Type} (f : α → β) (g : α → γ) (hfg : ∀ a b, f a = f b ↔ g a = g b) :
    ∀ l l' : List α, l.map f = l'.map f ↔ l.map g = l'.map g := by
  intro l
  induction l with
  | nil => intro l'; cases l' <;> simp
  | cons a l ih =>
    intro l'
    cases l' with
    | nil => simp
    | cons b l' => simp only [List.map_cons, List.cons.injEq, hfg a b, ih l']

theorem desextEquiv_iff_blockKeys (pw pw' : Bytes) : desextEquiv pw pw' ↔ desextBlockKeys pw = desextBlockKeys pw' :=
  (map_eq_map_iff_of desKeyOf desNorm desKeyOf_eq_iff _ _).symm

theorem bsdiKey_eq_fold (DES : UInt64 → Nat → UInt64 → UInt64) (pw : Bytes) :
    bsdiKey DES pw = bsdiFold DES (desextBlockKeys pw) := by
  unfold bsdiKey desextBlockKeys desextBlocks
  simp only [List.map_cons, bsdiFold, List.foldl_map, desKeyOf_take8]
  rfl

theorem desextKey_eq_fold (pw : Bytes) : Des.desextKey pw = bsdiFold DesFips.desWord (desextBlockKeys pw) := by
  rw [desextKey_eq, desModel_eq_fips', bsdiKey_eq_fold]

theorem desextBlockKeys_ne_nil (pw : Bytes) : desextBlockKeys pw ≠ [] := by
  simp [desextBlockKeys, desextBlocks]

theorem desextBlockKeys_parityFree (pw : Bytes) : ∀ d ∈ desextBlockKeys pw, ParityFree d := by
  intro d hd
  simp only [desextBlockKeys, List.mem_map] at hd
  obtain ⟨g, _, rfl⟩ := hd
  exact desKeyOf_parityFree g

/-! ## the folding chain -/

theorem bsdiFold_snoc (DES : UInt64 → Nat → UInt64 → UInt64) (ds : List UInt64) (d : UInt64) (h : ds ≠ []) :
    bsdiFold DES (ds ++ [d]) = bsdiStep DES (bsdiFold DES ds) d := by
  cases ds with
  | nil => exact absurd rfl h
  | cons a l => simp [bsdiFold, List.foldl_append]

theorem bsdiFold_singleton (DES : UInt64 → Nat → UInt64 → UInt64) (d : UInt64) : bsdiFold DES [d] = d := rfl

theorem bsdiStep_right_inj (DES : UInt64 → Nat → UInt64 → UInt64) (s d d' : UInt64)
    (h : bsdiStep DES s d = bsdiStep DES s d') : d = d' :=
  (UInt64.xor_right_inj _).1 h

theorem BsdiChainCollision.snoc {DES : UInt64 → Nat → UInt64 → UInt64} {ds ds' : List UInt64} (x : UInt64)
    (h : BsdiChainCollision DES ds ds') : BsdiChainCollision DES (ds ++ [x]) (ds' ++ [x]) := by
  cases h with
  | step pre pre' d d' post h h' hne hne' hs hc =>
    exact .step pre pre' d d' (post ++ [x]) (by rw [h]; simp) (by rw [h']; simp) hne hne' hs hc
  | extL pre' d' post h h' hne' =>
    exact .extL pre' d' (post ++ [x]) (by rw [h]; simp) (by rw [h']; simp) hne'
  | extR pre d post h h' hne =>
    exact .extR pre d (post ++ [x]) (by rw [h]; simp) (by rw [h']; simp) hne

theorem snoc_cases (l : List UInt64) (h : l ≠ []) : ∃ init last, l = init ++ [last] ∧ init.length < l.length :=
  ⟨l.dropLast, l.getLast h, (List.dropLast_concat_getLast h).symm, by
    rw [List.length_dropLast]; have := List.length_pos_iff.2 h; omega⟩

/-- Two non-empty block-key sequences with the same fold are equal, or their chains collide. -/
theorem bsdiFold_absorbs (DES : UInt64 → Nat → UInt64 → UInt64) :
    ∀ (n : Nat) (ds ds' : List UInt64), ds.length ≤ n → ds ≠ [] → ds' ≠ [] → bsdiFold DES ds = bsdiFold DES ds' →
      ds = ds' ∨ BsdiChainCollision DES ds ds' := by
  intro n
  induction n with
  | zero =>
    intro ds ds' hl hne
    exact absurd (List.eq_nil_of_length_eq_zero (by omega)) hne
  | succ n ih =>
    intro ds ds' hl hne hne' hf
    obtain ⟨init, d, rfl, hlt⟩ := snoc_cases ds hne
    obtain ⟨init', d', rfl, _⟩ := snoc_cases ds' hne'
    by_cases hi : init = []
    · subst hi
      by_cases hi' : init' = []
      · subst hi'
        left
        simp only [List.nil_append, bsdiFold_singleton] at hf
        rw [hf]
      · right
        rw [bsdiFold_snoc DES init' d' hi'] at hf
        simp only [List.nil_append, bsdiFold_singleton] at hf
        exact .extL init' d' [] (by rw [hf]; rfl) rfl hi'
    · by_cases hi' : init' = []
      · subst hi'
        right
        rw [bsdiFold_snoc DES init d hi] at hf
        simp only [List.nil_append, bsdiFold_singleton] at hf
        exact .extR init d [] rfl (by rw [← hf]; rfl) hi
      · rw [bsdiFold_snoc DES init d hi, bsdiFold_snoc DES init' d' hi'] at hf
        by_cases hs : bsdiFold DES init = bsdiFold DES init'
        · rw [hs] at hf
          have hd := bsdiStep_right_inj DES _ _ _ hf
          subst hd
          rcases ih init init' (by simp at hlt hl; omega) hi hi' hs with e | c
          · left; rw [e]
          · right; exact c.snoc d
        · right
          exact .step init init' d d' [] rfl rfl hi hi' hs hf

theorem desextKey_absorbs' (pw pw' : Bytes) (h : Des.desextKey pw = Des.desextKey pw') :
    desextEquiv pw pw' ∨ BsdiChainCollision DesFips.desWord (desextBlockKeys pw) (desextBlockKeys pw') := by
  rw [desextKey_eq_fold, desextKey_eq_fold] at h
  rcases bsdiFold_absorbs DesFips.desWord _ _ _ (Nat.le_refl _) (desextBlockKeys_ne_nil pw) (desextBlockKeys_ne_nil pw') h
    with e | c
  · exact Or.inl ((desextEquiv_iff_blockKeys pw pw').2 e)
  · exact Or.inr c

theorem desextKey_of_equiv (pw pw' : Bytes) (h : desextEquiv pw pw') : Des.desextKey pw = Des.desextKey pw' := by
  rw [desextKey_eq_fold, desextKey_eq_fold, (desextEquiv_iff_blockKeys pw pw').1 h]

/-- A located chain collision between sequences of block keys yields one of the two unlocated events. -/
theorem BsdiChainCollision.unlocated {DES : UInt64 → Nat → UInt64 → UInt64} {ds ds' : List UInt64}
    (hp : ∀ d ∈ ds, ParityFree d) (hp' : ∀ d ∈ ds', ParityFree d) (h : BsdiChainCollision DES ds ds') :
    BsdiStepCollision DES ∨ BsdiStateIsBlockKey DES := by
  cases h with
  | step pre pre' d d' post h h' hne hne' hs hc =>
    left
    exact ⟨_, _, d, d', hp d (by rw [h]; simp), hp' d' (by rw [h']; simp), hs, hc⟩
  | extL pre' d' post h h' hne' =>
    right
    exact ⟨bsdiFold DES pre', d', hp' d' (by rw [h']; simp), hp _ (by rw [h]; simp)⟩
  | extR pre d post h h' hne =>
    right
    exact ⟨bsdiFold DES pre, d, hp d (by rw [h]; simp), hp' _ (by rw [h']; simp)⟩

/-! ## DES ignores the parity positions of its key -/

theorem PC1_positions : ∀ i ∈ DesFips.PC1, i % 8 ≠ 0 ∧ 1 ≤ i ∧ i ≤ 64 := by decide

theorem wordBits_getD (k : UInt64) (j : Nat) (hj : j < 64) : (DesFips.wordBits k).getD j false = k.toNat.testBit (63 - j) := by
  unfold DesFips.wordBits DesFips.ofNat
  rw [List.getD_eq_getElem?_getD, List.getElem?_map, List.getElem?_range hj]
  rfl

theorem testBit_of_or_mask (k k' : UInt64) (h : k ||| 0x0101010101010101 = k' ||| 0x0101010101010101) (b : Nat)
    (hb : b < 64) (h8 : b % 8 ≠ 0) : k.toNat.testBit b = k'.toNat.testBit b := by
  have := congrArg (fun x : UInt64 => x.toNat.testBit b) h
  simp only [UInt64.toNat_or, Nat.testBit_or] at this
  have hm : (0x0101010101010101 : UInt64).toNat = 0x0101010101010101 := rfl
  rw [hm, mask_testBit b hb] at this
  simpa [h8] using this

theorem select_PC1_parity (k k' : UInt64) (h : k ||| 0x0101010101010101 = k' ||| 0x0101010101010101) :
    DesFips.select DesFips.PC1 (DesFips.wordBits k) = DesFips.select DesFips.PC1 (DesFips.wordBits k') := by
  unfold DesFips.select
  apply List.map_congr_left
  intro i hi
  obtain ⟨h8, h1, h64⟩ := PC1_positions i hi
  rw [wordBits_getD k _ (by omega), wordBits_getD k' _ (by omega)]
  exact testBit_of_or_mask k k' h _ (by omega) (by omega)

/-- Two 64-bit keys that agree outside the parity positions are the same DES key. -/
theorem desWord_parity (k k' : UInt64) (h : k ||| 0x0101010101010101 = k' ||| 0x0101010101010101) (salt : Nat)
    (b : UInt64) : DesFips.desWord k salt b = DesFips.desWord k' salt b := by
  unfold DesFips.desWord DesFips.des DesFips.keySchedule
  rw [select_PC1_parity k k' h]

theorem desCryptN_parity (k k' : UInt64) (h : k ||| 0x0101010101010101 = k' ||| 0x0101010101010101) (salt rounds : Nat) :
    desCryptN salt rounds k = desCryptN salt rounds k' := by
  unfold desCryptN
  have : DesFips.desWord k salt = DesFips.desWord k' salt := funext (desWord_parity k k' h salt)
  rw [this]

/-- BSDi at the level of the stored block. -/
theorem desext_absorbs' (pw pw' : Bytes) (salt rounds : Nat)
    (h : Des.encrypt (Des.desextKey pw) 0 (UInt32.ofNat salt) rounds =
         Des.encrypt (Des.desextKey pw') 0 (UInt32.ofNat salt) rounds) :
    desextEquiv pw pw' ∨ BsdiChainCollision DesFips.desWord (desextBlockKeys pw) (desextBlockKeys pw') ∨
      (Des.desextKey pw ≠ Des.desextKey pw' ∧
        desCryptN salt rounds (Des.desextKey pw) = desCryptN salt rounds (Des.desextKey pw')) := by
  by_cases hk : Des.desextKey pw = Des.desextKey pw'
  · rcases desextKey_absorbs' pw pw' hk with e | c
    · exact Or.inl e
    · exact Or.inr (Or.inl c)
  · rw [encrypt_eq_desCryptN, encrypt_eq_desCryptN] at h
    exact Or.inr (Or.inr ⟨hk, h⟩)

theorem desext_absorbs'' (pw pw' : Bytes) (salt rounds : Nat)
    (h : Des.encrypt (Des.desextKey pw) 0 (UInt32.ofNat salt) rounds =
         Des.encrypt (Des.desextKey pw') 0 (UInt32.ofNat salt) rounds) :
    desextEquiv pw pw' ∨ BsdiChainCollision DesFips.desWord (desextBlockKeys pw) (desextBlockKeys pw') ∨
      ParityTwins (Des.desextKey pw) (Des.desextKey pw') ∨ DesCryptNCollision salt rounds := by
  rcases desext_absorbs' pw pw' salt rounds h with e | c | ⟨hk, hh⟩
  · exact Or.inl e
  · exact Or.inr (Or.inl c)
  · by_cases hp : Des.desextKey pw ||| 0x0101010101010101 = Des.desextKey pw' ||| 0x0101010101010101
    · exact Or.inr (Or.inr (Or.inl ⟨hk, hp⟩))
    · exact Or.inr (Or.inr (Or.inr ⟨_, _, hp, hh⟩))

/-- Parity twins do give the same stored block: the disjunct cannot be dropped. -/
theorem desext_parityTwins_same (pw pw' : Bytes) (salt rounds : Nat)
    (h : Des.desextKey pw ||| 0x0101010101010101 = Des.desextKey pw' ||| 0x0101010101010101) :
    Des.encrypt (Des.desextKey pw) 0 (UInt32.ofNat salt) rounds =
      Des.encrypt (Des.desextKey pw') 0 (UInt32.ofNat salt) rounds := by
  rw [encrypt_eq_desCryptN, encrypt_eq_desCryptN]
  exact desCryptN_parity _ _ h salt rounds

end GoCrypt.Absorb2
