import GoCrypt.Proofs.CodecIRUValue
import GoCrypt.Proofs.CodecIRLoop

/-!
# Codec IR: one iteration of the loop over `ti.Fields` in `Unmarshal` — the program side

The loop body in phases (end of group; no more fragments; skipped optional value; the three-way dispatch), each evaluated on
an explicit environment (`tEnv`: the slots the loop reads, the others collected in a junk list).  Helper lemmas only.
-/

namespace GoCrypt.CIR
open GoCrypt.Codec GoCrypt.Gen.codecIR GoCrypt.Parse
open GoCrypt.TIIR (RType Res kindNum fiType fiObj tiObj encVal optsVals Reps RepOpt)

def uLoop : Stmt := (unmarshalTopIR.body.drop 15).head
def uBody : Stmt := uLoop.forBody
def uP1 : Stmt := uBody.take 2
def uP2 : Stmt := (uBody.drop 2).take 1
def uP3 : Stmt := (uBody.drop 3).take 1
def uP4 : Stmt := (uBody.drop 4).take 1
def uDisp : Stmt := uBody.drop 5
def uG : Stmt := uDisp.iteThen'
def uV : Stmt := uDisp.iteElse'.iteThen'
def uE : Stmt := uDisp.iteElse'.iteElse'

theorem uBody_split (c : Ctx) (m : Mem) (env : Env) :
    exec c uBody m env =
      (exec c uP1 m env).andThen fun m env => (exec c uP2 m env).andThen fun m env => (exec c uP3 m env).andThen fun m env =>
        (exec c uP4 m env).andThen (exec c uDisp) := by
  rw [exec_take_drop c m env 2 uBody]
  congr 1; funext m env
  rw [exec_take_drop c m env 1 (uBody.drop 2)]
  congr 1; funext m env
  show exec c (uBody.drop 3) m env = _
  rw [exec_take_drop c m env 1 (uBody.drop 3)]
  congr 1; funext m env
  show exec c (uBody.drop 4) m env = _
  rw [exec_take_drop c m env 1 (uBody.drop 4)]
  rfl

/-- The environment of `Unmarshal` inside the loop: `hash`, `v`, `val`, `tree`, `ti`, the loop state, `fi`, `frag`, the range
variables; `j` holds the 27 other slots. -/
def tEnv (hash : Bytes) (t t0 : RType) (pv : Val) (as : List Nat) (tia : Nat) (addrs : List Nat)
    (fragIdx ngv : Int) (gv : Val) (nv nr : Int) (i : Int) (fiv fragv : Val) (j : List Val) : Env :=
  [.str hash, .dptr t, .root t0, .recd "Tree" [pv, .nodes as], j.getD 0 .undef, .ptr tia, .int fragIdx, .int ngv, gv, .int nv, .int nr,
   j.getD 1 .undef, fiv, fragv, j.getD 2 .undef, j.getD 3 .undef, j.getD 4 .undef, j.getD 5 .undef, j.getD 6 .undef, j.getD 7 .undef,
   j.getD 8 .undef, j.getD 9 .undef, j.getD 10 .undef, .ptrs addrs, .int i, j.getD 11 .undef, j.getD 12 .undef, j.getD 13 .undef,
   j.getD 14 .undef, j.getD 15 .undef, j.getD 16 .undef, j.getD 17 .undef, j.getD 18 .undef, j.getD 19 .undef, j.getD 20 .undef,
   j.getD 21 .undef, j.getD 22 .undef, j.getD 23 .undef, j.getD 24 .undef, j.getD 25 .undef, j.getD 26 .undef]

/-- `env` is a loop environment with these values in the named slots. -/
def IsT (env : Env) (hash : Bytes) (t t0 : RType) (pv : Val) (as : List Nat) (tia : Nat) (addrs : List Nat)
    (fragIdx ngv : Int) (gv : Val) (nv nr : Int) (i : Int) (fiv fragv : Val) : Prop :=
  ∃ j, env = tEnv hash t t0 pv as tia addrs fragIdx ngv gv nv nr i fiv fragv j

/-- Closes `IsT [explicit list] …`. -/
macro "is_t" : tactic =>
  `(tactic| exact ⟨[_, _, _, _, _, _, _, _, _, _, _, _, _, _, _, _, _, _, _, _, _, _, _, _, _, _, _], rfl⟩)

theorem tree_frags (m : Mem) (pv : Val) (as : List Nat) : fieldOf m (.recd "Tree" [pv, .nodes as]) 1 = .ok (.nodes as) := rfl
theorem tree_pfx (m : Mem) (pv : Val) (as : List Nat) : fieldOf m (.recd "Tree" [pv, .nodes as]) 0 = .ok pv := rfl

theorem ti_fields (m : Mem) (a : Nat) (s : TIIR.Val) (t0 : RType) (hp : TIIR.Val) (addrs : List Nat) (n : Int)
    (h : m.heap[a]? = some (tiObj s t0 hp addrs n)) : fieldOf m (.ptr a) 3 = .ok (.ptrs addrs) := by simp [fieldOf, h, tiObj, ofTI]
theorem ti_numReq (m : Mem) (a : Nat) (s : TIIR.Val) (t0 : RType) (hp : TIIR.Val) (addrs : List Nat) (n : Int)
    (h : m.heap[a]? = some (tiObj s t0 hp addrs n)) : fieldOf m (.ptr a) 4 = .ok (.int n) := by simp [fieldOf, h, tiObj, ofTI]
theorem ti_hp (m : Mem) (a : Nat) (s : TIIR.Val) (t0 : RType) (hp : TIIR.Val) (addrs : List Nat) (n : Int)
    (h : m.heap[a]? = some (tiObj s t0 hp addrs n)) : fieldOf m (.ptr a) 2 = .ok (ofTI hp) := by simp [fieldOf, h, tiObj]

theorem indexVal_nodes (l : List Nat) (i : Nat) (a : Nat) (hi : l[i]? = some a) : indexVal (.nodes l) (i : Int) = .ok (.node a) := by
  have : ¬ ((i : Int) < 0) := by omega
  simp [indexVal, this, hi]

theorem isNilVal_parseErr (o e : Nat) : isNilVal (.parseErr o e) = .ok false := rfl

def isNilV : Val → Bool
  | .nil => true
  | _ => false

/-- The `EOF` error record of `Unmarshal` (`unexpected EOF` / `prefix not found`). -/
def eofRec (hashLen : Nat) (fi : FieldInfo) (st : RType) (msg : Bytes) : Val :=
  .recd "UnmarshalTypeError" [.str [69, 79, 70], .rtype (fiType fi), .int hashLen, .msg [.typeStr st], .name fi.name, .str msg]

theorem absErrU_eofRec (heap : TIIR.Heap) (n : Nat) (fi : FieldInfo) (st : RType) (msg : Bytes) (cls : MsgClass)
    (h : msgClassU (.str msg) = some cls) : absErrU heap (eofRec n fi st msg) = some (.ute "EOF" n fi.name cls) := by
  simp [eofRec, absErrU, kindName, h]

/-- The struct-level error record of `Unmarshal` (`excessive prefix` / `excessive fragment`). -/
def topRec (kl : Bytes) (fin : Nat) (t : RType) (msg : Bytes) : Val :=
  .recd "UnmarshalTypeError" [.str kl, .rtype t, .int fin, .str [], .str [], .str msg]

theorem absErrU_topRec (heap : TIIR.Heap) (kl : Bytes) (kind : String) (n : Nat) (t : RType) (msg : Bytes) (cls : MsgClass)
    (hk : kindName kl = some kind) (h : msgClassU (.str msg) = some cls) :
    absErrU heap (topRec kl n t msg) = some (.ute kind n "" cls) := by
  simp [topRec, absErrU, hk, h]

section phases
variable (c : Ctx) (hash : Bytes) (t t0 : RType) (pv : Val) (as : List Nat) (tia : Nat) (addrs : List Nat)
  (mm : Mem) (st tt : RType) (hpv : TIIR.Val) (nreq : Int)
  (hti : mm.heap[tia]? = some (tiObj (.rtype st) tt hpv addrs nreq))
  (fi : FieldInfo) (a : Nat) (ha : mm.heap[a]? = some (fiObj fi))

include ha in
/-- Phase 1: `fi := ti.Fields[i]`; the end of a group. `gEnd`/`hec` describe the group node when there is one. -/
theorem uP1_spec (i : Nat) (hi : addrs[i]? = some a) (fragIdx ngv : Int) (gv : Val) (nv nr : Int) (fiv fragv : Val) (j : List Val)
    (hgv : gv = .nil ∨ ∃ ga gEnd, gv = .node ga ∧ ErrCalls c mm ga tia a [103, 114, 111, 117, 112] "group" gEnd fi st) :
    ((fi.opts.group = true ∨ gv = .nil) ∧
      exec c uP1 mm (tEnv hash t t0 pv as tia addrs fragIdx ngv gv nv nr i fiv fragv j) =
        .norm mm (tEnv hash t t0 pv as tia addrs fragIdx ngv gv nv nr i (.ptr a) fragv j)) ∨
    (fi.opts.group = false ∧ ∃ ga gEnd, gv = .node ga ∧ ErrCalls c mm ga tia a [103, 114, 111, 117, 112] "group" gEnd fi st ∧
      ((0 < ngv ∧ exec c uP1 mm (tEnv hash t t0 pv as tia addrs fragIdx ngv gv nv nr i fiv fragv j) =
          .ret mm [errRecK [103, 114, 111, 117, 112] gEnd fi st (.str excessiveFragmentLit)]) ∨
       (¬ 0 < ngv ∧ exec c uP1 mm (tEnv hash t t0 pv as tia addrs fragIdx ngv gv nv nr i fiv fragv j) =
          .norm mm (tEnv hash t t0 pv as tia addrs (fragIdx + 1) ngv .nil nv nr i (.ptr a) fragv j)))) := by
  simp only [uP1, uBody, uLoop, unmarshalTopIR, Stmt.drop, Stmt.head, Stmt.forBody, Stmt.take, tEnv]
  cases hgr : fi.opts.group
  · rcases hgv with rfl | ⟨ga, gEnd, rfl, hec⟩
    · refine Or.inl ⟨Or.inr rfl, ?_⟩
      ci_simp [indexVal_ptrs addrs i a hi, fi_group mm a fi ha, hgr]
    · refine Or.inr ⟨rfl, ga, gEnd, rfl, hec, ?_⟩
      have hcall := hec.str excessiveFragmentLit
      simp only [excessiveFragmentLit] at hcall
      by_cases hn : 0 < ngv
      · refine Or.inl ⟨hn, ?_⟩
        ci_simp [indexVal_ptrs addrs i a hi, fi_group mm a fi ha, hgr, isNilVal_node, hn, hcall, errRecK, excessiveFragmentLit]
      · refine Or.inr ⟨hn, ?_⟩
        ci_simp [indexVal_ptrs addrs i a hi, fi_group mm a fi ha, hgr, isNilVal_node, hn]
  · refine Or.inl ⟨Or.inl rfl, ?_⟩
    ci_simp [indexVal_ptrs addrs i a hi, fi_group mm a fi ha, hgr]

include ha hti in
/-- Phase 2: no more fragments. -/
theorem uP2_spec (fragIdx : Nat) (ngv : Int) (gv : Val) (nv nr i : Int) (fragv : Val) (j : List Val) :
    exec c uP2 mm (tEnv hash t t0 pv as tia addrs fragIdx ngv gv nv nr i (.ptr a) fragv j) =
      (if as.length ≤ fragIdx then
        (if fi.opts.omitEmpty then .cont mm (tEnv hash t t0 pv as tia addrs fragIdx ngv gv nv nr i (.ptr a) fragv j)
         else .ret mm [eofRec hash.length fi st unexpectedEOFLit])
       else .norm mm (tEnv hash t t0 pv as tia addrs fragIdx ngv gv nv nr i (.ptr a) fragv j)) := by
  simp only [uP2, uBody, uLoop, unmarshalTopIR, Stmt.drop, Stmt.head, Stmt.forBody, Stmt.take, tEnv]
  by_cases hle : as.length ≤ fragIdx
  · cases hom : fi.opts.omitEmpty
    · ci_simp [tree_frags, hle, fi_omitEmpty mm a fi ha, hom, fi_type mm a fi ha, fi_name mm a fi ha, ti_struct mm tia _ _ _ _ _ hti,
        eofRec, unexpectedEOFLit]
    · ci_simp [tree_frags, hle, fi_omitEmpty mm a fi ha, hom]
  · ci_simp [tree_frags, hle]

include ha in
/-- Phase 3: an optional value is skipped while more values are needed. -/
theorem uP3_spec (fragIdx ngv : Int) (gv : Val) (hgv : gv = .nil ∨ ∃ ga, gv = .node ga) (nv nr i : Int) (fragv : Val) (j : List Val) :
    exec c uP3 mm (tEnv hash t t0 pv as tia addrs fragIdx ngv gv nv nr i (.ptr a) fragv j) =
      (if fi.opts.omitEmpty = true ∧ isNilV gv = true ∧ nv - nr ≤ 0 then
        .cont mm (tEnv hash t t0 pv as tia addrs fragIdx ngv gv (nv - 1) nr i (.ptr a) fragv j)
       else .norm mm (tEnv hash t t0 pv as tia addrs fragIdx ngv gv nv nr i (.ptr a) fragv j)) := by
  simp only [uP3, uBody, uLoop, unmarshalTopIR, Stmt.drop, Stmt.head, Stmt.forBody, Stmt.take, tEnv]
  cases hom : fi.opts.omitEmpty
  · ci_simp [fi_omitEmpty mm a fi ha, hom]
    simp
  · rcases hgv with rfl | ⟨ga, rfl⟩
    · by_cases hle : nv - nr ≤ 0
      · ci_simp [fi_omitEmpty mm a fi ha, hom, hle]
        simp [hle, isNilV]
      · ci_simp [fi_omitEmpty mm a fi ha, hom, hle]
        simp [hle, isNilV]
    · ci_simp [fi_omitEmpty mm a fi ha, hom, isNilVal_node]
      simp [isNilV]

omit hti ha in
/-- Phase 4: `frag := tree.Fragments[fragIdx]`. -/
theorem uP4_spec (fragIdx : Nat) (fa : Nat) (hfa : as[fragIdx]? = some fa) (ngv : Int) (gv : Val) (nv nr i : Int) (fiv fragv : Val)
    (j : List Val) :
    exec c uP4 mm (tEnv hash t t0 pv as tia addrs fragIdx ngv gv nv nr i fiv fragv j) =
      .norm mm (tEnv hash t t0 pv as tia addrs fragIdx ngv gv nv nr i fiv (.node fa) j) := by
  simp only [uP4, uBody, uLoop, unmarshalTopIR, Stmt.drop, Stmt.head, Stmt.forBody, Stmt.take, tEnv]
  cases fiv <;> ci_simp [tree_frags, indexVal_nodes as fragIdx fa hfa]

theorem uDisp_eq : uDisp = .ite
    (.land (.fld (.var 12) 5) (.lor (.eq (.ext1 .nodeType (.var 13)) (.int 1)) (.land (.eq (.ext1 .nodeType (.var 13)) (.int 2)) (.not (.fld (.var 12) 4)))))
    uG (.ite (.land (.not (.fld (.var 12) 5)) (.eq (.ext1 .nodeType (.var 13)) (.int 2))) uV uE) := rfl

/-- Which clause of the `switch` of the loop body a field and a fragment select. -/
def dispPick (fi : FieldInfo) (isGroupFrag : Bool) : Stmt :=
  if fi.opts.group && (isGroupFrag || !fi.opts.omitEmpty) then uG else if !fi.opts.group && !isGroupFrag then uV else uE

include ha in
omit hti in
theorem uDisp_spec (fa : Nat) (isG : Bool) (hnt : ext1M mm .nodeType (.node fa) = .ok (.int (if isG then 1 else 2)))
    (fragIdx ngv : Int) (gv : Val) (nv nr i : Int) (j : List Val) :
    exec c uDisp mm (tEnv hash t t0 pv as tia addrs fragIdx ngv gv nv nr i (.ptr a) (.node fa) j) =
      exec c (dispPick fi isG) mm (tEnv hash t t0 pv as tia addrs fragIdx ngv gv nv nr i (.ptr a) (.node fa) j) := by
  rw [uDisp_eq]
  simp only [tEnv, dispPick]
  cases isG <;> cases hgr : fi.opts.group <;> cases hom : fi.opts.omitEmpty <;>
    ci_simp [fi_group mm a fi ha, hgr, fi_omitEmpty mm a fi ha, hom, hnt] <;> simp

/-- The `… not found` record. -/
def notFoundMsg (fi : FieldInfo) : Val := .str (litOf (fieldKindName fi) ++ notFoundSuffix)

theorem msgClassU_notFound (fi : FieldInfo) : msgClassU (notFoundMsg fi) = some (.notFound (fieldKindName fi)) := by
  unfold notFoundMsg fieldKindName
  split
  · decide
  · split <;> decide

include ha in
omit hti in
/-- The default clause: an optional field is skipped, a required one is `not found`. -/
theorem uE_spec (hfs : FieldStringOk c.ext) (fa : Nat) (kl : Bytes) (kind : String) (fin : Nat)
    (hec : ErrCalls c mm fa tia a kl kind fin fi st)
    (fragIdx ngv : Int) (gv : Val) (nv nr i : Int) (j : List Val) :
    exec c uE mm (tEnv hash t t0 pv as tia addrs fragIdx ngv gv nv nr i (.ptr a) (.node fa) j) =
      (if fi.opts.omitEmpty then .cont mm (tEnv hash t t0 pv as tia addrs fragIdx ngv gv nv nr i (.ptr a) (.node fa) j)
       else .ret mm [errRecK kl fin fi st (notFoundMsg fi)]) := by
  have hstr := hfs mm a fi ha
  have hcall := hec.str (litOf (fieldKindName fi) ++ notFoundSuffix)
  simp only [notFoundSuffix] at hcall
  simp only [uE, uDisp, uBody, uLoop, unmarshalTopIR, Stmt.drop, Stmt.head, Stmt.forBody, Stmt.iteElse', tEnv]
  cases hom : fi.opts.omitEmpty
  · ci_simp [fi_omitEmpty mm a fi ha, hom, hstr, hcall, errRecK, notFoundMsg, notFoundSuffix]
  · ci_simp [fi_omitEmpty mm a fi ha, hom]

/-- The condition of the `Param/value` clause. -/
def valueMatches (fi : FieldInfo) (s0 : Bytes) : Bool :=
  decide (fi.opts.param = []) || (fi.opts.param ++ [Bytes.equals]).isPrefixOf s0

include ha in
omit hti in
/-- The `Param/value` clause when the fragment is not this field's. -/
theorem uV_nomatch (hfs : FieldStringOk c.ext) (fa : Nat) (s0 : Bytes) (pos fin : Nat) (hn : mm.nodes[fa]? = some (.value s0 pos fin))
    (hec : ErrCalls c mm fa tia a valueLit "value" fin fi st) (hm : valueMatches fi s0 = false)
    (fragIdx ngv : Int) (gv : Val) (nv nr i : Int) (j : List Val) :
    exec c uV mm (tEnv hash t t0 pv as tia addrs fragIdx ngv gv nv nr i (.ptr a) (.node fa) j) =
      (if fi.opts.omitEmpty then .cont mm (tEnv hash t t0 pv as tia addrs fragIdx ngv gv nv nr i (.ptr a) (.node fa) j)
       else .ret mm [errRecK valueLit fin fi st (notFoundMsg fi)]) := by
  have hstr := hfs mm a fi ha
  have hcall := hec.str (litOf (fieldKindName fi) ++ notFoundSuffix)
  simp only [notFoundSuffix] at hcall
  simp only [valueMatches, Bool.or_eq_false_iff, decide_eq_false_iff_not] at hm
  obtain ⟨hp, hpre⟩ := hm
  have hpre' : (fi.opts.param ++ [61]).isPrefixOf s0 = false := hpre
  simp only [uV, uDisp, uBody, uLoop, unmarshalTopIR, Stmt.drop, Stmt.head, Stmt.forBody, Stmt.iteElse', Stmt.iteThen', tEnv]
  cases hom : fi.opts.omitEmpty
  · ci_simp [fi_omitEmpty mm a fi ha, hom, hstr, hcall, errRecK, notFoundMsg, notFoundSuffix, fi_param mm a fi ha, hp,
      ext1M_nodeString mm fa s0 pos fin hn, ext2, hpre', valueLit]
  · ci_simp [fi_omitEmpty mm a fi ha, hom, fi_param mm a fi ha, hp, ext1M_nodeString mm fa s0 pos fin hn, ext2, hpre']

include ha in
omit hti in
/-- The `Param/value` clause when the fragment is this field's: `unmarshalIndirect`, `unmarshal`, the counters. -/
theorem uV_match (fa : Nat) (s0 : Bytes) (pos fin : Nat) (hn : mm.nodes[fa]? = some (.value s0 pos fin))
    (hm : valueMatches fi s0 = true)
    (hfb : rootFieldByIndex c.structs mm t0 (fi.index.map Int.ofNat) = .ok (.cell (fiType fi) fi.index 0 false))
    (mm1 mm2 : Mem) (cv rv : Val) (h8 : c.call 8 mm [.cell (fiType fi) fi.index 0 false] = .ok (mm1, [cv]))
    (hcv : ∃ tc ic kc, cv = .cell tc ic kc false)
    (h6 : c.call 6 mm1 [.node fa, .ptr tia, .ptr a, cv] = .ok (mm2, [rv])) (hheap : mm2.heap = mm.heap)
    (hrv : rv = .nil ∨ (absErrU mm.heap rv).isSome)
    (fragIdx ngv : Int) (gv : Val) (nv nr i : Int) (j : List Val) :
    (rv ≠ .nil ∧ exec c uV mm (tEnv hash t t0 pv as tia addrs fragIdx ngv gv nv nr i (.ptr a) (.node fa) j) = .ret mm2 [rv]) ∨
    (rv = .nil ∧ ∃ env', exec c uV mm (tEnv hash t t0 pv as tia addrs fragIdx ngv gv nv nr i (.ptr a) (.node fa) j) = .norm mm2 env' ∧
      IsT env' hash t t0 pv as tia addrs (if fi.opts.inline then fragIdx else fragIdx + 1) ngv gv (nv - 1)
        (if fi.opts.omitEmpty then nr else nr - 1) i (.ptr a) (.node fa)) := by
  obtain ⟨tc, ic, kc, rfl⟩ := hcv
  have ha2 : mm2.heap[a]? = some (fiObj fi) := by rw [hheap]; exact ha
  have hcond : (decide (fi.opts.param = []) = false → (fi.opts.param ++ [61]).isPrefixOf s0 = true) := by
    intro hp
    simpa [valueMatches, hp, Bytes.equals] using hm
  have hfb' : ext2M c mm .valFieldByIndex (.root t0) (.ints (fi.index.map Int.ofNat)) = .ok (.cell (fiType fi) fi.index 0 false) := hfb
  simp only [uV, uDisp, uBody, uLoop, unmarshalTopIR, Stmt.drop, Stmt.head, Stmt.forBody, Stmt.iteElse', Stmt.iteThen', tEnv]
  rcases hrv with rfl | hrv
  · refine Or.inr ⟨rfl, ?_⟩
    by_cases hp : fi.opts.param = []
    · cases hom : fi.opts.omitEmpty <;> cases hinl : fi.opts.inline <;>
        (refine ⟨?_, ?_, ?_⟩
         rotate_left
         · ci_simp [fi_param mm a fi ha, hp, fi_index mm a fi ha, hfb', h8, h6, fi_omitEmpty mm2 a fi ha2, hom, fi_inline mm2 a fi ha2, hinl]
           rfl
         · is_t)
    · have hpre := hcond (by simp [hp])
      cases hom : fi.opts.omitEmpty <;> cases hinl : fi.opts.inline <;>
        (refine ⟨?_, ?_, ?_⟩
         rotate_left
         · ci_simp [fi_param mm a fi ha, hp, ext1M_nodeString mm fa s0 pos fin hn, ext2, hpre, fi_index mm a fi ha, hfb', h8, h6,
             fi_omitEmpty mm2 a fi ha2, hom, fi_inline mm2 a fi ha2, hinl]
           rfl
         · is_t)
  · refine Or.inl ⟨by rintro rfl; simp [absErrU] at hrv, ?_⟩
    by_cases hp : fi.opts.param = []
    · cases rv <;> simp only [absErrU, Option.isSome_none, Bool.false_eq_true] at hrv <;>
        ci_simp [fi_param mm a fi ha, hp, fi_index mm a fi ha, hfb', h8, h6, isNilVal_parseErr]
    · have hpre := hcond (by simp [hp])
      cases rv <;> simp only [absErrU, Option.isSome_none, Bool.false_eq_true] at hrv <;>
        ci_simp [fi_param mm a fi ha, hp, ext1M_nodeString mm fa s0 pos fin hn, ext2, hpre, fi_index mm a fi ha, hfb', h8, h6, isNilVal_parseErr]
end phases

/-! ## The grouped-param clause -/

def uG1 : Stmt := uG.take 4
def uGLoop : Stmt := (uG.drop 4).head
def uG5 : Stmt := uG.drop 5

theorem uG_split (c : Ctx) (m : Mem) (env : Env) :
    exec c uG m env = (exec c uG1 m env).andThen fun m env =>
      (loop (fun m env => eval c m env uGLoop.forCond >>= asBool) (exec c uGLoop.forBody) (exec c uGLoop.forPost) c.fuel m env).andThen
        (exec c uG5) := by
  rw [exec_take_drop c m env 4 uG]; rfl

/-- The loop environment with the slots of the inner loop (`match`, the members ranged over, the position) named as well. -/
def gEnv (hash : Bytes) (t t0 : RType) (pv : Val) (as : List Nat) (tia : Nat) (addrs : List Nat)
    (fragIdx ngv : Int) (gv : Val) (nv nr : Int) (i : Int) (fiv fragv : Val) (mt rs rp : Val) (j : List Val) : Env :=
  [.str hash, .dptr t, .root t0, .recd "Tree" [pv, .nodes as], j.getD 0 .undef, .ptr tia, .int fragIdx, .int ngv, gv, .int nv, .int nr,
   j.getD 1 .undef, fiv, fragv, mt, j.getD 3 .undef, j.getD 4 .undef, j.getD 5 .undef, j.getD 6 .undef, j.getD 7 .undef,
   j.getD 8 .undef, j.getD 9 .undef, j.getD 10 .undef, .ptrs addrs, .int i, j.getD 11 .undef, j.getD 12 .undef, j.getD 13 .undef,
   j.getD 14 .undef, rs, rp, j.getD 17 .undef, j.getD 18 .undef, j.getD 19 .undef, j.getD 20 .undef,
   j.getD 21 .undef, j.getD 22 .undef, j.getD 23 .undef, j.getD 24 .undef, j.getD 25 .undef, j.getD 26 .undef]

def IsG (env : Env) (hash : Bytes) (t t0 : RType) (pv : Val) (as : List Nat) (tia : Nat) (addrs : List Nat)
    (fragIdx ngv : Int) (gv : Val) (nv nr : Int) (i : Int) (fiv fragv : Val) (mt rs rp : Val) : Prop :=
  ∃ j, env = gEnv hash t t0 pv as tia addrs fragIdx ngv gv nv nr i fiv fragv mt rs rp j

theorem IsG.isT {env : Env} {hash : Bytes} {t t0 : RType} {pv : Val} {as : List Nat} {tia : Nat} {addrs : List Nat}
    {fragIdx ngv : Int} {gv : Val} {nv nr i : Int} {fiv fragv mt rs rp : Val}
    (h : IsG env hash t t0 pv as tia addrs fragIdx ngv gv nv nr i fiv fragv mt rs rp) :
    IsT env hash t t0 pv as tia addrs fragIdx ngv gv nv nr i fiv fragv := by
  obtain ⟨j, rfl⟩ := h
  exact ⟨[j.getD 0 .undef, j.getD 1 .undef, mt, j.getD 3 .undef, j.getD 4 .undef, j.getD 5 .undef, j.getD 6 .undef, j.getD 7 .undef,
    j.getD 8 .undef, j.getD 9 .undef, j.getD 10 .undef, j.getD 11 .undef, j.getD 12 .undef, j.getD 13 .undef, j.getD 14 .undef, rs, rp,
    j.getD 17 .undef, j.getD 18 .undef, j.getD 19 .undef, j.getD 20 .undef, j.getD 21 .undef, j.getD 22 .undef, j.getD 23 .undef,
    j.getD 24 .undef, j.getD 25 .undef, j.getD 26 .undef], rfl⟩

/-- Closes `IsG [explicit list] …`. -/
macro "is_g" : tactic =>
  `(tactic| exact ⟨[_, _, Val.undef, _, _, _, _, _, _, _, _, _, _, _, _, Val.undef, Val.undef, _, _, _, _, _, _, _, _, _, _], rfl⟩)

theorem exec_allocGroup (c : Ctx) (m : Mem) (env : Env) (x : Nat) (members : List Expr) :
    exec c (.allocGroup x members) m env =
      bindR (evalArgs c m env members) fun vs =>
        match asNodes vs with
        | some as =>
          if x < env.length then .norm { m with nodes := m.nodes ++ [.group as] } (env.set x (.node m.nodes.length))
          else .stuck "no such slot"
        | none => .stuck "group member that is not a node" := id rfl
theorem asNodes_one (a : Nat) : asNodes [.node a] = some [a] := rfl

section groupNodes
variable (m : Mem) (ga : Nat) (ms : List Nat) (hn : m.nodes[ga]? = some (.group ms))
include hn
theorem ext1M_nodeType_group : ext1M m .nodeType (.node ga) = .ok (.int 1) := by simp [ext1M, hn, nodeOp]
theorem ext1M_nodeValues_group : ext1M m .nodeValues (.node ga) = .ok (.nodes ms) := by simp [ext1M, hn, nodeOp]
theorem ext1M_assertGroup_group : ext1M m .assertGroup (.node ga) = .ok (.node ga) := by simp [ext1M, hn, nodeOp]
end groupNodes

section gphase
variable (c : Ctx) (hash : Bytes) (t t0 : RType) (pv : Val) (as : List Nat) (tia : Nat) (addrs : List Nat)
  (mm : Mem) (fi : FieldInfo) (a : Nat) (ha : mm.heap[a]? = some (fiObj fi))

/-- `switch frag.Type()` when the fragment is a group and no group is open: it becomes the group. -/
theorem uG1_open (fa : Nat) (ms : List Nat) (hn : mm.nodes[fa]? = some (.group ms))
    (fragIdx ngv nv nr i : Int) (j : List Val) :
    ∃ env', exec c uG1 mm (tEnv hash t t0 pv as tia addrs fragIdx ngv .nil nv nr i (.ptr a) (.node fa) j) = .norm mm env' ∧
      IsG env' hash t t0 pv as tia addrs fragIdx (ms.length : Nat) (.node fa) nv nr i (.ptr a) (.node fa) (.bool false) (.nodes ms) (.int 0) := by
  refine ⟨?_, ?_, ?_⟩
  rotate_left
  · simp only [uG1, uG, uDisp, uBody, uLoop, unmarshalTopIR, Stmt.drop, Stmt.head, Stmt.forBody, Stmt.iteThen', Stmt.take, tEnv]
    ci_simp [ext1M_nodeType_group mm fa ms hn, ext1M_assertGroup_group mm fa ms hn, ext1M_nodeValues_group mm fa ms hn]
    rfl
  · is_g

/-- … when a group is already open: nothing changes. -/
theorem uG1_cont (fa ga : Nat) (msf ms : List Nat) (hn : mm.nodes[fa]? = some (.group msf)) (hg : mm.nodes[ga]? = some (.group ms))
    (fragIdx ngv nv nr i : Int) (j : List Val) :
    ∃ env', exec c uG1 mm (tEnv hash t t0 pv as tia addrs fragIdx ngv (.node ga) nv nr i (.ptr a) (.node fa) j) = .norm mm env' ∧
      IsG env' hash t t0 pv as tia addrs fragIdx ngv (.node ga) nv nr i (.ptr a) (.node fa) (.bool false) (.nodes ms) (.int 0) := by
  refine ⟨?_, ?_, ?_⟩
  rotate_left
  · simp only [uG1, uG, uDisp, uBody, uLoop, unmarshalTopIR, Stmt.drop, Stmt.head, Stmt.forBody, Stmt.iteThen', Stmt.take, tEnv]
    ci_simp [ext1M_nodeType_group mm fa msf hn, isNilVal_node, ext1M_nodeValues_group mm ga ms hg]
    rfl
  · is_g

/-- … when the fragment is a single value: a one-member group is made of it (a new node). -/
theorem uG1_single (fa : Nat) (s0 : Bytes) (pos fin : Nat) (hn : mm.nodes[fa]? = some (.value s0 pos fin)) (gv : Val)
    (fragIdx ngv nv nr i : Int) (j : List Val) :
    ∃ env', exec c uG1 mm (tEnv hash t t0 pv as tia addrs fragIdx ngv gv nv nr i (.ptr a) (.node fa) j) =
        .norm { mm with nodes := mm.nodes ++ [.group [fa]] } env' ∧
      IsG env' hash t t0 pv as tia addrs fragIdx 1 (.node mm.nodes.length) nv nr i (.ptr a) (.node fa) (.bool false) (.nodes [fa]) (.int 0) := by
  have hnew : ({ mm with nodes := mm.nodes ++ [.group [fa]] } : Mem).nodes[mm.nodes.length]? = some (.group [fa]) := by simp
  refine ⟨?_, ?_, ?_⟩
  rotate_left
  · simp only [uG1, uG, uDisp, uBody, uLoop, unmarshalTopIR, Stmt.drop, Stmt.head, Stmt.forBody, Stmt.iteThen', Stmt.take, tEnv]
    ci_simp [ext1M_nodeType mm fa s0 pos fin hn, ext1M_assertValue mm fa s0 pos fin hn, exec_allocGroup, asNodes_one,
      ext1M_nodeValues_group _ _ _ hnew]
    rfl
  · is_g

/-- The member at position `p` does not carry this field's parameter. -/
def NoMatch (mm : Mem) (fi : FieldInfo) (ms : List Nat) (p : Nat) : Prop :=
  ∃ ma sv pos fin, ms[p]? = some ma ∧ mm.nodes[ma]? = some (.value sv pos fin) ∧ (fi.opts.param ++ [Bytes.equals]).isPrefixOf sv = false

include ha in
theorem uGLoop_skip (ms : List Nat) (p : Nat) (hno : NoMatch mm fi ms p)
    (fragIdx ngv : Int) (gv : Val) (nv nr i : Int) (fragv : Val) (j : List Val) :
    ∃ env', (∀ k, afterBody (exec c uGLoop.forPost) k (exec c uGLoop.forBody mm
        (gEnv hash t t0 pv as tia addrs fragIdx ngv gv nv nr i (.ptr a) fragv (.bool false) (.nodes ms) (.int p) j)) = k mm env') ∧
      IsG env' hash t t0 pv as tia addrs fragIdx ngv gv nv nr i (.ptr a) fragv (.bool false) (.nodes ms) (.int (p + 1 : Nat)) := by
  obtain ⟨ma, sv, pos, fin, hma, hnode, hpre⟩ := hno
  have hpre' : (fi.opts.param ++ [61]).isPrefixOf sv = false := hpre
  refine ⟨?_, ?_, ?_⟩
  rotate_left
  · intro k
    simp only [uGLoop, uG, uDisp, uBody, uLoop, unmarshalTopIR, Stmt.drop, Stmt.head, Stmt.forBody, Stmt.forPost, Stmt.iteThen', gEnv]
    ci_simp [indexVal_nodes ms p ma hma, ext1M_nodeValue mm ma sv pos fin hnode, fi_param mm a fi ha, ext2, hpre']
    rfl
  · is_g

theorem uGLoop_cond (ms : List Nat) (p : Nat)
    (fragIdx ngv : Int) (gv : Val) (nv nr i : Int) (fiv fragv mt : Val) (j : List Val) (mm : Mem) :
    (fun m env => eval c m env uGLoop.forCond >>= asBool) mm
      (gEnv hash t t0 pv as tia addrs fragIdx ngv gv nv nr i fiv fragv mt (.nodes ms) (.int p) j) = .ok (decide (p < ms.length)) := by
  simp only [uGLoop, uG, uDisp, uBody, uLoop, unmarshalTopIR, Stmt.drop, Stmt.head, Stmt.forCond, Stmt.forBody, Stmt.iteThen', gEnv]
  ci_simp

include ha in
/-- No member carries the parameter: the inner loop runs to the end. -/
theorem uGLoop_none (ms : List Nat) (fragIdx ngv : Int) (gv : Val) (nv nr i : Int) (fragv : Val) :
    ∀ (n fuel p : Nat) (j : List Val), n = ms.length - p → p ≤ ms.length → n ≤ fuel →
      (∀ p', p ≤ p' → p' < ms.length → NoMatch mm fi ms p') →
      ∃ env', loop (fun m env => eval c m env uGLoop.forCond >>= asBool) (exec c uGLoop.forBody) (exec c uGLoop.forPost) fuel mm
          (gEnv hash t t0 pv as tia addrs fragIdx ngv gv nv nr i (.ptr a) fragv (.bool false) (.nodes ms) (.int p) j) = .norm mm env' ∧
        IsG env' hash t t0 pv as tia addrs fragIdx ngv gv nv nr i (.ptr a) fragv (.bool false) (.nodes ms) (.int (ms.length : Nat)) := by
  intro n
  induction n with
  | zero =>
    intro fuel p j hn hp _ _
    have hpe : p = ms.length := by omega
    refine ⟨_, ?_, ⟨j, rfl⟩⟩
    rw [loop_false _ _ _ _ _ _ ((uGLoop_cond c hash t t0 pv as tia addrs ms p fragIdx ngv gv nv nr i _ _ _ j mm).trans (by simp [hpe])), hpe]
  | succ n ih =>
    intro fuel p j hn hp hf hall
    obtain ⟨f, rfl⟩ : ∃ f, fuel = f + 1 := ⟨fuel - 1, by omega⟩
    have hlt : p < ms.length := by omega
    obtain ⟨envS, hS, ⟨j', rfl⟩⟩ := uGLoop_skip c hash t t0 pv as tia addrs mm fi a ha ms p (hall p (Nat.le_refl _) hlt) fragIdx ngv gv nv nr i fragv j
    rw [loop_step _ _ _ _ _ _ ((uGLoop_cond c hash t t0 pv as tia addrs ms p fragIdx ngv gv nv nr i _ _ _ j mm).trans (by simp [hlt])), hS]
    exact ih f (p + 1) j' (by omega) (by omega) (by omega) (fun p' h1 h2 => hall p' (by omega) h2)

include ha in
/-- The member at position `q` carries the parameter: `unmarshalIndirect`, `unmarshal`, `numGroupValues--`, `break`. -/
theorem uGLoop_hit (ms : List Nat) (q ma : Nat) (sv : Bytes) (pos fin : Nat) (hma : ms[q]? = some ma)
    (hnode : mm.nodes[ma]? = some (.value sv pos fin)) (hpre : (fi.opts.param ++ [Bytes.equals]).isPrefixOf sv = true)
    (hfb : rootFieldByIndex c.structs mm t0 (fi.index.map Int.ofNat) = .ok (.cell (fiType fi) fi.index 0 false))
    (mm1 mm2 : Mem) (cv rv : Val) (h8 : c.call 8 mm [.cell (fiType fi) fi.index 0 false] = .ok (mm1, [cv]))
    (hcv : ∃ tc ic kc, cv = .cell tc ic kc false)
    (h6 : c.call 6 mm1 [.node ma, .ptr tia, .ptr a, cv] = .ok (mm2, [rv]))
    (hrv : rv = .nil ∨ (absErrU mm.heap rv).isSome)
    (fragIdx ngv : Int) (gv : Val) (nv nr i : Int) (fragv : Val) (j : List Val) :
    (rv ≠ .nil ∧ exec c uGLoop.forBody mm
        (gEnv hash t t0 pv as tia addrs fragIdx ngv gv nv nr i (.ptr a) fragv (.bool false) (.nodes ms) (.int q) j) = .ret mm2 [rv]) ∨
    (rv = .nil ∧ ∃ env', exec c uGLoop.forBody mm
        (gEnv hash t t0 pv as tia addrs fragIdx ngv gv nv nr i (.ptr a) fragv (.bool false) (.nodes ms) (.int q) j) = .brk mm2 env' ∧
      IsG env' hash t t0 pv as tia addrs fragIdx (ngv - 1) gv nv nr i (.ptr a) fragv (.bool true) (.nodes ms) (.int q)) := by
  obtain ⟨tc, ic, kc, rfl⟩ := hcv
  have hpre' : (fi.opts.param ++ [61]).isPrefixOf sv = true := hpre
  have hfb' : ext2M c mm .valFieldByIndex (.root t0) (.ints (fi.index.map Int.ofNat)) = .ok (.cell (fiType fi) fi.index 0 false) := hfb
  simp only [uGLoop, uG, uDisp, uBody, uLoop, unmarshalTopIR, Stmt.drop, Stmt.head, Stmt.forBody, Stmt.iteThen', gEnv]
  rcases hrv with rfl | hrv
  · refine Or.inr ⟨rfl, ?_, ?_, ?_⟩
    rotate_left
    · ci_simp [indexVal_nodes ms q ma hma, ext1M_nodeValue mm ma sv pos fin hnode, fi_param mm a fi ha, ext2, hpre',
        fi_index mm a fi ha, hfb', h8, h6]
      rfl
    · is_g
  · refine Or.inl ⟨by rintro rfl; simp [absErrU] at hrv, ?_⟩
    cases rv <;> simp only [absErrU, Option.isSome_none, Bool.false_eq_true] at hrv <;>
      ci_simp [indexVal_nodes ms q ma hma, ext1M_nodeValue mm ma sv pos fin hnode, fi_param mm a fi ha, ext2, hpre',
        fi_index mm a fi ha, hfb', h8, h6, isNilVal_parseErr]

include ha in
/-- The first member carrying the parameter is at position `q`. -/
theorem uGLoop_found (ms : List Nat) (q ma : Nat) (sv : Bytes) (pos fin : Nat) (hma : ms[q]? = some ma)
    (hnode : mm.nodes[ma]? = some (.value sv pos fin)) (hpre : (fi.opts.param ++ [Bytes.equals]).isPrefixOf sv = true)
    (hfb : rootFieldByIndex c.structs mm t0 (fi.index.map Int.ofNat) = .ok (.cell (fiType fi) fi.index 0 false))
    (mm1 mm2 : Mem) (cv rv : Val) (h8 : c.call 8 mm [.cell (fiType fi) fi.index 0 false] = .ok (mm1, [cv]))
    (hcv : ∃ tc ic kc, cv = .cell tc ic kc false)
    (h6 : c.call 6 mm1 [.node ma, .ptr tia, .ptr a, cv] = .ok (mm2, [rv]))
    (hrv : rv = .nil ∨ (absErrU mm.heap rv).isSome)
    (fragIdx ngv : Int) (gv : Val) (nv nr i : Int) (fragv : Val) :
    ∀ (n fuel p : Nat) (j : List Val), n = q - p → p ≤ q → n < fuel →
      (∀ p', p ≤ p' → p' < q → NoMatch mm fi ms p') →
      (rv ≠ .nil ∧ loop (fun m env => eval c m env uGLoop.forCond >>= asBool) (exec c uGLoop.forBody) (exec c uGLoop.forPost) fuel mm
          (gEnv hash t t0 pv as tia addrs fragIdx ngv gv nv nr i (.ptr a) fragv (.bool false) (.nodes ms) (.int p) j) = .ret mm2 [rv]) ∨
      (rv = .nil ∧ ∃ env', loop (fun m env => eval c m env uGLoop.forCond >>= asBool) (exec c uGLoop.forBody) (exec c uGLoop.forPost) fuel mm
          (gEnv hash t t0 pv as tia addrs fragIdx ngv gv nv nr i (.ptr a) fragv (.bool false) (.nodes ms) (.int p) j) = .norm mm2 env' ∧
        IsG env' hash t t0 pv as tia addrs fragIdx (ngv - 1) gv nv nr i (.ptr a) fragv (.bool true) (.nodes ms) (.int q)) := by
  have hq : q < ms.length := by
    rcases Nat.lt_or_ge q ms.length with h | h
    · exact h
    · rw [List.getElem?_eq_none h] at hma; cases hma
  intro n
  induction n with
  | zero =>
    intro fuel p j hn hp hf _
    have hpe : p = q := by omega
    subst hpe
    obtain ⟨f, rfl⟩ : ∃ f, fuel = f + 1 := ⟨fuel - 1, by omega⟩
    rw [loop_step _ _ _ _ _ _ ((uGLoop_cond c hash t t0 pv as tia addrs ms p fragIdx ngv gv nv nr i _ _ _ j mm).trans (by simp [hq]))]
    rcases uGLoop_hit c hash t t0 pv as tia addrs mm fi a ha ms p ma sv pos fin hma hnode hpre hfb mm1 mm2 cv rv h8 hcv h6 hrv
      fragIdx ngv gv nv nr i fragv j with ⟨h1, h2⟩ | ⟨h1, env', h2, h3⟩
    · exact Or.inl ⟨h1, by rw [h2]; rfl⟩
    · exact Or.inr ⟨h1, env', by rw [h2]; rfl, h3⟩
  | succ n ih =>
    intro fuel p j hn hp hf hall
    obtain ⟨f, rfl⟩ : ∃ f, fuel = f + 1 := ⟨fuel - 1, by omega⟩
    have hlt : p < ms.length := by omega
    obtain ⟨envS, hS, ⟨j', rfl⟩⟩ := uGLoop_skip c hash t t0 pv as tia addrs mm fi a ha ms p (hall p (Nat.le_refl _) (by omega)) fragIdx ngv gv nv nr i fragv j
    rw [loop_step _ _ _ _ _ _ ((uGLoop_cond c hash t t0 pv as tia addrs ms p fragIdx ngv gv nv nr i _ _ _ j mm).trans (by simp [hlt])), hS]
    exact ih f (p + 1) j' (by omega) (by omega) (by omega) (fun p' h1 h2 => hall p' (by omega) h2)

include ha in
/-- After the inner loop: a required grouped param that was not matched is `not found`. -/
theorem uG5_spec (hfs : FieldStringOk c.ext) (fa : Nat) (kl : Bytes) (kind : String) (fin : Nat) (st : RType)
    (hec : ErrCalls c mm fa tia a kl kind fin fi st) (matched : Bool)
    (fragIdx ngv : Int) (gv : Val) (nv nr i : Int) (rs rp : Val) (j : List Val) :
    exec c uG5 mm (gEnv hash t t0 pv as tia addrs fragIdx ngv gv nv nr i (.ptr a) (.node fa) (.bool matched) rs rp j) =
      (if !matched && !fi.opts.omitEmpty then .ret mm [errRecK kl fin fi st (notFoundMsg fi)]
       else .norm mm (gEnv hash t t0 pv as tia addrs fragIdx ngv gv nv nr i (.ptr a) (.node fa) (.bool matched) rs rp j)) := by
  have hstr := hfs mm a fi ha
  have hcall := hec.str (litOf (fieldKindName fi) ++ notFoundSuffix)
  simp only [notFoundSuffix] at hcall
  simp only [uG5, uG, uDisp, uBody, uLoop, unmarshalTopIR, Stmt.drop, Stmt.head, Stmt.forBody, Stmt.iteThen', gEnv]
  cases matched <;> cases hom : fi.opts.omitEmpty <;>
    ci_simp [fi_omitEmpty mm a fi ha, hom, hstr, hcall, errRecK, notFoundMsg, notFoundSuffix]
end gphase

end GoCrypt.CIR

namespace GoCrypt.CIR
open GoCrypt.Codec GoCrypt.Gen.codecIR GoCrypt.Parse
open GoCrypt.TIIR (RType Res kindNum fiType fiObj tiObj encVal optsVals Reps RepOpt)
section phases
variable (c : Ctx)
end phases

end GoCrypt.CIR
