import GoCrypt.Proofs.TIIRCacheBase
import GoCrypt.Proofs.TIIRCacheNorm
import GoCrypt.Proofs.TIIRExact
import GoCrypt.Model.TypeCache

/-!
# Type-info IR with cache state: one call of `getTypeInfo` = one step of the cache protocol model

How a cache state + heap represent the model cache of `Model/TypeCache.lean` (`CacheRep`), the body of the
regenerated `getTypeInfo` run symbolically on its three paths (hit; miss and success; miss and error), and the
theorem that ties one call to `TypeCache.getTypeInfo (typeInfoOf structs)`.  Definitions and helper lemmas;
the results are stated in `Props/TypeCacheIR.lean`.
-/

namespace GoCrypt.TIIR.Cache
open GoCrypt.Codec GoCrypt.Gen.typeinfoIR GoCrypt.TIIR

/-! ## Representation -/

/-- `T n` is the `reflect.Type` of the struct named `n` (no stars, kind `Struct`). -/
def KeyFn (T : String → RType) : Prop := ∀ n, (T n).depth = 0 ∧ (T n).kind = .structRef n

/-- `*…*T`: the type named `n` with `d` stars. -/
def argType (T : String → RType) (n : String) (d : Nat) : RType := { T n with depth := d }

theorem KeyFn.inj {T : String → RType} (hT : KeyFn T) {n m : String} (h : T n = T m) : n = m := by
  have h1 := (hT n).2
  rw [h, (hT m).2] at h1
  exact (GoKind.structRef.inj h1).symm

theorem argType_indirect {T : String → RType} (hT : KeyFn T) (n : String) (d : Nat) :
    { argType T n d with depth := 0 } = T n := by
  have := (hT n).1
  cases hTn : T n
  simp only [argType, hTn] at this ⊢
  simp_all

/-- The record at address `a` is a `typeInfo` with `Type = typ` whose `HashPrefix`, `Fields`, `NumReqValues`
represent `ti` (`Struct` holds whatever the first caller's type was). -/
def TiRep (h : Heap) (a : Nat) (typ : RType) (ti : TypeInfo) : Prop :=
  ∃ st hp addrs, h[a]? = some (tiObj st typ hp addrs ti.numReqValues) ∧ RepOpt h hp ti.hashPrefix ∧ Reps h addrs ti.fields

/-- The cache state `K` over heap `h` represents the model cache `c`: same entries in the same order, each key
the `reflect.Type` of the named struct, each value the address of a record representing the type info. -/
def CacheRep (T : String → RType) (h : Heap) : CacheSt → TypeCache.Cache → Prop
  | [], [] => True
  | (k, a) :: ks, (n, ti) :: c => k = T n ∧ TiRep h a (T n) ti ∧ CacheRep T h ks c
  | _, _ => False

/-- A record of a returned `*typeInfo`: `Struct = t`, `Type = typ`, the rest represents `ti`. -/
def ResultRep (h : Heap) (o : Obj) (t typ : RType) (ti : TypeInfo) : Prop :=
  ∃ hp addrs, o = tiObj (.rtype t) typ hp addrs ti.numReqValues ∧ RepOpt h hp ti.hashPrefix ∧ Reps h addrs ti.fields

theorem RepOpt_append {h : Heap} (ext : List Obj) {v : Val} {o : Option FieldInfo} (hr : RepOpt h v o) :
    RepOpt (h ++ ext) v o := by
  refine Top.RepOpt_mono (fun a fi ha => ?_) hr
  have hlt : a < h.length := Norm.lt_of_get ha
  rw [List.getElem?_append_left hlt]; exact ha

theorem TiRep_append {h : Heap} (ext : List Obj) {a : Nat} {typ : RType} {ti : TypeInfo} (hr : TiRep h a typ ti) :
    TiRep (h ++ ext) a typ ti := by
  obtain ⟨st, hp, addrs, ha, hro, hre⟩ := hr
  refine ⟨st, hp, addrs, ?_, RepOpt_append ext hro, Top.Reps_append ext hre⟩
  rw [List.getElem?_append_left (Norm.lt_of_get ha)]; exact ha

theorem CacheRep_append {T : String → RType} {h : Heap} (ext : List Obj) :
    ∀ {K : CacheSt} {c : TypeCache.Cache}, CacheRep T h K c → CacheRep T (h ++ ext) K c
  | [], [], _ => trivial
  | (_, _) :: _, (_, _) :: _, hr => ⟨hr.1, TiRep_append ext hr.2.1, CacheRep_append ext hr.2.2⟩
  | [], _ :: _, hr => hr.elim
  | _ :: _, [], hr => hr.elim

theorem CacheRep_snoc {T : String → RType} {h : Heap} {a : Nat} {n : String} {ti : TypeInfo}
    (ht : TiRep h a (T n) ti) :
    ∀ {K : CacheSt} {c : TypeCache.Cache}, CacheRep T h K c → CacheRep T h (K ++ [(T n, a)]) (c ++ [(n, ti)])
  | [], [], _ => ⟨rfl, ht, trivial⟩
  | (_, _) :: _, (_, _) :: _, hr => ⟨hr.1, hr.2.1, CacheRep_snoc ht hr.2.2⟩
  | [], _ :: _, hr => hr.elim
  | _ :: _, [], hr => hr.elim

/-- Every cached address holds a record (so it is below the heap size). -/
theorem CacheRep_addr_lt {T : String → RType} {h : Heap} :
    ∀ {K : CacheSt} {c : TypeCache.Cache}, CacheRep T h K c → ∀ e ∈ K, e.2 < h.length
  | [], [], _, e, he => by cases he
  | (k, a) :: ks, (n, ti) :: c, hr, e, he => by
    rcases List.mem_cons.mp he with rfl | he'
    · obtain ⟨_, _, _, ha, _⟩ := hr.2.1
      exact Norm.lt_of_get ha
    · exact CacheRep_addr_lt hr.2.2 e he'
  | [], _ :: _, hr, _, _ => hr.elim
  | _ :: _, [], hr, _, _ => hr.elim

/-- Lookup under the key `T n` in the cache state = lookup of `n` in the model cache. -/
theorem CacheRep_find {T : String → RType} (hT : KeyFn T) {h : Heap} (n : String) :
    ∀ {K : CacheSt} {c : TypeCache.Cache}, CacheRep T h K c →
      match c.load n with
      | some ti => ∃ a, K.find (T n) = some a ∧ TiRep h a (T n) ti
      | none => K.find (T n) = none
  | [], [], _ => by simp [TypeCache.Cache.load, CacheSt.find]
  | (k, a) :: ks, (m, ti) :: c, hr => by
    obtain ⟨rfl, hti, hrest⟩ := hr
    have ih := CacheRep_find hT n hrest
    by_cases hmn : m = n
    · subst hmn
      simp only [TypeCache.Cache.load, List.find?_cons_of_pos, decide_true, Option.map_some]
      exact ⟨a, by simp [CacheSt.find], hti⟩
    · have hne : ¬ T m = T n := fun e => hmn (hT.inj e)
      have e1 : TypeCache.Cache.load ((m, ti) :: c) n = TypeCache.Cache.load c n := by
        simp [TypeCache.Cache.load, hmn]
      have e2 : CacheSt.find ((T m, a) :: ks) (T n) = CacheSt.find ks (T n) := by
        simp [CacheSt.find, hne]
      rw [e1, e2]; exact ih
  | [], _ :: _, hr => hr.elim
  | _ :: _, [], hr => hr.elim

/-! ## Footprint -/

def hpAddrs : Val → List Nat
  | .ptr p => [p]
  | _ => []

/-- The addresses the representation of one cached record depends on: the record, its `HashPrefix`, its `Fields`. -/
def TiFoot (h : Heap) (a : Nat) : List Nat :=
  a :: match h[a]? with
       | some [_, _, hp, .ptrs l, _] => hpAddrs hp ++ l
       | _ => []

/-- The addresses the representation of the cache depends on. -/
def footprint (h : Heap) (K : CacheSt) : List Nat := K.flatMap fun e => TiFoot h e.2

theorem TiFoot_of_get {h : Heap} {a : Nat} {st : Val} {typ : RType} {hp : Val} {addrs : List Nat} {n : Int}
    (ha : h[a]? = some (tiObj st typ hp addrs n)) : TiFoot h a = a :: (hpAddrs hp ++ addrs) := by
  simp [TiFoot, ha, tiObj]

/-! ## Procedures under the cache interpreter -/

def procResultC : OutC → Res (CacheSt × Heap × List Val)
  | (k', .ret h' vs) => .ok (k', h', vs)
  | (k', .norm h' _) => .ok (k', h', [])
  | (_, .brk _ _) => .stuck "break outside a loop"
  | (_, .cont _ _) => .stuck "continue outside a loop"
  | (_, .panic) => .panic
  | (_, .stuck w) => .stuck w

theorem execProcC_eq (c : CtxC) (p : Proc) (k : CacheSt) (h : Heap) (args : List Val) (hn : p.nparams = args.length) :
    execProcC c p k h args = procResultC (execC c p.body k h (args ++ List.replicate (p.nslots - p.nparams) .undef)) := by
  unfold execProcC
  rw [if_neg (by omega)]
  rfl

theorem callInC_succ (P : Program) (w : World) (d f : Nat) (k : CacheSt) (h : Heap) (args : List Val) (p : Proc)
    (hp : P.procs[f]? = some p) :
    callInC P w (d + 1) f k h args =
      execProcC { structs := w.structs, fuel := w.fuel, sort := w.sort, call := callInC P w d } p k h args := by
  simp [callInC, hp]

theorem pure_structs (c : CtxC) : c.pure.structs = c.structs := rfl

theorem extNC_load_hit (K : CacheSt) (typ : RType) (a : Nat) (hf : K.find typ = some a) :
    extNC .cacheLoad K [.global "typeCache", .rtype typ] = .ok (K, [.ptr a, .bool true]) := by
  simp [extNC, typeCacheVar, hf]
theorem extNC_load_miss (K : CacheSt) (typ : RType) (hf : K.find typ = none) :
    extNC .cacheLoad K [.global "typeCache", .rtype typ] = .ok (K, [.nil, .bool false]) := by
  simp [extNC, typeCacheVar, hf]
theorem extNC_store_miss (K : CacheSt) (typ : RType) (v : Nat) (hf : K.find typ = none) :
    extNC .cacheLoadOrStore K [.global "typeCache", .rtype typ, .ptr v] = .ok (K ++ [(typ, v)], [.ptr v, .bool false]) := by
  simp [extNC, typeCacheVar, hf]

/-! ## The body of `getTypeInfo`, path by path, for an arbitrary calling context -/

section body
variable (cc : CtxC) (K : CacheSt) (h : Heap) (t typ : RType)
  (h3 : cc.call 3 K h [.rtype t] = .ok (K, h, [.rtype typ]))
include h3

/-- Hit: the result is a fresh copy of the cached record with `Struct` overwritten; cache and old heap untouched. -/
theorem body_hit (a0 : Nat) (o : Obj) (hf : K.find typ = some a0) (ho : h[a0]? = some o) (hol : 0 < o.length) :
    execProcC cc getTypeInfoIR K h [.rtype t] = .ok (K, h ++ [o.set 0 (.rtype t)], [.ptr h.length, .nil]) := by
  rw [execProcC_eq _ _ _ _ _ (by rfl)]
  simp only [getTypeInfoIR]
  ti_simp [execC_seq, execC_call, execC_extCall, execC_ite, execC_skip, execC_assign, execC_ret, execC_copyObj, bindC_ok,
    andThenC_norm, pure_structs, h3, extNC_load_hit K typ a0 hf, exec_copyObj, ho, hol]
  rfl

section miss
variable (h1 : Heap) (a : Nat) (addrs : List Nat) (hf : K.find typ = none)
  (hraw : cc.call 2 K h [.rtype typ] = .ok (K, h1, [.ptr a]))
  (ha : h1[a]? = some (tiObj .nil typ .nil addrs 0))
include hf hraw ha

/-- Miss, `normalize` succeeds: the record is stored under the key `typ` and a fresh copy returned. -/
theorem body_miss_ok (h2 : Heap) (o : Obj)
    (hn : cc.call 1 K (h1.set a (tiObj (.rtype t) typ .nil addrs 0)) [.ptr a] = .ok (K, h2, [.nil]))
    (ho : h2[a]? = some o) (hol : 0 < o.length) :
    execProcC cc getTypeInfoIR K h [.rtype t] =
      .ok (K ++ [(typ, a)], h2 ++ [o.set 0 (.rtype t)], [.ptr h2.length, .nil]) := by
  rw [execProcC_eq _ _ _ _ _ (by rfl)]
  have hset : (tiObj .nil typ .nil addrs 0).set 0 (.rtype t) = tiObj (.rtype t) typ .nil addrs 0 := rfl
  have hlen : 0 < (tiObj .nil typ .nil addrs 0).length := by simp [tiObj]
  simp only [getTypeInfoIR]
  ti_simp [execC_seq, execC_call, execC_extCall, execC_ite, execC_skip, execC_assign, execC_ret, execC_copyObj, bindC_ok,
    andThenC_norm, pure_structs, h3, extNC_load_miss K typ hf, extNC_store_miss K typ a hf, hraw, ha, hset, hlen, hn,
    exec_copyObj, ho, hol]
  rfl

/-- Miss, `normalize` returns an error: it is returned, nothing is stored. -/
theorem body_miss_err (h2 : Heap) (v : Val)
    (hn : cc.call 1 K (h1.set a (tiObj (.rtype t) typ .nil addrs 0)) [.ptr a] = .ok (K, h2, [v]))
    (hv : isNilVal v = .ok false) :
    execProcC cc getTypeInfoIR K h [.rtype t] = .ok (K, h2, [.nil, v]) := by
  rw [execProcC_eq _ _ _ _ _ (by rfl)]
  have hset : (tiObj .nil typ .nil addrs 0).set 0 (.rtype t) = tiObj (.rtype t) typ .nil addrs 0 := rfl
  have hlen : 0 < (tiObj .nil typ .nil addrs 0).length := by simp [tiObj]
  cases v <;> (first | (simp [isNilVal] at hv; done) | skip)
  all_goals
    simp only [getTypeInfoIR]
    ti_simp [execC_seq, execC_call, execC_extCall, execC_ite, execC_skip, execC_assign, execC_ret, execC_copyObj, bindC_ok,
      andThenC_norm, andThenC_ret, pure_structs, h3, extNC_load_miss K typ hf, hraw, ha, hset, hlen, hn]
    rfl

theorem body_miss_stuck (why : String)
    (hn : cc.call 1 K (h1.set a (tiObj (.rtype t) typ .nil addrs 0)) [.ptr a] = .stuck why) :
    execProcC cc getTypeInfoIR K h [.rtype t] = .stuck why := by
  rw [execProcC_eq _ _ _ _ _ (by rfl)]
  have hset : (tiObj .nil typ .nil addrs 0).set 0 (.rtype t) = tiObj (.rtype t) typ .nil addrs 0 := rfl
  have hlen : 0 < (tiObj .nil typ .nil addrs 0).length := by simp [tiObj]
  simp only [getTypeInfoIR]
  ti_simp [execC_seq, execC_call, execC_extCall, execC_ite, execC_skip, execC_assign, execC_ret, execC_copyObj, bindC_ok,
    bindC_stuck, andThenC_norm, andThenC_stuck, pure_structs, h3, extNC_load_miss K typ hf, hraw, ha, hset, hlen, hn]
  rfl

end miss
end body

end GoCrypt.TIIR.Cache
