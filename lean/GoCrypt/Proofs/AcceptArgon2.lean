import GoCrypt.Proofs.AcceptShapes

/-!
# Acceptance direction for argon2 (optional `v=`, a group of three named params in any order)
-/

namespace GoCrypt.Accept
open Bytes GoCrypt.Parse GoCrypt.RefParse GoCrypt.Codec GoCrypt.Codec.Shapes

/-! ## Helpers -/

theorem key_conflict (a b : UInt8) (hab : a ≠ b) (s : Bytes)
    (h1 : List.isPrefixOf [a, 61] s = true) (h2 : List.isPrefixOf [b, 61] s = true) : False := by
  cases s with
  | nil => simp at h1
  | cons c cs =>
    simp only [List.isPrefixOf, Bool.and_eq_true, beq_iff_eq] at h1 h2
    exact hab (h1.1.trans h2.1.symm)

theorem three_distinct_length {α : Type} (l : List α) (a b c : α) (ha : a ∈ l) (hb : b ∈ l) (hc : c ∈ l)
    (hab : a ≠ b) (hac : a ≠ c) (hbc : b ≠ c) : 3 ≤ l.length := by
  match l, ha, hb, hc with
  | [], ha, _, _ => cases ha
  | [x], ha, hb, _ =>
    simp only [List.mem_singleton] at ha hb
    exact absurd (ha.trans hb.symm) hab
  | [x, y], ha, hb, hc =>
    simp only [List.mem_cons, List.not_mem_nil, or_false] at ha hb hc
    rcases ha with rfl | rfl <;> rcases hb with rfl | rfl <;> rcases hc with rfl | rfl <;>
      first | exact absurd rfl hab | exact absurd rfl hac | exact absurd rfl hbc
  | _ :: _ :: _ :: _, _, _, _ => simp

theorem fragsRel_cons_left_group (p : Bytes) (ps : List Bytes) (fs : List Frag) (hp : comma ∈ p)
    (h : FragsRel (p :: ps) fs) :
    ∃ vs fs', fs = .group vs :: fs' ∧ (ps ≠ [] → vs.map (·.val) = splitOn comma p) ∧ FragsRel ps fs' := by
  simp only [FragsRel] at h
  obtain ⟨f, fs', rfl, h2, h3⟩ := h
  cases f with
  | value v => exact absurd hp h2.2
  | group vs => exact ⟨vs, fs', rfl, fun hne => h2.2 (by simpa using hne), h3⟩

/-- `Grammar.member` on the member texts of a group node. -/
def memberV (key : Bytes) (bits : Nat) (vs : List VNode) : Option Nat :=
  Grammar.member key bits (vs.map (·.val))

theorem memberV_some_iff (key : Bytes) (bits : Nat) (vs : List VNode) (m : Nat) :
    memberV key bits vs = some m ↔
      ∃ v, vs.find? (fun v => key.isPrefixOf v.val) = some v ∧ Grammar.num bits (v.val.drop key.length) = some m := by
  unfold memberV Grammar.member
  rw [List.find?_map]
  cases hf : vs.find? ((fun m => key.isPrefixOf m) ∘ fun v => v.val) with
  | none =>
    have hf' : vs.find? (fun v => key.isPrefixOf v.val) = none := hf
    simp [hf']
  | some v =>
    have hf' : vs.find? (fun v => key.isPrefixOf v.val) = some v := hf
    simp [hf']

theorem read_named_uint (fi : FieldInfo) (e : Nat) (s0 : Bytes) (fv : FVal) (rem : Bytes) (bits : Nat) (key : Bytes)
    (hut : fi.unmarshalText = .none) (hk : fi.kind = .uint bits) (hpfx : fi.opts.isPrefix = false)
    (hinl : fi.opts.inline = false) (henc : fi.opts.enc = .hash) (hb : fi.opts.base = 10)
    (hl : fi.opts.hasLength = false)
    (hkey : fi.opts.param ++ [equals] = key) (hne : fi.opts.param ≠ []) (hp : key.isPrefixOf s0 = true) :
    readField fi e s0 = .ok (fv, rem) ↔
      (∃ m, Grammar.num bits (s0.drop key.length) = some m ∧ fv = .uint m) ∧ rem = [] := by
  rw [read_uint fi e s0 fv rem bits hut hk hpfx hinl henc hb, bodyOf_named fi s0 key hkey hne hp]
  simp [hl]

theorem find_key {vs : List VNode} {key : Bytes} {v : VNode}
    (h : vs.find? (fun v => key.isPrefixOf v.val) = some v) : key.isPrefixOf v.val = true ∧ v ∈ vs :=
  ⟨List.find?_some (p := fun v : VNode => key.isPrefixOf v.val) h, List.mem_of_find?_eq_some h⟩

theorem keyP_M : keyP argon2_Memory = fun v => Grammar.kM.isPrefixOf v.val := rfl
theorem keyP_T : keyP argon2_Time = fun v => Grammar.kT.isPrefixOf v.val := rfl
theorem keyP_P : keyP argon2_Threads = fun v => Grammar.kP.isPrefixOf v.val := rfl

theorem read_argon2_Salt (e : Nat) (s0 : Bytes) (fv : FVal) (rem : Bytes) :
    readField argon2_Salt e s0 = .ok (fv, rem) ↔
      Grammar.over Grammar.B s0 = true ∧ fv = .bytes s0 ∧ rem = [] := by
  rw [read_bytes argon2_Salt e s0 fv rem Grammar.B rfl rfl rfl rfl rfl, bodyOf_plain _ _ rfl]
  simp [show argon2_Salt.opts.hasLength = false from rfl]

theorem read_argon2_Sum (e : Nat) (s0 : Bytes) (fv : FVal) (rem : Bytes) :
    readField argon2_Sum e s0 = .ok (fv, rem) ↔
      Grammar.over Grammar.B s0 = true ∧ fv = .bytes s0 ∧ rem = [] := by
  rw [read_bytes argon2_Sum e s0 fv rem Grammar.B rfl rfl rfl rfl rfl, bodyOf_plain _ _ rfl]
  simp [show argon2_Sum.opts.hasLength = false from rfl]

theorem read_argon2_Memory (e : Nat) (s0 : Bytes) (fv : FVal) (rem : Bytes)
    (hp : Grammar.kM.isPrefixOf s0 = true) :
    readField argon2_Memory e s0 = .ok (fv, rem) ↔
      (∃ m, Grammar.num 32 (s0.drop Grammar.kM.length) = some m ∧ fv = .uint m) ∧ rem = [] :=
  read_named_uint argon2_Memory e s0 fv rem 32 Grammar.kM rfl rfl rfl rfl rfl rfl rfl rfl (by decide) hp

theorem read_argon2_Time (e : Nat) (s0 : Bytes) (fv : FVal) (rem : Bytes)
    (hp : Grammar.kT.isPrefixOf s0 = true) :
    readField argon2_Time e s0 = .ok (fv, rem) ↔
      (∃ m, Grammar.num 32 (s0.drop Grammar.kT.length) = some m ∧ fv = .uint m) ∧ rem = [] :=
  read_named_uint argon2_Time e s0 fv rem 32 Grammar.kT rfl rfl rfl rfl rfl rfl rfl rfl (by decide) hp

theorem read_argon2_Threads (e : Nat) (s0 : Bytes) (fv : FVal) (rem : Bytes)
    (hp : Grammar.kP.isPrefixOf s0 = true) :
    readField argon2_Threads e s0 = .ok (fv, rem) ↔
      (∃ m, Grammar.num 8 (s0.drop Grammar.kP.length) = some m ∧ fv = .uint m) ∧ rem = [] :=
  read_named_uint argon2_Threads e s0 fv rem 8 Grammar.kP rfl rfl rfl rfl rfl rfl rfl rfl (by decide) hp

theorem read_argon2_Version (e : Nat) (s0 : Bytes) (fv : FVal) (rem : Bytes)
    (hp : Grammar.kV.isPrefixOf s0 = true) :
    readField argon2_Version e s0 = .ok (fv, rem) ↔
      (∃ m, Grammar.num 8 (s0.drop Grammar.kV.length) = some m ∧ fv = .uint m) ∧ rem = [] :=
  read_named_uint argon2_Version e s0 fv rem 8 Grammar.kV rfl rfl rfl rfl rfl rfl rfl rfl (by decide) hp

/-! ## The required tail: the parameter group, salt, digest -/

theorem tail_argon2 (n : Nat) (F : List Frag) (nv nr : Int) (out o : Vals) :
    (∃ st', loopFields n [argon2_Memory, argon2_Time, argon2_Threads, argon2_Salt, argon2_Sum]
        (mkSt F nv nr out) = .ok st' ∧ FinalOK st' ∧ o = st'.out) ↔
    ∃ vs vs1 vd m t p, F = [.group vs, .value vs1, .value vd] ∧ vs.length = 3 ∧
      memberV Grammar.kM 32 vs = some m ∧ memberV Grammar.kT 32 vs = some t ∧
      memberV Grammar.kP 8 vs = some p ∧
      Grammar.over Grammar.B vs1.val = true ∧ Grammar.over Grammar.B vd.val = true ∧
      o = out ++ [([2], .uint m), ([3], .uint t), ([4], .uint p), ([5], .bytes vs1.val), ([6], .bytes vd.val)] := by
  constructor
  · rintro ⟨st', hloop, hfin, rfl⟩
    cases F with
    | nil =>
      rw [loop_cons_iff] at hloop
      obtain ⟨st1, h1, -⟩ := hloop
      obtain ⟨err, he⟩ := step_req_nil n argon2_Memory (mkSt [] nv nr out) rfl rfl (Or.inl rfl)
      rw [he] at h1; cases h1
    | cons f0 r =>
      cases f0 with
      | value v =>
        obtain ⟨h1, h2⟩ := loop_group_value_fail n argon2_Memory argon2_Time _ _ st' v r rfl rfl rfl rfl rfl rfl
          rfl hloop
        exact (key_conflict 109 116 (by decide) v.val h1 h2).elim
      | group vs =>
        simp only [loop_group_first n argon2_Memory _ _ _ _ _ _ _ rfl rfl rfl,
          loop_group_next n argon2_Time _ _ _ _ _ _ _ _ _ rfl rfl rfl,
          loop_group_next n argon2_Threads _ _ _ _ _ _ _ _ _ rfl rfl rfl,
          loop_close n argon2_Salt _ _ _ _ _ _ _ _ rfl, List.tail_cons,
          loop_req n argon2_Salt _ _ _ _ _ _ rfl rfl rfl, loop_req n argon2_Sum _ _ _ _ _ _ rfl rfl rfl,
          loop_nil_iff, read_argon2_Salt, read_argon2_Sum] at hloop
        obtain ⟨vM, fvM, remM, hfM, hrM, vT, fvT, remT, hfT, hrT, vP, fvP, remP, hfP, hrP, hngv,
          vs1, rest1, fv1, rem1, rfl, -, ⟨ho1, rfl, rfl⟩, vd, rest2, fv2, rem2, rfl, -, ⟨ho2, rfl, rfl⟩, rfl⟩ := hloop
        have hr2 : rest2 = [] := hfin
        subst hr2
        rw [keyP_M] at hfM
        rw [keyP_T] at hfT
        rw [keyP_P] at hfP
        obtain ⟨hkM, hmM⟩ := find_key hfM
        obtain ⟨hkT, hmT⟩ := find_key hfT
        obtain ⟨hkP, hmP⟩ := find_key hfP
        rw [read_argon2_Memory _ _ _ _ hkM] at hrM
        rw [read_argon2_Time _ _ _ _ hkT] at hrT
        rw [read_argon2_Threads _ _ _ _ hkP] at hrP
        obtain ⟨⟨m, hm, rfl⟩, rfl⟩ := hrM
        obtain ⟨⟨t, ht, rfl⟩, rfl⟩ := hrT
        obtain ⟨⟨p, hp, rfl⟩, rfl⟩ := hrP
        have hMT : vM ≠ vT := fun e => key_conflict 109 116 (by decide) vM.val hkM (e ▸ hkT)
        have hMP : vM ≠ vP := fun e => key_conflict 109 112 (by decide) vM.val hkM (e ▸ hkP)
        have hTP : vT ≠ vP := fun e => key_conflict 116 112 (by decide) vT.val hkT (e ▸ hkP)
        have h3 := three_distinct_length vs vM vT vP hmM hmT hmP hMT hMP hTP
        refine ⟨vs, vs1, vd, m, t, p, rfl, by omega, (memberV_some_iff _ _ _ _).2 ⟨vM, hfM, hm⟩,
          (memberV_some_iff _ _ _ _).2 ⟨vT, hfT, ht⟩, (memberV_some_iff _ _ _ _).2 ⟨vP, hfP, hp⟩, ho1, ho2, ?_⟩
        simp only [mkStG, List.append_assoc]
        rfl
  · rintro ⟨vs, vs1, vd, m, t, p, rfl, hlen, hM, hT, hP, ho1, ho2, rfl⟩
    obtain ⟨vM, hfM, hm⟩ := (memberV_some_iff _ _ _ _).1 hM
    obtain ⟨vT, hfT, ht⟩ := (memberV_some_iff _ _ _ _).1 hT
    obtain ⟨vP, hfP, hp⟩ := (memberV_some_iff _ _ _ _).1 hP
    obtain ⟨hkM, -⟩ := find_key hfM
    obtain ⟨hkT, -⟩ := find_key hfT
    obtain ⟨hkP, -⟩ := find_key hfP
    simp only [loop_group_first n argon2_Memory _ _ _ _ _ _ _ rfl rfl rfl,
      loop_group_next n argon2_Time _ _ _ _ _ _ _ _ _ rfl rfl rfl,
      loop_group_next n argon2_Threads _ _ _ _ _ _ _ _ _ rfl rfl rfl,
      loop_close n argon2_Salt _ _ _ _ _ _ _ _ rfl, List.tail_cons,
      loop_req n argon2_Salt _ _ _ _ _ _ rfl rfl rfl, loop_req n argon2_Sum _ _ _ _ _ _ rfl rfl rfl,
      loop_nil_iff, read_argon2_Salt, read_argon2_Sum]
    refine ⟨_, ⟨vM, _, _, hfM, (read_argon2_Memory _ _ _ _ hkM).2 ⟨⟨m, hm, rfl⟩, rfl⟩,
      vT, _, _, hfT, (read_argon2_Time _ _ _ _ hkT).2 ⟨⟨t, ht, rfl⟩, rfl⟩,
      vP, _, _, hfP, (read_argon2_Threads _ _ _ _ hkP).2 ⟨⟨p, hp, rfl⟩, rfl⟩, by omega,
      vs1, _, _, _, rfl, keyOK_plain _ _ rfl, ⟨ho1, rfl, rfl⟩,
      vd, _, _, _, rfl, keyOK_plain _ _ rfl, ⟨ho2, rfl, rfl⟩, rfl⟩, rfl, ?_⟩
    simp only [mkStG, List.append_assoc]
    rfl

/-! ## The grammar's parameter group -/

theorem argon2Params_iff (g : Bytes) (m t p : Nat) :
    Grammar.argon2Params g = some (m, t, p) ↔
      (splitOn comma g).length = 3 ∧ Grammar.member Grammar.kM 32 (splitOn comma g) = some m ∧
      Grammar.member Grammar.kT 32 (splitOn comma g) = some t ∧
      Grammar.member Grammar.kP 8 (splitOn comma g) = some p := by
  unfold Grammar.argon2Params
  simp only [Grammar.splitOn, beq_iff_eq]
  by_cases hl : (splitOn comma g).length = 3
  · simp only [hl, if_true, true_and]
    cases Grammar.member Grammar.kM 32 (splitOn comma g) <;>
      cases Grammar.member Grammar.kT 32 (splitOn comma g) <;>
      cases Grammar.member Grammar.kP 8 (splitOn comma g) <;> simp
  · simp [hl]

theorem argon2Params_comma (g : Bytes) (x : Nat × Nat × Nat) (h : Grammar.argon2Params g = some x) : comma ∈ g := by
  obtain ⟨m, t, p⟩ := x
  have hl := ((argon2Params_iff g m t p).1 h).1
  apply Classical.byContradiction
  intro hn
  rw [splitOn_plain comma g (fun c hc e => hn (e ▸ hc))] at hl
  simp at hl

theorem argon2Params_of_group (g : Bytes) (vs : List VNode) (m t p : Nat)
    (hvs : vs.map (·.val) = splitOn comma g) :
    Grammar.argon2Params g = some (m, t, p) ↔
      vs.length = 3 ∧ memberV Grammar.kM 32 vs = some m ∧ memberV Grammar.kT 32 vs = some t ∧
        memberV Grammar.kP 8 vs = some p := by
  rw [argon2Params_iff, ← hvs]
  simp [memberV]

def argon2Out (f : Grammar.Argon2) : Vals :=
  [([0], .str f.pfx)] ++ (match f.version with | some v => [([1], .uint v)] | none => []) ++
    [([2], .uint f.memory), ([3], .uint f.time), ([4], .uint f.threads), ([5], .bytes f.salt), ([6], .bytes f.sum)]

theorem argon2Body_cases (pfx : Bytes) (ps : List Bytes) (f : Grammar.Argon2)
    (h : Grammar.argon2Body pfx ps = some f) :
    (∃ g salt sum m t p, ps = [g, salt, sum] ∧ Grammar.argon2Params g = some (m, t, p) ∧
      Grammar.over Grammar.B salt = true ∧ Grammar.over Grammar.B sum = true ∧
      f = ⟨pfx, none, m, t, p, salt, sum⟩) ∨
    (∃ v g salt sum ver m t p, ps = [v, g, salt, sum] ∧ Grammar.kV.isPrefixOf v = true ∧
      Grammar.num 8 (v.drop Grammar.kV.length) = some ver ∧ Grammar.argon2Params g = some (m, t, p) ∧
      Grammar.over Grammar.B salt = true ∧ Grammar.over Grammar.B sum = true ∧
      f = ⟨pfx, some ver, m, t, p, salt, sum⟩) := by
  match ps, h with
  | [g, salt, sum], h =>
    left
    simp only [Grammar.argon2Body] at h
    cases hp : Grammar.argon2Params g with
    | none => simp [hp] at h
    | some x =>
      obtain ⟨m, t, p⟩ := x
      simp only [hp, Bool.and_eq_true] at h
      split at h
      · next hc => cases h; exact ⟨g, salt, sum, m, t, p, rfl, hp, hc.1, hc.2, rfl⟩
      · cases h
  | [v, g, salt, sum], h =>
    right
    simp only [Grammar.argon2Body] at h
    cases hs : Grammar.strip Grammar.kV v with
    | none => simp [hs] at h
    | some tv =>
      obtain ⟨hk, rfl⟩ := strip_some_prefix _ _ _ hs
      simp only [hs] at h
      cases hn : Grammar.num 8 (v.drop Grammar.kV.length) with
      | none => simp [hn] at h
      | some ver =>
        cases hp : Grammar.argon2Params g with
        | none => simp [hn, hp] at h
        | some x =>
          obtain ⟨m, t, p⟩ := x
          simp only [hn, hp, Bool.and_eq_true] at h
          split at h
          · next hc => cases h; exact ⟨v, g, salt, sum, ver, m, t, p, rfl, hk, hn, hp, hc.1, hc.2, rfl⟩
          · cases h
  | [], h => simp [Grammar.argon2Body] at h
  | [_], h => simp [Grammar.argon2Body] at h
  | [_, _], h => simp [Grammar.argon2Body] at h
  | _ :: _ :: _ :: _ :: _ :: _, h => simp [Grammar.argon2Body] at h

theorem tree_argon2 (n : Nat) (p : Option Bytes) (fs : List Frag) (ps : List Bytes) (out : Vals)
    (_ : p ≠ some []) (hrel : FragsRel ps fs) :
    unmarshalTree argon2TI n ⟨p, fs⟩ = .ok out ↔
      ∃ f, anyG Grammar.argon2Prefixes Grammar.argon2Body p ps = some f ∧ out = argon2Out f := by
  rw [tree_iff]
  have hfields : argon2TI.fields =
    [argon2_Version, argon2_Memory, argon2_Time, argon2_Threads, argon2_Salt, argon2_Sum] := rfl
  have hnr : argon2TI.numReqValues = 2 := rfl
  rw [hfields, hnr]
  cases p with
  | none =>
    simp [prefixPart_none argon2TI n fs _ argon2_HashPrefix rfl,
      show argon2_HashPrefix.opts.omitEmpty = false from rfl, anyG]
  | some q =>
    simp only [prefixPart_some argon2TI n q fs _ argon2_HashPrefix _ rfl rfl rfl rfl rfl]
    have hmem : ([[36, 97, 114, 103, 111, 110, 50, 100, 36], [36, 97, 114, 103, 111, 110, 50, 105, 36],
        [36, 97, 114, 103, 111, 110, 50, 105, 100, 36]] : List Bytes).contains q = true ↔
        q ∈ Grammar.argon2Prefixes := by simp [Grammar.argon2Prefixes]
    have hkeyV : ∀ s0, KeyOK argon2_Version s0 ↔ Grammar.kV.isPrefixOf s0 = true :=
      fun s0 => keyOK_named argon2_Version s0 Grammar.kV rfl (by decide)
    constructor
    · rintro ⟨out0, st', ⟨hq, rfl⟩, hloop, hfin, rfl⟩
      have hq' := hmem.1 hq
      -- the grammar side of a tail shape
      have hfinish : ∀ (ps' : List Bytes) (vs : List VNode) (vs1 vd : VNode) (m t p : Nat),
          FragsRel ps' [.group vs, .value vs1, .value vd] → vs.length = 3 →
          memberV Grammar.kM 32 vs = some m → memberV Grammar.kT 32 vs = some t →
          memberV Grammar.kP 8 vs = some p →
          ∃ pg, ps' = [pg, vs1.val, vd.val] ∧ Grammar.argon2Params pg = some (m, t, p) := by
        intro ps' vs vs1 vd m t p hrel' hlen hM hT hP
        obtain ⟨pg, ps1, rfl, -, hvs, hrel'⟩ := fragsRel_cons_group _ _ _ hrel'
        obtain ⟨ps2, rfl, -, hrel'⟩ := fragsRel_cons_value _ _ _ hrel'
        obtain ⟨ps3, rfl, -, hrel'⟩ := fragsRel_cons_value _ _ _ hrel'
        have := fragsRel_nil_right _ hrel'
        subst this
        exact ⟨pg, rfl, (argon2Params_of_group pg vs m t p (hvs (by simp))).2 ⟨hlen, hM, hT, hP⟩⟩
      cases fs with
      | nil =>
        rw [loop_opt_nil _ _ _ _ _ _ rfl] at hloop
        obtain ⟨vs, vs1, vd, m, t, p, hF, -⟩ := (tail_argon2 n _ _ _ _ _).1 ⟨st', hloop, hfin, rfl⟩
        cases hF
      | cons f0 r =>
        by_cases hc : (f0 :: r).length ≤ 2
        · rw [loop_opt_skip _ _ _ _ _ _ _ _ rfl (cnt_le _ _ hc)] at hloop
          obtain ⟨vs, vs1, vd, m, t, p, hF, -⟩ := (tail_argon2 n _ _ _ _ _).1 ⟨st', hloop, hfin, rfl⟩
          rw [hF] at hc
          simp at hc
        · have hcnt := cnt_gt (f0 :: r) 2 (by omega)
          cases f0 with
          | group vs0 =>
            rw [loop_opt_group _ _ _ _ _ _ _ _ rfl rfl hcnt] at hloop
            obtain ⟨vs, vs1, vd, m, t, p, hF, hlen, hM, hT, hP, ho1, ho2, hout⟩ :=
              (tail_argon2 n _ _ _ _ _).1 ⟨st', hloop, hfin, rfl⟩
            rw [hF] at hrel
            obtain ⟨pg, rfl, hpar⟩ := hfinish _ _ _ _ _ _ _ hrel hlen hM hT hP
            refine ⟨⟨q, none, m, t, p, vs1.val, vd.val⟩, ?_, hout⟩
            simp [anyG, hq', Grammar.argon2Body, hpar, ho1, ho2]
          | value v0 =>
            by_cases hkey : KeyOK argon2_Version v0.val
            · rw [loop_opt_value _ _ _ _ _ _ _ _ _ rfl rfl rfl hcnt hkey] at hloop
              have hkey' := (hkeyV _).1 hkey
              obtain ⟨fv0, rem0, hr0, hloop⟩ := hloop
              rw [read_argon2_Version _ _ _ _ hkey'] at hr0
              obtain ⟨⟨ver, hver, rfl⟩, rfl⟩ := hr0
              obtain ⟨vs, vs1, vd, m, t, p, hF, hlen, hM, hT, hP, ho1, ho2, hout⟩ :=
                (tail_argon2 n _ _ _ _ _).1 ⟨st', hloop, hfin, rfl⟩
              subst hF
              obtain ⟨ps0, rfl, -, hrel⟩ := fragsRel_cons_value _ _ _ hrel
              obtain ⟨pg, rfl, hpar⟩ := hfinish _ _ _ _ _ _ _ hrel hlen hM hT hP
              refine ⟨⟨q, some ver, m, t, p, vs1.val, vd.val⟩, ?_, hout⟩
              simp [anyG, hq', Grammar.argon2Body, strip_of_prefix _ _ hkey', hver, hpar, ho1, ho2]
            · rw [loop_opt_nokey _ _ _ _ _ _ _ _ rfl rfl hcnt hkey] at hloop
              obtain ⟨vs, vs1, vd, m, t, p, hF, -⟩ := (tail_argon2 n _ _ _ _ _).1 ⟨st', hloop, hfin, rfl⟩
              cases hF
    · rintro ⟨f, hG, rfl⟩
      unfold anyG at hG
      simp only at hG
      split at hG
      · next hq =>
        suffices hs : ∃ st', loopFields n
            [argon2_Version, argon2_Memory, argon2_Time, argon2_Threads, argon2_Salt, argon2_Sum]
            (mkSt fs fs.length (2 : Nat) [(argon2_HashPrefix.index, .str q)]) = .ok st' ∧
            FinalOK st' ∧ argon2Out f = st'.out from
          let ⟨st', h1, h2⟩ := hs; ⟨_, st', ⟨hmem.2 hq, rfl⟩, h1, h2⟩
        rcases argon2Body_cases q ps f hG with
          ⟨g, salt, sum, m, t, p, rfl, hpar, ho1, ho2, rfl⟩ |
          ⟨v, g, salt, sum, ver, m, t, p, rfl, hkv, hver, hpar, ho1, ho2, rfl⟩
        · obtain ⟨vs, fs1, rfl, hvs, hrel⟩ := fragsRel_cons_left_group _ _ _ (argon2Params_comma _ _ hpar) hrel
          obtain ⟨vs1, fs2, rfl, hv1, hrel⟩ := fragsRel_cons_left _ _ _ (over_B_no_comma _ ho1) hrel
          obtain ⟨vd, fs3, rfl, hvd, hrel⟩ := fragsRel_cons_left _ _ _ (over_B_no_comma _ ho2) hrel
          have := fragsRel_nil_left _ hrel
          subst this
          subst hv1 hvd
          obtain ⟨hlen, hM, hT, hP⟩ := (argon2Params_of_group g vs m t p (hvs (by simp))).1 hpar
          rw [loop_opt_group _ _ _ _ _ _ _ _ rfl rfl
            (cnt_gt [Frag.group vs, Frag.value vs1, Frag.value vd] 2 (by simp))]
          exact (tail_argon2 n _ _ _ _ _).2 ⟨vs, vs1, vd, m, t, p, rfl, hlen, hM, hT, hP, ho1, ho2, rfl⟩
        · have hvc : comma ∉ v :=
            no_comma_of_strip_num Grammar.kV v _ 8 ver (by decide) (strip_of_prefix _ _ hkv) hver
          obtain ⟨v0, fs0, rfl, hv0, hrel⟩ := fragsRel_cons_left _ _ _ hvc hrel
          obtain ⟨vs, fs1, rfl, hvs, hrel⟩ := fragsRel_cons_left_group _ _ _ (argon2Params_comma _ _ hpar) hrel
          obtain ⟨vs1, fs2, rfl, hv1, hrel⟩ := fragsRel_cons_left _ _ _ (over_B_no_comma _ ho1) hrel
          obtain ⟨vd, fs3, rfl, hvd, hrel⟩ := fragsRel_cons_left _ _ _ (over_B_no_comma _ ho2) hrel
          have := fragsRel_nil_left _ hrel
          subst this
          subst hv0 hv1 hvd
          obtain ⟨hlen, hM, hT, hP⟩ := (argon2Params_of_group g vs m t p (hvs (by simp))).1 hpar
          refine ex_opt_value rfl rfl rfl
            (cnt_gt [Frag.value v0, Frag.group vs, Frag.value vs1, Frag.value vd] 2 (by simp))
            ((hkeyV _).2 hkv) ((read_argon2_Version _ _ _ _ hkv).2 ⟨⟨ver, hver, rfl⟩, rfl⟩) ?_
          exact (tail_argon2 n _ _ _ _ _).2 ⟨vs, vs1, vd, m, t, p, rfl, hlen, hM, hT, hP, ho1, ho2, rfl⟩
      · cases hG

theorem unmarshal_argon2 (h : Bytes) (out : Vals) :
    unmarshal argon2TI h = .ok out ↔ ∃ f, Grammar.argon2 h = some f ∧ out = argon2Out f :=
  unmarshal_any argon2TI _ (by decide) Grammar.argon2Body argon2Out tree_argon2 h out

end GoCrypt.Accept
