import GoCrypt.Spec.SFlowVal
import GoCrypt.Proofs.SFlowValAttr
import GoCrypt.Model.Parse

/-!
# Symbolic evaluation of the structured-flow interpreter

The programs of `Gen/DispatchFlow.lean` are concrete terms, their inputs symbolic.  `simp [sflowval]`
runs the interpreter of `Spec/SFlowVal.lean` on such a program: the simp set holds the defining
equations of the statement / expression evaluators, the environment operations, what the constants
that occur in the programs denote (each by `rfl`: the kernel evaluates the decoder), and the
operators at the operand shapes that occur.  Facts about the *data* (what `strings.HasPrefix` says
about `c :: rest`, where `strings.IndexAny` points, that a slice is in bounds) are supplied by the
case analysis of each proof.
-/

namespace GoCrypt.SFlowVal
open GoCrypt GoCrypt.Flow GoCrypt.SFlow

attribute [sflowval] exec execBlock evalE evalSpine evalList applyHead callNamed runFunc
  Env.get Env.set Env.define Frame.get Frame.set Flow.pop defineAll assignAll components

/-! ## Constants that occur in `Gen/DispatchFlow.lean` -/

@[sflowval] theorem constVal_dollar {σ ν} (P : Prims σ ν) : constVal P "\"$\"" = some (.str [36]) := rfl
@[sflowval] theorem constVal_delims {σ ν} (P : Prims σ ν) : constVal P "\"$,\"" = some (.str [36, 44]) := rfl
@[sflowval] theorem constVal_underscore {σ ν} (P : Prims σ ν) : constVal P "\"_\"" = some (.str [95]) := rfl
@[sflowval] theorem constVal_0 {σ ν} (P : Prims σ ν) : constVal P "0" = some (.int 0) := rfl
@[sflowval] theorem constVal_1 {σ ν} (P : Prims σ ν) : constVal P "1" = some (.int 1) := rfl
@[sflowval] theorem constVal_2 {σ ν} (P : Prims σ ν) : constVal P "2" = some (.int 2) := rfl
@[sflowval] theorem constVal_nil {σ ν} (P : Prims σ ν) : constVal P "nil" = some .nil := rfl

/-! ## Operators, at the operand shapes that occur -/

@[sflowval] theorem binop_int_ge {ν} (x y : Int) : binop (ν := ν) ">=" (.int x) (.int y) = .ok (.bool (decide (x ≥ y))) := rfl
@[sflowval] theorem binop_int_eq {ν} (x y : Int) : binop (ν := ν) "==" (.int x) (.int y) = .ok (.bool (decide (x = y))) := rfl
@[sflowval] theorem binop_int_add {ν} (x y : Int) : binop (ν := ν) "+" (.int x) (.int y) = .ok (.int (x + y)) := rfl
@[sflowval] theorem binop_str_eq {ν} (x y : Bytes) : binop (ν := ν) "==" (.str x) (.str y) = .ok (.bool (decide (x = y))) := rfl
theorem binop_sliceFrom {ν} (s : Bytes) (lo : Int) : binop (ν := ν) "[_:]" (.str s) (.int lo) = sliceStr s lo s.length := rfl
theorem binop_sliceTo {ν} (s : Bytes) (hi : Int) : binop (ν := ν) "[:_]" (.str s) (.int hi) = sliceStr s 0 hi := rfl

/-- `s[lo:]` is in bounds iff `0 ≤ lo ≤ len(s)`, and then drops `lo` bytes. -/
theorem sliceStr_from {ν} (s : Bytes) (lo : Nat) (h : lo ≤ s.length) :
    sliceStr (ν := ν) s lo s.length = .ok (.str (s.drop lo)) := by
  have h1 : (lo : Int) ≤ (s.length : Int) := by omega
  have h2 : s.length - lo = (s.drop lo).length := by simp
  simp only [sliceStr, Int.natCast_nonneg, h1, Int.le_refl, and_self, if_true, Int.toNat_natCast]
  rw [h2, List.take_length]

/-- `s[:hi]` is in bounds iff `0 ≤ hi ≤ len(s)`, and then takes `hi` bytes. -/
theorem sliceStr_to {ν} (s : Bytes) (hi : Nat) (h : hi ≤ s.length) :
    sliceStr (ν := ν) s 0 hi = .ok (.str (s.take hi)) := by
  have h1 : (hi : Int) ≤ (s.length : Int) := by omega
  simp [sliceStr, h1]

/-- `s[lo:hi]` out of bounds panics: nothing is clamped. -/
theorem sliceStr_panics {ν} (s : Bytes) (lo hi : Int) (h : ¬ (0 ≤ lo ∧ lo ≤ hi ∧ hi ≤ s.length)) :
    sliceStr (ν := ν) s lo hi = .panic "slice bounds out of range" := by
  simp [sliceStr, h]

/-- `(c :: rest)[1:]` -/
@[sflowval] theorem binop_slice1_cons {ν} (c : UInt8) (rest : Bytes) :
    binop (ν := ν) "[_:]" (.str (c :: rest)) (.int 1) = .ok (.str rest) := by
  rw [binop_sliceFrom]
  exact sliceStr_from (c :: rest) 1 (by simp)

/-- `""[1:]` panics -/
theorem binop_slice1_nil {ν} : binop (ν := ν) "[_:]" (.str []) (.int 1) = .panic "slice bounds out of range" := by
  rw [binop_sliceFrom]; exact sliceStr_panics _ _ _ (by simp)

/-! ## `strings.HasPrefix` with a one-byte prefix, `strings.IndexAny(_, "$,")` -/

@[sflowval] theorem hasPrefix_nil1 (d : UInt8) : hasPrefix [] [d] = false := rfl
@[sflowval] theorem hasPrefix_cons1 (c d : UInt8) (rest : Bytes) : hasPrefix (c :: rest) [d] = (d == c) := by
  simp [hasPrefix, List.isPrefixOf]

theorem indexAny?_delims (s : Bytes) : indexAny? [36, 44] s = Parse.indexDelim s := by
  induction s with
  | nil => rfl
  | cons c cs ih =>
    have : (c ∈ ([36, 44] : Bytes)) ↔ (c = Bytes.dollar ∨ c = Bytes.comma) := by
      simp [Bytes.dollar, Bytes.comma]
    simp only [indexAny?, Parse.indexDelim, this, ih]

theorem indexAny_delims (s : Bytes) :
    indexAny s [36, 44] = (match Parse.indexDelim s with | some i => (i : Int) | none => -1) := by
  unfold indexAny
  rw [indexAny?_delims]
  cases Parse.indexDelim s <;> rfl

/-- The three cases of `i := strings.IndexAny(rest, "$,")` as the model's `indexDelim` has them. -/
theorem indexAny_cases (s : Bytes) :
    (Parse.indexDelim s = none ∧ indexAny s [36, 44] = -1) ∨
    (Parse.indexDelim s = some 0 ∧ indexAny s [36, 44] = 0) ∨
    (∃ i, Parse.indexDelim s = some (i + 1) ∧ indexAny s [36, 44] = ((i + 1 : Nat) : Int)) := by
  rw [indexAny_delims]
  cases h : Parse.indexDelim s with
  | none => simp
  | some i => cases i with
    | zero => simp
    | succ i => right; right; exact ⟨i, rfl, rfl⟩

/-- An index found by `indexDelim` is inside the string. -/
theorem indexDelim_lt' (s : Bytes) (i : Nat) (h : Parse.indexDelim s = some i) : i < s.length := by
  induction s generalizing i with
  | nil => simp [Parse.indexDelim] at h
  | cons c cs ih =>
    unfold Parse.indexDelim at h
    by_cases hc : c = Bytes.dollar ∨ c = Bytes.comma
    · simp [hc] at h; subst h; simp
    · simp only [hc, if_false] at h
      cases hi : Parse.indexDelim cs with
      | none => simp [hi] at h
      | some j => simp [hi] at h; subst h; have := ih j hi; simp; omega

/-! ## Assignment targets that occur -/

@[sflowval] theorem placeOfName_prefix : placeOfName "prefix" = .var "prefix" := by decide
@[sflowval] theorem placeOfName_l_pos : placeOfName "l.pos" = .field "l" "pos" := by decide
@[sflowval] theorem placeOfName_l_start : placeOfName "l.start" = .field "l" "start" := by decide

end GoCrypt.SFlowVal
