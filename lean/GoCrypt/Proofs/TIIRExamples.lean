import GoCrypt.Proofs.TIIRDefs

/-!
# Type-info IR: concrete struct descriptions for the `#guard` examples of `Props/TypeInfoIR.lean`

Definitions only: five struct descriptions, one concrete `sort.Slice` behaviour (merge sort by the length of
`Index`), and `agrees`, which runs the regenerated `getTypeInfo` (cold cache) and compares the result with
the model's `typeInfoOf` through the representation `fiObj`/`absErr` of `Proofs/TIIRDefs.lean`.
-/

namespace GoCrypt.TIIR.Examples
open GoCrypt.Codec GoCrypt.Gen.typeinfoIR GoCrypt.TIIR

/-- `len(fi.Index)` of the record at address `a`. -/
def idxLen (h : Heap) (a : Nat) : Nat :=
  match h[a]? with
  | some (.ints l :: _) => l.length
  | _ => 0

/-- One behaviour of `sort.Slice`: a stable merge sort by `len(Index)`. -/
def sortByLen : Heap → List Nat → List Nat := fun h l => l.mergeSort (fun a b => decide (idxLen h a ≤ idxLen h b))

/-- Another one: the same, then equal-length neighbours are irrelevant — reverse first (an unstable order). -/
def sortByLenRev : Heap → List Nat → List Nat := fun h l => l.reverse.mergeSort (fun a b => decide (idxLen h a ≤ idxLen h b))

/-- A wrong behaviour: leaves the slice as it is. -/
def noSort : Heap → List Nat → List Nat := fun _ l => l

def fld (name tag : String) (k : GoKind := .string) (anon := false) (exp := true) (pd := 0) : GoField :=
  { name, exported := exp, anonymous := anon, ptrDepth := pd, kind := k, typeName := "", tag := tag.toUTF8.data.toList,
    marshalText := .none, unmarshalText := .none }

/-- `type Inner struct { A string "param:a"; Z string "length:3,enc:base64,"; u string "x" }` -/
def inner : GoStruct := ⟨"Inner", [fld "A" "param:a", fld "Z" "length:3,enc:base64,", fld "u" "x" .string false false]⟩

/-- Embedded `*Inner` whose `A` (param `a`) is shadowed by the outer `A`; options with repeated
`length:`, out-of-range `base:`, unknown `enc:`, an empty part, a trailing comma; a `-` field. -/
def outer : GoStruct := ⟨"Outer", [
  fld "Inner" "" (.structRef "Inner") true true 1,
  fld "A" "param:a",
  fld "R" "param:r,omitempty,base:16",
  fld "X" "",
  fld "HashPrefix" "",
  fld "B" "length:2,length:9,length:x,length:99999999999,base:1,base:37,base:36,enc:none,enc:zz,,inline," (.byteArray 4) false true 2,
  fld "D" "-"]⟩

/-- Two fields of the same depth with the same param: conflict. -/
def conflict : GoStruct := ⟨"Conflict", [fld "A" "param:a", fld "B" "param:a"]⟩

/-- `group` without `param:`: invalid tag. -/
def invalid : GoStruct := ⟨"Invalid", [fld "Q" "", fld "A" "group"]⟩

/-- An unexported embedded struct (still flattened, two levels), a depth-1 `A`, and `Inner` embedded by
value: the two `A`s at depth 2 (`outer.A`, `Inner.A`) are reported as a conflict although the depth-1 `A`
would dominate both — the Go loop checks every pair of candidates of equal depth. -/
def deep : GoStruct := ⟨"Deep", [fld "outer" "" (.structRef "Outer") true false 0, fld "A" "param:a,group", fld "Inner" "" (.structRef "Inner") true true 0]⟩

def structs : List GoStruct := [inner, outer, conflict, invalid, deep]

def world (sort : Heap → List Nat → List Nat) : World := ⟨structs, 200, sort⟩

/-- Run the regenerated `getTypeInfo` (function 4) on `*…*root` (`stars` stars) from an empty heap. -/
def run (sort : Heap → List Nat → List Nat) (root : String) (stars : Nat) : Res (Heap × List Val) :=
  callIn program (world sort) 40 4 [] [.rtype ⟨stars, .structRef root, "", .none, .none⟩]

/-- The run agrees with the model: same fields in the same order with the same options, same
`HashPrefix`, same `NumReqValues`; or the same error. -/
def agrees (sort : Heap → List Nat → List Nat) (root : String) (stars : Nat) : Bool :=
  match run sort root stars, typeInfoOf structs root with
  | .ok (h, [.ptr a, .nil]), .ok ti =>
    (match h[a]? with
     | some [_, _, hp, .ptrs addrs, .int n] =>
       addrs.map (h[·]?) == ti.fields.map (some ∘ fiObj) && n == ti.numReqValues &&
       (match hp, ti.hashPrefix with
        | .nil, none => true
        | .ptr p, some fi => h[p]? == some (fiObj fi)
        | _, _ => false)
     | _ => false)
  | .ok (h, [.nil, v]), .error e => absErr h v == some e
  | _, _ => false

def isStuck : Res (Heap × List Val) → Bool
  | .stuck _ => true
  | _ => false

end GoCrypt.TIIR.Examples
