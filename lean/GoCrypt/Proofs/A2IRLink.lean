import GoCrypt.Proofs.A2IRBlock
import GoCrypt.Proofs.A2IRFill

/-!
# Block IR: the specs of `processSegment` and `processBlocks` for the contexts of the regenerated program

`processSegment` sits above `processBlock`/`processBlockXOR` (three levels) and `indexAlpha` (two levels);
`processBlocks` one level above `processSegment`.
-/

namespace GoCrypt.A2IR
open GoCrypt.Gen.argon2IR

theorem processSegmentSpec_ctxOf (H : Nat → Bytes → Bytes) (d : Nat) : ProcessSegmentSpec (ctxOf H program (d + 5)) :=
  processSegmentSpec_of _ (ctxOf H program (d + 4))
    (fun h args => by rw [ctxOf_call, callIn_succ H program (d + 4) "processSegment" proc_processSegment rfl])
    (processBlockSpec_ctxOf H (d + 1)) (processBlockXORSpec_ctxOf H (d + 1)) (indexAlphaSpec_ctxOf H (d + 2))

theorem processBlocksSpec_ctxOf (H : Nat → Bytes → Bytes) (d : Nat) : ProcessBlocksSpec (ctxOf H program (d + 6)) :=
  processBlocksSpec_of _ (ctxOf H program (d + 5))
    (fun h args => by rw [ctxOf_call, callIn_succ H program (d + 5) "processBlocks" proc_processBlocks rfl])
    (processSegmentSpec_ctxOf H d)

end GoCrypt.A2IR
