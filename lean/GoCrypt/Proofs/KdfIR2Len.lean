import GoCrypt.Proofs.FlowValLen
import GoCrypt.Prim.SHA1
import GoCrypt.Prim.MD5
import GoCrypt.Prim.SHA256
import GoCrypt.Prim.SHA512

/-!
# Digest sizes of the executable primitives

`Prim.hmacSha1` yields 20 bytes, `Prim.sha256` 32, `Prim.sha512` 64 (`Prim.md4`: 16, in
`FlowValLen.lean`). Used to discharge the size hypotheses of the hash-transcript theorems when they are
instantiated with the primitives that `Scheme.*.derive` uses. Helper lemmas only.
-/

namespace GoCrypt.KdfIR2Len
open GoCrypt GoCrypt.FlowVal

theorem pushBE32_size (b : ByteArray) (x : UInt32) : (Prim.pushBE32 b x).size = b.size + 4 := by
  simp [Prim.pushBE32, ByteArray.size_push]

theorem pushBE64_size (b : ByteArray) (x : UInt64) : (Prim.pushBE64 b x).size = b.size + 8 := by
  simp [Prim.pushBE64, pushBE32_size]

theorem md5_length (x : Bytes) : (Prim.md5 x).length = 16 := by
  unfold Prim.md5 Prim.baToBytes Prim.md5BA
  rw [byteArray_toList_length]
  simp only [pushLE32_size]
  rfl

theorem sha1BA_size (m : ByteArray) : (Prim.sha1BA m).size = 20 := by
  unfold Prim.sha1BA
  simp only [pushBE32_size]
  rfl

theorem hmacSha1_length (k m : Bytes) : (Prim.hmacSha1 k m).length = 20 := by
  unfold Prim.hmacSha1 Prim.baToBytes Prim.hmacSha1BA
  rw [byteArray_toList_length]
  exact sha1BA_size _

theorem sha256Block_size (st : Array UInt32) (p : ByteArray) (off : Nat) : (Prim.sha256Block st p off).size = 8 := by
  unfold Prim.sha256Block
  simp [Id.run]
  rfl

theorem sha512Block_size (st : Array UInt64) (p : ByteArray) (off : Nat) : (Prim.sha512Block st p off).size = 8 := by
  unfold Prim.sha512Block
  simp [Id.run]
  rfl

theorem fold_size8 {α : Type} (n : Nat) (f : Nat → Array α → Array α) (hf : ∀ i st, (f i st).size = 8) (init : Array α)
    (hi : init.size = 8) : (Nat.fold n (fun i _ st => f i st) init).size = 8 := by
  induction n with
  | zero => simpa using hi
  | succ n ih => rw [Nat.fold_succ]; exact hf _ _

theorem foldl_pushBE32_size_list : ∀ (l : List UInt32) (b : ByteArray), (l.foldl Prim.pushBE32 b).size = b.size + 4 * l.length
  | [], b => by simp
  | x :: l, b => by
    rw [List.foldl_cons, foldl_pushBE32_size_list l, pushBE32_size, List.length_cons]; omega

theorem foldl_pushBE64_size_list : ∀ (l : List UInt64) (b : ByteArray), (l.foldl Prim.pushBE64 b).size = b.size + 8 * l.length
  | [], b => by simp
  | x :: l, b => by
    rw [List.foldl_cons, foldl_pushBE64_size_list l, pushBE64_size, List.length_cons]; omega

theorem sha256_length (x : Bytes) : (Prim.sha256 x).length = 32 := by
  unfold Prim.sha256 Prim.baToBytes Prim.sha256BA
  rw [byteArray_toList_length]
  simp only [← Array.foldl_toList, foldl_pushBE32_size_list, Array.length_toList]
  rw [fold_size8 _ (fun i st => Prim.sha256Block st _ (64 * i)) (fun i st => sha256Block_size _ _ _) _ rfl]
  rfl

theorem sha512_length (x : Bytes) : (Prim.sha512 x).length = 64 := by
  unfold Prim.sha512 Prim.baToBytes Prim.sha512BA
  rw [byteArray_toList_length]
  simp only [← Array.foldl_toList, foldl_pushBE64_size_list, Array.length_toList]
  rw [fold_size8 _ (fun i st => Prim.sha512Block st _ (128 * i)) (fun i st => sha512Block_size _ _ _) _ rfl]
  rfl

end GoCrypt.KdfIR2Len
