import GoCrypt.Gen.TypeInfoIR
import GoCrypt.Model.TagInfo
import GoCrypt.Proofs.TIIRBase

/-!
# Type-info IR: how heap records represent the model's values, and the statements to prove

Definitions and statement shapes only (`…Spec : Prop`); the proofs are in `Proofs/TIIRTag.lean`,
`TIIRField.lean`, `TIIRNorm.lean`, `TIIRRaw.lean`, `TIIRTop.lean`; `Props/TypeInfoIR.lean` states the results.

The field numbers used below are positions in `Gen.typeinfoIR.fieldInfoFields` / `typeInfoFields` /
`tagParamErrorFields`; the `example`s at the end tie them to the generated names.
-/

namespace GoCrypt.TIIR
open GoCrypt.Codec GoCrypt.Gen.typeinfoIR

/-- `fi.Opts.Encoding` (a `*hashutil.Encoding`) for the model's `EncKind`. -/
def encVal : EncKind → Val
  | .hash => .global "hashutil.HashEncoding"
  | .base64 => .global "hashutil.Base64Encoding"
  | .none => .nil

/-- The nine `Opts.*` fields of a `fieldInfo` record. -/
def optsVals (o : FieldOpts) : List Val :=
  [.bool o.isPrefix, .bool o.omitEmpty, .bool o.group, .str o.param, encVal o.enc, .int o.length,
   .bool o.hasLength, .bool o.inline, .int o.base]

/-- The `reflect.Type` a model `FieldInfo` stands for. -/
def fiType (fi : FieldInfo) : RType := ⟨fi.ptrDepth, fi.kind, fi.typeName, fi.marshalText, fi.unmarshalText⟩

/-- The `fieldInfo` record that represents a model `FieldInfo` (`Index, Name, Type, Opts.*`).  The model's
`tag` component has no counterpart in the record: Go re-reads it with `FieldByIndex` (see `TagsOk`). -/
def fiObj (fi : FieldInfo) : Obj :=
  .ints (fi.index.map Int.ofNat) :: .name fi.name :: .rtype (fiType fi) :: optsVals fi.opts

/-- The `typeInfo` record `{Struct, Type, HashPrefix, Fields, NumReqValues}`. -/
def tiObj (strct : Val) (typ : RType) (hp : Val) (fields : List Nat) (n : Int) : Obj :=
  [strct, .rtype typ, hp, .ptrs fields, .int n]

/-- The records at `addrs` represent `fis`, in order. -/
def Reps (h : Heap) : List Nat → List FieldInfo → Prop
  | [], [] => True
  | a :: as, fi :: fis => h[a]? = some (fiObj fi) ∧ Reps h as fis
  | _, _ => False

/-- A `*fieldInfo` that may be nil. -/
def RepOpt (h : Heap) : Val → Option FieldInfo → Prop
  | .nil, none => True
  | .ptr a, some fi => h[a]? = some (fiObj fi)
  | _, _ => False

/-- `root.FieldByIndex(fi.Index)` exists for every listed field and carries the tag the model recorded. -/
def TagsOk (structs : List GoStruct) (root : RType) (fis : List FieldInfo) : Prop :=
  ∀ fi ∈ fis, ∃ f i, fieldByIndex structs root true (fi.index.map Int.ofNat) = .ok (f, i) ∧ f.tag = fi.tag

def invalidTagLit : Bytes := [105, 110, 118, 97, 108, 105, 100, 32, 116, 97, 103, 32, 105, 110, 32, 102, 105, 101, 108, 100, 32]

/-- The model's `TagErr` for an error VALUE of the program: a `*TagParamError` record is a param
conflict between its `Field1` and `Field2`; `errors.New("invalid tag in field " + T.String() + "." + name
+ ": " + strconv.Quote(tag))` is an invalid tag of field `name`. -/
def absErr (h : Heap) : Val → Option TagErr
  | .ptr a =>
    match h[a]? with
    | some [_, .name f1, .name f2, .str _, .str _] => some (.paramConflict f1 f2)
    | _ => none
  | .errNew [.lit b, .typeStr _, .lit [46], .name n, .lit [58, 32], .quoted tag] =>
    if b = invalidTagLit then some (.invalidTag n tag) else none
  | _ => none

def Res.isStuck {α : Type} : Res α → Prop
  | .stuck _ => True
  | _ => False

/-! ## The parts of `getRawTypeInfo` -/

/-- The loop `for i := 0; i < t.NumField(); i++ { … }` of `getRawTypeInfo`. -/
def rawLoop : Stmt := (getRawTypeInfoIR.body.drop 3).head
/-- Its body. -/
def rawBody : Stmt := rawLoop.forBody
/-- The part of the body that builds one `fieldInfo` from `sf` and `tag`: from `fi := &fieldInfo{…}` to the end
of the tag loop `for tag != "" { … }` (everything but the final `ti.Fields = append(ti.Fields, fi)`). -/
def fieldPart : Stmt := (rawBody.drop 4).take 7
/-- The tag loop alone. -/
def tagLoop : Stmt := (rawBody.drop 10).head

/-- The model's `FieldInfo` of a plain (not flattened) field number `i`. -/
def fieldInfoOf (f : GoField) (i : Nat) : FieldInfo :=
  { index := [i], name := f.name, kind := f.kind, ptrDepth := f.ptrDepth, typeName := f.typeName, tag := f.tag,
    marshalText := f.marshalText, unmarshalText := f.unmarshalText, opts := fieldOpts f }

/-- What `indirectType` does: all stars removed. -/
def IndirectSpec (c : Ctx) : Prop :=
  ∀ (h : Heap) (t : RType), t.depth < c.fuel → c.call 3 h [.rtype t] = .ok (h, [.rtype { t with depth := 0 }])

/-- (a) Running `fieldPart` with `sf` (slot 3) the description of field `i` and `tag` (slot 4) its tag
allocates exactly the record of `fieldInfoOf f i`, whose options are `fieldOpts f`; slots 0, 1, 2 are
untouched and `fi` (slot 7) points to the new record. -/
def FieldPartSpec : Prop :=
  ∀ (c : Ctx) (f : GoField) (i : Nat) (h : Heap) (env : Env),
    IndirectSpec c → f.ptrDepth < c.fuel → f.tag.length < c.fuel →
    env.length = 21 → env[3]? = some (.sfield f i) → env[4]? = some (.str f.tag) →
    ∃ env', exec c fieldPart h env = .norm (h ++ [fiObj (fieldInfoOf f i)]) env' ∧ env'.length = 21 ∧
      env'[0]? = env[0]? ∧ env'[1]? = env[1]? ∧ env'[2]? = env[2]? ∧ env'[7]? = some (.ptr h.length)

/-! ## `(*typeInfo).field` -/

/-- What a run of `field` must look like, given the model's answer. -/
def FieldPost (h : Heap) (addrs : List Nat) (fields : List FieldInfo) (param : Bytes)
    (r : Res (Heap × List Val)) : Prop :=
  match resolveParam fields param with
  | .ok (some fi) => ∃ a, a ∈ addrs ∧ h[a]? = some (fiObj fi) ∧ r = .ok (h, [.ptr a, .nil])
  | .ok none => r = .panic
  | .error e => ∃ o v, r = .ok (h ++ [o], [.nil, v]) ∧ absErr (h ++ [o]) v = some e

/-- (b) `field` agrees with `resolveParam` for EVERY behaviour `sort` of `sort.Slice`: either the proposed
behaviour is rejected (`stuck`: not a sorted permutation), or the result is the model's.  `call` is
arbitrary (`field` calls nothing). -/
def FieldSpec : Prop :=
  ∀ (c : Ctx) (h : Heap) (t : Nat) (strct hp : Val) (root : RType) (n : Int) (addrs : List Nat)
    (fields : List FieldInfo) (param : Bytes),
    h[t]? = some (tiObj strct root hp addrs n) → Reps h addrs fields → TagsOk c.structs root fields →
    fields.length < c.fuel → (∀ fi ∈ fields, fi.index.length < c.fuel) →
    let r := execProc c fieldIR h [.ptr t, .str param]
    r.isStuck ∨ FieldPost h addrs fields param r

/-- `c.call 0` behaves like `field` (used by `normalize`). -/
def CallsField (c : Ctx) : Prop :=
  ∀ (h : Heap) (t : Nat) (strct hp : Val) (root : RType) (n : Int) (addrs : List Nat)
    (fields : List FieldInfo) (param : Bytes),
    h[t]? = some (tiObj strct root hp addrs n) → Reps h addrs fields → TagsOk c.structs root fields →
    fields.length < c.fuel → (∀ fi ∈ fields, fi.index.length < c.fuel) →
    (c.call 0 h [.ptr t, .str param]).isStuck ∨ FieldPost h addrs fields param (c.call 0 h [.ptr t, .str param])

/-! ## `(*typeInfo).normalize` -/

/-- What a run of `normalize` must look like, given the model's answer. -/
def NormPost (h : Heap) (t : Nat) (strct : Val) (root : RType) (raw : List FieldInfo)
    (r : Res (Heap × List Val)) : Prop :=
  match normalizeLoop raw raw {} [] with
  | .ok out => ∃ hp outAddrs,
      r = .ok (h.set t (tiObj strct root hp outAddrs out.numReqValues), [.nil]) ∧
      RepOpt h hp out.hashPrefix ∧ Reps h outAddrs out.fields
  | .error e => ∃ h' v, r = .ok (h', [v]) ∧ absErr h' v = some e

/-- (c) `normalize` on a `typeInfo` whose `Fields` represent `raw` (with `HashPrefix` nil and
`NumReqValues` 0, as `getRawTypeInfo` leaves them) ends with the record representing
`normalizeLoop raw raw {} []`, or returns the error the model returns — unless the `sort.Slice`
behaviour was rejected.  `Struct` must hold a type (`getTypeInfo` sets it before the call): the error
message calls `ti.Struct.String()`. -/
def NormSpec : Prop :=
  ∀ (c : Ctx) (h : Heap) (t : Nat) (st : RType) (root : RType) (addrs : List Nat) (raw : List FieldInfo),
    CallsField c →
    h[t]? = some (tiObj (.rtype st) root .nil addrs 0) → Reps h addrs raw → TagsOk c.structs root raw →
    raw.length < c.fuel → (∀ fi ∈ raw, fi.index.length < c.fuel) →
    let r := execProc c normalizeIR h [.ptr t]
    r.isStuck ∨ NormPost h t (.rtype st) root raw r

/-! ## `getRawTypeInfo` -/

/-- Embedding depth of `s` is below `fuel`: `rawFields structs fuel s` never runs out of fuel. -/
def fitsFuel (structs : List GoStruct) : Nat → GoStruct → Bool
  | 0, _ => false
  | fuel + 1, s =>
    s.fields.all fun f =>
      if (!f.exported && !f.anonymous) || f.tag = tagDash then true
      else if f.anonymous then
        match f.kind with
        | .structRef n =>
          match Codec.lookupStruct structs n with
          | some st => fitsFuel structs fuel st
          | none => false
        | _ => true
      else true

/-- What a run of `getRawTypeInfo` on the struct named `n` must look like. -/
def RawPost (h : Heap) (typ : RType) (fis : List FieldInfo) (r : Res (Heap × List Val)) : Prop :=
  ∃ ext a addrs, r = .ok (h ++ ext, [.ptr a]) ∧ (h ++ ext)[a]? = some (tiObj .nil typ .nil addrs 0) ∧
    h.length ≤ a ∧ Reps (h ++ ext) addrs fis ∧ addrs.Nodup ∧ (∀ x ∈ addrs, h.length ≤ x ∧ x ≠ a)

/-- (d) `getRawTypeInfo` equals `rawFields` wherever the embedding depth is below the model's fuel
(`fitsFuel` also says that every embedded struct has a description in `structs`). -/
def RawSpec : Prop :=
  ∀ (w : World) (fuel depth : Nat) (h : Heap) (typ : RType) (n : String) (s : GoStruct),
    typ.depth = 0 → typ.kind = .structRef n → Codec.lookupStruct w.structs n = some s →
    fitsFuel w.structs fuel s = true →
    2 * fuel < depth →
    (∀ s' ∈ w.structs, s'.fields.length < w.fuel ∧ ∀ f ∈ s'.fields, f.ptrDepth < w.fuel ∧ f.tag.length < w.fuel) →
    (rawFields w.structs fuel s).length < w.fuel →
    RawPost h typ (rawFields w.structs fuel s) (callIn program w depth 2 h [.rtype typ])

/-! ## Field numbers -/

example : fieldInfoFields = ["Index", "Name", "Type", "Opts.Prefix", "Opts.OmitEmpty", "Opts.Group", "Opts.Param",
    "Opts.Encoding", "Opts.Length", "Opts.HasLength", "Opts.Inline", "Opts.Base"] := by decide
example : typeInfoFields = ["Struct", "Type", "HashPrefix", "Fields", "NumReqValues"] := by decide
example : tagParamErrorFields = ["Struct", "Field1", "Field2", "Tag1", "Tag2"] := by decide
example : procNames = ["typeInfo.field", "typeInfo.normalize", "getRawTypeInfo", "indirectType", "getTypeInfo"] := by decide

end GoCrypt.TIIR
