import GoCrypt.Proofs.SIREncWriteLead
import GoCrypt.Proofs.Stream

/-!
# Stream IR of `hash/base64le`: `(*encoder).Write` as a whole

Helper lemmas only; the property theorems are in `Props/SIREncoder.lean`.
-/

namespace GoCrypt.SIR
open GoCrypt.B64IR (Buf Heap Slice Res sliceBytes writeList padInt decodeMapBytes encVal)
open GoCrypt.Base64LE GoCrypt.Stream GoCrypt.Gen.base64leStream GoCrypt.Gen.base64le

/-- What a call of `Write`/`Close` that the model answers with `(st', n, err)` looks like in the world:
the returned values, a world that represents `st'`, and nothing else touched (only the buffers of `buf`
and `out`, the `encoder` object and the writer may differ). -/
def WriteOK (L : EncLayout) (e : Encoding) (H : Heap) (O : List Obj) (X : List Ext) (res : EncSt × Nat × Option Err)
    (out : Res (World × List Val)) : Prop :=
  ∃ H' O', out = .ok (⟨H', O', X.set L.k (writerOf res.1)⟩, [.int (res.2.1 : Nat), .err res.2.2]) ∧
    EncRep L e res.1 H' O' (X.set L.k (writerOf res.1)) ∧
    (∀ b, b ≠ L.bb → b ≠ L.bo → H'[b]? = H[b]?) ∧ (∀ a, a ≠ L.d → O'[a]? = O[a]?) ∧
    H'.length = H.length ∧ O'.length = O.length

/-- Building the representation of the new state from the old one. -/
theorem EncRep.update {L : EncLayout} {e : Encoding} {st : EncSt} {H : Heap} {O : List Obj} {X : List Ext}
    (h : EncRep L e st H O X) (st' : EncSt) (H' : Heap) (O' : List Obj) (B' Ob' : Buf)
    (hf : ∀ b, b ≠ L.bb → b ≠ L.bo → H'[b]? = H[b]?) (hO : ∀ a, a ≠ L.d → O'[a]? = O[a]?)
    (hobj : O'[L.d]? = some (encoderObj L.ae L.k L.bb L.bo st'.err st'.buf.length))
    (hB' : H'[L.bb]? = some B') (hBs : B'.size = 3) (hBt : B'.toList.take st'.buf.length = st'.buf)
    (hOb' : H'[L.bo]? = some Ob') (hObs : Ob'.size = 1024) :
    EncRep L e st' H' O' (X.set L.k (writerOf st')) where
  enc := h.enc.mono _ _ (hO _ (Ne.symm h.ne6)) (hf _ (Ne.symm h.ne2) (Ne.symm h.ne4)) (hf _ (Ne.symm h.ne3) (Ne.symm h.ne5))
  obj := hobj
  wr := List.getElem?_set_self (lt_of_getElem? h.wr)
  buf := ⟨B', hB', hBs, hBt⟩
  out := ⟨Ob', hOb', hObs⟩
  ne1 := h.ne1
  ne2 := h.ne2
  ne3 := h.ne3
  ne4 := h.ne4
  ne5 := h.ne5
  ne6 := h.ne6

theorem encInterior_buf (e : Encoding) (fuel : Nat) : ∀ (st : EncSt) (p : Bytes) (n : Nat),
    (encInterior e st p n fuel).1.buf = st.buf := by
  induction fuel with
  | zero => intro st p n; rfl
  | succ f ih =>
    intro st p n
    rw [encInterior_succ]
    split
    · split
      · exact wWrite_buf _ _
      · rw [ih]; exact wWrite_buf _ _
    · rfl

/-! ## Interior loop + trailing fringe = the model's `encTail` -/

set_option maxHeartbeats 1000000 in
theorem tail_run (n' : Nat) (hlib : EncLibSpec lib) (L : EncLayout) (e : Encoding) (st0 st1 : EncSt) (H0 H : Heap)
    (O0 O : List Obj) (X0 X : List Ext) (hrep : EncRep L e st0 H0 O0 X0) (P : Buf) (bp off len take : Nat) (v4 v5 v6 : Val)
    (hH : ∀ b, b ≠ L.bb → b ≠ L.bo → H[b]? = H0[b]?) (hHl : H.length = H0.length)
    (hO : ∀ a, a ≠ L.d → O[a]? = O0[a]?) (hOl : O.length = O0.length) (hX : X = X0.set L.k (writerOf st1))
    (hobj : O[L.d]? = some (encoderObj L.ae L.k L.bb L.bo none 0))
    (herr : st1.err = none) (hbuf : st1.buf = [])
    (hB : ∃ B : Buf, H[L.bb]? = some B ∧ B.size = 3) (hOb : ∃ Ob : Buf, H[L.bo]? = some Ob ∧ Ob.size = 1024)
    (hP : H0[bp]? = some P) (hnb : L.bb ≠ bp) (hno : L.bo ≠ bp)
    (hwin : off + len = P.size) (hsz : take + len < 2 ^ 62) (hPz : P.size < 2 ^ 62) :
    WriteOK L e H0 O0 X0 (encTail e st1 (P.toList.drop off) take)
      (procResult (exec { call := callIn program lib (n' + 1) } (wInterior ;; wTailInit ;; wTailFor ;; wTailEnd) ⟨H, O, X⟩
        [.ptr L.d, .slice ⟨bp, off, len, len⟩, .int take, .err none, v4, v5, v6])) := by
  obtain ⟨B, hB1, hBs⟩ := hB
  obtain ⟨Ob, hOb1, hObs⟩ := hOb
  have hkl : L.k < X0.length := lt_of_getElem? hrep.wr
  have hPH : H[bp]? = some P := by rw [hH bp (Ne.symm hnb) (Ne.symm hno)]; exact hP
  have hencAt : EncAt H O L.ae L.b1 L.b2 e :=
    hrep.enc.mono _ _ (hO _ (Ne.symm hrep.ne6)) (hH _ (Ne.symm hrep.ne2) (Ne.symm hrep.ne4)) (hH _ (Ne.symm hrep.ne3) (Ne.symm hrep.ne5))
  have hwr : X[L.k]? = some (writerOf st1) := by rw [hX]; exact List.getElem?_set_self hkl
  have hpl : (P.toList.drop off).length = len := by simp; omega
  -- the interior loop
  have hfuel : (eval ⟨H, O, X⟩ [.ptr L.d, .slice ⟨bp, off, len, len⟩, .int take, .err none, v4, v5, v6] wInterior.forFuel >>= asInt) =
      .ok ((1 + len + 3 + pendingAll X : Nat) : Int) := by
    simp only [wInterior, Stmt.forFuel, Stmt.head, Stmt.drop, encoderWriteIR]
    b64_simp []
    rfl
  obtain ⟨H1, v5', Ob1, hi1, hi2, hi3, hi4, hi5, hi6⟩ := interior_loop n' hlib L e O P bp v4 v6 hobj hno hrep.ne6 hrep.ne4 hrep.ne5 hPz
    len len (Nat.le_refl _) H X st1 off take v5 Ob (1 + len + 3 + pendingAll X) (len / 3 + 1) herr hencAt hwr hOb1 hObs hPH hwin
    (by omega) (Nat.le_refl _) hsz
  rw [exec_seq, wInterior_eq, exec_for, hfuel, bindR_ok, Int.toNat_natCast, hi5]
  have hXX : ∀ w, X.set L.k w = X0.set L.k w := fun w => by rw [hX, List.set_set]
  unfold encTail
  rw [hpl]
  cases hres : (encInterior e st1 (P.toList.drop off) take (len / 3 + 1)).1.err with
  | some cerr =>
    simp only [hres, Option.isSome_some, if_true, andThen_ret, procResult_ret]
    refine ⟨H1, O.set L.d (encoderObj L.ae L.k L.bb L.bo (some cerr) 0), by rw [hXX], ?_, ?_, ?_, ?_, ?_⟩
    · refine hrep.update _ H1 _ B Ob1 ?_ ?_ ?_ ?_ hBs ?_ hi1 hi2
      · intro b h1 h2; rw [hi3 b h2]; exact hH b h1 h2
      · intro a ha; rw [List.getElem?_set_ne (Ne.symm ha)]; exact hO a ha
      · rw [List.getElem?_set_self (by rw [hOl]; exact lt_of_getElem? hrep.obj), hres, encInterior_buf, hbuf]; rfl
      · rw [hi3 _ hrep.ne1]; exact hB1
      · rw [encInterior_buf, hbuf]; rfl
    · intro b h1 h2; rw [hi3 b h2]; exact hH b h1 h2
    · intro a ha; rw [List.getElem?_set_ne (Ne.symm ha)]; exact hO a ha
    · rw [hi4, hHl]
    · simp [hOl]
  | none =>
    obtain ⟨g1, g2, g3⟩ := hi6 hres
    simp only [hres, Option.isSome_none, Bool.false_eq_true, if_false, andThen_norm]
    have hB1' : H1[L.bb]? = some B := by rw [hi3 _ hrep.ne1]; exact hB1
    have hP1 : H1[bp]? = some P := by rw [hi3 _ (Ne.symm hno)]; exact hPH
    have htr := trailing_run { call := callIn program lib (n' + 1) } L H1 O
      (X.set L.k (writerOf (encInterior e st1 (P.toList.drop off) take (len / 3 + 1)).1)) B P bp
      (P.size - (encInterior e st1 (P.toList.drop off) take (len / 3 + 1)).2.1.length)
      (encInterior e st1 (P.toList.drop off) take (len / 3 + 1)).2.1.length
      (encInterior e st1 (P.toList.drop off) take (len / 3 + 1)).2.2 v4 v5' v6 0 none hobj hB1' hBs hP1 hnb
      (by have : (encInterior e st1 (P.toList.drop off) take (len / 3 + 1)).2.1.length ≤ P.size := by
            have := congrArg List.length g1; simp at this; omega
          omega) g2 hPz (by omega)
    rw [htr, ← g1]
    have hbl : L.bb < H1.length := lt_of_getElem? hB1'
    refine ⟨_, _, by rw [hXX]; rfl, ?_, ?_, ?_, ?_, ?_⟩
    · refine hrep.update _ _ _ (writeList B 0 (encInterior e st1 (P.toList.drop off) take (len / 3 + 1)).2.1) Ob1 ?_ ?_ ?_ ?_ ?_ ?_ ?_ hi2
      · intro b h1 h2; rw [List.getElem?_set_ne (Ne.symm h1), hi3 b h2]; exact hH b h1 h2
      · intro a ha; rw [List.getElem?_set_ne (Ne.symm ha)]; exact hO a ha
      · rw [List.getElem?_set_self (by rw [hOl]; exact lt_of_getElem? hrep.obj)]
      · exact List.getElem?_set_self hbl
      · simp [hBs]
      · simp only
        rw [B64IR.writeList_eq_writeAt, writeAt_toList _ _ _ (by omega)]
        simp
      · rw [List.getElem?_set_ne hrep.ne1]; exact hi1
    · intro b h1 h2; rw [List.getElem?_set_ne (Ne.symm h1), hi3 b h2]; exact hH b h1 h2
    · intro a ha; rw [List.getElem?_set_ne (Ne.symm ha)]; exact hO a ha
    · simp [hi4, hHl]
    · simp [hOl]

end GoCrypt.SIR
