import GoCrypt.Base.B64IRBase
import GoCrypt.Proofs.B64IRAttr

/-!
# Buffer IR: interpreter lemmas

Generic facts about `B64IR.exec`/`eval`: the result monads, operators on natural-number operands,
wrap-around inside the range, statement accessors (to name the parts of a generated body without
copying its text), and loop shapes. Helper lemmas only; the property theorems are in `Props/B64IR.lean`.
-/

namespace GoCrypt.B64IR

/-! ## The result monads -/

@[simp, b64ir] theorem pure_eq_ok {α : Type} (a : α) : (pure a : Res α) = .ok a := id rfl
@[simp, b64ir] theorem ok_bind {α β : Type} (a : α) (f : α → Res β) : (Res.ok a >>= f) = f a := id rfl
@[simp, b64ir] theorem panic_bind {α β : Type} (f : α → Res β) : (Res.panic >>= f) = .panic := id rfl
@[simp, b64ir] theorem stuck_bind {α β : Type} (w : String) (f : α → Res β) : (Res.stuck w >>= f) = .stuck w := id rfl

@[simp, b64ir] theorem bindR_ok {α : Type} (a : α) (k : α → Out) : bindR (.ok a) k = k a := id rfl
@[simp, b64ir] theorem bindR_panic {α : Type} (k : α → Out) : bindR (.panic) k = .panic := id rfl
@[simp, b64ir] theorem bindR_stuck {α : Type} (w : String) (k : α → Out) : bindR (.stuck w) k = .stuck w := id rfl

@[simp, b64ir] theorem andThen_norm (h : Heap) (env : Env) (k : Heap → Env → Out) : (Out.norm h env).andThen k = k h env := id rfl
@[simp, b64ir] theorem andThen_brk (h : Heap) (env : Env) (k : Heap → Env → Out) : (Out.brk h env).andThen k = .brk h env := id rfl
@[simp, b64ir] theorem andThen_cont (h : Heap) (env : Env) (k : Heap → Env → Out) : (Out.cont h env).andThen k = .cont h env := id rfl
@[simp, b64ir] theorem andThen_ret (h : Heap) (vs : List Val) (k : Heap → Env → Out) : (Out.ret h vs).andThen k = .ret h vs := id rfl
@[simp, b64ir] theorem andThen_panic (k : Heap → Env → Out) : (Out.panic).andThen k = .panic := id rfl
@[simp, b64ir] theorem andThen_stuck (w : String) (k : Heap → Env → Out) : (Out.stuck w).andThen k = .stuck w := id rfl

@[simp, b64ir] theorem asInt_int (i : Int) : asInt (.int i) = .ok i := id rfl
@[simp, b64ir] theorem asBool_bool (b : Bool) : asBool (.bool b) = .ok b := id rfl

/-! ## Wrap-around inside the range -/

theorem wrapS64_eq {x : Int} (h1 : -9223372036854775808 ≤ x) (h2 : x < 9223372036854775808) : wrapS 64 x = x := by
  unfold wrapS
  have e1 : (2 : Int) ^ (64 - 1) = 9223372036854775808 := by decide
  have e2 : (2 : Int) ^ 64 = 18446744073709551616 := by decide
  rw [e1, e2]; omega

theorem wrapU_natCast (bits : Nat) (x : Nat) : wrapU bits (x : Int) = ((x % 2 ^ bits : Nat) : Int) := by
  unfold wrapU
  rw [Int.natCast_emod, Int.natCast_pow]; rfl

theorem wrapU8_of_lt {x : Int} (h1 : 0 ≤ x) (h2 : x < 256) : wrapU 8 x = x := by
  unfold wrapU
  have e : (2 : Int) ^ 8 = 256 := by decide
  rw [e]; omega

theorem wrapU8_neg_one : wrapU 8 (-1) = 255 := by decide

/-! ## Operators on natural-number operands -/

theorem evalBin_band_nat (a b : Nat) : evalBin .band (a : Int) (b : Int) = .ok (.int ((a &&& b : Nat) : Int)) := by
  simp [evalBin]
theorem evalBin_bor_nat (a b : Nat) : evalBin .bor (a : Int) (b : Int) = .ok (.int ((a ||| b : Nat) : Int)) := by
  simp [evalBin]
theorem evalBin_shl_nat (a b : Nat) : evalBin .shl (a : Int) (b : Int) = .ok (.int ((a <<< b : Nat) : Int)) := by
  have : ¬ ((b : Int) < 0) := by omega
  simp [evalBin, this]
theorem evalBin_shr_nat (a b : Nat) : evalBin .shr (a : Int) (b : Int) = .ok (.int ((a >>> b : Nat) : Int)) := by
  have : ¬ ((b : Int) < 0) := by omega
  simp [evalBin, this]

/-- The same with a literal (or any non-negative) right operand. -/
theorem evalBin_band_nl (a : Nat) (b : Int) (hb : 0 ≤ b) : evalBin .band (a : Int) b = .ok (.int ((a &&& b.toNat : Nat) : Int)) := by
  simp [evalBin, hb]
theorem evalBin_bor_nl (a : Nat) (b : Int) (hb : 0 ≤ b) : evalBin .bor (a : Int) b = .ok (.int ((a ||| b.toNat : Nat) : Int)) := by
  simp [evalBin, hb]
theorem evalBin_shl_nl (a : Nat) (b : Int) (hb : 0 ≤ b) : evalBin .shl (a : Int) b = .ok (.int ((a <<< b.toNat : Nat) : Int)) := by
  have : ¬ (b < 0) := by omega
  simp [evalBin, this]
theorem evalBin_shr_nl (a : Nat) (b : Int) (hb : 0 ≤ b) : evalBin .shr (a : Int) b = .ok (.int ((a >>> b.toNat : Nat) : Int)) := by
  have : ¬ (b < 0) := by omega
  simp [evalBin, this]

/-- Division of non-negative operands: Go's truncation is floor division. -/
theorem evalBin_div_nat (a b : Nat) (hb : b ≠ 0) : evalBin .div (a : Int) (b : Int) = .ok (.int ((a / b : Nat) : Int)) := by
  have : ¬ ((b : Int) = 0) := by omega
  simp only [evalBin, this, if_false]
  rw [Int.tdiv_eq_ediv_of_nonneg (Int.natCast_nonneg a)]
  rfl

@[b64ir] theorem evalBin_add (a b : Int) : evalBin .add a b = .ok (.int (a + b)) := id rfl
@[b64ir] theorem evalBin_sub (a b : Int) : evalBin .sub a b = .ok (.int (a - b)) := id rfl
@[b64ir] theorem evalBin_mul (a b : Int) : evalBin .mul a b = .ok (.int (a * b)) := id rfl
@[b64ir] theorem evalBin_div (a b : Int) : evalBin .div a b = if b = 0 then .panic else .ok (.int (Int.tdiv a b)) := id rfl
@[b64ir] theorem evalBin_rem (a b : Int) : evalBin .rem a b = if b = 0 then .panic else .ok (.int (Int.tmod a b)) := id rfl
@[b64ir] theorem evalBin_lt (a b : Int) : evalBin .lt a b = .ok (.bool (decide (a < b))) := id rfl
@[b64ir] theorem evalBin_le (a b : Int) : evalBin .le a b = .ok (.bool (decide (a ≤ b))) := id rfl
@[b64ir] theorem evalBin_gt (a b : Int) : evalBin .gt a b = .ok (.bool (decide (a > b))) := id rfl
@[b64ir] theorem evalBin_ge (a b : Int) : evalBin .ge a b = .ok (.bool (decide (a ≥ b))) := id rfl
@[b64ir] theorem evalBin_eq (a b : Int) : evalBin .eq a b = .ok (.bool (decide (a = b))) := id rfl
@[b64ir] theorem evalBin_ne (a b : Int) : evalBin .ne a b = .ok (.bool (decide (a ≠ b))) := id rfl

attribute [b64ir] eval evalArgs evalLHS evalLHSs lookup storeAll store fieldOf Fld.toVal lenOf

/-! ## Statement accessors

A generated body is a right-nested chain `s₀ ;; s₁ ;; … ;; sₖ`. These functions name its parts, so
that the proofs can speak about "the loop at position 7" without copying its text. -/

namespace Stmt

/-- The chain without its first `n` statements. -/
def drop : Nat → Stmt → Stmt
  | 0, s => s
  | n + 1, .seq _ b => drop n b
  | _ + 1, _ => .skip

/-- The first statement of a chain. -/
def head : Stmt → Stmt
  | .seq a _ => a
  | s => s

/-- The first `n` statements of a chain. -/
def take : Nat → Stmt → Stmt
  | 0, _ => .skip
  | n + 1, .seq a b => .seq a (take n b)
  | _ + 1, s => s

def forFuel : Stmt → Expr
  | .for_ f _ _ _ => f
  | _ => .unknown "not a loop"
def forCond : Stmt → Expr
  | .for_ _ c _ _ => c
  | _ => .unknown "not a loop"
def forPost : Stmt → Stmt
  | .for_ _ _ p _ => p
  | _ => .unknown "not a loop"
def forBody : Stmt → Stmt
  | .for_ _ _ _ b => b
  | _ => .unknown "not a loop"
def iteCond : Stmt → Expr
  | .ite c _ _ => c
  | _ => .unknown "not an if"
def iteThen : Stmt → Stmt
  | .ite _ t _ => t
  | _ => .unknown "not an if"
def iteElse : Stmt → Stmt
  | .ite _ _ e => e
  | _ => .unknown "not an if"

end Stmt

section rules
variable (c : Ctx) (h : Heap) (env : Env)

@[b64ir] theorem exec_seq (a b : Stmt) : exec c (a ;; b) h env = (exec c a h env).andThen (exec c b) := id rfl
@[b64ir] theorem exec_skip : exec c .skip h env = .norm h env := id rfl
@[b64ir] theorem exec_brk : exec c .brk h env = .brk h env := id rfl
@[b64ir] theorem exec_cont : exec c .cont h env = .cont h env := id rfl
@[b64ir] theorem exec_ret (es : List Expr) : exec c (.ret es) h env = bindR (evalArgs h env es) fun vs => .ret h vs := id rfl
@[b64ir] theorem exec_assign (lhs : List LHS) (rhs : List Expr) :
    exec c (.assign lhs rhs) h env =
      bindR (evalLHSs h env lhs) fun refs =>
      bindR (evalArgs h env rhs) fun vals =>
      bindR (storeAll h env refs vals) fun (h', env') => .norm h' env' := id rfl
@[b64ir] theorem exec_call (lhs : List LHS) (f : String) (args : List Expr) :
    exec c (.call lhs f args) h env =
      bindR (evalLHSs h env lhs) fun refs =>
      bindR (evalArgs h env args) fun vals =>
      bindR (c.call f h vals) fun (h', rs) =>
      bindR (storeAll h' env refs rs) fun (h'', env') => .norm h'' env' := id rfl
@[b64ir] theorem exec_putBE (nbytes : Nat) (d v : Expr) :
    exec c (.putBE nbytes d v) h env =
      bindR (eval h env d) fun dv =>
      bindR (eval h env v >>= asInt) fun x =>
      bindR (putBE h nbytes dv x) fun h' => .norm h' env := id rfl
@[b64ir] theorem exec_make (x : Nat) (n : Expr) :
    exec c (.make x n) h env =
      bindR (eval h env n >>= asInt) fun k =>
        if k < 0 then .panic
        else if x < env.length then
          .norm (h ++ [Array.replicate k.toNat 0]) (env.set x (.slice ⟨h.length, 0, k.toNat, k.toNat⟩))
        else .stuck "no such slot" := id rfl
@[b64ir] theorem exec_bytesOfStr (x : Nat) (e : Expr) :
    exec c (.bytesOfStr x e) h env =
      bindR (eval h env e) fun v =>
        match v with
        | .str s =>
          if x < env.length then
            .norm (h ++ [s.toArray]) (env.set x (.slice ⟨h.length, 0, s.length, s.length⟩))
          else .stuck "no such slot"
        | _ => .stuck "string expected" := id rfl

/-- Splitting a chain at position `n`. -/
theorem exec_take_drop (n : Nat) (s : Stmt) :
    exec c s h env = (exec c (s.take n) h env).andThen (exec c (s.drop n)) := by
  induction n generalizing s h env with
  | zero => rfl
  | succ n ih =>
    cases s with
    | seq a b =>
      simp only [Stmt.take, Stmt.drop, exec]
      cases hx : exec c a h env <;> simp only [andThen_norm, andThen_brk, andThen_cont, andThen_ret, andThen_panic, andThen_stuck]
      exact ih _ _ _
    | _ => simp only [Stmt.take, Stmt.drop] <;> (cases hx : exec c _ h env <;> simp [exec])

theorem exec_for (fuel cnd : Expr) (post body : Stmt) :
    exec c (.for_ fuel cnd post body) h env =
      bindR (eval h env fuel >>= asInt) fun n =>
        loop (fun h env => eval h env cnd >>= asBool) (exec c body) (exec c post) n.toNat h env := id rfl

@[b64ir] theorem exec_ite (cnd : Expr) (t e : Stmt) :
    exec c (.ite cnd t e) h env =
      bindR (eval h env cnd >>= asBool) fun b => if b then exec c t h env else exec c e h env := id rfl

end rules

/-! ## Procedures -/

/-- What a procedure returns, from the result of its body. -/
def procResult : Out → Res (Heap × List Val)
  | .ret h' vs => .ok (h', vs)
  | .norm h' _ => .ok (h', [])
  | .brk _ _ => .stuck "break outside a loop"
  | .cont _ _ => .stuck "continue outside a loop"
  | .panic => .panic
  | .stuck w => .stuck w

theorem execProc_eq (c : Ctx) (p : Proc) (h : Heap) (args : List Val) (hn : p.nparams = args.length) :
    execProc c p h args = procResult (exec c p.body h (args ++ List.replicate (p.nslots - p.nparams) .undef)) := by
  unfold execProc
  rw [if_neg (by omega)]
  cases exec c p.body h (args ++ List.replicate (p.nslots - p.nparams) .undef) <;> rfl

@[simp] theorem procResult_ret (h : Heap) (vs : List Val) : procResult (.ret h vs) = .ok (h, vs) := id rfl
@[simp] theorem procResult_norm (h : Heap) (env : Env) : procResult (.norm h env) = .ok (h, []) := id rfl
@[simp] theorem procResult_panic : procResult .panic = .panic := id rfl

theorem procResult_andThen_ret (h : Heap) (vs : List Val) (k : Heap → Env → Out) :
    procResult ((Out.ret h vs).andThen k) = .ok (h, vs) := id rfl

/-! ## Loop shapes -/

theorem loop_false (cond : Heap → Env → Res Bool) (body post : Heap → Env → Out) (fuel : Nat) (h : Heap) (env : Env)
    (hc : cond h env = .ok false) : loop cond body post fuel h env = .norm h env := by
  unfold loop; simp [hc]

theorem loop_step (cond : Heap → Env → Res Bool) (body post : Heap → Env → Out) (fuel : Nat) (h : Heap) (env : Env)
    (hc : cond h env = .ok true) :
    loop cond body post (fuel + 1) h env = afterBody post (loop cond body post fuel) (body h env) := by
  rw [loop]; simp [hc]

theorem loop_zero (cond : Heap → Env → Res Bool) (body post : Heap → Env → Out) (h : Heap) (env : Env)
    (hc : cond h env = .ok true) :
    loop cond body post 0 h env = .stuck "loop bound exceeded" := by
  rw [loop]; simp [hc]

@[simp, b64ir] theorem afterPost_norm (k : Heap → Env → Out) (h : Heap) (env : Env) : afterPost k (.norm h env) = k h env := id rfl
@[simp, b64ir] theorem afterPost_ret (k : Heap → Env → Out) (h : Heap) (vs : List Val) : afterPost k (.ret h vs) = .ret h vs := id rfl
@[simp, b64ir] theorem afterPost_panic (k : Heap → Env → Out) : afterPost k .panic = .panic := id rfl
@[simp, b64ir] theorem afterBody_norm (post k : Heap → Env → Out) (h : Heap) (env : Env) :
    afterBody post k (.norm h env) = afterPost k (post h env) := id rfl
@[simp, b64ir] theorem afterBody_cont (post k : Heap → Env → Out) (h : Heap) (env : Env) :
    afterBody post k (.cont h env) = afterPost k (post h env) := id rfl
@[simp, b64ir] theorem afterBody_brk (post k : Heap → Env → Out) (h : Heap) (env : Env) :
    afterBody post k (.brk h env) = .norm h env := id rfl
@[simp, b64ir] theorem afterBody_ret (post k : Heap → Env → Out) (h : Heap) (vs : List Val) :
    afterBody post k (.ret h vs) = .ret h vs := id rfl
@[simp, b64ir] theorem afterBody_panic (post k : Heap → Env → Out) : afterBody post k .panic = .panic := id rfl
@[simp, b64ir] theorem afterBody_stuck (post k : Heap → Env → Out) (w : String) : afterBody post k (.stuck w) = .stuck w := id rfl

/-- Counting loop: `st k` is the state at the start of iteration `k`, `n` the number of iterations. -/
theorem loop_count (cond : Heap → Env → Res Bool) (body post : Heap → Env → Out) (st : Nat → Heap × Env) (n : Nat)
    (hc : ∀ k, k < n → cond (st k).1 (st k).2 = .ok true)
    (hn : cond (st n).1 (st n).2 = .ok false)
    (hs : ∀ k, k < n → (body (st k).1 (st k).2).andThen post = .norm (st (k + 1)).1 (st (k + 1)).2)
    (hb : ∀ k, k < n → ∃ h' env', body (st k).1 (st k).2 = .norm h' env') :
    ∀ fuel k, k ≤ n → n - k ≤ fuel → loop cond body post fuel (st k).1 (st k).2 = .norm (st n).1 (st n).2 := by
  intro fuel
  induction fuel with
  | zero =>
    intro k hk hf
    have : k = n := by omega
    subst this
    exact loop_false _ _ _ _ _ _ hn
  | succ fuel ih =>
    intro k hk hf
    by_cases hkn : k = n
    · subst hkn; exact loop_false _ _ _ _ _ _ hn
    · have hlt : k < n := by omega
      rw [loop_step _ _ _ _ _ _ (hc k hlt)]
      obtain ⟨h', env', hbody⟩ := hb k hlt
      have hstep := hs k hlt
      rw [hbody] at hstep ⊢
      simp only [andThen_norm] at hstep
      simp only [afterBody_norm, hstep, afterPost_norm]
      exact ih (k + 1) (by omega) (by omega)

/-! ## Keeping integers in `Nat`-cast form -/

theorem natCast_add_ofNat (a k : Nat) :
    (a : Int) + (no_index (OfNat.ofNat k) : Int) = ((a + (OfNat.ofNat k : Nat) : Nat) : Int) := id rfl

theorem natCast_sub_ofNat (a k : Nat) (h : OfNat.ofNat k ≤ a) :
    (a : Int) - (no_index (OfNat.ofNat k) : Int) = ((a - (OfNat.ofNat k : Nat) : Nat) : Int) := by
  show (a : Int) - ((OfNat.ofNat k : Nat) : Int) = _
  omega

theorem natCast_mul_ofNat (a k : Nat) :
    (a : Int) * (no_index (OfNat.ofNat k) : Int) = ((a * (OfNat.ofNat k : Nat) : Nat) : Int) := by
  show (a : Int) * ((OfNat.ofNat k : Nat) : Int) = _
  rw [Int.natCast_mul]

theorem natCast_tdiv_ofNat (a k : Nat) :
    Int.tdiv (a : Int) (no_index (OfNat.ofNat k) : Int) = ((a / (OfNat.ofNat k : Nat) : Nat) : Int) := by
  show Int.tdiv (a : Int) ((OfNat.ofNat k : Nat) : Int) = _
  rw [Int.tdiv_eq_ediv_of_nonneg (Int.natCast_nonneg a)]; rfl

theorem natCast_add_natCast (a b : Nat) : (a : Int) + (b : Int) = ((a + b : Nat) : Int) := (Int.natCast_add a b).symm

theorem natCast_sub_natCast (a b : Nat) (h : b ≤ a) : (a : Int) - (b : Int) = ((a - b : Nat) : Int) := by omega

theorem wrapS64_natCast (a : Nat) (h : a < 9223372036854775808) : wrapS 64 (a : Int) = (a : Int) :=
  wrapS64_eq (by omega) (by omega)

theorem natCast_lt_natCast (a b : Nat) : ((a : Int) < (b : Int)) = (a < b) := by simp
theorem natCast_le_natCast (a b : Nat) : ((a : Int) ≤ (b : Int)) = (a ≤ b) := by simp
theorem natCast_eq_natCast (a b : Nat) : ((a : Int) = (b : Int)) = (a = b) := propext Int.ofNat_inj
theorem natCast_eq_ofNat (a k : Nat) : ((a : Int) = (no_index (OfNat.ofNat k) : Int)) = (a = (OfNat.ofNat k : Nat)) := by
  show ((a : Int) = ((OfNat.ofNat k : Nat) : Int)) = _
  exact propext Int.ofNat_inj
theorem natCast_lt_ofNat (a k : Nat) : ((a : Int) < (no_index (OfNat.ofNat k) : Int)) = (a < (OfNat.ofNat k : Nat)) := by
  show ((a : Int) < ((OfNat.ofNat k : Nat) : Int)) = _
  exact propext Int.ofNat_lt
theorem natCast_ge_ofNat (a k : Nat) : ((a : Int) ≥ (no_index (OfNat.ofNat k) : Int)) = (a ≥ (OfNat.ofNat k : Nat)) := by
  show (((OfNat.ofNat k : Nat) : Int) ≤ (a : Int)) = _
  exact propext Int.ofNat_le

/-! ## Bytes -/

@[b64ir] theorem asByte_toNat (x : UInt8) : asByte (.int (x.toNat : Int)) = .ok x := by
  have := x.toNat_lt
  have h : (0 : Int) ≤ x.toNat ∧ (x.toNat : Int) < 256 := by omega
  simp [asByte, h]

@[b64ir] theorem asByte_zero : asByte (.int 0) = .ok 0 := by decide

theorem asByte_nat (v : Nat) (hv : v < 256) : asByte (.int (v : Int)) = .ok (UInt8.ofNat v) := by
  have h : (0 : Int) ≤ v ∧ (v : Int) < 256 := by omega
  simp [asByte, h]

/-- Reading a table (`[N]byte` value) at an index in range. -/
theorem indexBytes_nat (a : Bytes) (i : Nat) (hi : i < a.length) :
    indexBytes a (i : Int) = .ok (.int ((a.getD i 0).toNat : Int)) := by
  simp [indexBytes, hi, List.getD_eq_getElem?_getD]

/-- Reading a slice inside its buffer. -/
theorem indexVal_slice (h : Heap) (s : Slice) (buf : Buf) (i : Nat) (hb : h[s.buf]? = some buf)
    (hi : i < s.len) (hin : s.off + i < buf.size) :
    indexVal h (.slice s) (i : Int) = .ok (.int ((buf[s.off + i]'hin).toNat : Int)) := by
  have h1 : (0 : Int) ≤ i ∧ (i : Int) < s.len := by omega
  simp [indexVal, h1, hb, hin]

/-! ## The symbolic-execution simp call -/

attribute [b64ir] List.getElem?_cons_succ List.getElem?_cons_zero List.set_cons_succ List.set_cons_zero
  List.length_cons List.length_nil Int.toNat_natCast decide_true decide_false
  List.cons_append List.nil_append List.replicate_succ List.replicate_zero ne_eq not_true_eq_false not_false_eq_true
  Bool.not_true Bool.not_false Bool.true_eq_false Bool.false_eq_true if_true if_false
  evalBin_band_nl evalBin_bor_nl evalBin_shl_nl evalBin_shr_nl evalBin_bor_nat evalBin_band_nat wrapU_natCast
  natCast_add_ofNat natCast_sub_ofNat natCast_mul_ofNat natCast_tdiv_ofNat natCast_add_natCast natCast_sub_natCast
  wrapS64_natCast natCast_lt_natCast natCast_le_natCast natCast_eq_natCast natCast_eq_ofNat natCast_lt_ofNat natCast_ge_ofNat
  indexVal sliceVal indexBytes_nat if_pos if_neg decide_eq_true_eq Nat.zero_add Nat.add_zero
  Array.getElem?_eq_getElem Array.size_setIfInBounds List.set_set List.getElem?_set_self List.getElem?_set_ne
  ge_iff_le gt_iff_lt wrapS64_eq Int.sub_add_cancel Nat.add_sub_cancel Int.cast_ofNat_Int true_and and_true

/-- `simp only` with the rules that run a buffer-IR program (`b64ir`) and the literal-arithmetic simprocs. -/
syntax "b64_simp" (" [" Lean.Parser.Tactic.simpLemma,* "]")? : tactic
macro_rules
  | `(tactic| b64_simp) =>
    `(tactic| simp (disch := omega) only [b64ir, Int.reduceLE, Int.reduceLT, Int.reduceEq, Int.reduceNe, Int.reduceToNat, Int.reduceNeg, Int.reduceSub, Int.reduceAdd,
      Nat.reducePow, Nat.reduceEqDiff, Nat.reduceAdd, Nat.reduceLT, Nat.reduceSub, Nat.reduceMul, ↓reduceIte])
  | `(tactic| b64_simp [$ls,*]) =>
    `(tactic| simp (disch := omega) only [b64ir, Int.reduceLE, Int.reduceLT, Int.reduceEq, Int.reduceNe, Int.reduceToNat, Int.reduceNeg, Int.reduceSub, Int.reduceAdd,
      Nat.reducePow, Nat.reduceEqDiff, Nat.reduceAdd, Nat.reduceLT, Nat.reduceSub, Nat.reduceMul, ↓reduceIte, $ls,*])

end GoCrypt.B64IR
