import GoCrypt.Proofs.CodecIRUText

/-!
# Codec IR: the second half of `unmarshal` = the model's `storeValue` (kinds string / int / uint, TextUnmarshaler classes,
unsupported kinds; the `[]byte` / `[n]byte` loop is NOT covered here)

Helper lemmas only.
-/

namespace GoCrypt.CIR
open GoCrypt.Codec GoCrypt.Gen.codecIR
open GoCrypt.TIIR (RType Res kindNum fiType fiObj tiObj encVal optsVals)

/-- The memory after a successful `unmarshal`: the cell holds `g`; an inline field has shortened its node. -/
def StoredPost (m m' : Mem) (idx : List Nat) (k : Nat) (g : GVal) (na : Nat) (s0 : Bytes) (pos fin : Nat) (inl : Bool) (len : Nat) : Prop :=
  SameButNodes m m' idx ∧ cellGet m' idx k = .ok g ∧
  m'.nodes = (if inl then m.nodes.set na (.value (s0.drop len) pos fin) else m.nodes)
where
  SameButNodes (m m' : Mem) (idx : List Nat) : Prop := m'.heap = m.heap ∧ ∀ j, j ≠ idx → cellRoot m' j = cellRoot m j

theorem typeImplements_u0 (c : Ctx) (t : RType) (hd : t.depth = 0) :
    ext2 c .typeImplements (.rtype t) (.global "textUnmarshalerType") = .ok (.bool false) := by
  simp [ext2, hd]
theorem typeImplements_u1 (c : Ctx) (t : RType) (hd : t.depth = 1) :
    ext2 c .typeImplements (.rtype t) (.global "textUnmarshalerType") = .ok (.bool (decide (t.ut ≠ .none))) := by
  simp [ext2, hd]

theorem cellGet_after_set (m : Mem) (idx : List Nat) (k : Nat) (r g : GVal) (cur : GVal) (hr : cellRoot m idx = some r)
    (hg : getDeep k r = some cur) :
    ∃ r', setDeep k r g = some r' ∧ cellSet m idx k g = .ok (m.withCell idx r') ∧ cellGet (m.withCell idx r') idx k = .ok g := by
  have key : ∀ (k : Nat) (r cur : GVal), getDeep k r = some cur → ∃ r', setDeep k r g = some r' ∧ getDeep k r' = some g := by
    intro k
    induction k with
    | zero => intro r cur _; exact ⟨g, rfl, rfl⟩
    | succ k ih =>
      intro r cur h
      cases r <;> simp only [getDeep, reduceCtorEq] at h
      rename_i inner
      obtain ⟨r', h1, h2⟩ := ih inner cur h
      exact ⟨.ptr r', by simp [setDeep, h1], by simpa [getDeep] using h2⟩
  obtain ⟨r', h1, h2⟩ := key k r cur hg
  exact ⟨r', h1, cellSet_of_root m idx k r g r' hr h1, cellGet_of_root _ idx k r' g (cellRoot_withCell_same m idx r r' hr) h2⟩

end GoCrypt.CIR

namespace GoCrypt.CIR
open GoCrypt.Codec GoCrypt.Gen.codecIR
open GoCrypt.TIIR (RType Res kindNum fiType fiObj tiObj encVal optsVals)

section store
variable (c : Ctx) (m : Mem) (na tia a : Nat) (s0 : Bytes) (pos fin : Nat) (fi : FieldInfo) (st tt : RType) (hp : TIIR.Val)
  (addrs : List Nat) (n : Int) (t0 : RType) (idx : List Nat) (k : Nat) (r cur : GVal) (s : Bytes)
  (hn : m.nodes[na]? = some (.value s0 pos fin)) (ha : m.heap[a]? = some (fiObj fi))
  (hit : IndirectTypeOk c.ext) (hd : t0.depth = 0) (hk0 : t0.kind = fi.kind) (hu0 : t0.ut = fi.unmarshalText)
  (hr : cellRoot m idx = some r) (hg : getDeep k r = some cur)

include hn ha hit hd hk0 hu0 hr hg in
/-- A `string` field without a text unmarshaler: `SetString`. -/
theorem uStore_string (hut : fi.unmarshalText = .none) (hk : fi.kind = .string) (inl : Bool) (y5 : Val)
    (hy5 : inl = true → y5 = .node na ∧ fi.opts.length ≤ s0.length)
    (x6 x7 x8 x9 x10 x11 x12 x13 x14 x15 x17 x18 x19 x20 x21 x22 x23 x24 x25 x26 x27 : Val) :
    ∃ m', exec c uStore m [.node na, .ptr tia, .ptr a, .cell t0 idx k false, .str s, y5, x6, x7, x8, x9, x10, x11, x12, x13, x14, x15,
        .bool inl, x17, x18, x19, x20, x21, x22, x23, x24, x25, x26, x27] = .ret m' [.nil] ∧
      StoredPost m m' idx k (.str s) na s0 pos fin inl fi.opts.length := by
  obtain ⟨r', hsd, hset, hget'⟩ := cellGet_after_set m idx k r (.str s) cur hr hg
  have hcg : cellGet m idx k = .ok cur := cellGet_of_root m idx k r cur hr hg
  have hext : c.ext "indirectType" m [.rtype (fiType fi)] =
      .ok (m, [.rtype ⟨0, fi.kind, fi.typeName, fi.marshalText, fi.unmarshalText⟩]) := hit m (fiType fi)
  have hti0 := typeImplements_u0 c ⟨0, fi.kind, fi.typeName, fi.marshalText, fi.unmarshalText⟩ rfl
  have hut' : t0.ut = .none := by rw [hu0, hut]
  have hk' : t0.kind = .string := by rw [hk0, hk]
  have hkn : kindNum (⟨0, fi.kind, fi.typeName, fi.marshalText, fi.unmarshalText⟩ : RType) = 24 := by simp [kindNum, hk]
  have hstore : cellStore m .setString (.cell t0 idx k false) [.str s] = .ok (m.withCell idx r') := by
    simp [cellStore, hd, hk', hset]
  have himp : decide (({ t0 with depth := t0.depth + 1 } : RType).ut ≠ .none) = false := by simp [hut']
  simp only [uStore, unmarshalIR, Stmt.drop]
  cases inl
  · refine ⟨m.withCell idx r', ?_, ⟨rfl, fun j hj => cellRoot_withCell_other m idx j r' hj⟩, hget', rfl⟩
    cases hpx : fi.opts.isPrefix <;>
      ci_simp [fi_type m a fi ha, hext, ext1M_cell_read m .valCanInterface t0 idx k false cur (by simp) hcg,
        hti0, ext1M, hcg, typeImplements_u1 c { t0 with depth := t0.depth + 1 } (by simp [hd]), himp,
        fi_prefix m a fi ha, hpx, hkn, hstore]
  · obtain ⟨rfl, hle⟩ := hy5 rfl
    have hle' : (0 : Int) ≤ (fi.opts.length : Int) ∧ (fi.opts.length : Int) ≤ (s0.length : Int) := by omega
    refine ⟨{ m.withCell idx r' with nodes := m.nodes.set na (.value (s0.drop fi.opts.length) pos fin) }, ?_,
      ⟨rfl, fun j hj => cellRoot_withCell_other m idx j r' hj⟩, hget', rfl⟩
    have hn' : (m.withCell idx r').nodes[na]? = some (.value s0 pos fin) := hn
    cases hpx : fi.opts.isPrefix <;>
      ci_simp [fi_type m a fi ha, hext, ext1M_cell_read m .valCanInterface t0 idx k false cur (by simp) hcg,
        hti0, ext1M, hcg, typeImplements_u1 c { t0 with depth := t0.depth + 1 } (by simp [hd]), himp,
        fi_prefix m a fi ha, hpx, hkn, hstore, hn', nodeOp, sliceFromVal, hle', fi_length (m.withCell idx r') a fi ha] <;>
      rfl
end store

end GoCrypt.CIR

namespace GoCrypt.CIR
open GoCrypt.Codec GoCrypt.Gen.codecIR
open GoCrypt.TIIR (RType Res kindNum fiType fiObj tiObj encVal optsVals)

theorem storeValue_string (fi : FieldInfo) (kind : String) (fin : Nat) (s : Bytes) (hut : fi.unmarshalText = .none)
    (hk : fi.kind = .string) : storeValue fi kind fin s = .ok (.str s) := by
  simp [storeValue, hut, hk]

/-- **`unmarshal(node, ti, fi, v)` for a `string` field without a text unmarshaler**, on a value node holding `s0`:
the text rules of `fieldText` (in the form `lenRule` + `firstInvalid`, see `fieldText_eq`) decide between the two
errors and success; on success the cell holds the text and an inline field has shortened its node. -/
theorem unmarshal_string_spec (c : Ctx) (hidx : IndexAnyInvalidSpec c.indexAnyInvalid) (hne : NewErrSpec c)
    (hit : IndirectTypeOk c.ext) (m : Mem) (na tia a : Nat) (s0 : Bytes) (pos fin : Nat) (fi : FieldInfo) (st tt : RType)
    (hp : TIIR.Val) (addrs : List Nat) (n : Int) (t0 : RType) (idx : List Nat) (k : Nat) (r cur : GVal)
    (hn : m.nodes[na]? = some (.value s0 pos fin)) (ha : m.heap[a]? = some (fiObj fi))
    (hti : m.heap[tia]? = some (tiObj (.rtype st) tt hp addrs n))
    (hd : t0.depth = 0) (hk0 : t0.kind = fi.kind) (hu0 : t0.ut = fi.unmarshalText)
    (hr : cellRoot m idx = some r) (hg : getDeep k r = some cur)
    (hut : fi.unmarshalText = .none) (hk : fi.kind = .string) :
    match lenRule fi s0 with
    | none => ∃ m' v, execProc c unmarshalIR m [.node na, .ptr tia, .ptr a, .cell t0 idx k false] = .ok (m', [v]) ∧
        absErrU m.heap v = some (.ute "value" fin fi.name .lengthMismatch)
    | some (s, inl) =>
      match firstInvalid fi.opts.enc s with
      | some ch => ∃ m' v, execProc c unmarshalIR m [.node na, .ptr tia, .ptr a, .cell t0 idx k false] = .ok (m', [v]) ∧
          absErrU m.heap v = some (.ute "value" fin fi.name (.invalidChar ch))
      | none => ∃ m', execProc c unmarshalIR m [.node na, .ptr tia, .ptr a, .cell t0 idx k false] = .ok (m', [.nil]) ∧
          StoredPost m m' idx k (.str s) na s0 pos fin inl fi.opts.length := by
  rw [execProc_eq _ _ _ _ (by rfl)]
  show match lenRule fi s0 with
    | none => ∃ m' v, procResult (exec c unmarshalIR.body m [.node na, .ptr tia, .ptr a, .cell t0 idx k false, .undef, .undef, .undef, .undef,
        .undef, .undef, .undef, .undef, .undef, .undef, .undef, .undef, .undef, .undef, .undef, .undef, .undef, .undef, .undef, .undef, .undef,
        .undef, .undef, .undef]) = .ok (m', [v]) ∧ _
    | some (s, inl) => match firstInvalid fi.opts.enc s with
      | some ch => ∃ m' v, procResult (exec c unmarshalIR.body m [.node na, .ptr tia, .ptr a, .cell t0 idx k false, .undef, .undef, .undef, .undef,
        .undef, .undef, .undef, .undef, .undef, .undef, .undef, .undef, .undef, .undef, .undef, .undef, .undef, .undef, .undef, .undef, .undef,
        .undef, .undef, .undef]) = .ok (m', [v]) ∧ _
      | none => ∃ m', procResult (exec c unmarshalIR.body m [.node na, .ptr tia, .ptr a, .cell t0 idx k false, .undef, .undef, .undef, .undef,
        .undef, .undef, .undef, .undef, .undef, .undef, .undef, .undef, .undef, .undef, .undef, .undef, .undef, .undef, .undef, .undef, .undef,
        .undef, .undef, .undef]) = .ok (m', [.nil]) ∧ _
  rw [unmarshal_split, uT1_spec c m na tia a s0 pos fin fi _ hn ha]
  simp only [andThen_norm]
  have h2 := uT2_spec c m na tia a s0 pos fin fi st tt hp addrs n (.cell t0 idx k false) hn ha hne hti
    .undef .undef .undef .undef .undef .undef .undef .undef .undef .undef .undef .undef .undef .undef .undef .undef .undef .undef .undef
    .undef .undef .undef
  cases hl : lenRule fi s0 with
  | none =>
    rw [hl] at h2
    obtain ⟨v, hx, habs⟩ := h2
    exact ⟨m, v, by rw [hx]; rfl, habs⟩
  | some p =>
    obtain ⟨s, inl⟩ := p
    rw [hl] at h2
    obtain ⟨y5, hx, hy5⟩ := h2
    rw [hx]
    simp only [andThen_norm]
    have h3 := uT3_spec c m na tia a s0 pos fin fi st tt hp addrs n (.cell t0 idx k false) hn ha hidx hne hti s inl y5 hy5
      .undef .undef .undef .undef .undef .undef .undef .undef .undef .undef .undef .undef .undef .undef .undef .undef .undef .undef
      .undef .undef .undef
    cases hf : firstInvalid fi.opts.enc s with
    | some ch =>
      rw [hf] at h3
      obtain ⟨m', v, hx3, _, habs⟩ := h3
      exact ⟨m', v, by rw [hx3]; rfl, habs⟩
    | none =>
      rw [hf] at h3
      obtain ⟨y6, hx3⟩ := h3
      rw [hx3]
      simp only [andThen_norm]
      obtain ⟨m', hx4, hpost⟩ := uStore_string c m na tia a s0 pos fin fi t0 idx k r cur s hn ha hit hd hk0 hu0 hr hg hut hk inl y5 hy5
        y6 .undef .undef .undef .undef .undef .undef .undef .undef .undef .undef .undef .undef .undef .undef .undef .undef .undef .undef
        .undef .undef
      exact ⟨m', by rw [hx4]; rfl, hpost⟩

end GoCrypt.CIR
