import GoCrypt.Base.TIIRCache
import GoCrypt.Proofs.TIIRDefs

/-!
# Type-info IR with cache state: interpreter lemmas, conservativity

`execC` (`Base/TIIRCache.lean`) on a statement without cache operations whose callees leave the cache alone
is `exec` with the cache state passed through unchanged (`execC_eq_exec`); hence the four functions of the
regenerated program that do not mention `typeCache` run under `callInC` exactly as under `callIn`
(`callInC_pure`).  One rule per statement form for the symbolic execution of `getTypeInfo`'s body.
Helper lemmas only.
-/

namespace GoCrypt.TIIR
open GoCrypt.Gen.typeinfoIR

/-- A result of the cache-less interpreter, seen as a result that leaves the cache state `k` unchanged. -/
def liftRes (k : CacheSt) : Res (Heap × List Val) → Res (CacheSt × Heap × List Val)
  | .ok (h, vs) => .ok (k, h, vs)
  | .panic => .panic
  | .stuck w => .stuck w

@[simp] theorem bindC_ok {α : Type} (a : α) (k : CacheSt) (f : α → OutC) : bindC (.ok a) k f = f a := rfl
@[simp] theorem bindC_panic {α : Type} (k : CacheSt) (f : α → OutC) : bindC (.panic) k f = (k, .panic) := rfl
@[simp] theorem bindC_stuck {α : Type} (w : String) (k : CacheSt) (f : α → OutC) : bindC (.stuck w) k f = (k, .stuck w) := rfl

@[simp] theorem andThenC_norm (k : CacheSt) (h : Heap) (env : Env) (f : CacheSt → Heap → Env → OutC) :
    OutC.andThen (k, .norm h env) f = f k h env := rfl
@[simp] theorem andThenC_ret (k : CacheSt) (h : Heap) (vs : List Val) (f : CacheSt → Heap → Env → OutC) :
    OutC.andThen (k, .ret h vs) f = (k, .ret h vs) := rfl
@[simp] theorem andThenC_panic (k : CacheSt) (f : CacheSt → Heap → Env → OutC) :
    OutC.andThen (k, .panic) f = (k, .panic) := rfl
@[simp] theorem andThenC_stuck (k : CacheSt) (w : String) (f : CacheSt → Heap → Env → OutC) :
    OutC.andThen (k, .stuck w) f = (k, .stuck w) := rfl

theorem andThenC_pure (k : CacheSt) (o : Out) (f : CacheSt → Heap → Env → OutC) (g : Heap → Env → Out)
    (hfg : ∀ h env, f k h env = (k, g h env)) : OutC.andThen (k, o) f = (k, o.andThen g) := by
  cases o <;> simp [OutC.andThen, Out.andThen, hfg]

theorem bindC_pure {α : Type} (r : Res α) (k : CacheSt) (f : α → OutC) (g : α → Out)
    (hfg : ∀ a, f a = (k, g a)) : bindC r k f = (k, bindR r g) := by
  cases r <;> simp [bindC, bindR, hfg]

section rules
variable (c : CtxC) (k : CacheSt) (h : Heap) (env : Env)

theorem execC_seq (a b : Stmt) : execC c (a ;; b) k h env = (execC c a k h env).andThen (execC c b) := by
  simp only [execC]
theorem execC_ite (cnd : Expr) (t e : Stmt) :
    execC c (.ite cnd t e) k h env =
      bindC (eval c.structs h env cnd >>= asBool) k fun b => if b then execC c t k h env else execC c e k h env := by
  simp only [execC]
theorem execC_call (lhs : List LHS) (f : Nat) (args : List Expr) :
    execC c (.call lhs f args) k h env =
      bindC (evalLHSs c.structs h env lhs) k fun refs =>
      bindC (evalArgs c.structs h env args) k fun vals =>
      bindC (c.call f k h vals) k fun (k', h', rs) =>
      bindC (storeAll h' env refs rs) k' fun (h'', env') => (k', .norm h'' env') := by
  simp only [execC]
theorem execC_extCall (lhs : List LHS) (op : ExtN) (args : List Expr) :
    execC c (.extCall lhs op args) k h env =
      bindC (evalLHSs c.structs h env lhs) k fun refs =>
      bindC (evalArgs c.structs h env args) k fun vals =>
      bindC (extNC op k vals) k fun (k', rs) =>
      bindC (storeAll h env refs rs) k' fun (h', env') => (k', .norm h' env') := by
  simp only [execC]
theorem execC_skip : execC c .skip k h env = (k, .norm h env) := by simp only [execC, exec]
theorem execC_assign (lhs : List LHS) (rhs : List Expr) :
    execC c (.assign lhs rhs) k h env = (k, exec c.pure (.assign lhs rhs) h env) := by simp only [execC]
theorem execC_ret (es : List Expr) : execC c (.ret es) k h env = (k, exec c.pure (.ret es) h env) := by simp only [execC]
theorem execC_copyObj (x : Nat) (e : Expr) :
    execC c (.copyObj x e) k h env = (k, exec c.pure (.copyObj x e) h env) := by simp only [execC]

end rules

/-! ## Conservativity -/

theorem loopC_pure (cond : Heap → Env → Res Bool) (bodyC postC : CacheSt → Heap → Env → OutC)
    (body post : Heap → Env → Out) (k : CacheSt)
    (hb : ∀ h env, bodyC k h env = (k, body h env)) (hp : ∀ h env, postC k h env = (k, post h env)) :
    ∀ (fuel : Nat) (h : Heap) (env : Env), loopC cond bodyC postC fuel k h env = (k, loop cond body post fuel h env) := by
  intro fuel
  induction fuel with
  | zero =>
    intro h env
    rw [loopC, loop]
    cases cond h env with
    | ok b => cases b <;> simp [bindC, bindR]
    | panic => rfl
    | stuck w => rfl
  | succ n ih =>
    intro h env
    rw [loopC, loop]
    cases cond h env with
    | panic => rfl
    | stuck w => rfl
    | ok b =>
      cases b with
      | false => simp [bindC, bindR]
      | true =>
        simp only [bindC, bindR, if_true]
        rw [hb]
        cases hx : body h env with
        | norm h1 env1 =>
          simp only [afterBodyC, afterBody]
          rw [hp]
          cases post h1 env1 <;> simp [afterPostC, afterPost, ih]
        | cont h1 env1 =>
          simp only [afterBodyC, afterBody]
          rw [hp]
          cases post h1 env1 <;> simp [afterPostC, afterPost, ih]
        | brk h1 env1 => rfl
        | ret h1 vs => rfl
        | panic => rfl
        | stuck w => rfl

/-- **The cache interpreter is a conservative extension.**  A statement that performs no operation on
`typeCache`, under a context whose calls (to the functions the statement calls) behave as in the cache-less
context and leave the cache state unchanged, runs exactly as under `exec`; the cache state is unchanged. -/
theorem execC_eq_exec (structs : List GoStruct) (fuel : Nat) (sort : Heap → List Nat → List Nat)
    (call : Nat → Heap → List Val → Res (Heap × List Val))
    (callC : Nat → CacheSt → Heap → List Val → Res (CacheSt × Heap × List Val)) :
    ∀ (s : Stmt), s.cacheFree = true →
      (∀ f ∈ s.callees, ∀ k h args, callC f k h args = liftRes k (call f h args)) →
      ∀ (k : CacheSt) (h : Heap) (env : Env),
        execC ⟨structs, fuel, sort, callC⟩ s k h env = (k, exec ⟨structs, fuel, sort, call⟩ s h env) := by
  intro s
  induction s with
  | skip => intro _ _ k h env; rfl
  | brk => intro _ _ k h env; rfl
  | cont => intro _ _ k h env; rfl
  | assign lhs rhs => intro _ _ k h env; rfl
  | ret es => intro _ _ k h env; rfl
  | alloc x fs => intro _ _ k h env; rfl
  | copyObj x e => intro _ _ k h env; rfl
  | unknown d => intro _ _ k h env; rfl
  | seq a b iha ihb =>
    intro hcf hcall k h env
    simp only [Stmt.cacheFree, Bool.and_eq_true] at hcf
    simp only [Stmt.callees, List.mem_append] at hcall
    rw [execC_seq, iha hcf.1 (fun f hf => hcall f (Or.inl hf)), exec_seq]
    exact andThenC_pure _ _ _ _ (fun h env => ihb hcf.2 (fun f hf => hcall f (Or.inr hf)) k h env)
  | ite cnd t e iht ihe =>
    intro hcf hcall k h env
    simp only [Stmt.cacheFree, Bool.and_eq_true] at hcf
    simp only [Stmt.callees, List.mem_append] at hcall
    rw [execC_ite, exec_ite]
    refine bindC_pure _ _ _ _ (fun b => ?_)
    cases b
    · exact ihe hcf.2 (fun f hf => hcall f (Or.inr hf)) k h env
    · exact iht hcf.1 (fun f hf => hcall f (Or.inl hf)) k h env
  | for_ cnd post body ihp ihb =>
    intro hcf hcall k h env
    simp only [Stmt.cacheFree, Bool.and_eq_true] at hcf
    simp only [Stmt.callees, List.mem_append] at hcall
    rw [exec_for]
    simp only [execC]
    exact loopC_pure _ _ _ _ _ k (fun h env => ihb hcf.2 (fun f hf => hcall f (Or.inr hf)) k h env)
      (fun h env => ihp hcf.1 (fun f hf => hcall f (Or.inl hf)) k h env) fuel h env
  | call lhs f args =>
    intro _ hcall k h env
    rw [execC_call, exec_call]
    refine bindC_pure _ _ _ _ (fun refs => bindC_pure _ _ _ _ (fun vals => ?_))
    show bindC (callC f k h vals) k _ = (k, bindR (call f h vals) _)
    rw [hcall f (by simp [Stmt.callees])]
    cases call f h vals with
    | panic => rfl
    | stuck w => rfl
    | ok r =>
      obtain ⟨h', rs⟩ := r
      simp only [liftRes, bindC_ok, bindR_ok]
      cases storeAll h' env refs rs <;> rfl
  | extCall lhs op args =>
    intro hcf _ k h env
    rw [execC_extCall, exec_extCall]
    refine bindC_pure _ _ _ _ (fun refs => bindC_pure _ _ _ _ (fun vals => ?_))
    cases op with
    | cacheLoad => simp [Stmt.cacheFree] at hcf
    | cacheLoadOrStore => simp [Stmt.cacheFree] at hcf
    | parseUint =>
      simp only [extNC]
      cases extN .parseUint vals with
      | panic => rfl
      | stuck w => rfl
      | ok rs =>
        simp only [bindC_ok, bindR_ok]
        cases storeAll h env refs rs <;> rfl
  | sortSlice x i j body ih =>
    intro hcf hcall k h env
    simp only [Stmt.cacheFree] at hcf
    simp only [Stmt.callees] at hcall
    rw [exec_sortSlice]
    simp only [execC]
    have hcl : closureC (execC ⟨structs, fuel, sort, callC⟩ body) k = exec ⟨structs, fuel, sort, call⟩ body := by
      funext h env
      simp only [closureC, ih hcf hcall k h env, if_true]
    rw [hcl]
    refine bindC_pure _ _ _ _ (fun v => ?_)
    cases v <;> try rfl
    simp only
    split <;> rfl

/-! ## The program: the four functions that do not mention `typeCache` -/

theorem procs_cacheFree : (program.procs.take 4).all (fun p => p.body.cacheFree && p.body.callees.all (· < 4)) = true := by
  decide

theorem execProcC_pure (c : Ctx) (cc : CtxC) (p : Proc) (k : CacheSt) (h : Heap) (args : List Val)
    (he : ∀ k h env, execC cc p.body k h env = (k, exec c p.body h env)) :
    execProcC cc p k h args = liftRes k (execProc c p h args) := by
  unfold execProcC execProc
  by_cases hn : p.nparams ≠ args.length
  · simp [hn, liftRes]
  · simp only [hn, if_false]
    rw [he]
    cases exec c p.body h (args ++ List.replicate (p.nslots - p.nparams) .undef) <;> rfl

/-- `field`, `normalize`, `getRawTypeInfo`, `indirectType` under the cache interpreter: exactly their runs
under the cache-less interpreter, cache state unchanged. -/
theorem callInC_pure (w : World) : ∀ (d f : Nat), f < 4 → ∀ (k : CacheSt) (h : Heap) (args : List Val),
    callInC program w d f k h args = liftRes k (callIn program w d f h args) := by
  intro d
  induction d with
  | zero => intro f _ k h args; rfl
  | succ d ih =>
    intro f hf k h args
    have hall := procs_cacheFree
    rw [List.all_eq_true] at hall
    obtain ⟨p, hp⟩ : ∃ p, program.procs[f]? = some p := by
      have : f < program.procs.length := by show f < 5; omega
      exact ⟨_, List.getElem?_eq_getElem this⟩
    have hp4 : p ∈ program.procs.take 4 := by
      have : (program.procs.take 4)[f]? = some p := by rw [List.getElem?_take_of_lt hf]; exact hp
      exact List.mem_of_getElem? this
    have hpp := hall p hp4
    simp only [Bool.and_eq_true, List.all_eq_true, decide_eq_true_eq] at hpp
    rw [callIn_succ program w d f h args p hp]
    simp only [callInC, hp]
    exact execProcC_pure _ _ p k h args (fun k h env =>
      execC_eq_exec w.structs w.fuel w.sort (callIn program w d) (callInC program w d) p.body hpp.1
        (fun g hg k h args => ih g (hpp.2 g hg) k h args) k h env)

end GoCrypt.TIIR
