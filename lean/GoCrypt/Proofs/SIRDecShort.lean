import GoCrypt.Proofs.SIRDecRefill
import GoCrypt.Proofs.SIRDecLibSpec

/-!
# Stream IR, decoder side: `(*decoder).Read` when fewer than 4 symbols are buffered

`if d.nbuf < 4 { … }`: without padding a last fragment of 1–3 symbols is decoded (library call `Decode`);
then `d.err = d.readErr`, `io.EOF` with buffered symbols becomes `io.ErrUnexpectedEOF`. Helper lemmas only.
-/

namespace GoCrypt.SIR
open GoCrypt.B64IR (Buf Heap Slice Res sliceBytes writeList writeList_size writeList_append heap_set_self heap_lt_of_get padInt)
open GoCrypt.Base64LE GoCrypt.Stream GoCrypt.Gen.base64leStream

/-! ## The model, branch by branch -/

/-- `d.err = d.readErr`, `io.EOF` with buffered input becomes `io.ErrUnexpectedEOF`; `return 0, d.err`. -/
def finishErr (st : DecSt) : Option Err :=
  if st.readErr = some errEOF ∧ st.buf.length > 0 then some errUnexpectedEOF else st.readErr

def finishSt (st : DecSt) : DecSt × Bytes × Option Err := ({ st with err := finishErr st }, [], finishErr st)

theorem decRead_short_plain (e : Encoding) (st : DecSt) (plen : Nat) (h1 : ¬ 0 < st.out.length) (h2 : ¬ st.err.isSome)
    (h3 : (st.refill plen (st.pending + 6)).buf.length < 4)
    (h4 : ¬ (e.pad.isNone ∧ (st.refill plen (st.pending + 6)).buf.length > 0)) :
    decRead e st plen = finishSt (st.refill plen (st.pending + 6)) := by
  unfold decRead
  rw [if_neg h1, if_neg h2]
  simp only []
  rw [if_pos h3, if_neg h4]
  rfl

/-! ## The parts of the generated body -/

/-- `if d.nbuf < 4 { … }` -/
def drShort : Stmt := (decoderReadIR.body.drop 5).head
/-- `if d.enc.padChar == NoPadding && d.nbuf > 0 { … }` -/
def drFrag : Stmt := drShort.iteThen.head
/-- `d.err = d.readErr; if d.err == io.EOF && d.nbuf > 0 { d.err = io.ErrUnexpectedEOF }; return 0, d.err` -/
def drFinish : Stmt := drShort.iteThen.drop 1

theorem dr_split5 : decoderReadIR.body.drop 5 = (drShort ;; decoderReadIR.body.drop 6) := rfl
theorem drShort_eq : drShort = .ite drShort.iteCond (drFrag ;; drFinish) .skip := rfl

theorem drShort_cond (H : Heap) (O : List Obj) (X : List Ext) (d ae nf bb bo nbuf : Nat) (ow : Slice) (err rerr : Option Nat)
    (env : Env) (henv : env[0]? = some (.ptr d)) (hobj : O[d]? = some (decObj err rerr ae nf bb nbuf ow bo)) :
    (eval ⟨H, O, X⟩ env drShort.iteCond >>= asBool) = .ok (decide (nbuf < 4)) := by
  simp only [drShort, Stmt.iteCond, Stmt.head, Stmt.drop, decoderReadIR]
  b64_simp [hobj, decObj, henv]

theorem drFinish_run (c : Ctx) (H : Heap) (O : List Obj) (X : List Ext) (d ae nf bb bo nbuf : Nat) (ow : Slice) (err rerr : Option Nat)
    (env : Env) (henv : env[0]? = some (.ptr d)) (hobj : O[d]? = some (decObj err rerr ae nf bb nbuf ow bo)) :
    exec c drFinish ⟨H, O, X⟩ env =
      .ret ⟨H, O.set d (decObj (if rerr = some 1 ∧ nbuf > 0 then some 2 else rerr) rerr ae nf bb nbuf ow bo), X⟩
        [.int 0, .err (if rerr = some 1 ∧ nbuf > 0 then some 2 else rerr)] := by
  have hdl := lt_of_getElem? hobj
  have h0 : ((0 : Int) < (nbuf : Int)) = (0 < nbuf) := by simp
  simp only [drFinish, drShort, Stmt.iteThen, Stmt.head, Stmt.drop, decoderReadIR]
  by_cases h1 : rerr = some 1
  · by_cases h2 : 0 < nbuf
    · b64_simp [hobj, decObj, henv, h0, h1, h2]
    · b64_simp [hobj, decObj, henv, h0, h1, h2]
  · b64_simp [hobj, decObj, henv, h0, h1]
    simp

theorem padInt_none (e : Encoding) (h : e.pad = none) : padInt e = -1 := by simp [padInt, h]
theorem padInt_some (e : Encoding) (p : UInt8) (h : e.pad = some p) : padInt e = (p.toNat : Int) := by simp [padInt, h]

/-- With padding, or with nothing buffered, there is no final fragment to decode. -/
theorem drFrag_skip (c : Ctx) (H : Heap) (O : List Obj) (X : List Ext) (d ae b1 b2 nf bb bo nbuf : Nat) (ow : Slice) (e : Encoding)
    (err rerr : Option Nat) (env : Env) (henv : env[0]? = some (.ptr d))
    (hobj : O[d]? = some (decObj err rerr ae nf bb nbuf ow bo)) (hae : O[ae]? = some (encObj b1 b2 e))
    (h : ¬ (e.pad.isNone ∧ nbuf > 0)) :
    exec c drFrag ⟨H, O, X⟩ env = .norm ⟨H, O, X⟩ env := by
  have h0 : ((0 : Int) < (nbuf : Int)) = (0 < nbuf) := by simp
  simp only [drFrag, drShort, Stmt.iteThen, Stmt.head, Stmt.drop, decoderReadIR]
  cases hp : e.pad with
  | none =>
    have hn : ¬ 0 < nbuf := fun hn => h ⟨by simp [hp], hn⟩
    b64_simp [hobj, decObj, henv, hae, encObj, padInt_none e hp, h0, hn]
  | some p =>
    have hp1 : ¬ ((p.toNat : Int) = -1) := by omega
    b64_simp [hobj, decObj, henv, hae, encObj, padInt_some e p hp, hp1]

theorem sliceBytes_prefixD (H : Heap) (b n cp : Nat) (D : Buf) (hb : H[b]? = some D) (hn : n ≤ D.size) :
    sliceBytes H ⟨b, 0, n, cp⟩ = some (D.toList.take n) := by
  simp [sliceBytes, hb, hn]

/-- `var nw int; nw, d.err = d.enc.Decode(d.outbuf[:], d.buf[:d.nbuf]); d.nbuf = 0; d.out = d.outbuf[:nw];
n = copy(p, d.out); d.out = d.out[n:]` -/
def drFragDo : Stmt := drFrag.iteThen.take 6
/-- the two early returns of the fragment branch -/
def drFragRet : Stmt := drFrag.iteThen.drop 6

theorem drFrag_eq : drFrag = .ite drFrag.iteCond drFrag.iteThen .skip := rfl

theorem drFragDo_run (c : Ctx) (H : Heap) (O : List Obj) (X : List Ext) (d ae nf bb bo bp nbuf plen rn : Nat) (ow : Slice)
    (err rerr re : Option Nat) (D' Bp : Buf) (v2 v3 v4 v5 v6 v7 : Val)
    (hobj : O[d]? = some (decObj err rerr ae nf bb nbuf ow bo))
    (hcall : c.call "Encoding.Decode" ⟨H, O, X⟩ [.ptr ae, .slice ⟨bo, 0, 768, 768⟩, .slice ⟨bb, 0, nbuf, 1024⟩] =
      .ok (⟨H.set bo D', O, X⟩, [.int rn, .err re]))
    (hbo : bo < H.length) (hD : D'.size = 768) (hrn : rn ≤ 768) (hnb : nbuf ≤ 1024)
    (hbp : H[bp]? = some Bp) (hne : bp ≠ bo) (hsz : plen ≤ Bp.size) :
    exec c drFragDo ⟨H, O, X⟩ [.ptr d, .slice ⟨bp, 0, plen, plen⟩, v2, v3, v4, v5, v6, v7] =
      .norm ⟨(H.set bo D').set bp (writeList Bp 0 ((D'.toList.take rn).take plen)),
          O.set d (decObj re rerr ae nf bb 0 ⟨bo, min plen rn, rn - min plen rn, 768 - min plen rn⟩ bo), X⟩
        [.ptr d, .slice ⟨bp, 0, plen, plen⟩, .int (min plen rn : Nat), v3, v4, .int rn, v6, v7] := by
  have hdl := lt_of_getElem? hobj
  have hsl := sliceBytes_prefixD (H.set bo D') bo rn 768 D' (List.getElem?_set_self hbo) (by omega)
  have hbp' : (H.set bo D')[bp]? = some Bp := (List.getElem?_set_ne (Ne.symm hne)).trans hbp
  simp only [drFragDo, drFrag, drShort, Stmt.iteThen, Stmt.head, Stmt.drop, Stmt.take, decoderReadIR]
  b64_simp [hobj, decObj, hcall, hsl, srcBytes, copyVal, writeSlice, hbp', List.length_take, hD, Nat.sub_zero, Int.sub_zero]
  have hm : min rn D'.toList.length = rn := by rw [Array.length_toList, hD]; omega
  rw [hm]

/-- After the fragment is decoded: `if n > 0 || len(p) == 0 && len(d.out) > 0 { return n, nil }` -/
theorem drFragRet_data (c : Ctx) (H : Heap) (O : List Obj) (X : List Ext) (d ae nf bb bo n plen nbuf : Nat) (sp ow : Slice)
    (err rerr : Option Nat) (v3 v4 v5 v6 v7 : Val)
    (hobj : O[d]? = some (decObj err rerr ae nf bb nbuf ow bo)) (hpl : sp.len = plen)
    (h : n > 0 ∨ (plen = 0 ∧ ow.len > 0)) :
    exec c drFragRet ⟨H, O, X⟩ [.ptr d, .slice sp, .int n, v3, v4, v5, v6, v7] = .ret ⟨H, O, X⟩ [.int n, .err none] := by
  have h0 : ((0 : Int) < (n : Int)) = (0 < n) := by simp
  have h1 : ((0 : Int) < (ow.len : Int)) = (0 < ow.len) := by simp
  have h2 : ((plen : Int) = 0) = (plen = 0) := by simp
  simp only [drFragRet, drFrag, drShort, Stmt.iteThen, Stmt.head, Stmt.drop, decoderReadIR]
  by_cases hn : 0 < n
  · b64_simp [hobj, decObj, h0, hn]
  · have hh : plen = 0 ∧ 0 < ow.len := by omega
    b64_simp [hobj, decObj, h0, hn, h1, h2, hh.1, hh.2, hpl]

/-- …nothing to deliver, but the fragment was malformed: `return 0, d.err` -/
theorem drFragRet_err (c : Ctx) (H : Heap) (O : List Obj) (X : List Ext) (d ae nf bb bo plen nbuf code : Nat) (sp ow : Slice)
    (rerr : Option Nat) (v3 v4 v5 v6 v7 : Val)
    (hobj : O[d]? = some (decObj (some code) rerr ae nf bb nbuf ow bo)) (hpl : sp.len = plen)
    (h : ¬ (plen = 0 ∧ ow.len > 0)) :
    exec c drFragRet ⟨H, O, X⟩ [.ptr d, .slice sp, .int (0 : Nat), v3, v4, v5, v6, v7] =
      .ret ⟨H, O, X⟩ [.int 0, .err (some code)] := by
  have h1 : ((0 : Int) < (ow.len : Int)) = (0 < ow.len) := by simp
  have h2 : ((plen : Int) = 0) = (plen = 0) := by simp
  simp only [drFragRet, drFrag, drShort, Stmt.iteThen, Stmt.head, Stmt.drop, decoderReadIR]
  by_cases hp : plen = 0
  · have : ¬ 0 < ow.len := by omega
    b64_simp [hobj, decObj, h1, h2, hp, this, hpl]
    rfl
  · b64_simp [hobj, decObj, h1, h2, hp, hpl]
    rfl

/-- …nothing to deliver and no error: fall through to `d.err = d.readErr`. -/
theorem drFragRet_none (c : Ctx) (H : Heap) (O : List Obj) (X : List Ext) (d ae nf bb bo plen nbuf : Nat) (sp ow : Slice)
    (rerr : Option Nat) (v3 v4 v5 v6 v7 : Val)
    (hobj : O[d]? = some (decObj none rerr ae nf bb nbuf ow bo)) (hpl : sp.len = plen)
    (h : ¬ (plen = 0 ∧ ow.len > 0)) :
    exec c drFragRet ⟨H, O, X⟩ [.ptr d, .slice sp, .int (0 : Nat), v3, v4, v5, v6, v7] =
      .norm ⟨H, O, X⟩ [.ptr d, .slice sp, .int (0 : Nat), v3, v4, v5, v6, v7] := by
  have h1 : ((0 : Int) < (ow.len : Int)) = (0 < ow.len) := by simp
  have h2 : ((plen : Int) = 0) = (plen = 0) := by simp
  simp only [drFragRet, drFrag, drShort, Stmt.iteThen, Stmt.head, Stmt.drop, decoderReadIR]
  by_cases hp : plen = 0
  · have : ¬ 0 < ow.len := by omega
    b64_simp [hobj, decObj, h1, h2, hp, this, hpl]
    rfl
  · b64_simp [hobj, decObj, h1, h2, hp, hpl]
    rfl

end GoCrypt.SIR
