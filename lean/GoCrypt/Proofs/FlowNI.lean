import GoCrypt.Spec.FlowSem

/-!
# Non-interference for the flow IR: `secretSafe'` is sound for the cost semantics of `Spec/FlowSem`
-/

namespace GoCrypt.Flow

/-! ## Shapes -/

theorem ShapeEq.rfl' {a : Val} : ShapeEq a a := rfl
theorem ShapeEq.of_eq {a b : Val} (h : a = b) : ShapeEq a b := by subst h; rfl
theorem ShapeEq.symm {a b : Val} (h : ShapeEq a b) : ShapeEq b a := Eq.symm h
theorem ShapeEq.trans {a b c : Val} (h : ShapeEq a b) (h' : ShapeEq b c) : ShapeEq a c :=
  Eq.trans h h'

theorem shapeEq_bytes {x y : List UInt8} (h : x.length = y.length) :
    ShapeEq (.bytes x) (.bytes y) := by
  simp [ShapeEq, Val.shape, h]

/-! ## Names -/

theorem dot_toList : ".".toList = ['.'] := by decide
theorem sum_toList : "Sum".toList = ['S', 'u', 'm'] := by decide

theorem isDotted_field (b f : String) : isDotted (b ++ "." ++ f) = true := by
  simp [isDotted, String.toList_append, dot_toList]

theorem suffix_unique {c : Char} : ∀ (l₁ l₂ r₁ r₂ : List Char),
    l₁ ++ c :: r₁ = l₂ ++ c :: r₂ → c ∉ r₁ → c ∉ r₂ → r₁ = r₂
  | [], [], r₁, r₂, h, _, _ => by simpa using h
  | [], d :: l₂, r₁, r₂, h, h₁, _ => by
    simp at h
    exact absurd (by rw [h.2]; simp) h₁
  | d :: l₁, [], r₁, r₂, h, _, h₂ => by
    simp at h
    exact absurd (by rw [← h.2]; simp) h₂
  | d :: l₁, d' :: l₂, r₁, r₂, h, h₁, h₂ => by
    simp at h
    exact suffix_unique l₁ l₂ r₁ r₂ h.2 h₁ h₂

/-- An undotted selector other than `Sum` never names a `….Sum` field. -/
theorem field_name_ne_sum {b f b' : String} (hd : isDotted f = false) (hf : f ≠ "Sum") :
    b ++ "." ++ f ≠ b' ++ "." ++ "Sum" := by
  intro h
  have h' := congrArg String.toList h
  simp only [String.toList_append, dot_toList, sum_toList, List.append_assoc,
    List.singleton_append] at h'
  have := suffix_unique _ _ _ _ h' (by simpa [isDotted] using hd) (by decide)
  apply hf
  apply String.toList_inj.mp
  rw [this, sum_toList]

/-! ## Low-equivalence -/

theorem LowEq.mono {t t' : Taint} {e₁ e₂ : Env} (h : ∀ x, x ∈ t → x ∈ t') (hL : LowEq t e₁ e₂) :
    LowEq t' e₁ e₂ := by
  intro x
  refine ⟨(hL x).1, fun hs => (hL x).2 fun hs' => hs ?_⟩
  rcases hs' with hs' | hs'
  · exact Or.inl (h x hs')
  · exact Or.inr hs'

theorem LowEq.set_eq {t : Taint} {e₁ e₂ : Env} (x : String) (v : Val) (hL : LowEq t e₁ e₂) :
    LowEq t (e₁.set x v) (e₂.set x v) := by
  intro y
  by_cases hy : y = x
  · simp [Env.set, hy, ShapeEq]
  · simpa [Env.set, hy] using hL y

theorem LowEq.set_shape {t : Taint} {e₁ e₂ : Env} (x : String) {v₁ v₂ : Val}
    (hv : ShapeEq v₁ v₂) (hL : LowEq t e₁ e₂) :
    LowEq (x :: t) (e₁.set x v₁) (e₂.set x v₂) := by
  intro y
  by_cases hy : y = x
  · subst hy
    simp [Env.set, hv, Secret]
  · have := (hL.mono (t' := y :: t) (fun z hz => List.mem_cons_of_mem _ hz)) y
    simp only [Env.set, hy, if_false]
    refine ⟨(hL y).1, fun hs => (hL y).2 fun hs' => hs ?_⟩
    rcases hs' with hs' | hs'
    · exact Or.inl (List.mem_cons_of_mem _ hs')
    · exact Or.inr hs'

theorem LowEq.set_untaint {t : Taint} {e₁ e₂ : Env} (x : String) (v : Val) (hL : LowEq t e₁ e₂) :
    LowEq (t.filter fun y => !(y == x)) (e₁.set x v) (e₂.set x v) := by
  intro y
  by_cases hy : y = x
  · simp [Env.set, hy, ShapeEq]
  · simp only [Env.set, hy, if_false]
    refine ⟨(hL y).1, fun hs => (hL y).2 fun hs' => hs ?_⟩
    rcases hs' with hs' | hs'
    · exact Or.inl (by simp [List.mem_filter, hs', hy])
    · exact Or.inr hs'

theorem assignAll_same {t : Taint} : ∀ (lhs : List String) (vs : List Val) {e₁ e₂ : Env},
    LowEq t e₁ e₂ → LowEq t (assignAll lhs vs e₁) (assignAll lhs vs e₂)
  | [], _, _, _, hL => hL
  | x :: xs, vs, _, _, hL => assignAll_same xs vs.tail (hL.set_eq x _)

theorem assignAll_filter : ∀ (lhs : List String) (vs : List Val) {t : Taint} {e₁ e₂ : Env},
    LowEq t e₁ e₂ →
    LowEq (t.filter fun x => !lhs.contains x) (assignAll lhs vs e₁) (assignAll lhs vs e₂)
  | [], _, t, _, _, hL => hL.mono (fun y hy => by simp [hy])
  | x :: xs, vs, t, _, _, hL => by
    have h := assignAll_filter xs vs.tail (hL.set_untaint x (vs.headD .nil))
    refine h.mono ?_
    intro y hy
    simp only [List.mem_filter] at hy ⊢
    refine ⟨hy.1.1, ?_⟩
    have h1 := hy.1.2
    have h2 := hy.2
    simp at h1 h2 ⊢
    exact ⟨h1, h2⟩

/-! ## Expressions -/

theorem wholeBuffer_cases {a : FExpr} (h : wholeBuffer a = true) :
    (∃ n, a = .var n) ∨ (∃ b f, a = .field b f) ∨ (∃ n, a = .un "[:]" (.var n)) ∨
    (∃ b f, a = .un "[:]" (.field b f)) := by
  unfold wholeBuffer at h
  split at h <;> simp_all

section
variable {I : Interp} {t : Taint} {e₁ e₂ : Env}

theorem var_sim (hL : LowEq t e₁ e₂) (n : String) :
    ShapeEq (evalExpr I e₁ (.var n)).1 (evalExpr I e₂ (.var n)).1 ∧
    (evalExpr I e₁ (.var n)).2 = (evalExpr I e₂ (.var n)).2 := by
  by_cases hd : isDotted n = true <;> simp [evalExpr, hd, ShapeEq.rfl', (hL n).1]

theorem field_sim (hL : LowEq t e₁ e₂) (b f : String) :
    ShapeEq (evalExpr I e₁ (.field b f)).1 (evalExpr I e₂ (.field b f)).1 ∧
    (evalExpr I e₁ (.field b f)).2 = (evalExpr I e₂ (.field b f)).2 := by
  by_cases hd : isDotted f = true <;> simp [evalExpr, hd, ShapeEq.rfl', (hL _).1]

/-- A whole buffer has the same length and the same evaluation cost in low-equivalent
environments. -/
theorem whole_sim (hI : Trusted I) (hL : LowEq t e₁ e₂) {a : FExpr} (hw : wholeBuffer a = true) :
    ShapeEq (evalExpr I e₁ a).1 (evalExpr I e₂ a).1 ∧ (evalExpr I e₁ a).2 = (evalExpr I e₂ a).2 := by
  rcases wholeBuffer_cases hw with ⟨n, rfl⟩ | ⟨b, f, rfl⟩ | ⟨n, rfl⟩ | ⟨b, f, rfl⟩
  · exact var_sim hL n
  · exact field_sim hL b f
  · have h := var_sim (I := I) hL n
    have hs := hI.slice _ _ h.1
    simp only [evalExpr] at hs ⊢
    exact ⟨hs.1, by rw [hs.2]⟩
  · have h := field_sim (I := I) hL b f
    have hs := hI.slice _ _ h.1
    simp only [evalExpr] at hs ⊢
    exact ⟨hs.1, by rw [hs.2]⟩

/-- An untainted expression has the same value and the same cost in low-equivalent environments. -/
theorem eval_untainted (hI : Trusted I) (hL : LowEq t e₁ e₂) :
    ∀ e : FExpr, tainted' t e = false → evalExpr I e₁ e = evalExpr I e₂ e := by
  intro e
  induction e with
  | var n =>
    intro h
    simp only [tainted', List.contains_eq_mem, decide_eq_false_iff_not] at h
    simp only [evalExpr]
    split
    · rfl
    · rename_i hd
      rw [(hL n).2]
      rintro (hs | ⟨b, rfl⟩)
      · exact h hs
      · exact hd (isDotted_field b "Sum")
  | field b f =>
    intro h
    simp only [tainted', Bool.or_eq_false_iff, beq_eq_false_iff_ne, List.contains_eq_mem,
      decide_eq_false_iff_not] at h
    simp only [evalExpr]
    split
    · rfl
    · rename_i hd
      rw [(hL _).2]
      rintro (hs | ⟨b', hb'⟩)
      · exact h.2 hs
      · exact field_name_ne_sum (by simpa using hd) h.1 hb'
  | const d => intro _; rfl
  | fn n => intro _; rfl
  | app f a ihf iha =>
    intro h
    unfold tainted' at h
    split at h
    · rename_i hf
      subst hf
      split at h
      · rename_i hw
        have hs := whole_sim hI hL hw
        have hl := hI.len _ _ hs.1
        simp only [evalExpr]
        rw [hl.1, hl.2, hs.2]
      · have := iha h
        simp only [evalExpr, this]
    · simp only [Bool.or_eq_false_iff] at h
      simp only [evalExpr, ihf h.1, iha h.2]
  | op o a b iha ihb =>
    intro h
    simp only [tainted', Bool.or_eq_false_iff] at h
    simp only [evalExpr, iha h.1, ihb h.2]
  | un o a iha =>
    intro h
    simp only [tainted'] at h
    simp only [evalExpr, iha h]
  | other d => intro h; simp [tainted'] at h

theorem evalList_untainted (hI : Trusted I) (hL : LowEq t e₁ e₂) :
    ∀ es : List FExpr, es.any (tainted' t) = false → evalList I e₁ es = evalList I e₂ es
  | [], _ => rfl
  | e :: es, h => by
    simp only [List.any_cons, Bool.or_eq_false_iff] at h
    simp only [evalList, eval_untainted hI hL e h.1, evalList_untainted hI hL es h.2]

end

/-! ## Syntax lemmas -/

theorem spine_app (f a : FExpr) : (FExpr.app f a).spine = (f.spine.1, f.spine.2 ++ [a]) := by
  simp [FExpr.spine]

theorem spine_nil {e : FExpr} {f : String} (h : e.spine = (some f, [])) : e = .fn f := by
  cases e <;> simp [FExpr.spine] at h
  · rw [h]

theorem spine_two {e dst src : FExpr} {f : String} (h : e.spine = (some f, [dst, src])) :
    e = .app (.app (.fn f) dst) src := by
  cases e with
  | app g a =>
    rw [spine_app] at h
    simp only [Prod.mk.injEq] at h
    obtain ⟨h1, h2⟩ := h
    have h2' : g.spine.2 ++ [a] = [dst] ++ [src] := h2
    obtain ⟨h3, h4⟩ := List.append_inj' h2' rfl
    simp only [List.cons.injEq, and_true] at h4
    subst h4
    cases g with
    | app g' b =>
      rw [spine_app] at h1 h3
      simp only at h1 h3
      have h3' : g'.spine.2 ++ [b] = [] ++ [dst] := h3
      obtain ⟨h5, h6⟩ := List.append_inj' h3' rfl
      simp only [List.cons.injEq, and_true] at h6
      subst h6
      have : g' = .fn f := spine_nil (Prod.ext h1 h5)
      subst this
      rfl
    | _ => simp [FExpr.spine] at h3
  | _ => simp [FExpr.spine] at h

theorem isCTCGuard_cases {c : FExpr} (h : isCTCGuard c = true) :
    ∃ a b, c = .op "==" (.app (.app (.fn ctcName) a) b) (.const "0") ∧
      wholeBuffer a = true ∧ wholeBuffer b = true := by
  unfold isCTCGuard at h
  split at h
  · simp only [Bool.and_eq_true] at h
    exact ⟨_, _, rfl, h.1, h.2⟩
  · simp at h

theorem isConst_cases {e : FExpr} (h : isConst e = true) : ∃ d, e = .const d := by
  cases e <;> simp [isConst] at h
  exact ⟨_, rfl⟩

theorem baseVar_cases {dst : FExpr} {d : String} (h : baseVar dst = some d) :
    dst = .var d ∨ dst = .un "[:]" (.var d) := by
  unfold baseVar at h
  split at h <;> simp_all

theorem baseVar_whole {dst : FExpr} {d : String} (h : baseVar dst = some d) :
    wholeBuffer dst = true ∧ bufName dst = some d := by
  rcases baseVar_cases h with rfl | rfl <;> simp [wholeBuffer, bufName]

theorem encoder_ne_len {f : String} (h : isEncodeFn f = true) : FExpr.fn f ≠ FExpr.fn "len" := by
  intro hf
  simp only [FExpr.fn.injEq] at hf
  subst hf
  revert h
  decide

theorem tainted'_call2 (t : Taint) {f : String} (hf : FExpr.fn f ≠ FExpr.fn "len") (dst src : FExpr) :
    tainted' t (.app (.app (.fn f) dst) src) = (tainted' t dst || tainted' t src) := by
  simp [tainted', hf]

/-! ## One statement -/

/-- Two steps are in lockstep: the resulting environments are low-equivalent, the same statement
was executed, and — provided the constant-time comparison (if this statement is one) returned the
same value — the observable event and the returned value coincide. -/
def StepSim (t' : Taint) (r₁ r₂ : StepRes) : Prop :=
  LowEq t' r₁.env r₂.env ∧ r₁.ev.stmt = r₂.ev.stmt ∧ r₁.ev.ctc.isSome = r₂.ev.ctc.isSome ∧
  (r₁.ev.ctc = r₂.ev.ctc → r₁.ev = r₂.ev ∧ r₁.ret = r₂.ret)

section
variable {I : Interp} {K₁ K₂ : KeyOracle} {t t' : Taint} {e₁ e₂ : Env}

theorem step_sim_eval_untainted (hI : Trusted I) (hL : LowEq t e₁ e₂) {e : FExpr}
    (h : tainted' t e = false) : StepSim t (step I K₁ e₁ (.eval e)) (step I K₂ e₂ (.eval e)) := by
  have he := eval_untainted hI hL e h
  simp only [step, he]
  refine ⟨?_, rfl, rfl, fun _ => ⟨rfl, rfl⟩⟩
  cases encTarget e with
  | none => exact hL
  | some d => exact hL.set_eq d _

theorem step_sim_assign (hI : Trusted I) (hK : KeyRel K₁ K₂) (hL : LowEq t e₁ e₂)
    {lhs : List String} {rhs : FExpr} (hs : stepSafe' t (.assign lhs rhs) = some t') :
    StepSim t' (step I K₁ e₁ (.assign lhs rhs)) (step I K₂ e₂ (.assign lhs rhs)) := by
  rw [stepSafe'] at hs
  split at hs
  · rename_i args heq
    split at hs
    · simp at hs
    · rename_i hany
      simp only [Option.some.injEq] at hs
      subst hs
      have hargs := evalList_untainted hI hL args (by simpa using hany)
      simp only [step, heq, hargs]
      obtain ⟨hk1, hk2⟩ := hK (evalList I e₂ args).1
      rw [hk2]
      refine ⟨?_, rfl, rfl, fun _ => ⟨rfl, rfl⟩⟩
      cases lhs with
      | nil => exact hL
      | cons x xs =>
        simp only [assignAll, List.headD_cons, List.tail_cons]
        exact assignAll_same xs _ (hL.set_shape x hk1)
  · rename_i hne
    split at hs
    · simp at hs
    · rename_i hta
      simp only [Option.some.injEq] at hs
      subst hs
      have he := eval_untainted hI hL rhs (by simpa using hta)
      simp only [step, he]
      exact ⟨assignAll_filter lhs _ hL, rfl, rfl, fun _ => ⟨rfl, rfl⟩⟩

theorem step_sim_eval (hI : Trusted I) (hL : LowEq t e₁ e₂) {e : FExpr}
    (hs : stepSafe' t (.eval e) = some t') :
    StepSim t' (step I K₁ e₁ (.eval e)) (step I K₂ e₂ (.eval e)) := by
  rw [stepSafe'] at hs
  split at hs
  · rename_i f dst src heq
    have he := spine_two heq
    subst he
    split at hs
    · rename_i hf
      split at hs
      · split at hs
        · rename_i hws
          split at hs
          · rename_i d hbv
            simp only [Option.some.injEq] at hs
            subst hs
            obtain ⟨hwd, hbuf⟩ := baseVar_whole hbv
            have hd := whole_sim hI hL hwd
            have hsrc := whole_sim hI hL hws
            have henc := hI.enc f hf _ _ _ _ hd.1 hsrc.1
            simp only [step, encTarget, hf, if_true, hbuf, evalExpr]
            refine ⟨hL.set_shape d henc.2.2, rfl, rfl, fun _ => ⟨?_, rfl⟩⟩
            simp only [Event.mk.injEq, true_and, and_true]
            rw [hd.2, hsrc.2, henc.1, henc.2.1]
          · simp at hs
        · simp at hs
      · rename_i hsrc
        split at hs
        · simp at hs
        · rename_i hdst
          simp only [Option.some.injEq] at hs
          subst hs
          apply step_sim_eval_untainted hI hL
          rw [tainted'_call2 t (encoder_ne_len hf)]
          simp [hsrc, hdst]
    · split at hs
      · simp at hs
      · rename_i hta
        simp only [Option.some.injEq] at hs
        subst hs
        exact step_sim_eval_untainted hI hL (by simpa using hta)
  · split at hs
    · simp at hs
    · rename_i hta
      simp only [Option.some.injEq] at hs
      subst hs
      exact step_sim_eval_untainted hI hL (by simpa using hta)

/-- The comparison call itself costs the same in both runs, whatever the buffers contain. -/
theorem ctc_call_cost (hI : Trusted I) (hL : LowEq t e₁ e₂) {a b : FExpr}
    (ha : wholeBuffer a = true) (hb : wholeBuffer b = true) :
    (evalExpr I e₁ (.app (.app (.fn ctcName) a) b)).2 =
    (evalExpr I e₂ (.app (.app (.fn ctcName) a) b)).2 := by
  have h1 := whole_sim hI hL ha
  have h2 := whole_sim hI hL hb
  have h3 := hI.ctc_cost _ _ _ _ h1.1 h2.1
  simp only [evalExpr]
  rw [h1.2, h2.2, h3.1, h3.2]

theorem step_sim_ifRet (hI : Trusted I) (hL : LowEq t e₁ e₂) {cond ret : FExpr}
    (hs : stepSafe' t (.ifRet cond ret) = some t') :
    StepSim t' (step I K₁ e₁ (.ifRet cond ret)) (step I K₂ e₂ (.ifRet cond ret)) := by
  rw [stepSafe'] at hs
  split at hs
  · rename_i hg
    split at hs
    · rename_i hc
      simp only [Option.some.injEq] at hs
      subst hs
      obtain ⟨a, b, rfl, ha, hb⟩ := isCTCGuard_cases hg
      obtain ⟨d, rfl⟩ := isConst_cases hc
      have hcost := ctc_call_cost hI hL ha hb
      have hc₁ : ∀ e : Env, evalExpr I e (.op "==" (.app (.app (.fn ctcName) a) b) (.const "0")) =
          (I.op "==" (evalExpr I e (.app (.app (.fn ctcName) a) b)).1 (I.const "0"),
           (evalExpr I e (.app (.app (.fn ctcName) a) b)).2 + 0 +
             I.opCost "==" (evalExpr I e (.app (.app (.fn ctcName) a) b)).1 (I.const "0")) := by
        intro e; simp only [evalExpr]
      have hr : ∀ e : Env, evalExpr I e (.const d) = (I.const d, 0) := fun _ => rfl
      simp only [step, hg, if_true, ctcCall, Option.map, hc₁, hr]
      generalize evalExpr I e₁ (.app (.app (.fn ctcName) a) b) = c₁ at *
      generalize evalExpr I e₂ (.app (.app (.fn ctcName) a) b) = c₂ at *
      obtain ⟨v₁, n₁⟩ := c₁
      obtain ⟨v₂, n₂⟩ := c₂
      simp only at hcost
      subst hcost
      unfold StepSim
      by_cases h1 : I.truthy (I.op "==" v₁ (I.const "0")) = true <;>
      by_cases h2 : I.truthy (I.op "==" v₂ (I.const "0")) = true
      · rw [if_pos h1, if_pos h2]
        refine ⟨hL, rfl, rfl, fun hv => ?_⟩
        have hv' : v₁ = v₂ := Option.some.inj hv
        subst hv'
        exact ⟨rfl, rfl⟩
      · rw [if_pos h1, if_neg h2]
        refine ⟨hL, rfl, rfl, fun hv => ?_⟩
        have hv' : v₁ = v₂ := Option.some.inj hv
        subst hv'
        exact absurd h1 h2
      · rw [if_neg h1, if_pos h2]
        refine ⟨hL, rfl, rfl, fun hv => ?_⟩
        have hv' : v₁ = v₂ := Option.some.inj hv
        subst hv'
        exact absurd h2 h1
      · rw [if_neg h1, if_neg h2]
        refine ⟨hL, rfl, rfl, fun hv => ?_⟩
        have hv' : v₁ = v₂ := Option.some.inj hv
        subst hv'
        exact ⟨rfl, rfl⟩
    · simp at hs
  · rename_i hg
    split at hs
    · simp at hs
    · rename_i hta
      simp only [Option.some.injEq] at hs
      subst hs
      simp only [Bool.or_eq_true, not_or, Bool.not_eq_true] at hta
      have hc := eval_untainted hI hL cond hta.1
      have hr := eval_untainted hI hL ret hta.2
      simp only [step, hg, hc, hr]
      refine ⟨?_, ?_, ?_, fun _ => ⟨?_, ?_⟩⟩ <;> split <;> first | exact hL | rfl

theorem step_sim_ifAssign (hI : Trusted I) (hL : LowEq t e₁ e₂) {cond rhs : FExpr} {x : String}
    (hs : stepSafe' t (.ifAssign cond x rhs) = some t') :
    StepSim t' (step I K₁ e₁ (.ifAssign cond x rhs)) (step I K₂ e₂ (.ifAssign cond x rhs)) := by
  rw [stepSafe'] at hs
  split at hs
  · simp at hs
  · rename_i hta
    simp only [Option.some.injEq] at hs
    subst hs
    simp only [Bool.or_eq_true, not_or, Bool.not_eq_true] at hta
    have hc := eval_untainted hI hL cond hta.1
    have hr := eval_untainted hI hL rhs hta.2
    simp only [step, hc, hr]
    refine ⟨?_, ?_, ?_, fun _ => ⟨?_, ?_⟩⟩ <;> split <;> first | exact hL | exact hL.set_eq _ _ | rfl

theorem step_sim_ret (hI : Trusted I) (hL : LowEq t e₁ e₂) {e : FExpr}
    (hs : stepSafe' t (.ret e) = some t') :
    StepSim t' (step I K₁ e₁ (.ret e)) (step I K₂ e₂ (.ret e)) := by
  rw [stepSafe'] at hs
  split at hs
  · simp at hs
  · rename_i hta
    simp only [Option.some.injEq] at hs
    subst hs
    have he := eval_untainted hI hL e (by simpa using hta)
    simp only [step, he]
    exact ⟨hL, rfl, rfl, fun _ => ⟨rfl, rfl⟩⟩

/-- **One step of a `stepSafe'` statement keeps two low-equivalent runs in lockstep.** -/
theorem step_sim (hI : Trusted I) (hK : KeyRel K₁ K₂) (hL : LowEq t e₁ e₂) {s : FStmt}
    (hs : stepSafe' t s = some t') : StepSim t' (step I K₁ e₁ s) (step I K₂ e₂ s) := by
  cases s with
  | declare x =>
    simp only [stepSafe', Option.some.injEq] at hs
    subst hs
    exact ⟨hL.set_eq x _, rfl, rfl, fun _ => ⟨rfl, rfl⟩⟩
  | assign lhs rhs => exact step_sim_assign hI hK hL hs
  | ifRet c r => exact step_sim_ifRet hI hL hs
  | ifAssign c x r => exact step_sim_ifAssign hI hL hs
  | eval e => exact step_sim_eval hI hL hs
  | ret e => exact step_sim_ret hI hL hs
  | other d => simp [stepSafe'] at hs

end

/-! ## Whole runs -/

theorem run_cons_some {I : Interp} {K : KeyOracle} {s : FStmt} {ss : List FStmt} {env : Env} {v : Val}
    (h : (step I K env s).ret = some v) :
    run I K (s :: ss) env = ⟨[(step I K env s).ev], some v, (step I K env s).cmp.toList⟩ := by
  simp [run, h]

theorem run_cons_none {I : Interp} {K : KeyOracle} {s : FStmt} {ss : List FStmt} {env : Env}
    (h : (step I K env s).ret = none) :
    run I K (s :: ss) env =
      ⟨(step I K env s).ev :: (run I K ss (step I K env s).env).events,
       (run I K ss (step I K env s).env).out,
       (step I K env s).cmp.toList ++ (run I K ss (step I K env s).env).cmps⟩ := by
  simp [run, h]

/-- Two runs in lockstep: the same statement is executed at every position, and as long as the
constant-time comparisons return the same values the observable events (statement, cost, branch)
and finally the outcomes coincide. -/
def Lockstep : List Event → Option Val → List Event → Option Val → Prop
  | [], o₁, [], o₂ => o₁ = o₂
  | a :: as, o₁, b :: bs, o₂ =>
    a.stmt = b.stmt ∧ a.ctc.isSome = b.ctc.isSome ∧ (a.ctc = b.ctc → a = b ∧ Lockstep as o₁ bs o₂)
  | _, _, _, _ => False

theorem run_lockstep {I : Interp} {K₁ K₂ : KeyOracle} (hI : Trusted I) (hK : KeyRel K₁ K₂) :
    ∀ (p : List FStmt) {t t' : Taint} {e₁ e₂ : Env}, LowEq t e₁ e₂ → runSafe' t p = some t' →
      Lockstep (run I K₁ p e₁).events (run I K₁ p e₁).out (run I K₂ p e₂).events (run I K₂ p e₂).out
  | [], _, _, _, _, _, _ => by simp [run, Lockstep]
  | s :: ss, t, t', e₁, e₂, hL, hp => by
    rw [runSafe'] at hp
    cases hst : stepSafe' t s with
    | none => simp [hst] at hp
    | some t₁ =>
      simp only [hst] at hp
      obtain ⟨henv, hstmt, hsome, hctc⟩ := step_sim hI hK hL hst
      cases h₁ : (step I K₁ e₁ s).ret with
      | some v₁ =>
        cases h₂ : (step I K₂ e₂ s).ret with
        | some v₂ =>
          rw [run_cons_some h₁, run_cons_some h₂]
          refine ⟨hstmt, hsome, fun hc => ⟨(hctc hc).1, ?_⟩⟩
          have := (hctc hc).2
          rw [h₁, h₂] at this
          exact this
        | none =>
          rw [run_cons_some h₁, run_cons_none h₂]
          refine ⟨hstmt, hsome, fun hc => ?_⟩
          have := (hctc hc).2
          rw [h₁, h₂] at this
          cases this
      | none =>
        cases h₂ : (step I K₂ e₂ s).ret with
        | some v₂ =>
          rw [run_cons_none h₁, run_cons_some h₂]
          refine ⟨hstmt, hsome, fun hc => ?_⟩
          have := (hctc hc).2
          rw [h₁, h₂] at this
          cases this
        | none =>
          rw [run_cons_none h₁, run_cons_none h₂]
          exact ⟨hstmt, hsome, fun hc => ⟨(hctc hc).1, run_lockstep hI hK ss henv hp⟩⟩

theorem lockstep_eq : ∀ (as bs : List Event) {o₁ o₂ : Option Val}, Lockstep as o₁ bs o₂ →
    as.filterMap Event.ctc = bs.filterMap Event.ctc → as = bs ∧ o₁ = o₂
  | [], [], _, _, h, _ => ⟨rfl, h⟩
  | [], _ :: _, _, _, h, _ => h.elim
  | _ :: _, [], _, _, h, _ => h.elim
  | a :: as, b :: bs, o₁, o₂, ⟨_, hsome, hc⟩, hf => by
    cases ha : a.ctc with
    | none =>
      cases hb : b.ctc with
      | none =>
        obtain ⟨hab, hrest⟩ := hc (by rw [ha, hb])
        simp only [List.filterMap_cons, ha, hb] at hf
        obtain ⟨h1, h2⟩ := lockstep_eq as bs hrest hf
        exact ⟨by rw [hab, h1], h2⟩
      | some y => simp [ha, hb] at hsome
    | some x =>
      cases hb : b.ctc with
      | none => simp [ha, hb] at hsome
      | some y =>
        simp only [List.filterMap_cons, ha, hb, List.cons.injEq] at hf
        obtain ⟨hab, hrest⟩ := hc (by rw [ha, hb, hf.1])
        obtain ⟨h1, h2⟩ := lockstep_eq as bs hrest hf.2
        exact ⟨by rw [hab, h1], h2⟩

theorem lockstep_const (c : Val) : ∀ (as bs : List Event) {o₁ o₂ : Option Val},
    Lockstep as o₁ bs o₂ → (∀ v ∈ as.filterMap Event.ctc, v = c) →
    (∀ v ∈ bs.filterMap Event.ctc, v = c) → as = bs ∧ o₁ = o₂
  | [], [], _, _, h, _, _ => ⟨rfl, h⟩
  | [], _ :: _, _, _, h, _, _ => h.elim
  | _ :: _, [], _, _, h, _, _ => h.elim
  | a :: as, b :: bs, o₁, o₂, ⟨_, hsome, hc⟩, h1, h2 => by
    cases ha : a.ctc with
    | none =>
      cases hb : b.ctc with
      | none =>
        obtain ⟨hab, hrest⟩ := hc (by rw [ha, hb])
        simp only [List.filterMap_cons, ha, hb] at h1 h2
        obtain ⟨h3, h4⟩ := lockstep_const c as bs hrest h1 h2
        exact ⟨by rw [hab, h3], h4⟩
      | some y => simp [ha, hb] at hsome
    | some x =>
      cases hb : b.ctc with
      | none => simp [ha, hb] at hsome
      | some y =>
        simp only [List.filterMap_cons, ha, hb, List.mem_cons, forall_eq_or_imp] at h1 h2
        obtain ⟨hab, hrest⟩ := hc (by rw [ha, hb, h1.1, h2.1])
        obtain ⟨h3, h4⟩ := lockstep_const c as bs hrest h1.2 h2.2
        exact ⟨by rw [hab, h3], h4⟩

theorem lockstep_upto : ∀ (as bs : List Event) {o₁ o₂ : Option Val}, Lockstep as o₁ bs o₂ →
    uptoGuard as = uptoGuard bs
  | [], [], _, _, _ => rfl
  | [], _ :: _, _, _, h => h.elim
  | _ :: _, [], _, _, h => h.elim
  | a :: as, b :: bs, o₁, o₂, ⟨hstmt, hsome, hc⟩ => by
    cases ha : a.ctc with
    | none =>
      cases hb : b.ctc with
      | none =>
        obtain ⟨hab, hrest⟩ := hc (by rw [ha, hb])
        have := lockstep_upto as bs hrest
        simp only [uptoGuard, hb, hab, this]
      | some y => simp [ha, hb] at hsome
    | some x =>
      cases hb : b.ctc with
      | none => simp [ha, hb] at hsome
      | some y => simp [uptoGuard, ha, hb, hstmt]

/-! ## The comparison's value on mismatching buffers -/

theorem step_ctc_cmp (I : Interp) (K : KeyOracle) (env : Env) (s : FStmt) {v : Val}
    (h : (step I K env s).ev.ctc = some v) :
    ∃ x y, (step I K env s).cmp = some (x, y) ∧ v = I.apply (I.apply (.fn ctcName) x) y := by
  cases s with
  | ifRet cond ret =>
    by_cases hg : isCTCGuard cond = true
    · obtain ⟨a, b, rfl, _, _⟩ := isCTCGuard_cases hg
      simp only [step, hg, if_true, ctcCall, Option.map] at h ⊢
      split at h <;> rename_i ht <;> simp only [ht, if_true] <;>
        simp only [Option.some.injEq] at h <;>
        exact ⟨_, _, rfl, by rw [← h]; simp only [evalExpr]⟩
    · simp only [step, hg, Option.map] at h
      split at h <;> simp at h
  | assign lhs rhs =>
    simp only [step] at h
    split at h <;> simp at h
  | ifAssign c x r =>
    simp only [step] at h
    split at h <;> simp at h
  | declare x => simp [step] at h
  | eval e => simp [step] at h
  | ret e => simp [step] at h
  | other d => simp [step] at h

theorem run_ctc_of_mismatch {I : Interp} (hI : Trusted I) (K : KeyOracle) :
    ∀ (p : List FStmt) (env : Env), (run I K p env).AllMismatch →
      ∀ v ∈ (run I K p env).ctcVals, v = .int 0
  | [], _, _, v, hv => by simp [run, Result.ctcVals] at hv
  | s :: ss, env, hm, v, hv => by
    have hstep : ∀ w, (step I K env s).ev.ctc = some w →
        (∀ c ∈ (step I K env s).cmp.toList, ∃ x y : List UInt8, c = (.bytes x, .bytes y) ∧ x ≠ y) →
        w = .int 0 := by
      intro w hw hc
      obtain ⟨x, y, hxy, rfl⟩ := step_ctc_cmp I K env s hw
      obtain ⟨x', y', h1, h2⟩ := hc (x, y) (by simp [hxy])
      simp only [Prod.mk.injEq] at h1
      rw [h1.1, h1.2, hI.ctc_val, if_neg h2]
    cases h : (step I K env s).ret with
    | some r =>
      rw [run_cons_some h] at hm hv
      simp only [Result.ctcVals, List.filterMap_cons, List.filterMap_nil] at hv
      cases hc : (step I K env s).ev.ctc with
      | none => simp [hc] at hv
      | some w =>
        simp only [hc, List.mem_singleton] at hv
        subst hv
        exact hstep v hc hm
    | none =>
      rw [run_cons_none h] at hm hv
      simp only [Result.ctcVals, List.filterMap_cons] at hv
      have hm₁ : ∀ c ∈ (step I K env s).cmp.toList,
          ∃ x y : List UInt8, c = (.bytes x, .bytes y) ∧ x ≠ y :=
        fun c hc => hm c (List.mem_append_left _ hc)
      have hm₂ : (run I K ss (step I K env s).env).AllMismatch :=
        fun c hc => hm c (List.mem_append_right _ hc)
      have ih := run_ctc_of_mismatch hI K ss (step I K env s).env hm₂
      cases hc : (step I K env s).ev.ctc with
      | none =>
        simp only [hc] at hv
        exact ih v hv
      | some w =>
        simp only [hc, List.mem_cons] at hv
        rcases hv with rfl | hv
        · exact hstep v hc hm₁
        · exact ih v hv

/-! ## Non-interference -/

theorem LowEq.refl (t : Taint) (e : Env) : LowEq t e e := fun _ => ⟨rfl, fun _ => rfl⟩

/-- Replacing a stored digest by another one of the same length gives a low-equivalent
environment. -/
theorem lowEq_set_sum (env : Env) (b : String) {d₁ d₂ : List UInt8} (h : d₁.length = d₂.length) :
    LowEq [] (env.set (b ++ "." ++ "Sum") (.bytes d₁)) (env.set (b ++ "." ++ "Sum") (.bytes d₂)) := by
  intro y
  by_cases hy : y = b ++ "." ++ "Sum"
  · subst hy
    simp only [Env.set, if_true]
    exact ⟨shapeEq_bytes h, fun hn => absurd (Or.inr ⟨b, rfl⟩) hn⟩
  · have hset : ∀ v, (env.set (b ++ "." ++ "Sum") v) y = env y := fun v => by
      simp [Env.set, hy]
    rw [hset, hset]
    exact ⟨rfl, fun _ => rfl⟩

theorem runSafe'_of_secretSafe' {p : List FStmt} (h : secretSafe' p = true) :
    ∃ t', runSafe' [] p = some t' := by
  simp only [secretSafe', Bool.and_eq_true] at h
  exact Option.isSome_iff_exists.mp h.1.1.1

/-- **Non-interference** for any program accepted by `runSafe'`, from any taint state. -/
theorem noninterference {I : Interp} {K₁ K₂ : KeyOracle} (hI : Trusted I) (hK : KeyRel K₁ K₂)
    {p : List FStmt} {t t' : Taint} {e₁ e₂ : Env} (hL : LowEq t e₁ e₂)
    (hp : runSafe' t p = some t') :
    ((run I K₁ p e₁).ctcVals = (run I K₂ p e₂).ctcVals →
      (run I K₁ p e₁).events = (run I K₂ p e₂).events ∧ (run I K₁ p e₁).out = (run I K₂ p e₂).out) ∧
    uptoGuard (run I K₁ p e₁).events = uptoGuard (run I K₂ p e₂).events :=
  have h := run_lockstep hI hK p hL hp
  ⟨fun hc => lockstep_eq _ _ h hc, lockstep_upto _ _ h⟩

theorem noninterference_mismatch {I : Interp} {K₁ K₂ : KeyOracle} (hI : Trusted I)
    (hK : KeyRel K₁ K₂) {p : List FStmt} {t t' : Taint} {e₁ e₂ : Env} (hL : LowEq t e₁ e₂)
    (hp : runSafe' t p = some t')
    (h₁ : (run I K₁ p e₁).AllMismatch) (h₂ : (run I K₂ p e₂).AllMismatch) :
    (run I K₁ p e₁).events = (run I K₂ p e₂).events ∧ (run I K₁ p e₁).out = (run I K₂ p e₂).out :=
  lockstep_const (.int 0) _ _ (run_lockstep hI hK p hL hp)
    (run_ctc_of_mismatch hI K₁ p e₁ h₁) (run_ctc_of_mismatch hI K₂ p e₂ h₂)

end GoCrypt.Flow
