import GoCrypt.Base.CodecIR
import GoCrypt.Proofs.CodecIRAttr
import GoCrypt.Proofs.TIIRBase

/-!
# Codec IR: interpreter lemmas

Generic facts about `CIR.exec`/`eval`: one rule per statement/expression form, loop shapes, and the simp
call `ci_simp` that runs straight-line code symbolically. Helper lemmas only.
-/

namespace GoCrypt.CIR
open GoCrypt.TIIR (RType Res kindNum)

@[simp, cir] theorem bindR_ok {α : Type} (a : α) (k : α → Out) : bindR (.ok a) k = k a := id rfl
@[simp, cir] theorem bindR_panic {α : Type} (k : α → Out) : bindR (.panic) k = .panic := id rfl
@[simp, cir] theorem bindR_stuck {α : Type} (w : String) (k : α → Out) : bindR (.stuck w) k = .stuck w := id rfl

@[simp, cir] theorem andThen_norm (m : Mem) (env : Env) (k : Mem → Env → Out) : (Out.norm m env).andThen k = k m env := id rfl
@[simp, cir] theorem andThen_brk (m : Mem) (env : Env) (k : Mem → Env → Out) : (Out.brk m env).andThen k = .brk m env := id rfl
@[simp, cir] theorem andThen_cont (m : Mem) (env : Env) (k : Mem → Env → Out) : (Out.cont m env).andThen k = .cont m env := id rfl
@[simp, cir] theorem andThen_ret (m : Mem) (vs : List Val) (k : Mem → Env → Out) : (Out.ret m vs).andThen k = .ret m vs := id rfl
@[simp, cir] theorem andThen_panic (k : Mem → Env → Out) : (Out.panic).andThen k = .panic := id rfl
@[simp, cir] theorem andThen_stuck (w : String) (k : Mem → Env → Out) : (Out.stuck w).andThen k = .stuck w := id rfl

@[simp, cir] theorem asInt_int (i : Int) : asInt (.int i) = .ok i := id rfl
@[simp, cir] theorem asBool_bool (b : Bool) : asBool (.bool b) = .ok b := id rfl

@[cir] theorem evalBin_add (a b : Int) : evalBin .add a b = .int (a + b) := id rfl
@[cir] theorem evalBin_sub (a b : Int) : evalBin .sub a b = .int (a - b) := id rfl
@[cir] theorem evalBin_lt (a b : Int) : evalBin .lt a b = .bool (decide (a < b)) := id rfl
@[cir] theorem evalBin_le (a b : Int) : evalBin .le a b = .bool (decide (a ≤ b)) := id rfl
@[cir] theorem evalBin_gt (a b : Int) : evalBin .gt a b = .bool (decide (a > b)) := id rfl
@[cir] theorem evalBin_ge (a b : Int) : evalBin .ge a b = .bool (decide (a ≥ b)) := id rfl

@[cir] theorem evalEq_int (a b : Int) : evalEq (.int a) (.int b) = .ok (decide (a = b)) := id rfl
@[cir] theorem evalEq_bool (a b : Bool) : evalEq (.bool a) (.bool b) = .ok (decide (a = b)) := id rfl
@[cir] theorem evalEq_str (a b : Bytes) : evalEq (.str a) (.str b) = .ok (decide (a = b)) := id rfl
@[cir] theorem evalEq_flt (a : Bool) : evalEq (.flt a) (.flt true) = .ok a := by cases a <;> rfl

@[cir] theorem isNilVal_nil : isNilVal .nil = .ok true := id rfl
@[cir] theorem isNilVal_ptr (a : Nat) : isNilVal (.ptr a) = .ok false := id rfl
@[cir] theorem isNilVal_global (g : String) : isNilVal (.global g) = .ok false := id rfl
@[cir] theorem isNilVal_recd (n : String) (p : List Val) : isNilVal (.recd n p) = .ok false := id rfl
@[cir] theorem isNilVal_textErr (d : String) : isNilVal (.textErr d) = .ok false := id rfl
@[cir] theorem isNilVal_tiErr (v : TIIR.Val) : isNilVal (.tiErr v) = .ok false := id rfl

@[cir] theorem lenOf_ints (l : List Int) : lenOf (.ints l) = .ok (.int l.length) := id rfl
@[cir] theorem lenOf_ptrs (l : List Nat) : lenOf (.ptrs l) = .ok (.int l.length) := id rfl
@[cir] theorem lenOf_str (l : Bytes) : lenOf (.str l) = .ok (.int l.length) := id rfl
@[cir] theorem lenOf_bytes (l : Bytes) : lenOf (.bytes l) = .ok (.int l.length) := id rfl

@[cir] theorem msgParts_str (b : Bytes) : msgParts (.str b) = .ok [.lit b] := id rfl
@[cir] theorem msgParts_name (s : String) : msgParts (.name s) = .ok [.name s] := id rfl
@[cir] theorem msgParts_msg (p : List MsgPart) : msgParts (.msg p) = .ok p := id rfl

theorem indexVal_ptrs (l : List Nat) (i : Nat) (a : Nat) (hi : l[i]? = some a) : indexVal (.ptrs l) (i : Int) = .ok (.ptr a) := by
  have : ¬ ((i : Int) < 0) := by omega
  simp [indexVal, this, hi]

theorem indexVal_str (l : Bytes) (i : Int) (c : UInt8) (h0 : 0 ≤ i) (hi : l[i.toNat]? = some c) :
    indexVal (.str l) i = .ok (.int c.toNat) := by
  have : ¬ (i < 0) := by omega
  simp [indexVal, this, hi]

/-- Reading a record field through a pointer. -/
theorem fieldOf_ptr (m : Mem) (a k : Nat) (o : TIIR.Obj) (x : TIIR.Val) (ho : m.heap[a]? = some o) (hx : o[k]? = some x) :
    fieldOf m (.ptr a) k = .ok (ofTI x) := by
  simp [fieldOf, ho, hx]

attribute [cir] eval evalArgs lookup storeAll store ofTI

/-! `ext1M`/`ext2M` on values that are not references into the memory are the pure operations. -/
section ext1M
variable (m : Mem) (op : Ext1)
@[cir] theorem ext1M_rv (t : RType) (g : GVal) (ro : Bool) : ext1M m op (.rv t g ro) = ext1 op (.rv t g ro) := rfl
@[cir] theorem ext1M_rvInvalid : ext1M m op .rvInvalid = ext1 op .rvInvalid := rfl
@[cir] theorem ext1M_rtype (t : RType) : ext1M m op (.rtype t) = ext1 op (.rtype t) := rfl
@[cir] theorem ext1M_iface (t : RType) (g : GVal) : ext1M m op (.iface t g) = ext1 op (.iface t g) := rfl
@[cir] theorem ext1M_nil : ext1M m op .nil = ext1 op .nil := rfl
@[cir] theorem ext1M_int (i : Int) : ext1M m op (.int i) = ext1 op (.int i) := rfl
@[cir] theorem ext1M_str (b : Bytes) : ext1M m op (.str b) = ext1 op (.str b) := rfl
@[cir] theorem ext1M_bytes (b : Bytes) : ext1M m op (.bytes b) = ext1 op (.bytes b) := rfl
@[cir] theorem ext1M_builder (b : Bytes) : ext1M m op (.builder b) = ext1 op (.builder b) := rfl
@[cir] theorem ext1M_textErr (d : String) : ext1M m op (.textErr d) = ext1 op (.textErr d) := rfl
@[cir] theorem ext1M_numErr (r : Bool) : ext1M m op (.numErr r) = ext1 op (.numErr r) := rfl
@[cir] theorem ext1M_dptr (t : RType) : ext1M m op (.dptr t) = ext1 op (.dptr t) := rfl
@[cir] theorem ext1M_root (t : RType) : ext1M m op (.root t) = ext1 op (.root t) := rfl
end ext1M
section ext2M
variable (c : Ctx) (m : Mem) (op : Ext2) (b : Val)
@[cir] theorem ext2M_rv (t : RType) (g : GVal) (ro : Bool) : ext2M c m op (.rv t g ro) b = ext2 c op (.rv t g ro) b := by
  cases op <;> rfl
@[cir] theorem ext2M_rtype (t : RType) : ext2M c m op (.rtype t) b = ext2 c op (.rtype t) b := by cases op <;> rfl
@[cir] theorem ext2M_global (g : String) : ext2M c m op (.global g) b = ext2 c op (.global g) b := by cases op <;> rfl
@[cir] theorem ext2M_int (i : Int) : ext2M c m op (.int i) b = ext2 c op (.int i) b := by cases op <;> rfl
@[cir] theorem ext2M_str (s : Bytes) : ext2M c m op (.str s) b = ext2 c op (.str s) b := by cases op <;> rfl
end ext2M
@[cir] theorem concatVal_str_str (a b : Bytes) : concatVal (.str a) (.str b) = .ok (.str (a ++ b)) := rfl
@[cir] theorem concatVal_str_msg (a : Bytes) (p : List MsgPart) : concatVal (.str a) (.msg p) = .ok (.msg (.lit a :: p)) := rfl
@[cir] theorem concatVal_msg_str (p : List MsgPart) (a : Bytes) : concatVal (.msg p) (.str a) = .ok (.msg (p ++ [.lit a])) := rfl
@[cir] theorem concatVal_msg_msg (p q : List MsgPart) : concatVal (.msg p) (.msg q) = .ok (.msg (p ++ q)) := rfl

section ext
@[cir] theorem ext1_typeKind (t : RType) : ext1 .typeKind (.rtype t) = .ok (.int (kindNum t)) := id rfl
@[cir] theorem ext1_typeString (t : RType) : ext1 .typeString (.rtype t) = .ok (.msg [.typeStr t]) := id rfl
@[cir] theorem ext1_valueOf_iface (t : RType) (g : GVal) : ext1 .valueOf (.iface t g) = .ok (.rv t g false) := id rfl
@[cir] theorem ext1_typeOf_iface (t : RType) (g : GVal) : ext1 .typeOf (.iface t g) = .ok (.rtype t) := id rfl
@[cir] theorem ext1_valIsValid_rv (t : RType) (g : GVal) (ro : Bool) : ext1 .valIsValid (.rv t g ro) = .ok (.bool true) := id rfl
@[cir] theorem ext1_valIsValid_inv : ext1 .valIsValid .rvInvalid = .ok (.bool false) := id rfl
@[cir] theorem ext1_valKind_rv (t : RType) (g : GVal) (ro : Bool) :
    ext1 .valKind (.rv t g ro) = (do let k ← valKindNum t g; pure (.int k)) := id rfl
@[cir] theorem ext1_valKind_inv : ext1 .valKind .rvInvalid = .ok (.int 0) := id rfl
@[cir] theorem ext1_valType_rv (t : RType) (g : GVal) (ro : Bool) : ext1 .valType (.rv t g ro) = .ok (.rtype t) := id rfl
@[cir] theorem ext1_valCanInterface_rv (t : RType) (g : GVal) (ro : Bool) : ext1 .valCanInterface (.rv t g ro) = .ok (.bool (!ro)) := id rfl
@[cir] theorem ext1_errorString (d : String) : ext1 .errorString (.textErr d) = .ok (.msg [.errText d]) := id rfl
@[cir] theorem ext1_quoteRune (c : Int) : ext1 .quoteRune (.int c) = .ok (.msg [.quotedRune c]) := id rfl
@[cir] theorem ext1_toBytes (s : Bytes) : ext1 .toBytes (.str s) = .ok (.bytes s) := id rfl
@[cir] theorem ext1_toStr (s : Bytes) : ext1 .toStr (.bytes s) = .ok (.str s) := id rfl
@[cir] theorem ext1_bufString (s : Bytes) : ext1 .bufString (.builder s) = .ok (.str s) := id rfl
end ext

section rules
variable (c : Ctx) (m : Mem) (env : Env)

@[cir] theorem exec_seq (a b : Stmt) : exec c (a ;;; b) m env = (exec c a m env).andThen (exec c b) := id rfl
@[cir] theorem exec_skip : exec c .skip m env = .norm m env := id rfl
@[cir] theorem exec_brk : exec c .brk m env = .brk m env := id rfl
@[cir] theorem exec_cont : exec c .cont m env = .cont m env := id rfl
@[cir] theorem exec_ret (es : List Expr) : exec c (.ret es) m env = bindR (evalArgs c m env es) fun vs => .ret m vs := id rfl
@[cir] theorem exec_assign (lhs : List LHS) (rhs : List Expr) :
    exec c (.assign lhs rhs) m env =
      bindR (evalArgs c m env rhs) fun vals =>
      bindR (storeAll env lhs vals) fun env' => .norm m env' := id rfl
@[cir] theorem exec_call (lhs : List LHS) (f : Nat) (args : List Expr) :
    exec c (.call lhs f args) m env =
      bindR (evalArgs c m env args) fun vals =>
      bindR (c.call f m vals) fun (m', rs) =>
      bindR (storeAll env lhs rs) fun env' => .norm m' env' := id rfl
@[cir] theorem exec_callExt (lhs : List LHS) (f : String) (args : List Expr) :
    exec c (.callExt lhs f args) m env =
      bindR (evalArgs c m env args) fun vals =>
      bindR (c.ext f m vals) fun (m', rs) =>
      bindR (storeAll env lhs rs) fun env' => .norm m' env' := id rfl
@[cir] theorem exec_extCall (lhs : List LHS) (op : ExtN) (args : List Expr) :
    exec c (.extCall lhs op args) m env =
      bindR (evalArgs c m env args) fun vals =>
      bindR (extN c op vals) fun rs =>
      bindR (storeAll env lhs rs) fun env' => .norm m env' := id rfl
@[cir] theorem exec_allocRec (x : Nat) (tn : String) (fields : List Expr) :
    exec c (.allocRec x tn fields) m env =
      bindR (evalArgs c m env fields) fun vs =>
        if x < env.length then .norm m (env.set x (.recd tn vs)) else .stuck "no such slot" := id rfl
@[cir] theorem exec_ite (cnd : Expr) (t e : Stmt) :
    exec c (.ite cnd t e) m env =
      bindR (eval c m env cnd >>= asBool) fun b => if b then exec c t m env else exec c e m env := id rfl
theorem exec_for (cnd : Expr) (post body : Stmt) :
    exec c (.for_ cnd post body) m env =
      loop (fun m env => eval c m env cnd >>= asBool) (exec c body) (exec c post) c.fuel m env := id rfl
@[cir] theorem exec_bufWriteString (x : Nat) (e : Expr) :
    exec c (.bufWriteString x e) m env =
      bindR (eval c m env e) fun v =>
      bindR (lookup env x) fun b =>
        match b, v with
        | .builder buf, .str s => .norm m (env.set x (.builder (buf ++ s)))
        | _, _ => .stuck "WriteString on something that is not a strings.Builder / a string" := id rfl
@[cir] theorem exec_bufWriteByte (x : Nat) (e : Expr) :
    exec c (.bufWriteByte x e) m env =
      bindR (eval c m env e) fun v =>
      bindR (lookup env x) fun b =>
        match b, v with
        | .builder buf, .int ch =>
          if 0 ≤ ch ∧ ch < 256 then .norm m (env.set x (.builder (buf ++ [UInt8.ofNat ch.toNat])))
          else .stuck "WriteByte of a non-byte"
        | _, _ => .stuck "WriteByte on something that is not a strings.Builder" := id rfl
@[cir] theorem exec_reflectCopy (x : Nat) (e : Expr) :
    exec c (.reflectCopy x e) m env =
      bindR (eval c m env e) fun v =>
      bindR (lookup env x) fun b =>
        match b, v with
        | .bytes dst, .rv t (.bytes src) _ =>
          (match t.depth, t.kind with
           | 0, .byteArray _ => .norm m (env.set x (.bytes (copyBytes dst src)))
           | _, _ => .stuck "reflect.Copy from something that is not a byte array")
        | _, _ => .stuck "reflect.Copy on values the IR does not model" := id rfl
end rules

/-! ## Procedures -/

theorem execProc_eq (c : Ctx) (p : Proc) (m : Mem) (args : List Val) (hn : p.nparams = args.length) :
    execProc c p m args = procResult (exec c p.body m (args ++ List.replicate (p.nslots - p.nparams) .undef)) := by
  unfold execProc
  rw [if_neg (by omega)]

@[simp, cir] theorem procResult_ret (m : Mem) (vs : List Val) : procResult (.ret m vs) = .ok (m, vs) := id rfl
@[simp, cir] theorem procResult_norm (m : Mem) (env : Env) : procResult (.norm m env) = .ok (m, []) := id rfl
@[simp, cir] theorem procResult_panic : procResult .panic = .panic := id rfl
@[simp, cir] theorem procResult_stuck (w : String) : procResult (.stuck w) = .stuck w := id rfl

theorem callIn_succ (P : Program) (w : World) (d f : Nat) (m : Mem) (args : List Val) (p : Proc)
    (hp : P.procs[f]? = some p) :
    callIn P w (d + 1) f m args = execProc (w.ctx (callIn P w d)) p m args := by
  simp [callIn, hp]

/-! ## Loop shapes -/

theorem loop_false (cond : Mem → Env → Res Bool) (body post : Mem → Env → Out) (fuel : Nat) (m : Mem) (env : Env)
    (hc : cond m env = .ok false) : loop cond body post fuel m env = .norm m env := by
  unfold loop; simp [hc]

theorem loop_step (cond : Mem → Env → Res Bool) (body post : Mem → Env → Out) (fuel : Nat) (m : Mem) (env : Env)
    (hc : cond m env = .ok true) :
    loop cond body post (fuel + 1) m env = afterBody post (loop cond body post fuel) (body m env) := by
  rw [loop]; simp [hc]

@[simp, cir] theorem afterPost_norm (k : Mem → Env → Out) (m : Mem) (env : Env) : afterPost k (.norm m env) = k m env := id rfl
@[simp, cir] theorem afterPost_ret (k : Mem → Env → Out) (m : Mem) (vs : List Val) : afterPost k (.ret m vs) = .ret m vs := id rfl
@[simp, cir] theorem afterPost_panic (k : Mem → Env → Out) : afterPost k .panic = .panic := id rfl
@[simp, cir] theorem afterPost_stuck (k : Mem → Env → Out) (w : String) : afterPost k (.stuck w) = .stuck w := id rfl
@[simp, cir] theorem afterBody_norm (post k : Mem → Env → Out) (m : Mem) (env : Env) :
    afterBody post k (.norm m env) = afterPost k (post m env) := id rfl
@[simp, cir] theorem afterBody_cont (post k : Mem → Env → Out) (m : Mem) (env : Env) :
    afterBody post k (.cont m env) = afterPost k (post m env) := id rfl
@[simp, cir] theorem afterBody_brk (post k : Mem → Env → Out) (m : Mem) (env : Env) :
    afterBody post k (.brk m env) = .norm m env := id rfl
@[simp, cir] theorem afterBody_ret (post k : Mem → Env → Out) (m : Mem) (vs : List Val) :
    afterBody post k (.ret m vs) = .ret m vs := id rfl
@[simp, cir] theorem afterBody_panic (post k : Mem → Env → Out) : afterBody post k .panic = .panic := id rfl
@[simp, cir] theorem afterBody_stuck (post k : Mem → Env → Out) (w : String) : afterBody post k (.stuck w) = .stuck w := id rfl

/-! ## Statement accessors -/

namespace Stmt
def forCond : Stmt → Expr
  | .for_ c _ _ => c
  | _ => .unknown "not a loop"
def forPost : Stmt → Stmt
  | .for_ _ p _ => p
  | _ => .unknown "not a loop"
def forBody : Stmt → Stmt
  | .for_ _ _ b => b
  | _ => .unknown "not a loop"
/-- The chain without its first `n` statements. -/
def drop : Nat → Stmt → Stmt
  | 0, s => s
  | n + 1, .seq _ b => drop n b
  | _ + 1, _ => .skip
def head : Stmt → Stmt
  | .seq a _ => a
  | s => s
def take : Nat → Stmt → Stmt
  | 0, _ => .skip
  | n + 1, .seq a b => .seq a (take n b)
  | _ + 1, s => s
end Stmt

/-- Splitting a chain at position `n`. -/
theorem exec_take_drop (c : Ctx) (m : Mem) (env : Env) (n : Nat) (s : Stmt) :
    exec c s m env = (exec c (s.take n) m env).andThen (exec c (s.drop n)) := by
  induction n generalizing s m env with
  | zero => rfl
  | succ n ih =>
    cases s with
    | seq a b =>
      simp only [Stmt.take, Stmt.drop, exec]
      cases hx : exec c a m env <;> simp only [andThen_norm, andThen_brk, andThen_cont, andThen_ret, andThen_panic, andThen_stuck]
      exact ih _ _ _
    | _ => simp only [Stmt.take, Stmt.drop] <;> (cases hx : exec c _ m env <;> simp [exec, Out.andThen])

open GoCrypt.TIIR in
attribute [cir] pure_eq_ok ok_bind panic_bind stuck_bind
  List.getElem?_cons_succ List.getElem?_cons_zero List.set_cons_succ List.set_cons_zero
  List.length_cons List.length_nil List.length_set Int.toNat_natCast decide_true decide_false
  List.cons_append List.nil_append List.replicate_succ List.replicate_zero ne_eq not_true_eq_false not_false_eq_true
  Bool.not_true Bool.not_false Bool.true_eq_false Bool.false_eq_true if_true if_false
  natCast_add_ofNat natCast_add_natCast natCast_lt_natCast natCast_le_natCast natCast_eq_natCast natCast_eq_ofNat natCast_lt_ofNat
  if_pos if_neg decide_eq_true_eq Nat.zero_add Nat.add_zero
  List.set_set List.getElem?_set_self List.getElem?_set_ne
  ge_iff_le gt_iff_lt true_and and_true Bool.and_true Bool.true_and Bool.and_false Bool.false_and
  Bool.or_true Bool.true_or Bool.or_false Bool.false_or Bool.not_not

/-- `simp only` with the rules that run a codec-IR program (`cir`) and the literal-arithmetic simprocs. -/
syntax "ci_simp" (" [" Lean.Parser.Tactic.simpLemma,* "]")? (" at " ident)? : tactic
macro_rules
  | `(tactic| ci_simp) =>
    `(tactic| simp (disch := omega) only [cir, Int.reduceLE, Int.reduceLT, Int.reduceEq, Int.reduceNe, Int.reduceToNat, Int.reduceNeg, Int.reduceSub, Int.reduceAdd,
      Nat.reducePow, Nat.reduceEqDiff, Nat.reduceAdd, Nat.reduceLT, Nat.reduceSub, Nat.reduceMul, Nat.reduceLeDiff, ↓reduceIte])
  | `(tactic| ci_simp [$ls,*]) =>
    `(tactic| simp (disch := omega) only [cir, Int.reduceLE, Int.reduceLT, Int.reduceEq, Int.reduceNe, Int.reduceToNat, Int.reduceNeg, Int.reduceSub, Int.reduceAdd,
      Nat.reducePow, Nat.reduceEqDiff, Nat.reduceAdd, Nat.reduceLT, Nat.reduceSub, Nat.reduceMul, Nat.reduceLeDiff, ↓reduceIte, $ls,*])
  | `(tactic| ci_simp at $h:ident) =>
    `(tactic| simp (disch := omega) only [cir, Int.reduceLE, Int.reduceLT, Int.reduceEq, Int.reduceNe, Int.reduceToNat, Int.reduceNeg, Int.reduceSub, Int.reduceAdd,
      Nat.reducePow, Nat.reduceEqDiff, Nat.reduceAdd, Nat.reduceLT, Nat.reduceSub, Nat.reduceMul, Nat.reduceLeDiff, ↓reduceIte] at $h:ident)
  | `(tactic| ci_simp [$ls,*] at $h:ident) =>
    `(tactic| simp (disch := omega) only [cir, Int.reduceLE, Int.reduceLT, Int.reduceEq, Int.reduceNe, Int.reduceToNat, Int.reduceNeg, Int.reduceSub, Int.reduceAdd,
      Nat.reducePow, Nat.reduceEqDiff, Nat.reduceAdd, Nat.reduceLT, Nat.reduceSub, Nat.reduceMul, Nat.reduceLeDiff, ↓reduceIte, $ls,*] at $h:ident)

end GoCrypt.CIR
