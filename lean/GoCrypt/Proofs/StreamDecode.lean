import GoCrypt.Proofs.Stream
import GoCrypt.Proofs.Base64

/-! The `Decode`-level fact used by the streaming-decoder theorems (`DecodeOK`, `Proofs/Stream.lean`),
discharged from `WellFormed e` with the C16 lemma `decodeLoop_encode` (which is generic in the size
of the destination buffer). -/

namespace GoCrypt.Stream
open GoCrypt.Base64LE

/-- `Decode` of one-shot encoder output into a zeroed buffer of any length `L ≥ len y`: no error, and
the first `n` bytes of the buffer are `y`. -/
theorem decode_encode_any_len {e : Encoding} (wf : WellFormed e) (y : Bytes) (L : Nat) (hL : y.length ≤ L) :
    (decode e L (encode e y)).err = none ∧
      (decode e L (encode e y)).dst.toList.take (decode e L (encode e y)).n = y := by
  unfold decode
  by_cases hy : encode e y = []
  · have := GoCrypt.Stream.encode_eq_nil e y hy
    subst this
    simp [encode]
  · simp only [hy, if_false]
    obtain ⟨t', h⟩ := decodeLoop_encode wf y.length [] y (List.replicate L 0) 0 (Nat.le_refl _) rfl
      (by simpa using hL)
    simp only [encode, List.nil_append, List.length_nil] at h
    rw [← List.toArray_replicate, h]
    simp

theorem decodeOK_of_wellFormed {e : Encoding} (wf : WellFormed e) : DecodeOK e :=
  fun y L hL _ => decode_encode_any_len wf y L hL

end GoCrypt.Stream
