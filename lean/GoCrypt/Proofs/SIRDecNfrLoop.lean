import GoCrypt.Proofs.SIRDecNfr

/-!
# Stream IR, decoder side: the outer loop of `(*newlineFilteringReader).Read` and the whole method

Helper lemmas only; the property theorems are in `Props/SIRDecoder.lean`.
-/

namespace GoCrypt.SIR
open GoCrypt.B64IR (Buf Heap Slice Res sliceBytes writeList writeList_size writeList_append heap_set_self heap_lt_of_get)
open GoCrypt.Base64LE GoCrypt.Stream GoCrypt.Gen.base64leStream

/-! ## The model, unfolded one read at a time -/

/-- `filteredRead` after its first read returned `(st1, data, err)`. -/
def filtCont (want : Nat) (st1 : DecSt) (data : Bytes) (err : Option Err) (F : Nat) : DecSt × Bytes × Option Err :=
  if data.length > 0 then
    if (nfilt data).length > 0 then (st1, nfilt data, err) else st1.filteredRead want F
  else (st1, [], err)

theorem filteredRead_succ (st : DecSt) (want F : Nat) :
    st.filteredRead want (F + 1) = filtCont want (st.rawRead want).1 (st.rawRead want).2.1 (st.rawRead want).2.2 F := by
  rfl

/-- The caller's buffer after `newlineFilteringReader.Read` (window at `off`, `want` bytes long): every read lands at the
start of the window and is then compacted in place. -/
def nfrBuf (off want : Nat) : DecSt → Buf → Nat → Buf
  | _, B, 0 => B
  | st, B, F + 1 =>
    let r := st.rawRead want
    if 0 < r.2.1.length ∧ (nfilt r.2.1).length = 0 then nfrBuf off want r.1 (writeList B off r.2.1) F
    else writeList (writeList B off r.2.1) off (nfilt r.2.1)

/-- `nfrBuf` after its first read left `data` in the window of `B1`. -/
def bufCont (off want : Nat) (st1 : DecSt) (data : Bytes) (B1 : Buf) (F : Nat) : Buf :=
  if 0 < data.length ∧ (nfilt data).length = 0 then nfrBuf off want st1 B1 F else writeList B1 off (nfilt data)

theorem nfrBuf_succ (off want : Nat) (st : DecSt) (B : Buf) (F : Nat) :
    nfrBuf off want st B (F + 1) = bufCont off want (st.rawRead want).1 (st.rawRead want).2.1 (writeList B off (st.rawRead want).2.1) F := by
  rfl

/-! ## The outer loop -/

theorem nfrCond (W : World) (n : Nat) (v0 v1 ve v4 v5 v6 v7 v8 : Val) :
    (eval W [v0, v1, .int n, ve, v4, v5, v6, v7, v8] nfrFor.forCond >>= asBool) = .ok (decide (0 < n)) := by
  have h0 : ((0 : Int) < (n : Int)) = (0 < n) := by simp
  simp only [nfrFor, Stmt.forCond, Stmt.head, Stmt.drop, nfrReadIR]
  b64_simp [h0]

theorem nfrTail_run (c : Ctx) (W : World) (n : Nat) (e : Option Nat) (v0 v1 v4 v5 v6 v7 v8 : Val) :
    exec c nfrTail W [v0, v1, .int n, .err e, v4, v5, v6, v7, v8] = .ret W [.int n, .err e] := by
  simp only [nfrTail, Stmt.drop, nfrReadIR]
  b64_simp []

theorem nfrLoop_run (c : Ctx) (O : List Obj) (nf k bp off want cap : Nat)
    (ho : O[nf]? = some (nfrObj k)) (hcap : want ≤ cap) (hw : want < 2 ^ 62) :
    ∀ (fuel F : Nat) (st1 : DecSt) (data : Bytes) (err : Option Err) (B1 : Buf) (H : Heap) (X : List Ext) (v4 v5 v6 v7 v8 : Val),
      X[k]? = some (readerOf st1) → H[bp]? = some B1 → off + want ≤ B1.size → data.length ≤ want →
      (∀ i (h : i < data.length), B1[off + i]? = some data[i]) →
      (0 < data.length → st1.pending + 1 ≤ F ∧ st1.pending + 1 ≤ fuel) →
      procResult ((loop (fun W env => eval W env nfrFor.forCond >>= asBool) (exec c nfrBody) (exec c .skip) fuel ⟨H, O, X⟩
          [.ptr nf, .slice ⟨bp, off, want, cap⟩, .int data.length, .err err, v4, v5, v6, v7, v8]).andThen (exec c nfrTail)) =
        .ok (⟨H.set bp (bufCont off want st1 data B1 F), O, X.set k (readerOf (filtCont want st1 data err F).1)⟩,
          [.int (filtCont want st1 data err F).2.1.length, .err (filtCont want st1 data err F).2.2]) := by
  have hexit : ∀ (fuel F : Nat) (st1 : DecSt) (data : Bytes) (err : Option Err) (B1 : Buf) (H : Heap) (X : List Ext) (v4 v5 v6 v7 v8 : Val),
      X[k]? = some (readerOf st1) → H[bp]? = some B1 → ¬ 0 < data.length →
      procResult ((loop (fun W env => eval W env nfrFor.forCond >>= asBool) (exec c nfrBody) (exec c .skip) fuel ⟨H, O, X⟩
          [.ptr nf, .slice ⟨bp, off, want, cap⟩, .int data.length, .err err, v4, v5, v6, v7, v8]).andThen (exec c nfrTail)) =
        .ok (⟨H.set bp (bufCont off want st1 data B1 F), O, X.set k (readerOf (filtCont want st1 data err F).1)⟩,
          [.int (filtCont want st1 data err F).2.1.length, .err (filtCont want st1 data err F).2.2]) := by
    intro fuel F st1 data err B1 H X v4 v5 v6 v7 v8 hk hb hd
    have hnil : data = [] := List.eq_nil_of_length_eq_zero (by omega)
    subst hnil
    rw [loop_false _ _ _ _ _ _ (by rw [nfrCond]; rfl), andThen_norm, nfrTail_run]
    simp [filtCont, bufCont, nfilt, writeList, heap_set_self H bp B1 hb, list_set_self X k _ hk]
  intro fuel
  induction fuel with
  | zero =>
    intro F st1 data err B1 H X v4 v5 v6 v7 v8 hk hb hin hn hwin hfu
    by_cases hd : 0 < data.length
    · have := hfu hd; omega
    · exact hexit 0 F st1 data err B1 H X v4 v5 v6 v7 v8 hk hb hd
  | succ fuel ih =>
    intro F st1 data err B1 H X v4 v5 v6 v7 v8 hk hb hin hn hwin hfu
    by_cases hd : 0 < data.length
    · obtain ⟨hF, hfuel⟩ := hfu hd
      rw [loop_step _ _ _ _ _ _ (by rw [nfrCond]; exact congrArg _ (decide_eq_true hd))]
      by_cases hf : 0 < (nfilt data).length
      · rw [nfrBody_ret c H O X bp off want cap B1 data _ v4 v5 v6 v7 v8 err hb hin hn hcap hw hwin hf, afterBody_ret,
          procResult_andThen_ret]
        have hf' : ¬ (nfilt data).length = 0 := by omega
        simp [filtCont, bufCont, hd, hf, hf', list_set_self X k _ hk]
      · have hf0 : (nfilt data).length = 0 := by omega
        rw [nfrBody_again c H O X nf k bp off want cap B1 data st1 v4 v5 v6 v7 v8 err ho hk hb hin hn hcap hw hwin hf0,
          afterBody_norm, exec_skip, afterPost_norm]
        cases F with
        | zero => omega
        | succ F =>
          have hbl := heap_lt_of_get hb
          have hkl := lt_of_getElem? hk
          have hlen := rawRead_length_le st1 want
          have := ih F (st1.rawRead want).1 (st1.rawRead want).2.1 (st1.rawRead want).2.2 (writeList B1 off (st1.rawRead want).2.1)
            (H.set bp (writeList B1 off (st1.rawRead want).2.1)) (X.set k (readerOf (st1.rawRead want).1)) (.int (0 : Nat))
            (nfrV5 v5 data.length) (nfrV6 v6 data data.length) (.slice ⟨bp, off, data.length, cap⟩) (.int data.length)
            (List.getElem?_set_self hkl) (List.getElem?_set_self hbl) (by rw [writeList_size]; exact hin) hlen
            (fun i h => by
              rw [writeList_getElem?_in B1 off _ i h (by omega)]; exact List.getElem?_eq_getElem h)
            (fun h => by have := rawRead_pending_lt_of_data st1 want h; omega)
          have e1 : filtCont want st1 data err (F + 1) =
              filtCont want (st1.rawRead want).1 (st1.rawRead want).2.1 (st1.rawRead want).2.2 F := by
            rw [filtCont, if_pos hd, if_neg hf, filteredRead_succ]
          have e2 : bufCont off want st1 data B1 (F + 1) =
              bufCont off want (st1.rawRead want).1 (st1.rawRead want).2.1 (writeList B1 off (st1.rawRead want).2.1) F := by
            rw [bufCont, if_pos ⟨hd, hf0⟩, nfrBuf_succ]
          rw [this, List.set_set, List.set_set, e1, e2]
    · exact hexit _ F st1 data err B1 H X v4 v5 v6 v7 v8 hk hb hd

/-! ## The whole method -/

theorem nfrFirst_run (c : Ctx) (H : Heap) (O : List Obj) (X : List Ext) (nf k bp off want cap : Nat) (B : Buf) (st : DecSt)
    (ho : O[nf]? = some (nfrObj k)) (hk : X[k]? = some (readerOf st))
    (hb : H[bp]? = some B) (hin : off + want ≤ B.size) :
    exec c nfrFirst ⟨H, O, X⟩ ([.ptr nf, .slice ⟨bp, off, want, cap⟩] ++ List.replicate 7 .undef) =
      .norm ⟨H.set bp (writeList B off (st.rawRead want).2.1), O, X.set k (readerOf (st.rawRead want).1)⟩
        [.ptr nf, .slice ⟨bp, off, want, cap⟩, .int (st.rawRead want).2.1.length, .err (st.rawRead want).2.2,
          .undef, .undef, .undef, .undef, .undef] := by
  have hx := extRead_rawRead H O X k st ⟨bp, off, want, cap⟩ B hk hb hin
  simp only [nfrFirst, Stmt.head, nfrReadIR]
  b64_simp [ho, nfrObj, hx]

/-- `newlineFilteringReader.Read(p)` for any meaning of calls: the IR never calls a function here, it only calls the
external reader. -/
theorem nfrRead_proc (c : Ctx) (H : Heap) (O : List Obj) (X : List Ext) (nf k bp off want cap : Nat) (B : Buf) (st : DecSt)
    (F : Nat) (ho : O[nf]? = some (nfrObj k)) (hk : X[k]? = some (readerOf st))
    (hb : H[bp]? = some B) (hin : off + want ≤ B.size) (hcap : want ≤ cap) (hw : want < 2 ^ 62) (hF : st.pending + 2 ≤ F) :
    execProc c nfrReadIR ⟨H, O, X⟩ [.ptr nf, .slice ⟨bp, off, want, cap⟩] =
      .ok (⟨H.set bp (nfrBuf off want st B F), O, X.set k (readerOf (st.filteredRead want F).1)⟩,
        [.int (st.filteredRead want F).2.1.length, .err (st.filteredRead want F).2.2]) := by
  obtain ⟨F, rfl⟩ : ∃ F', F = F' + 1 := ⟨F - 1, by omega⟩
  have hbl := heap_lt_of_get hb
  have hkl := lt_of_getElem? hk
  have hlen := rawRead_length_le st want
  have hple := rawRead_pending_le st want
  rw [execProc_eq c nfrReadIR _ _ rfl, nfr_split]
  show procResult ((exec c nfrFirst ⟨H, O, X⟩ ([.ptr nf, .slice ⟨bp, off, want, cap⟩] ++ List.replicate 7 .undef)).andThen
    fun W env => (exec c nfrFor W env).andThen (exec c nfrTail)) = _
  rw [nfrFirst_run c H O X nf k bp off want cap B st ho hk hb hin, andThen_norm, nfrFor_eq, exec_for]
  have hfuel : (eval ⟨H.set bp (writeList B off (st.rawRead want).2.1), O, X.set k (readerOf (st.rawRead want).1)⟩
        [.ptr nf, .slice ⟨bp, off, want, cap⟩, .int (st.rawRead want).2.1.length, .err (st.rawRead want).2.2,
          .undef, .undef, .undef, .undef, .undef] nfrFor.forFuel >>= asInt) =
      .ok ((1 + want + 0 + pendingAll (X.set k (readerOf (st.rawRead want).1)) : Nat) : Int) := by
    simp only [nfrFor, Stmt.forFuel, Stmt.head, Stmt.drop, nfrReadIR]
    b64_simp []
    rfl
  rw [hfuel, bindR_ok, Int.toNat_natCast]
  have hpend := pendingAll_ge (X.set k (readerOf (st.rawRead want).1)) k _ (List.getElem?_set_self hkl)
  rw [pending_readerOf] at hpend
  have := nfrLoop_run c O nf k bp off want cap ho hcap hw (1 + want + 0 + pendingAll (X.set k (readerOf (st.rawRead want).1))) F
    (st.rawRead want).1 (st.rawRead want).2.1 (st.rawRead want).2.2 (writeList B off (st.rawRead want).2.1)
    (H.set bp (writeList B off (st.rawRead want).2.1)) (X.set k (readerOf (st.rawRead want).1)) .undef .undef .undef .undef .undef
    (List.getElem?_set_self hkl) (List.getElem?_set_self hbl) (by rw [writeList_size]; exact hin) hlen
    (fun i h => by rw [writeList_getElem?_in B off _ i h (by omega)]; exact List.getElem?_eq_getElem h)
    (fun _ => by omega)
  rw [this, List.set_set, List.set_set, ← filteredRead_succ, ← nfrBuf_succ]

/-! ## What the method leaves in the caller's buffer -/

theorem nfrBuf_size (off want : Nat) (st : DecSt) (B : Buf) (F : Nat) : (nfrBuf off want st B F).size = B.size := by
  induction F generalizing st B with
  | zero => rfl
  | succ F ih =>
    rw [nfrBuf_succ, bufCont]
    split
    · rw [ih, writeList_size]
    · rw [writeList_size, writeList_size]

/-- Bytes outside the window are not touched. -/
theorem nfrBuf_outside (off want : Nat) (st : DecSt) (B : Buf) (F : Nat) (i : Nat) (hi : i < off ∨ off + want ≤ i) :
    (nfrBuf off want st B F)[i]? = B[i]? := by
  induction F generalizing st B with
  | zero => rfl
  | succ F ih =>
    have hlen := rawRead_length_le st want
    have hfl := nfilt_length_le (st.rawRead want).2.1
    rw [nfrBuf_succ, bufCont]
    split
    · rw [ih, writeList_getElem?_out _ _ _ _ (by omega)]
    · rw [writeList_getElem?_out _ _ _ _ (by omega), writeList_getElem?_out _ _ _ _ (by omega)]

/-- The returned bytes are at the start of the window. -/
theorem nfrBuf_window (off want : Nat) (st : DecSt) (B : Buf) (F : Nat) (hin : off + want ≤ B.size) :
    ((nfrBuf off want st B F).toList.drop off).take (st.filteredRead want F).2.1.length = (st.filteredRead want F).2.1 := by
  induction F generalizing st B with
  | zero => rfl
  | succ F ih =>
    have hlen := rawRead_length_le st want
    have hfl := nfilt_length_le (st.rawRead want).2.1
    rw [nfrBuf_succ, bufCont, filteredRead_succ, filtCont]
    by_cases hd : 0 < (st.rawRead want).2.1.length
    · by_cases hf : 0 < (nfilt (st.rawRead want).2.1).length
      · have hc : ¬ (0 < (st.rawRead want).2.1.length ∧ (nfilt (st.rawRead want).2.1).length = 0) := by omega
        rw [if_neg hc, if_pos hd, if_pos hf]
        show List.take (nfilt _).length _ = nfilt _
        exact window_writeList _ off _ (by rw [writeList_size]; omega)
      · have hc : 0 < (st.rawRead want).2.1.length ∧ (nfilt (st.rawRead want).2.1).length = 0 := by omega
        rw [if_pos hc, if_pos hd, if_neg hf]
        exact ih _ _ (by rw [writeList_size]; exact hin)
    · rw [if_neg hd]
      rfl

theorem filteredRead_length_le (st : DecSt) (want F : Nat) : (st.filteredRead want F).2.1.length ≤ want := by
  induction F generalizing st with
  | zero => simp [DecSt.filteredRead]
  | succ F ih =>
    have hlen := rawRead_length_le st want
    have hfl := nfilt_length_le (st.rawRead want).2.1
    rw [filteredRead_succ, filtCont]
    split
    · split
      · show (nfilt _).length ≤ want
        omega
      · exact ih _
    · simp

/-- With enough fuel the model's result does not depend on the fuel. -/
theorem filteredRead_fuel (st : DecSt) (want F1 F2 : Nat) (h1 : st.pending + 1 ≤ F1) (h2 : st.pending + 1 ≤ F2) :
    st.filteredRead want F1 = st.filteredRead want F2 := by
  induction F1 generalizing st F2 with
  | zero => omega
  | succ F1 ih =>
    obtain ⟨F2, rfl⟩ : ∃ F', F2 = F' + 1 := ⟨F2 - 1, by omega⟩
    rw [filteredRead_succ, filteredRead_succ, filtCont, filtCont]
    by_cases hd : 0 < (st.rawRead want).2.1.length
    · have := rawRead_pending_lt_of_data st want hd
      rw [if_pos hd, if_pos hd]
      split
      · rfl
      · exact ih _ _ (by omega) (by omega)
    · rw [if_neg hd, if_neg hd]

end GoCrypt.SIR
