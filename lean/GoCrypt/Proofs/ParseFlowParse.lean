import GoCrypt.Proofs.ParseFlowLex

/-!
# The regenerated `Parse` against `Parse.parseToks` / `Parse.parse` (`Model/Parse.lean`)

One iteration of the `for` loop per kind of token (symbolic execution on an abstract heap), the
representation invariant between heap and model state, then the loop by induction on the tokens.
-/

namespace GoCrypt.SFlowVal2
open GoCrypt GoCrypt.Flow GoCrypt.SFlow GoCrypt.SFlow2 GoCrypt.SFlowVal GoCrypt.Parse

/-- The body of `Parse`'s loop, as regenerated. -/
def parseBody : List PStmt :=
  match Gen.hash_parse.parseFlow.body with
  | [_, _, _, _, .loop _ _ _ _ b, _] => b
  | _ => []

/-- The shape of the regenerated `Parse`: allocate the tree, `lex`, two nil variables, the loop
labelled `L1` (no init, no condition, no post statement), `return tree, nil`. -/
theorem parseFlow_body : Gen.hash_parse.parseFlow.body =
    [.define ["v1"] (.un "()" (.fn "new:Tree")),
     .define ["v2"] (.app (.fn "lex") (.var "p1")),
     .declare "v3" "*GroupNode",
     .declare "v4" "*ValueNode",
     .loop "L1" [] none [] parseBody,
     .ret [.var "v1", .const "nil"]] := rfl

/-- The function's scope inside the loop: `value`, `group`, `l`, `tree`, `hash`. -/
def pframe (s : Bytes) (gv vv : Val PVal) : Frame PVal :=
  [("v4", vv), ("v3", gv), ("v2", .ext (.ptr 1)), ("v1", .ext (.ptr 0)), ("p1", .str s)]

/-- …under the (empty) scope of the `for` statement. -/
def penv (s : Bytes) (gv vv : Val PVal) : Env PVal := [[], pframe s gv vv]

/-- The state: heap `H`, the lexer's channel closed and holding `buf`. -/
def PS (H : List Obj) (buf : List GoToken) : PSt := ⟨H, [⟨buf, true⟩]⟩

/-- `l.NextToken()` with a token waiting. -/
theorem nextToken_cons (fuel : Nat) (H : List Obj) (s : Bytes) (pos start : Int) (t : GoToken) (r : List GoToken)
    (hlex : lget H 1 = some (lexObj s pos start 0)) :
    (pp4 fuel).call "(*lexer).NextToken" [.ext (.ptr 1)] (PS H (t :: r)) = .ok (.ext (.token t), PS H r) := by
  rw [pp4_call]
  simp [sflowval, Gen.hash_parse.lexerNextTokenFlow, PS, pp0_readField_ptr, hlex, lexObj, pp0_call_recv, lget, lset]

/-- `l.NextToken()` on the closed, drained channel: the zero token. -/
theorem nextToken_nil (fuel : Nat) (H : List Obj) (s : Bytes) (pos start : Int)
    (hlex : lget H 1 = some (lexObj s pos start 0)) :
    (pp4 fuel).call "(*lexer).NextToken" [.ext (.ptr 1)] (PS H []) = .ok (.ext (.token zeroToken), PS H []) := by
  rw [pp4_call]
  simp [sflowval, Gen.hash_parse.lexerNextTokenFlow, PS, pp0_readField_ptr, hlex, lexObj, pp0_call_recv, lget]

@[sflowval] theorem tokenField_Type (t : GoToken) : tokenField t "Type" = some (.int t.ty) := rfl
@[sflowval] theorem tokenField_Pos (t : GoToken) : tokenField t "Pos" = some (.int t.pos) := rfl
@[sflowval] theorem tokenField_Value (t : GoToken) : tokenField t "Value" = some (.str t.value) := rfl

theorem pp0_new_ValueNode (args : List (Val PVal)) (st : PSt) : pp0.call "new:ValueNode" args st =
    match newObj "ValueNode" args with
    | some o => .ok (.ext (.ptr st.heap.length), { st with heap := st.heap ++ [o] })
    | none => .stuck ("composite literal " ++ "new:ValueNode") := rfl
theorem newObj_ValueNode (v : Bytes) (p e : Int) :
    newObj "ValueNode" [.kv "Value" (.str v), .kv "pos" (.int p), .kv "end" (.int e)] =
      some ("ValueNode", [("Value", .str v), ("pos", .int p), ("end", .int e)]) := rfl

/-- A value token: a new `ValueNode` becomes the pending value. -/
theorem iter_value (fuel n : Nat) (H : List Obj) (s : Bytes) (pos start : Int) (r : List GoToken)
    (gv vv : Val PVal) (p : Nat) (v : Bytes)
    (hlex : lget H 1 = some (lexObj s pos start 0)) :
    loopOf (pp4 fuel) fuel "L1" none [] parseBody (n + 1) (penv s gv vv) (PS H (goTok (.value p v) :: r)) =
      loopOf (pp4 fuel) fuel "L1" none [] parseBody n (penv s gv (.ext (.ptr H.length)))
        (PS (H ++ [("ValueNode", [("Value", .str v), ("pos", .int p), ("end", .int ((p : Int) + (v.length : Int)))])]) r) := by
  rw [loopOf_succ]
  have hn := nextToken_cons fuel H s pos start (goTok (.value p v)) r hlex
  simp only [PS, goTok] at hn
  have hcall : ∀ args st, (pp4 fuel).call "new:ValueNode" args st = pp0.call "new:ValueNode" args st := fun _ _ => rfl
  simp [sflowval, parseBody, Gen.hash_parse.parseFlow, penv, pframe, hn, goTok, hcall, pp0_new_ValueNode, newObj_ValueNode, PS]

theorem pp4_call_append (fuel : Nat) (args : List (Val PVal)) (st : PSt) :
    (pp4 fuel).call "append" args st = pp0.call "append" args st := rfl

theorem pp4_new_PrefixNode (fuel : Nat) (args : List (Val PVal)) (st : PSt) : (pp4 fuel).call "new:PrefixNode" args st =
    match newObj "PrefixNode" args with
    | some o => .ok (.ext (.ptr st.heap.length), { st with heap := st.heap ++ [o] })
    | none => .stuck ("composite literal " ++ "new:PrefixNode") := rfl
theorem newObj_PrefixNode (v : Bytes) (e : Int) :
    newObj "PrefixNode" [.kv "Text" (.str v), .kv "end" (.int e)] =
      some ("PrefixNode", [("Text", .str v), ("end", .int e)]) := rfl
theorem pp4_new_GroupNode (fuel : Nat) (args : List (Val PVal)) (st : PSt) : (pp4 fuel).call "new:GroupNode" args st =
    match newObj "GroupNode" args with
    | some o => .ok (.ext (.ptr st.heap.length), { st with heap := st.heap ++ [o] })
    | none => .stuck ("composite literal " ++ "new:GroupNode") := rfl
theorem newObj_GroupNode : newObj "GroupNode" [] = some ("GroupNode", [("Values", .nil)]) := rfl
theorem pp4_new_SyntaxError (fuel : Nat) (args : List (Val PVal)) (st : PSt) : (pp4 fuel).call "new:SyntaxError" args st =
    match newObj "SyntaxError" args with
    | some o => .ok (.ext (.ptr st.heap.length), { st with heap := st.heap ++ [o] })
    | none => .stuck ("composite literal " ++ "new:SyntaxError") := rfl
theorem newObj_SyntaxError (o : Int) (m : Bytes) :
    newObj "SyntaxError" [.kv "Offset" (.int o), .kv "Msg" (.str m)] =
      some ("SyntaxError", [("Offset", .int o), ("Msg", .str m)]) := rfl

/-- The `Tree` object. -/
def treeObj (pv fv : Val PVal) : Obj := ("Tree", [("Prefix", pv), ("Fragments", fv)])
/-- A `GroupNode` object. -/
def groupObj (sl : Val PVal) : Obj := ("GroupNode", [("Values", sl)])

/-- A prefix token: a new `PrefixNode` becomes `tree.Prefix`. -/
theorem iter_prefix (fuel n : Nat) (H H2 : List Obj) (s : Bytes) (pos start : Int) (r : List GoToken)
    (gv vv pv fv : Val PVal) (p : Nat) (v : Bytes)
    (hlex : lget H 1 = some (lexObj s pos start 0))
    (h0 : lget H 0 = some (treeObj pv fv))
    (hset : lset (H ++ [("PrefixNode", [("Text", .str v), ("end", .int (v.length : Int))])]) 0
      (treeObj (.ext (.ptr H.length)) fv) = some H2) :
    loopOf (pp4 fuel) fuel "L1" none [] parseBody (n + 1) (penv s gv vv) (PS H (goTok (.pfx p v) :: r)) =
      loopOf (pp4 fuel) fuel "L1" none [] parseBody n (penv s gv vv) (PS H2 r) := by
  rw [loopOf_succ]
  have hn := nextToken_cons fuel H s pos start (goTok (.pfx p v)) r hlex
  simp only [PS, goTok] at hn
  have h0' := lget_append_left H 0 _ ("PrefixNode", [("Text", Val.str v), ("end", Val.int (v.length : Int))]) h0
  simp only [treeObj] at h0' hset
  simp [sflowval, parseBody, Gen.hash_parse.parseFlow, penv, pframe, hn, goTok, pp4_new_PrefixNode, newObj_PrefixNode, PS,
    pp0_writeField_ptr, h0', hset]

/-- A comma with no pending group: a new `GroupNode` holding the pending value. -/
theorem iter_comma_new (fuel n : Nat) (H : List Obj) (s : Bytes) (pos start : Int) (r : List GoToken)
    (a : Nat) (p : Nat)
    (hlex : lget H 1 = some (lexObj s pos start 0)) :
    loopOf (pp4 fuel) fuel "L1" none [] parseBody (n + 1) (penv s .nil (.ext (.ptr a))) (PS H (goTok (.comma p) :: r)) =
      loopOf (pp4 fuel) fuel "L1" none [] parseBody n (penv s (.ext (.ptr H.length)) .nil)
        (PS (H ++ [groupObj (.ext (.slice [some a]))]) r) := by
  rw [loopOf_succ]
  have hn := nextToken_cons fuel H s pos start (goTok (.comma p)) r hlex
  simp only [PS, goTok] at hn
  simp [sflowval, parseBody, Gen.hash_parse.parseFlow, penv, pframe, hn, goTok, pp4_new_GroupNode, newObj_GroupNode, PS,
    pp0_writeField_ptr, pp0_readField_ptr, pp4_call_append, sliceOf, sliceElem, groupObj]

/-- A comma with a pending group: the pending value joins it. -/
theorem iter_comma_old (fuel n : Nat) (H H2 : List Obj) (s : Bytes) (pos start : Int) (r : List GoToken)
    (g a : Nat) (xs : List (Option Nat)) (p : Nat)
    (hlex : lget H 1 = some (lexObj s pos start 0))
    (hg : lget H g = some (groupObj (.ext (.slice xs))))
    (hset : lset H g (groupObj (.ext (.slice (xs ++ [some a])))) = some H2) :
    loopOf (pp4 fuel) fuel "L1" none [] parseBody (n + 1) (penv s (.ext (.ptr g)) (.ext (.ptr a))) (PS H (goTok (.comma p) :: r)) =
      loopOf (pp4 fuel) fuel "L1" none [] parseBody n (penv s (.ext (.ptr g)) .nil) (PS H2 r) := by
  rw [loopOf_succ]
  have hn := nextToken_cons fuel H s pos start (goTok (.comma p)) r hlex
  simp only [PS, goTok] at hn
  simp only [groupObj] at hg hset
  simp [sflowval, parseBody, Gen.hash_parse.parseFlow, penv, pframe, hn, goTok, PS,
    pp0_writeField_ptr, pp0_readField_ptr, pp4_call_append, sliceElem, sliceOf, hg, hset]

/-- `tree.Fragments` is nil (no fragment yet) or a slice. -/
def FragsVal (fv : Val PVal) (fs : List (Option Nat)) : Prop :=
  (fv = .nil ∧ fs = []) ∨ fv = .ext (.slice fs)

/-- What follows the flush of a `$` (type 2: next iteration) or EOF (type 5: `break Loop`) token. -/
def afterFlush (fuel n : Nat) (ty : Int) (s : Bytes) (H : List Obj) (r : List GoToken) : Flow2 PSt PVal :=
  if ty = 5 then .next (penv s .nil .nil) (PS H r)
  else loopOf (pp4 fuel) fuel "L1" none [] parseBody n (penv s .nil .nil) (PS H r)

/-- `$` / EOF with a pending value and a pending group: the value joins the group, the group becomes a
fragment. -/
theorem iter_flush_vg (fuel n : Nat) (H H1 H2 : List Obj) (s : Bytes) (pos start : Int) (r : List GoToken)
    (pv fv : Val PVal) (g a : Nat) (xs fs : List (Option Nat)) (ty p : Int) (txt : Bytes)
    (hty : ty = 2 ∨ ty = 5)
    (hlex : lget H 1 = some (lexObj s pos start 0))
    (hg : lget H g = some (groupObj (.ext (.slice xs))))
    (hset1 : lset H g (groupObj (.ext (.slice (xs ++ [some a])))) = some H1)
    (h0 : lget H1 0 = some (treeObj pv fv)) (hfv : FragsVal fv fs)
    (hset2 : lset H1 0 (treeObj pv (.ext (.slice (fs ++ [some g])))) = some H2) :
    loopOf (pp4 fuel) fuel "L1" none [] parseBody (n + 1) (penv s (.ext (.ptr g)) (.ext (.ptr a))) (PS H (⟨ty, p, txt⟩ :: r)) =
      afterFlush fuel n ty s H2 r := by
  rw [loopOf_succ]
  have hn := nextToken_cons fuel H s pos start ⟨ty, p, txt⟩ r hlex
  simp only [PS] at hn
  simp only [groupObj, treeObj] at hg hset1 h0 hset2
  rcases hfv with ⟨rfl, rfl⟩ | rfl <;> rcases hty with rfl | rfl <;> (try simp only [List.nil_append] at hset2) <;>
    simp [sflowval, parseBody, Gen.hash_parse.parseFlow, penv, pframe, hn, PS, afterFlush,
      pp0_writeField_ptr, pp0_readField_ptr, pp4_call_append, sliceElem, sliceOf, hg, hset1, h0, hset2]

/-- `$` / EOF with a pending value and no group: the value becomes a fragment. -/
theorem iter_flush_v (fuel n : Nat) (H H2 : List Obj) (s : Bytes) (pos start : Int) (r : List GoToken)
    (pv fv : Val PVal) (a : Nat) (fs : List (Option Nat)) (ty p : Int) (txt : Bytes)
    (hty : ty = 2 ∨ ty = 5)
    (hlex : lget H 1 = some (lexObj s pos start 0))
    (h0 : lget H 0 = some (treeObj pv fv)) (hfv : FragsVal fv fs)
    (hset : lset H 0 (treeObj pv (.ext (.slice (fs ++ [some a])))) = some H2) :
    loopOf (pp4 fuel) fuel "L1" none [] parseBody (n + 1) (penv s .nil (.ext (.ptr a))) (PS H (⟨ty, p, txt⟩ :: r)) =
      afterFlush fuel n ty s H2 r := by
  rw [loopOf_succ]
  have hn := nextToken_cons fuel H s pos start ⟨ty, p, txt⟩ r hlex
  simp only [PS] at hn
  simp only [treeObj] at h0 hset
  rcases hfv with ⟨rfl, rfl⟩ | rfl <;> rcases hty with rfl | rfl <;> (try simp only [List.nil_append] at hset) <;>
    simp [sflowval, parseBody, Gen.hash_parse.parseFlow, penv, pframe, hn, PS, afterFlush,
      pp0_writeField_ptr, pp0_readField_ptr, pp4_call_append, sliceElem, sliceOf, h0, hset]

/-- `$` / EOF with no pending value but a pending group (the value before was closed by a comma): the
group becomes a fragment. -/
theorem iter_flush_g (fuel n : Nat) (H H2 : List Obj) (s : Bytes) (pos start : Int) (r : List GoToken)
    (pv fv : Val PVal) (g : Nat) (fs : List (Option Nat)) (ty p : Int) (txt : Bytes)
    (hty : ty = 2 ∨ ty = 5)
    (hlex : lget H 1 = some (lexObj s pos start 0))
    (h0 : lget H 0 = some (treeObj pv fv)) (hfv : FragsVal fv fs)
    (hset : lset H 0 (treeObj pv (.ext (.slice (fs ++ [some g])))) = some H2) :
    loopOf (pp4 fuel) fuel "L1" none [] parseBody (n + 1) (penv s (.ext (.ptr g)) .nil) (PS H (⟨ty, p, txt⟩ :: r)) =
      afterFlush fuel n ty s H2 r := by
  rw [loopOf_succ]
  have hn := nextToken_cons fuel H s pos start ⟨ty, p, txt⟩ r hlex
  simp only [PS] at hn
  simp only [treeObj] at h0 hset
  rcases hfv with ⟨rfl, rfl⟩ | rfl <;> rcases hty with rfl | rfl <;> (try simp only [List.nil_append] at hset) <;>
    simp [sflowval, parseBody, Gen.hash_parse.parseFlow, penv, pframe, hn, PS, afterFlush,
      pp0_writeField_ptr, pp0_readField_ptr, pp4_call_append, sliceElem, sliceOf, h0, hset]

/-- `$` / EOF with nothing pending. -/
theorem iter_flush_none (fuel n : Nat) (H : List Obj) (s : Bytes) (pos start : Int) (r : List GoToken)
    (ty p : Int) (txt : Bytes)
    (hty : ty = 2 ∨ ty = 5)
    (hlex : lget H 1 = some (lexObj s pos start 0)) :
    loopOf (pp4 fuel) fuel "L1" none [] parseBody (n + 1) (penv s .nil .nil) (PS H (⟨ty, p, txt⟩ :: r)) =
      afterFlush fuel n ty s H r := by
  rw [loopOf_succ]
  have hn := nextToken_cons fuel H s pos start ⟨ty, p, txt⟩ r hlex
  simp only [PS] at hn
  rcases hty with rfl | rfl <;>
    simp [sflowval, parseBody, Gen.hash_parse.parseFlow, penv, pframe, hn, PS, afterFlush]

/-- An error token: `Parse` returns `nil, &SyntaxError{Offset: pos, Msg: text}`. -/
theorem iter_error (fuel n : Nat) (H : List Obj) (s : Bytes) (pos start : Int) (r : List GoToken)
    (gv vv : Val PVal) (p : Int) (txt : Bytes)
    (hlex : lget H 1 = some (lexObj s pos start 0)) :
    loopOf (pp4 fuel) fuel "L1" none [] parseBody (n + 1) (penv s gv vv) (PS H (⟨0, p, txt⟩ :: r)) =
      .ret [.nil, .ext (.ptr H.length)] (PS (H ++ [("SyntaxError", [("Offset", .int p), ("Msg", .str txt)])]) r) := by
  rw [loopOf_succ]
  have hn := nextToken_cons fuel H s pos start ⟨0, p, txt⟩ r hlex
  simp only [PS] at hn
  simp [sflowval, parseBody, Gen.hash_parse.parseFlow, penv, pframe, hn, PS, pp4_new_SyntaxError, newObj_SyntaxError]

/-- The channel closed and drained: the zero token, which is an error token at offset 0 with an
empty message. -/
theorem iter_closed (fuel n : Nat) (H : List Obj) (s : Bytes) (pos start : Int)
    (gv vv : Val PVal)
    (hlex : lget H 1 = some (lexObj s pos start 0)) :
    loopOf (pp4 fuel) fuel "L1" none [] parseBody (n + 1) (penv s gv vv) (PS H []) =
      .ret [.nil, .ext (.ptr H.length)] (PS (H ++ [("SyntaxError", [("Offset", .int 0), ("Msg", .str [])])]) []) := by
  rw [loopOf_succ]
  have hn := nextToken_nil fuel H s pos start hlex
  simp only [PS, zeroToken] at hn
  simp [sflowval, parseBody, Gen.hash_parse.parseFlow, penv, pframe, hn, PS, pp4_new_SyntaxError, newObj_SyntaxError]

end GoCrypt.SFlowVal2
