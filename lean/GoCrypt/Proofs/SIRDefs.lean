import GoCrypt.Gen.StreamIR
import GoCrypt.Proofs.SIRBase
import GoCrypt.Proofs.B64IRTop

/-!
# Stream IR of `hash/base64le`: how the model's `Encoding` sits in the object store, and the library

`EncAt H O a b1 b2 e`: object number `a` is the Go struct `Encoding` of the model encoding `e` — its
`encode` array is heap buffer `b1` (the alphabet), its `decodeMap` array is heap buffer `b2` (the
256-entry table of `decodeMapOf`), `padChar` is `-1` or the padding byte, `strict` the flag. Read out of
the store (`toB`) such an object is exactly the `encVal e` the buffer-IR theorems speak about.
Helper definitions and lemmas only.
-/

namespace GoCrypt.SIR
open GoCrypt.B64IR (Buf Heap Slice Res sliceBytes padInt decodeMapBytes encVal)
open GoCrypt.Base64LE GoCrypt.Gen.base64leStream

/-- The Go struct `Encoding` of `e` with its arrays in heap buffers `b1` (encode) and `b2` (decodeMap). -/
def encObj (b1 b2 : Nat) (e : Encoding) : Obj :=
  ⟨"Encoding", [.slice ⟨b1, 0, 64, 64⟩, .slice ⟨b2, 0, 256, 256⟩, .int (padInt e), .bool e.strict]⟩

/-- Object `a` is the `Encoding` value of `e`. -/
structure EncAt (H : Heap) (O : List Obj) (a b1 b2 : Nat) (e : Encoding) : Prop where
  obj : O[a]? = some (encObj b1 b2 e)
  alpha : H[b1]? = some e.alphabet.toArray
  dmap : H[b2]? = some (decodeMapBytes e).toArray
  len : e.alphabet.length = 64

theorem decodeMapBytes_length (e : Encoding) : (decodeMapBytes e).length = 256 := by simp [decodeMapBytes]

theorem sliceBytes_whole_n (h : Heap) (b n : Nat) (l : List UInt8) (hb : h[b]? = some l.toArray) (hn : l.length = n) :
    sliceBytes h ⟨b, 0, n, n⟩ = some l := by
  subst hn; simp [sliceBytes, hb]

/-- The window `⟨b, off, len, _⟩` only looks at buffer `b`. -/
theorem sliceBytes_congr (h h' : Heap) (s : Slice) (hb : h'[s.buf]? = h[s.buf]?) : sliceBytes h' s = sliceBytes h s := by
  simp [sliceBytes, hb]

theorem EncAt.alphaBytes {H O a b1 b2 e} (h : EncAt H O a b1 b2 e) : sliceBytes H ⟨b1, 0, 64, 64⟩ = some e.alphabet :=
  sliceBytes_whole_n H b1 64 _ h.alpha h.len
theorem EncAt.dmapBytes {H O a b1 b2 e} (h : EncAt H O a b1 b2 e) : sliceBytes H ⟨b2, 0, 256, 256⟩ = some (decodeMapBytes e) :=
  sliceBytes_whole_n H b2 256 _ h.dmap (decodeMapBytes_length e)

/-- Read out of the store, the object is the struct value `encVal e` of the buffer IR. -/
theorem toB_enc {H O a b1 b2 e} (X : List Ext) (h : EncAt H O a b1 b2 e) : toB ⟨H, O, X⟩ (.ptr a) = .ok (encVal e) := by
  simp [toB, h.obj, encObj, fieldsToB, fieldToB, h.alphaBytes, h.dmapBytes, encVal]

/-- Changing other objects and other buffers keeps the encoding. -/
theorem EncAt.mono {H O a b1 b2 e} (h : EncAt H O a b1 b2 e) (H' : Heap) (O' : List Obj)
    (ho : O'[a]? = O[a]?) (h1 : H'[b1]? = H[b1]?) (h2 : H'[b2]? = H[b2]?) : EncAt H' O' a b1 b2 e :=
  ⟨ho.trans h.obj, h1.trans h.alpha, h2.trans h.dmap, h.len⟩

/-! ## The program -/

/-- The library the theorems use: the regenerated buffer-IR program of the one-shot functions. -/
def lib : Lib := libB64 GoCrypt.Gen.base64leIR.program

theorem program_length : program.procs.length = 8 + 1 := rfl

theorem lookup_newEncoding : List.lookup "NewEncoding" program.procs = some newEncodingIR := by rfl
theorem lookup_withPadding : List.lookup "Encoding.WithPadding" program.procs = some withPaddingIR := by rfl
theorem lookup_strict : List.lookup "Encoding.Strict" program.procs = some strictIR := by rfl
theorem lookup_write : List.lookup "encoder.Write" program.procs = some encoderWriteIR := by rfl
theorem lookup_close : List.lookup "encoder.Close" program.procs = some encoderCloseIR := by rfl
theorem lookup_newEncoder : List.lookup "NewEncoder" program.procs = some newEncoderIR := by rfl
theorem lookup_read : List.lookup "decoder.Read" program.procs = some decoderReadIR := by rfl
theorem lookup_nfrRead : List.lookup "newlineFilteringReader.Read" program.procs = some nfrReadIR := by rfl
theorem lookup_newDecoder : List.lookup "NewDecoder" program.procs = some newDecoderIR := by rfl
theorem lookup_Encode : List.lookup "Encoding.Encode" program.procs = none := by rfl
theorem lookup_EncodedLen : List.lookup "Encoding.EncodedLen" program.procs = none := by rfl
theorem lookup_Decode : List.lookup "Encoding.Decode" program.procs = none := by rfl

end GoCrypt.SIR
