import GoCrypt.Proofs.AcceptLoop

/-!
# Acceptance direction for the shipped layouts: `unmarshal` accepts exactly the documented grammar
-/

namespace GoCrypt.Accept
open Bytes GoCrypt.Parse GoCrypt.RefParse GoCrypt.Codec GoCrypt.Codec.Shapes

/-! ## Helpers on `FragsRel` -/

theorem fragsRel_nil_right (ps : List Bytes) (h : FragsRel ps []) : ps = [] := by
  cases ps with
  | nil => rfl
  | cons p ps =>
    simp only [FragsRel] at h
    obtain ⟨f, fs', h1, -⟩ := h
    cases h1

theorem fragsRel_cons_value (ps : List Bytes) (v : VNode) (fs : List Frag)
    (h : FragsRel ps (.value v :: fs)) :
    ∃ ps', ps = v.val :: ps' ∧ comma ∉ v.val ∧ FragsRel ps' fs := by
  cases ps with
  | nil => simp [FragsRel] at h
  | cons p ps =>
    simp only [FragsRel] at h
    obtain ⟨f, fs', h1, h2, h3⟩ := h
    simp only [List.cons.injEq] at h1
    obtain ⟨rfl, rfl⟩ := h1
    obtain ⟨rfl, h5⟩ := h2
    exact ⟨ps, rfl, h5, h3⟩

theorem fragsRel_cons_group (ps : List Bytes) (vs : List VNode) (fs : List Frag)
    (h : FragsRel ps (.group vs :: fs)) :
    ∃ p ps', ps = p :: ps' ∧ comma ∈ p ∧ (ps' ≠ [] → vs.map (·.val) = splitOn comma p) ∧ FragsRel ps' fs := by
  cases ps with
  | nil => simp [FragsRel] at h
  | cons p ps =>
    simp only [FragsRel] at h
    obtain ⟨f, fs', h1, h2, h3⟩ := h
    simp only [List.cons.injEq] at h1
    obtain ⟨rfl, rfl⟩ := h1
    exact ⟨p, ps, rfl, h2.1, fun hne => h2.2 (by simpa using hne), h3⟩

/-- A comma-free first piece is a value node. -/
theorem fragsRel_cons_left (p : Bytes) (ps : List Bytes) (fs : List Frag) (hp : comma ∉ p)
    (h : FragsRel (p :: ps) fs) : ∃ v fs', fs = .value v :: fs' ∧ v.val = p ∧ FragsRel ps fs' := by
  simp only [FragsRel] at h
  obtain ⟨f, fs', rfl, h2, h3⟩ := h
  cases f with
  | value v => exact ⟨v, fs', rfl, h2.1, h3⟩
  | group vs => exact absurd h2.1 hp

theorem fragsRel_nil_left (fs : List Frag) (h : FragsRel [] fs) : fs = [] := h

theorem over_A_no_comma (s : Bytes) (h : Grammar.over Grammar.A s = true) : comma ∉ s := by
  intro hc
  have := (over_iff _ _).1 h comma hc
  revert this; decide

theorem over_B_no_comma (s : Bytes) (h : Grammar.over Grammar.B s = true) : comma ∉ s := by
  intro hc
  have := (over_iff _ _).1 h comma hc
  revert this; decide

theorem keyOK_plain (fi : FieldInfo) (s : Bytes) (hp : fi.opts.param = []) : KeyOK fi s := Or.inl hp


/-! ## Named fields -/

theorem bodyOf_named (fi : FieldInfo) (s0 key : Bytes) (hk : fi.opts.param ++ [equals] = key)
    (hne : fi.opts.param ≠ []) (hp : key.isPrefixOf s0 = true) : bodyOf fi s0 = s0.drop key.length := by
  unfold bodyOf
  rw [hk]
  simp [hne, hp]

theorem keyOK_named (fi : FieldInfo) (s0 key : Bytes) (hk : fi.opts.param ++ [equals] = key)
    (hne : fi.opts.param ≠ []) : KeyOK fi s0 ↔ key.isPrefixOf s0 = true := by
  unfold KeyOK
  rw [hk]
  simp [hne]

theorem cnt_le (l : List Frag) (k : Nat) (h : l.length ≤ k) :
    ((l.length : Nat) : Int) - ((k : Nat) : Int) ≤ 0 := by omega

theorem cnt_gt (l : List Frag) (k : Nat) (h : k < l.length) :
    ¬ (((l.length : Nat) : Int) - ((k : Nat) : Int) ≤ 0) := by omega

theorem strip_of_prefix (key s0 : Bytes) (hp : key.isPrefixOf s0 = true) :
    Grammar.strip key s0 = some (s0.drop key.length) := by
  simp [Grammar.strip, hp]

theorem strip_some_prefix (key s0 t : Bytes) (h : Grammar.strip key s0 = some t) :
    key.isPrefixOf s0 = true ∧ t = s0.drop key.length := by
  unfold Grammar.strip at h
  split at h
  · next hp => exact ⟨hp, (Option.some.inj h).symm⟩
  · cases h

theorem no_comma_of_strip_num (key s0 t : Bytes) (bits m : Nat) (hkey : comma ∉ key)
    (h : Grammar.strip key s0 = some t) (hn : Grammar.num bits t = some m) : comma ∉ s0 := by
  rw [strip_some_iff] at h
  subst h
  intro hc
  rcases List.mem_append.1 hc with hc | hc
  · exact hkey hc
  · exact over_A_no_comma _ (parseUint10_over bits t m ((num_some_iff _ _ _).1 hn)) hc

/-! ## md5 -/

def md5Out (f : Grammar.Md5) : Vals :=
  [([0], .str [36, 49, 36]), ([1], .bytes f.salt), ([2], .bytes f.sum)]

theorem read_md5_Salt (e : Nat) (s0 : Bytes) (fv : FVal) (rem : Bytes) :
    readField md5_Salt e s0 = .ok (fv, rem) ↔
      Grammar.over Grammar.A s0 = true ∧ fv = .bytes s0 ∧ rem = [] := by
  rw [read_bytes md5_Salt e s0 fv rem Grammar.A rfl rfl rfl rfl rfl, bodyOf_plain _ _ rfl]
  simp [show md5_Salt.opts.hasLength = false from rfl]

theorem read_md5_Sum (e : Nat) (s0 : Bytes) (fv : FVal) (rem : Bytes) :
    readField md5_Sum e s0 = .ok (fv, rem) ↔
      s0.length = 22 ∧ Grammar.over Grammar.A s0 = true ∧ fv = .bytes s0 ∧ rem = [] := by
  rw [read_bytes md5_Sum e s0 fv rem Grammar.A rfl rfl rfl rfl rfl, bodyOf_plain _ _ rfl]
  simp [show md5_Sum.opts.hasLength = true from rfl, show md5_Sum.opts.length = 22 from rfl]

theorem md5Body_some (ps : List Bytes) (f : Grammar.Md5) :
    Grammar.md5Body ps = some f ↔
      ps = [f.salt, f.sum] ∧ Grammar.over Grammar.A f.salt = true ∧ Grammar.over Grammar.A f.sum = true ∧
        f.sum.length = 22 := by
  constructor
  · intro h
    match ps, h with
    | [a, b], h =>
      simp only [Grammar.md5Body, Bool.and_eq_true, beq_iff_eq] at h
      split at h
      · next hc => cases h; exact ⟨rfl, hc.1.1, hc.1.2, hc.2⟩
      · cases h
    | [], h => simp [Grammar.md5Body] at h
    | [_], h => simp [Grammar.md5Body] at h
    | _ :: _ :: _ :: _, h => simp [Grammar.md5Body] at h
  · rintro ⟨rfl, h1, h2, h3⟩
    simp [Grammar.md5Body, h1, h2, h3]

theorem tree_md5 (n : Nat) (p : Option Bytes) (fs : List Frag) (ps : List Bytes) (out : Vals)
    (_ : p ≠ some []) (hrel : FragsRel ps fs) :
    unmarshalTree md5TI n ⟨p, fs⟩ = .ok out ↔
      ∃ f, litG [36, 49, 36] Grammar.md5Body p ps = some f ∧ out = md5Out f := by
  rw [tree_iff]
  have hfields : md5TI.fields = [md5_Salt, md5_Sum] := rfl
  rw [hfields]
  cases p with
  | none =>
    simp [prefixPart_none md5TI n fs _ md5_HashPrefix rfl, show md5_HashPrefix.opts.omitEmpty = false from rfl,
      litG]
  | some q =>
    simp only [prefixPart_some md5TI n q fs _ md5_HashPrefix _ rfl rfl rfl rfl rfl,
      loop_req n md5_Salt _ _ _ _ _ _ rfl rfl rfl, loop_req n md5_Sum _ _ _ _ _ _ rfl rfl rfl,
      loop_nil_iff, read_md5_Salt, read_md5_Sum]
    constructor
    · rintro ⟨out0, st', ⟨hq, rfl⟩, ⟨v, rest, fv, rem, rfl, -, ⟨ho1, rfl, rfl⟩, v2, rest2, fv2, rem2, rfl, -,
        ⟨hl2, ho2, rfl, rfl⟩, rfl⟩, hfin, rfl⟩
      have hr2 : rest2 = [] := hfin
      subst hr2
      have hq' : q = [36, 49, 36] := by simpa using hq
      subst hq'
      obtain ⟨ps1, rfl, -, hrel⟩ := fragsRel_cons_value _ _ _ hrel
      obtain ⟨ps2, rfl, -, hrel⟩ := fragsRel_cons_value _ _ _ hrel
      have := fragsRel_nil_right _ hrel
      subst this
      refine ⟨⟨v.val, v2.val⟩, ?_, rfl⟩
      simp [litG, Grammar.md5Body, ho1, ho2, hl2]
    · rintro ⟨f, hG, rfl⟩
      unfold litG at hG
      split at hG
      · next hq =>
        cases hq
        obtain ⟨rfl, h1, h2, h3⟩ := (md5Body_some _ _).1 hG
        obtain ⟨v, fs1, rfl, hv, hrel⟩ := fragsRel_cons_left _ _ _ (over_A_no_comma _ h1) hrel
        obtain ⟨v2, fs2, rfl, hv2, hrel⟩ := fragsRel_cons_left _ _ _ (over_A_no_comma _ h2) hrel
        have := fragsRel_nil_left _ hrel
        subst this
        refine ⟨_, _, ⟨by decide, rfl⟩, ⟨v, _, _, _, rfl, keyOK_plain _ _ rfl, ⟨hv ▸ h1, rfl, rfl⟩,
          v2, _, _, _, rfl, keyOK_plain _ _ rfl, ⟨hv2 ▸ h3, hv2 ▸ h2, rfl, rfl⟩, rfl⟩, rfl, ?_⟩
        simp only [mkSt, md5Out, hv, hv2]
        rfl
      · cases hG

theorem unmarshal_md5 (h : Bytes) (out : Vals) :
    unmarshal md5TI h = .ok out ↔ ∃ f, Grammar.md5 h = some f ∧ out = md5Out f :=
  unmarshal_lit md5TI _ (by decide) Grammar.md5Body md5Out tree_md5 h out

/-! ## nthash -/

def nthashOut (f : Grammar.NtHash) : Vals :=
  [([0], .str [36, 51, 36]), ([1], .bytes []), ([2], .bytes f.sum)]

theorem read_nthash_Empty (e : Nat) (s0 : Bytes) (fv : FVal) (rem : Bytes) :
    readField nthash_Empty e s0 = .ok (fv, rem) ↔ s0 = [] ∧ fv = .bytes [] ∧ rem = [] := by
  rw [read_array nthash_Empty e s0 fv rem Grammar.A 0 rfl rfl rfl rfl rfl rfl rfl, bodyOf_plain _ _ rfl]
  constructor
  · rintro ⟨h1, -, rfl, rfl⟩
    have : s0 = [] := List.length_eq_zero_iff.1 h1
    subst this; exact ⟨rfl, rfl, rfl⟩
  · rintro ⟨rfl, rfl, rfl⟩; exact ⟨rfl, rfl, rfl, rfl⟩

theorem read_nthash_Sum (e : Nat) (s0 : Bytes) (fv : FVal) (rem : Bytes) :
    readField nthash_Sum e s0 = .ok (fv, rem) ↔
      s0.length = 32 ∧ Grammar.over Grammar.A s0 = true ∧ fv = .bytes s0 ∧ rem = [] := by
  rw [read_array nthash_Sum e s0 fv rem Grammar.A 32 rfl rfl rfl rfl rfl rfl rfl, bodyOf_plain _ _ rfl]

theorem nthashBody_some (ps : List Bytes) (f : Grammar.NtHash) :
    Grammar.nthashBody ps = some f ↔
      ps = [[], f.sum] ∧ Grammar.over Grammar.A f.sum = true ∧ f.sum.length = 32 := by
  constructor
  · intro h
    match ps, h with
    | [a, b], h =>
      simp only [Grammar.nthashBody, Bool.and_eq_true, beq_iff_eq, List.isEmpty_iff] at h
      split at h
      · next hc => cases h; obtain ⟨⟨rfl, h2⟩, h3⟩ := hc; exact ⟨rfl, h2, h3⟩
      · cases h
    | [], h => simp [Grammar.nthashBody] at h
    | [_], h => simp [Grammar.nthashBody] at h
    | _ :: _ :: _ :: _, h => simp [Grammar.nthashBody] at h
  · rintro ⟨rfl, h1, h2⟩
    simp [Grammar.nthashBody, h1, h2]

theorem tree_nthash (n : Nat) (p : Option Bytes) (fs : List Frag) (ps : List Bytes) (out : Vals)
    (_ : p ≠ some []) (hrel : FragsRel ps fs) :
    unmarshalTree nthashTI n ⟨p, fs⟩ = .ok out ↔
      ∃ f, litG [36, 51, 36] Grammar.nthashBody p ps = some f ∧ out = nthashOut f := by
  rw [tree_iff]
  have hfields : nthashTI.fields = [nthash_Empty, nthash_Sum] := rfl
  rw [hfields]
  cases p with
  | none =>
    simp [prefixPart_none nthashTI n fs _ nthash_HashPrefix rfl,
      show nthash_HashPrefix.opts.omitEmpty = false from rfl, litG]
  | some q =>
    simp only [prefixPart_some nthashTI n q fs _ nthash_HashPrefix _ rfl rfl rfl rfl rfl,
      loop_req n nthash_Empty _ _ _ _ _ _ rfl rfl rfl, loop_req n nthash_Sum _ _ _ _ _ _ rfl rfl rfl,
      loop_nil_iff, read_nthash_Empty, read_nthash_Sum]
    constructor
    · rintro ⟨out0, st', ⟨hq, rfl⟩, ⟨v, rest, fv, rem, rfl, -, ⟨ho1, rfl, rfl⟩, v2, rest2, fv2, rem2, rfl, -,
        ⟨hl2, ho2, rfl, rfl⟩, rfl⟩, hfin, rfl⟩
      have hr2 : rest2 = [] := hfin
      subst hr2
      have hq' : q = [36, 51, 36] := by simpa using hq
      subst hq'
      obtain ⟨ps1, rfl, -, hrel⟩ := fragsRel_cons_value _ _ _ hrel
      obtain ⟨ps2, rfl, -, hrel⟩ := fragsRel_cons_value _ _ _ hrel
      have := fragsRel_nil_right _ hrel
      subst this
      refine ⟨⟨v2.val⟩, ?_, rfl⟩
      simp [litG, Grammar.nthashBody, ho1, ho2, hl2]
    · rintro ⟨f, hG, rfl⟩
      unfold litG at hG
      split at hG
      · next hq =>
        cases hq
        obtain ⟨rfl, h2, h3⟩ := (nthashBody_some _ _).1 hG
        obtain ⟨v, fs1, rfl, hv, hrel⟩ := fragsRel_cons_left _ _ _ (by simp) hrel
        obtain ⟨v2, fs2, rfl, hv2, hrel⟩ := fragsRel_cons_left _ _ _ (over_A_no_comma _ h2) hrel
        have := fragsRel_nil_left _ hrel
        subst this
        refine ⟨_, _, ⟨by decide, rfl⟩, ⟨v, _, _, _, rfl, keyOK_plain _ _ rfl, ⟨hv, rfl, rfl⟩,
          v2, _, _, _, rfl, keyOK_plain _ _ rfl, ⟨hv2 ▸ h3, hv2 ▸ h2, rfl, rfl⟩, rfl⟩, rfl, ?_⟩
        simp only [mkSt, nthashOut, hv2]
        rfl
      · cases hG

theorem unmarshal_nthash (h : Bytes) (out : Vals) :
    unmarshal nthashTI h = .ok out ↔ ∃ f, Grammar.nthash h = some f ∧ out = nthashOut f :=
  unmarshal_lit nthashTI _ (by decide) Grammar.nthashBody nthashOut tree_nthash h out

/-! ## sha1 -/

def sha1Out (f : Grammar.Sha1) : Vals :=
  [([0], .str [36, 115, 104, 97, 49, 36]), ([1], .uint f.rounds), ([2], .bytes f.salt), ([3], .bytes f.sum)]

theorem read_sha1_Rounds (e : Nat) (s0 : Bytes) (fv : FVal) (rem : Bytes) :
    readField sha1_Rounds e s0 = .ok (fv, rem) ↔
      (∃ m, Grammar.num 32 s0 = some m ∧ fv = .uint m) ∧ rem = [] := by
  rw [read_uint sha1_Rounds e s0 fv rem 32 rfl rfl rfl rfl rfl rfl, bodyOf_plain _ _ rfl]
  simp [show sha1_Rounds.opts.hasLength = false from rfl]

theorem read_sha1_Salt (e : Nat) (s0 : Bytes) (fv : FVal) (rem : Bytes) :
    readField sha1_Salt e s0 = .ok (fv, rem) ↔
      Grammar.over Grammar.A s0 = true ∧ fv = .bytes s0 ∧ rem = [] := by
  rw [read_bytes sha1_Salt e s0 fv rem Grammar.A rfl rfl rfl rfl rfl, bodyOf_plain _ _ rfl]
  simp [show sha1_Salt.opts.hasLength = false from rfl]

theorem read_sha1_Sum (e : Nat) (s0 : Bytes) (fv : FVal) (rem : Bytes) :
    readField sha1_Sum e s0 = .ok (fv, rem) ↔
      s0.length = 28 ∧ Grammar.over Grammar.A s0 = true ∧ fv = .bytes s0 ∧ rem = [] := by
  rw [read_array sha1_Sum e s0 fv rem Grammar.A 28 rfl rfl rfl rfl rfl rfl rfl, bodyOf_plain _ _ rfl]

theorem sha1Body_some (ps : List Bytes) (f : Grammar.Sha1) :
    Grammar.sha1Body ps = some f ↔
      ∃ r, ps = [r, f.salt, f.sum] ∧ Grammar.num 32 r = some f.rounds ∧
        Grammar.over Grammar.A f.salt = true ∧ Grammar.over Grammar.A f.sum = true ∧ f.sum.length = 28 := by
  constructor
  · intro h
    match ps, h with
    | [r, a, b], h =>
      simp only [Grammar.sha1Body] at h
      cases hn : Grammar.num 32 r with
      | none => simp [hn] at h
      | some m =>
        simp only [hn, Bool.and_eq_true, beq_iff_eq] at h
        split at h
        · next hc => cases h; exact ⟨r, rfl, hn, hc.1.1, hc.1.2, hc.2⟩
        · cases h
    | [], h => simp [Grammar.sha1Body] at h
    | [_], h => simp [Grammar.sha1Body] at h
    | [_, _], h => simp [Grammar.sha1Body] at h
    | _ :: _ :: _ :: _ :: _, h => simp [Grammar.sha1Body] at h
  · rintro ⟨r, rfl, h0, h1, h2, h3⟩
    simp [Grammar.sha1Body, h0, h1, h2, h3]

theorem tree_sha1 (n : Nat) (p : Option Bytes) (fs : List Frag) (ps : List Bytes) (out : Vals)
    (_ : p ≠ some []) (hrel : FragsRel ps fs) :
    unmarshalTree sha1TI n ⟨p, fs⟩ = .ok out ↔
      ∃ f, litG [36, 115, 104, 97, 49, 36] Grammar.sha1Body p ps = some f ∧ out = sha1Out f := by
  rw [tree_iff]
  have hfields : sha1TI.fields = [sha1_Rounds, sha1_Salt, sha1_Sum] := rfl
  rw [hfields]
  cases p with
  | none =>
    simp [prefixPart_none sha1TI n fs _ sha1_HashPrefix rfl,
      show sha1_HashPrefix.opts.omitEmpty = false from rfl, litG]
  | some q =>
    simp only [prefixPart_some sha1TI n q fs _ sha1_HashPrefix _ rfl rfl rfl rfl rfl,
      loop_req n sha1_Rounds _ _ _ _ _ _ rfl rfl rfl,
      loop_req n sha1_Salt _ _ _ _ _ _ rfl rfl rfl, loop_req n sha1_Sum _ _ _ _ _ _ rfl rfl rfl,
      loop_nil_iff, read_sha1_Rounds, read_sha1_Salt, read_sha1_Sum]
    constructor
    · rintro ⟨out0, st', ⟨hq, rfl⟩, ⟨v0, rest0, fv0, rem0, rfl, -, ⟨⟨m, hm, rfl⟩, rfl⟩,
        v, rest, fv, rem, rfl, -, ⟨ho1, rfl, rfl⟩, v2, rest2, fv2, rem2, rfl, -,
        ⟨hl2, ho2, rfl, rfl⟩, rfl⟩, hfin, rfl⟩
      have hr2 : rest2 = [] := hfin
      subst hr2
      have hq' : q = [36, 115, 104, 97, 49, 36] := by simpa using hq
      subst hq'
      obtain ⟨ps0, rfl, -, hrel⟩ := fragsRel_cons_value _ _ _ hrel
      obtain ⟨ps1, rfl, -, hrel⟩ := fragsRel_cons_value _ _ _ hrel
      obtain ⟨ps2, rfl, -, hrel⟩ := fragsRel_cons_value _ _ _ hrel
      have := fragsRel_nil_right _ hrel
      subst this
      refine ⟨⟨m, v.val, v2.val⟩, ?_, rfl⟩
      simp [litG, Grammar.sha1Body, hm, ho1, ho2, hl2]
    · rintro ⟨f, hG, rfl⟩
      unfold litG at hG
      split at hG
      · next hq =>
        cases hq
        obtain ⟨r, rfl, h0, h1, h2, h3⟩ := (sha1Body_some _ _).1 hG
        have hr : comma ∉ r :=
          over_A_no_comma _ (parseUint10_over 32 r _ ((num_some_iff _ _ _).1 h0))
        obtain ⟨v0, fs0, rfl, hv0, hrel⟩ := fragsRel_cons_left _ _ _ hr hrel
        obtain ⟨v, fs1, rfl, hv, hrel⟩ := fragsRel_cons_left _ _ _ (over_A_no_comma _ h1) hrel
        obtain ⟨v2, fs2, rfl, hv2, hrel⟩ := fragsRel_cons_left _ _ _ (over_A_no_comma _ h2) hrel
        have := fragsRel_nil_left _ hrel
        subst this
        refine ⟨_, _, ⟨by decide, rfl⟩, ⟨v0, _, _, _, rfl, keyOK_plain _ _ rfl, ⟨⟨_, hv0 ▸ h0, rfl⟩, rfl⟩,
          v, _, _, _, rfl, keyOK_plain _ _ rfl, ⟨hv ▸ h1, rfl, rfl⟩,
          v2, _, _, _, rfl, keyOK_plain _ _ rfl, ⟨hv2 ▸ h3, hv2 ▸ h2, rfl, rfl⟩, rfl⟩, rfl, ?_⟩
        simp only [mkSt, sha1Out, hv, hv2]
        rfl
      · cases hG

theorem unmarshal_sha1 (h : Bytes) (out : Vals) :
    unmarshal sha1TI h = .ok out ↔ ∃ f, Grammar.sha1 h = some f ∧ out = sha1Out f :=
  unmarshal_lit sha1TI _ (by decide) Grammar.sha1Body sha1Out tree_sha1 h out

/-! ## des -/

def desOut (f : Grammar.Des) : Vals := [([1], .bytes f.salt), ([2], .bytes f.sum)]

theorem read_des_Salt (e : Nat) (s0 : Bytes) (fv : FVal) (rem : Bytes) :
    readField des_Salt e s0 = .ok (fv, rem) ↔
      2 ≤ s0.length ∧ Grammar.over Grammar.A (s0.take 2) = true ∧ fv = .bytes (s0.take 2) ∧ rem = s0.drop 2 :=
  read_bytes_inline des_Salt e s0 fv rem Grammar.A rfl rfl rfl rfl rfl rfl rfl

theorem read_des_Sum (e : Nat) (s0 : Bytes) (fv : FVal) (rem : Bytes) :
    readField des_Sum e s0 = .ok (fv, rem) ↔
      s0.length = 11 ∧ Grammar.over Grammar.A s0 = true ∧ fv = .bytes s0 ∧ rem = [] := by
  rw [read_array des_Sum e s0 fv rem Grammar.A 11 rfl rfl rfl rfl rfl rfl rfl, bodyOf_plain _ _ rfl]

theorem desBody_some (ps : List Bytes) (f : Grammar.Des) :
    Grammar.desBody ps = some f ↔
      ∃ x, ps = [x] ∧ x.length = 13 ∧ Grammar.over Grammar.A x = true ∧ f = ⟨x.take 2, x.drop 2⟩ := by
  constructor
  · intro h
    match ps, h with
    | [x], h =>
      simp only [Grammar.desBody, Bool.and_eq_true, beq_iff_eq] at h
      split at h
      · next hc => cases h; exact ⟨x, rfl, hc.1, hc.2, rfl⟩
      · cases h
    | [], h => simp [Grammar.desBody] at h
    | _ :: _ :: _, h => simp [Grammar.desBody] at h
  · rintro ⟨x, rfl, h1, h2, rfl⟩
    simp [Grammar.desBody, h1, h2]

theorem tree_des (n : Nat) (p : Option Bytes) (fs : List Frag) (ps : List Bytes) (out : Vals)
    (hp : p ≠ some []) (hrel : FragsRel ps fs) :
    unmarshalTree desTI n ⟨p, fs⟩ = .ok out ↔
      ∃ f, noneG Grammar.desBody p ps = some f ∧ out = desOut f := by
  rw [tree_iff]
  have hfields : desTI.fields = [des_Salt, des_Sum] := rfl
  rw [hfields]
  cases p with
  | some q =>
    have hq : q ≠ [] := fun e => hp (by rw [e])
    simp [prefixPart_some desTI n q fs _ des_HashPrefix _ rfl rfl rfl rfl rfl, noneG, hq]
  | none =>
    simp only [prefixPart_none desTI n fs _ des_HashPrefix rfl,
      loop_req_inline n des_Salt _ _ _ _ _ _ rfl rfl rfl, loop_req n des_Sum _ _ _ _ _ _ rfl rfl rfl,
      loop_nil_iff, read_des_Salt, read_des_Sum]
    constructor
    · rintro ⟨out0, st', ⟨-, rfl⟩, ⟨v, rest, fv, rem, rfl, -, ⟨hl1, ho1, rfl, rfl⟩, v2, rest2, fv2, rem2, hv2, -,
        ⟨hl2, ho2, rfl, rfl⟩, rfl⟩, hfin, rfl⟩
      simp only [List.cons.injEq, Frag.value.injEq] at hv2
      obtain ⟨rfl, rfl⟩ := hv2
      have hr2 : rest = [] := hfin
      subst hr2
      obtain ⟨ps1, rfl, -, hrel⟩ := fragsRel_cons_value _ _ _ hrel
      have := fragsRel_nil_right _ hrel
      subst this
      refine ⟨⟨v.val.take 2, v.val.drop 2⟩, ?_, rfl⟩
      simp only [List.length_drop] at hl2
      have hlen : v.val.length = 13 := by omega
      have hov : Grammar.over Grammar.A v.val = true := by
        rw [over_take_drop _ _ 2, ho1, ho2]; rfl
      simp [noneG, Grammar.desBody, hlen, hov]
    · rintro ⟨f, hG, rfl⟩
      obtain ⟨x, rfl, h1, h2, rfl⟩ := (desBody_some _ _).1 hG
      obtain ⟨v, fs1, rfl, hv, hrel⟩ := fragsRel_cons_left _ _ _ (over_A_no_comma _ h2) hrel
      have := fragsRel_nil_left _ hrel
      subst this
      subst hv
      rw [over_take_drop _ _ 2, Bool.and_eq_true] at h2
      refine ⟨_, _, ⟨rfl, rfl⟩, ⟨v, _, _, _, rfl, keyOK_plain _ _ rfl, ⟨by omega, h2.1, rfl, rfl⟩,
        _, _, _, _, rfl, keyOK_plain _ _ rfl, ⟨by simp only [List.length_drop]; omega, h2.2, rfl, rfl⟩, rfl⟩,
        rfl, rfl⟩

theorem unmarshal_des (h : Bytes) (out : Vals) :
    unmarshal desTI h = .ok out ↔ ∃ f, Grammar.des h = some f ∧ out = desOut f :=
  unmarshal_none desTI Grammar.desBody desOut tree_des h out

/-! ## desext -/

def desextOut (f : Grammar.DesExt) : Vals :=
  [([0], .str [95]), ([1], .uint (desDecodeInt f.rounds)), ([2], .bytes f.salt), ([3], .bytes f.sum)]

theorem read_desext_Rounds (e : Nat) (s0 : Bytes) (fv : FVal) (rem : Bytes) :
    readField desext_Rounds e s0 = .ok (fv, rem) ↔
      4 ≤ s0.length ∧ Grammar.over Grammar.A (s0.take 4) = true ∧
        fv = .uint (desDecodeInt (s0.take 4)) ∧ rem = s0.drop 4 :=
  read_desint_inline desext_Rounds e s0 fv rem Grammar.A rfl rfl rfl rfl rfl

theorem read_desext_Salt (e : Nat) (s0 : Bytes) (fv : FVal) (rem : Bytes) :
    readField desext_Salt e s0 = .ok (fv, rem) ↔
      4 ≤ s0.length ∧ Grammar.over Grammar.A (s0.take 4) = true ∧ fv = .bytes (s0.take 4) ∧ rem = s0.drop 4 :=
  read_bytes_inline desext_Salt e s0 fv rem Grammar.A rfl rfl rfl rfl rfl rfl rfl

theorem read_desext_Sum (e : Nat) (s0 : Bytes) (fv : FVal) (rem : Bytes) :
    readField desext_Sum e s0 = .ok (fv, rem) ↔
      s0.length = 11 ∧ Grammar.over Grammar.A s0 = true ∧ fv = .bytes s0 ∧ rem = [] := by
  rw [read_array desext_Sum e s0 fv rem Grammar.A 11 rfl rfl rfl rfl rfl rfl rfl, bodyOf_plain _ _ rfl]

theorem desextBody_some (ps : List Bytes) (f : Grammar.DesExt) :
    Grammar.desextBody ps = some f ↔
      ∃ x, ps = [x] ∧ x.length = 19 ∧ Grammar.over Grammar.A x = true ∧
        f = ⟨x.take 4, (x.drop 4).take 4, x.drop 8⟩ := by
  constructor
  · intro h
    match ps, h with
    | [x], h =>
      simp only [Grammar.desextBody, Bool.and_eq_true, beq_iff_eq] at h
      split at h
      · next hc => cases h; exact ⟨x, rfl, hc.1, hc.2, rfl⟩
      · cases h
    | [], h => simp [Grammar.desextBody] at h
    | _ :: _ :: _, h => simp [Grammar.desextBody] at h
  · rintro ⟨x, rfl, h1, h2, rfl⟩
    simp [Grammar.desextBody, h1, h2]

theorem tree_desext (n : Nat) (p : Option Bytes) (fs : List Frag) (ps : List Bytes) (out : Vals)
    (_ : p ≠ some []) (hrel : FragsRel ps fs) :
    unmarshalTree desextTI n ⟨p, fs⟩ = .ok out ↔
      ∃ f, litG [95] Grammar.desextBody p ps = some f ∧ out = desextOut f := by
  rw [tree_iff]
  have hfields : desextTI.fields = [desext_Rounds, desext_Salt, desext_Sum] := rfl
  rw [hfields]
  cases p with
  | none =>
    simp [prefixPart_none desextTI n fs _ desext_HashPrefix rfl,
      show desext_HashPrefix.opts.omitEmpty = false from rfl, litG]
  | some q =>
    simp only [prefixPart_some desextTI n q fs _ desext_HashPrefix _ rfl rfl rfl rfl rfl,
      loop_req_inline n desext_Rounds _ _ _ _ _ _ rfl rfl rfl,
      loop_req_inline n desext_Salt _ _ _ _ _ _ rfl rfl rfl, loop_req n desext_Sum _ _ _ _ _ _ rfl rfl rfl,
      loop_nil_iff, read_desext_Rounds, read_desext_Salt, read_desext_Sum]
    constructor
    · rintro ⟨out0, st', ⟨hq, rfl⟩, ⟨v, rest, fv, rem, rfl, -, ⟨hl0, ho0, rfl, rfl⟩,
        v1, rest1, fv1, rem1, hv1, -, ⟨hl1, ho1, rfl, rfl⟩,
        v2, rest2, fv2, rem2, hv2, -, ⟨hl2, ho2, rfl, rfl⟩, rfl⟩, hfin, rfl⟩
      simp only [List.cons.injEq, Frag.value.injEq] at hv1
      obtain ⟨rfl, rfl⟩ := hv1
      simp only [List.cons.injEq, Frag.value.injEq] at hv2
      obtain ⟨rfl, rfl⟩ := hv2
      have hr2 : rest = [] := hfin
      subst hr2
      have hq' : q = [95] := by simpa using hq
      subst hq'
      obtain ⟨ps1, rfl, -, hrel⟩ := fragsRel_cons_value _ _ _ hrel
      have := fragsRel_nil_right _ hrel
      subst this
      simp only [List.length_drop, List.drop_drop] at hl1 hl2 ho2
      refine ⟨⟨v.val.take 4, (v.val.drop 4).take 4, v.val.drop 8⟩, ?_, ?_⟩
      · have hlen : v.val.length = 19 := by omega
        have hov : Grammar.over Grammar.A v.val = true := by
          rw [over_take_drop _ _ 4, ho0, over_take_drop _ (v.val.drop 4) 4, ho1, List.drop_drop, ho2]; rfl
        simp [litG, Grammar.desextBody, hlen, hov]
      · simp only [mkSt, desextOut, List.drop_drop]
        rfl
    · rintro ⟨f, hG, rfl⟩
      unfold litG at hG
      split at hG
      · next hq =>
        cases hq
        obtain ⟨x, rfl, h1, h2, rfl⟩ := (desextBody_some _ _).1 hG
        obtain ⟨v, fs1, rfl, hv, hrel⟩ := fragsRel_cons_left _ _ _ (over_A_no_comma _ h2) hrel
        have := fragsRel_nil_left _ hrel
        subst this
        subst hv
        rw [over_take_drop _ _ 4, over_take_drop _ (v.val.drop 4) 4, List.drop_drop, Bool.and_eq_true,
          Bool.and_eq_true] at h2
        refine ⟨_, _, ⟨by decide, rfl⟩, ⟨v, _, _, _, rfl, keyOK_plain _ _ rfl, ⟨by omega, h2.1, rfl, rfl⟩,
          _, _, _, _, rfl, keyOK_plain _ _ rfl, ⟨by simp only [List.length_drop]; omega, h2.2.1, rfl, rfl⟩,
          _, _, _, _, rfl, keyOK_plain _ _ rfl,
          ⟨by simp only [List.length_drop]; omega, by simpa only [List.drop_drop] using h2.2.2, rfl, rfl⟩, rfl⟩,
          rfl, ?_⟩
        simp only [mkSt, desextOut, List.drop_drop]
        rfl
      · cases hG

theorem unmarshal_desext (h : Bytes) (out : Vals) :
    unmarshal desextTI h = .ok out ↔ ∃ f, Grammar.desext h = some f ∧ out = desextOut f :=
  unmarshal_lit desextTI _ (by decide) Grammar.desextBody desextOut tree_desext h out

/-! ## bcrypt -/

def bcryptOut (f : Grammar.Bcrypt) : Vals :=
  [([0], .str f.pfx), ([1], .uint f.cost), ([2], .bytes f.salt), ([3], .bytes f.sum)]

theorem read_bcrypt_Cost (e : Nat) (s0 : Bytes) (fv : FVal) (rem : Bytes) :
    readField bcrypt_Cost e s0 = .ok (fv, rem) ↔
      s0.length = 2 ∧ (∃ m, Grammar.num 8 s0 = some m ∧ fv = .uint m) ∧ rem = [] := by
  rw [read_uint bcrypt_Cost e s0 fv rem 8 rfl rfl rfl rfl rfl rfl, bodyOf_plain _ _ rfl]
  simp [show bcrypt_Cost.opts.hasLength = true from rfl, show bcrypt_Cost.opts.length = 2 from rfl]

theorem read_bcrypt_Salt (e : Nat) (s0 : Bytes) (fv : FVal) (rem : Bytes) :
    readField bcrypt_Salt e s0 = .ok (fv, rem) ↔
      22 ≤ s0.length ∧ Grammar.over Grammar.A (s0.take 22) = true ∧ fv = .bytes (s0.take 22) ∧
        rem = s0.drop 22 :=
  read_bytes_inline bcrypt_Salt e s0 fv rem Grammar.A rfl rfl rfl rfl rfl rfl rfl

theorem read_bcrypt_Sum (e : Nat) (s0 : Bytes) (fv : FVal) (rem : Bytes) :
    readField bcrypt_Sum e s0 = .ok (fv, rem) ↔
      s0.length = 31 ∧ Grammar.over Grammar.A s0 = true ∧ fv = .bytes s0 ∧ rem = [] := by
  rw [read_array bcrypt_Sum e s0 fv rem Grammar.A 31 rfl rfl rfl rfl rfl rfl rfl, bodyOf_plain _ _ rfl]

theorem bcryptBody_some (pfx : Bytes) (ps : List Bytes) (f : Grammar.Bcrypt) :
    Grammar.bcryptBody pfx ps = some f ↔
      ∃ c x m, ps = [c, x] ∧ c.length = 2 ∧ Grammar.over Grammar.A c = true ∧ Grammar.num 8 c = some m ∧
        x.length = 53 ∧ Grammar.over Grammar.A x = true ∧ f = ⟨pfx, m, x.take 22, x.drop 22⟩ := by
  constructor
  · intro h
    match ps, h with
    | [c, x], h =>
      simp only [Grammar.bcryptBody, Bool.and_eq_true, beq_iff_eq] at h
      split at h
      · next hc =>
        cases hn : Grammar.num 8 c with
        | none => simp [hn] at h
        | some m =>
          simp only [hn] at h
          split at h
          · next hx => cases h; exact ⟨c, x, m, rfl, hc.1, hc.2, hn, hx.1, hx.2, rfl⟩
          · cases h
      · cases h
    | [], h => simp [Grammar.bcryptBody] at h
    | [_], h => simp [Grammar.bcryptBody] at h
    | _ :: _ :: _ :: _, h => simp [Grammar.bcryptBody] at h
  · rintro ⟨c, x, m, rfl, h1, h2, h3, h4, h5, rfl⟩
    simp [Grammar.bcryptBody, h1, h2, h3, h4, h5]

theorem tree_bcrypt (n : Nat) (p : Option Bytes) (fs : List Frag) (ps : List Bytes) (out : Vals)
    (_ : p ≠ some []) (hrel : FragsRel ps fs) :
    unmarshalTree bcryptTI n ⟨p, fs⟩ = .ok out ↔
      ∃ f, anyG Grammar.bcryptPrefixes Grammar.bcryptBody p ps = some f ∧ out = bcryptOut f := by
  rw [tree_iff]
  have hfields : bcryptTI.fields = [bcrypt_Cost, bcrypt_Salt, bcrypt_Sum] := rfl
  rw [hfields]
  cases p with
  | none =>
    simp [prefixPart_none bcryptTI n fs _ bcrypt_HashPrefix rfl,
      show bcrypt_HashPrefix.opts.omitEmpty = false from rfl, anyG]
  | some q =>
    simp only [prefixPart_some bcryptTI n q fs _ bcrypt_HashPrefix _ rfl rfl rfl rfl rfl,
      loop_req n bcrypt_Cost _ _ _ _ _ _ rfl rfl rfl,
      loop_req_inline n bcrypt_Salt _ _ _ _ _ _ rfl rfl rfl, loop_req n bcrypt_Sum _ _ _ _ _ _ rfl rfl rfl,
      loop_nil_iff, read_bcrypt_Cost, read_bcrypt_Salt, read_bcrypt_Sum]
    have hmem : ([[36, 50, 36], [36, 50, 97, 36], [36, 50, 98, 36]] : List Bytes).contains q = true ↔
        q ∈ Grammar.bcryptPrefixes := by simp [Grammar.bcryptPrefixes]
    constructor
    · rintro ⟨out0, st', ⟨hq, rfl⟩, ⟨v0, rest0, fv0, rem0, rfl, -, ⟨hl0, ⟨m, hm, rfl⟩, rfl⟩,
        v1, rest1, fv1, rem1, rfl, -, ⟨hl1, ho1, rfl, rfl⟩,
        v2, rest2, fv2, rem2, hv2, -, ⟨hl2, ho2, rfl, rfl⟩, rfl⟩, hfin, rfl⟩
      simp only [List.cons.injEq, Frag.value.injEq] at hv2
      obtain ⟨rfl, rfl⟩ := hv2
      have hr2 : rest1 = [] := hfin
      subst hr2
      obtain ⟨ps0, rfl, -, hrel⟩ := fragsRel_cons_value _ _ _ hrel
      obtain ⟨ps1, rfl, -, hrel⟩ := fragsRel_cons_value _ _ _ hrel
      have := fragsRel_nil_right _ hrel
      subst this
      simp only [List.length_drop] at hl2
      refine ⟨⟨q, m, v1.val.take 22, v1.val.drop 22⟩, ?_, rfl⟩
      have hlen : v1.val.length = 53 := by omega
      have hov : Grammar.over Grammar.A v1.val = true := by
        rw [over_take_drop _ _ 22, ho1, ho2]; rfl
      have hoc : Grammar.over Grammar.A v0.val = true :=
        parseUint10_over 8 _ _ ((num_some_iff _ _ _).1 hm)
      simp [anyG, hmem.1 hq, Grammar.bcryptBody, hl0, hoc, hm, hlen, hov]
    · rintro ⟨f, hG, rfl⟩
      unfold anyG at hG
      simp only at hG
      split at hG
      · next hq =>
        obtain ⟨c, x, m, rfl, h1, h2, h3, h4, h5, rfl⟩ := (bcryptBody_some _ _ _).1 hG
        obtain ⟨v0, fs0, rfl, hv0, hrel⟩ := fragsRel_cons_left _ _ _ (over_A_no_comma _ h2) hrel
        obtain ⟨v, fs1, rfl, hv, hrel⟩ := fragsRel_cons_left _ _ _ (over_A_no_comma _ h5) hrel
        have := fragsRel_nil_left _ hrel
        subst this
        subst hv hv0
        rw [over_take_drop _ _ 22, Bool.and_eq_true] at h5
        refine ⟨_, _, ⟨hmem.2 hq, rfl⟩, ⟨v0, _, _, _, rfl, keyOK_plain _ _ rfl, ⟨h1, ⟨m, h3, rfl⟩, rfl⟩,
          v, _, _, _, rfl, keyOK_plain _ _ rfl, ⟨by omega, h5.1, rfl, rfl⟩,
          _, _, _, _, rfl, keyOK_plain _ _ rfl, ⟨by simp only [List.length_drop]; omega, h5.2, rfl, rfl⟩, rfl⟩,
          rfl, rfl⟩
      · cases hG

theorem unmarshal_bcrypt (h : Bytes) (out : Vals) :
    unmarshal bcryptTI h = .ok out ↔ ∃ f, Grammar.bcrypt h = some f ∧ out = bcryptOut f :=
  unmarshal_any bcryptTI _ (by decide) Grammar.bcryptBody bcryptOut tree_bcrypt h out

/-! ## sha256 -/

def sha256Out (f : Grammar.Sha2) : Vals :=
  [([0], .str [36, 53, 36])] ++ (match f.rounds with | some m => [([1], .uint m)] | none => []) ++
    [([2], .bytes f.salt), ([3], .bytes f.sum)]

theorem read_sha256_Rounds (e : Nat) (s0 : Bytes) (fv : FVal) (rem : Bytes)
    (hkey : Grammar.kRounds.isPrefixOf s0 = true) :
    readField sha256_Rounds e s0 = .ok (fv, rem) ↔
      (∃ m, Grammar.num 32 (s0.drop 7) = some m ∧ fv = .uint m) ∧ rem = [] := by
  rw [read_uint sha256_Rounds e s0 fv rem 32 rfl rfl rfl rfl rfl rfl,
    bodyOf_named sha256_Rounds s0 Grammar.kRounds rfl (by decide) hkey]
  simp [show sha256_Rounds.opts.hasLength = false from rfl, Grammar.kRounds]

theorem read_sha256_Salt (e : Nat) (s0 : Bytes) (fv : FVal) (rem : Bytes) :
    readField sha256_Salt e s0 = .ok (fv, rem) ↔
      Grammar.over Grammar.A s0 = true ∧ fv = .bytes s0 ∧ rem = [] := by
  rw [read_bytes sha256_Salt e s0 fv rem Grammar.A rfl rfl rfl rfl rfl, bodyOf_plain _ _ rfl]
  simp [show sha256_Salt.opts.hasLength = false from rfl]

theorem read_sha256_Sum (e : Nat) (s0 : Bytes) (fv : FVal) (rem : Bytes) :
    readField sha256_Sum e s0 = .ok (fv, rem) ↔
      s0.length = 43 ∧ Grammar.over Grammar.A s0 = true ∧ fv = .bytes s0 ∧ rem = [] := by
  rw [read_array sha256_Sum e s0 fv rem Grammar.A 43 rfl rfl rfl rfl rfl rfl rfl, bodyOf_plain _ _ rfl]

theorem tree_sha256 (n : Nat) (p : Option Bytes) (fs : List Frag) (ps : List Bytes) (out : Vals)
    (_ : p ≠ some []) (hrel : FragsRel ps fs) :
    unmarshalTree sha256TI n ⟨p, fs⟩ = .ok out ↔
      ∃ f, litG [36, 53, 36] (Grammar.sha2Body 43) p ps = some f ∧ out = sha256Out f := by
  rw [tree_iff]
  have hfields : sha256TI.fields = [sha256_Rounds, sha256_Salt, sha256_Sum] := rfl
  have hnr : sha256TI.numReqValues = 2 := rfl
  rw [hfields, hnr]
  cases p with
  | none =>
    simp [prefixPart_none sha256TI n fs _ sha256_HashPrefix rfl,
      show sha256_HashPrefix.opts.omitEmpty = false from rfl, litG]
  | some q =>
    simp only [prefixPart_some sha256TI n q fs _ sha256_HashPrefix _ rfl rfl rfl rfl rfl]
    constructor
    · rintro ⟨out0, st', ⟨hq, rfl⟩, hloop, hfin, rfl⟩
      have hq' : q = [36, 53, 36] := by simpa using hq
      subst hq'
      cases fs with
      | nil =>
        rw [loop_opt_nil _ _ _ _ _ _ rfl] at hloop
        simp only [loop_req n sha256_Salt _ _ _ _ _ _ rfl rfl rfl] at hloop
        obtain ⟨v, rest, -, -, h, -⟩ := hloop
        cases h
      | cons f0 r =>
        by_cases hcnt : (((f0 :: r).length : Nat) : Int) - ((2 : Nat) : Int) ≤ 0
        · rw [loop_opt_skip _ _ _ _ _ _ _ _ rfl hcnt] at hloop
          simp only [loop_req n sha256_Salt _ _ _ _ _ _ rfl rfl rfl, loop_req n sha256_Sum _ _ _ _ _ _ rfl rfl rfl,
            loop_nil_iff, read_sha256_Salt, read_sha256_Sum] at hloop
          obtain ⟨v, rest, fv, rem, hf, -, ⟨ho1, rfl, rfl⟩, v2, rest2, fv2, rem2, rfl, -,
            ⟨hl2, ho2, rfl, rfl⟩, rfl⟩ := hloop
          simp only [List.cons.injEq] at hf
          obtain ⟨rfl, rfl⟩ := hf
          have hr2 : rest2 = [] := hfin
          subst hr2
          obtain ⟨ps1, rfl, -, hrel⟩ := fragsRel_cons_value _ _ _ hrel
          obtain ⟨ps2, rfl, -, hrel⟩ := fragsRel_cons_value _ _ _ hrel
          have := fragsRel_nil_right _ hrel
          subst this
          refine ⟨⟨none, v.val, v2.val⟩, ?_, rfl⟩
          simp [litG, Grammar.sha2Body, ho1, ho2, hl2]
        · cases f0 with
          | group vs =>
            rw [loop_opt_group _ _ _ _ _ _ _ _ rfl rfl hcnt] at hloop
            simp only [loop_req n sha256_Salt _ _ _ _ _ _ rfl rfl rfl] at hloop
            obtain ⟨v, rest, -, -, h, -⟩ := hloop
            cases h
          | value v0 =>
            by_cases hkey : KeyOK sha256_Rounds v0.val
            · rw [loop_opt_value _ _ _ _ _ _ _ _ _ rfl rfl rfl hcnt hkey] at hloop
              have hkey' := (keyOK_named sha256_Rounds v0.val Grammar.kRounds rfl (by decide)).1 hkey
              simp only [loop_req n sha256_Salt _ _ _ _ _ _ rfl rfl rfl,
                loop_req n sha256_Sum _ _ _ _ _ _ rfl rfl rfl,
                loop_nil_iff, read_sha256_Rounds _ _ _ _ hkey', read_sha256_Salt, read_sha256_Sum] at hloop
              obtain ⟨fv0, rem0, ⟨⟨m, hm, rfl⟩, rfl⟩, v, rest, fv, rem, rfl, -, ⟨ho1, rfl, rfl⟩,
                v2, rest2, fv2, rem2, rfl, -, ⟨hl2, ho2, rfl, rfl⟩, rfl⟩ := hloop
              have hr2 : rest2 = [] := hfin
              subst hr2
              obtain ⟨ps0, rfl, -, hrel⟩ := fragsRel_cons_value _ _ _ hrel
              obtain ⟨ps1, rfl, -, hrel⟩ := fragsRel_cons_value _ _ _ hrel
              obtain ⟨ps2, rfl, -, hrel⟩ := fragsRel_cons_value _ _ _ hrel
              have := fragsRel_nil_right _ hrel
              subst this
              refine ⟨⟨some m, v.val, v2.val⟩, ?_, rfl⟩
              have hlen : Grammar.kRounds.length = 7 := rfl
              simp [litG, Grammar.sha2Body, strip_of_prefix _ _ hkey', hlen, hm, ho1, ho2, hl2]
            · rw [loop_opt_nokey _ _ _ _ _ _ _ _ rfl rfl hcnt hkey] at hloop
              simp only [loop_req n sha256_Salt _ _ _ _ _ _ rfl rfl rfl,
                loop_req n sha256_Sum _ _ _ _ _ _ rfl rfl rfl, loop_nil_iff] at hloop
              obtain ⟨v, rest, fv, rem, hf, -, -, v2, rest2, fv2, rem2, rfl, -, -, rfl⟩ := hloop
              simp only [List.cons.injEq] at hf
              obtain ⟨-, rfl⟩ := hf
              have hr2 : rest2 = [] := hfin
              subst hr2
              exact (hcnt (by simp)).elim
    · rintro ⟨f, hG, rfl⟩
      unfold litG at hG
      split at hG
      · next hq =>
        cases hq
        suffices hs : ∃ st', loopFields n [sha256_Rounds, sha256_Salt, sha256_Sum]
            (mkSt fs fs.length (2 : Nat) [(sha256_HashPrefix.index, .str [36, 53, 36])]) = .ok st' ∧
            FinalOK st' ∧ sha256Out f = st'.out from
          let ⟨st', h1, h2⟩ := hs; ⟨_, st', ⟨by decide, rfl⟩, h1, h2⟩
        match ps, hG with
        | [salt, sum], hG =>
          simp only [Grammar.sha2Body, Bool.and_eq_true, beq_iff_eq] at hG
          split at hG
          · next hc =>
            cases hG
            obtain ⟨⟨h1, h2⟩, h3⟩ := hc
            obtain ⟨v, fs1, rfl, hv, hrel⟩ := fragsRel_cons_left _ _ _ (over_A_no_comma _ h1) hrel
            obtain ⟨v2, fs2, rfl, hv2, hrel⟩ := fragsRel_cons_left _ _ _ (over_A_no_comma _ h2) hrel
            have := fragsRel_nil_left _ hrel
            subst this
            subst hv hv2
            rw [loop_opt_skip _ _ _ _ _ _ _ _ rfl (cnt_le [Frag.value v, Frag.value v2] 2 (by simp))]
            simp only [loop_req n sha256_Salt _ _ _ _ _ _ rfl rfl rfl,
              loop_req n sha256_Sum _ _ _ _ _ _ rfl rfl rfl, loop_nil_iff, read_sha256_Salt, read_sha256_Sum]
            exact ⟨_, ⟨v, _, _, _, rfl, keyOK_plain _ _ rfl, ⟨h1, rfl, rfl⟩,
              v2, _, _, _, rfl, keyOK_plain _ _ rfl, ⟨h3, h2, rfl, rfl⟩, rfl⟩, rfl, rfl⟩
          · cases hG
        | [r, salt, sum], hG =>
          simp only [Grammar.sha2Body] at hG
          cases hs : Grammar.strip Grammar.kRounds r with
          | none => simp [hs] at hG
          | some t =>
            simp only [hs] at hG
            cases hn : Grammar.num 32 t with
            | none => simp [hn] at hG
            | some m =>
              simp only [hn, Bool.and_eq_true, beq_iff_eq] at hG
              split at hG
              · next hc =>
                cases hG
                obtain ⟨⟨h1, h2⟩, h3⟩ := hc
                have hr : comma ∉ r := no_comma_of_strip_num _ _ _ _ _ (by decide) hs hn
                obtain ⟨hkey', rfl⟩ := strip_some_prefix _ _ _ hs
                obtain ⟨v0, fs0, rfl, hv0, hrel⟩ := fragsRel_cons_left _ _ _ hr hrel
                obtain ⟨v, fs1, rfl, hv, hrel⟩ := fragsRel_cons_left _ _ _ (over_A_no_comma _ h1) hrel
                obtain ⟨v2, fs2, rfl, hv2, hrel⟩ := fragsRel_cons_left _ _ _ (over_A_no_comma _ h2) hrel
                have := fragsRel_nil_left _ hrel
                subst this
                subst hv0 hv hv2
                have hkey := (keyOK_named sha256_Rounds v0.val Grammar.kRounds rfl (by decide)).2 hkey'
                rw [show Grammar.kRounds.length = 7 from rfl] at hn
                simp only [loop_opt_value n sha256_Rounds _ _ _ _ _ _ _ rfl rfl rfl
                    (cnt_gt [Frag.value v0, Frag.value v, Frag.value v2] 2 (by simp)) hkey,
                  loop_req n sha256_Salt _ _ _ _ _ _ rfl rfl rfl,
                  loop_req n sha256_Sum _ _ _ _ _ _ rfl rfl rfl, loop_nil_iff,
                  read_sha256_Rounds _ _ _ _ hkey', read_sha256_Salt, read_sha256_Sum]
                exact ⟨_, ⟨_, _, ⟨⟨m, hn, rfl⟩, rfl⟩, v, _, _, _, rfl, keyOK_plain _ _ rfl, ⟨h1, rfl, rfl⟩,
                  v2, _, _, _, rfl, keyOK_plain _ _ rfl, ⟨h3, h2, rfl, rfl⟩, rfl⟩, rfl, rfl⟩
              · cases hG
        | [], hG => simp [Grammar.sha2Body] at hG
        | [_], hG => simp [Grammar.sha2Body] at hG
        | _ :: _ :: _ :: _ :: _, hG => simp [Grammar.sha2Body] at hG
      · cases hG

theorem unmarshal_sha256 (h : Bytes) (out : Vals) :
    unmarshal sha256TI h = .ok out ↔ ∃ f, Grammar.sha256 h = some f ∧ out = sha256Out f :=
  unmarshal_lit sha256TI _ (by decide) (Grammar.sha2Body 43) sha256Out tree_sha256 h out

/-! ## sha512 -/

def sha512Out (f : Grammar.Sha2) : Vals :=
  [([0], .str [36, 54, 36])] ++ (match f.rounds with | some m => [([1], .uint m)] | none => []) ++
    [([2], .bytes f.salt), ([3], .bytes f.sum)]

theorem read_sha512_Rounds (e : Nat) (s0 : Bytes) (fv : FVal) (rem : Bytes)
    (hkey : Grammar.kRounds.isPrefixOf s0 = true) :
    readField sha512_Rounds e s0 = .ok (fv, rem) ↔
      (∃ m, Grammar.num 32 (s0.drop 7) = some m ∧ fv = .uint m) ∧ rem = [] := by
  rw [read_uint sha512_Rounds e s0 fv rem 32 rfl rfl rfl rfl rfl rfl,
    bodyOf_named sha512_Rounds s0 Grammar.kRounds rfl (by decide) hkey]
  simp [show sha512_Rounds.opts.hasLength = false from rfl, Grammar.kRounds]

theorem read_sha512_Salt (e : Nat) (s0 : Bytes) (fv : FVal) (rem : Bytes) :
    readField sha512_Salt e s0 = .ok (fv, rem) ↔
      Grammar.over Grammar.A s0 = true ∧ fv = .bytes s0 ∧ rem = [] := by
  rw [read_bytes sha512_Salt e s0 fv rem Grammar.A rfl rfl rfl rfl rfl, bodyOf_plain _ _ rfl]
  simp [show sha512_Salt.opts.hasLength = false from rfl]

theorem read_sha512_Sum (e : Nat) (s0 : Bytes) (fv : FVal) (rem : Bytes) :
    readField sha512_Sum e s0 = .ok (fv, rem) ↔
      s0.length = 86 ∧ Grammar.over Grammar.A s0 = true ∧ fv = .bytes s0 ∧ rem = [] := by
  rw [read_array sha512_Sum e s0 fv rem Grammar.A 86 rfl rfl rfl rfl rfl rfl rfl, bodyOf_plain _ _ rfl]

theorem tree_sha512 (n : Nat) (p : Option Bytes) (fs : List Frag) (ps : List Bytes) (out : Vals)
    (_ : p ≠ some []) (hrel : FragsRel ps fs) :
    unmarshalTree sha512TI n ⟨p, fs⟩ = .ok out ↔
      ∃ f, litG [36, 54, 36] (Grammar.sha2Body 86) p ps = some f ∧ out = sha512Out f := by
  rw [tree_iff]
  have hfields : sha512TI.fields = [sha512_Rounds, sha512_Salt, sha512_Sum] := rfl
  have hnr : sha512TI.numReqValues = 2 := rfl
  rw [hfields, hnr]
  cases p with
  | none =>
    simp [prefixPart_none sha512TI n fs _ sha512_HashPrefix rfl,
      show sha512_HashPrefix.opts.omitEmpty = false from rfl, litG]
  | some q =>
    simp only [prefixPart_some sha512TI n q fs _ sha512_HashPrefix _ rfl rfl rfl rfl rfl]
    constructor
    · rintro ⟨out0, st', ⟨hq, rfl⟩, hloop, hfin, rfl⟩
      have hq' : q = [36, 54, 36] := by simpa using hq
      subst hq'
      cases fs with
      | nil =>
        rw [loop_opt_nil _ _ _ _ _ _ rfl] at hloop
        simp only [loop_req n sha512_Salt _ _ _ _ _ _ rfl rfl rfl] at hloop
        obtain ⟨v, rest, -, -, h, -⟩ := hloop
        cases h
      | cons f0 r =>
        by_cases hcnt : (((f0 :: r).length : Nat) : Int) - ((2 : Nat) : Int) ≤ 0
        · rw [loop_opt_skip _ _ _ _ _ _ _ _ rfl hcnt] at hloop
          simp only [loop_req n sha512_Salt _ _ _ _ _ _ rfl rfl rfl, loop_req n sha512_Sum _ _ _ _ _ _ rfl rfl rfl,
            loop_nil_iff, read_sha512_Salt, read_sha512_Sum] at hloop
          obtain ⟨v, rest, fv, rem, hf, -, ⟨ho1, rfl, rfl⟩, v2, rest2, fv2, rem2, rfl, -,
            ⟨hl2, ho2, rfl, rfl⟩, rfl⟩ := hloop
          simp only [List.cons.injEq] at hf
          obtain ⟨rfl, rfl⟩ := hf
          have hr2 : rest2 = [] := hfin
          subst hr2
          obtain ⟨ps1, rfl, -, hrel⟩ := fragsRel_cons_value _ _ _ hrel
          obtain ⟨ps2, rfl, -, hrel⟩ := fragsRel_cons_value _ _ _ hrel
          have := fragsRel_nil_right _ hrel
          subst this
          refine ⟨⟨none, v.val, v2.val⟩, ?_, rfl⟩
          simp [litG, Grammar.sha2Body, ho1, ho2, hl2]
        · cases f0 with
          | group vs =>
            rw [loop_opt_group _ _ _ _ _ _ _ _ rfl rfl hcnt] at hloop
            simp only [loop_req n sha512_Salt _ _ _ _ _ _ rfl rfl rfl] at hloop
            obtain ⟨v, rest, -, -, h, -⟩ := hloop
            cases h
          | value v0 =>
            by_cases hkey : KeyOK sha512_Rounds v0.val
            · rw [loop_opt_value _ _ _ _ _ _ _ _ _ rfl rfl rfl hcnt hkey] at hloop
              have hkey' := (keyOK_named sha512_Rounds v0.val Grammar.kRounds rfl (by decide)).1 hkey
              simp only [loop_req n sha512_Salt _ _ _ _ _ _ rfl rfl rfl,
                loop_req n sha512_Sum _ _ _ _ _ _ rfl rfl rfl,
                loop_nil_iff, read_sha512_Rounds _ _ _ _ hkey', read_sha512_Salt, read_sha512_Sum] at hloop
              obtain ⟨fv0, rem0, ⟨⟨m, hm, rfl⟩, rfl⟩, v, rest, fv, rem, rfl, -, ⟨ho1, rfl, rfl⟩,
                v2, rest2, fv2, rem2, rfl, -, ⟨hl2, ho2, rfl, rfl⟩, rfl⟩ := hloop
              have hr2 : rest2 = [] := hfin
              subst hr2
              obtain ⟨ps0, rfl, -, hrel⟩ := fragsRel_cons_value _ _ _ hrel
              obtain ⟨ps1, rfl, -, hrel⟩ := fragsRel_cons_value _ _ _ hrel
              obtain ⟨ps2, rfl, -, hrel⟩ := fragsRel_cons_value _ _ _ hrel
              have := fragsRel_nil_right _ hrel
              subst this
              refine ⟨⟨some m, v.val, v2.val⟩, ?_, rfl⟩
              have hlen : Grammar.kRounds.length = 7 := rfl
              simp [litG, Grammar.sha2Body, strip_of_prefix _ _ hkey', hlen, hm, ho1, ho2, hl2]
            · rw [loop_opt_nokey _ _ _ _ _ _ _ _ rfl rfl hcnt hkey] at hloop
              simp only [loop_req n sha512_Salt _ _ _ _ _ _ rfl rfl rfl,
                loop_req n sha512_Sum _ _ _ _ _ _ rfl rfl rfl, loop_nil_iff] at hloop
              obtain ⟨v, rest, fv, rem, hf, -, -, v2, rest2, fv2, rem2, rfl, -, -, rfl⟩ := hloop
              simp only [List.cons.injEq] at hf
              obtain ⟨-, rfl⟩ := hf
              have hr2 : rest2 = [] := hfin
              subst hr2
              exact (hcnt (by simp)).elim
    · rintro ⟨f, hG, rfl⟩
      unfold litG at hG
      split at hG
      · next hq =>
        cases hq
        suffices hs : ∃ st', loopFields n [sha512_Rounds, sha512_Salt, sha512_Sum]
            (mkSt fs fs.length (2 : Nat) [(sha512_HashPrefix.index, .str [36, 54, 36])]) = .ok st' ∧
            FinalOK st' ∧ sha512Out f = st'.out from
          let ⟨st', h1, h2⟩ := hs; ⟨_, st', ⟨by decide, rfl⟩, h1, h2⟩
        match ps, hG with
        | [salt, sum], hG =>
          simp only [Grammar.sha2Body, Bool.and_eq_true, beq_iff_eq] at hG
          split at hG
          · next hc =>
            cases hG
            obtain ⟨⟨h1, h2⟩, h3⟩ := hc
            obtain ⟨v, fs1, rfl, hv, hrel⟩ := fragsRel_cons_left _ _ _ (over_A_no_comma _ h1) hrel
            obtain ⟨v2, fs2, rfl, hv2, hrel⟩ := fragsRel_cons_left _ _ _ (over_A_no_comma _ h2) hrel
            have := fragsRel_nil_left _ hrel
            subst this
            subst hv hv2
            rw [loop_opt_skip _ _ _ _ _ _ _ _ rfl (cnt_le [Frag.value v, Frag.value v2] 2 (by simp))]
            simp only [loop_req n sha512_Salt _ _ _ _ _ _ rfl rfl rfl,
              loop_req n sha512_Sum _ _ _ _ _ _ rfl rfl rfl, loop_nil_iff, read_sha512_Salt, read_sha512_Sum]
            exact ⟨_, ⟨v, _, _, _, rfl, keyOK_plain _ _ rfl, ⟨h1, rfl, rfl⟩,
              v2, _, _, _, rfl, keyOK_plain _ _ rfl, ⟨h3, h2, rfl, rfl⟩, rfl⟩, rfl, rfl⟩
          · cases hG
        | [r, salt, sum], hG =>
          simp only [Grammar.sha2Body] at hG
          cases hs : Grammar.strip Grammar.kRounds r with
          | none => simp [hs] at hG
          | some t =>
            simp only [hs] at hG
            cases hn : Grammar.num 32 t with
            | none => simp [hn] at hG
            | some m =>
              simp only [hn, Bool.and_eq_true, beq_iff_eq] at hG
              split at hG
              · next hc =>
                cases hG
                obtain ⟨⟨h1, h2⟩, h3⟩ := hc
                have hr : comma ∉ r := no_comma_of_strip_num _ _ _ _ _ (by decide) hs hn
                obtain ⟨hkey', rfl⟩ := strip_some_prefix _ _ _ hs
                obtain ⟨v0, fs0, rfl, hv0, hrel⟩ := fragsRel_cons_left _ _ _ hr hrel
                obtain ⟨v, fs1, rfl, hv, hrel⟩ := fragsRel_cons_left _ _ _ (over_A_no_comma _ h1) hrel
                obtain ⟨v2, fs2, rfl, hv2, hrel⟩ := fragsRel_cons_left _ _ _ (over_A_no_comma _ h2) hrel
                have := fragsRel_nil_left _ hrel
                subst this
                subst hv0 hv hv2
                have hkey := (keyOK_named sha512_Rounds v0.val Grammar.kRounds rfl (by decide)).2 hkey'
                rw [show Grammar.kRounds.length = 7 from rfl] at hn
                simp only [loop_opt_value n sha512_Rounds _ _ _ _ _ _ _ rfl rfl rfl
                    (cnt_gt [Frag.value v0, Frag.value v, Frag.value v2] 2 (by simp)) hkey,
                  loop_req n sha512_Salt _ _ _ _ _ _ rfl rfl rfl,
                  loop_req n sha512_Sum _ _ _ _ _ _ rfl rfl rfl, loop_nil_iff,
                  read_sha512_Rounds _ _ _ _ hkey', read_sha512_Salt, read_sha512_Sum]
                exact ⟨_, ⟨_, _, ⟨⟨m, hn, rfl⟩, rfl⟩, v, _, _, _, rfl, keyOK_plain _ _ rfl, ⟨h1, rfl, rfl⟩,
                  v2, _, _, _, rfl, keyOK_plain _ _ rfl, ⟨h3, h2, rfl, rfl⟩, rfl⟩, rfl, rfl⟩
              · cases hG
        | [], hG => simp [Grammar.sha2Body] at hG
        | [_], hG => simp [Grammar.sha2Body] at hG
        | _ :: _ :: _ :: _ :: _, hG => simp [Grammar.sha2Body] at hG
      · cases hG

theorem unmarshal_sha512 (h : Bytes) (out : Vals) :
    unmarshal sha512TI h = .ok out ↔ ∃ f, Grammar.sha512 h = some f ∧ out = sha512Out f :=
  unmarshal_lit sha512TI _ (by decide) (Grammar.sha2Body 86) sha512Out tree_sha512 h out

/-! ## sunmd5 -/

def sunmd5Out (f : Grammar.SunMd5) : Vals :=
  [([0, 0], .str f.pfx), ([0, 1], .uint f.rounds)] ++
    (match f.salt with | some t => [([0, 2], .bytes t)] | none => []) ++
    (if f.sep then [([0, 3], .str [])] else []) ++ [([1], .bytes f.sum)]

theorem read_sunmd5_Rounds (e : Nat) (s0 : Bytes) (fv : FVal) (rem : Bytes)
    (hkey : Grammar.kRounds.isPrefixOf s0 = true) :
    readField sunmd5_Rounds e s0 = .ok (fv, rem) ↔
      (∃ m, Grammar.num 32 (s0.drop 7) = some m ∧ fv = .uint m) ∧ rem = [] := by
  rw [read_uint sunmd5_Rounds e s0 fv rem 32 rfl rfl rfl rfl rfl rfl,
    bodyOf_named sunmd5_Rounds s0 Grammar.kRounds rfl (by decide) hkey]
  simp [show sunmd5_Rounds.opts.hasLength = false from rfl, Grammar.kRounds]

theorem read_sunmd5_Salt (e : Nat) (s0 : Bytes) (fv : FVal) (rem : Bytes) :
    readField sunmd5_Salt e s0 = .ok (fv, rem) ↔
      Grammar.over Grammar.A s0 = true ∧ fv = .bytes s0 ∧ rem = [] := by
  rw [read_bytes sunmd5_Salt e s0 fv rem Grammar.A rfl rfl rfl rfl rfl, bodyOf_plain _ _ rfl]
  simp [show sunmd5_Salt.opts.hasLength = false from rfl]

theorem read_sunmd5_Separator (e : Nat) (s0 : Bytes) (fv : FVal) (rem : Bytes) :
    readField sunmd5_Separator e s0 = .ok (fv, rem) ↔ s0 = [] ∧ fv = .str [] ∧ rem = [] := by
  rw [read_string sunmd5_Separator e s0 fv rem Grammar.A rfl rfl rfl rfl rfl, bodyOf_plain _ _ rfl]
  simp only [show sunmd5_Separator.opts.hasLength = true from rfl,
    show sunmd5_Separator.opts.length = 0 from rfl, forall_const, List.length_eq_zero_iff]
  constructor
  · rintro ⟨rfl, -, rfl, rfl⟩; exact ⟨rfl, rfl, rfl⟩
  · rintro ⟨rfl, rfl, rfl⟩; exact ⟨rfl, rfl, rfl, rfl⟩

theorem read_sunmd5_Sum (e : Nat) (s0 : Bytes) (fv : FVal) (rem : Bytes) :
    readField sunmd5_Sum e s0 = .ok (fv, rem) ↔
      s0.length = 22 ∧ Grammar.over Grammar.A s0 = true ∧ fv = .bytes s0 ∧ rem = [] := by
  rw [read_array sunmd5_Sum e s0 fv rem Grammar.A 22 rfl rfl rfl rfl rfl rfl rfl, bodyOf_plain _ _ rfl]

theorem sunRounds_iff (r : Bytes) (m : Nat) :
    Grammar.sunRounds r = some m ↔
      Grammar.kRounds.isPrefixOf r = true ∧ Grammar.num 32 (r.drop 7) = some m := by
  unfold Grammar.sunRounds
  constructor
  · intro h
    cases hs : Grammar.strip Grammar.kRounds r with
    | none => simp [hs] at h
    | some t =>
      simp only [hs] at h
      obtain ⟨h1, rfl⟩ := strip_some_prefix _ _ _ hs
      exact ⟨h1, h⟩
  · rintro ⟨h1, h2⟩
    rw [strip_of_prefix _ _ h1]
    exact h2

theorem sunRounds_no_comma (r : Bytes) (m : Nat) (h : Grammar.sunRounds r = some m) : comma ∉ r := by
  obtain ⟨h1, h2⟩ := (sunRounds_iff r m).1 h
  exact no_comma_of_strip_num Grammar.kRounds r _ 32 m (by decide) (strip_of_prefix _ _ h1) h2

theorem tree_sunmd5 (n : Nat) (p : Option Bytes) (fs : List Frag) (ps : List Bytes) (out : Vals)
    (_ : p ≠ some []) (hrel : FragsRel ps fs) :
    unmarshalTree sunmd5TI n ⟨p, fs⟩ = .ok out ↔
      ∃ f, anyG Grammar.sunmd5Prefixes Grammar.sunmd5Body p ps = some f ∧ out = sunmd5Out f := by
  rw [tree_iff]
  have hfields : sunmd5TI.fields = [sunmd5_Rounds, sunmd5_Salt, sunmd5_Separator, sunmd5_Sum] := rfl
  have hnr : sunmd5TI.numReqValues = 2 := rfl
  rw [hfields, hnr]
  cases p with
  | none =>
    simp [prefixPart_none sunmd5TI n fs _ sunmd5_HashPrefix rfl,
      show sunmd5_HashPrefix.opts.omitEmpty = false from rfl, anyG]
  | some q =>
    simp only [prefixPart_some sunmd5TI n q fs _ sunmd5_HashPrefix _ rfl rfl rfl rfl rfl]
    have hmem : ([[36, 109, 100, 53, 44], [36, 109, 100, 53, 36]] : List Bytes).contains q = true ↔
        q ∈ Grammar.sunmd5Prefixes := by simp [Grammar.sunmd5Prefixes]
    have hkeyR : ∀ s0, KeyOK sunmd5_Rounds s0 ↔ Grammar.kRounds.isPrefixOf s0 = true :=
      fun s0 => keyOK_named sunmd5_Rounds s0 Grammar.kRounds rfl (by decide)
    constructor
    · rintro ⟨out0, st', ⟨hq, rfl⟩, hloop, hfin, rfl⟩
      simp only [loop_req n sunmd5_Rounds _ _ _ _ _ _ rfl rfl rfl] at hloop
      obtain ⟨v0, rest0, fv0, rem0, rfl, hk0, hr0, hloop⟩ := hloop
      have hk0' := (hkeyR _).1 hk0
      rw [read_sunmd5_Rounds _ _ _ _ hk0'] at hr0
      obtain ⟨⟨m, hm, rfl⟩, rfl⟩ := hr0
      have hsr : Grammar.sunRounds v0.val = some m := (sunRounds_iff _ _).2 ⟨hk0', hm⟩
      obtain ⟨ps0, rfl, -, hrel⟩ := fragsRel_cons_value _ _ _ hrel
      have hq' := hmem.1 hq
      cases rest0 with
      | nil =>
        rw [loop_opt_nil _ _ _ _ _ _ rfl, loop_opt_nil _ _ _ _ _ _ rfl] at hloop
        simp only [loop_req n sunmd5_Sum _ _ _ _ _ _ rfl rfl rfl] at hloop
        obtain ⟨v, rest, -, -, h, -⟩ := hloop
        cases h
      | cons f1 r1 =>
        cases r1 with
        | nil =>
          rw [loop_opt_skip (ho := rfl), loop_opt_skip (ho := rfl)] at hloop
          · simp only [loop_req n sunmd5_Sum _ _ _ _ _ _ rfl rfl rfl, loop_nil_iff, read_sunmd5_Sum] at hloop
            obtain ⟨v, rest, fv, rem, hf, -, ⟨hl2, ho2, rfl, rfl⟩, rfl⟩ := hloop
            simp only [List.cons.injEq] at hf
            obtain ⟨rfl, rfl⟩ := hf
            obtain ⟨ps1, rfl, -, hrel⟩ := fragsRel_cons_value _ _ _ hrel
            have := fragsRel_nil_right _ hrel
            subst this
            refine ⟨⟨q, m, none, false, v.val⟩, ?_, rfl⟩
            simp [anyG, hq', Grammar.sunmd5Body, hsr, ho2, hl2]
          · simp
          · simp
        | cons f2 r2 =>
          cases f1 with
          | group vs =>
            rw [loop_opt_group (ho := rfl) (hg := rfl), loop_opt_group (ho := rfl) (hg := rfl)] at hloop
            · simp only [loop_req n sunmd5_Sum _ _ _ _ _ _ rfl rfl rfl] at hloop
              obtain ⟨v, rest, -, -, h, -⟩ := hloop
              cases h
            · simp only [List.length_cons]; omega
            · simp only [List.length_cons]; omega
          | value v1 =>
            rw [loop_opt_value (ho := rfl) (hg := rfl) (hinl := rfl) (hkey := keyOK_plain _ _ rfl)] at hloop
            case hcnt => simp only [List.length_cons]; omega
            simp only [read_sunmd5_Salt] at hloop
            obtain ⟨fv1, rem1, ⟨ho1, rfl, rfl⟩, hloop⟩ := hloop
            obtain ⟨ps1, rfl, -, hrel⟩ := fragsRel_cons_value _ _ _ hrel
            cases r2 with
            | nil =>
              rw [loop_opt_skip (ho := rfl)] at hloop
              case hcnt => simp
              simp only [loop_req n sunmd5_Sum _ _ _ _ _ _ rfl rfl rfl, loop_nil_iff, read_sunmd5_Sum] at hloop
              obtain ⟨v, rest, fv, rem, hf, -, ⟨hl2, ho2, rfl, rfl⟩, rfl⟩ := hloop
              simp only [List.cons.injEq] at hf
              obtain ⟨rfl, rfl⟩ := hf
              obtain ⟨ps2, rfl, -, hrel⟩ := fragsRel_cons_value _ _ _ hrel
              have := fragsRel_nil_right _ hrel
              subst this
              refine ⟨⟨q, m, some v1.val, false, v.val⟩, ?_, rfl⟩
              simp [anyG, hq', Grammar.sunmd5Body, hsr, ho1, ho2, hl2]
            | cons f3 r3 =>
              cases f2 with
              | group vs =>
                rw [loop_opt_group (ho := rfl) (hg := rfl)] at hloop
                case hcnt => simp only [List.length_cons]; omega
                simp only [loop_req n sunmd5_Sum _ _ _ _ _ _ rfl rfl rfl] at hloop
                obtain ⟨v, rest, -, -, h, -⟩ := hloop
                cases h
              | value v2 =>
                rw [loop_opt_value (ho := rfl) (hg := rfl) (hinl := rfl) (hkey := keyOK_plain _ _ rfl)] at hloop
                case hcnt => simp only [List.length_cons]; omega
                simp only [read_sunmd5_Separator, loop_req n sunmd5_Sum _ _ _ _ _ _ rfl rfl rfl, loop_nil_iff,
                  read_sunmd5_Sum] at hloop
                obtain ⟨fv2, rem2, ⟨he2, rfl, rfl⟩, v, rest, fv, rem, hf, -, ⟨hl2, ho2, rfl, rfl⟩, rfl⟩ := hloop
                simp only [List.cons.injEq] at hf
                obtain ⟨rfl, rfl⟩ := hf
                have hr3 : r3 = [] := hfin
                subst hr3
                obtain ⟨ps2, rfl, -, hrel⟩ := fragsRel_cons_value _ _ _ hrel
                obtain ⟨ps3, rfl, -, hrel⟩ := fragsRel_cons_value _ _ _ hrel
                have := fragsRel_nil_right _ hrel
                subst this
                refine ⟨⟨q, m, some v1.val, true, v.val⟩, ?_, rfl⟩
                simp [anyG, hq', Grammar.sunmd5Body, hsr, ho1, he2, ho2, hl2]
    · rintro ⟨f, hG, rfl⟩
      unfold anyG at hG
      simp only at hG
      split at hG
      · next hq =>
        suffices hs : ∃ st', loopFields n [sunmd5_Rounds, sunmd5_Salt, sunmd5_Separator, sunmd5_Sum]
            (mkSt fs fs.length (2 : Nat) [(sunmd5_HashPrefix.index, .str q)]) = .ok st' ∧
            FinalOK st' ∧ sunmd5Out f = st'.out from
          let ⟨st', h1, h2⟩ := hs; ⟨_, st', ⟨hmem.2 hq, rfl⟩, h1, h2⟩
        match ps, hG with
        | [r, sum], hG =>
          simp only [Grammar.sunmd5Body] at hG
          cases hsr : Grammar.sunRounds r with
          | none => simp [hsr] at hG
          | some m =>
            simp only [hsr, Bool.and_eq_true, beq_iff_eq] at hG
            split at hG
            · next hc =>
              cases hG
              obtain ⟨h2, h3⟩ := hc
              obtain ⟨v0, fs0, rfl, hv0, hrel⟩ := fragsRel_cons_left _ _ _ (sunRounds_no_comma _ _ hsr) hrel
              obtain ⟨v2, fs2, rfl, hv2, hrel⟩ := fragsRel_cons_left _ _ _ (over_A_no_comma _ h2) hrel
              have := fragsRel_nil_left _ hrel
              subst this
              subst hv0 hv2
              obtain ⟨hk, hm⟩ := (sunRounds_iff _ _).1 hsr
              refine ex_req rfl rfl rfl ((hkeyR _).2 hk)
                ((read_sunmd5_Rounds _ _ _ _ hk).2 ⟨⟨m, hm, rfl⟩, rfl⟩) ?_
              rw [loop_opt_skip (ho := rfl), loop_opt_skip (ho := rfl)]
              · refine ex_req rfl rfl rfl (keyOK_plain _ _ rfl)
                  ((read_sunmd5_Sum _ _ _ _).2 ⟨h3, h2, rfl, rfl⟩) ?_
                exact ex_nil ⟨rfl, rfl⟩
              · simp
              · simp
            · cases hG
        | [r, salt, sum], hG =>
          simp only [Grammar.sunmd5Body] at hG
          cases hsr : Grammar.sunRounds r with
          | none => simp [hsr] at hG
          | some m =>
            simp only [hsr, Bool.and_eq_true, beq_iff_eq] at hG
            split at hG
            · next hc =>
              cases hG
              obtain ⟨⟨h1, h2⟩, h3⟩ := hc
              obtain ⟨v0, fs0, rfl, hv0, hrel⟩ := fragsRel_cons_left _ _ _ (sunRounds_no_comma _ _ hsr) hrel
              obtain ⟨v1, fs1, rfl, hv1, hrel⟩ := fragsRel_cons_left _ _ _ (over_A_no_comma _ h1) hrel
              obtain ⟨v2, fs2, rfl, hv2, hrel⟩ := fragsRel_cons_left _ _ _ (over_A_no_comma _ h2) hrel
              have := fragsRel_nil_left _ hrel
              subst this
              subst hv0 hv1 hv2
              obtain ⟨hk, hm⟩ := (sunRounds_iff _ _).1 hsr
              refine ex_req rfl rfl rfl ((hkeyR _).2 hk)
                ((read_sunmd5_Rounds _ _ _ _ hk).2 ⟨⟨m, hm, rfl⟩, rfl⟩) ?_
              refine ex_opt_value rfl rfl rfl (by simp) (keyOK_plain _ _ rfl)
                ((read_sunmd5_Salt _ _ _ _).2 ⟨h1, rfl, rfl⟩) ?_
              rw [loop_opt_skip (ho := rfl)]
              case hcnt => simp
              refine ex_req rfl rfl rfl (keyOK_plain _ _ rfl)
                ((read_sunmd5_Sum _ _ _ _).2 ⟨h3, h2, rfl, rfl⟩) ?_
              exact ex_nil ⟨rfl, rfl⟩
            · cases hG
        | [r, salt, e, sum], hG =>
          simp only [Grammar.sunmd5Body] at hG
          cases hsr : Grammar.sunRounds r with
          | none => simp [hsr] at hG
          | some m =>
            simp only [hsr, Bool.and_eq_true, beq_iff_eq, List.isEmpty_iff] at hG
            split at hG
            · next hc =>
              cases hG
              obtain ⟨⟨⟨h1, rfl⟩, h2⟩, h3⟩ := hc
              obtain ⟨v0, fs0, rfl, hv0, hrel⟩ := fragsRel_cons_left _ _ _ (sunRounds_no_comma _ _ hsr) hrel
              obtain ⟨v1, fs1, rfl, hv1, hrel⟩ := fragsRel_cons_left _ _ _ (over_A_no_comma _ h1) hrel
              obtain ⟨ve, fse, rfl, hve, hrel⟩ := fragsRel_cons_left _ _ _ (by simp) hrel
              obtain ⟨v2, fs2, rfl, hv2, hrel⟩ := fragsRel_cons_left _ _ _ (over_A_no_comma _ h2) hrel
              have := fragsRel_nil_left _ hrel
              subst this
              subst hv0 hv1 hv2
              obtain ⟨hk, hm⟩ := (sunRounds_iff _ _).1 hsr
              refine ex_req rfl rfl rfl ((hkeyR _).2 hk)
                ((read_sunmd5_Rounds _ _ _ _ hk).2 ⟨⟨m, hm, rfl⟩, rfl⟩) ?_
              refine ex_opt_value rfl rfl rfl (by simp) (keyOK_plain _ _ rfl)
                ((read_sunmd5_Salt _ _ _ _).2 ⟨h1, rfl, rfl⟩) ?_
              refine ex_opt_value rfl rfl rfl (by simp) (keyOK_plain _ _ rfl)
                ((read_sunmd5_Separator _ _ _ _).2 ⟨hve, rfl, rfl⟩) ?_
              refine ex_req rfl rfl rfl (keyOK_plain _ _ rfl)
                ((read_sunmd5_Sum _ _ _ _).2 ⟨h3, h2, rfl, rfl⟩) ?_
              exact ex_nil ⟨rfl, rfl⟩
            · cases hG
        | [], hG => simp [Grammar.sunmd5Body] at hG
        | [_], hG => simp [Grammar.sunmd5Body] at hG
        | _ :: _ :: _ :: _ :: _ :: _, hG => simp [Grammar.sunmd5Body] at hG
      · cases hG

theorem unmarshal_sunmd5 (h : Bytes) (out : Vals) :
    unmarshal sunmd5TI h = .ok out ↔ ∃ f, Grammar.sunmd5 h = some f ∧ out = sunmd5Out f :=
  unmarshal_any sunmd5TI _ (by decide) Grammar.sunmd5Body sunmd5Out tree_sunmd5 h out

end GoCrypt.Accept
