import GoCrypt.Proofs.CodecL2Pieces

/-!
# The field loop of `Unmarshal` on the fragments of what `Marshal` wrote — step lemmas

One lemma per situation of `stepField` that occurs on a string written by Marshal: optional fields
(skipped by count, passing over a fragment that is not theirs, at the end of the input), grouped
parameters (a lone required member, opening a group, later members, absent optional members).
-/

namespace GoCrypt.Codec
open Bytes GoCrypt.Parse Layers GoCrypt.Respell GoCrypt.CodecDomain GoCrypt.RefParse

/-! ## More step lemmas -/

/-- An optional field when the input is exhausted: nothing happens. -/
theorem stepField_eof_opt (hashLen : Nat) (fi : FieldInfo) (st : LoopSt)
    (ho : fi.opts.omitEmpty = true) (hsg : st.group = none) (hf : st.frags = []) :
    stepField hashLen fi st = .ok st := by
  unfold stepField
  simp only [hsg, hf, ho, Option.isSome_none, Bool.and_false, Bool.false_eq_true, if_false, pure_bind,
    if_true]
  rfl

/-- An optional named stand-alone field facing a value that does not carry its name: nothing happens. -/
theorem stepField_pass_value (hashLen : Nat) (fi : FieldInfo) (st : LoopSt) (v : VNode) (rest : List Frag)
    (ho : fi.opts.omitEmpty = true) (hg : fi.opts.group = false) (hsg : st.group = none)
    (hf : st.frags = .value v :: rest) (hcnt : ¬ (st.numValues - st.numReq ≤ 0))
    (hp : fi.opts.param ≠ []) (hkey : (fi.opts.param ++ [equals]).isPrefixOf v.val = false) :
    stepField hashLen fi st = .ok st := by
  unfold stepField
  simp only [hsg, hf, ho, hg, Option.isSome_none, Bool.and_false, Bool.false_eq_true, if_false, pure_bind,
    Option.isNone_none, Bool.true_and, decide_eq_true_eq, hcnt, Bool.false_and, Bool.not_false,
    if_true, hp, hkey, false_or]
  rfl

/-- An optional grouped field facing a value fragment, no group open: nothing happens. -/
theorem stepField_gopt_value (hashLen : Nat) (fi : FieldInfo) (st : LoopSt) (v : VNode) (rest : List Frag)
    (ho : fi.opts.omitEmpty = true) (hg : fi.opts.group = true) (hsg : st.group = none)
    (hf : st.frags = .value v :: rest) (hcnt : ¬ (st.numValues - st.numReq ≤ 0)) :
    stepField hashLen fi st = .ok st := by
  unfold stepField
  simp only [hsg, hf, ho, hg, Bool.not_true, Bool.false_and, Bool.false_eq_true, if_false, pure_bind,
    Option.isNone_none, Bool.true_and, decide_eq_true_eq, hcnt, Bool.or_self, if_true]
  rfl

/-- An optional grouped field facing a value fragment while a (synthetic) group is open. -/
theorem stepField_gopt_value_open (hashLen : Nat) (fi : FieldInfo) (st : LoopSt) (g : List VNode) (v : VNode)
    (rest : List Frag) (ho : fi.opts.omitEmpty = true) (hg : fi.opts.group = true) (hsg : st.group = some g)
    (hf : st.frags = .value v :: rest) :
    stepField hashLen fi st = .ok st := by
  unfold stepField
  simp only [hsg, hf, ho, hg, Bool.not_true, Bool.false_and, Bool.false_eq_true, if_false, pure_bind,
    Option.isNone_some, Bool.and_false, Bool.or_self, if_true]
  rfl

/-- A required grouped field facing a lone value fragment that carries its name. -/
theorem stepField_group_lone (hashLen : Nat) (fi : FieldInfo) (st : LoopSt) (v : VNode) (rest : List Frag)
    (s rem : Bytes) (fv : FVal)
    (hg : fi.opts.group = true) (ho : fi.opts.omitEmpty = false) (hinl : fi.opts.inline = false)
    (hsg : st.group = none) (hf : st.frags = .value v :: rest)
    (hkey : (fi.opts.param ++ [equals]).isPrefixOf v.val = true)
    (hft : fieldText fi "value" v.fin v.val = .ok (s, rem))
    (hsv : storeValue fi "value" v.fin s = .ok fv) :
    stepField hashLen fi st = .ok { st with
      group := some [v], numGroupValues := 0, out := st.out ++ [(fi.index, fv)] } := by
  unfold stepField
  simp only [hg, hsg, hf, ho, Bool.not_true, Bool.false_and, Bool.false_eq_true, if_false,
    Bool.not_false, Bool.or_true, Bool.and_self, if_true, List.find?, hkey, hft, hsv, bind, Except.bind,
    pure, Except.pure, hinl, replaceFirst, Nat.sub_self]

/-- A grouped field (required, or optional and not skipped by count) opening a group fragment in which
it finds its member. -/
theorem stepField_group_first' (hashLen : Nat) (fi : FieldInfo) (st : LoopSt) (vs : List VNode)
    (rest : List Frag) (v : VNode) (s rem : Bytes) (fv : FVal)
    (hg : fi.opts.group = true) (hinl : fi.opts.inline = false)
    (hskip : ¬ (fi.opts.omitEmpty = true ∧ st.numValues - st.numReq ≤ 0))
    (hsg : st.group = none) (hf : st.frags = .group vs :: rest)
    (hfind : vs.find? (fun v => (fi.opts.param ++ [equals]).isPrefixOf v.val) = some v)
    (hft : fieldText fi "value" v.fin v.val = .ok (s, rem))
    (hsv : storeValue fi "value" v.fin s = .ok fv) :
    stepField hashLen fi st = .ok { st with
      group := some vs, numGroupValues := vs.length - 1, out := st.out ++ [(fi.index, fv)] } := by
  have hsk : (fi.opts.omitEmpty && decide (st.numValues - st.numReq ≤ 0)) = false := by
    cases ho : fi.opts.omitEmpty with
    | false => rfl
    | true =>
      have : ¬ (st.numValues - st.numReq ≤ 0) := fun h => hskip ⟨ho, h⟩
      simp [this]
  unfold stepField
  simp only [hg, hsg, hf, Bool.not_true, Bool.false_and, Bool.false_eq_true, if_false,
    Option.isNone_none, Bool.and_true, hsk, Bool.true_or, Bool.and_self, if_true, hfind, hft, hsv, bind,
    Except.bind, pure, Except.pure, hinl, replaceFirst_self]

/-- An optional grouped field whose member is absent opens the group fragment all the same. -/
theorem stepField_group_open_miss (hashLen : Nat) (fi : FieldInfo) (st : LoopSt) (vs : List VNode)
    (rest : List Frag) (hg : fi.opts.group = true) (ho : fi.opts.omitEmpty = true)
    (hcnt : ¬ (st.numValues - st.numReq ≤ 0))
    (hsg : st.group = none) (hf : st.frags = .group vs :: rest)
    (hfind : vs.find? (fun v => (fi.opts.param ++ [equals]).isPrefixOf v.val) = none) :
    stepField hashLen fi st = .ok { st with group := some vs, numGroupValues := vs.length } := by
  unfold stepField
  simp only [hg, hsg, hf, ho, Bool.not_true, Bool.false_and, Bool.false_eq_true, if_false, pure_bind,
    Option.isNone_none, Bool.true_and, decide_eq_true_eq, hcnt, Bool.true_or, if_true, hfind]
  rfl

/-- A grouped field taking its member from the group already opened (required or optional). -/
theorem stepField_group_next' (hashLen : Nat) (fi : FieldInfo) (st : LoopSt) (g vs : List VNode)
    (rest : List Frag) (v : VNode) (s rem : Bytes) (fv : FVal)
    (hg : fi.opts.group = true) (hinl : fi.opts.inline = false)
    (hsg : st.group = some g) (hf : st.frags = .group vs :: rest)
    (hfind : g.find? (fun v => (fi.opts.param ++ [equals]).isPrefixOf v.val) = some v)
    (hft : fieldText fi "value" v.fin v.val = .ok (s, rem))
    (hsv : storeValue fi "value" v.fin s = .ok fv) :
    stepField hashLen fi st = .ok { st with
      frags := .group g :: rest, numGroupValues := st.numGroupValues - 1,
      out := st.out ++ [(fi.index, fv)] } := by
  unfold stepField
  simp only [hg, hsg, hf, Bool.not_true, Bool.false_and, Bool.false_eq_true, if_false,
    Option.isNone_some, Bool.and_false, Bool.true_or, Bool.and_self, if_true, hfind, hft, hsv, bind,
    Except.bind, pure, Except.pure, hinl, replaceFirst_self]

/-- An optional grouped field whose member is absent from the open group: nothing happens. -/
theorem stepField_group_next_miss (hashLen : Nat) (fi : FieldInfo) (st : LoopSt) (g vs : List VNode)
    (rest : List Frag) (hg : fi.opts.group = true) (ho : fi.opts.omitEmpty = true)
    (hsg : st.group = some g) (hf : st.frags = .group vs :: rest)
    (hfind : g.find? (fun v => (fi.opts.param ++ [equals]).isPrefixOf v.val) = none) :
    stepField hashLen fi st = .ok st := by
  unfold stepField
  simp only [hg, hsg, hf, ho, Bool.not_true, Bool.false_and, Bool.false_eq_true, if_false, pure_bind,
    Option.isNone_some, Bool.and_false, Bool.true_or, Bool.and_self, if_true, hfind]
  cases st
  simp_all
  rfl

theorem loopFields_append (hashLen : Nat) : ∀ (xs ys : List FieldInfo) (st : LoopSt),
    loopFields hashLen (xs ++ ys) st = loopFields hashLen xs st >>= loopFields hashLen ys
  | [], ys, st => rfl
  | x :: xs, ys, st => by
    simp only [List.cons_append, loopFields]
    cases h : stepField hashLen x st with
    | error e => rfl
    | ok st1 =>
      simp only [bind, Except.bind]
      exact loopFields_append hashLen xs ys st1

end GoCrypt.Codec
